(* C08 / C01: the spread-reward account covers what the positions can claim.  Part 3: swaps.  The growth of a swap's fee
   accrues to the positions in range at each step; summed over the positions with their liquidity this is, per step,
   (growth per unit) x (active liquidity) <= fee x scaling factor (QuoTruncate), and the spread-reward account receives
   ceil(total fee). *)
From Coq Require Import ZArith List Bool Lia.
Import ListNotations.
From Osmo Require Import Base.DecModel CL.TickMath CL.CLMath CL.CLPool CL.CLSwap CL.CLStep
  CLR.Accum CLR.Rewards CLR.RSwap CLR.RStep C07.Base C07.TickLemmas C07.LP C07.SwapDir C07.Swap C07.Proofs C03.Rounding C03.Steps C03.Path
  C08.Proj C08.Telescope C08.View C08.Static C08.Stages C08.Ops C08.OpInside C08.SwapTrace C08.Crux
  C08.Claim C08.Conseq C08.Frame C08.Never C08.SwapWf C08.Dom C08.StaticOk C08.Paid C08.PaidOps.
Open Scope Z_scope.

(* growth that accrues to the range [l, u) along the events of a swap (token-in denomination) *)
Fixpoint sgrowth (zfo : bool) (c : Z) (evs : list sev) (l u : Z) : Z :=
  match evs with
  | [] => 0
  | EvGrow g :: r => (if in_rng l u c then g else 0) + sgrowth zfo c r l u
  | EvCross i :: r => sgrowth zfo (if zfo then i - 1 else i) r l u
  | EvMove t :: r => sgrowth zfo t r l u
  end.
(* the same, weighted by the liquidity in range at each step *)
Fixpoint evalue (P : list position) (zfo : bool) (c : Z) (evs : list sev) : Z :=
  match evs with
  | [] => 0
  | EvGrow g :: r => g * sum_liq (f_range c) P + evalue P zfo c r
  | EvCross i :: r => evalue P zfo (if zfo then i - 1 else i) r
  | EvMove t :: r => evalue P zfo t r
  end.

Lemma evalue_app : forall P zfo e1 e2 c, evalue P zfo c (e1 ++ e2) = evalue P zfo c e1 + evalue P zfo (run_tick zfo c e1) e2.
Proof.
  induction e1 as [|e r IH]; intros e2 c; simpl; [lia|]. destruct e as [g|i|t]; rewrite IH; lia.
Qed.

Lemma sum_liq_zsum : forall c P, sum_liq (f_range c) P = zsum (fun p => if in_rng (ps_lower p) (ps_upper p) c then ps_liq p else 0) P.
Proof. induction P as [|p P IH]; simpl; [reflexivity|]. rewrite IH. unfold wt, f_range, in_rng. reflexivity. Qed.

Lemma zsum_sgrowth : forall P zfo evs c,
  zsum (fun p => ps_liq p * sgrowth zfo c evs (ps_lower p) (ps_upper p)) P = evalue P zfo c evs.
Proof.
  induction evs as [|e r IH]; intro c; simpl.
  - induction P; simpl; lia.
  - destruct e as [g|i|t]; [|apply IH|apply IH].
    rewrite <- IH, sum_liq_zsum, <- zsum_scale, <- zsum_plus. apply zsum_ext. intros p _. destruct (in_rng _ _ _); lia.
Qed.

(* the abstract trace of the spread component of denomination d grows inside [l, u) by sgrowth (token in) or nothing *)
Lemma strace_growth_CS : forall d zfo evs din w pl now pending w' p' c l u,
  apply_events w din pl now pending evs = Some (w', p') ->
  in_range_growth (view (CS d) w c (dc_one din pending)) (strace (CS d) zfo din w pl now pending evs) l u
    = if Bool.eqb d (negb (din =? 0)) then sgrowth zfo c evs l u else 0.
Proof.
  induction evs as [|e r IH]; intros din w pl now pending w' p' c l u H; [simpl; destruct (Bool.eqb _ _); reflexivity|].
  destruct e as [g|i|t]; cbn [strace sgrowth] in *; simpl in H.
  - destruct (dchk (pending + g)) as [p|] eqn:E; [|discriminate H]. apply dchk_some in E. subst p.
    cbn [in_range_growth grow_inside]. rewrite <- view_pend_grow. rewrite (IH _ _ _ _ _ _ _ c l u H).
    simpl. rewrite dsel_one. unfold in_rng. destruct (Bool.eqb d (negb (din =? 0))); destruct ((l <=? c) && (c <? u)); lia.
  - destruct (update_uptime w pl now) as [w1|] eqn:E1; [|discriminate H].
    destruct (cross_trackers w1 din pending i) as [w2|] eqn:E2; [|discriminate H].
    destruct (update_uptime_tt _ _ _ _ E1) as [T [SPR _]].
    assert (V1 : a_step (view (CS d) w c (dc_one din pending)) (AGrow (sel_G (CS d) w1 - sel_G (CS d) w)) = view (CS d) w1 c (dc_one din pending)).
    { unfold view. simpl. rewrite T. f_equal. lia. }
    cbn [in_range_growth]. rewrite V1. cbn [grow_inside].
    rewrite <- (cross_trackers_view (CS d) _ _ _ _ _ c (if zfo then i - 1 else i) E2).
    rewrite (IH _ _ _ _ _ _ _ _ l u H).
    assert (G0 : sel_G (CS d) w1 - sel_G (CS d) w = 0) by (simpl; rewrite SPR; lia). rewrite G0.
    simpl. destruct ((l <=? c) && (c <? u)); lia.
  - cbn [in_range_growth grow_inside].
    assert (A : a_step (view (CS d) w c (dc_one din pending)) (AMove t) = view (CS d) w t (dc_one din pending)) by reflexivity.
    rewrite A, (IH _ _ _ _ _ _ _ _ l u H). reflexivity.
Qed.

(* ---------- one step: growth per unit x active liquidity <= fee x scaling ---------- *)
Lemma update_fee_growth_value : forall sc st fee st1, update_fee_growth sc st fee = Some st1 -> 0 <= fee -> 0 < sc -> 0 <= ss_liq st ->
  0 <= ss_growth st1 - ss_growth st /\ (ss_growth st1 - ss_growth st) * ss_liq st <= fee * sc /\ ss_fee st1 = ss_fee st + fee.
Proof.
  unfold update_fee_growth. intros sc st fee st1 H Hf Hsc Hl. pose proof P18_pos as HP.
  assert (FS : 0 <= fee * sc) by nia.
  destruct (if sc =? P18 then Some fee else dchk (d_mul_truncate fee sc)) as [scaled|] eqn:ES; [|discriminate H]. cbv beta iota in H.
  assert (SB : 0 <= scaled /\ scaled * P18 <= fee * sc).
  { destruct (sc =? P18) eqn:E.
    - apply Z.eqb_eq in E. inversion ES; subst. split; [exact Hf|lia].
    - apply dchk_some in ES. subst scaled. unfold d_mul_truncate, chop_trunc.
      destruct (quot_bounds (fee * sc) P18 FS HP) as [A _]. split; [apply Z.quot_pos; lia|lia]. }
  destruct SB as [S0 S1].
  destruct (dchk (ss_fee st + fee)) as [tot|] eqn:ET; [|discriminate H]. cbv beta iota in H. apply dchk_some in ET. subst tot.
  destruct (ss_liq st =? 0) eqn:EL.
  - inversion H; subst. simpl. apply Z.eqb_eq in EL. rewrite EL. lia.
  - apply Z.eqb_neq in EL.
    destruct (dchk (d_quo_truncate scaled (ss_liq st))) as [per|] eqn:EP; [|discriminate H]. cbv beta iota in H. apply dchk_some in EP.
    destruct (dchk (ss_growth st + per)) as [g|] eqn:EG; [|discriminate H]. apply dchk_some in EG. inversion H; subst. simpl.
    unfold d_quo_truncate. assert (LP : 0 < ss_liq st) by lia. assert (N : 0 <= scaled * P18) by nia.
    destruct (quot_bounds (scaled * P18) (ss_liq st) N LP) as [A _].
    assert (Q0 : 0 <= Z.quot (scaled * P18) (ss_liq st)) by (apply Z.quot_pos; lia).
    replace (ss_growth st + Z.quot (scaled * P18) (ss_liq st) - ss_growth st) with (Z.quot (scaled * P18) (ss_liq st)) by lia.
    split; [exact Q0|]. split; [|reflexivity]. nia.
Qed.

Lemma step_events_value : forall s zfo sc st nt info rest nts computed dspec dcalc fee st' iter',
  LI s zfo st ((nt, info) :: rest) -> 0 <= ss_liq st -> 0 <= fee -> 0 < sc ->
  after_step zfo true sc st ((nt, info) :: rest) nt info nts computed dspec dcalc fee = Some (st', iter') ->
  evalue (s_pos s) zfo (ss_tick st) (step_events zfo true sc st nt nts computed fee) <= fee * sc /\
  0 <= evalue (s_pos s) zfo (ss_tick st) (step_events zfo true sc st nt nts computed fee) /\
  ss_fee st' = ss_fee st + fee.
Proof.
  intros s zfo sc st nt info rest nts computed dspec dcalc fee st' iter' [L1 _] Hl Hf Hsc H.
  unfold after_step in H. unfold step_events.
  destruct (update_fee_growth sc st fee) as [st1|] eqn:E1; [|discriminate H]. cbv beta iota in H.
  destruct (update_fee_growth_value _ _ _ _ E1 Hf Hsc Hl) as [G0 [GV F]].
  assert (TAIL : forall tl, (forall g, ~ In (EvGrow g) tl) -> forall c, evalue (s_pos s) zfo c tl = 0).
  { induction tl as [|e r IHr]; intros NG c; simpl; [reflexivity|]. destruct e as [g|i|t].
    - exfalso. apply (NG g). left. reflexivity.
    - apply IHr. intros g X. apply (NG g). right. exact X.
    - apply IHr. intros g X. apply (NG g). right. exact X. }
  assert (FEE : ss_fee st' = ss_fee st + fee).
  { destruct (dchk (ss_remaining st1 - dspec)) as [rem|]; [|discriminate H]. cbv beta iota in H.
    destruct (dchk (ss_calculated st1 + dcalc)) as [calc|]; [|discriminate H]. cbv beta iota in H.
    destruct (nts =? computed).
    - unfold cross_tick in H. simpl in H. destruct (dchk _); [|discriminate H]. inversion H; subst. simpl. exact F.
    - destruct (edge_case zfo nts computed); [discriminate H|]. destruct (negb (ss_sqrt st =? computed)).
      + destruct (calculate_sqrt_price_to_tick computed); [|discriminate H]. inversion H; subst. simpl. exact F.
      + inversion H; subst. simpl. exact F. }
  cbn [evalue]. rewrite TAIL.
  - rewrite <- L1. split; [lia|]. split; [nia|exact FEE].
  - intros g X. destruct (nts =? computed); [destruct X as [X|[]]; discriminate X|].
    destruct (edge_case zfo nts computed); [destruct X|]. destruct (negb (ss_sqrt st =? computed)); [|destruct X].
    destruct (calculate_sqrt_price_to_tick computed); [destruct X as [X|[]]; discriminate X|destruct X].
Qed.

(* ---------- the whole loop ---------- *)
Lemma eloop_out_value : forall s fuel zfo sc limit st iter noprog st' evs, Inv s -> 0 < sc ->
  sqrt_price_limit zfo = Some limit -> LI s zfo st iter ->
  eloop_out_given_in fuel zfo true (p_spread (s_pool s)) sc limit st iter noprog = (Some st', evs) ->
  0 <= evalue (s_pos s) zfo (ss_tick st) evs <= (ss_fee st' - ss_fee st) * sc.
Proof.
  intros s fuel. induction fuel as [|f IH]; intros zfo sc limit st iter noprog st' evs I Hsc HL L H; simpl in H; [discriminate H|].
  destruct ((smallest_dec <? ss_remaining st) && negb (ss_sqrt st =? limit)) eqn:Econd; [|inversion H; subst; simpl; lia].
  apply andb_true_iff in Econd. destruct Econd as [Erem _]. apply Z.ltb_lt in Erem. unfold smallest_dec in Erem.
  destruct iter as [|[nt info] rest]; [discriminate H|].
  destruct (tick_to_sqrt_price nt) as [nts|] eqn:Snt; [|discriminate H].
  destruct (LI_facts s zfo st nt info rest nts I L Snt) as [Fl [Fr Fz]].
  rewrite (sqrt_target_next zfo limit nt nts HL Fr Snt) in H.
  destruct (compute_out_given_in zfo (p_spread (s_pool s)) (ss_sqrt st) nts (ss_liq st) (ss_remaining st)) as [[[[computed ain] aout] fee]|] eqn:EC; [|discriminate H].
  destruct (negb (progress_ok computed (ss_sqrt st) ain aout)); [discriminate H|].
  destruct (dchk (ain + fee)) as [infee|]; [|discriminate H].
  destruct (after_step zfo true sc st ((nt, info) :: rest) nt info nts computed infee aout fee) as [[st1 iter1]|] eqn:EA; [|discriminate H].
  pose proof L as L0. destruct L0 as [_ [L2 _]].
  assert (Dir : computed = nts \/ computed = ss_sqrt st \/ dir_ok zfo (ss_sqrt st) computed).
  { destruct (compute_out_given_in_dir _ _ _ _ _ _ _ _ _ _ EC Fl L2 Erem (inv_spread s I) Fz) as [D|D]; [left; assumption|right; right; assumption]. }
  assert (L' : LI s zfo st1 iter1) by (eapply after_step_LI; try eassumption; reflexivity).
  destruct (after_step_sqrt_rem _ _ _ _ _ _ _ _ _ _ _ _ _ _ EA) as [Q1 _].
  assert (Cpos : 0 < computed) by (destruct L' as [_ [P _]]; rewrite Q1 in P; exact P).
  destruct (out_given_in_step _ _ _ _ _ _ _ _ _ _ EC Fl L2 Cpos Erem (inv_spread s I) Fz) as [_ [_ [F0 _]]].
  destruct (step_events_value _ _ _ _ _ _ _ _ _ _ _ _ _ _ L Fl F0 Hsc EA) as [V1 [V0 FE]].
  pose proof (after_step_tick _ _ _ _ _ _ _ _ _ _ _ _ _ _ EA) as T1.
  destruct (ain =? 0).
  - destruct (swap_no_progress_limit <=? noprog); [discriminate H|].
    destruct (eloop_out_given_in f zfo true (p_spread (s_pool s)) sc limit st1 iter1 (noprog + 1)) as [r1 evs1] eqn:EL. inversion H; subst.
    rewrite evalue_app, <- T1. pose proof (IH _ _ _ _ _ _ _ _ I Hsc HL L' EL). nia.
  - destruct (eloop_out_given_in f zfo true (p_spread (s_pool s)) sc limit st1 iter1 noprog) as [r1 evs1] eqn:EL. inversion H; subst.
    rewrite evalue_app, <- T1. pose proof (IH _ _ _ _ _ _ _ _ I Hsc HL L' EL). nia.
Qed.

Lemma eloop_in_value : forall s fuel zfo sc limit st iter noprog st' evs, Inv s -> 0 < sc ->
  sqrt_price_limit zfo = Some limit -> LI s zfo st iter -> 0 <= ss_remaining st ->
  eloop_in_given_out fuel zfo true (p_spread (s_pool s)) sc limit st iter noprog = (Some st', evs) ->
  0 <= evalue (s_pos s) zfo (ss_tick st) evs <= (ss_fee st' - ss_fee st) * sc.
Proof.
  intros s fuel. induction fuel as [|f IH]; intros zfo sc limit st iter noprog st' evs I Hsc HL L HR H; simpl in H; [discriminate H|].
  destruct ((smallest_dec <? ss_remaining st) && negb (ss_sqrt st =? limit)) eqn:Econd; [|inversion H; subst; simpl; lia].
  apply andb_true_iff in Econd. destruct Econd as [Erem _]. apply Z.ltb_lt in Erem. unfold smallest_dec in Erem.
  destruct iter as [|[nt info] rest]; [discriminate H|].
  destruct (tick_to_sqrt_price nt) as [nts|] eqn:Snt; [|discriminate H].
  destruct (LI_facts s zfo st nt info rest nts I L Snt) as [Fl [Fr Fz]].
  rewrite (sqrt_target_next zfo limit nt nts HL Fr Snt) in H.
  destruct (compute_in_given_out zfo (p_spread (s_pool s)) (ss_sqrt st) nts (ss_liq st) (ss_remaining st)) as [[[[computed aout] ain] fee]|] eqn:EC; [|discriminate H].
  destruct (negb (progress_ok computed (ss_sqrt st) ain aout)); [discriminate H|].
  destruct (dchk (ain + fee)) as [infee|]; [|discriminate H].
  destruct (after_step zfo true sc st ((nt, info) :: rest) nt info nts computed aout infee fee) as [[st1 iter1]|] eqn:EA; [|discriminate H].
  pose proof L as L0. destruct L0 as [_ [L2 _]].
  assert (Dir : computed = nts \/ computed = ss_sqrt st \/ dir_ok zfo (ss_sqrt st) computed).
  { destruct (compute_in_given_out_dir _ _ _ _ _ _ _ _ _ _ EC Fl L2 Erem) as [D|D]; [left; assumption|right; right; assumption]. }
  assert (L' : LI s zfo st1 iter1) by (eapply after_step_LI; try eassumption; reflexivity).
  destruct (after_step_sqrt_rem _ _ _ _ _ _ _ _ _ _ _ _ _ _ EA) as [Q1 [Q2 _]].
  assert (Cpos : 0 < computed) by (destruct L' as [_ [P _]]; rewrite Q1 in P; exact P).
  assert (SPF : 0 <= p_spread (s_pool s) < P18) by (pose proof (inv_spread s I); rewrite P18_val; lia).
  destruct (in_given_out_step _ _ _ _ _ _ _ _ _ _ EC Fl L2 Cpos HR SPF) as [_ [_ [F0 [AR _]]]].
  destruct (step_events_value _ _ _ _ _ _ _ _ _ _ _ _ _ _ L Fl F0 Hsc EA) as [V1 [V0 FE]].
  pose proof (after_step_tick _ _ _ _ _ _ _ _ _ _ _ _ _ _ EA) as T1.
  assert (HR1 : 0 <= ss_remaining st1) by lia.
  destruct (aout =? 0).
  - destruct (swap_no_progress_limit <=? noprog); [discriminate H|].
    destruct (eloop_in_given_out f zfo true (p_spread (s_pool s)) sc limit st1 iter1 (noprog + 1)) as [r1 evs1] eqn:EL. inversion H; subst.
    rewrite evalue_app, <- T1. pose proof (IH _ _ _ _ _ _ _ _ I Hsc HL L' HR1 EL). nia.
  - destruct (eloop_in_given_out f zfo true (p_spread (s_pool s)) sc limit st1 iter1 noprog) as [r1 evs1] eqn:EL. inversion H; subst.
    rewrite evalue_app, <- T1. pose proof (IH _ _ _ _ _ _ _ _ I Hsc HL L' HR1 EL). nia.
Qed.

(* ---------- whole swaps ---------- *)
Lemma swap_in_value : forall s zfo amt evs r, Inv s -> 0 < p_scaling (s_pool s) ->
  swap_events s true zfo amt = Some evs -> compute_out_amt_given_in s zfo true amt = Some r ->
  0 <= evalue (s_pos s) zfo (p_tick (s_pool s)) evs <= sr_fee r * p_scaling (s_pool s).
Proof.
  unfold swap_events, compute_out_amt_given_in. intros s zfo amt evs r I Hsc HE HC.
  destruct (swap_setup s zfo) as [[limit iter]|] eqn:ES; [|discriminate HE]. cbv beta iota in HE, HC.
  destruct (swap_setup_LI s zfo limit iter (d_from_int amt) I ES) as [HL [_ L]].
  destruct (eloop_out_given_in _ _ _ _ _ _ _ _ _) as [ro evs1] eqn:EL.
  pose proof (eloop_out_fst (swap_fuel (s_ticks s)) zfo true (p_spread (s_pool s)) (p_scaling (s_pool s)) limit
                (mkSS (d_from_int amt) 0 (p_sqrt (s_pool s)) (p_tick (s_pool s)) (p_liq (s_pool s)) 0 0) iter 0) as FST.
  rewrite EL in FST. simpl in FST. rewrite <- FST in HC.
  destruct ro as [st|]; [|discriminate HE]. inversion HE; subst evs1. cbv beta iota in HC.
  destruct (ss_remaining st <? 0); [discriminate HC|]. inversion HC; subst r. simpl.
  pose proof (eloop_out_value _ _ _ _ _ _ _ _ _ _ I Hsc HL L EL) as V. simpl in V. rewrite Z.sub_0_r in V. exact V.
Qed.

Lemma swap_out_value : forall s zfo amt evs r, Inv s -> 0 < p_scaling (s_pool s) -> 0 <= amt ->
  swap_events s false zfo amt = Some evs -> compute_in_amt_given_out s zfo true amt = Some r ->
  0 <= evalue (s_pos s) zfo (p_tick (s_pool s)) evs <= sr_fee r * p_scaling (s_pool s).
Proof.
  unfold swap_events, compute_in_amt_given_out. intros s zfo amt evs r I Hsc Ha HE HC.
  destruct (swap_setup s zfo) as [[limit iter]|] eqn:ES; [|discriminate HE]. cbv beta iota in HE, HC.
  destruct (swap_setup_LI s zfo limit iter (d_from_int amt) I ES) as [HL [_ L]].
  destruct (eloop_in_given_out _ _ _ _ _ _ _ _ _) as [ro evs1] eqn:EL.
  pose proof (eloop_in_fst (swap_fuel (s_ticks s)) zfo true (p_spread (s_pool s)) (p_scaling (s_pool s)) limit
                (mkSS (d_from_int amt) 0 (p_sqrt (s_pool s)) (p_tick (s_pool s)) (p_liq (s_pool s)) 0 0) iter 0) as FST.
  rewrite EL in FST. simpl in FST. rewrite <- FST in HC.
  destruct ro as [st|]; [|discriminate HE]. inversion HE; subst evs1. cbv beta iota in HC.
  destruct (ss_remaining st <? 0); [discriminate HC|]. inversion HC; subst r. simpl.
  assert (HR : 0 <= ss_remaining (mkSS (d_from_int amt) 0 (p_sqrt (s_pool s)) (p_tick (s_pool s)) (p_liq (s_pool s)) 0 0)).
  { simpl. unfold d_from_int. pose proof P18_pos. nia. }
  pose proof (eloop_in_value _ _ _ _ _ _ _ _ _ _ I Hsc HL L HR EL) as V. simpl in V. rewrite Z.sub_0_r in V. exact V.
Qed.

(* ---------- the operation ---------- *)
Lemma owed_frame2 : forall d w w' cur cur' p delta,
  acc_get (rw_spread w') (ps_id p) = acc_get (rw_spread w) (ps_id p) ->
  ins d w' cur' (ps_lower p) (ps_upper p) = ins d w cur (ps_lower p) (ps_upper p) + delta ->
  owed d w' cur' p = owed d w cur p + delta * shares_of w p.
Proof.
  intros d w w' cur cur' p delta R I. unfold owed, shares_of, owedr. rewrite R, I.
  destruct (acc_get (rw_spread w) (ps_id p)); lia.
Qed.

Lemma swap_rewards_parts : forall w s ei zfo amt now w' evs, swap_rewards w s ei zfo amt now = Some w' ->
  swap_events s ei zfo amt = Some evs ->
  (exists w1 pending, apply_events w (denom_in zfo) (p_liq (s_pool s)) now 0 evs = Some (w1, pending)) /\
  ac_recs (rw_spread w') = ac_recs (rw_spread w) /\ ac_total (rw_spread w') = ac_total (rw_spread w).
Proof.
  intros w s ei zfo amt now w' evs H HE. pose proof (swap_rewards_recs _ _ _ _ _ _ _ H) as RC.
  unfold swap_rewards in H. rewrite HE in H. simpl in H.
  destruct (apply_events w (if zfo then 0 else 1) (p_liq (s_pool s)) now 0 evs) as [[w1 pending]|] eqn:EA; [|discriminate H]. simpl in H.
  destruct (acc_add_to (rw_spread w1) _) as [a|] eqn:EF; [|discriminate H]. inversion H; subst. simpl.
  split; [exists w1, pending; exact EA|]. split; [exact RC|].
  destruct (acc_add_to_recs _ _ _ EF) as [_ T]. rewrite T, (apply_events_spread _ _ _ _ _ _ _ _ EA). reflexivity.
Qed.

Lemma paid_swap_core : forall rs rs' o res ei zfo amt evs F fu,
  PI rs -> 0 < sc_of rs -> rhandler rs o = Some (rs', res) -> is_swap o = true -> swap_args o = Some (ei, zfo, amt) ->
  swap_events (r_base rs) ei zfo amt = Some evs ->
  swap_rewards (r_rw rs) (r_base rs) ei zfo amt (s_time (r_base rs)) = Some (r_rw rs') ->
  s_pos (r_base rs') = s_pos (r_base rs) -> s_next_id (r_base rs') = s_next_id (r_base rs) -> sc_of rs' = sc_of rs ->
  b_spread (s_bank (r_base rs')) = (fst (b_spread (s_bank (r_base rs))) + fst (pick zfo fu), snd (b_spread (s_bank (r_base rs))) + snd (pick zfo fu)) ->
  F <= fu * P18 -> 0 <= evalue (s_pos (r_base rs)) zfo (cur_tick rs) evs <= F * sc_of rs ->
  PI rs' /\ forall d, Phi d rs' <= Phi d rs.
Proof.
  intros rs rs' o res ei zfo amt evs F fu [RI [RM [TOT FR]]] HSC H S SA HE HW SP NX SCE BK HF HV.
  pose proof (rinv_handler _ _ _ _ H RI) as RI'. pose proof RI as [I [D _]].
  destruct (swap_rewards_parts _ _ _ _ _ _ _ _ HW HE) as [[w1 [pending EA]] [RC TC]].
  assert (RG : forall j, acc_get (rw_spread (r_rw rs')) j = acc_get (rw_spread (r_rw rs)) j) by (intro j; unfold acc_get; rewrite RC; reflexivity).
  split.
  - split; [exact RI'|]. split; [|split].
    + intros p Hp. rewrite SP in Hp. destruct (RM p Hp) as [r [R Sh]]. exists r. rewrite RG. auto.
    + rewrite TC, SP. exact TOT.
    + intros j Hj. rewrite RG. apply FR. rewrite <- NX. exact Hj.
  - intro d. pose proof (PI_PT rs RI) as HPT.
    set (sel := Bool.eqb d (negb (denom_in zfo =? 0))).
    assert (OW : Owed d rs' = Owed d rs + (if sel then evalue (s_pos (r_base rs)) zfo (cur_tick rs) evs else 0)).
    { unfold Owed. rewrite SP.
      assert (E : zsum (owed d (r_rw rs') (cur_tick rs')) (s_pos (r_base rs))
                  = zsum (fun p => owed d (r_rw rs) (cur_tick rs) p
                            + (if sel then ps_liq p * sgrowth zfo (cur_tick rs) evs (ps_lower p) (ps_upper p) else 0)) (s_pos (r_base rs))).
      { apply zsum_ext. intros p Hp. destruct (HPT p Hp) as [Hlu [St [Kl Ku]]].
        pose proof (swap_op_wf (CS d) rs o rs' res I D H S) as W.
        pose proof (op_inside_swap (CS d) rs o rs' res _ _ H S Hlu (vmap_sorted_any _ _ _ St) Kl Ku W) as INS.
        assert (TR : in_range_growth (rview (CS d) rs) (op_trace (CS d) rs o) (ps_lower p) (ps_upper p)
                     = if sel then sgrowth zfo (cur_tick rs) evs (ps_lower p) (ps_upper p) else 0).
        { unfold op_trace. rewrite SA, HE. unfold rview.
          replace dc0 with (dc_one (denom_in zfo) 0) by (unfold dc_one, denom_in; destruct zfo; reflexivity).
          apply (strace_growth_CS d zfo evs (denom_in zfo) (r_rw rs) _ _ 0 w1 pending _ _ _ EA). }
        rewrite TR in INS.
        rewrite (owed_frame2 d (r_rw rs) (r_rw rs') (cur_tick rs) (cur_tick rs') p _ (RG _) INS).
        rewrite (recs_match_shares rs p RM Hp). destruct sel; lia. }
      rewrite E, zsum_plus. f_equal. destruct sel.
      - apply zsum_sgrowth.
      - clear. induction (s_pos (r_base rs)); simpl; lia. }
    unfold Phi. rewrite OW, SCE. unfold spread_bal. rewrite BK.
    assert (PS : pr_sel d (fst (b_spread (s_bank (r_base rs))) + fst (pick zfo fu), snd (b_spread (s_bank (r_base rs))) + snd (pick zfo fu))
                 = pr_sel d (b_spread (s_bank (r_base rs))) + (if sel then fu else 0)).
    { unfold sel, denom_in, pick. destruct zfo; destruct d; simpl; lia. }
    rewrite PS. set (bal := pr_sel d (b_spread (s_bank (r_base rs)))) in *. set (ev := evalue _ _ _ _) in *.
    set (sc := sc_of rs) in *. pose proof P18_pos as HP. destruct sel; [|lia].
    assert (F * sc <= fu * P18 * sc) by nia. clearbody ev bal sc. nia.
Qed.

Lemma update_pool_for_swap_bspread : forall s sender zfo r s', update_pool_for_swap s sender zfo r = Some s' ->
  let fu := d_truncate_int (d_ceil (sr_fee r)) in
  b_spread (s_bank s') = (fst (b_spread (s_bank s)) + fst (pick zfo fu), snd (b_spread (s_bank s)) + snd (pick zfo fu)) /\
  s_pos s' = s_pos s /\ s_next_id s' = s_next_id s /\ p_scaling (s_pool s') = p_scaling (s_pool s).
Proof.
  intros s sender zfo r s' H. cbv zeta.
  destruct (update_pool_for_swap_spec _ _ _ _ _ H) as [bb Hb].
  split; [|rewrite Hb; simpl; auto].
  unfold update_pool_for_swap in H. cbv zeta in H.
  destruct (sr_in r - d_truncate_int (d_ceil (sr_fee r)) <=? 0); [discriminate H|].
  destruct (user_bal (s_bank s) sender); [|discriminate H]. cbv beta iota in H.
  destruct (pick zfo (sr_in r - d_truncate_int (d_ceil (sr_fee r)))) as [i0 i1] eqn:EPi.
  destruct (send_user_to_pool (s_bank s) sender i0 i1) as [b1|] eqn:E1; [|discriminate H]. cbv beta iota in H.
  match type of H with (do b2 <- ?X; _) = _ => destruct X as [b2|] eqn:E2; [|discriminate H] end. cbv beta iota in H.
  destruct (sr_out r <=? 0); [discriminate H|].
  destruct (pick (negb zfo) (sr_out r)) as [o0 o1] eqn:EPo.
  destruct (send_pool_to_user b2 sender o0 o1) as [b3|] eqn:E3; [|discriminate H]. cbv beta iota in H.
  match type of H with (if ?b then None else _) = _ => destruct b; [discriminate H|] end.
  inversion H; subst. simpl.
  rewrite (send_pool_to_user_bspread _ _ _ _ _ E3).
  pose proof (send_user_to_pool_bspread _ _ _ _ _ E1) as B1.
  destruct (d_truncate_int (d_ceil (sr_fee r)) =? 0) eqn:EZ.
  - inversion E2; subst b2. rewrite B1. apply Z.eqb_eq in EZ. rewrite EZ. destruct (b_spread (s_bank s)) as [x y]. destruct zfo; unfold pick; cbn [fst snd]; rewrite ?Z.add_0_r; reflexivity.
  - destruct (user_bal b1 sender) as [ub1|]; [|discriminate E2]. cbv beta iota in E2.
    destruct (pick zfo (d_truncate_int (d_ceil (sr_fee r)))) as [f0 f1].
    destruct ((fst ub1 <? f0) || (snd ub1 <? f1)); [discriminate E2|]. inversion E2; subst. simpl. rewrite B1. reflexivity.
Qed.

Lemma fee_ceil : forall F, 0 <= F -> F <= d_truncate_int (d_ceil F) * P18.
Proof.
  intros a Ha. unfold d_truncate_int, d_ceil. pose proof P18_pos as HP.
  destruct (quot_bounds a P18 Ha HP) as [A B]. pose proof (Z.quot_rem' a P18) as QR.
  destruct (0 <? Z.rem a P18) eqn:E; rewrite Z.quot_mul by lia; [lia|]. apply Z.ltb_ge in E.
  pose proof (Z.rem_bound_pos a P18 Ha HP). lia.
Qed.

Theorem paid_swap : forall rs o rs' res, PI rs -> 0 < sc_of rs -> rhandler rs o = Some (rs', res) -> is_swap o = true ->
  PI rs' /\ sc_of rs' = sc_of rs /\ forall d, Phi d rs' <= Phi d rs.
Proof.
  intros rs o rs' res HPI HSC H S. pose proof HPI as [[I _] _].
  destruct o as [b|? ?|? ?|? ? ? ? ? ?]; simpl in S; try discriminate S.
  destruct b as [? ? ? ? ? ? ?|? ? ?|? ? ? ? ? ?|? ? ?|sender zfo amt mo|sender zfo amt mi|?]; simpl in S; try discriminate S.
  - pose proof H as H0. simpl in H. unfold r_swap_in in H.
    destruct (swap_exact_in (r_base rs) sender zfo amt mo) as [[s' out]|] eqn:E1; [|discriminate H]. simpl in H.
    destruct (swap_rewards (r_rw rs) (r_base rs) true zfo amt (s_time (r_base rs))) as [w|] eqn:E2; [|discriminate H].
    inversion H; subst rs' res. clear H.
    destruct (swap_events (r_base rs) true zfo amt) as [evs|] eqn:E3; [|unfold swap_rewards in E2; rewrite E3 in E2; discriminate E2].
    unfold swap_exact_in in E1. destruct (negb (0 <? amt) || negb (0 <? mo)); [discriminate E1|].
    destruct (compute_out_amt_given_in (r_base rs) zfo true amt) as [r0|] eqn:EC; [|discriminate E1]. cbv beta iota in E1.
    destruct (negb (0 <? sr_out r0)); [discriminate E1|].
    destruct (update_pool_for_swap (r_base rs) sender zfo r0) as [s1|] eqn:EU; [|discriminate E1]. cbv beta iota in E1.
    destruct (sr_out r0 <? mo); [discriminate E1|]. inversion E1; subst s1 out. clear E1.
    destruct (update_pool_for_swap_bspread _ _ _ _ _ EU) as [BK [SP [NX SCL]]]. cbv zeta in BK.
    pose proof (swap_in_value _ _ _ _ _ I HSC E3 EC) as V.
    assert (F0 : 0 <= sr_fee r0) by (unfold sc_of in HSC; nia).
    destruct (paid_swap_core rs (mkRS s' w) _ _ true zfo amt evs (sr_fee r0) _ HPI HSC H0 eq_refl eq_refl E3 E2 SP NX SCL BK (fee_ceil _ F0) V) as [A B].
    split; [exact A|]. split; [exact SCL|exact B].
  - pose proof H as H0. simpl in H. unfold r_swap_out in H.
    destruct (swap_exact_out (r_base rs) sender zfo amt mi) as [[s' tin]|] eqn:E1; [|discriminate H]. simpl in H.
    destruct (swap_rewards (r_rw rs) (r_base rs) false zfo amt (s_time (r_base rs))) as [w|] eqn:E2; [|discriminate H].
    inversion H; subst rs' res. clear H.
    destruct (swap_events (r_base rs) false zfo amt) as [evs|] eqn:E3; [|unfold swap_rewards in E2; rewrite E3 in E2; discriminate E2].
    unfold swap_exact_out in E1. destruct (negb (0 <? amt) || negb (0 <? mi)) eqn:EV; [discriminate E1|].
    apply orb_false_iff in EV. destruct EV as [EV _]. apply negb_false_iff, Z.ltb_lt in EV.
    destruct (compute_in_amt_given_out (r_base rs) zfo true amt) as [r0|] eqn:EC; [|discriminate E1]. cbv beta iota in E1.
    destruct (negb (0 <? sr_in r0)); [discriminate E1|].
    destruct (update_pool_for_swap (r_base rs) sender zfo r0) as [s1|] eqn:EU; [|discriminate E1]. cbv beta iota in E1.
    destruct (mi <? sr_in r0); [discriminate E1|]. inversion E1; subst s1 tin. clear E1.
    destruct (update_pool_for_swap_bspread _ _ _ _ _ EU) as [BK [SP [NX SCL]]]. cbv zeta in BK.
    pose proof (swap_out_value _ _ _ _ _ I HSC (Z.lt_le_incl _ _ EV) E3 EC) as V.
    assert (F0 : 0 <= sr_fee r0) by (unfold sc_of in HSC; nia).
    destruct (paid_swap_core rs (mkRS s' w) _ _ false zfo amt evs (sr_fee r0) _ HPI HSC H0 eq_refl eq_refl E3 E2 SP NX SCL BK (fee_ceil _ F0) V) as [A B].
    split; [exact A|]. split; [exact SCL|exact B].
Qed.
