(* C08: a swap as a trace of the abstract tick-snapshot machine (the crossing half of growth_inside_telescopes). *)
From Coq Require Import ZArith List Bool Lia.
Import ListNotations.
From Osmo Require Import Base.DecModel CL.TickMath CL.CLMath CL.CLPool CL.CLSwap CL.CLStep
  CLR.Accum CLR.Rewards CLR.RSwap CLR.RStep C08.Proj C08.Telescope C08.View C08.Static C08.Stages C08.Ops.
Open Scope Z_scope.

(* the current tick of the running swap after the events *)
Fixpoint run_tick (zfo : bool) (c : Z) (evs : list sev) : Z :=
  match evs with
  | [] => c
  | EvGrow _ :: r => run_tick zfo c r
  | EvCross i :: r => run_tick zfo (if zfo then i - 1 else i) r
  | EvMove t :: r => run_tick zfo t r
  end.

(* the abstract events of component k that replaying the swap events performs: a fee charge grows the spread component
   of the token-in denomination; a crossing first brings the uptime accumulators up to the block time (growth of the
   uptime components) and then flips the trackers of the crossed tick; landing inside a bucket moves the current tick *)
Fixpoint strace (k : comp) (zfo : bool) (din : Z) (w : rwd) (pl now pending : Z) (evs : list sev) : list aev :=
  match evs with
  | [] => []
  | EvGrow g :: r => AGrow (sel_pend k (dc_one din g)) :: strace k zfo din w pl now (pending + g) r
  | EvMove t :: r => AMove t :: strace k zfo din w pl now pending r
  | EvCross i :: r =>
    match update_uptime w pl now with
    | Some w1 =>
      match cross_trackers w1 din pending i with
      | Some w2 => AGrow (sel_G k w1 - sel_G k w) :: ACross i (if zfo then i - 1 else i) :: strace k zfo din w2 pl now pending r
      | None => []
      end
    | None => []
    end
  end.

Lemma sel_pend_one_add : forall k din a b, sel_pend k (dc_one din (a + b)) = sel_pend k (dc_one din a) + sel_pend k (dc_one din b).
Proof.
  intros k din a b. destruct k as [kd|ku kd]; simpl; [|reflexivity]. rewrite !dsel_one. destruct (Bool.eqb _ _); lia.
Qed.

Lemma view_pend_grow : forall k w c din p g,
  view k w c (dc_one din (p + g)) = a_step (view k w c (dc_one din p)) (AGrow (sel_pend k (dc_one din g))).
Proof. intros. unfold view. simpl. rewrite sel_pend_one_add. f_equal. lia. Qed.

Lemma apply_events_view : forall k zfo evs w din pl now pending w' pending' c,
  apply_events w din pl now pending evs = Some (w', pending') ->
  view k w' (run_tick zfo c evs) (dc_one din pending') =
    a_run (view k w c (dc_one din pending)) (strace k zfo din w pl now pending evs).
Proof.
  induction evs as [|e r IH]; intros w din pl now pending w' pending' c H; simpl in H.
  - inversion H; subst. reflexivity.
  - destruct e as [g|i|t]; simpl.
    + destruct (dchk (pending + g)) as [p|] eqn:E; [|discriminate H]. apply dchk_some in E. subst p.
      rewrite (IH _ _ _ _ _ _ _ c H). rewrite view_pend_grow. reflexivity.
    + destruct (update_uptime w pl now) as [w1|] eqn:E1; [|discriminate H].
      destruct (cross_trackers w1 din pending i) as [w2|] eqn:E2; [|discriminate H].
      rewrite (IH _ _ _ _ _ _ _ (if zfo then i - 1 else i) H). simpl.
      rewrite (cross_trackers_view k _ _ _ _ _ c (if zfo then i - 1 else i) E2).
      destruct (update_uptime_tt _ _ _ _ E1) as [T _].
      assert (V : view k w1 c (dc_one din pending) = a_step (view k w c (dc_one din pending)) (AGrow (sel_G k w1 - sel_G k w))).
      { unfold view. simpl. rewrite T. f_equal. lia. }
      rewrite V. reflexivity.
    + rewrite (IH _ _ _ _ _ _ _ t H). reflexivity.
Qed.

(* no initialisation / removal of ticks inside a swap *)
Lemma strace_keep : forall k zfo evs din w pl now pending j, evs_keep (strace k zfo din w pl now pending evs) j.
Proof.
  induction evs as [|e r IH]; intros; simpl; [exact I|]. destruct e as [g|i|t]; simpl.
  - split; [exact I|apply IH].
  - destruct (update_uptime w pl now) as [w1|]; [|exact I]. destruct (cross_trackers w1 din pending i) as [w2|]; [|exact I].
    simpl. split; [exact I|]. split; [exact I|apply IH].
  - split; [exact I|apply IH].
Qed.

(* folding the pending growth into the spread accumulator at the end of the swap does not change the view *)
Lemma view_fold_pending : forall k w c din pending a,
  acc_add_to (rw_spread w) (dc_one din pending) = Some a ->
  view k (set_spread_acc w a) c dc0 = view k w c (dc_one din pending).
Proof.
  unfold acc_add_to. intros k w c din pending a H. obind H. inversion H; subst. clear H.
  unfold view. simpl. f_equal. destruct k as [kd|ku kd]; simpl.
  - rewrite (dsel_add kd _ _ _ E). rewrite dsel_dc0. lia.
  - reflexivity.
Qed.

Definition denom_in (zfo : bool) : Z := if zfo then 0 else 1.

Lemma swap_rewards_view : forall k w s exact_in zfo amount now w' evs,
  swap_rewards w s exact_in zfo amount now = Some w' -> swap_events s exact_in zfo amount = Some evs ->
  view k w' (run_tick zfo (p_tick (s_pool s)) evs) dc0 =
    a_run (view k w (p_tick (s_pool s)) dc0) (strace k zfo (denom_in zfo) w (p_liq (s_pool s)) now 0 evs).
Proof.
  unfold swap_rewards. intros k w s exact_in zfo amount now w' evs H E. rewrite E in H.
  fold (denom_in zfo) in H.
  destruct (apply_events w (denom_in zfo) (p_liq (s_pool s)) now 0 evs) as [[w1 pending]|] eqn:EA; [|discriminate H].
  destruct (acc_add_to (rw_spread w1) (dc_one (denom_in zfo) pending)) as [a|] eqn:EF; [|discriminate H].
  inversion H; subst. rewrite (view_fold_pending k _ _ _ _ _ EF).
  rewrite (apply_events_view k zfo _ _ _ _ _ _ _ _ (p_tick (s_pool s)) EA).
  f_equal. unfold view. f_equal. destruct k as [kd|ku kd]; simpl; [|reflexivity]. rewrite dsel_one, dsel_dc0. destruct (Bool.eqb _ _); reflexivity.
Qed.

(* ---------- the tick of the swap state follows the events ---------- *)
Lemma update_fee_growth_tick : forall sc st fee st', update_fee_growth sc st fee = Some st' -> ss_tick st' = ss_tick st.
Proof.
  unfold update_fee_growth. intros sc st fee st' H.
  destruct (if sc =? P18 then Some fee else dchk (d_mul_truncate fee sc)); [|discriminate H]. simpl in H.
  destruct (dchk (ss_fee st + fee)); [|discriminate H]. simpl in H.
  destruct (ss_liq st =? 0); [inversion H; reflexivity|].
  destruct (dchk (d_quo_truncate z (ss_liq st))); [|discriminate H]. simpl in H.
  destruct (dchk (ss_growth st + z1)); [|discriminate H]. inversion H; reflexivity.
Qed.

Lemma after_step_tick : forall zfo accum sc st iter nt info nts computed dspec dcalc fee st' iter',
  after_step zfo accum sc st iter nt info nts computed dspec dcalc fee = Some (st', iter') ->
  ss_tick st' = run_tick zfo (ss_tick st) (step_events zfo accum sc st nt nts computed fee).
Proof.
  unfold after_step, step_events. intros zfo accum sc st iter nt info nts computed dspec dcalc fee st' iter' H.
  destruct (if accum then update_fee_growth sc st fee else Some st) as [st1|] eqn:E1; [|discriminate H]. simpl in H.
  assert (T1 : ss_tick st1 = ss_tick st).
  { destruct accum; [eapply update_fee_growth_tick; exact E1|inversion E1; reflexivity]. }
  destruct (dchk (ss_remaining st1 - dspec)) as [rem|]; [|discriminate H]. simpl in H.
  destruct (dchk (ss_calculated st1 + dcalc)) as [calc|]; [|discriminate H]. simpl in H. simpl.
  destruct (nts =? computed).
  - unfold cross_tick in H. simpl in H. destruct (dchk _); [|discriminate H]. inversion H; subst. simpl. reflexivity.
  - destruct (edge_case zfo nts computed); [discriminate H|].
    destruct (negb (ss_sqrt st =? computed)).
    + destruct (calculate_sqrt_price_to_tick computed) as [t|]; [|discriminate H]. inversion H; subst. reflexivity.
    + inversion H; subst. simpl. exact T1.
Qed.

Lemma run_tick_app : forall zfo e1 e2 c, run_tick zfo c (e1 ++ e2) = run_tick zfo (run_tick zfo c e1) e2.
Proof. induction e1 as [|e r IH]; intros; simpl; [reflexivity|]. destruct e; apply IH. Qed.

Lemma eloop_out_tick : forall fuel zfo accum spf sc limit st iter noprog st' evs,
  eloop_out_given_in fuel zfo accum spf sc limit st iter noprog = (Some st', evs) ->
  ss_tick st' = run_tick zfo (ss_tick st) evs.
Proof.
  induction fuel as [|f IH]; intros zfo accum spf sc limit st iter noprog st' evs H; simpl in H; [discriminate H|].
  destruct ((smallest_dec <? ss_remaining st) && negb (ss_sqrt st =? limit)); [|inversion H; subst; reflexivity].
  destruct iter as [|[nt info] r]; [discriminate H|].
  destruct (tick_to_sqrt_price nt) as [nts|]; [|discriminate H].
  destruct (compute_out_given_in zfo spf (ss_sqrt st) (sqrt_target zfo limit nts) (ss_liq st) (ss_remaining st)) as [[[[computed amt_in] amt_out] fee]|]; [|discriminate H].
  destruct (negb (progress_ok computed (ss_sqrt st) amt_in amt_out)); [discriminate H|].
  destruct (dchk (amt_in + fee)) as [infee|]; [|discriminate H].
  destruct (after_step zfo accum sc st ((nt, info) :: r) nt info nts computed infee amt_out fee) as [[st1 iter1]|] eqn:EA; [|discriminate H].
  pose proof (after_step_tick _ _ _ _ _ _ _ _ _ _ _ _ _ _ EA) as T.
  destruct (amt_in =? 0).
  - destruct (swap_no_progress_limit <=? noprog); [discriminate H|].
    destruct (eloop_out_given_in f zfo accum spf sc limit st1 iter1 (noprog + 1)) as [r1 evs1] eqn:EL. inversion H; subst.
    rewrite run_tick_app, <- T. eapply IH. exact EL.
  - destruct (eloop_out_given_in f zfo accum spf sc limit st1 iter1 noprog) as [r1 evs1] eqn:EL. inversion H; subst.
    rewrite run_tick_app, <- T. eapply IH. exact EL.
Qed.

Lemma eloop_in_tick : forall fuel zfo accum spf sc limit st iter noprog st' evs,
  eloop_in_given_out fuel zfo accum spf sc limit st iter noprog = (Some st', evs) ->
  ss_tick st' = run_tick zfo (ss_tick st) evs.
Proof.
  induction fuel as [|f IH]; intros zfo accum spf sc limit st iter noprog st' evs H; simpl in H; [discriminate H|].
  destruct ((smallest_dec <? ss_remaining st) && negb (ss_sqrt st =? limit)); [|inversion H; subst; reflexivity].
  destruct iter as [|[nt info] r]; [discriminate H|].
  destruct (tick_to_sqrt_price nt) as [nts|]; [|discriminate H].
  destruct (compute_in_given_out zfo spf (ss_sqrt st) (sqrt_target zfo limit nts) (ss_liq st) (ss_remaining st)) as [[[[computed amt_out] amt_in] fee]|]; [|discriminate H].
  destruct (negb (progress_ok computed (ss_sqrt st) amt_in amt_out)); [discriminate H|].
  destruct (dchk (amt_in + fee)) as [infee|]; [|discriminate H].
  destruct (after_step zfo accum sc st ((nt, info) :: r) nt info nts computed amt_out infee fee) as [[st1 iter1]|] eqn:EA; [|discriminate H].
  pose proof (after_step_tick _ _ _ _ _ _ _ _ _ _ _ _ _ _ EA) as T.
  destruct (amt_out =? 0).
  - destruct (swap_no_progress_limit <=? noprog); [discriminate H|].
    destruct (eloop_in_given_out f zfo accum spf sc limit st1 iter1 (noprog + 1)) as [r1 evs1] eqn:EL. inversion H; subst.
    rewrite run_tick_app, <- T. eapply IH. exact EL.
  - destruct (eloop_in_given_out f zfo accum spf sc limit st1 iter1 noprog) as [r1 evs1] eqn:EL. inversion H; subst.
    rewrite run_tick_app, <- T. eapply IH. exact EL.
Qed.

(* the pool's tick after an executed swap is where the events lead *)
Lemma update_pool_for_swap_tick : forall s sender zfo r s', update_pool_for_swap s sender zfo r = Some s' ->
  p_tick (s_pool s') = sr_tick r.
Proof.
  unfold update_pool_for_swap. intros s sender zfo r s' H.
  destruct (d_truncate_int (d_ceil (sr_fee r)) >=? sr_in r) eqn:E0.
  - assert ((sr_in r - d_truncate_int (d_ceil (sr_fee r)) <=? 0) = true) as X by (apply Z.leb_le; apply Z.geb_le in E0; lia).
    rewrite X in H. discriminate H.
  - destruct (sr_in r - d_truncate_int (d_ceil (sr_fee r)) <=? 0); [discriminate H|].
    destruct (user_bal (s_bank s) sender); [|discriminate H]. simpl in H.
    destruct (pick zfo (sr_in r - d_truncate_int (d_ceil (sr_fee r)))) as [i0 i1].
    destruct (send_user_to_pool (s_bank s) sender i0 i1) as [b1|]; [|discriminate H]. simpl in H.
    match type of H with (do b2 <- ?X; _) = _ => destruct X as [b2|]; [|discriminate H] end. simpl in H.
    destruct (sr_out r <=? 0); [discriminate H|].
    destruct (pick (negb zfo) (sr_out r)) as [o0 o1].
    destruct (send_pool_to_user b2 sender o0 o1) as [b3|]; [|discriminate H]. simpl in H.
    match type of H with (if ?b then None else _) = _ => destruct b; [discriminate H|] end.
    inversion H; subst. reflexivity.
Qed.

Lemma swap_in_tick : forall s sender zfo amt mo s' out evs,
  swap_exact_in s sender zfo amt mo = Some (s', out) -> swap_events s true zfo amt = Some evs ->
  p_tick (s_pool s') = run_tick zfo (p_tick (s_pool s)) evs.
Proof.
  intros s sender zfo amt mo s' out evs H E. unfold swap_exact_in, compute_out_amt_given_in in H. unfold swap_events in E.
  destruct (negb (0 <? amt) || negb (0 <? mo)); [discriminate H|].
  destruct (swap_setup s zfo) as [[limit iter]|]; [|discriminate H]. simpl in H, E.
  pose proof (eloop_out_fst (swap_fuel (s_ticks s)) zfo true (p_spread (s_pool s)) (p_scaling (s_pool s)) limit
                (mkSS (d_from_int amt) 0 (p_sqrt (s_pool s)) (p_tick (s_pool s)) (p_liq (s_pool s)) 0 0) iter 0) as F.
  destruct (eloop_out_given_in _ _ _ _ _ _ _ _ _) as [r evs1] eqn:EL. simpl in F. rewrite <- F in H.
  destruct r as [st|]; [|discriminate E]. simpl in E. inversion E; subst evs1. simpl in H.
  pose proof (eloop_out_tick _ _ _ _ _ _ _ _ _ _ _ EL) as T. simpl in T.
  destruct (ss_remaining st <? 0); [discriminate H|]. simpl in H.
  match type of H with (if ?b then None else _) = _ => destruct b; [discriminate H|] end.
  destruct (update_pool_for_swap _ _ _ _) as [s0|] eqn:EU; [|discriminate H]. simpl in H.
  match type of H with (if ?b then None else _) = _ => destruct b; [discriminate H|] end.
  inversion H; subst s0 out. rewrite (update_pool_for_swap_tick _ _ _ _ _ EU). simpl. exact T.
Qed.

Lemma swap_out_tick : forall s sender zfo amt mi s' tin evs,
  swap_exact_out s sender zfo amt mi = Some (s', tin) -> swap_events s false zfo amt = Some evs ->
  p_tick (s_pool s') = run_tick zfo (p_tick (s_pool s)) evs.
Proof.
  intros s sender zfo amt mi s' tin evs H E. unfold swap_exact_out, compute_in_amt_given_out in H. unfold swap_events in E.
  destruct (negb (0 <? amt) || negb (0 <? mi)); [discriminate H|].
  destruct (swap_setup s zfo) as [[limit iter]|]; [|discriminate H]. simpl in H, E.
  pose proof (eloop_in_fst (swap_fuel (s_ticks s)) zfo true (p_spread (s_pool s)) (p_scaling (s_pool s)) limit
                (mkSS (d_from_int amt) 0 (p_sqrt (s_pool s)) (p_tick (s_pool s)) (p_liq (s_pool s)) 0 0) iter 0) as F.
  destruct (eloop_in_given_out _ _ _ _ _ _ _ _ _) as [r evs1] eqn:EL. simpl in F. rewrite <- F in H.
  destruct r as [st|]; [|discriminate E]. simpl in E. inversion E; subst evs1. simpl in H.
  pose proof (eloop_in_tick _ _ _ _ _ _ _ _ _ _ _ EL) as T. simpl in T.
  destruct (ss_remaining st <? 0); [discriminate H|]. simpl in H.
  match type of H with (if ?b then None else _) = _ => destruct b; [discriminate H|] end.
  destruct (update_pool_for_swap _ _ _ _) as [s0|] eqn:EU; [|discriminate H]. simpl in H.
  match type of H with (if ?b then None else _) = _ => destruct b; [discriminate H|] end.
  inversion H; subst s0 tin. rewrite (update_pool_for_swap_tick _ _ _ _ _ EU). simpl. exact T.
Qed.
