(* C08: the reward model is a conservative extension of the shared pool model - the swap loops re-run with event
   emission return exactly the swap state of CL/CLSwap.v, and every operation of CLR/RStep.v acts on the pool
   component exactly like the operation of CL/CLStep.v (or not at all, when the reward side fails). *)
From Coq Require Import ZArith List Bool Lia.
Import ListNotations.
From Osmo Require Import Base.DecModel CL.TickMath CL.CLMath CL.CLPool CL.CLSwap CL.CLStep
  CLR.Accum CLR.Rewards CLR.RSwap CLR.RStep.
Open Scope Z_scope.

Lemma eloop_out_fst : forall fuel zfo accum spf scaling limit st iter noprog,
  fst (eloop_out_given_in fuel zfo accum spf scaling limit st iter noprog)
  = loop_out_given_in fuel zfo accum spf scaling limit st iter noprog.
Proof.
  induction fuel as [|f IH]; intros; simpl; [reflexivity|].
  destruct ((smallest_dec <? ss_remaining st) && negb (ss_sqrt st =? limit)); [|reflexivity].
  destruct iter as [|[nt info] r]; [reflexivity|].
  destruct (tick_to_sqrt_price nt) as [nts|]; [|reflexivity].
  destruct (compute_out_given_in zfo spf (ss_sqrt st) (sqrt_target zfo limit nts) (ss_liq st) (ss_remaining st)) as [[[[computed amt_in] amt_out] fee]|]; [|reflexivity].
  destruct (negb (progress_ok computed (ss_sqrt st) amt_in amt_out)); [reflexivity|].
  destruct (dchk (amt_in + fee)) as [infee|]; [|reflexivity].
  destruct (after_step zfo accum scaling st ((nt, info) :: r) nt info nts computed infee amt_out fee) as [[st' iter']|]; [|reflexivity].
  destruct (amt_in =? 0).
  - destruct (swap_no_progress_limit <=? noprog); [reflexivity|].
    specialize (IH zfo accum spf scaling limit st' iter' (noprog + 1)).
    destruct (eloop_out_given_in f zfo accum spf scaling limit st' iter' (noprog + 1)); exact IH.
  - specialize (IH zfo accum spf scaling limit st' iter' noprog).
    destruct (eloop_out_given_in f zfo accum spf scaling limit st' iter' noprog); exact IH.
Qed.

Lemma eloop_in_fst : forall fuel zfo accum spf scaling limit st iter noprog,
  fst (eloop_in_given_out fuel zfo accum spf scaling limit st iter noprog)
  = loop_in_given_out fuel zfo accum spf scaling limit st iter noprog.
Proof.
  induction fuel as [|f IH]; intros; simpl; [reflexivity|].
  destruct ((smallest_dec <? ss_remaining st) && negb (ss_sqrt st =? limit)); [|reflexivity].
  destruct iter as [|[nt info] r]; [reflexivity|].
  destruct (tick_to_sqrt_price nt) as [nts|]; [|reflexivity].
  destruct (compute_in_given_out zfo spf (ss_sqrt st) (sqrt_target zfo limit nts) (ss_liq st) (ss_remaining st)) as [[[[computed amt_out] amt_in] fee]|]; [|reflexivity].
  destruct (negb (progress_ok computed (ss_sqrt st) amt_in amt_out)); [reflexivity|].
  destruct (dchk (amt_in + fee)) as [infee|]; [|reflexivity].
  destruct (after_step zfo accum scaling st ((nt, info) :: r) nt info nts computed amt_out infee fee) as [[st' iter']|]; [|reflexivity].
  destruct (amt_out =? 0).
  - destruct (swap_no_progress_limit <=? noprog); [reflexivity|].
    specialize (IH zfo accum spf scaling limit st' iter' (noprog + 1)).
    destruct (eloop_in_given_out f zfo accum spf scaling limit st' iter' (noprog + 1)); exact IH.
  - specialize (IH zfo accum spf scaling limit st' iter' noprog).
    destruct (eloop_in_given_out f zfo accum spf scaling limit st' iter' noprog); exact IH.
Qed.

(* the operation of the pool model that an operation of the reward model performs on the pool component *)
Definition base_op (o : rop) : option op := match o with RBase b => Some b | _ => None end.

Lemma rstep_failed_unchanged : forall rs o rs', rstep rs o = (rs', None) -> rs' = rs.
Proof.
  unfold rstep. intros rs o rs' H. destruct (rhandler rs o) as [[x r]|]; inversion H; reflexivity.
Qed.
