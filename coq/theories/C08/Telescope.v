(* C08, the crux: the tick-snapshot invariant and the telescoping of growth inside (DESIGN.md 9.1), for ONE scalar
   accumulator component (a denomination of the spread accumulator or of one uptime accumulator), as an abstract
   machine.  State: current tick c, global per-unit value G, the stored "growth opposite direction of last traversal"
   trackers O_i of the initialised ticks.  Events:
     AGrow d       G += d                                   (fee charge of a swap step, incentive emission, dust re-deposit)
     ACross i c'   O_i := G - O_i ; c := c'                 (crossTick; up: c' = i, down: c' = i - 1)
     AMove c'      c := c'                                  (swap step ending inside a bucket; pool initialisation)
     AInit i       O_i := if i <= c then G else 0           (makeInitialTickInfo)
     ARemove i     tracker i deleted                        (RemoveTickInfo)
   below_i / above_i (growth that happened while the price was below / at-or-above tick i) are FUNCTIONS of the state:
     below_i = if i <= c then O_i else G - O_i,   above_i = G - below_i
   - exactly calculateSpreadRewardGrowth(lower) / (upper) - and an uninitialised tick reads as the initial tracker.
   Every well-formed event changes them the way the ghost definition of DESIGN 9.1 says: only AGrow changes them, by
   [c < i] d and [i <= c] d.  Hence inside(l, u) = G - below_l - above_u grows by exactly [l <= c < u] d: additions and
   subtractions only, no rounding.
   Well-formedness is about the CURRENT TICK only: an AMove may not change on which side of any initialised tick the
   current tick lies, an ACross i changes the side of tick i only. *)
From Coq Require Import ZArith List Bool Lia.
Import ListNotations.
Open Scope Z_scope.

Definition tmap := list (Z * Z).
Fixpoint tm_get (m : tmap) (k : Z) : option Z :=
  match m with
  | [] => None
  | (k', v) :: r => if k =? k' then Some v else tm_get r k
  end.
Fixpoint tm_set (m : tmap) (k v : Z) : tmap :=
  match m with
  | [] => [(k, v)]
  | (k', v') :: r => if k <? k' then (k, v) :: m else if k =? k' then (k, v) :: r else (k', v') :: tm_set r k v
  end.
Fixpoint tm_remove (m : tmap) (k : Z) : tmap :=
  match m with
  | [] => []
  | (k', v') :: r => if k =? k' then r else (k', v') :: tm_remove r k
  end.

Inductive tm_sorted : tmap -> Prop :=
| tms_nil : tm_sorted []
| tms_cons : forall k v m, Forall (fun kv => k < fst kv) m -> tm_sorted m -> tm_sorted ((k, v) :: m).

Lemma tm_get_set : forall m k v k', tm_get (tm_set m k v) k' = if k' =? k then Some v else tm_get m k'.
Proof.
  induction m as [|[a b] m IH]; intros k v k'; simpl.
  - destruct (k' =? k); reflexivity.
  - destruct (k <? a) eqn:E1; simpl.
    + destruct (k' =? k) eqn:E; [reflexivity|]. reflexivity.
    + destruct (k =? a) eqn:E2; simpl.
      * apply Z.eqb_eq in E2. subst a. destruct (k' =? k); reflexivity.
      * rewrite IH. destruct (k' =? a) eqn:E3; [|reflexivity].
        apply Z.eqb_eq in E3. subst a. destruct (k' =? k) eqn:E4; [|reflexivity].
        apply Z.eqb_eq in E4. subst k'. rewrite Z.eqb_refl in E2. discriminate.
Qed.

Lemma tm_lb_get_none : forall m x k, Forall (fun kv => x < fst kv) m -> k <= x -> tm_get m k = None.
Proof.
  induction m as [|[a b] m IH]; intros x k H Hk; simpl; [reflexivity|].
  inversion H; subst. simpl in *. destruct (k =? a) eqn:E; [apply Z.eqb_eq in E; lia|]. eapply IH; eassumption.
Qed.

Lemma tm_get_remove : forall m k k', tm_sorted m ->
  tm_get (tm_remove m k) k' = if k' =? k then None else tm_get m k'.
Proof.
  induction m as [|[a b] m IH]; intros k k' S; simpl.
  - destruct (k' =? k); reflexivity.
  - inversion S; subst. destruct (k =? a) eqn:E1; simpl.
    + apply Z.eqb_eq in E1. subst a. destruct (k' =? k) eqn:E2; [|reflexivity].
      apply Z.eqb_eq in E2. subst k'. eapply tm_lb_get_none; [eassumption|lia].
    + rewrite IH by assumption. destruct (k' =? a) eqn:E3; [|reflexivity].
      apply Z.eqb_eq in E3. subst a. destruct (k' =? k) eqn:E4; [|reflexivity].
      apply Z.eqb_eq in E4. subst k'. rewrite Z.eqb_refl in E1. discriminate.
Qed.

Lemma tm_lb_set : forall m x k v, Forall (fun kv => x < fst kv) m -> x < k -> Forall (fun kv => x < fst kv) (tm_set m k v).
Proof.
  induction m as [|[a b] m IH]; intros x k v H Hk; simpl.
  - constructor; [assumption|constructor].
  - inversion H; subst. destruct (k <? a); [constructor; assumption|].
    destruct (k =? a); constructor; try assumption. apply IH; assumption.
Qed.
Lemma tm_sorted_set : forall m k v, tm_sorted m -> tm_sorted (tm_set m k v).
Proof.
  induction m as [|[a b] m IH]; intros k v S; simpl.
  - constructor; constructor.
  - inversion S; subst. destruct (k <? a) eqn:E1.
    + apply Z.ltb_lt in E1. constructor; [|assumption]. constructor; [assumption|].
      eapply Forall_impl; [|eassumption]. simpl. intros; lia.
    + destruct (k =? a) eqn:E2.
      * apply Z.eqb_eq in E2. subst. constructor; assumption.
      * apply Z.ltb_ge in E1. apply Z.eqb_neq in E2. constructor; [|apply IH; assumption].
        apply tm_lb_set; [assumption|lia].
Qed.
Lemma tm_lb_remove : forall m x k, Forall (fun kv => x < fst kv) m -> Forall (fun kv => x < fst kv) (tm_remove m k).
Proof.
  induction m as [|[a b] m IH]; intros x k H; simpl; [constructor|].
  inversion H; subst. destruct (k =? a); [assumption|]. constructor; [assumption|apply IH; assumption].
Qed.
Lemma tm_sorted_remove : forall m k, tm_sorted m -> tm_sorted (tm_remove m k).
Proof.
  induction m as [|[a b] m IH]; intros k S; simpl; [constructor|].
  inversion S; subst. destruct (k =? a); [assumption|]. constructor; [apply tm_lb_remove; assumption|apply IH; assumption].
Qed.

(* ---------- the machine ---------- *)
Record astate := mkA { a_c : Z; a_G : Z; a_O : tmap }.
Inductive aev := AGrow (d : Z) | ACross (i c' : Z) | AMove (c' : Z) | AInit (i : Z) | ARemove (i : Z).

Definition a_init_val (s : astate) (i : Z) : Z := if i <=? a_c s then a_G s else 0.
(* GetTickInfo: stored tracker, or the initial one *)
Definition a_read (s : astate) (i : Z) : Z := match tm_get (a_O s) i with Some o => o | None => a_init_val s i end.

Definition a_step (s : astate) (e : aev) : astate :=
  match e with
  | AGrow d => mkA (a_c s) (a_G s + d) (a_O s)
  | ACross i c' => mkA c' (a_G s) (tm_set (a_O s) i (a_G s - a_read s i))
  | AMove c' => mkA c' (a_G s) (a_O s)
  | AInit i => mkA (a_c s) (a_G s) (tm_set (a_O s) i (a_init_val s i))
  | ARemove i => mkA (a_c s) (a_G s) (tm_remove (a_O s) i)
  end.
Fixpoint a_run (s : astate) (evs : list aev) : astate :=
  match evs with [] => s | e :: r => a_run (a_step s e) r end.

(* calculateSpreadRewardGrowth(tick, tracker, currentTick, global, isUpper = false / true) *)
Definition a_below (s : astate) (i : Z) : Z := if i <=? a_c s then a_read s i else a_G s - a_read s i.
Definition a_above (s : astate) (i : Z) : Z := if i <=? a_c s then a_G s - a_read s i else a_read s i.
Definition a_inside (s : astate) (l u : Z) : Z := a_G s - a_below s l - a_above s u.

Lemma a_below_above : forall s i, a_below s i + a_above s i = a_G s.
Proof. intros. unfold a_below, a_above. destruct (i <=? a_c s); lia. Qed.

(* the three-way case split of GetUptimeGrowthInsideRange computes the same value *)
Lemma a_inside_cases : forall s l u, l < u ->
  a_inside s l u =
    if a_c s <? l then a_read s l - a_read s u
    else if a_c s <? u then a_G s - a_read s u - a_read s l
    else a_read s u - a_read s l.
Proof.
  intros s l u H. unfold a_inside, a_below, a_above.
  destruct (a_c s <? l) eqn:E1; [apply Z.ltb_lt in E1|apply Z.ltb_ge in E1].
  - assert (A : (l <=? a_c s) = false) by (apply Z.leb_gt; lia).
    assert (B : (u <=? a_c s) = false) by (apply Z.leb_gt; lia). rewrite A, B. lia.
  - assert (A : (l <=? a_c s) = true) by (apply Z.leb_le; lia). rewrite A.
    destruct (a_c s <? u) eqn:E2; [apply Z.ltb_lt in E2|apply Z.ltb_ge in E2].
    + assert (B : (u <=? a_c s) = false) by (apply Z.leb_gt; lia). rewrite B. lia.
    + assert (B : (u <=? a_c s) = true) by (apply Z.leb_le; lia). rewrite B. lia.
Qed.

(* ---------- well-formed events ---------- *)
Definition keys (s : astate) (i : Z) : Prop := tm_get (a_O s) i <> None.
Definition same_side (c c' i : Z) : Prop := (i <= c <-> i <= c').
Definition ev_wf (s : astate) (e : aev) : Prop :=
  match e with
  | AGrow _ => True
  | ACross i c' => keys s i /\ ~ same_side (a_c s) c' i /\ forall j, keys s j -> j <> i -> same_side (a_c s) c' j
  | AMove c' => forall j, keys s j -> same_side (a_c s) c' j
  | AInit i => ~ keys s i
  | ARemove _ => True
  end.
Fixpoint evs_wf (s : astate) (evs : list aev) : Prop :=
  match evs with [] => True | e :: r => ev_wf s e /\ evs_wf (a_step s e) r end.

(* the event does not (re-)initialise or remove tick i *)
Definition ev_keeps (e : aev) (i : Z) : Prop :=
  match e with AInit j | ARemove j => j <> i | _ => True end.
Fixpoint evs_keep (evs : list aev) (i : Z) : Prop :=
  match evs with [] => True | e :: r => ev_keeps e i /\ evs_keep r i end.

Lemma leb_same_side : forall c c' i, same_side c c' i -> (i <=? c) = (i <=? c').
Proof.
  unfold same_side. intros c c' i H. destruct (i <=? c) eqn:E1; destruct (i <=? c') eqn:E2; try reflexivity.
  - apply Z.leb_le in E1. apply Z.leb_gt in E2. apply H in E1. lia.
  - apply Z.leb_gt in E1. apply Z.leb_le in E2. apply H in E2. lia.
Qed.
Lemma leb_other_side : forall c c' i, ~ same_side c c' i -> (i <=? c') = negb (i <=? c).
Proof.
  unfold same_side. intros c c' i H. destruct (i <=? c) eqn:E1; destruct (i <=? c') eqn:E2; try reflexivity; exfalso; apply H.
  - apply Z.leb_le in E1, E2. tauto.
  - apply Z.leb_gt in E1, E2. split; lia.
Qed.

(* how one event changes below_i of an initialised tick that the event does not (re-)initialise or remove *)
Definition grow_below (s : astate) (e : aev) (i : Z) : Z :=
  match e with AGrow d => if i <=? a_c s then 0 else d | _ => 0 end.

Lemma step_keys : forall s e i, keys s i -> ev_keeps e i -> tm_sorted (a_O s) -> keys (a_step s e) i.
Proof.
  unfold keys. intros s e i K Kp S. destruct e; simpl in *; try assumption.
  - rewrite tm_get_set. destruct (i =? i0); [discriminate|assumption].
  - rewrite tm_get_set. destruct (i =? i0); [discriminate|assumption].
  - rewrite tm_get_remove by assumption. destruct (i =? i0) eqn:E; [apply Z.eqb_eq in E; lia|assumption].
Qed.
Lemma step_sorted : forall s e, tm_sorted (a_O s) -> tm_sorted (a_O (a_step s e)).
Proof. intros s e S. destruct e; simpl; try assumption; try (apply tm_sorted_set; assumption). apply tm_sorted_remove; assumption. Qed.

Lemma a_read_key : forall s i o, tm_get (a_O s) i = Some o -> a_read s i = o.
Proof. intros s i o H. unfold a_read. rewrite H. reflexivity. Qed.

Lemma step_below : forall s e i, tm_sorted (a_O s) -> keys s i -> ev_wf s e -> ev_keeps e i ->
  a_below (a_step s e) i = a_below s i + grow_below s e i.
Proof.
  intros s e i S K W Kp. unfold keys in K. destruct (tm_get (a_O s) i) as [o|] eqn:EO; [|congruence].
  pose proof (a_read_key s i o EO) as R.
  destruct e; simpl in *.
  - (* grow *)
    assert (R' : a_read (mkA (a_c s) (a_G s + d) (a_O s)) i = o) by (apply a_read_key; exact EO).
    unfold a_below. simpl. rewrite R, R'. destruct (i <=? a_c s); lia.
  - (* cross *) destruct W as [Ki0 [NS OT]].
    destruct (i =? i0) eqn:E.
    + apply Z.eqb_eq in E. subst i0.
      assert (R' : a_read (mkA c' (a_G s) (tm_set (a_O s) i (a_G s - a_read s i))) i = a_G s - o).
      { apply a_read_key. simpl. rewrite tm_get_set, Z.eqb_refl, R. reflexivity. }
      unfold a_below. simpl. rewrite R', R, (leb_other_side _ _ _ NS). destruct (i <=? a_c s); simpl; lia.
    + assert (R' : a_read (mkA c' (a_G s) (tm_set (a_O s) i0 (a_G s - a_read s i0))) i = o).
      { apply a_read_key. simpl. rewrite tm_get_set, E. exact EO. }
      apply Z.eqb_neq in E.
      assert (SS : same_side (a_c s) c' i) by (apply OT; [unfold keys; congruence|assumption]).
      unfold a_below. simpl. rewrite R', R, <- (leb_same_side _ _ _ SS). lia.
  - (* move *) assert (SS : same_side (a_c s) c' i) by (apply W; unfold keys; congruence).
    assert (R' : a_read (mkA c' (a_G s) (a_O s)) i = o) by (apply a_read_key; exact EO).
    unfold a_below. simpl. rewrite R', R, <- (leb_same_side _ _ _ SS). lia.
  - (* init of another tick *)
    assert (R' : a_read (mkA (a_c s) (a_G s) (tm_set (a_O s) i0 (a_init_val s i0))) i = o).
    { apply a_read_key. simpl. rewrite tm_get_set. destruct (i =? i0) eqn:E; [apply Z.eqb_eq in E; lia|exact EO]. }
    unfold a_below. simpl. rewrite R', R. lia.
  - (* remove of another tick *)
    assert (R' : a_read (mkA (a_c s) (a_G s) (tm_remove (a_O s) i0)) i = o).
    { apply a_read_key. simpl. rewrite tm_get_remove by assumption. destruct (i =? i0) eqn:E; [apply Z.eqb_eq in E; lia|exact EO]. }
    unfold a_below. simpl. rewrite R', R. lia.
Qed.

Lemma step_G : forall s e, a_G (a_step s e) = a_G s + match e with AGrow d => d | _ => 0 end.
Proof. intros s e. destruct e; simpl; lia. Qed.

(* growth that happened while tick l <= current tick < u *)
Definition grow_inside (s : astate) (e : aev) (l u : Z) : Z :=
  match e with AGrow d => if (l <=? a_c s) && (a_c s <? u) then d else 0 | _ => 0 end.
Fixpoint in_range_growth (s : astate) (evs : list aev) (l u : Z) : Z :=
  match evs with [] => 0 | e :: r => grow_inside s e l u + in_range_growth (a_step s e) r l u end.

Lemma step_inside : forall s e l u, l < u -> tm_sorted (a_O s) -> keys s l -> keys s u -> ev_wf s e ->
  ev_keeps e l -> ev_keeps e u ->
  a_inside (a_step s e) l u = a_inside s l u + grow_inside s e l u.
Proof.
  intros s e l u Hlu S Kl Ku W Pl Pu.
  assert (A : forall t, a_inside t l u = a_below t u - a_below t l).
  { intro t. unfold a_inside. pose proof (a_below_above t u). lia. }
  rewrite !A, (step_below s e l S Kl W Pl), (step_below s e u S Ku W Pu).
  destruct e; simpl; try lia.
  destruct (l <=? a_c s) eqn:E1; destruct (u <=? a_c s) eqn:E2; destruct (a_c s <? u) eqn:E3; simpl; try lia;
    repeat match goal with
    | H : (_ <=? _) = true |- _ => apply Z.leb_le in H
    | H : (_ <=? _) = false |- _ => apply Z.leb_gt in H
    | H : (_ <? _) = true |- _ => apply Z.ltb_lt in H
    | H : (_ <? _) = false |- _ => apply Z.ltb_ge in H
    end; lia.
Qed.

(* THE TELESCOPING THEOREM: over any well-formed event history that keeps ticks l and u initialised, the change of
   growth inside [l, u) is exactly the growth that accrued while l <= current tick < u *)
Theorem a_telescope : forall evs s l u, l < u -> tm_sorted (a_O s) -> keys s l -> keys s u ->
  evs_wf s evs -> evs_keep evs l -> evs_keep evs u ->
  a_inside (a_run s evs) l u = a_inside s l u + in_range_growth s evs l u.
Proof.
  induction evs as [|e r IH]; intros s l u Hlu S Kl Ku W Pl Pu; simpl; [lia|].
  destruct W as [W1 W2]. destruct Pl as [Pl1 Pl2]. destruct Pu as [Pu1 Pu2].
  rewrite (IH (a_step s e) l u Hlu (step_sorted s e S) (step_keys s e l Kl Pl1 S) (step_keys s e u Ku Pu1 S) W2 Pl2 Pu2).
  rewrite (step_inside s e l u Hlu S Kl Ku W1 Pl1 Pu1). lia.
Qed.

(* the snapshot invariant of DESIGN 9.1, in the form the solvency argument uses: every tracker lies between 0 and G
   provided all growth is non-negative - so neither "G - O_i" of crossTick / calculateSpreadRewardGrowth nor the
   in-range branch "G - O_u" can go negative (DecCoins.Sub would panic) *)
Definition trackers_bounded (s : astate) : Prop := forall i o, tm_get (a_O s) i = Some o -> 0 <= o <= a_G s.
Definition ev_nonneg (e : aev) : Prop := match e with AGrow d => 0 <= d | _ => True end.
Lemma step_bounded : forall s e, tm_sorted (a_O s) -> 0 <= a_G s -> trackers_bounded s -> ev_nonneg e ->
  trackers_bounded (a_step s e) /\ 0 <= a_G (a_step s e).
Proof.
  intros s e S G0 B N. destruct e; simpl in *.
  - split; [|lia]. intros i o H. simpl in H. specialize (B i o H). simpl. lia.
  - split; [|assumption]. intros j o H. simpl in H. rewrite tm_get_set in H. simpl.
    destruct (j =? i) eqn:E; [|exact (B j o H)]. inversion H; subst.
    unfold a_read, a_init_val. destruct (tm_get (a_O s) i) as [oi|] eqn:EO; [specialize (B i oi EO); lia|].
    destruct (i <=? a_c s); lia.
  - split; [|assumption]. exact B.
  - split; [|assumption]. intros j o H. simpl in H. rewrite tm_get_set in H. simpl.
    destruct (j =? i) eqn:E; [|exact (B j o H)]. inversion H; subst. unfold a_init_val. destruct (i <=? a_c s); lia.
  - split; [|assumption]. intros j o H. simpl in H. rewrite tm_get_remove in H by assumption. simpl.
    destruct (j =? i); [discriminate|exact (B j o H)].
Qed.

(* consequence used by "never in range earns zero": no growth while in range => growth inside unchanged *)
Corollary a_never_in_range : forall evs s l u, l < u -> tm_sorted (a_O s) -> keys s l -> keys s u ->
  evs_wf s evs -> evs_keep evs l -> evs_keep evs u -> in_range_growth s evs l u = 0 ->
  a_inside (a_run s evs) l u = a_inside s l u.
Proof. intros. rewrite a_telescope by assumption. lia. Qed.
