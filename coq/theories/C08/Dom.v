(* C08: the growth-outside trackers are kept for exactly the ticks the pool stores, in every reachable state; with C07's
   invariant this discharges the swap side condition of growth_inside_telescopes for all reachable states. *)
From Coq Require Import ZArith List Bool Lia.
Import ListNotations.
From Osmo Require Import Base.DecModel CL.TickMath CL.CLMath CL.CLPool CL.CLSwap CL.CLStep
  CLR.Accum CLR.Rewards CLR.RSwap CLR.RStep C07.Base C07.TickLemmas C07.LP C07.Swap C07.Proofs
  C08.Proj C08.Telescope C08.View C08.Static C08.Stages C08.Ops C08.OpInside C08.SwapTrace C08.Crux C08.SwapWf.
Open Scope Z_scope.

Definition tt_sorted (w : rwd) : Prop := tm_sorted (vmap (CS false) (rw_tt w)).

Lemma tt_get_vmap_none : forall w j, tt_get (rw_tt w) j = None <-> tm_get (vmap (CS false) (rw_tt w)) j = None.
Proof. intros. rewrite vmap_get. destruct (tt_get (rw_tt w) j); simpl; split; congruence. Qed.

Lemma tt_get_remove : forall m k k', tm_sorted (vmap (CS false) m) ->
  (tt_get (tt_remove m k) k' = None <-> (k' = k \/ tt_get m k' = None)).
Proof.
  intros m k k' S.
  assert (A : tm_get (vmap (CS false) (tt_remove m k)) k' = None <-> tt_get (tt_remove m k) k' = None)
    by (rewrite vmap_get; destruct (tt_get (tt_remove m k) k'); simpl; split; congruence).
  assert (B : tm_get (vmap (CS false) m) k' = None <-> tt_get m k' = None)
    by (rewrite vmap_get; destruct (tt_get m k'); simpl; split; congruence).
  rewrite <- A, <- B, vmap_remove, tm_get_remove by exact S.
  destruct (k' =? k) eqn:E; [apply Z.eqb_eq in E; tauto|apply Z.eqb_neq in E; tauto].
Qed.

(* ---------- the reward side of UpdatePosition only adds the two ticks ---------- *)
Lemma update_position_rewards_keys : forall w cur pl now lo hi id liq delta w',
  update_position_rewards w cur pl now lo hi id liq delta = Some w' ->
  (forall j, tt_get (rw_tt w') j = None <-> (j <> lo /\ j <> hi /\ tt_get (rw_tt w) j = None)) /\ (tt_sorted w -> tt_sorted w').
Proof.
  unfold update_position_rewards. intros w cur pl now lo hi id liq delta w' H.
  destruct (ensure_tick w cur pl now lo) as [w1|] eqn:E1; [|discriminate H]. simpl in H.
  destruct (ensure_tick w1 cur pl now hi) as [w2|] eqn:E2; [|discriminate H]. simpl in H.
  destruct (init_or_update_uptime w2 cur pl now lo hi id liq delta) as [w3|] eqn:E3; [|discriminate H]. simpl in H.
  pose proof (init_or_update_uptime_tt _ _ _ _ _ _ _ _ _ _ E3) as T3. pose proof (init_or_update_spread_tt _ _ _ _ _ _ _ H) as T4.
  split.
  - intro j. rewrite T4, T3.
    pose proof (ensure_tick_keys _ _ _ _ _ _ E1 j) as K1. pose proof (ensure_tick_keys _ _ _ _ _ _ E2 j) as K2.
    assert (N0 : forall (o : option rtick), o = None \/ o <> None) by (intros [x|]; [right; discriminate|left; reflexivity]).
    destruct (N0 (tt_get (rw_tt w2) j)) as [G2|G2]; destruct (N0 (tt_get (rw_tt w1) j)) as [G1|G1];
      destruct (N0 (tt_get (rw_tt w) j)) as [G0|G0]; destruct (Z.eq_dec j lo) as [EL|EL]; destruct (Z.eq_dec j hi) as [EH|EH];
      tauto.
  - intro S. unfold tt_sorted in *. rewrite T4, T3.
    assert (S1 : tm_sorted (vmap (CS false) (rw_tt w1))).
    { destruct (SE_ensure_tick (CS false) _ _ _ _ _ _ E1) as [evs [A _]]. change (vmap (CS false) (rw_tt w1)) with (a_O (view (CS false) w1 cur dc0)).
      rewrite A. apply a_run_sorted. exact S. }
    destruct (SE_ensure_tick (CS false) _ _ _ _ _ _ E2) as [evs [A _]]. change (vmap (CS false) (rw_tt w2)) with (a_O (view (CS false) w2 cur dc0)).
    rewrite A. apply a_run_sorted. exact S1.
Qed.

(* ---------- the pool side ---------- *)
Lemma iout_fst_get : forall m k d up j, tick_get (fst (init_or_update_tick m k d up)) j = None <-> (j <> k /\ tick_get m j = None).
Proof.
  intros m k d up j. unfold init_or_update_tick. simpl. rewrite tick_get_set.
  destruct (j =? k) eqn:E; [apply Z.eqb_eq in E|apply Z.eqb_neq in E]; split; intro H; try discriminate H; try tauto.
Qed.

Lemma update_position_ticks : forall s owner lo hi d join id s' a le ue,
  update_position s owner lo hi d join id = Some (s', a, (le, ue)) ->
  forall j, tick_get (s_ticks s') j = None <-> (j <> lo /\ j <> hi /\ tick_get (s_ticks s) j = None).
Proof.
  intros s owner lo hi d join id s' [a0 a1] le ue H j.
  destruct (update_position_spec _ _ _ _ _ _ _ _ _ _ _ _ H) as [T _]. rewrite T, !iout_fst_get. tauto.
Qed.

Lemma create_position_ticks : forall s owner a0 a1 m0 m1 lo hi s' c, create_position s owner a0 a1 m0 m1 lo hi = Some (s', c) ->
  forall j, tick_get (s_ticks s') j = None <-> (j <> cr_lower c /\ j <> cr_upper c /\ tick_get (s_ticks s) j = None).
Proof.
  unfold create_position. intros s owner a0 a1 m0 m1 lo hi s' c H.
  destruct (hi <=? lo); [discriminate H|]. destruct ((a0 <? 0) || (a1 <? 0)); [discriminate H|].
  destruct ((a0 =? 0) && (a1 =? 0)); [discriminate H|]. destruct ((m0 <? 0) || (m1 <? 0)); [discriminate H|].
  destruct (negb (validate_tick_range (p_spacing (s_pool s)) lo hi)); [discriminate H|].
  destruct (ticks_to_sqrt_price lo hi) as [[sl su]|]; [|discriminate H]. simpl in H.
  destruct (round_tick_to_canonical lo hi sl su (p_spacing (s_pool s))) as [[lo' hi']|]; [|discriminate H]. simpl in H.
  match type of H with (do p1 <- ?X; _) = _ => destruct X as [p1|]; [|discriminate H] end. simpl in H.
  destruct (get_liquidity_from_amounts (p_sqrt p1) sl su a0 a1) as [liq|]; [|discriminate H]. simpl in H.
  destruct (liq =? 0); [discriminate H|].
  destruct (update_position _ owner lo' hi' liq (s_time s) (s_next_id s)) as [[[s3 [amt0 amt1]] [le ue]]|] eqn:EU; [|discriminate H]. simpl in H.
  destruct ((amt0 <? m0) || (amt1 <? m1)); [discriminate H|].
  destruct (send_user_to_pool (s_bank s3) owner amt0 amt1) as [b|]; [|discriminate H]. inversion H; subst. simpl.
  intro j. rewrite (update_position_ticks _ _ _ _ _ _ _ _ _ _ _ EU j). simpl. tauto.
Qed.

(* WithdrawPosition: the ticks other than the two boundaries are untouched; a boundary is stored afterwards unless it
   became empty *)
Lemma withdraw_position_ticks : forall s owner id liq s' amts q, Inv s -> withdraw_position s owner id liq = Some (s', amts) ->
  pos_get (s_pos s) id = Some q ->
  forall j, j <> ps_lower q -> j <> ps_upper q -> (tick_get (s_ticks s') j = None <-> tick_get (s_ticks s) j = None).
Proof.
  unfold withdraw_position. intros s owner id liq s' amts q I H Q j Nl Nu. rewrite Q in H.
  destruct (negb (0 <? liq)); [discriminate H|]. simpl in H.
  destruct (negb (ps_owner q =? owner)); [discriminate H|]. destruct (ps_liq q <? liq); [discriminate H|].
  destruct (update_position s owner (ps_lower q) (ps_upper q) (- liq) (ps_join q) id) as [[[s1 [amt0 amt1]] [le ue]]|] eqn:EU; [|discriminate H]. simpl in H.
  destruct (send_pool_to_user (s_bank s1) owner (Z.abs amt0) (Z.abs amt1)) as [b|]; [|discriminate H]. simpl in H.
  match type of H with (do s3 <- ?X; _) = _ => destruct X as [s3|] eqn:E3; [|discriminate H] end. simpl in H.
  inversion H; subst. simpl.
  assert (T3 : s_ticks s3 = s_ticks s1).
  { destruct (liq =? ps_liq q); [|inversion E3; reflexivity].
    destruct (has_any_position _); [inversion E3; reflexivity|]. unfold uninitialize_pool in E3.
    destruct (has_any_position _); [discriminate E3|]. inversion E3; reflexivity. }
  rewrite T3.
  assert (S1 : keys_sorted (s_ticks s1)).
  { destruct (update_position_spec _ _ _ _ _ _ _ _ _ _ _ _ EU) as [T _]. rewrite T. unfold init_or_update_tick. simpl.
    apply keys_sorted_set. apply keys_sorted_set. apply (inv_ticks_sorted s I). }
  assert (G : forall m, keys_sorted m -> forall k, j <> k -> tick_get (tick_remove m k) j = tick_get m j).
  { intros m Sm k Nk. rewrite tick_get_remove by exact Sm. destruct (j =? k) eqn:E; [apply Z.eqb_eq in E; contradiction|reflexivity]. }
  assert (X : tick_get (if ue then tick_remove (if le then tick_remove (s_ticks s1) (ps_lower q) else s_ticks s1) (ps_upper q)
                        else (if le then tick_remove (s_ticks s1) (ps_lower q) else s_ticks s1)) j = tick_get (s_ticks s1) j).
  { destruct le; destruct ue; rewrite ?G; try reflexivity; try assumption. apply keys_sorted_remove. exact S1. }
  rewrite X. rewrite (update_position_ticks _ _ _ _ _ _ _ _ _ _ _ EU j). tauto.
Qed.

(* ---------- projection: what an operation of the reward model does to the pool component ---------- *)
Definition same_but_bank (s s' : state) : Prop :=
  s_pool s' = s_pool s /\ s_ticks s' = s_ticks s /\ s_pos s' = s_pos s /\ s_next_id s' = s_next_id s /\ s_time s' = s_time s.
Lemma same_but_bank_refl : forall s, same_but_bank s s. Proof. intro s. repeat split. Qed.
Lemma same_but_bank_set : forall s b, same_but_bank s (set_bank s b). Proof. intros. repeat split. Qed.
Lemma inv_same_but_bank : forall s s', same_but_bank s s' -> Inv s -> Inv s'.
Proof.
  intros s s' [A [B [C [D E]]]] I. destruct I. constructor; rewrite ?A, ?B, ?C, ?D; assumption.
Qed.

Lemma r_collect_spread_loop_sbb : forall ids rs owner tot rs' c, r_collect_spread_loop rs owner ids tot = Some (rs', c) ->
  same_but_bank (r_base rs) (r_base rs') /\ rw_tt (r_rw rs') = rw_tt (r_rw rs).
Proof.
  induction ids as [|id' rest IH]; intros rs owner tot rs' c H; simpl in H; [inversion H; split; [apply same_but_bank_refl|reflexivity]|].
  destruct (pos_get (s_pos (r_base rs)) id') as [q|]; [|discriminate H].
  destruct (negb (ps_owner q =? owner)); [discriminate H|].
  destruct (collect_spread_rewards _ _ _ _ q) as [[[b w] x]|] eqn:E; [|discriminate H].
  destruct (IH _ _ _ _ _ H) as [[A [B [C [D F]]]] T]. simpl in *. split; [repeat split; assumption|].
  rewrite T. eapply collect_spread_rewards_tt. exact E.
Qed.
Lemma r_collect_inc_loop_sbb : forall ids rs owner col forf rs' c, r_collect_inc_loop rs owner ids col forf = Some (rs', c) ->
  same_but_bank (r_base rs) (r_base rs') /\ rw_tt (r_rw rs') = rw_tt (r_rw rs).
Proof.
  induction ids as [|id' rest IH]; intros rs owner col forf rs' c H; simpl in H; [inversion H; split; [apply same_but_bank_refl|reflexivity]|].
  destruct (pos_get (s_pos (r_base rs)) id') as [q|]; [|discriminate H].
  destruct (negb (ps_owner q =? owner)); [discriminate H|].
  destruct (collect_incentives _ _ _ _ _ q) as [[[[[b w] x] f] byup]|] eqn:E; [|discriminate H].
  destruct (IH _ _ _ _ _ _ H) as [[A [B [C [D F]]]] T]. simpl in *. split; [repeat split; assumption|].
  rewrite T. eapply collect_incentives_tt. exact E.
Qed.

Lemma r_withdraw_base : forall rs owner id liq rs' amts, r_withdraw rs owner id liq = Some (rs', amts) ->
  exists s', withdraw_position (r_base rs) owner id liq = Some (s', amts) /\ same_but_bank s' (r_base rs').
Proof.
  unfold r_withdraw. intros rs owner id liq rs' amts H.
  destruct (withdraw_position (r_base rs) owner id liq) as [[s' a']|]; [|discriminate H]. simpl in H.
  destruct (pos_get _ id); [|discriminate H]. simpl in H.
  destruct (collect_incentives _ _ _ _ _ _) as [[[[[? ?] ?] ?] ?]|]; [|discriminate H]. simpl in H.
  destruct (update_position_rewards _ _ _ _ _ _ _ _ _) as [?|]; [|discriminate H]. simpl in H.
  match type of H with (do bw <- ?X; _) = _ => destruct X as [[? ?]|]; [|discriminate H] end. simpl in H.
  match type of H with (do bw2 <- ?X; _) = _ => destruct X as [[? ?]|]; [|discriminate H] end. simpl in H.
  inversion H; subst. exists s'. split; [reflexivity|apply same_but_bank_set].
Qed.
Lemma r_create_base : forall rs owner a0 a1 m0 m1 lo hi rs' c, r_create rs owner a0 a1 m0 m1 lo hi = Some (rs', c) ->
  create_position (r_base rs) owner a0 a1 m0 m1 lo hi = Some (r_base rs', c).
Proof.
  unfold r_create. intros rs owner a0 a1 m0 m1 lo hi rs' c H.
  destruct (create_position _ _ _ _ _ _ _ _) as [[s2 c2]|]; [|discriminate H]. simpl in H.
  match type of H with (do w <- ?X; _) = _ => destruct X; [|discriminate H] end. inversion H; subst. reflexivity.
Qed.

(* ---------- the combined invariant and its preservation ---------- *)
Definition RInv (rs : rstate) : Prop := Inv (r_base rs) /\ dom_ok rs /\ tt_sorted (r_rw rs).

Lemma rinv_create : forall rs owner a0 a1 m0 m1 lo hi rs' c, r_create rs owner a0 a1 m0 m1 lo hi = Some (rs', c) -> RInv rs -> RInv rs'.
Proof.
  intros rs owner a0 a1 m0 m1 lo hi rs' c H [I [D S]]. pose proof (r_create_base _ _ _ _ _ _ _ _ _ _ H) as B.
  destruct (create_position_spec _ _ _ _ _ _ _ _ _ _ I B) as [I' _].
  assert (EW : exists w, update_position_rewards (r_rw rs) (p_tick (s_pool (r_base rs'))) (p_liq (s_pool (r_base rs))) (s_time (r_base rs))
                           (cr_lower c) (cr_upper c) (cr_id c) (cr_liq c) (cr_liq c) = Some w /\ r_rw rs' = w).
  { unfold r_create in H. destruct (create_position _ _ _ _ _ _ _ _) as [[s2 c2]|]; [|discriminate H]. simpl in H.
    match type of H with (do w <- ?X; _) = _ => destruct X as [w|] eqn:E; [|discriminate H] end. inversion H; subst. simpl. eauto. }
  destruct EW as [w [E EW]].
  destruct (update_position_rewards_keys _ _ _ _ _ _ _ _ _ _ E) as [K SS].
  split; [exact I'|]. split; [|unfold tt_sorted; rewrite EW; apply SS; exact S].
  intro j. rewrite EW, (K j), (create_position_ticks _ _ _ _ _ _ _ _ _ _ B j), (D j). tauto.
Qed.

Lemma rinv_withdraw : forall rs owner id liq rs' amts, r_withdraw rs owner id liq = Some (rs', amts) -> RInv rs -> RInv rs'.
Proof.
  intros rs owner id liq rs' amts H [I [D S]].
  destruct (r_withdraw_base _ _ _ _ _ _ H) as [s' [B SB]].
  destruct amts as [x0 x1]. destruct (withdraw_position_spec _ _ _ _ _ _ _ I B) as [I' _].
  split; [eapply inv_same_but_bank; eassumption|].
  unfold r_withdraw in H. rewrite B in H. simpl in H.
  destruct (pos_get (s_pos (r_base rs)) id) as [q|] eqn:Q; [|discriminate H]. simpl in H.
  set (cur := p_tick (s_pool (r_base rs))) in *.
  destruct (collect_incentives (s_bank s') (r_rw rs) cur (p_liq (s_pool (r_base rs))) (s_time (r_base rs)) q)
    as [[[[[b1 w1] col] forf] byup]|] eqn:E1; [|discriminate H]. simpl in H.
  destruct (update_position_rewards w1 cur (p_liq (s_pool (r_base rs))) (s_time (r_base rs)) (ps_lower q) (ps_upper q) id (ps_liq q - liq) (- liq))
    as [w2|] eqn:E2; [|discriminate H]. simpl in H.
  match type of H with (do bw <- ?X; _) = _ => destruct X as [[b2 w3]|] eqn:E3; [|discriminate H] end. simpl in H.
  match type of H with (do bw2 <- ?X; _) = _ => destruct X as [[b3 w4]|] eqn:E4; [|discriminate H] end. simpl in H.
  inversion H; subst rs'. clear H. simpl in *.
  assert (T1 : rw_tt w1 = rw_tt (r_rw rs)) by (eapply collect_incentives_tt; exact E1).
  destruct (update_position_rewards_keys _ _ _ _ _ _ _ _ _ _ E2) as [K2 SS2].
  assert (T3 : rw_tt w3 = rw_tt w2).
  { destruct (p_liq (s_pool s') <? P18); obind E3; inversion E3; subst; [reflexivity|]. eapply redeposit_forfeited_tt. eassumption. }
  assert (T4 : rw_tt w4 = rw_tt w3).
  { destruct (liq =? ps_liq q); [|inversion E4; reflexivity].
    destruct (collect_spread_rewards b2 w3 (p_scaling (s_pool (r_base rs))) cur q) as [[[b5 w5] c5]|] eqn:E5; [|discriminate E4].
    inversion E4; subst. eapply collect_spread_rewards_tt. exact E5. }
  assert (S2 : tm_sorted (vmap (CS false) (rw_tt w4))).
  { rewrite T4, T3. apply SS2. unfold tt_sorted. rewrite T1. exact S. }
  set (lo := ps_lower q) in *. set (hi := ps_upper q) in *.
  assert (Hlh : lo < hi).
  { pose proof (inv_pos_ok _ I) as F. rewrite Forall_forall in F. destruct (F q (pos_get_in _ _ _ Q)) as [_ [_ V]].
    apply validate_tick_range_spec in V. unfold lo, hi. lia. }
  set (t1 := match tick_get (s_ticks s') lo with None => tt_remove (rw_tt w4) lo | Some _ => rw_tt w4 end) in *.
  assert (S3 : tm_sorted (vmap (CS false) t1)).
  { unfold t1. destruct (tick_get (s_ticks s') lo); [exact S2|]. rewrite vmap_remove. apply tm_sorted_remove. exact S2. }
  assert (K4 : forall j, tt_get (rw_tt w4) j = None <-> (j <> lo /\ j <> hi /\ tt_get (rw_tt (r_rw rs)) j = None)).
  { intro j. rewrite T4, T3, (K2 j), T1. tauto. }
  assert (G1 : forall j, tt_get t1 j = None <-> ((j = lo /\ tick_get (s_ticks s') lo = None) \/ tt_get (rw_tt w4) j = None)).
  { intro j. unfold t1. destruct (tick_get (s_ticks s') lo) eqn:EL.
    - split; [auto|]. intros [[_ X]|X]; [discriminate X|exact X].
    - rewrite (tt_get_remove _ _ _ S2). split; intros [X|X]; auto. destruct X; auto. }
  split.
  - intro j. simpl.
    assert (G2 : tt_get (match tick_get (s_ticks s') hi with None => tt_remove t1 hi | Some _ => t1 end) j = None <->
                 ((j = hi /\ tick_get (s_ticks s') hi = None) \/ tt_get t1 j = None)).
    { destruct (tick_get (s_ticks s') hi) eqn:EH.
      - split; [auto|]. intros [[_ X]|X]; [discriminate X|exact X].
      - rewrite (tt_get_remove _ _ _ S3). split; intros [X|X]; auto. destruct X; auto. }
    rewrite G2, (G1 j), (K4 j).
    destruct (Z.eq_dec j lo) as [EL|NL]; [subst j|destruct (Z.eq_dec j hi) as [EH|NH]; [subst j|]].
    + split; [intros [[X _]|[[_ X]|[X _]]]; try lia; try exact X; congruence|intro X; right; left; auto].
    + split; [intros [[_ X]|[[X _]|[_ [X _]]]]; try lia; try exact X; congruence|intro X; left; auto].
    + rewrite (withdraw_position_ticks _ _ _ _ _ _ _ I B Q j NL NH), <- (D j). split; [intros [[X _]|[[X _]|[_ [_ X]]]]; try contradiction; exact X|intro X; right; right; auto].
  - unfold tt_sorted. simpl. destruct (tick_get (s_ticks s') hi); [exact S3|]. rewrite vmap_remove. apply tm_sorted_remove. exact S3.
Qed.

Lemma apply_events_tt : forall evs w din pl now pending w' p', apply_events w din pl now pending evs = Some (w', p') ->
  (forall j, tt_get (rw_tt w') j = None <-> tt_get (rw_tt w) j = None) /\ (tt_sorted w -> tt_sorted w').
Proof.
  induction evs as [|e r IH]; intros w din pl now pending w' p' H; simpl in H; [inversion H; subst; split; [tauto|auto]|].
  destruct e as [g|i|t].
  - destruct (dchk (pending + g)); [|discriminate H]. eapply IH. exact H.
  - destruct (update_uptime w pl now) as [w1|] eqn:E1; [|discriminate H].
    destruct (cross_trackers w1 din pending i) as [w2|] eqn:E2; [|discriminate H].
    destruct (IH _ _ _ _ _ _ _ H) as [K SS]. destruct (update_uptime_tt _ _ _ _ E1) as [T _].
    split.
    + intro j. rewrite (K j). pose proof (cross_trackers_keys _ _ _ _ _ E2 j) as X. unfold tkeys in X. rewrite T in X.
      destruct (tt_get (rw_tt w2) j); destruct (tt_get (rw_tt w) j); split; intro Y; try reflexivity; try discriminate Y; exfalso;
        [apply (proj1 X); [discriminate|reflexivity]|apply (proj2 X); [discriminate|reflexivity]].
    + intro S. apply SS. unfold tt_sorted in *. unfold cross_trackers in E2. obind E2. inversion E2; subst. simpl.
      rewrite vmap_set. apply tm_sorted_set. rewrite T. exact S.
  - eapply IH. exact H.
Qed.

Lemma swap_rewards_tt : forall w s ei zfo amt now w', swap_rewards w s ei zfo amt now = Some w' ->
  (forall j, tt_get (rw_tt w') j = None <-> tt_get (rw_tt w) j = None) /\ (tt_sorted w -> tt_sorted w').
Proof.
  unfold swap_rewards. intros w s ei zfo amt now w' H.
  destruct (swap_events s ei zfo amt) as [evs|]; [|discriminate H]. simpl in H.
  destruct (apply_events w (if zfo then 0 else 1) (p_liq (s_pool s)) now 0 evs) as [[w1 pending]|] eqn:EA; [|discriminate H]. simpl in H.
  destruct (acc_add_to (rw_spread w1) _) as [a|]; [|discriminate H]. inversion H; subst. simpl.
  exact (apply_events_tt _ _ _ _ _ _ _ _ EA).
Qed.

Lemma rinv_handler : forall rs o rs' r, rhandler rs o = Some (rs', r) -> RInv rs -> RInv rs'.
Proof.
  intros rs o rs' r H RI. destruct o as [b|owner ids|owner ids|sender denom amount rate dt uu]; simpl in H.
  - destruct b as [owner a0 a1 m0 m1 lo hi|owner id liq|owner id a0 a1 m0 m1|sender ids recipient|sender zfo amt mo|sender zfo amt mi|dt].
    + destruct (r_create rs owner a0 a1 m0 m1 lo hi) as [[rs1 c]|] eqn:E; [|discriminate H]. inversion H; subst. eapply rinv_create; eassumption.
    + destruct (r_withdraw rs owner id liq) as [[rs1 [x0 x1]]|] eqn:E; [|discriminate H]. inversion H; subst. eapply rinv_withdraw; eassumption.
    + destruct (r_add rs owner id a0 a1 m0 m1) as [[rs1 [[nid y0] y1]]|] eqn:E; [|discriminate H]. inversion H; subst.
      assert (QX : exists q, pos_get (s_pos (r_base rs)) id = Some q).
      { unfold r_add in E. destruct (id <=? 0); [discriminate E|].
        destruct ((a0 <? 0) || (a1 <? 0) || (m0 <? 0) || (m1 <? 0)); [discriminate E|].
        destruct (pos_get (s_pos (r_base rs)) id) as [q|]; [eauto|discriminate E]. }
      destruct QX as [q Q]. destruct (r_add_split _ _ _ _ _ _ _ _ _ _ E Q) as [rs1 [w0 [w1 [m0' [m1' [cr [EW EC]]]]]]].
      eapply rinv_create; [exact EC|]. eapply rinv_withdraw; eassumption.
    + destruct (transfer_positions (r_base rs) sender ids recipient) as [s'|] eqn:E; [|discriminate H]. inversion H; subst.
      destruct RI as [I [D S]]. destruct (transfer_positions_spec _ _ _ _ _ I E) as [I' [_ [_ [_ [T _]]]]].
      split; [exact I'|]. split; [|exact S]. intro j. simpl. rewrite T. apply D.
    + destruct (r_swap_in rs sender zfo amt mo) as [[rs1 out]|] eqn:E; [|discriminate H]. inversion H; subst. clear H.
      unfold r_swap_in in E. destruct (swap_exact_in (r_base rs) sender zfo amt mo) as [[s' out']|] eqn:E1; [|discriminate E]. simpl in E.
      destruct (swap_rewards (r_rw rs) (r_base rs) true zfo amt (s_time (r_base rs))) as [w|] eqn:E2; [|discriminate E]. inversion E; subst.
      destruct RI as [I [D S]]. destruct (handler_inv (r_base rs) (OSwapIn sender zfo amt mo) s' [out] I) as [I' _]; [simpl; rewrite E1; reflexivity|].
      destruct (swap_rewards_tt _ _ _ _ _ _ _ E2) as [K SS].
      assert (T : s_ticks s' = s_ticks (r_base rs)).
      { unfold swap_exact_in in E1. destruct (negb (0 <? amt) || negb (0 <? mo)); [discriminate E1|].
        destruct (compute_out_amt_given_in _ _ _ _) as [rr|]; [|discriminate E1]. simpl in E1. destruct (negb (0 <? sr_out rr)); [discriminate E1|].
        destruct (update_pool_for_swap (r_base rs) sender zfo rr) as [s0|] eqn:EU; [|discriminate E1]. simpl in E1.
        destruct (sr_out rr <? mo); [discriminate E1|]. inversion E1; subst.
        destruct (update_pool_for_swap_spec _ _ _ _ _ EU) as [b Hb]. rewrite Hb. reflexivity. }
      split; [exact I'|]. split; [|apply SS; exact S]. intro j. simpl. rewrite (K j), T. apply D.
    + destruct (r_swap_out rs sender zfo amt mi) as [[rs1 tin]|] eqn:E; [|discriminate H]. inversion H; subst. clear H.
      unfold r_swap_out in E. destruct (swap_exact_out (r_base rs) sender zfo amt mi) as [[s' tin']|] eqn:E1; [|discriminate E]. simpl in E.
      destruct (swap_rewards (r_rw rs) (r_base rs) false zfo amt (s_time (r_base rs))) as [w|] eqn:E2; [|discriminate E]. inversion E; subst.
      destruct RI as [I [D S]]. destruct (handler_inv (r_base rs) (OSwapOut sender zfo amt mi) s' [tin] I) as [I' _]; [simpl; rewrite E1; reflexivity|].
      destruct (swap_rewards_tt _ _ _ _ _ _ _ E2) as [K SS].
      assert (T : s_ticks s' = s_ticks (r_base rs)).
      { unfold swap_exact_out in E1. destruct (negb (0 <? amt) || negb (0 <? mi)); [discriminate E1|].
        destruct (compute_in_amt_given_out _ _ _ _) as [rr|]; [|discriminate E1]. simpl in E1. destruct (negb (0 <? sr_in rr)); [discriminate E1|].
        destruct (update_pool_for_swap (r_base rs) sender zfo rr) as [s0|] eqn:EU; [|discriminate E1]. simpl in E1.
        destruct (mi <? sr_in rr); [discriminate E1|]. inversion E1; subst.
        destruct (update_pool_for_swap_spec _ _ _ _ _ EU) as [b Hb]. rewrite Hb. reflexivity. }
      split; [exact I'|]. split; [|apply SS; exact S]. intro j. simpl. rewrite (K j), T. apply D.
    + inversion H; subst. destruct RI as [I [D S]]. split; [|split; [exact D|exact S]].
      destruct I. constructor; simpl; assumption.
  - destruct (r_collect_spread rs owner ids) as [[rs1 c]|] eqn:E; [|discriminate H]. inversion H; subst.
    unfold r_collect_spread in E. destruct (r_collect_spread_loop_sbb _ _ _ _ _ _ E) as [SB T]. destruct RI as [I [D S]].
    split; [eapply inv_same_but_bank; eassumption|]. destruct SB as [_ [TB _]].
    split; [intro j; rewrite T, TB; apply D|unfold tt_sorted; rewrite T; exact S].
  - destruct (r_collect_inc rs owner ids) as [[rs1 [c f]]|] eqn:E; [|discriminate H]. inversion H; subst.
    unfold r_collect_inc in E. destruct (r_collect_inc_loop_sbb _ _ _ _ _ _ _ E) as [SB T]. destruct RI as [I [D S]].
    split; [eapply inv_same_but_bank; eassumption|]. destruct SB as [_ [TB _]].
    split; [intro j; rewrite T, TB; apply D|unfold tt_sorted; rewrite T; exact S].
  - destruct (r_incentive rs sender denom amount rate dt uu) as [rs1|] eqn:E; [|discriminate H]. inversion H; subst.
    destruct RI as [I [D S]]. unfold r_incentive in E. obind E. inversion E; subst. simpl.
    match goal with X : update_uptime _ _ _ = Some _ |- _ => destruct (update_uptime_tt _ _ _ _ X) as [T _] end.
    split; [eapply inv_same_but_bank; [apply same_but_bank_set|exact I]|].
    split; [intro j; simpl; rewrite T; apply D|unfold tt_sorted; simpl; rewrite T; exact S].
Qed.

Theorem rinv_step : forall rs o, RInv rs -> RInv (fst (rstep rs o)).
Proof.
  intros rs o RI. unfold rstep. destruct (rhandler rs o) as [[rs' r]|] eqn:H; simpl; [eapply rinv_handler; eassumption|exact RI].
Qed.
Theorem rinv_run : forall ops rs, RInv rs -> RInv (rrun rs ops).
Proof. induction ops as [|o r IH]; intros rs RI; simpl; [exact RI|]. apply IH. apply rinv_step. exact RI. Qed.
Theorem rinv_init : forall sp spf ssc isc users t, 0 < sp -> 0 <= spf <= 500000000000000000 -> RInv (rinit sp spf ssc isc users t).
Proof.
  intros. split; [apply init_inv; assumption|]. split; [intro j; simpl; tauto|constructor].
Qed.

(* GROWTH_INSIDE_TELESCOPES, SWAP SIDE CONDITION DISCHARGED FOR ALL REACHABLE STATES: in every state reachable from a fresh
   pool by any history of operations, the trace of every executed swap is well-formed for every accumulator component *)
Theorem reachable_swap_wf : forall sp spf ssc isc users t ops k o rs' r,
  0 < sp -> 0 <= spf <= 500000000000000000 ->
  let rs := rrun (rinit sp spf ssc isc users t) ops in
  rhandler rs o = Some (rs', r) -> is_swap o = true -> evs_wf (rview k rs) (op_trace k rs o).
Proof.
  intros sp spf ssc isc users t ops k o rs' r Hs Hf rs H S.
  destruct (rinv_run ops _ (rinv_init sp spf ssc isc users t Hs Hf)) as [I [D _]].
  eapply swap_op_wf; eassumption.
Qed.
