(* C08: the reward state of the model seen, for each scalar accumulator component (a denomination of the spread
   accumulator or of one of the uptime accumulators), as a state of the abstract tick-snapshot machine of
   C08/Telescope.v; the primitives of CLR/Rewards.v that touch an accumulator value or a tracker are events of
   that machine. *)
From Coq Require Import ZArith List Bool Lia.
Import ListNotations.
From Osmo Require Import Base.DecModel CL.TickMath CL.CLMath CL.CLSwap CLR.Accum CLR.Rewards C08.Telescope.
Open Scope Z_scope.

(* ---------- destructing the option monad ---------- *)
Ltac obind H :=
  repeat (match type of H with
  | match ?x with Some _ => _ | None => None end = Some _ =>
      let E := fresh "E" in destruct x eqn:E; [|discriminate H]
  | (if ?b then None else _) = Some _ =>
      let E := fresh "E" in destruct b eqn:E; [discriminate H|]
  | (if ?b then _ else None) = Some _ =>
      let E := fresh "E" in destruct b eqn:E; [|discriminate H]
  | (let '(_, _) := ?x in _) = Some _ => destruct x
  end).

Lemma dchk_some : forall z r, dchk z = Some r -> r = z.
Proof. unfold dchk. intros z r H. destruct (d_fits z); inversion H; reflexivity. Qed.

(* ---------- components ---------- *)
Inductive comp := CS (d : bool) | CU (u : nat) (d : bool).
Definition dsel (d : bool) (x : dc) : Z := if d then snd x else fst x.
Definition sel_t (k : comp) (t : rtick) : Z :=
  match k with CS d => dsel d (rt_spread t) | CU u d => dsel d (nth u (rt_up t) dc0) end.
Definition sel_G (k : comp) (w : rwd) : Z :=
  match k with CS d => dsel d (ac_value (rw_spread w)) | CU u d => dsel d (nth u (map ac_value (rw_up w)) dc0) end.
Definition sel_pend (k : comp) (pend : dc) : Z := match k with CS d => dsel d pend | CU _ _ => 0 end.
Definition vmap (k : comp) (m : list (Z * rtick)) : tmap := map (fun kv => (fst kv, sel_t k (snd kv))) m.
(* cur = current tick; pend = spread-reward growth of the running swap not yet added to the accumulator *)
Definition view (k : comp) (w : rwd) (cur : Z) (pend : dc) : astate :=
  mkA cur (sel_G k w + sel_pend k pend) (vmap k (rw_tt w)).

Lemma vmap_get : forall k m i, tm_get (vmap k m) i = option_map (sel_t k) (tt_get m i).
Proof.
  induction m as [|[a t] m IH]; intros i; simpl; [reflexivity|]. destruct (i =? a); [reflexivity|apply IH].
Qed.
Lemma vmap_set : forall k m i t, vmap k (tt_set m i t) = tm_set (vmap k m) i (sel_t k t).
Proof.
  induction m as [|[a t'] m IH]; intros i t; simpl; [reflexivity|].
  destruct (i <? a); [reflexivity|]. destruct (i =? a); [reflexivity|]. simpl. rewrite IH. reflexivity.
Qed.
Lemma vmap_remove : forall k m i, vmap k (tt_remove m i) = tm_remove (vmap k m) i.
Proof.
  induction m as [|[a t'] m IH]; intros i; simpl; [reflexivity|].
  destruct (i =? a); [reflexivity|]. simpl. rewrite IH. reflexivity.
Qed.

(* ---------- DecCoins componentwise ---------- *)
Lemma dsel_add : forall d a b c, dc_add a b = Some c -> dsel d c = dsel d a + dsel d b.
Proof.
  unfold dc_add. intros d a b c H. obind H. inversion H; subst. apply dchk_some in E, E0. subst. destruct d; reflexivity.
Qed.
Lemma dsel_safe_sub : forall d a b c, dc_safe_sub a b = Some c -> dsel d c = dsel d a - dsel d b.
Proof.
  unfold dc_safe_sub. intros d a b c H. obind H. inversion H; subst. apply dchk_some in E, E0. subst. destruct d; reflexivity.
Qed.
Lemma dsel_sub : forall d a b c, dc_sub a b = Some c -> dsel d c = dsel d a - dsel d b /\ 0 <= dsel d c.
Proof.
  unfold dc_sub. intros d a b c H. obind H. inversion H; subst. split; [eapply dsel_safe_sub; eassumption|].
  unfold dc_any_neg in E0. apply orb_false_iff in E0. destruct E0 as [A B]. apply Z.ltb_ge in A, B. destruct d; assumption.
Qed.
Lemma dsel_one : forall d din x, dsel d (dc_one din x) = if Bool.eqb d (negb (din =? 0)) then x else 0.
Proof. intros d din x. unfold dc_one. destruct (din =? 0); destruct d; reflexivity. Qed.
Lemma dsel_dc0 : forall d, dsel d dc0 = 0. Proof. destruct d; reflexivity. Qed.

(* ---------- omap2 ---------- *)
Lemma omap2_length : forall f a b r, omap2 f a b = Some r -> length a = length b /\ length r = length a.
Proof.
  induction a as [|x a IH]; intros b r H; destruct b as [|y b]; simpl in H; try discriminate.
  - inversion H. auto.
  - obind H. inversion H; subst. destruct (IH _ _ E0). simpl. split; congruence.
Qed.
Lemma omap2_nth : forall f a b r n, omap2 f a b = Some r -> (n < length a)%nat ->
  f (nth n a dc0) (nth n b dc0) = Some (nth n r dc0).
Proof.
  induction a as [|x a IH]; intros b r n H Hn; destruct b as [|y b]; simpl in H; try discriminate; simpl in Hn; [lia|].
  obind H. inversion H; subst. destruct n as [|n]; simpl; [assumption|]. apply IH; [assumption|lia].
Qed.

(* ---------- the primitives as events ---------- *)
(* anything that leaves the trackers alone is a growth event of size (new G - old G) *)
Lemma view_grow : forall k w w' cur pend, rw_tt w' = rw_tt w ->
  view k w' cur pend = a_step (view k w cur pend) (AGrow (sel_G k w' - sel_G k w)).
Proof. intros k w w' cur pend H. unfold view. simpl. rewrite H. f_equal. lia. Qed.

Lemma view_same : forall k w w' cur pend, rw_tt w' = rw_tt w -> sel_G k w' = sel_G k w ->
  view k w' cur pend = view k w cur pend.
Proof. intros k w w' cur pend H1 H2. unfold view. rewrite H1, H2. reflexivity. Qed.

Lemma update_uptime_tt : forall w liq now w', update_uptime w liq now = Some w' ->
  rw_tt w' = rw_tt w /\ rw_spread w' = rw_spread w /\ rw_inc_scaling w' = rw_inc_scaling w.
Proof.
  unfold update_uptime. intros w liq now w' H.
  destruct (now - rw_last w =? 0); [inversion H; auto|].
  destruct (now - rw_last w <? 0); [discriminate|].
  obind H. inversion H; subst. simpl. auto.
Qed.

(* reading a tracker in the view = selecting from the model's tt_read, provided the uptime arrays have the right length *)
Definition wf_rwd (w : rwd) : Prop := Forall (fun kv => length (rt_up (snd kv)) = length (rw_up w)) (rw_tt w).

Lemma nth_map_const : forall (l : list accum) u, nth u (map (fun _ : accum => dc0) l) dc0 = dc0.
Proof. induction l as [|a l IH]; intro u; destruct u; simpl; try reflexivity. apply IH. Qed.

Lemma sel_init_tracker : forall k w cur i, sel_t k (init_tracker w cur i) = a_init_val (view k w cur dc0) i.
Proof.
  intros k w cur i. unfold init_tracker, a_init_val, view. simpl.
  assert (P0 : sel_pend k dc0 = 0) by (destruct k as [d|u d]; simpl; [destruct d; reflexivity|reflexivity]).
  rewrite P0, Z.add_0_r.
  destruct (i <=? cur); destruct k as [d|u d]; simpl; try reflexivity.
  - apply dsel_dc0.
  - rewrite nth_map_const. apply dsel_dc0.
Qed.

Lemma a_read_view : forall k w cur i, a_read (view k w cur dc0) i = sel_t k (tt_read w cur i).
Proof.
  intros k w cur i. unfold a_read, tt_read. simpl. rewrite vmap_get.
  destruct (tt_get (rw_tt w) i); simpl; [reflexivity|]. rewrite sel_init_tracker. reflexivity.
Qed.

(* ---------- ensure_tick = (uptime growth) ; AInit ---------- *)
Lemma ensure_tick_view : forall k w cur liq now i w', ensure_tick w cur liq now i = Some w' ->
  view k w' cur dc0 =
    match tt_get (rw_tt w) i with
    | Some _ => view k w cur dc0
    | None => a_run (view k w cur dc0) [AGrow (sel_G k w' - sel_G k w); AInit i]
    end.
Proof.
  unfold ensure_tick. intros k w cur liq now i w' H.
  destruct (tt_get (rw_tt w) i) eqn:EG; [inversion H; reflexivity|].
  obind H. inversion H; subst. clear H. destruct (update_uptime_tt _ _ _ _ E) as [T [S _]].
  unfold view, a_run, a_step. simpl. rewrite vmap_set, T. f_equal; [lia|]. f_equal.
  unfold a_init_val. simpl. unfold init_tracker. rewrite S.
  replace (sel_G k w + sel_pend k dc0 + (sel_G k (set_tt r (tt_set (rw_tt w) i _)) - sel_G k w))
    with (sel_G k r + sel_pend k dc0).
  2:{ assert (sel_G k (set_tt r (tt_set (rw_tt w) i
        {| rt_spread := if i <=? cur then ac_value (rw_spread w) else dc0;
           rt_up := rt_up (if i <=? cur then {| rt_spread := ac_value (rw_spread w); rt_up := map ac_value (rw_up r) |}
                           else {| rt_spread := dc0; rt_up := map (fun _ : accum => dc0) (rw_up r) |}) |})) = sel_G k r)
      by (destruct k; reflexivity). lia. }
  assert (P0 : sel_pend k dc0 = 0) by (destruct k as [d|u d]; simpl; [destruct d; reflexivity|reflexivity]).
  rewrite P0, Z.add_0_r.
  destruct (i <=? cur); destruct k as [d|u d]; simpl; try reflexivity.
  - rewrite S. reflexivity.
  - apply dsel_dc0.
  - rewrite nth_map_const. apply dsel_dc0.
Qed.

Lemma ensure_tick_keys : forall w cur liq now i w', ensure_tick w cur liq now i = Some w' ->
  forall j, tt_get (rw_tt w') j <> None <-> (j = i \/ tt_get (rw_tt w) j <> None).
Proof.
  unfold ensure_tick. intros w cur liq now i w' H j.
  destruct (tt_get (rw_tt w) i) eqn:EG.
  - inversion H; subst. split; [auto|]. intros [A|A]; [subst; congruence|assumption].
  - obind H. inversion H; subst. destruct (update_uptime_tt _ _ _ _ E) as [T _]. simpl. rewrite T.
    pose proof (vmap_get (CS false) (tt_set (rw_tt w) i
       {| rt_spread := if i <=? cur then ac_value (rw_spread w) else dc0; rt_up := rt_up (init_tracker r cur i) |}) j) as V.
    rewrite vmap_set, tm_get_set, vmap_get in V.
    destruct (j =? i) eqn:EJ.
    + apply Z.eqb_eq in EJ. subst j. split; [auto|]. intros _ C. rewrite C in V. discriminate.
    + apply Z.eqb_neq in EJ. split.
      * intro A. right. intro C. rewrite C in V. simpl in V. destruct (tt_get (tt_set _ _ _) j); [discriminate|congruence].
      * intros [A|A]; [contradiction|]. intro C. rewrite C in V. destruct (tt_get (rw_tt w) j); [discriminate|congruence].
Qed.

(* ---------- cross_trackers = ACross ---------- *)
Definition up_len_ok (w : rwd) (i : Z) : Prop := forall t, tt_get (rw_tt w) i = Some t -> length (rt_up t) = length (rw_up w).

Lemma cross_trackers_view : forall k w din pending i w' cur c',
  cross_trackers w din pending i = Some w' ->
  view k w' c' (dc_one din pending) = a_step (view k w cur (dc_one din pending)) (ACross i c').
Proof.
  unfold cross_trackers. intros k w din pending i w' cur c' H. obind H. inversion H; subst. clear H.
  unfold view, a_step. simpl. rewrite vmap_set. f_equal. f_equal.
  unfold a_read. simpl. rewrite vmap_get, E. simpl.
  destruct k as [kd|ku kd]; simpl.
  - destruct (dsel_sub kd _ _ _ E1) as [A _]. rewrite A, (dsel_add kd _ _ _ E0). reflexivity.
  - rewrite Z.add_0_r. destruct (omap2_length _ _ _ _ E2) as [L1 L2].
    destruct (Nat.lt_ge_cases ku (length (map ac_value (rw_up w)))) as [Hu|Hu].
    + pose proof (omap2_nth _ _ _ _ ku E2 Hu) as N. destruct (dsel_sub kd _ _ _ N) as [A _]. exact A.
    + rewrite !nth_overflow by lia. destruct kd; reflexivity.
Qed.

Lemma cross_trackers_other : forall w din pending i w', cross_trackers w din pending i = Some w' ->
  rw_spread w' = rw_spread w /\ rw_up w' = rw_up w /\ rw_recs w' = rw_recs w /\ rw_last w' = rw_last w
  /\ rw_next_inc w' = rw_next_inc w /\ rw_inc_scaling w' = rw_inc_scaling w.
Proof. unfold cross_trackers. intros w din pending i w' H. obind H. inversion H; subst. simpl. repeat split. Qed.

(* ---------- the model's growth-outside / growth-inside formulas are the abstract ones ---------- *)
Lemma spread_growth_outside_view : forall d w cur lo hi out, spread_growth_outside w cur lo hi = Some out ->
  let s := view (CS d) w cur dc0 in dsel d out = a_above s hi + a_below s lo.
Proof.
  unfold spread_growth_outside, calc_spread_growth. intros d w cur lo hi out H. simpl. obind H.
  rewrite (dsel_add d _ _ _ H). unfold a_above, a_below.
  rewrite !(a_read_view (CS d)). simpl. rewrite dsel_dc0, Z.add_0_r. simpl in *.
  assert (X1 : dsel d d0 = if hi <=? cur then dsel d (ac_value (rw_spread w)) - dsel d (rt_spread (tt_read w cur hi)) else dsel d (rt_spread (tt_read w cur hi))).
  { destruct (hi <=? cur); simpl in E; [apply (dsel_sub d) in E; tauto|inversion E; reflexivity]. }
  assert (X2 : dsel d d1 = if lo <=? cur then dsel d (rt_spread (tt_read w cur lo)) else dsel d (ac_value (rw_spread w)) - dsel d (rt_spread (tt_read w cur lo))).
  { destruct (cur <? lo) eqn:EL; simpl in E0.
    - apply Z.ltb_lt in EL. assert ((lo <=? cur) = false) as -> by (apply Z.leb_gt; lia). apply (dsel_sub d) in E0; tauto.
    - apply Z.ltb_ge in EL. assert ((lo <=? cur) = true) as -> by (apply Z.leb_le; lia). inversion E0; reflexivity. }
  rewrite X1, X2. reflexivity.
Qed.

(* growth inside as the model computes it for the spread accumulator: accumulator value - growth outside *)
Lemma spread_growth_inside_view : forall d w cur lo hi out ins, spread_growth_outside w cur lo hi = Some out ->
  dc_safe_sub (ac_value (rw_spread w)) out = Some ins ->
  dsel d ins = a_inside (view (CS d) w cur dc0) lo hi.
Proof.
  intros d w cur lo hi out ins H1 H2. rewrite (dsel_safe_sub d _ _ _ H2), (spread_growth_outside_view d _ _ _ _ _ H1).
  unfold a_inside. simpl. rewrite dsel_dc0. lia.
Qed.

(* GetUptimeGrowthInsideRange: the three-way case split is the same growth inside *)
Lemma uptime_growth_inside_view : forall u d w cur lo hi ins, lo < hi -> (u < length (rw_up w))%nat ->
  uptime_growth_inside w cur lo hi = Some ins ->
  dsel d (nth u ins dc0) = a_inside (view (CU u d) w cur dc0) lo hi.
Proof.
  unfold uptime_growth_inside. intros u d w cur lo hi ins Hlh Hu H.
  rewrite a_inside_cases by assumption. rewrite !(a_read_view (CU u d)). simpl. rewrite Z.add_0_r.
  destruct (cur <? lo).
  - destruct (omap2_length _ _ _ _ H) as [L1 L2].
    destruct (Nat.lt_ge_cases u (length (rt_up (tt_read w cur lo)))) as [Hu'|Hu'].
    + pose proof (omap2_nth _ _ _ _ u H Hu') as N. exact (dsel_safe_sub d _ _ _ N).
    + rewrite !nth_overflow by lia. destruct d; reflexivity.
  - destruct (cur <? hi).
    + obind H. destruct (omap2_length _ _ _ _ E) as [L1 L2]. rewrite map_length in *.
      pose proof (omap2_nth _ _ _ _ u E ltac:(rewrite map_length; lia)) as N1.
      pose proof (omap2_nth _ _ _ _ u H ltac:(lia)) as N2.
      rewrite (dsel_safe_sub d _ _ _ N2). destruct (dsel_sub d _ _ _ N1) as [A _]. rewrite A. reflexivity.
    + destruct (omap2_length _ _ _ _ H) as [L1 L2].
      destruct (Nat.lt_ge_cases u (length (rt_up (tt_read w cur hi)))) as [Hu'|Hu'].
      * pose proof (omap2_nth _ _ _ _ u H Hu') as N. exact (dsel_safe_sub d _ _ _ N).
      * rewrite !nth_overflow by lia. destruct d; reflexivity.
Qed.
