(* C08, never_in_range_earns_zero for spread rewards, over histories: a position whose spread-reward record claims
   nothing (nothing unclaimed, snapshot = growth inside now) keeps such a record through every operation during which
   nothing accrues inside its range - including operations on the position itself (collecting, partial withdrawal) and
   operations on other positions - and therefore can never claim anything. *)
From Coq Require Import ZArith List Bool Lia.
Import ListNotations.
From Osmo Require Import Base.DecModel CL.TickMath CL.CLMath CL.CLPool CL.CLSwap CL.CLStep
  CLR.Accum CLR.Rewards CLR.RSwap CLR.RStep C07.Base C07.LP
  C08.Proj C08.Telescope C08.View C08.Static C08.Stages C08.Ops C08.OpInside C08.SwapTrace C08.Crux C08.Claim C08.Conseq C08.Frame.
Open Scope Z_scope.

Definition live (rs : rstate) (id l u L : Z) : Prop :=
  exists q, pos_get (s_pos (r_base rs)) id = Some q /\ ps_lower q = l /\ ps_upper q = u /\ ps_liq q = L.
Definition zero_rec (rs : rstate) (id l u : Z) : Prop :=
  exists L r, live rs id l u L /\ 0 < L /\ acc_get (rw_spread (r_rw rs)) id = Some r /\ ar_shares r = L /\
    ar_unclaimed r = dc0 /\ forall d, dsel d (ar_snap r) = a_inside (rview (CS d) rs) l u.

Theorem zero_rec_claims_nothing : forall rs id l u c, zero_rec rs id l u -> claimable_spread rs id = Some c -> c = (0, 0).
Proof.
  intros rs id l u c [L [r [[q [Q [Ql [Qu QL]]]] [LP [R [Sh [U S]]]]]]] H. unfold claimable_spread in H. rewrite Q in H. simpl in H.
  rewrite Ql, Qu in H.
  destruct (prepare_claimable_spread (r_rw rs) (p_scaling (s_pool (r_base rs))) (p_tick (s_pool (r_base rs))) l u id) as [[w' c']|] eqn:E; [|discriminate H].
  inversion H; subst c'. eapply claimable_spread_zero; eauto.
Qed.

(* ---------- stages that do not touch the spread accumulator at all ---------- *)
Lemma init_or_update_uptime_spread : forall w cur pl now lo hi id liq delta w',
  init_or_update_uptime w cur pl now lo hi id liq delta = Some w' -> rw_spread w' = rw_spread w.
Proof. unfold init_or_update_uptime. intros. obind H. inversion H; subst. simpl. apply (update_uptime_tt _ _ _ _ E). Qed.
Lemma prepare_claim_all_incentives_spread : forall w cur pl now lo hi id join w' c f b,
  prepare_claim_all_incentives w cur pl now lo hi id join = Some (w', c, f, b) -> rw_spread w' = rw_spread w.
Proof. unfold prepare_claim_all_incentives. intros. obind H. inversion H; subst. simpl. apply (update_uptime_tt _ _ _ _ E). Qed.
Lemma collect_incentives_spread : forall b w cur pl now q b' w' c f byup,
  collect_incentives b w cur pl now q = Some (b', w', c, f, byup) -> rw_spread w' = rw_spread w.
Proof. unfold collect_incentives. intros. obind H. inversion H; subst. eapply prepare_claim_all_incentives_spread. exact E. Qed.
Lemma redeposit_forfeited_spread : forall w byup liq w', redeposit_forfeited w byup liq = Some w' -> rw_spread w' = rw_spread w.
Proof. unfold redeposit_forfeited. intros. obind H. inversion H; reflexivity. Qed.
Lemma ensure_tick_spread : forall w cur liq now i w', ensure_tick w cur liq now i = Some w' -> rw_spread w' = rw_spread w.
Proof.
  unfold ensure_tick. intros w cur liq now i w' H. destruct (tt_get (rw_tt w) i); [inversion H; reflexivity|].
  obind H. inversion H; subst. simpl. apply (update_uptime_tt _ _ _ _ E).
Qed.
Lemma ensure_tick_present : forall w cur liq now i w', ensure_tick w cur liq now i = Some w' -> tt_get (rw_tt w) i <> None -> w' = w.
Proof. unfold ensure_tick. intros w cur liq now i w' H K. destruct (tt_get (rw_tt w) i); [inversion H; reflexivity|congruence]. Qed.

(* ---------- which spread records the stages write ---------- *)
Lemma init_or_update_spread_other : forall w cur lo hi id delta w', init_or_update_spread w cur lo hi id delta = Some w' ->
  same_other (rw_spread w) (rw_spread w') id.
Proof.
  unfold init_or_update_spread. intros w cur lo hi id delta w' H.
  destruct (spread_growth_outside w cur lo hi) as [out|]; [|discriminate H]. simpl in H.
  destruct (dc_safe_sub (ac_value (rw_spread w)) out) as [ins|]; [|discriminate H]. simpl in H.
  destruct (negb (acc_has (rw_spread w) id)).
  - destruct (negb (0 <? delta)); [discriminate H|].
    destruct (acc_new_position (rw_spread w) id delta ins) as [a'|] eqn:E; [|discriminate H]. inversion H; subst. simpl.
    eapply acc_new_position_other. exact E.
  - destruct (to_init_plus_outside (rw_spread w) id out) as [a1|] eqn:E1; [|discriminate H]. simpl in H.
    destruct (acc_update_position a1 id delta ins) as [a2|] eqn:E2; [|discriminate H]. inversion H; subst. simpl.
    eapply same_other_trans; [eapply to_init_plus_outside_other; exact E1|eapply acc_update_position_other; exact E2].
Qed.
Lemma prepare_claimable_spread_other : forall w sc cur lo hi id w' c, prepare_claimable_spread w sc cur lo hi id = Some (w', c) ->
  same_other (rw_spread w) (rw_spread w') id.
Proof.
  unfold prepare_claimable_spread. intros w sc cur lo hi id w' c H.
  destruct (negb (acc_has (rw_spread w) id)); [discriminate H|].
  destruct (spread_growth_outside w cur lo hi) as [out|]; [|discriminate H]. simpl in H.
  destruct (update_accum_and_claim (rw_spread w) id out) as [[[a1 cs] dust]|] eqn:EU; [|discriminate H]. simpl in H.
  pose proof (update_accum_and_claim_other _ _ _ _ _ _ EU) as S1.
  match type of H with (do cd <- ?X; _) = _ => destruct X as [[claimed dust']|]; [|discriminate H] end. simpl in H.
  match type of H with (do a2 <- ?X; _) = _ => destruct X as [a2|] eqn:EA; [|discriminate H] end. inversion H; subst. simpl.
  intros j N. rewrite <- (S1 j N). unfold acc_get.
  destruct (negb (dc_is_zero dust') && negb (ac_total a1 =? 0)); [|inversion EA; reflexivity].
  destruct (dc_quo_dec_truncate dust' (ac_total a1)); [|discriminate EA]. simpl in EA.
  destruct (acc_add_to_recs _ _ _ EA) as [R _]. rewrite R. reflexivity.
Qed.
Lemma collect_spread_rewards_other : forall b w sc cur q b' w' c, collect_spread_rewards b w sc cur q = Some (b', w', c) ->
  same_other (rw_spread w) (rw_spread w') (ps_id q).
Proof.
  unfold collect_spread_rewards. intros. obind H. inversion H; subst. eapply prepare_claimable_spread_other. exact E.
Qed.

Lemma update_position_rewards_other : forall w cur pl now lo hi id liq delta w',
  update_position_rewards w cur pl now lo hi id liq delta = Some w' -> same_other (rw_spread w) (rw_spread w') id.
Proof.
  unfold update_position_rewards. intros w cur pl now lo hi id liq delta w' H.
  destruct (ensure_tick w cur pl now lo) as [w1|] eqn:E1; [|discriminate H]. simpl in H.
  destruct (ensure_tick w1 cur pl now hi) as [w2|] eqn:E2; [|discriminate H]. simpl in H.
  destruct (init_or_update_uptime w2 cur pl now lo hi id liq delta) as [w3|] eqn:E3; [|discriminate H]. simpl in H.
  pose proof (init_or_update_spread_other _ _ _ _ _ _ _ H) as S.
  rewrite (init_or_update_uptime_spread _ _ _ _ _ _ _ _ _ _ E3), (ensure_tick_spread _ _ _ _ _ _ E2), (ensure_tick_spread _ _ _ _ _ _ E1) in S. exact S.
Qed.

Lemma r_create_other : forall rs owner a0 a1 m0 m1 lo hi rs' c, r_create rs owner a0 a1 m0 m1 lo hi = Some (rs', c) ->
  same_other (rw_spread (r_rw rs)) (rw_spread (r_rw rs')) (cr_id c).
Proof.
  unfold r_create. intros rs owner a0 a1 m0 m1 lo hi rs' c H.
  destruct (create_position (r_base rs) owner a0 a1 m0 m1 lo hi) as [[s' c']|]; [|discriminate H]. simpl in H.
  match type of H with (do w <- ?X; _) = _ => destruct X as [w|] eqn:E; [|discriminate H] end. inversion H; subst. simpl.
  eapply update_position_rewards_other. exact E.
Qed.

Lemma r_withdraw_other : forall rs owner id liq rs' amts, r_withdraw rs owner id liq = Some (rs', amts) ->
  same_other (rw_spread (r_rw rs)) (rw_spread (r_rw rs')) id.
Proof.
  unfold r_withdraw. intros rs owner id liq rs' amts H.
  destruct (withdraw_position (r_base rs) owner id liq) as [[s amts']|] eqn:EB; [|discriminate H]. simpl in H.
  destruct (pos_get (s_pos (r_base rs)) id) as [q|] eqn:Q; [|discriminate H]. simpl in H.
  assert (QI : ps_id q = id) by (eapply pos_get_id; exact Q).
  set (cur := p_tick (s_pool (r_base rs))) in *.
  destruct (collect_incentives (s_bank s) (r_rw rs) cur (p_liq (s_pool (r_base rs))) (s_time (r_base rs)) q)
    as [[[[[b1 w1] col] forf] byup]|] eqn:E1; [|discriminate H]. simpl in H.
  destruct (update_position_rewards w1 cur (p_liq (s_pool (r_base rs))) (s_time (r_base rs)) (ps_lower q) (ps_upper q) id (ps_liq q - liq) (- liq))
    as [w2|] eqn:E2; [|discriminate H]. simpl in H.
  match type of H with (do bw <- ?X; _) = _ => destruct X as [[b2 w3]|] eqn:E3; [|discriminate H] end. simpl in H.
  match type of H with (do bw2 <- ?X; _) = _ => destruct X as [[b3 w4]|] eqn:E4; [|discriminate H] end. simpl in H.
  inversion H; subst rs' amts. simpl.
  assert (S3 : rw_spread w3 = rw_spread w2).
  { destruct (p_liq (s_pool s) <? P18); obind E3; inversion E3; subst; [reflexivity|]. eapply redeposit_forfeited_spread. eassumption. }
  assert (S4 : same_other (rw_spread w3) (rw_spread w4) id).
  { destruct (liq =? ps_liq q); [|inversion E4; subst; apply same_other_refl].
    destruct (collect_spread_rewards b2 w3 (p_scaling (s_pool (r_base rs))) cur q) as [[[b4 w5] c5]|] eqn:E5; [|discriminate E4].
    inversion E4; subst. eapply collect_spread_rewards_other. exact E5. }
  rewrite S3 in S4. pose proof (update_position_rewards_other _ _ _ _ _ _ _ _ _ _ E2) as S2.
  rewrite (collect_incentives_spread _ _ _ _ _ _ _ _ _ _ _ E1) in S2.
  eapply same_other_trans; eassumption.
Qed.

(* ---------- what claiming / updating does to a record that claims nothing ---------- *)
Lemma dc_eta : forall x : dc, x = (dsel false x, dsel true x). Proof. intros [a b]. reflexivity. Qed.
Lemma dc_ext : forall x y : dc, (forall d, dsel d x = dsel d y) -> x = y.
Proof. intros x y H. rewrite (dc_eta x), (dc_eta y), (H false), (H true). reflexivity. Qed.
Lemma d_mul_zero : forall s, d_mul 0 s = 0. Proof. intro s. reflexivity. Qed.

Lemma prepare_claimable_spread_rec : forall w sc cur l u id w' c r,
  prepare_claimable_spread w sc cur l u id = Some (w', c) -> acc_get (rw_spread w) id = Some r -> ar_shares r <> 0 ->
  exists ins, acc_get (rw_spread w') id = Some (mkARec (ar_shares r) ins dc0) /\
              (forall d, dsel d ins = a_inside (view (CS d) w cur dc0) l u) /\ rw_tt w' = rw_tt w.
Proof.
  unfold prepare_claimable_spread. intros w sc cur l u id w' c r H R NZ.
  destruct (negb (acc_has (rw_spread w) id)); [discriminate H|].
  destruct (spread_growth_outside w cur l u) as [out|] eqn:EO; [|discriminate H]. simpl in H.
  destruct (update_accum_and_claim (rw_spread w) id out) as [[[a1 cs] dust]|] eqn:EU; [|discriminate H]. simpl in H.
  destruct (update_accum_and_claim_rec _ _ _ _ _ _ _ EU R NZ) as [ins [EI RA]].
  match type of H with (do cd <- ?X; _) = _ => destruct X as [[claimed dust']|]; [|discriminate H] end. simpl in H.
  match type of H with (do a2 <- ?X; _) = _ => destruct X as [a2|] eqn:EA; [|discriminate H] end. inversion H; subst. simpl.
  exists ins. split; [|split; [|reflexivity]].
  - unfold acc_get in *. destruct (negb (dc_is_zero dust') && negb (ac_total a1 =? 0)); [|inversion EA; subst; exact RA].
    destruct (dc_quo_dec_truncate dust' (ac_total a1)); [|discriminate EA]. simpl in EA.
    destruct (acc_add_to_recs _ _ _ EA) as [RR _]. rewrite RR. exact RA.
  - intro d. eapply spread_growth_inside_view; eassumption.
Qed.

Lemma init_or_update_spread_rec : forall w cur l u id delta w' r,
  init_or_update_spread w cur l u id delta = Some w' -> acc_get (rw_spread w) id = Some r -> ar_unclaimed r = dc0 ->
  (forall d, dsel d (ar_snap r) = a_inside (view (CS d) w cur dc0) l u) ->
  exists ins, acc_get (rw_spread w') id = Some (mkARec (ar_shares r + delta) ins dc0) /\
              (forall d, dsel d ins = a_inside (view (CS d) w cur dc0) l u) /\
              rw_tt w' = rw_tt w /\ ac_value (rw_spread w') = ac_value (rw_spread w).
Proof.
  unfold init_or_update_spread. intros w cur l u id delta w' r H R U S.
  destruct (spread_growth_outside w cur l u) as [out|] eqn:EO; [|discriminate H]. simpl in H.
  destruct (dc_safe_sub (ac_value (rw_spread w)) out) as [ins|] eqn:EI; [|discriminate H]. simpl in H.
  assert (HI : forall d, dsel d ins = a_inside (view (CS d) w cur dc0) l u) by (intro d; eapply spread_growth_inside_view; eassumption).
  unfold acc_has in H. rewrite R in H. simpl in H.
  unfold to_init_plus_outside in H. rewrite R in H. simpl in H.
  destruct (dc_add (ar_snap r) out) as [s1|] eqn:ES; [|discriminate H]. simpl in H.
  unfold acc_set_position in H. rewrite R in H. simpl in H.
  (* value - (snap + out) = 0 in both denominations *)
  assert (Z0 : forall d, dsel d (ac_value (rw_spread w)) - dsel d s1 = 0).
  { intro d. rewrite (dsel_add d _ _ _ ES), (S d), <- (HI d), (dsel_safe_sub d _ _ _ EI). lia. }
  assert (TR : forall a1 r1, ac_value a1 = ac_value (rw_spread w) -> ar_snap r1 = s1 -> ar_unclaimed r1 = dc0 ->
               forall t, acc_total_rewards a1 r1 = Some t -> t = dc0).
  { intros a1 r1 V1 S1 U1 t HT. unfold acc_total_rewards in HT. rewrite V1, S1, U1 in HT.
    destruct (dc_sub (ac_value (rw_spread w)) s1) as [diff|] eqn:ED; [|discriminate HT]. simpl in HT.
    destruct (dc_mul_dec diff (ar_shares r1)) as [acr|] eqn:EM; [|discriminate HT]. simpl in HT.
    apply dc_ext. intro d. rewrite (dsel_add d _ _ _ HT), (Claim.dsel_mul_dec d _ _ _ EM).
    destruct (dsel_sub d _ _ _ ED) as [D1 _]. rewrite D1, (Z0 d), d_mul_zero, !dsel_dc0. reflexivity. }
  unfold acc_update_position in H. destruct (delta =? 0); [discriminate H|].
  set (a1 := acc_with_recs (rw_spread w) (rec_set (ac_recs (rw_spread w)) id (mkARec (ar_shares r) s1 (ar_unclaimed r)))) in *.
  assert (G1 : acc_get a1 id = Some (mkARec (ar_shares r) s1 (ar_unclaimed r))).
  { unfold acc_get, a1. simpl. rewrite rec_get_set, Z.eqb_refl. reflexivity. }
  destruct (delta <? 0).
  - unfold acc_remove_from_position in H. rewrite G1 in H. simpl in H.
    destruct (negb (0 <? - delta)); [discriminate H|]. destruct (ar_shares r <? - delta); [discriminate H|].
    destruct (acc_total_rewards a1 _) as [un|] eqn:ET; [|discriminate H]. simpl in H.
    pose proof (TR a1 (mkARec (ar_shares r) s1 (ar_unclaimed r)) eq_refl eq_refl U un ET) as UN. subst un.
    destruct (dchk (ar_shares r - - delta)) as [sh|] eqn:ESh; [|discriminate H]. simpl in H.
    match type of H with context [dchk (?x - - delta)] => destruct (dchk (x - - delta)) as [tot|]; [|discriminate H] end. inversion H; subst. simpl.
    apply dchk_some in ESh. subst sh. exists ins. split; [|auto].
    unfold acc_get. simpl. rewrite rec_get_set, Z.eqb_refl. f_equal. f_equal. lia.
  - unfold acc_add_to_position in H. rewrite G1 in H. simpl in H.
    destruct (negb (0 <? delta)); [discriminate H|].
    destruct (acc_total_rewards a1 _) as [un|] eqn:ET; [|discriminate H]. simpl in H.
    pose proof (TR a1 (mkARec (ar_shares r) s1 (ar_unclaimed r)) eq_refl eq_refl U un ET) as UN. subst un.
    destruct (dchk (ar_shares r + delta)) as [sh|] eqn:ESh; [|discriminate H]. simpl in H.
    match type of H with context [dchk (ac_total ?x + delta)] => destruct (dchk (ac_total x + delta)) as [tot|]; [|discriminate H] end. inversion H; subst. simpl.
    apply dchk_some in ESh. subst sh. exists ins. split; [|auto].
    unfold acc_get. simpl. rewrite rec_get_set, Z.eqb_refl. reflexivity.
Qed.

(* ---------- the record predicate on the reward state ---------- *)
Definition zrec (w : rwd) (cur id l u L : Z) : Prop :=
  exists r, acc_get (rw_spread w) id = Some r /\ ar_shares r = L /\ ar_unclaimed r = dc0 /\
            forall d, dsel d (ar_snap r) = a_inside (view (CS d) w cur dc0) l u.
Definition tks (w : rwd) (l u : Z) : Prop :=
  tm_sorted (vmap (CS false) (rw_tt w)) /\ tt_get (rw_tt w) l <> None /\ tt_get (rw_tt w) u <> None.

Lemma vmap_sorted_any : forall k k' m, tm_sorted (vmap k m) -> tm_sorted (vmap k' m).
Proof.
  intros k k' m. induction m as [|[a t] m IH]; simpl; intro H; [constructor|]. inversion H; subst. constructor; [|apply IH; assumption].
  clear - H2. induction m as [|[b t'] m IHm]; simpl in *; constructor; inversion H2; subst; auto.
Qed.

(* growth inside a range that does not contain the current tick is untouched by any static evolution that keeps l, u *)
Lemma SE_inside_out : forall k cur T w w' l u, SE k cur T w w' -> l < u -> tks w l u -> ~ In l T -> ~ In u T ->
  in_rng l u cur = false ->
  a_inside (view k w' cur dc0) l u = a_inside (view k w cur dc0) l u /\ tks w' l u.
Proof.
  intros k cur T w w' l u [evs [A [B [C D]]]] Hlu [St [Kl Ku]] Tl Tu NR.
  assert (St' : tm_sorted (a_O (view k w cur dc0))) by (simpl; eapply vmap_sorted_any; exact St).
  assert (Kl' : keys (view k w cur dc0) l) by (apply keys_view; exact Kl).
  assert (Ku' : keys (view k w cur dc0) u) by (apply keys_view; exact Ku).
  split.
  - rewrite A, (static_inside evs _ l u Hlu St' Kl' Ku' B C (D l Tl) (D u Tu)). simpl. unfold in_rng in NR. rewrite NR. lia.
  - split; [|split].
    + apply (vmap_sorted_any k). change (vmap k (rw_tt w')) with (a_O (view k w' cur dc0)). rewrite A. apply a_run_sorted. exact St'.
    + apply (keys_view k w' cur l). rewrite A. apply a_run_keys; [exact St'|exact Kl'|apply D; exact Tl].
    + apply (keys_view k w' cur u). rewrite A. apply a_run_keys; [exact St'|exact Ku'|apply D; exact Tu].
Qed.

(* a stage that is a static evolution of the spread components, keeps l and u, and leaves the record of id alone *)
Lemma zrec_SE : forall cur T w w' id l u L, (forall d, SE (CS d) cur T w w') -> l < u -> tks w l u -> ~ In l T -> ~ In u T ->
  in_rng l u cur = false -> acc_get (rw_spread w') id = acc_get (rw_spread w) id ->
  zrec w cur id l u L -> zrec w' cur id l u L /\ tks w' l u.
Proof.
  intros cur T w w' id l u L HSE Hlu TK Tl Tu NR RG [r [R [Sh [U S]]]]. split.
  - exists r. rewrite RG. repeat split; try assumption. intro d. rewrite (S d).
    symmetry. apply (SE_inside_out (CS d) cur T w w' l u (HSE d) Hlu TK Tl Tu NR).
  - apply (SE_inside_out (CS false) cur T w w' l u (HSE false) Hlu TK Tl Tu NR).
Qed.

Lemma fresh_not_in : forall w i j, tt_get (rw_tt w) j <> None -> ~ In j (fresh w i).
Proof. intros w i j K. unfold fresh. destruct (tt_get (rw_tt w) i) eqn:E; simpl; [tauto|]. intros [X|X]; [subst; congruence|exact X]. Qed.

(* claiming on the position itself *)
Lemma zrec_claim_self : forall w sc cur id l u L w' c, prepare_claimable_spread w sc cur l u id = Some (w', c) ->
  l < u -> tks w l u -> in_rng l u cur = false -> L <> 0 -> zrec w cur id l u L -> zrec w' cur id l u L /\ tks w' l u.
Proof.
  intros w sc cur id l u L w' c H Hlu TK NR NZ [r [R [Sh [U S]]]].
  assert (NZ' : ar_shares r <> 0) by (rewrite Sh; exact NZ).
  destruct (prepare_claimable_spread_rec _ _ _ _ _ _ _ _ _ H R NZ') as [ins [RA [HI TT]]].
  assert (IO : forall d, a_inside (view (CS d) w' cur dc0) l u = a_inside (view (CS d) w cur dc0) l u /\ tks w' l u).
  { intro d. apply (SE_inside_out (CS d) cur [] w w' l u (SE_same_tt (CS d) cur _ _ TT) Hlu TK); simpl; tauto. }
  split; [|apply (IO false)]. exists (mkARec (ar_shares r) ins dc0). simpl. repeat split; try assumption.
  intro d. rewrite (HI d). symmetry. apply (IO d).
Qed.
Lemma zrec_claim_other : forall w sc cur id id' l u lo hi L w' c, prepare_claimable_spread w sc cur lo hi id' = Some (w', c) ->
  id' <> id -> l < u -> tks w l u -> in_rng l u cur = false -> zrec w cur id l u L -> zrec w' cur id l u L /\ tks w' l u.
Proof.
  intros w sc cur id id' l u lo hi L w' c H N Hlu TK NR Z.
  apply (zrec_SE cur [] w w' id l u L); try assumption; simpl; try tauto.
  - intro d. apply SE_same_tt. eapply prepare_claimable_spread_tt. exact H.
  - apply (prepare_claimable_spread_other _ _ _ _ _ _ _ _ H id). congruence.
Qed.

(* UpdatePosition on the position itself / on another position *)
Lemma SE_ensure_tick_CS : forall w cur liq now i w' l u, ensure_tick w cur liq now i = Some w' -> tks w l u ->
  forall d, SE (CS d) cur (fresh w i) w w'.
Proof. intros. eapply SE_ensure_tick. eassumption. Qed.

Lemma zrec_update_position : forall w cur pl now lo hi id' liq delta w' id l u L,
  update_position_rewards w cur pl now lo hi id' liq delta = Some w' ->
  l < u -> tks w l u -> in_rng l u cur = false -> zrec w cur id l u L ->
  (id' <> id \/ (lo = l /\ hi = u)) ->
  zrec w' cur id l u (if id' =? id then L + delta else L) /\ tks w' l u.
Proof.
  unfold update_position_rewards. intros w cur pl now lo hi id' liq delta w' id l u L H Hlu TK NR Z Hid.
  destruct (ensure_tick w cur pl now lo) as [w1|] eqn:E1; [|discriminate H]. simpl in H.
  destruct (ensure_tick w1 cur pl now hi) as [w2|] eqn:E2; [|discriminate H]. simpl in H.
  destruct (init_or_update_uptime w2 cur pl now lo hi id' liq delta) as [w3|] eqn:E3; [|discriminate H]. simpl in H.
  destruct TK as [St [Kl Ku]].
  (* stage 1, 2: ticks *)
  destruct (zrec_SE cur (fresh w lo) w w1 id l u L (fun d => SE_ensure_tick (CS d) _ _ _ _ _ _ E1) Hlu (conj St (conj Kl Ku))
              (fresh_not_in _ _ _ Kl) (fresh_not_in _ _ _ Ku) NR ltac:(rewrite (ensure_tick_spread _ _ _ _ _ _ E1); reflexivity) Z) as [Z1 TK1].
  destruct TK1 as [St1 [Kl1 Ku1]].
  destruct (zrec_SE cur (fresh w1 hi) w1 w2 id l u L (fun d => SE_ensure_tick (CS d) _ _ _ _ _ _ E2) Hlu (conj St1 (conj Kl1 Ku1))
              (fresh_not_in _ _ _ Kl1) (fresh_not_in _ _ _ Ku1) NR ltac:(rewrite (ensure_tick_spread _ _ _ _ _ _ E2); reflexivity) Z1) as [Z2 TK2].
  (* stage 3: uptime accumulators *)
  destruct (zrec_SE cur [] w2 w3 id l u L (fun d => SE_same_tt (CS d) cur _ _ (init_or_update_uptime_tt _ _ _ _ _ _ _ _ _ _ E3)) Hlu TK2
              ltac:(simpl; tauto) ltac:(simpl; tauto) NR ltac:(rewrite (init_or_update_uptime_spread _ _ _ _ _ _ _ _ _ _ E3); reflexivity) Z2) as [Z3 TK3].
  (* stage 4: the spread record *)
  destruct (Z.eqb_spec id' id) as [EQ|NE].
  - subst id'. destruct Hid as [X|[Hl Hh]]; [congruence|]. subst lo hi.
    destruct Z3 as [r [R [Sh [U S]]]].
    destruct (init_or_update_spread_rec _ _ _ _ _ _ _ _ H R U S) as [ins [RA [HI [TT VV]]]].
    assert (VS : forall d, view (CS d) w' cur dc0 = view (CS d) w3 cur dc0).
    { intro d. apply view_same; [exact TT|]. simpl. rewrite VV. reflexivity. }
    split.
    + exists (mkARec (ar_shares r + delta) ins dc0). simpl. repeat split; try assumption; [lia|].
      intro d. rewrite (VS d). apply HI.
    + destruct TK3 as [A [B C]]. unfold tks. rewrite TT. auto.
  - apply (zrec_SE cur [] w3 w' id l u L); try assumption; simpl; try tauto.
    + intro d. apply SE_same_tt. eapply init_or_update_spread_tt. exact H.
    + apply (init_or_update_spread_other _ _ _ _ _ _ _ H id). congruence.
Qed.

Lemma collect_spread_rewards_inv : forall b w sc cur q b' w' c, collect_spread_rewards b w sc cur q = Some (b', w', c) ->
  prepare_claimable_spread w sc cur (ps_lower q) (ps_upper q) (ps_id q) = Some (w', c).
Proof.
  unfold collect_spread_rewards. intros b w sc cur q b' w' c H.
  destruct (prepare_claimable_spread w sc cur (ps_lower q) (ps_upper q) (ps_id q)) as [[w1 c1]|]; [|discriminate H]. simpl in H.
  match type of H with (do b1 <- ?X; _) = _ => destruct X; [|discriminate H] end. inversion H; subst. reflexivity.
Qed.

(* ---------- the handlers ---------- *)
Lemma zrec_create : forall rs owner a0 a1 m0 m1 lo hi rs' c id l u L,
  r_create rs owner a0 a1 m0 m1 lo hi = Some (rs', c) -> cr_id c <> id ->
  l < u -> tks (r_rw rs) l u -> in_rng l u (cur_tick rs') = false -> zrec (r_rw rs) (cur_tick rs') id l u L ->
  zrec (r_rw rs') (cur_tick rs') id l u L /\ tks (r_rw rs') l u.
Proof.
  unfold r_create. intros rs owner a0 a1 m0 m1 lo hi rs' c id l u L H N Hlu TK NR Z.
  destruct (create_position (r_base rs) owner a0 a1 m0 m1 lo hi) as [[s' c']|]; [|discriminate H]. simpl in H.
  match type of H with (do w <- ?X; _) = _ => destruct X as [w|] eqn:E; [|discriminate H] end. inversion H; subst. clear H.
  unfold cur_tick in *. simpl in *.
  destruct (zrec_update_position _ _ _ _ _ _ _ _ _ _ id l u L E Hlu TK NR Z (or_introl N)) as [Z' TK'].
  apply Z.eqb_neq in N. rewrite N in Z'. auto.
Qed.

Lemma zrec_withdraw : forall rs owner id' liq rs' amts q id l u L,
  r_withdraw rs owner id' liq = Some (rs', amts) -> pos_get (s_pos (r_base rs)) id' = Some q ->
  (id' <> id \/ (ps_lower q = l /\ ps_upper q = u /\ liq <> ps_liq q)) ->
  ~ In l (removed (r_base rs') (ps_lower q) ++ removed (r_base rs') (ps_upper q)) ->
  ~ In u (removed (r_base rs') (ps_lower q) ++ removed (r_base rs') (ps_upper q)) ->
  l < u -> tks (r_rw rs) l u -> in_rng l u (cur_tick rs) = false -> zrec (r_rw rs) (cur_tick rs) id l u L ->
  zrec (r_rw rs') (cur_tick rs) id l u (if id' =? id then L - liq else L) /\ tks (r_rw rs') l u.
Proof.
  unfold r_withdraw. intros rs owner id' liq rs' amts q id l u L H Q Hid Rl Ru Hlu TK NR Z. rewrite Q in H.
  destruct (withdraw_position (r_base rs) owner id' liq) as [[s amts']|]; [|discriminate H]. simpl in H.
  assert (QI : ps_id q = id') by (eapply pos_get_id; exact Q).
  unfold cur_tick in *. set (cur := p_tick (s_pool (r_base rs))) in *.
  destruct (collect_incentives (s_bank s) (r_rw rs) cur (p_liq (s_pool (r_base rs))) (s_time (r_base rs)) q)
    as [[[[[b1 w1] col] forf] byup]|] eqn:E1; [|discriminate H]. simpl in H.
  destruct (update_position_rewards w1 cur (p_liq (s_pool (r_base rs))) (s_time (r_base rs)) (ps_lower q) (ps_upper q) id' (ps_liq q - liq) (- liq))
    as [w2|] eqn:E2; [|discriminate H]. simpl in H.
  match type of H with (do bw <- ?X; _) = _ => destruct X as [[b2 w3]|] eqn:E3; [|discriminate H] end. simpl in H.
  match type of H with (do bw2 <- ?X; _) = _ => destruct X as [[b3 w4]|] eqn:E4; [|discriminate H] end. simpl in H.
  inversion H; subst rs' amts. clear H. simpl in *.
  (* 1: incentives *)
  destruct (zrec_SE cur [] (r_rw rs) w1 id l u L (fun d => SE_same_tt (CS d) cur _ _ (collect_incentives_tt _ _ _ _ _ _ _ _ _ _ _ E1)) Hlu TK
              ltac:(simpl; tauto) ltac:(simpl; tauto) NR ltac:(rewrite (collect_incentives_spread _ _ _ _ _ _ _ _ _ _ _ E1); reflexivity) Z) as [Z1 TK1].
  (* 2: UpdatePosition *)
  assert (Hid2 : id' <> id \/ (ps_lower q = l /\ ps_upper q = u)) by (destruct Hid as [X|[X [Y _]]]; auto).
  destruct (zrec_update_position _ _ _ _ _ _ _ _ _ _ id l u L E2 Hlu TK1 NR Z1 Hid2) as [Z2 TK2].
  replace (L + - liq) with (L - liq) in Z2 by lia.
  set (L2 := if id' =? id then L - liq else L) in *.
  (* 3: redeposit *)
  assert (T3 : rw_tt w3 = rw_tt w2 /\ rw_spread w3 = rw_spread w2).
  { destruct (p_liq (s_pool s) <? P18); obind E3; inversion E3; subst; [auto|].
    split; [eapply redeposit_forfeited_tt|eapply redeposit_forfeited_spread]; eassumption. }
  destruct T3 as [T3 S3].
  destruct (zrec_SE cur [] w2 w3 id l u L2 (fun d => SE_same_tt (CS d) cur _ _ T3) Hlu TK2
              ltac:(simpl; tauto) ltac:(simpl; tauto) NR ltac:(rewrite S3; reflexivity) Z2) as [Z3 TK3].
  (* 4: spread rewards of a full withdrawal (never of the position itself) *)
  assert (Z4 : zrec w4 cur id l u L2 /\ tks w4 l u).
  { destruct (liq =? ps_liq q) eqn:EF; [|inversion E4; subst; auto].
    apply Z.eqb_eq in EF. destruct Hid as [N|[_ [_ X]]]; [|contradiction].
    destruct (collect_spread_rewards b2 w3 (p_scaling (s_pool (r_base rs))) cur q) as [[[b5 w5] c5]|] eqn:E5; [|discriminate E4].
    inversion E4; subst b3 w4. apply collect_spread_rewards_inv in E5.
    eapply zrec_claim_other; try eassumption. rewrite QI. exact N. }
  destruct Z4 as [Z4 TK4].
  (* 5: removal of ticks other than l, u *)
  set (t1 := match tick_get (s_ticks s) (ps_lower q) with None => tt_remove (rw_tt w4) (ps_lower q) | Some _ => rw_tt w4 end) in *.
  assert (S5 : forall d, SE (CS d) cur (removed s (ps_lower q) ++ removed s (ps_upper q)) w4
                  (set_tt w4 (match tick_get (s_ticks s) (ps_upper q) with None => tt_remove t1 (ps_upper q) | Some _ => t1 end))).
  { intro d. unfold removed, t1. destruct (tick_get (s_ticks s) (ps_lower q)); destruct (tick_get (s_ticks s) (ps_upper q)); simpl.
    - replace (set_tt w4 (rw_tt w4)) with w4 by (destruct w4; reflexivity). apply SE_refl.
    - apply SE_remove.
    - apply SE_remove.
    - pose proof (SE_trans (CS d) cur _ _ _ _ _ (SE_remove (CS d) cur w4 (ps_lower q)) (SE_remove (CS d) cur (set_tt w4 (tt_remove (rw_tt w4) (ps_lower q))) (ps_upper q))) as X.
      simpl in X. exact X. }
  apply (zrec_SE cur _ w4 _ id l u L2 S5 Hlu TK4 Rl Ru NR); [reflexivity|exact Z4].
Qed.

Lemma zrec_collect_spread_loop : forall ids rs owner tot rs' c id l u L,
  r_collect_spread_loop rs owner ids tot = Some (rs', c) ->
  (forall q, pos_get (s_pos (r_base rs)) id = Some q -> ps_lower q = l /\ ps_upper q = u) ->
  l < u -> tks (r_rw rs) l u -> in_rng l u (cur_tick rs) = false -> L <> 0 -> zrec (r_rw rs) (cur_tick rs) id l u L ->
  zrec (r_rw rs') (cur_tick rs) id l u L /\ tks (r_rw rs') l u.
Proof.
  induction ids as [|id' rest IH]; intros rs owner tot rs' c id l u L H PQ Hlu TK NR NZ Z; simpl in H.
  - inversion H; subst. auto.
  - destruct (pos_get (s_pos (r_base rs)) id') as [q|] eqn:Q; [|discriminate H].
    destruct (negb (ps_owner q =? owner)); [discriminate H|].
    destruct (collect_spread_rewards (s_bank (r_base rs)) (r_rw rs) (p_scaling (s_pool (r_base rs))) (p_tick (s_pool (r_base rs))) q)
      as [[[b w] x]|] eqn:E; [|discriminate H].
    assert (QI : ps_id q = id') by (eapply pos_get_id; exact Q).
    assert (Z1 : zrec w (cur_tick rs) id l u L /\ tks w l u).
    { apply collect_spread_rewards_inv in E.
      destruct (Z.eq_dec id' id) as [EQ|NE].
      - destruct (PQ q ltac:(rewrite <- EQ; exact Q)) as [Pl Pu]. rewrite Pl, Pu, QI, EQ in E. eapply zrec_claim_self; eassumption.
      - eapply zrec_claim_other; try eassumption. rewrite QI. exact NE. }
    destruct Z1 as [Z1 TK1].
    specialize (IH (mkRS (set_bank (r_base rs) b) w) owner _ rs' c id l u L H). unfold cur_tick in *. simpl in IH. apply IH; assumption.
Qed.

(* ---------- swaps leave positions and accumulator records alone ---------- *)
Lemma update_pool_for_swap_pos : forall s sender zfo r s', update_pool_for_swap s sender zfo r = Some s' -> s_pos s' = s_pos s.
Proof.
  unfold update_pool_for_swap. intros s sender zfo r s' H.
  destruct (sr_in r - d_truncate_int (d_ceil (sr_fee r)) <=? 0); [discriminate H|].
  destruct (user_bal (s_bank s) sender); [|discriminate H]. simpl in H.
  destruct (pick zfo (sr_in r - d_truncate_int (d_ceil (sr_fee r)))) as [i0 i1].
  destruct (send_user_to_pool (s_bank s) sender i0 i1) as [b1|]; [|discriminate H]. simpl in H.
  match type of H with (do b2 <- ?X; _) = _ => destruct X as [b2|]; [|discriminate H] end. simpl in H.
  destruct (sr_out r <=? 0); [discriminate H|].
  destruct (pick (negb zfo) (sr_out r)) as [o0 o1].
  destruct (send_pool_to_user b2 sender o0 o1) as [b3|]; [|discriminate H]. simpl in H.
  match type of H with (if ?b then None else _) = _ => destruct b; [discriminate H|] end.
  inversion H; subst. reflexivity.
Qed.
Lemma swap_exact_in_pos : forall s sender zfo amt mo s' out, swap_exact_in s sender zfo amt mo = Some (s', out) -> s_pos s' = s_pos s.
Proof.
  unfold swap_exact_in. intros s sender zfo amt mo s' out H.
  destruct (negb (0 <? amt) || negb (0 <? mo)); [discriminate H|].
  destruct (compute_out_amt_given_in s zfo true amt) as [r|]; [|discriminate H]. simpl in H.
  destruct (negb (0 <? sr_out r)); [discriminate H|].
  destruct (update_pool_for_swap s sender zfo r) as [s0|] eqn:EU; [|discriminate H]. simpl in H.
  destruct (sr_out r <? mo); [discriminate H|]. inversion H; subst. eapply update_pool_for_swap_pos. exact EU.
Qed.
Lemma swap_exact_out_pos : forall s sender zfo amt mi s' tin, swap_exact_out s sender zfo amt mi = Some (s', tin) -> s_pos s' = s_pos s.
Proof.
  unfold swap_exact_out. intros s sender zfo amt mi s' tin H.
  destruct (negb (0 <? amt) || negb (0 <? mi)); [discriminate H|].
  destruct (compute_in_amt_given_out s zfo true amt) as [r|]; [|discriminate H]. simpl in H.
  destruct (negb (0 <? sr_in r)); [discriminate H|].
  destruct (update_pool_for_swap s sender zfo r) as [s0|] eqn:EU; [|discriminate H]. simpl in H.
  destruct (mi <? sr_in r); [discriminate H|]. inversion H; subst. eapply update_pool_for_swap_pos. exact EU.
Qed.

Lemma apply_events_spread : forall evs w din pl now pending w' p', apply_events w din pl now pending evs = Some (w', p') ->
  rw_spread w' = rw_spread w.
Proof.
  induction evs as [|e r IH]; intros w din pl now pending w' p' H; simpl in H; [inversion H; reflexivity|].
  destruct e as [g|i|t].
  - destruct (dchk (pending + g)); [|discriminate H]. eapply IH. exact H.
  - destruct (update_uptime w pl now) as [w1|] eqn:E1; [|discriminate H].
    destruct (cross_trackers w1 din pending i) as [w2|] eqn:E2; [|discriminate H].
    rewrite (IH _ _ _ _ _ _ _ H). destruct (cross_trackers_other _ _ _ _ _ E2) as [A _]. rewrite A.
    apply (update_uptime_tt _ _ _ _ E1).
  - eapply IH. exact H.
Qed.
Lemma swap_rewards_recs : forall w s ei zfo amt now w', swap_rewards w s ei zfo amt now = Some w' ->
  ac_recs (rw_spread w') = ac_recs (rw_spread w).
Proof.
  unfold swap_rewards. intros w s ei zfo amt now w' H.
  destruct (swap_events s ei zfo amt) as [evs|]; [|discriminate H]. simpl in H.
  destruct (apply_events w (if zfo then 0 else 1) (p_liq (s_pool s)) now 0 evs) as [[w1 pending]|] eqn:EA; [|discriminate H]. simpl in H.
  destruct (acc_add_to (rw_spread w1) _) as [a|] eqn:EF; [|discriminate H]. inversion H; subst. simpl.
  destruct (acc_add_to_recs _ _ _ EF) as [R _]. rewrite R, (apply_events_spread _ _ _ _ _ _ _ _ EA). reflexivity.
Qed.

(* ---------- one operation ---------- *)
Definition op_never (rs : rstate) (o : rop) (id l u : Z) : Prop :=
  Inv (r_base rs) /\
  match rstep rs o with
  | (rs', Some _) =>
      (exists L', live rs' id l u L') /\
      (forall d, op_ok (CS d) rs o l u) /\
      (if is_swap o then forall d, in_range_growth (rview (CS d) rs) (op_trace (CS d) rs o) l u = 0
       else in_rng l u (cur_tick rs) = false)
  | (_, None) => True
  end.

Lemma live_id_lt : forall rs id l u L, Inv (r_base rs) -> live rs id l u L -> 0 < id < s_next_id (r_base rs) /\ 0 < L.
Proof.
  intros rs id l u L I [q [Q [_ [_ QL]]]]. pose proof (pos_get_in _ _ _ Q) as HIn. pose proof (pos_get_id _ _ _ Q) as HId.
  pose proof (inv_pos_ok _ I) as F. rewrite Forall_forall in F. destruct (F q HIn) as [A [B _]]. subst. lia.
Qed.

Lemma zero_rec_zrec : forall rs id l u, zero_rec rs id l u ->
  exists L, live rs id l u L /\ 0 < L /\ zrec (r_rw rs) (cur_tick rs) id l u L.
Proof.
  intros rs id l u [L [r [Lv [LP [R [Sh [U S]]]]]]]. exists L. split; [exact Lv|]. split; [exact LP|]. exists r.
  split; [exact R|]. split; [exact Sh|]. split; [exact U|exact S].
Qed.
Lemma zrec_zero_rec : forall rs id l u L, live rs id l u L -> 0 < L -> zrec (r_rw rs) (cur_tick rs) id l u L -> zero_rec rs id l u.
Proof.
  intros rs id l u L Lv LP [r [R [Sh [U S]]]]. exists L, r.
  split; [exact Lv|]. split; [exact LP|]. split; [exact R|]. split; [exact Sh|]. split; [exact U|exact S].
Qed.

Lemma r_collect_spread_loop_base : forall ids rs owner tot rs' c, r_collect_spread_loop rs owner ids tot = Some (rs', c) ->
  s_pos (r_base rs') = s_pos (r_base rs) /\ s_pool (r_base rs') = s_pool (r_base rs).
Proof.
  induction ids as [|id' rest IH]; intros rs owner tot rs' c H; simpl in H; [inversion H; auto|].
  destruct (pos_get (s_pos (r_base rs)) id') as [q|]; [|discriminate H].
  destruct (negb (ps_owner q =? owner)); [discriminate H|].
  destruct (collect_spread_rewards _ _ _ _ q) as [[[b w] x]|]; [|discriminate H].
  destruct (IH _ _ _ _ _ H) as [A B]. simpl in *. auto.
Qed.
Lemma r_collect_inc_loop_base : forall ids rs owner col forf rs' c, r_collect_inc_loop rs owner ids col forf = Some (rs', c) ->
  s_pos (r_base rs') = s_pos (r_base rs) /\ s_pool (r_base rs') = s_pool (r_base rs) /\ rw_spread (r_rw rs') = rw_spread (r_rw rs).
Proof.
  induction ids as [|id' rest IH]; intros rs owner col forf rs' c H; simpl in H; [inversion H; auto|].
  destruct (pos_get (s_pos (r_base rs)) id') as [q|]; [|discriminate H].
  destruct (negb (ps_owner q =? owner)); [discriminate H|].
  destruct (collect_incentives _ _ _ _ _ q) as [[[[[b w] x] f] byup]|] eqn:E; [|discriminate H].
  destruct (IH _ _ _ _ _ _ H) as [A [B C]]. simpl in *. rewrite C. split; [exact A|]. split; [exact B|].
  eapply collect_incentives_spread. exact E.
Qed.

Lemma op_ok_static : forall k rs o rs' r l u, rhandler rs o = Some (rs', r) -> is_swap o = false -> op_ok k rs o l u ->
  cur_tick rs' = cur_tick rs /\ mid_tick_ok rs o /\ ~ In l (touched rs o) /\ ~ In u (touched rs o).
Proof. intros k rs o rs' r l u H S OK. unfold op_ok, rstep in OK. rewrite H, S in OK. exact OK. Qed.

Lemma zero_rec_step_static : forall rs o rs' r id l u, rhandler rs o = Some (rs', r) -> is_swap o = false ->
  l < u -> Inv (r_base rs) -> zero_rec rs id l u -> tks (r_rw rs) l u ->
  (exists L', live rs' id l u L') -> (forall d, op_ok (CS d) rs o l u) -> in_rng l u (cur_tick rs) = false ->
  zero_rec rs' id l u /\ tks (r_rw rs') l u.
Proof.
  intros rs o rs' r id l u H NS Hlu I ZR TK [L' LV'] OK NR.
  destruct (op_ok_static _ _ _ _ _ _ _ H NS (OK false)) as [CT [MT [Tl Tu]]].
  destruct (zero_rec_zrec _ _ _ _ ZR) as [L [LV [LP Z]]].
  destruct (live_id_lt _ _ _ _ _ I LV) as [IDB _].
  destruct LV as [q [Q [Ql [Qu QL]]]].
  assert (FIN : forall L2, live rs' id l u L2 -> 0 < L2 -> zrec (r_rw rs') (cur_tick rs) id l u L2 -> zero_rec rs' id l u).
  { intros L2 A B C. apply (zrec_zero_rec _ _ _ _ L2 A B). rewrite CT. exact C. }
  destruct o as [b|owner ids|owner ids|sender denom amount rate dt uu]; simpl in H.
  - destruct b as [owner a0 a1 m0 m1 lo hi|owner id' liq|owner id' a0 a1 m0 m1|sender ids recipient|sender zfo amt mo|sender zfo amt mi|dt];
      simpl in NS; try discriminate NS.
    + (* create *)
      destruct (r_create rs owner a0 a1 m0 m1 lo hi) as [[rs1 c]|] eqn:E; [|discriminate H]. inversion H; subst rs1 r. clear H.
      assert (EB : exists s', create_position (r_base rs) owner a0 a1 m0 m1 lo hi = Some (s', c) /\ r_base rs' = s').
      { unfold r_create in E. destruct (create_position _ _ _ _ _ _ _ _) as [[s' c']|]; [|discriminate E]. simpl in E.
        match type of E with (do w <- ?X; _) = _ => destruct X; [|discriminate E] end. inversion E; subst. eauto. }
      destruct EB as [s' [EB1 EB2]]. destruct (create_position_spec _ _ _ _ _ _ _ _ _ _ I EB1) as [I' [_ [CI [SP _]]]].
      assert (N : cr_id c <> id) by lia.
      rewrite <- CT in Z, NR. destruct (zrec_create _ _ _ _ _ _ _ _ _ _ id l u L E N Hlu TK NR Z) as [Z' TK'].
      split; [|exact TK']. rewrite CT in Z'. apply (FIN L); [|exact LP|exact Z'].
      exists q. rewrite EB2, SP, pos_get_set. simpl.
      destruct (id =? s_next_id (r_base rs)) eqn:EE; [apply Z.eqb_eq in EE; lia|]. auto.
    + (* withdraw *)
      destruct (r_withdraw rs owner id' liq) as [[rs1 [x0 x1]]|] eqn:E; [|discriminate H]. inversion H; subst rs1 r. clear H.
      assert (EB : exists s', withdraw_position (r_base rs) owner id' liq = Some (s', (x0, x1)) /\ s_pos (r_base rs') = s_pos s').
      { unfold r_withdraw in E. destruct (withdraw_position _ _ _ _) as [[s' a']|]; [|discriminate E]. simpl in E.
        destruct (pos_get _ id'); [|discriminate E]. simpl in E.
        destruct (collect_incentives _ _ _ _ _ _) as [[[[[? ?] ?] ?] ?]|]; [|discriminate E]. simpl in E.
        destruct (update_position_rewards _ _ _ _ _ _ _ _ _) as [?|]; [|discriminate E]. simpl in E.
        match type of E with (do bw <- ?X; _) = _ => destruct X as [[? ?]|]; [|discriminate E] end. simpl in E.
        match type of E with (do bw2 <- ?X; _) = _ => destruct X as [[? ?]|]; [|discriminate E] end. simpl in E.
        inversion E; subst. simpl. eauto. }
      destruct EB as [s' [EB1 EB2]].
      destruct (withdraw_position_spec _ _ _ _ _ _ _ I EB1) as [I' [_ [_ [_ [q' [Q' [_ [LQ SP]]]]]]]].
      simpl in Tl, Tu. unfold touched_withdraw in Tl, Tu. rewrite E, Q' in Tl, Tu.
      assert (Rl : ~ In l (removed (r_base rs') (ps_lower q') ++ removed (r_base rs') (ps_upper q'))) by (intro X; apply Tl; apply in_or_app; right; exact X).
      assert (Ru : ~ In u (removed (r_base rs') (ps_lower q') ++ removed (r_base rs') (ps_upper q'))) by (intro X; apply Tu; apply in_or_app; right; exact X).
      destruct LV' as [q2 [Q2 [Q2l [Q2u Q2L]]]]. rewrite EB2, SP in Q2.
      destruct (Z.eq_dec id' id) as [EQ|NE].
      * subst id'. rewrite Q in Q'. inversion Q'; subst q'.
        destruct (liq =? ps_liq q) eqn:EF.
        { rewrite pos_get_remove in Q2 by (apply inv_pos_sorted; exact I). rewrite Z.eqb_refl in Q2. discriminate Q2. }
        apply Z.eqb_neq in EF. rewrite pos_get_set in Q2. simpl in Q2. rewrite Z.eqb_refl in Q2. inversion Q2; subst q2. simpl in *.
        destruct (zrec_withdraw _ _ _ _ _ _ _ id l u L E Q (or_intror (conj Ql (conj Qu EF))) Rl Ru Hlu TK NR Z) as [Z' TK'].
        rewrite Z.eqb_refl in Z'. split; [|exact TK'].
        apply (FIN (L - liq)); [|lia|exact Z'].
        exists (mkPos id owner (ps_lower q) (ps_upper q) (ps_liq q - liq) (ps_join q)). rewrite EB2, SP, pos_get_set. simpl.
        rewrite Z.eqb_refl. repeat split; try assumption. lia.
      * destruct (zrec_withdraw _ _ _ _ _ _ _ id l u L E Q' (or_introl NE) Rl Ru Hlu TK NR Z) as [Z' TK'].
        apply Z.eqb_neq in NE. rewrite NE in Z'. split; [|exact TK']. apply (FIN L); [|exact LP|exact Z'].
        exists q. rewrite EB2, SP. apply Z.eqb_neq in NE.
        destruct (liq =? ps_liq q').
        { rewrite pos_get_remove by (apply inv_pos_sorted; exact I). destruct (id =? id') eqn:EE; [apply Z.eqb_eq in EE; congruence|]. auto. }
        { rewrite pos_get_set. simpl. destruct (id =? id') eqn:EE; [apply Z.eqb_eq in EE; congruence|]. auto. }
    + (* add *)
      destruct (r_add rs owner id' a0 a1 m0 m1) as [[rs1 [[nid y0] y1]]|] eqn:E; [|discriminate H]. inversion H; subst rs1 r. clear H.
      assert (Q'X : exists q', pos_get (s_pos (r_base rs)) id' = Some q').
      { unfold r_add in E. destruct (id' <=? 0); [discriminate E|].
        destruct ((a0 <? 0) || (a1 <? 0) || (m0 <? 0) || (m1 <? 0)); [discriminate E|].
        destruct (pos_get (s_pos (r_base rs)) id') as [q'|]; [eauto|discriminate E]. }
      destruct Q'X as [q' Q'].
      destruct (r_add_split _ _ _ _ _ _ _ _ _ _ E Q') as [rs1 [w0 [w1 [m0' [m1' [cr [EW EC]]]]]]].
      simpl in MT. specialize (MT q' rs1 (w0, w1) Q' EW).
      (* base facts of the two halves *)
      assert (EB : exists s1, withdraw_position (r_base rs) owner id' (ps_liq q') = Some (s1, (w0, w1)) /\ s_pos (r_base rs1) = s_pos s1
                              /\ s_ticks (r_base rs1) = s_ticks s1 /\ s_pool (r_base rs1) = s_pool s1 /\ s_next_id (r_base rs1) = s_next_id s1).
      { unfold r_withdraw in EW. destruct (withdraw_position _ _ _ _) as [[s' a']|]; [|discriminate EW]. simpl in EW.
        destruct (pos_get _ id'); [|discriminate EW]. simpl in EW.
        destruct (collect_incentives _ _ _ _ _ _) as [[[[[? ?] ?] ?] ?]|]; [|discriminate EW]. simpl in EW.
        destruct (update_position_rewards _ _ _ _ _ _ _ _ _) as [?|]; [|discriminate EW]. simpl in EW.
        match type of EW with (do bw <- ?X; _) = _ => destruct X as [[? ?]|]; [|discriminate EW] end. simpl in EW.
        match type of EW with (do bw2 <- ?X; _) = _ => destruct X as [[? ?]|]; [|discriminate EW] end. simpl in EW.
        inversion EW; subst. simpl. eauto 10. }
      destruct EB as [s1 [EB1 [EB2 [EB3 [EB4 EB5]]]]].
      destruct (withdraw_position_spec _ _ _ _ _ _ _ I EB1) as [I1 [NI1 [_ [_ [q'' [Q'' [_ [LQ SP]]]]]]]].
      rewrite Q' in Q''. inversion Q''; subst q''. rewrite Z.eqb_refl in SP.
      assert (I1' : Inv (r_base rs1)).
      { destruct I1. constructor; rewrite ?EB2, ?EB3, ?EB4, ?EB5; assumption. }
      assert (NE : id' <> id).
      { intro EQ. subst id'.
        assert (ECB : exists s2, create_position (r_base rs1) owner (w0 + a0) (w1 + a1) m0' m1' (ps_lower q') (ps_upper q') = Some (s2, cr) /\ r_base rs' = s2).
        { unfold r_create in EC. destruct (create_position _ _ _ _ _ _ _ _) as [[s2 c2]|]; [|discriminate EC]. simpl in EC.
          match type of EC with (do w <- ?X; _) = _ => destruct X; [|discriminate EC] end. inversion EC; subst. eauto. }
        destruct ECB as [s2 [ECB1 ECB2]]. destruct (create_position_spec _ _ _ _ _ _ _ _ _ _ I1' ECB1) as [_ [_ [_ [SP2 _]]]].
        destruct LV' as [q2 [Q2 _]]. rewrite ECB2, SP2, pos_get_set in Q2. simpl in Q2.
        rewrite EB5, NI1 in Q2. destruct (id =? s_next_id (r_base rs)) eqn:EE; [apply Z.eqb_eq in EE; lia|].
        rewrite EB2, SP, pos_get_remove in Q2 by (apply inv_pos_sorted; exact I). rewrite Z.eqb_refl in Q2. discriminate Q2. }
      (* the touched ticks of the two halves *)
      simpl in Tl, Tu. rewrite Q', EW in Tl, Tu. unfold touched_withdraw in Tl, Tu. rewrite EW, Q' in Tl, Tu.
      assert (Rl : ~ In l (removed (r_base rs1) (ps_lower q') ++ removed (r_base rs1) (ps_upper q')))
        by (intro X; apply Tl; apply in_or_app; left; apply in_or_app; right; exact X).
      assert (Ru : ~ In u (removed (r_base rs1) (ps_lower q') ++ removed (r_base rs1) (ps_upper q')))
        by (intro X; apply Tu; apply in_or_app; left; apply in_or_app; right; exact X).
      destruct (zrec_withdraw _ _ _ _ _ _ _ id l u L EW Q' (or_introl NE) Rl Ru Hlu TK NR Z) as [Z1 TK1].
      assert (NEb : (id' =? id) = false) by (apply Z.eqb_neq; exact NE). rewrite NEb in Z1.
      assert (EB' : exists s2, create_position (r_base rs1) owner (w0 + a0) (w1 + a1) m0' m1' (ps_lower q') (ps_upper q') = Some (s2, cr) /\ r_base rs' = s2).
      { unfold r_create in EC. destruct (create_position _ _ _ _ _ _ _ _) as [[s2 c2]|]; [|discriminate EC]. simpl in EC.
        match type of EC with (do w <- ?X; _) = _ => destruct X; [|discriminate EC] end. inversion EC; subst. eauto. }
      destruct EB' as [s2 [EB1' EB2']]. destruct (create_position_spec _ _ _ _ _ _ _ _ _ _ I1' EB1') as [_ [_ [CI [SP2 _]]]].
      assert (N2 : cr_id cr <> id) by (rewrite CI, EB5, NI1; lia).
      rewrite <- CT in Z1, NR.
      destruct (zrec_create _ _ _ _ _ _ _ _ _ _ id l u L EC N2 Hlu TK1 NR Z1) as [Z2 TK2].
      split; [|exact TK2]. rewrite CT in Z2. apply (FIN L); [|exact LP|exact Z2].
      exists q. rewrite EB2', SP2, pos_get_set. simpl. rewrite EB5, NI1.
      destruct (id =? s_next_id (r_base rs)) eqn:EE; [apply Z.eqb_eq in EE; lia|].
      rewrite EB2, SP, pos_get_remove by (apply inv_pos_sorted; exact I).
      destruct (id =? id') eqn:EE2; [apply Z.eqb_eq in EE2; congruence|]. auto.
    + (* transfer *)
      destruct (transfer_positions (r_base rs) sender ids recipient) as [s'|] eqn:E; [|discriminate H]. inversion H; subst rs' r. clear H.
      simpl in *. destruct (transfer_positions_spec _ _ _ _ _ I E) as [_ [_ [_ [_ [_ [PG _]]]]]].
      split; [|exact TK]. apply (FIN L); [|exact LP|exact Z].
      unfold live. simpl. rewrite (PG id), Q. destruct (z_mem id ids); eexists; split; try reflexivity; simpl; auto.
    + (* time *)
      inversion H; subst rs' r. simpl in *. split; [|exact TK]. apply (FIN L); [|exact LP|exact Z]. exists q. simpl. auto.
  - (* collect spread rewards *)
    destruct (r_collect_spread rs owner ids) as [[rs1 c]|] eqn:E; [|discriminate H]. inversion H; subst rs1 r. clear H.
    unfold r_collect_spread in E. destruct (r_collect_spread_loop_base _ _ _ _ _ _ E) as [BP _].
    assert (PQ : forall q0, pos_get (s_pos (r_base rs)) id = Some q0 -> ps_lower q0 = l /\ ps_upper q0 = u).
    { intros q0 Q0. rewrite Q in Q0. inversion Q0; subst. auto. }
    destruct (zrec_collect_spread_loop _ _ _ _ _ _ id l u L E PQ Hlu TK NR ltac:(lia) Z) as [Z' TK'].
    split; [|exact TK']. apply (FIN L); [|exact LP|exact Z']. exists q. rewrite BP. auto.
  - (* collect incentives *)
    destruct (r_collect_inc rs owner ids) as [[rs1 [c f]]|] eqn:E; [|discriminate H]. inversion H; subst rs1 r. clear H.
    unfold r_collect_inc in E. destruct (r_collect_inc_loop_base _ _ _ _ _ _ _ E) as [BP [_ SPR]].
    destruct (zrec_SE (cur_tick rs) [] (r_rw rs) (r_rw rs') id l u L (fun d => proj1 (SE_collect_inc_loop (CS d) _ _ _ _ _ _ _ E)) Hlu TK
                ltac:(simpl; tauto) ltac:(simpl; tauto) NR ltac:(rewrite SPR; reflexivity) Z) as [Z' TK'].
    split; [|exact TK']. apply (FIN L); [|exact LP|exact Z']. exists q. rewrite BP. auto.
  - (* create incentive *)
    destruct (r_incentive rs sender denom amount rate dt uu) as [rs1|] eqn:E; [|discriminate H]. inversion H; subst rs1 r. clear H.
    assert (BS : s_pos (r_base rs') = s_pos (r_base rs) /\ rw_spread (r_rw rs') = rw_spread (r_rw rs)).
    { unfold r_incentive in E. obind E. inversion E; subst. simpl.
      match goal with X : update_uptime _ _ _ = Some _ |- _ => destruct (update_uptime_tt _ _ _ _ X) as [_ [S1 _]] end. auto. }
    destruct BS as [BP SPR].
    destruct (zrec_SE (cur_tick rs) [] (r_rw rs) (r_rw rs') id l u L (fun d => proj1 (SE_incentive (CS d) _ _ _ _ _ _ _ _ E)) Hlu TK
                ltac:(simpl; tauto) ltac:(simpl; tauto) NR ltac:(rewrite SPR; reflexivity) Z) as [Z' TK'].
    split; [|exact TK']. apply (FIN L); [|exact LP|exact Z']. exists q. rewrite BP. auto.
Qed.

Lemma tks_tt_ok : forall rs l u, tks (r_rw rs) l u <-> (forall d, tt_ok (CS d) rs l u).
Proof.
  intros rs l u. unfold tks, tt_ok. split.
  - intros [A [B C]] d. split; [eapply vmap_sorted_any; exact A|auto].
  - intro H. destruct (H false) as [A [B C]]. auto.
Qed.

Lemma zero_rec_step_swap : forall rs o rs' r id l u, rhandler rs o = Some (rs', r) -> is_swap o = true ->
  l < u -> zero_rec rs id l u -> tks (r_rw rs) l u ->
  (forall d, op_ok (CS d) rs o l u) -> (forall d, in_range_growth (rview (CS d) rs) (op_trace (CS d) rs o) l u = 0) ->
  zero_rec rs' id l u /\ tks (r_rw rs') l u.
Proof.
  intros rs o rs' r id l u H S Hlu ZR TK OK NG.
  assert (ST : forall d, tt_ok (CS d) rs' l u /\ a_inside (rview (CS d) rs') l u = a_inside (rview (CS d) rs) l u).
  { intro d. pose proof (op_step (CS d) rs o l u Hlu (proj1 (tks_tt_ok rs l u) TK d) (OK d)) as X.
    unfold rstep in X. rewrite H in X. simpl in X. destruct X as [A B]. split; [exact A|].
    rewrite B. unfold op_growth, rstep. rewrite H, S, (NG d). lia. }
  assert (BR : s_pos (r_base rs') = s_pos (r_base rs) /\ ac_recs (rw_spread (r_rw rs')) = ac_recs (rw_spread (r_rw rs))).
  { destruct o as [b|? ?|? ?|? ? ? ? ? ?]; simpl in S; try discriminate S.
    destruct b as [? ? ? ? ? ? ?|? ? ?|? ? ? ? ? ?|? ? ?|sender zfo amt mo|sender zfo amt mi|?]; simpl in S; try discriminate S; simpl in H.
    - unfold r_swap_in in H. destruct (swap_exact_in (r_base rs) sender zfo amt mo) as [[s' out]|] eqn:E1; [|discriminate H]. simpl in H.
      destruct (swap_rewards (r_rw rs) (r_base rs) true zfo amt (s_time (r_base rs))) as [w|] eqn:E2; [|discriminate H].
      inversion H; subst. simpl. split; [eapply swap_exact_in_pos; exact E1|eapply swap_rewards_recs; exact E2].
    - unfold r_swap_out in H. destruct (swap_exact_out (r_base rs) sender zfo amt mi) as [[s' tin]|] eqn:E1; [|discriminate H]. simpl in H.
      destruct (swap_rewards (r_rw rs) (r_base rs) false zfo amt (s_time (r_base rs))) as [w|] eqn:E2; [|discriminate H].
      inversion H; subst. simpl. split; [eapply swap_exact_out_pos; exact E1|eapply swap_rewards_recs; exact E2]. }
  destruct BR as [BP BRr]. split; [|apply tks_tt_ok; intro d; apply (ST d)].
  destruct ZR as [L [r0 [[q [Q [Ql [Qu QL]]]] [LP [R [Sh [U Sn]]]]]]]. exists L, r0.
  split; [exists q; rewrite BP; auto|]. split; [exact LP|]. split; [unfold acc_get in *; rewrite BRr; exact R|].
  split; [exact Sh|]. split; [exact U|]. intro d. rewrite (Sn d). symmetry. apply (ST d).
Qed.

(* ---------- histories ---------- *)
Fixpoint hist_never (rs : rstate) (ops : list rop) (id l u : Z) : Prop :=
  match ops with [] => True | o :: r => op_never rs o id l u /\ hist_never (fst (rstep rs o)) r id l u end.

(* never_in_range_earns_zero (spread rewards): through any history during which nothing accrues inside [l, u) - no
   operation runs while l <= current tick < u and no swap charges a fee at a tick inside - a position on [l, u) whose
   record claims nothing keeps claiming nothing, whatever is done to it or to other positions *)
Theorem never_in_range_earns_zero : forall ops rs id l u, l < u -> zero_rec rs id l u -> tks (r_rw rs) l u ->
  hist_never rs ops id l u -> zero_rec (rrun rs ops) id l u.
Proof.
  induction ops as [|o r IH]; intros rs id l u Hlu ZR TK H; simpl; [exact ZR|]. destruct H as [[I ON] HN].
  unfold rstep in *. destruct (rhandler rs o) as [[rs' res]|] eqn:E; simpl in *; [|apply IH; assumption].
  destruct ON as [LV [OK NG]]. destruct (is_swap o) eqn:S.
  - destruct (zero_rec_step_swap _ _ _ _ _ _ _ E S Hlu ZR TK OK NG) as [ZR' TK']. apply IH; assumption.
  - destruct (zero_rec_step_static _ _ _ _ _ _ _ E S Hlu I ZR TK LV OK NG) as [ZR' TK']. apply IH; assumption.
Qed.

Corollary never_in_range_claims_nothing : forall ops rs id l u c, l < u -> zero_rec rs id l u -> tks (r_rw rs) l u ->
  hist_never rs ops id l u -> claimable_spread (rrun rs ops) id = Some c -> c = (0, 0).
Proof. intros. eapply zero_rec_claims_nothing; [eapply never_in_range_earns_zero; eassumption|eassumption]. Qed.
