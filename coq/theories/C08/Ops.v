(* C08: every non-swap operation of CLR/RStep.v is, for every accumulator component, a static evolution of the abstract
   tick-snapshot machine at the pool's current tick; hence (C08/Static.v) growth inside any range whose two ticks the
   operation neither initialises nor removes changes by the whole growth of the accumulator when the current tick is in
   the range and by nothing otherwise. *)
From Coq Require Import ZArith List Bool Lia.
Import ListNotations.
From Osmo Require Import Base.DecModel CL.TickMath CL.CLMath CL.CLPool CL.CLSwap CL.CLStep
  CLR.Accum CLR.Rewards CLR.RSwap CLR.RStep C08.Telescope C08.View C08.Static C08.Stages.
Open Scope Z_scope.

Definition cur_tick (rs : rstate) : Z := p_tick (s_pool (r_base rs)).
Definition rview (k : comp) (rs : rstate) : astate := view k (r_rw rs) (cur_tick rs) dc0.

Lemma SE_create : forall k rs owner a0 a1 m0 m1 lo hi rs' c,
  r_create rs owner a0 a1 m0 m1 lo hi = Some (rs', c) ->
  SE k (cur_tick rs') (fresh (r_rw rs) (cr_lower c) ++ fresh (r_rw rs) (cr_upper c)) (r_rw rs) (r_rw rs').
Proof.
  unfold r_create. intros k rs owner a0 a1 m0 m1 lo hi rs' c H. obind H. inversion H; subst. clear H.
  unfold cur_tick. simpl. eapply SE_update_position_rewards. exact E0.
Qed.

Definition removed (s' : state) (i : Z) : list Z := match tick_get (s_ticks s') i with None => [i] | Some _ => [] end.

Lemma collect_incentives_tt : forall b w cur pl now q b' w' c f byup,
  collect_incentives b w cur pl now q = Some (b', w', c, f, byup) -> rw_tt w' = rw_tt w.
Proof.
  unfold collect_incentives. intros. obind H. inversion H; subst.
  eapply prepare_claim_all_incentives_tt. exact E.
Qed.
Lemma collect_spread_rewards_tt : forall b w sc cur q b' w' c,
  collect_spread_rewards b w sc cur q = Some (b', w', c) -> rw_tt w' = rw_tt w.
Proof.
  unfold collect_spread_rewards. intros. obind H. inversion H; subst.
  eapply prepare_claimable_spread_tt. exact E.
Qed.

Lemma SE_withdraw : forall k rs owner id liq rs' amts q,
  r_withdraw rs owner id liq = Some (rs', amts) -> pos_get (s_pos (r_base rs)) id = Some q ->
  SE k (cur_tick rs)
     ((fresh (r_rw rs) (ps_lower q) ++ fresh (r_rw rs) (ps_upper q))
      ++ removed (r_base rs') (ps_lower q) ++ removed (r_base rs') (ps_upper q))
     (r_rw rs) (r_rw rs').
Proof.
  unfold r_withdraw. intros k rs owner id liq rs' amts q H Q. rewrite Q in H.
  destruct (withdraw_position (r_base rs) owner id liq) as [[s amts']|]; [|discriminate H].
  set (cur := p_tick (s_pool (r_base rs))) in *.
  destruct (collect_incentives (s_bank s) (r_rw rs) cur (p_liq (s_pool (r_base rs))) (s_time (r_base rs)) q)
    as [[[[[b1 w1] col] forf] byup]|] eqn:E1; [|discriminate H].
  destruct (update_position_rewards w1 cur (p_liq (s_pool (r_base rs))) (s_time (r_base rs)) (ps_lower q) (ps_upper q) id (ps_liq q - liq) (- liq))
    as [w2|] eqn:E2; [|discriminate H].
  match type of H with (do bw <- ?X; _) = _ => destruct X as [[b2 w3]|] eqn:E3; [|discriminate H] end.
  match type of H with (do bw2 <- ?X; _) = _ => destruct X as [[b3 w4]|] eqn:E4; [|discriminate H] end.
  inversion H; subst rs' amts. clear H. simpl.
  pose proof (SE_same_tt k cur _ _ (collect_incentives_tt _ _ _ _ _ _ _ _ _ _ _ E1)) as S1.
  pose proof (SE_update_position_rewards k _ _ _ _ _ _ _ _ _ _ E2) as S2.
  assert (F2 : rw_tt w1 = rw_tt (r_rw rs)) by (eapply collect_incentives_tt; exact E1).
  assert (S3 : SE k cur [] w2 w3).
  { apply SE_same_tt. destruct (p_liq (s_pool s) <? P18); obind E3; inversion E3; subst; [reflexivity|].
    eapply redeposit_forfeited_tt. eassumption. }
  assert (S4 : SE k cur [] w3 w4).
  { apply SE_same_tt. destruct (liq =? ps_liq q); obind E4; inversion E4; subst; [|reflexivity].
    eapply collect_spread_rewards_tt. eassumption. }
  assert (S5 : SE k cur (removed s (ps_lower q) ++ removed s (ps_upper q)) w4
                  (set_tt w4 (match tick_get (s_ticks s) (ps_upper q) with
                              | None => tt_remove (match tick_get (s_ticks s) (ps_lower q) with None => tt_remove (rw_tt w4) (ps_lower q) | Some _ => rw_tt w4 end) (ps_upper q)
                              | Some _ => match tick_get (s_ticks s) (ps_lower q) with None => tt_remove (rw_tt w4) (ps_lower q) | Some _ => rw_tt w4 end end))).
  { unfold removed. destruct (tick_get (s_ticks s) (ps_lower q)); destruct (tick_get (s_ticks s) (ps_upper q)); simpl.
    - replace (set_tt w4 (rw_tt w4)) with w4 by (destruct w4; reflexivity). apply SE_refl.
    - apply SE_remove.
    - apply SE_remove.
    - pose proof (SE_trans k cur _ _ _ _ _ (SE_remove k cur w4 (ps_lower q)) (SE_remove k cur (set_tt w4 (tt_remove (rw_tt w4) (ps_lower q))) (ps_upper q))) as X.
      simpl in X. exact X. }
  pose proof (SE_trans _ _ _ _ _ _ _ S1 (SE_trans _ _ _ _ _ _ _ S2 (SE_trans _ _ _ _ _ _ _ S3 (SE_trans _ _ _ _ _ _ _ S4 S5)))) as S.
  eapply SE_weaken; [exact S|]. unfold fresh. rewrite F2. simpl. intros j Hj.
  rewrite <- !app_assoc in *. exact Hj.
Qed.

Lemma SE_collect_spread_loop : forall k ids rs owner tot rs' c,
  r_collect_spread_loop rs owner ids tot = Some (rs', c) ->
  SE k (cur_tick rs) [] (r_rw rs) (r_rw rs') /\ cur_tick rs' = cur_tick rs.
Proof.
  induction ids as [|id rest IH]; intros rs owner tot rs' c H; simpl in H.
  - inversion H; subst. split; [apply SE_refl|reflexivity].
  - destruct (pos_get (s_pos (r_base rs)) id) as [q|]; [|discriminate H].
    destruct (negb (ps_owner q =? owner)); [discriminate H|].
    destruct (collect_spread_rewards (s_bank (r_base rs)) (r_rw rs) (p_scaling (s_pool (r_base rs))) (p_tick (s_pool (r_base rs))) q)
      as [[[b w] x]|] eqn:E; [|discriminate H].
    destruct (IH _ _ _ _ _ H) as [S C]. unfold cur_tick in *. simpl in *. split; [|exact C].
    pose proof (SE_same_tt k (p_tick (s_pool (r_base rs))) _ _ (collect_spread_rewards_tt _ _ _ _ _ _ _ _ E)) as S1.
    exact (SE_trans _ _ _ _ _ _ _ S1 S).
Qed.

Lemma SE_collect_inc_loop : forall k ids rs owner col forf rs' c,
  r_collect_inc_loop rs owner ids col forf = Some (rs', c) ->
  SE k (cur_tick rs) [] (r_rw rs) (r_rw rs') /\ cur_tick rs' = cur_tick rs.
Proof.
  induction ids as [|id rest IH]; intros rs owner col forf rs' c H; simpl in H.
  - inversion H; subst. split; [apply SE_refl|reflexivity].
  - destruct (pos_get (s_pos (r_base rs)) id) as [q|]; [|discriminate H].
    destruct (negb (ps_owner q =? owner)); [discriminate H|].
    destruct (collect_incentives (s_bank (r_base rs)) (r_rw rs) (p_tick (s_pool (r_base rs))) (p_liq (s_pool (r_base rs))) (s_time (r_base rs)) q)
      as [[[[[b w] x] f] byup]|] eqn:E; [|discriminate H].
    destruct (IH _ _ _ _ _ _ H) as [S C]. unfold cur_tick in *. simpl in *. split; [|exact C].
    pose proof (SE_same_tt k (p_tick (s_pool (r_base rs))) _ _ (collect_incentives_tt _ _ _ _ _ _ _ _ _ _ _ E)) as S1.
    exact (SE_trans _ _ _ _ _ _ _ S1 S).
Qed.

Lemma SE_incentive : forall k rs sender denom amount rate dt u rs',
  r_incentive rs sender denom amount rate dt u = Some rs' ->
  SE k (cur_tick rs) [] (r_rw rs) (r_rw rs') /\ cur_tick rs' = cur_tick rs.
Proof.
  unfold r_incentive. intros k rs sender denom amount rate dt u rs' H. obind H. inversion H; subst. clear H.
  split; [|reflexivity]. apply SE_same_tt. simpl. match goal with E : update_uptime _ _ _ = Some _ |- _ => apply (update_uptime_tt _ _ _ _ E) end.
Qed.

(* addToPosition = full withdrawal, then creation *)
Lemma r_add_split : forall rs owner id a0 a1 m0 m1 rs' r q,
  r_add rs owner id a0 a1 m0 m1 = Some (rs', r) -> pos_get (s_pos (r_base rs)) id = Some q ->
  exists rs1 w0 w1 m0' m1' cr,
    r_withdraw rs owner id (ps_liq q) = Some (rs1, (w0, w1)) /\
    r_create rs1 owner (w0 + a0) (w1 + a1) m0' m1' (ps_lower q) (ps_upper q) = Some (rs', cr).
Proof.
  unfold r_add. intros rs owner id a0 a1 m0 m1 rs' r q H Q. rewrite Q in H.
  destruct (id <=? 0); [discriminate H|].
  destruct ((a0 <? 0) || (a1 <? 0) || (m0 <? 0) || (m1 <? 0)); [discriminate H|].
  destruct (negb (ps_owner q =? owner)); [discriminate H|].
  destruct ((a0 =? 0) && (a1 =? 0)); [discriminate H|].
  destruct (r_withdraw rs owner id (ps_liq q)) as [[rs1 [w0 w1]]|] eqn:EW; [|discriminate H].
  destruct (negb (pool_has_position (s_pool (r_base rs1)))); [discriminate H|].
  match type of H with (do c <- ?X; _) = _ => destruct X as [[rs2 cr]|] eqn:EC; [|discriminate H] end.
  inversion H; subst. exists rs1, w0, w1. do 2 eexists. exists cr. split; [reflexivity|exact EC].
Qed.
