(* C08: the side conditions of growth_inside_telescopes for the non-swap operations follow from the invariants when a
   position on [l, u) exists before and after the operation; with C08/Dom.v this makes the telescoping theorem
   unconditional for every position through every history in which it stays open. *)
From Coq Require Import ZArith List Bool Lia.
Import ListNotations.
From Osmo Require Import Base.DecModel CL.TickMath CL.CLMath CL.CLPool CL.CLSwap CL.CLStep
  CLR.Accum CLR.Rewards CLR.RSwap CLR.RStep C07.Base C07.TickLemmas C07.LP C07.Swap C07.Proofs
  C08.Proj C08.Telescope C08.View C08.Static C08.Stages C08.Ops C08.OpInside C08.SwapTrace C08.Crux C08.SwapWf C08.Dom.
Open Scope Z_scope.

(* a position with the range [l, u) *)
Definition has_range (s : state) (l u : Z) : Prop := exists q, In q (s_pos s) /\ ps_lower q = l /\ ps_upper q = u.

Lemma has_range_stored : forall s l u, Inv s -> has_range s l u ->
  tick_get (s_ticks s) l <> None /\ tick_get (s_ticks s) u <> None /\ l < u /\ s_pos s <> [].
Proof.
  intros s l u I [q [Hq [Ql Qu]]]. destruct (boundary_stored s q I Hq) as [[v1 B1] [v2 B2]]. subst.
  rewrite (in_tick_get _ _ _ (inv_ticks_sorted s I) B1), (in_tick_get _ _ _ (inv_ticks_sorted s I) B2).
  pose proof (inv_pos_ok _ I) as F. rewrite Forall_forall in F. destruct (F q Hq) as [_ [_ V]]. apply validate_tick_range_spec in V.
  repeat split; try discriminate; try lia. intro E. rewrite E in Hq. destruct Hq.
Qed.

Lemma has_range_tt_ok : forall k rs l u, RInv rs -> has_range (r_base rs) l u -> tt_ok k rs l u /\ l < u.
Proof.
  intros k rs l u [I [D S]] HR. destruct (has_range_stored _ _ _ I HR) as [A [B [C _]]]. split; [|exact C].
  split; [apply (vmap_sorted k); exact S|]. split; intro X; [apply A|apply B]; apply D; exact X.
Qed.

(* ---------- the current tick only moves in swaps while the pool has positions ---------- *)
Lemma create_position_tick : forall s owner a0 a1 m0 m1 lo hi s' c, create_position s owner a0 a1 m0 m1 lo hi = Some (s', c) ->
  pool_has_position (s_pool s) = true -> p_tick (s_pool s') = p_tick (s_pool s).
Proof.
  unfold create_position. intros s owner a0 a1 m0 m1 lo hi s' c H HP. rewrite HP in H.
  destruct (hi <=? lo); [discriminate H|]. destruct ((a0 <? 0) || (a1 <? 0)); [discriminate H|].
  destruct ((a0 =? 0) && (a1 =? 0)); [discriminate H|]. destruct ((m0 <? 0) || (m1 <? 0)); [discriminate H|].
  destruct (negb (validate_tick_range (p_spacing (s_pool s)) lo hi)); [discriminate H|].
  destruct (ticks_to_sqrt_price lo hi) as [[sl su]|]; [|discriminate H]. simpl in H.
  destruct (round_tick_to_canonical lo hi sl su (p_spacing (s_pool s))) as [[lo' hi']|]; [|discriminate H]. simpl in H.
  destruct (get_liquidity_from_amounts (p_sqrt (s_pool s)) sl su a0 a1) as [liq|]; [|discriminate H]. simpl in H.
  destruct (liq =? 0); [discriminate H|].
  destruct (update_position _ owner lo' hi' liq (s_time s) (s_next_id s)) as [[[s3 [amt0 amt1]] [le ue]]|] eqn:EU; [|discriminate H]. simpl in H.
  destruct ((amt0 <? m0) || (amt1 <? m1)); [discriminate H|].
  destruct (send_user_to_pool (s_bank s3) owner amt0 amt1) as [b|]; [|discriminate H]. inversion H; subst. simpl.
  destruct (update_position_spec _ _ _ _ _ _ _ _ _ _ _ _ EU) as [_ [_ [_ [_ [P _]]]]]. rewrite P. simpl.
  destruct (in_range _ lo' hi'); reflexivity.
Qed.

Lemma withdraw_position_tick : forall s owner id liq s' amts, withdraw_position s owner id liq = Some (s', amts) ->
  s_pos s' <> [] -> p_tick (s_pool s') = p_tick (s_pool s).
Proof.
  unfold withdraw_position. intros s owner id liq s' amts H NE.
  destruct (negb (0 <? liq)); [discriminate H|]. destruct (pos_get (s_pos s) id) as [q|]; [|discriminate H]. simpl in H.
  destruct (negb (ps_owner q =? owner)); [discriminate H|]. destruct (ps_liq q <? liq); [discriminate H|].
  destruct (update_position s owner (ps_lower q) (ps_upper q) (- liq) (ps_join q) id) as [[[s1 [amt0 amt1]] [le ue]]|] eqn:EU; [|discriminate H]. simpl in H.
  destruct (send_pool_to_user (s_bank s1) owner (Z.abs amt0) (Z.abs amt1)) as [b|]; [|discriminate H]. simpl in H.
  destruct (update_position_spec _ _ _ _ _ _ _ _ _ _ _ _ EU) as [_ [_ [_ [_ [P _]]]]].
  assert (T1 : p_tick (s_pool s1) = p_tick (s_pool s)) by (rewrite P; destruct (in_range _ _ _); reflexivity).
  match type of H with (do s3 <- ?X; _) = _ => destruct X as [s3|] eqn:E3; [|discriminate H] end. simpl in H.
  inversion H; subst. simpl in *.
  destruct (liq =? ps_liq q); [|inversion E3; subst; exact T1].
  simpl in E3. destruct (has_any_position (set_pos (set_bank s1 b) (pos_remove (s_pos s1) id))) eqn:EH; [inversion E3; subst; exact T1|].
  exfalso. unfold uninitialize_pool in E3. rewrite EH in E3. inversion E3; subst. simpl in NE.
  unfold has_any_position in EH. simpl in EH. destruct (pos_remove (s_pos s1) id); [apply NE; reflexivity|discriminate EH].
Qed.

Definition livep (s : state) (id l u : Z) : Prop := exists q, pos_get (s_pos s) id = Some q /\ ps_lower q = l /\ ps_upper q = u.
Lemma livep_has_range : forall s id l u, livep s id l u -> has_range s l u.
Proof. intros s id l u [q [Q [A B]]]. exists q. split; [eapply pos_get_in; exact Q|auto]. Qed.

Lemma fresh_key : forall w i j, tt_get (rw_tt w) j <> None -> ~ In j (fresh w i).
Proof. intros w i j K. unfold fresh. destruct (tt_get (rw_tt w) i) eqn:E; simpl; [tauto|]. intros [X|X]; [subst; congruence|exact X]. Qed.
Lemma removed_stored : forall s' i j, tick_get (s_ticks s') j <> None -> ~ In j (removed s' i).
Proof. intros s' i j K. unfold removed. destruct (tick_get (s_ticks s') i) eqn:E; simpl; [tauto|]. intros [X|X]; [subst; congruence|exact X]. Qed.

Lemma livep_keys : forall rs id l u, RInv rs -> livep (r_base rs) id l u ->
  tt_get (rw_tt (r_rw rs)) l <> None /\ tt_get (rw_tt (r_rw rs)) u <> None /\
  tick_get (s_ticks (r_base rs)) l <> None /\ tick_get (s_ticks (r_base rs)) u <> None /\ s_pos (r_base rs) <> [].
Proof.
  intros rs id l u [I [D S]] LV. destruct (has_range_stored _ _ _ I (livep_has_range _ _ _ _ LV)) as [A [B [_ C]]].
  repeat split; try assumption; intro X; [apply A|apply B]; apply D; exact X.
Qed.

Lemma touched_withdraw_ok : forall rs owner id' liq rs' amts id l u,
  r_withdraw rs owner id' liq = Some (rs', amts) -> RInv rs -> RInv rs' -> livep (r_base rs) id l u -> livep (r_base rs') id l u ->
  ~ In l (touched_withdraw rs owner id' liq) /\ ~ In u (touched_withdraw rs owner id' liq).
Proof.
  intros rs owner id' liq rs' amts id l u H RI RI' LV LV'. unfold touched_withdraw. rewrite H.
  destruct (pos_get (s_pos (r_base rs)) id') as [q|]; [|simpl; tauto].
  destruct (livep_keys _ _ _ _ RI LV) as [K1 [K2 _]]. destruct (livep_keys _ _ _ _ RI' LV') as [_ [_ [K3 [K4 _]]]].
  split; intro X; apply in_app_or in X; destruct X as [X|X]; apply in_app_or in X; destruct X as [X|X];
    try (eapply fresh_key; [|exact X]; assumption); try (eapply removed_stored; [|exact X]; assumption).
Qed.

Lemma touched_create_ok : forall rs owner a0 a1 m0 m1 lo hi id l u, RInv rs -> livep (r_base rs) id l u ->
  ~ In l (touched_create rs owner a0 a1 m0 m1 lo hi) /\ ~ In u (touched_create rs owner a0 a1 m0 m1 lo hi).
Proof.
  intros rs owner a0 a1 m0 m1 lo hi id l u RI LV. unfold touched_create.
  destruct (r_create rs owner a0 a1 m0 m1 lo hi) as [[rs' c]|]; [|simpl; tauto].
  destruct (livep_keys _ _ _ _ RI LV) as [K1 [K2 _]].
  split; intro X; apply in_app_or in X; destruct X as [X|X]; (eapply fresh_key; [|exact X]; assumption).
Qed.

Lemma sbb_tick : forall s s', same_but_bank s s' -> p_tick (s_pool s') = p_tick (s_pool s).
Proof. intros s s' [A _]. rewrite A. reflexivity. Qed.

(* the side conditions of a non-swap operation hold as soon as some position on [l, u) stays open across it *)
Theorem static_op_ok : forall k rs o rs' r id l u, RInv rs -> rhandler rs o = Some (rs', r) -> is_swap o = false ->
  livep (r_base rs) id l u -> livep (r_base rs') id l u -> op_ok k rs o l u.
Proof.
  intros k rs o rs' r id l u RI H NS LV LV'. pose proof (rinv_handler _ _ _ _ H RI) as RI'.
  unfold op_ok, rstep. rewrite H, NS.
  destruct (livep_keys _ _ _ _ RI LV) as [K1 [K2 [K3 [K4 NE]]]]. destruct (livep_keys _ _ _ _ RI' LV') as [_ [_ [_ [_ NE']]]].
  destruct RI as [I [D S]].
  assert (HP : pool_has_position (s_pool (r_base rs)) = true) by (apply (pool_has_position_iff _ I); exact NE).
  destruct o as [b|owner ids|owner ids|sender denom amount rate dt uu]; simpl in H.
  - destruct b as [owner a0 a1 m0 m1 lo hi|owner id' liq|owner id' a0 a1 m0 m1|sender ids recipient|sender zfo amt mo|sender zfo amt mi|dt];
      simpl in NS; try discriminate NS.
    + destruct (r_create rs owner a0 a1 m0 m1 lo hi) as [[rs1 c]|] eqn:E; [|discriminate H]. inversion H; subst rs1 r. clear H.
      split; [unfold cur_tick; eapply create_position_tick; [eapply r_create_base; exact E|exact HP]|]. split; [exact Logic.I|].
      simpl. eapply touched_create_ok; [split; [exact I|split; [exact D|exact S]]|exact LV].
    + destruct (r_withdraw rs owner id' liq) as [[rs1 [x0 x1]]|] eqn:E; [|discriminate H]. inversion H; subst rs1 r. clear H.
      destruct (r_withdraw_base _ _ _ _ _ _ E) as [s' [B SB]].
      split; [unfold cur_tick; rewrite (sbb_tick _ _ SB); eapply withdraw_position_tick; [exact B|destruct SB as [_ [_ [P _]]]; rewrite <- P; exact NE']|].
      split; [exact Logic.I|]. simpl. eapply touched_withdraw_ok; try eassumption. split; [exact I|split; [exact D|exact S]].
    + destruct (r_add rs owner id' a0 a1 m0 m1) as [[rs1 [[nid y0] y1]]|] eqn:E; [|discriminate H]. inversion H; subst rs1 r. clear H.
      assert (QX : exists q', pos_get (s_pos (r_base rs)) id' = Some q').
      { unfold r_add in E. destruct (id' <=? 0); [discriminate E|].
        destruct ((a0 <? 0) || (a1 <? 0) || (m0 <? 0) || (m1 <? 0)); [discriminate E|].
        destruct (pos_get (s_pos (r_base rs)) id') as [q'|]; [eauto|discriminate E]. }
      destruct QX as [q' Q'].
      assert (E' := E). unfold r_add in E'. rewrite Q' in E'.
      destruct (id' <=? 0); [discriminate E'|].
      destruct ((a0 <? 0) || (a1 <? 0) || (m0 <? 0) || (m1 <? 0)); [discriminate E'|].
      destruct (negb (ps_owner q' =? owner)); [discriminate E'|].
      destruct ((a0 =? 0) && (a1 =? 0)); [discriminate E'|].
      destruct (r_withdraw rs owner id' (ps_liq q')) as [[rs1 [w0 w1]]|] eqn:EW; [|discriminate E'].
      destruct (negb (pool_has_position (s_pool (r_base rs1)))) eqn:EP; [discriminate E'|]. apply negb_false_iff in EP.
      match type of E' with (do c <- ?X; _) = _ => destruct X as [[rs3 cr]|] eqn:EC; [|discriminate E'] end.
      inversion E'; subst rs3. clear E'.
      assert (RI0 : RInv rs) by (split; [exact I|split; [exact D|exact S]]).
      pose proof (rinv_withdraw _ _ _ _ _ _ EW RI0) as RI1.
      destruct (r_withdraw_base _ _ _ _ _ _ EW) as [s1 [B1 SB1]].
      destruct (withdraw_position_spec _ _ _ _ _ _ _ I B1) as [I1 [NI1 [_ [_ [q'' [Q'' [_ [LQ SP]]]]]]]].
      rewrite Q' in Q''. inversion Q''; subst q''. rewrite Z.eqb_refl in SP.
      (* the surviving position is not the one being re-created *)
      destruct LV as [q [Q [Ql Qu]]].
      assert (NEid : id <> id').
      { intro EQ. subst id'. destruct LV' as [q2 [Q2 _]].
        pose proof (r_create_base _ _ _ _ _ _ _ _ _ _ EC) as BC. destruct RI1 as [I1' _].
        destruct (create_position_spec _ _ _ _ _ _ _ _ _ _ I1' BC) as [_ [_ [_ [SP2 _]]]].
        rewrite SP2, pos_get_set in Q2. simpl in Q2. destruct SB1 as [_ [_ [P1 [N1 _]]]].
        pose proof (pos_get_in _ _ _ Q) as HIn. pose proof (pos_get_id _ _ _ Q) as HId.
        pose proof (inv_pos_ok _ I) as F. rewrite Forall_forall in F. destruct (F q HIn) as [A _].
        rewrite N1, NI1 in Q2. destruct (id =? s_next_id (r_base rs)) eqn:EE; [apply Z.eqb_eq in EE; lia|].
        rewrite P1, SP, pos_get_remove in Q2 by (apply inv_pos_sorted; exact I). rewrite Z.eqb_refl in Q2. discriminate Q2. }
      assert (LV1 : livep (r_base rs1) id l u).
      { exists q. destruct SB1 as [_ [_ [P1 _]]]. rewrite P1, SP, pos_get_remove by (apply inv_pos_sorted; exact I).
        destruct (id =? id') eqn:EE; [apply Z.eqb_eq in EE; contradiction|]. auto. }
      destruct (livep_keys _ _ _ _ RI1 LV1) as [_ [_ [_ [_ NE1]]]].
      assert (T1 : cur_tick rs1 = cur_tick rs).
      { unfold cur_tick. rewrite (sbb_tick _ _ SB1). eapply withdraw_position_tick; [exact B1|].
        destruct SB1 as [_ [_ [P1 _]]]. rewrite <- P1. exact NE1. }
      split; [unfold cur_tick in *; rewrite <- T1; eapply create_position_tick; [eapply r_create_base; exact EC|exact EP]|].
      split; [simpl; intros q0 rs0 w Q0 W0; rewrite Q' in Q0; inversion Q0; subst q0; rewrite EW in W0; inversion W0; subst; exact T1|].
      simpl. rewrite Q', EW.
      destruct (touched_withdraw_ok _ _ _ _ _ _ id l u EW RI0 RI1 (ex_intro _ q (conj Q (conj Ql Qu))) LV1) as [A1 A2].
      destruct (touched_create_ok rs1 owner (w0 + a0) (w1 + a1) (if m0 =? 0 then w0 else w0 + m0) (if m1 =? 0 then w1 else w1 + m1) (ps_lower q') (ps_upper q') id l u RI1 LV1) as [C1 C2].
      split; intro X; apply in_app_or in X; destruct X as [X|X]; tauto.
    + destruct (transfer_positions (r_base rs) sender ids recipient) as [s'|] eqn:E; [|discriminate H]. inversion H; subst rs' r. clear H.
      destruct (transfer_positions_spec _ _ _ _ _ I E) as [_ [_ [_ [P _]]]]. unfold cur_tick. simpl. rewrite P. simpl. tauto.
    + inversion H; subst rs' r. unfold cur_tick. simpl. tauto.
  - destruct (r_collect_spread rs owner ids) as [[rs1 c]|] eqn:E; [|discriminate H]. inversion H; subst rs1 r. clear H.
    unfold r_collect_spread in E. destruct (r_collect_spread_loop_sbb _ _ _ _ _ _ E) as [SB _].
    unfold cur_tick. rewrite (sbb_tick _ _ SB). simpl. tauto.
  - destruct (r_collect_inc rs owner ids) as [[rs1 [c f]]|] eqn:E; [|discriminate H]. inversion H; subst rs1 r. clear H.
    unfold r_collect_inc in E. destruct (r_collect_inc_loop_sbb _ _ _ _ _ _ _ E) as [SB _].
    unfold cur_tick. rewrite (sbb_tick _ _ SB). simpl. tauto.
  - destruct (r_incentive rs sender denom amount rate dt uu) as [rs1|] eqn:E; [|discriminate H]. inversion H; subst rs1 r. clear H.
    destruct (SE_incentive k _ _ _ _ _ _ _ _ E) as [_ CT]. rewrite CT. simpl. tauto.
Qed.

(* ---------- growth_inside_telescopes without side conditions ---------- *)
Fixpoint live_through (rs : rstate) (ops : list rop) (id l u : Z) : Prop :=
  livep (r_base rs) id l u /\ match ops with [] => True | o :: r => live_through (fst (rstep rs o)) r id l u end.

Lemma live_through_head : forall rs ops id l u, live_through rs ops id l u -> livep (r_base rs) id l u.
Proof. intros rs ops id l u H. destruct ops; simpl in H; tauto. Qed.

Lemma op_ok_of_live : forall k rs o id l u, RInv rs -> livep (r_base rs) id l u -> livep (r_base (fst (rstep rs o))) id l u ->
  op_ok k rs o l u.
Proof.
  intros k rs o id l u RI LV LV'. destruct (rhandler rs o) as [[rs' r]|] eqn:H.
  - unfold rstep in LV'. rewrite H in LV'. simpl in LV'. destruct (is_swap o) eqn:S.
    + unfold op_ok, rstep. rewrite H, S. destruct RI as [I [D _]]. eapply swap_op_wf; eassumption.
    + eapply static_op_ok; eassumption.
  - unfold op_ok, rstep. rewrite H. exact Logic.I.
Qed.

Lemma hist_ok_of_live : forall ops k rs id l u, RInv rs -> live_through rs ops id l u -> hist_ok k rs ops l u.
Proof.
  induction ops as [|o r IH]; intros k rs id l u RI LT; simpl; [exact Logic.I|]. destruct LT as [LV LT].
  split; [eapply op_ok_of_live; [exact RI|exact LV|eapply live_through_head; exact LT]|].
  eapply IH; [apply rinv_step; exact RI|exact LT].
Qed.

(* GROWTH_INSIDE_TELESCOPES, unconditional form: in any state satisfying the invariants (in particular any state reachable
   from a fresh pool), for every position that stays open through a history of operations - whatever else happens: swaps
   crossing its ticks in both directions, other positions created on or removed from the same ticks, claims, incentives,
   time - and for every accumulator component, the growth inside the position's range changes by exactly the per-unit
   growth that accrued while the current tick was inside the range *)
Theorem growth_inside_telescopes_live : forall ops k rs id l u, RInv rs -> live_through rs ops id l u ->
  a_inside (rview k (rrun rs ops)) l u = a_inside (rview k rs) l u + hist_growth k rs ops l u.
Proof.
  intros ops k rs id l u RI LT.
  destruct (has_range_tt_ok k rs l u RI (livep_has_range _ _ _ _ (live_through_head _ _ _ _ _ LT))) as [T Hlu].
  apply growth_inside_telescopes; [exact Hlu|exact T|eapply hist_ok_of_live; eassumption].
Qed.

Corollary growth_inside_telescopes_reachable : forall sp spf ssc isc users t pre ops k id l u,
  0 < sp -> 0 <= spf <= 500000000000000000 ->
  let rs := rrun (rinit sp spf ssc isc users t) pre in
  live_through rs ops id l u ->
  a_inside (rview k (rrun rs ops)) l u = a_inside (rview k rs) l u + hist_growth k rs ops l u.
Proof.
  intros sp spf ssc isc users t pre ops k id l u Hs Hf rs LT.
  apply (growth_inside_telescopes_live ops k rs id l u); [|exact LT].
  apply rinv_run. apply rinv_init; assumption.
Qed.
