(* C08: growth inside across ONE non-swap operation (the static half of growth_inside_telescopes). *)
From Coq Require Import ZArith List Bool Lia.
Import ListNotations.
From Osmo Require Import Base.DecModel CL.TickMath CL.CLMath CL.CLPool CL.CLSwap CL.CLStep
  CLR.Accum CLR.Rewards CLR.RSwap CLR.RStep C08.Telescope C08.View C08.Static C08.Stages C08.Ops.
Open Scope Z_scope.

Definition is_swap (o : rop) : bool :=
  match o with RBase (OSwapIn _ _ _ _) | RBase (OSwapOut _ _ _ _) => true | _ => false end.

(* the ticks whose trackers an operation initialises or removes (computed by running the model) *)
Definition touched_create (rs : rstate) (owner a0 a1 m0 m1 lo hi : Z) : list Z :=
  match r_create rs owner a0 a1 m0 m1 lo hi with
  | Some (_, c) => fresh (r_rw rs) (cr_lower c) ++ fresh (r_rw rs) (cr_upper c)
  | None => []
  end.
Definition touched_withdraw (rs : rstate) (owner id liq : Z) : list Z :=
  match r_withdraw rs owner id liq, pos_get (s_pos (r_base rs)) id with
  | Some (rs', _), Some q =>
      (fresh (r_rw rs) (ps_lower q) ++ fresh (r_rw rs) (ps_upper q))
      ++ removed (r_base rs') (ps_lower q) ++ removed (r_base rs') (ps_upper q)
  | _, _ => []
  end.
Definition touched (rs : rstate) (o : rop) : list Z :=
  match o with
  | RBase (OCreate owner a0 a1 m0 m1 lo hi) => touched_create rs owner a0 a1 m0 m1 lo hi
  | RBase (OWithdraw owner id liq) => touched_withdraw rs owner id liq
  | RBase (OAdd owner id a0 a1 m0 m1) =>
      match pos_get (s_pos (r_base rs)) id with
      | Some q =>
        match r_withdraw rs owner id (ps_liq q) with
        | Some (rs1, (w0, w1)) =>
            touched_withdraw rs owner id (ps_liq q)
            ++ touched_create rs1 owner (w0 + a0) (w1 + a1) (if m0 =? 0 then w0 else w0 + m0) (if m1 =? 0 then w1 else w1 + m1) (ps_lower q) (ps_upper q)
        | None => []
        end
      | None => []
      end
  | _ => []
  end.

(* every non-swap operation: a static evolution at the tick the operation runs at *)
Definition mid_tick_ok (rs : rstate) (o : rop) : Prop :=
  match o with
  | RBase (OAdd owner id _ _ _ _) =>
      forall q rs1 w, pos_get (s_pos (r_base rs)) id = Some q -> r_withdraw rs owner id (ps_liq q) = Some (rs1, w) ->
                      cur_tick rs1 = cur_tick rs
  | _ => True
  end.

Lemma op_static : forall k rs o rs' r, rhandler rs o = Some (rs', r) -> is_swap o = false ->
  cur_tick rs' = cur_tick rs -> mid_tick_ok rs o ->
  SE k (cur_tick rs) (touched rs o) (r_rw rs) (r_rw rs').
Proof.
  intros k rs o rs' r H NS CT MT. destruct o as [b|owner ids|owner ids|sender denom amount rate dt u]; simpl in H.
  - destruct b as [owner a0 a1 m0 m1 lo hi|owner id liq|owner id a0 a1 m0 m1|sender ids recipient|sender zfo amt mo|sender zfo amt mi|dt];
      simpl in NS; try discriminate NS.
    + (* create *) destruct (r_create rs owner a0 a1 m0 m1 lo hi) as [[rs1 c]|] eqn:E; [|discriminate H]. inversion H; subst.
      simpl. unfold touched_create. rewrite E. rewrite <- CT. eapply SE_create. exact E.
    + (* withdraw *) destruct (r_withdraw rs owner id liq) as [[rs1 [x0 x1]]|] eqn:E; [|discriminate H]. inversion H; subst.
      simpl. unfold touched_withdraw. rewrite E.
      destruct (pos_get (s_pos (r_base rs)) id) as [q|] eqn:Q.
      * eapply SE_withdraw; eassumption.
      * unfold r_withdraw in E. rewrite Q in E. destruct (withdraw_position _ _ _ _) as [[? ?]|]; discriminate E.
    + (* add *) destruct (r_add rs owner id a0 a1 m0 m1) as [[rs1 [[nid x0] x1]]|] eqn:E; [|discriminate H]. inversion H; subst.
      simpl. destruct (pos_get (s_pos (r_base rs)) id) as [q|] eqn:Q.
      * unfold r_add in E. rewrite Q in E.
        destruct (id <=? 0); [discriminate E|].
        destruct ((a0 <? 0) || (a1 <? 0) || (m0 <? 0) || (m1 <? 0)); [discriminate E|].
        destruct (negb (ps_owner q =? owner)); [discriminate E|].
        destruct ((a0 =? 0) && (a1 =? 0)); [discriminate E|].
        destruct (r_withdraw rs owner id (ps_liq q)) as [[rs2 [w0 w1]]|] eqn:EW; [|discriminate E].
        destruct (negb (pool_has_position (s_pool (r_base rs2)))); [discriminate E|].
        match type of E with (do c <- ?X; _) = _ => destruct X as [[rs3 cr]|] eqn:EC; [|discriminate E] end.
        inversion E; subst. simpl in MT. specialize (MT q rs2 (w0, w1) Q EW).
        pose proof (SE_withdraw k _ _ _ _ _ _ _ EW Q) as S1.
        pose proof (SE_create k _ _ _ _ _ _ _ _ _ _ EC) as S2. rewrite CT in S2.
        pose proof (SE_trans _ _ _ _ _ _ _ S1 S2) as S.
        unfold touched_withdraw, touched_create. rewrite EW, Q, EC. exact S.
      * unfold r_add in E. rewrite Q in E. destruct (id <=? 0); [discriminate E|].
        destruct ((a0 <? 0) || (a1 <? 0) || (m0 <? 0) || (m1 <? 0)); discriminate E.
    + (* transfer *) destruct (transfer_positions (r_base rs) sender ids recipient); [|discriminate H]. inversion H; subst. simpl. apply SE_refl.
    + (* time *) inversion H; subst. simpl. apply SE_refl.
  - destruct (r_collect_spread rs owner ids) as [[rs1 c]|] eqn:E; [|discriminate H]. inversion H; subst.
    simpl. unfold r_collect_spread in E. apply (SE_collect_spread_loop k _ _ _ _ _ _ E).
  - destruct (r_collect_inc rs owner ids) as [[rs1 [c f]]|] eqn:E; [|discriminate H]. inversion H; subst.
    simpl. unfold r_collect_inc in E. apply (SE_collect_inc_loop k _ _ _ _ _ _ _ E).
  - destruct (r_incentive rs sender denom amount rate dt u) as [rs1|] eqn:E; [|discriminate H]. inversion H; subst.
    simpl. apply (SE_incentive k _ _ _ _ _ _ _ _ E).
Qed.

Lemma vmap_sorted : forall k m, tm_sorted (vmap k m) <-> tm_sorted (vmap (CS false) m).
Proof.
  intros k m. induction m as [|[a t] m IH]; simpl; [split; constructor|].
  split; intro H; inversion H; subst; constructor; try (apply IH; assumption);
    clear - H2; induction m as [|[b t'] m IHm]; simpl in *; constructor; inversion H2; subst; auto.
Qed.

(* THE STATIC HALF OF growth_inside_telescopes: across a non-swap operation that leaves the current tick where it is and
   neither initialises nor removes ticks l and u, growth inside [l, u) of every accumulator component changes by the
   component's whole growth if l <= current tick < u, and not at all otherwise - exactly (no rounding) *)
Theorem op_inside_static : forall k rs o rs' r l u,
  rhandler rs o = Some (rs', r) -> is_swap o = false -> cur_tick rs' = cur_tick rs -> mid_tick_ok rs o ->
  l < u -> tm_sorted (vmap k (rw_tt (r_rw rs))) ->
  tt_get (rw_tt (r_rw rs)) l <> None -> tt_get (rw_tt (r_rw rs)) u <> None ->
  ~ In l (touched rs o) -> ~ In u (touched rs o) ->
  a_inside (rview k rs') l u =
    a_inside (rview k rs) l u
    + (if (l <=? cur_tick rs) && (cur_tick rs <? u) then sel_G k (r_rw rs') - sel_G k (r_rw rs) else 0).
Proof.
  intros k rs o rs' r l u H NS CT MT Hlu S Kl Ku Tl Tu.
  destruct (op_static k _ _ _ _ H NS CT MT) as [evs [A [B [C D]]]].
  unfold rview. rewrite CT, A.
  assert (Kl' : keys (view k (r_rw rs) (cur_tick rs) dc0) l).
  { unfold keys. simpl. rewrite vmap_get. destruct (tt_get (rw_tt (r_rw rs)) l); [discriminate|congruence]. }
  assert (Ku' : keys (view k (r_rw rs) (cur_tick rs) dc0) u).
  { unfold keys. simpl. rewrite vmap_get. destruct (tt_get (rw_tt (r_rw rs)) u); [discriminate|congruence]. }
  assert (S' : tm_sorted (a_O (view k (r_rw rs) (cur_tick rs) dc0))) by exact S.
  rewrite (static_inside evs _ l u Hlu S' Kl' Ku' B C (D l Tl) (D u Tu)).
  rewrite <- A. simpl. destruct (_ && _); [|reflexivity].
  assert (P0 : sel_pend k dc0 = 0) by (destruct k as [kd|ku kd]; simpl; [destruct kd; reflexivity|reflexivity]).
  rewrite P0. lia.
Qed.
