(* C08: modify_preserves_matured for spread rewards - a partial withdrawal leaves the amount of spread rewards the position can
   claim exactly unchanged: UpdatePosition moves the accrued amount (MulDec of growth inside since the snapshot) into the record's
   unclaimed rewards and resets the snapshot to the growth inside now. *)
From Coq Require Import ZArith List Bool Lia.
Import ListNotations.
From Osmo Require Import Base.DecModel CL.TickMath CL.CLMath CL.CLPool CL.CLSwap CL.CLStep
  CLR.Accum CLR.Rewards CLR.RSwap CLR.RStep C07.Base C07.TickLemmas C07.LP C07.Swap C07.Proofs C03.Steps
  C08.Proj C08.Telescope C08.View C08.Static C08.Stages C08.Ops C08.OpInside C08.SwapTrace C08.Crux
  C08.Claim C08.Conseq C08.Frame C08.Never C08.SwapWf C08.Dom C08.StaticOk C08.Paid C08.PaidOps C08.PaidSwap C08.PaidHist.
Open Scope Z_scope.

Lemma withdraw_partial_record : forall rs owner id liq rs' amts q r, RInv rs ->
  r_withdraw rs owner id liq = Some (rs', amts) -> pos_get (s_pos (r_base rs)) id = Some q -> liq <> ps_liq q ->
  acc_get (rw_spread (r_rw rs)) id = Some r -> 0 <= ar_shares r ->
  exists r2, acc_get (rw_spread (r_rw rs')) id = Some r2 /\ ar_shares r2 = ar_shares r - liq /\
    forall d, dsel d (ar_snap r2) = ins d (r_rw rs') (cur_tick rs') (ps_lower q) (ps_upper q) /\
      dsel d (ar_unclaimed r2) = dsel d (ar_unclaimed r)
        + d_mul (ins d (r_rw rs) (cur_tick rs) (ps_lower q) (ps_upper q) - dsel d (ar_snap r)) (ar_shares r).
Proof.
  intros rs owner id liq rs' amts q r RI H Q NF R SH0.
  pose proof (rinv_withdraw _ _ _ _ _ _ H RI) as RI'. pose proof RI as [I _]. pose proof RI' as [I' _].
  unfold r_withdraw in H.
  destruct (withdraw_position (r_base rs) owner id liq) as [[s amts']|] eqn:EB; [|discriminate H]. simpl in H.
  rewrite Q in H. simpl in H.
  assert (QIn : In q (s_pos (r_base rs))) by (eapply pos_get_in; exact Q).
  set (cur := p_tick (s_pool (r_base rs))) in *. set (pl := p_liq (s_pool (r_base rs))) in *. set (now := s_time (r_base rs)) in *.
  set (lo := ps_lower q) in *. set (hi := ps_upper q) in *.
  destruct (collect_incentives (s_bank s) (r_rw rs) cur pl now q) as [[[[[b1 w1] col] forf] byup]|] eqn:E1; [|discriminate H]. simpl in H.
  destruct (update_position_rewards w1 cur pl now lo hi id (ps_liq q - liq) (- liq)) as [w2|] eqn:E2; [|discriminate H]. simpl in H.
  match type of H with (do bw <- ?X; _) = _ => destruct X as [[b2 w3]|] eqn:E3; [|discriminate H] end. simpl in H.
  apply Z.eqb_neq in NF. rewrite NF in H. simpl in H. inversion H; subst rs' amts. clear H. simpl in RI', I'.
  destruct amts' as [x0 x1].
  destruct (withdraw_position_spec _ _ _ _ _ _ _ I EB) as [_ [_ [_ [_ [q' [Q' [_ [_ SP]]]]]]]].
  rewrite Q in Q'. inversion Q'; subst q'. clear Q'. rewrite NF in SP.
  destruct (PI_PT rs RI q QIn) as [Hlu TK]. fold lo hi in Hlu, TK.
  (* A *)
  pose proof (collect_incentives_tt _ _ _ _ _ _ _ _ _ _ _ E1) as TT1. pose proof (collect_incentives_spread _ _ _ _ _ _ _ _ _ _ _ E1) as SP1.
  destruct (stage_same cur _ _ [] TT1 SP1 (fun p (X : In p []) => match X with end)) as [_ [_ [_ INSA]]].
  destruct (INSA lo hi Hlu TK) as [TKA IA].
  (* B *)
  unfold update_position_rewards in E2.
  destruct (ensure_tick w1 cur pl now lo) as [w1a|] eqn:E2a; [|discriminate E2]. simpl in E2.
  destruct (ensure_tick w1a cur pl now hi) as [w1b|] eqn:E2b; [|discriminate E2]. simpl in E2.
  destruct (init_or_update_uptime w1b cur pl now lo hi id (ps_liq q - liq) (- liq)) as [w1c|] eqn:E2c; [|discriminate E2]. simpl in E2.
  destruct (upr_neutral _ _ _ _ _ _ _ _ _ _ _ _ [] E2a E2b E2c (fun p (X : In p []) => match X with end)) as [_ [_ [_ [SPB INSB]]]].
  destruct (INSB lo hi Hlu TKA) as [TKB IB].
  assert (RB : acc_get (rw_spread w1c) id = Some r) by (rewrite SPB, SP1; exact R).
  destruct (init_or_update_spread_gen _ _ _ _ _ _ _ _ E2 RB) as [insv [un [RA [HI [HU [TT2 [VV2 _]]]]]]].
  (* C *)
  assert (C3 : rw_tt w3 = rw_tt w2 /\ rw_spread w3 = rw_spread w2).
  { destruct (p_liq (s_pool s) <? P18).
    - destruct (send_inc_to_user b1 owner (fst forf) (snd forf)) as [bb|]; [|discriminate E3]. inversion E3; subst. auto.
    - destruct (redeposit_forfeited w2 byup (p_liq (s_pool s))) as [ww|] eqn:E; [|discriminate E3]. inversion E3; subst.
      split; [eapply redeposit_forfeited_tt; exact E|eapply redeposit_forfeited_spread; exact E]. }
  destruct C3 as [TT3 SP3].
  assert (TK2 : tks w2 lo hi) by (destruct TKB as [A [B0 C]]; unfold tks; rewrite TT2; auto).
  assert (I2 : forall d, ins d w2 cur lo hi = ins d w1c cur lo hi).
  { intro d. unfold ins. rewrite (view_same (CS d) w1c w2 cur dc0 TT2); [reflexivity|]. simpl. rewrite VV2. reflexivity. }
  destruct (stage_same cur _ _ [] TT3 SP3 (fun p (X : In p []) => match X with end)) as [_ [_ [_ INSC]]].
  destruct (INSC lo hi Hlu TK2) as [TKC IC].
  (* E: the ticks of the position are still in use, nothing is removed *)
  set (q2 := mkPos id owner lo hi (ps_liq q - liq) (ps_join q)) in *.
  assert (Q2In : In q2 (s_pos s)) by (rewrite SP; eapply pos_get_in; rewrite pos_get_set; simpl; rewrite Z.eqb_refl; reflexivity).
  assert (Is : Inv s) by (eapply inv_same_but_bank; [|exact I']; repeat split).
  assert (HR : has_range s lo hi) by (exists q2; auto).
  destruct (has_range_stored _ _ _ Is HR) as [A [B0 _]].
  assert (T2 : (match tick_get (s_ticks s) hi with
                | None => tt_remove (match tick_get (s_ticks s) lo with None => tt_remove (rw_tt w3) lo | Some _ => rw_tt w3 end) hi
                | Some _ => match tick_get (s_ticks s) lo with None => tt_remove (rw_tt w3) lo | Some _ => rw_tt w3 end end) = rw_tt w3).
  { destruct (tick_get (s_ticks s) lo); [|congruence]. destruct (tick_get (s_ticks s) hi); [reflexivity|congruence]. }
  fold lo hi. rewrite T2.
  assert (W5 : set_tt w3 (rw_tt w3) = w3) by (destruct w3; reflexivity). rewrite W5.
  assert (NE : s_pos s <> []) by (intro X; rewrite X in Q2In; destruct Q2In).
  assert (CT : cur_tick (mkRS (set_bank s b2) w3) = cur) by (unfold cur_tick; simpl; apply (withdraw_position_tick _ _ _ _ _ _ EB NE)).
  rewrite CT. change (cur_tick rs) with cur.
  exists (mkARec (ar_shares r + - liq) insv un). simpl. rewrite SP3. split; [exact RA|]. split; [lia|].
  intro d. split.
  - rewrite IC, I2. apply HI.
  - destruct (HU d) as [_ UN]. rewrite UN, IB, IA. reflexivity.
Qed.

(* MODIFY_PRESERVES_MATURED (spread rewards): the claimable amount before and after a partial withdrawal is the same *)
Theorem modify_preserves_matured_spread : forall rs owner id liq rs' amts q r c c', RInv rs ->
  r_withdraw rs owner id liq = Some (rs', amts) -> pos_get (s_pos (r_base rs)) id = Some q -> liq <> ps_liq q ->
  acc_get (rw_spread (r_rw rs)) id = Some r -> 0 <= ar_shares r ->
  claimable_spread rs id = Some c -> claimable_spread rs' id = Some c' -> c' = c.
Proof.
  intros rs owner id liq rs' amts q r c c' RI H Q NF R SH0 HC HC'.
  destruct (withdraw_partial_record _ _ _ _ _ _ _ _ RI H Q NF R SH0) as [r2 [R2 [SH2 HD]]].
  pose proof (r_withdraw_base _ _ _ _ _ _ H) as [s' [WB [PLS [_ [SPS _]]]]]. pose proof RI as [I _].
  destruct amts as [x0 x1]. destruct (withdraw_position_spec _ _ _ _ _ _ _ I WB) as [_ [_ [_ [_ [q' [Q' [_ [_ SP]]]]]]]].
  rewrite Q in Q'. inversion Q'; subst q'. clear Q'. apply Z.eqb_neq in NF. rewrite NF in SP.
  assert (Q2 : pos_get (s_pos (r_base rs')) id = Some (mkPos id owner (ps_lower q) (ps_upper q) (ps_liq q - liq) (ps_join q))).
  { rewrite SPS, SP, pos_get_set. simpl. rewrite Z.eqb_refl. reflexivity. }
  assert (SC : p_scaling (s_pool (r_base rs')) = p_scaling (s_pool (r_base rs))).
  { destruct (withdraw_position_misc _ _ _ _ _ _ WB) as [_ X]. rewrite PLS. exact X. }
  unfold claimable_spread in HC, HC'. rewrite Q in HC. rewrite Q2 in HC'. cbv beta iota in HC, HC'. simpl ps_lower in HC'. simpl ps_upper in HC'.
  rewrite SC in HC'.
  destruct (prepare_claimable_spread (r_rw rs) _ _ _ _ id) as [[w1 c1]|] eqn:E1; [|discriminate HC]. inversion HC; subst c1. clear HC.
  destruct (prepare_claimable_spread (r_rw rs') _ _ _ _ id) as [[w2 c2]|] eqn:E2; [|discriminate HC']. inversion HC'; subst c2. clear HC'.
  destruct (claimable_spread_formula _ _ _ _ _ _ _ _ E1) as [ra [RA FA]]. rewrite R in RA. inversion RA; subst ra. clear RA.
  destruct (claimable_spread_formula _ _ _ _ _ _ _ _ E2) as [rb [RB FB]]. rewrite R2 in RB. inversion RB; subst rb. clear RB.
  assert (EQ : forall d, pr_sel d c' = pr_sel d c).
  { intro d. destruct (FA d) as [_ CA]. destruct (FB d) as [_ CB]. destruct (HD d) as [SN UN].
    rewrite CA, CB. unfold ins, cur_tick in SN, UN. rewrite SN, Z.sub_diag, UN. unfold claim_scaled. rewrite d_mul_zero, Z.add_0_r. reflexivity. }
  pose proof (EQ false) as E0. pose proof (EQ true) as E1'. simpl in E0, E1'. destruct c, c'. simpl in *. congruence.
Qed.

Theorem modify_preserves_matured_reachable : forall sp spf ssc isc users t ops owner id liq rs' amts q c c',
  0 < sp -> 0 <= spf <= 500000000000000000 -> 0 < ssc ->
  let rs := rrun (rinit sp spf ssc isc users t) ops in
  r_withdraw rs owner id liq = Some (rs', amts) -> pos_get (s_pos (r_base rs)) id = Some q -> liq <> ps_liq q ->
  claimable_spread rs id = Some c -> claimable_spread rs' id = Some c' -> c' = c.
Proof.
  intros sp spf ssc isc users t ops owner id liq rs' amts q c c' Hsp Hspf Hssc rs H Q NF HC HC'.
  destruct (C08.PaidHist.PI_init sp spf ssc isc users t Hsp Hspf) as [P0 _].
  destruct (C08.PaidHist.paid_run ops _ P0 Hssc) as [[RI [RM _]] _]. fold rs in RI, RM.
  assert (QIn : In q (s_pos (r_base rs))) by (eapply pos_get_in; exact Q).
  destruct (RM q QIn) as [r [R SH]]. rewrite (pos_get_id _ _ _ Q) in R.
  assert (S0 : 0 <= ar_shares r).
  { rewrite SH. destruct RI as [I _]. pose proof (inv_pos_ok _ I) as F. rewrite Forall_forall in F. destruct (F q QIn) as [_ [X _]]. lia. }
  exact (modify_preserves_matured_spread rs owner id liq rs' amts q r c c' RI H Q NF R S0 HC HC').
Qed.
