(* C08: the SIGN conditions of an incentive claim are invariants of reachable states (the uptime-accumulator counterpart of
   C08/ClaimInv.v).  For every supported uptime u and denomination d:
   TBk (CU u d): every stored uptime growth-outside tracker lies in [0, value of the u-th uptime accumulator];
   srecU: the snapshot of every open position's record in the u-th accumulator lies in [- value, growth inside its range].
   The uptime accumulators only grow: accrual (updateGivenPoolUptimeAccumulatorsToNow) adds emission / liquidity >= 0, the
   re-deposit of forfeited incentives adds forfeited / liquidity >= 0. *)
From Coq Require Import ZArith List Bool Lia.
Import ListNotations.
From Osmo Require Import Base.DecModel CL.TickMath CL.CLMath CL.CLPool CL.CLSwap CL.CLStep
  CLR.Accum CLR.Rewards CLR.RSwap CLR.RStep C07.Base C07.TickLemmas C07.LP C07.SwapDir C07.Swap C07.Proofs C03.Rounding C03.Steps C03.Path
  C08.Proj C08.Telescope C08.View C08.Static C08.Stages C08.Ops C08.OpInside C08.SwapTrace C08.Crux C08.Claim C08.Conseq C08.Frame
  C08.Never C08.SwapWf C08.Dom C08.StaticOk C08.Final C08.Paid C08.PaidOps C08.PaidSwap C08.PaidHist C08.Twins
  C08.IncAcc C08.Inc C08.IncList C08.IncStage C08.IncOps C08.IncSwap C08.IncHist C08.UpNever C08.ClaimOk C08.ClaimInv.
Open Scope Z_scope.

(* ---------- trackers of one component within [0, G] ---------- *)
Definition TBk (k : comp) (w : rwd) : Prop :=
  0 <= sel_G k w /\ forall i o, tm_get (vmap k (rw_tt w)) i = Some o -> 0 <= o <= sel_G k w.
Definition TBU (w : rwd) : Prop := forall u d, TBk (CU u d) w.
Definition GmonoU (w w' : rwd) : Prop := forall u d, sel_G (CU u d) w <= sel_G (CU u d) w'.
Lemma GmonoU_refl : forall w, GmonoU w w. Proof. intros w u d. lia. Qed.
Lemma GmonoU_trans : forall a b c, GmonoU a b -> GmonoU b c -> GmonoU a c.
Proof. intros a b c H1 H2 u d. specialize (H1 u d). specialize (H2 u d). lia. Qed.
Lemma GmonoU_same : forall w w', rw_up w' = rw_up w -> GmonoU w w'. Proof. intros w w' E u d. simpl. rewrite E. lia. Qed.

Lemma TBk_view : forall k w cur, TBk k w <-> 0 <= a_G (view k w cur dc0) /\ trackers_bounded (view k w cur dc0).
Proof.
  intros k w cur. unfold TBk, trackers_bounded. rewrite view_G. split; intros [A B]; (split; [exact A|]); intros i o E.
  - exact (B i o E).
  - exact (B i o E).
Qed.
Lemma TBk_read : forall k w cur i, TBk k w -> 0 <= a_read (view k w cur dc0) i <= a_G (view k w cur dc0).
Proof.
  intros k w cur i [A B]. unfold a_read, a_init_val. rewrite !view_G. unfold view. cbn [a_O a_c].
  destruct (tm_get (vmap k (rw_tt w)) i) as [o|] eqn:E; [exact (B i o E)|]. destruct (i <=? cur); lia.
Qed.
Lemma TBk_ins : forall k w cur l u, TBk k w -> - sel_G k w <= a_inside (view k w cur dc0) l u <= sel_G k w.
Proof. intros k w cur l u H. rewrite <- (view_G k w cur). apply inside_bounds; apply TBk_read; exact H. Qed.
Lemma TBk_same : forall k w w', rw_tt w' = rw_tt w -> sel_G k w <= sel_G k w' -> TBk k w -> TBk k w'.
Proof. intros k w w' T G [A B]. split; [lia|]. intros i o E. rewrite T in E. specialize (B i o E). lia. Qed.
Lemma TBk_run : forall k w w' cur evs, view k w' cur dc0 = a_run (view k w cur dc0) evs -> Forall ev_nonneg evs -> tt_sorted w ->
  TBk k w -> TBk k w'.
Proof.
  intros k w w' cur evs V N St H. apply (TBk_view k w' cur). rewrite V. destruct (proj1 (TBk_view k w cur) H) as [A B].
  assert (S' : tm_sorted (a_O (view k w cur dc0))) by (simpl; eapply vmap_sorted_any; exact St).
  destruct (a_run_bounded evs _ S' A B N) as [B' A']. split; assumption.
Qed.
Lemma TBk_remove : forall k w i, tt_sorted w -> TBk k w -> TBk k (set_tt w (tt_remove (rw_tt w) i)).
Proof.
  intros k w i St [A B]. split; [destruct k; exact A|]. intros j o E. simpl in E. rewrite vmap_remove in E.
  rewrite tm_get_remove in E by (eapply vmap_sorted_any; exact St). destruct (j =? i); [discriminate E|].
  specialize (B j o E). destruct k; exact B.
Qed.

(* ---------- the well-formedness facts the accrual needs ---------- *)
Definition WOK (w : rwd) : Prop := recs_ok (rw_recs w) /\ 0 < rw_inc_scaling w /\ length (rw_up w) = NU.

Lemma update_uptime_U : forall w liq now w', update_uptime w liq now = Some w' -> WOK w ->
  WOK w' /\ rw_tt w' = rw_tt w /\ rw_spread w' = rw_spread w /\ GmonoU w w' /\
  (forall u j, acc_get (acc_u u w') j = acc_get (acc_u u w) j).
Proof.
  intros w liq now w' H [OK [Hi LN]].
  destruct (update_uptime_spec _ _ _ _ false H OK Hi) as [TT [SS [IS [LL [_ [_ [OK' _]]]]]]].
  split; [split; [exact OK'|]; split; [rewrite IS; exact Hi|rewrite LL; exact LN]|]. split; [exact TT|]. split; [exact SS|].
  split; [|apply (update_uptime_urecs _ _ _ _ H)].
  intros u d. destruct (update_uptime_spec _ _ _ _ d H OK Hi) as [_ [_ [_ [_ [F _]]]]]. destruct (F u) as [_ [_ G]]. lia.
Qed.

Lemma ensure_tick_U : forall w cur liq now i w', ensure_tick w cur liq now i = Some w' -> WOK w -> tt_sorted w -> TBU w ->
  WOK w' /\ TBU w' /\ GmonoU w w' /\ tt_sorted w'.
Proof.
  intros w cur liq now i w' E WK St TB.
  assert (X : WOK w' /\ GmonoU w w').
  { unfold ensure_tick in E. destruct (tt_get (rw_tt w) i); [inversion E; subst; split; [exact WK|apply GmonoU_refl]|].
    destruct (update_uptime w liq now) as [w1|] eqn:EU; [|discriminate E]. inversion E; subst.
    destruct (update_uptime_U _ _ _ _ EU WK) as [WK1 [_ [_ [GM _]]]]. split; [exact WK1|exact GM]. }
  destruct X as [WK' GM]. split; [exact WK'|]. split; [|split; [exact GM|apply (SE_sorted cur _ _ _ (SE_ensure_tick (CS false) _ _ _ _ _ _ E) St)]].
  intros u d. pose proof (ensure_tick_view (CU u d) _ _ _ _ _ _ E) as V. specialize (GM u d).
  destruct (tt_get (rw_tt w) i).
  - apply (TBk_run _ w w' cur [] V); [constructor|exact St|apply TB].
  - apply (TBk_run _ w w' cur _ V); [|exact St|apply TB]. constructor; [cbn [ev_nonneg]; lia|]. constructor; [exact I|constructor].
Qed.

(* ---------- the uptime records of one position ---------- *)
Definition srecU (w : rwd) (cur id l h : Z) : Prop :=
  forall u d r, (u < NU)%nat -> acc_get (acc_u u w) id = Some r ->
    - sel_G (CU u d) w <= dsel d (ar_snap r) <= insU u d w cur l h.

Lemma srecU_SE : forall cur T w w' id l h, (forall u d, SE (CU u d) cur T w w') -> l < h -> tks w l h -> ~ In l T -> ~ In h T ->
  GmonoU w w' -> (forall u, acc_get (acc_u u w') id = acc_get (acc_u u w) id) ->
  srecU w cur id l h -> srecU w' cur id l h /\ tks w' l h.
Proof.
  intros cur T w w' id l h HSE Hlh TK Tl Th GM RG Z. split.
  - intros u d r Hu R. rewrite RG in R. destruct (Z u d r Hu R) as [A B]. specialize (GM u d).
    destruct (SE_inside_gen (CU u d) cur T w w' l h (HSE u d) Hlh TK Tl Th) as [E _]. unfold insU in *. rewrite E.
    destruct (in_rng l h cur); lia.
  - apply (SE_inside_gen (CU O false) cur T w w' l h (HSE O false) Hlh TK Tl Th).
Qed.

(* ---------- the snapshots the list operations leave behind ---------- *)
Lemma claim_uptimes_snap : forall id age isc ups outs uts ups' col forf byup,
  claim_uptimes ups outs uts id age isc = Some (ups', col, forf, byup) ->
  forall u r, acc_get (nth u ups acc_empty) id = Some r -> ar_shares r <> 0 ->
    exists insv, dc_safe_sub (ac_value (nth u ups acc_empty)) (nth u outs dc0) = Some insv /\
                 acc_get (nth u ups' acc_empty) id = Some (mkARec (ar_shares r) insv dc0).
Proof.
  intros id age isc. induction ups as [|a ups IH]; intros outs uts ups' col forf byup H u r R NZ.
  - destruct u; simpl in R; discriminate R.
  - destruct outs as [|o outs]; [simpl in H; discriminate H|]. destruct uts as [|ut uts]; [simpl in H; discriminate H|].
    cbn [claim_uptimes] in H.
    destruct (claim_uptimes ups outs uts id age isc) as [[[[ar col0] forf0] byup0]|] eqn:ER; [|discriminate H]. cbv beta iota in H.
    destruct (acc_has a id) eqn:EH.
    + destruct (update_accum_and_claim a id o) as [[[a' scaled] dust]|] eqn:EU; [|discriminate H]. cbv beta iota in H.
      destruct (scale_down2 scaled isc) as [coins|]; [|discriminate H]. cbv beta iota in H.
      assert (UPS : ups' = a' :: ar) by (destruct (age <? ut); inversion H; reflexivity). subst ups'.
      destruct u as [|u]; cbn [nth] in *.
      * destruct (uac_full _ _ _ _ _ _ _ EU R) as [_ [_ [_ [RA _]]]]. exact (RA NZ).
      * exact (IH _ _ _ _ _ _ ER u r R NZ).
    + inversion H; subst. destruct u as [|u]; cbn [nth] in *.
      * unfold acc_has in EH. rewrite R in EH. discriminate EH.
      * exact (IH _ _ _ _ _ _ ER u r R NZ).
Qed.

Lemma upd_uptime_accs_snap : forall id liquidity delta ups ins outs ups',
  upd_uptime_accs ups ins outs id liquidity delta = Some ups' ->
  forall u, (u < length ups)%nat ->
    (forall r, acc_get (nth u ups acc_empty) id = Some r -> exists un, acc_get (nth u ups' acc_empty) id = Some (mkARec (ar_shares r + delta) (nth u ins dc0) un)) /\
    (acc_get (nth u ups acc_empty) id = None -> acc_get (nth u ups' acc_empty) id = Some (mkARec liquidity (nth u ins dc0) dc0)).
Proof.
  intros id liquidity delta. induction ups as [|a ups IH]; intros ins outs ups' H u Hu; [simpl in Hu; lia|].
  destruct ins as [|i ins]; [simpl in H; discriminate H|]. destruct outs as [|o outs]; [simpl in H; discriminate H|].
  cbn [upd_uptime_accs] in H.
  match type of H with (do a' <- ?X; _) = _ => destruct X as [a'|] eqn:EA; [|discriminate H] end. cbv beta iota in H.
  destruct (upd_uptime_accs ups ins outs id liquidity delta) as [r0|] eqn:ER; [|discriminate H]. inversion H; subst ups'. clear H.
  destruct u as [|u]; cbn [nth].
  - unfold acc_has in EA. destruct (acc_get a id) as [r|] eqn:R; cbn [negb] in EA.
    + destruct (to_init_plus_outside a id o) as [a1|] eqn:E1; [|discriminate EA]. cbv beta iota in EA.
      destruct (upd_existing _ _ _ _ _ _ _ _ E1 EA R) as [_ [_ [_ [un [RA _]]]]].
      split; [intros r1 R1; inversion R1; subst r1; exists un; exact RA|intro X; discriminate X].
    + destruct (negb (0 <? delta)); [discriminate EA|]. destruct (new_position_rec _ _ _ _ _ EA) as [_ [_ [_ RA]]].
      split; [intros r1 R1; discriminate R1|intros _; exact RA].
  - apply (IH _ _ _ ER u). simpl in Hu. lia.
Qed.

Lemma claim_uptimes_values : forall id age isc ups outs uts ups' col forf byup,
  claim_uptimes ups outs uts id age isc = Some (ups', col, forf, byup) ->
  length ups' = length ups /\
  forall u, ac_value (nth u ups' acc_empty) = ac_value (nth u ups acc_empty) /\
            (acc_get (nth u ups acc_empty) id = None -> acc_get (nth u ups' acc_empty) id = None).
Proof.
  intros id age isc. induction ups as [|a ups IH]; intros outs uts ups' col forf byup H.
  - destruct outs; destruct uts; simpl in H; try discriminate H. inversion H; subst. split; [reflexivity|]. intro u. split; [reflexivity|auto].
  - destruct outs as [|o outs]; [simpl in H; discriminate H|]. destruct uts as [|ut uts]; [simpl in H; discriminate H|].
    cbn [claim_uptimes] in H.
    destruct (claim_uptimes ups outs uts id age isc) as [[[[ar col0] forf0] byup0]|] eqn:ER; [|discriminate H]. cbv beta iota in H.
    destruct (IH _ _ _ _ _ _ ER) as [L V].
    destruct (acc_has a id) eqn:EH.
    + destruct (update_accum_and_claim a id o) as [[[a' scaled] dust]|] eqn:EU; [|discriminate H]. cbv beta iota in H.
      destruct (scale_down2 scaled isc) as [coins|]; [|discriminate H]. cbv beta iota in H.
      assert (UPS : ups' = a' :: ar) by (destruct (age <? ut); inversion H; reflexivity). subst ups'.
      split; [simpl; rewrite L; reflexivity|]. intros [|u]; cbn [nth]; [|apply V].
      split; [eapply update_accum_and_claim_value; exact EU|]. intro X. unfold acc_has in EH. rewrite X in EH. discriminate EH.
    + inversion H; subst. split; [simpl; rewrite L; reflexivity|]. intros [|u]; cbn [nth]; [split; [reflexivity|auto]|apply V].
Qed.

Lemma upd_uptime_accs_values : forall id liquidity delta ups ins outs ups',
  upd_uptime_accs ups ins outs id liquidity delta = Some ups' ->
  length ups' = length ups /\ length ins = length ups /\ forall u, ac_value (nth u ups' acc_empty) = ac_value (nth u ups acc_empty).
Proof.
  intros id liquidity delta. induction ups as [|a ups IH]; intros ins outs ups' H.
  - destruct ins; destruct outs; simpl in H; try discriminate H. inversion H; subst. split; [reflexivity|]. split; [reflexivity|]. intro u. reflexivity.
  - destruct ins as [|i ins]; [simpl in H; discriminate H|]. destruct outs as [|o outs]; [simpl in H; discriminate H|].
    cbn [upd_uptime_accs] in H.
    match type of H with (do a' <- ?X; _) = _ => destruct X as [a'|] eqn:EA; [|discriminate H] end. cbv beta iota in H.
    destruct (upd_uptime_accs ups ins outs id liquidity delta) as [r0|] eqn:ER; [|discriminate H]. inversion H; subst ups'. clear H.
    destruct (IH _ _ _ ER) as [L [LI V]]. split; [simpl; rewrite L; reflexivity|]. split; [simpl; rewrite LI; reflexivity|].
    intros [|u]; cbn [nth]; [|apply V].
    destruct (negb (acc_has a id)).
    + destruct (negb (0 <? delta)); [discriminate EA|]. eapply acc_new_position_value. exact EA.
    + destruct (to_init_plus_outside a id o) as [a1|] eqn:E1; [|discriminate EA]. cbv beta iota in EA.
      rewrite (acc_update_position_value _ _ _ _ _ EA). eapply to_init_plus_outside_value. exact E1.
Qed.

Lemma set_up_view : forall k w ups cur, (forall v, ac_value (nth v ups acc_empty) = ac_value (nth v (rw_up w) acc_empty)) ->
  view k (set_up w ups) cur dc0 = view k w cur dc0.
Proof.
  intros k w ups cur V. apply view_same; [reflexivity|]. destruct k as [d|u d]; [reflexivity|].
  change (sel_G (CU u d) (set_up w ups)) with (dsel d (nth u (map ac_value ups) dc0)).
  change (sel_G (CU u d) w) with (dsel d (nth u (map ac_value (rw_up w)) dc0)).
  change dc0 with (ac_value acc_empty). rewrite !map_nth. rewrite V. reflexivity.
Qed.

(* ---------- prepareClaimAllIncentivesForPosition ---------- *)
Lemma claimI_U : forall w cur pl now lo hi id join w' col forf byup,
  prepare_claim_all_incentives w cur pl now lo hi id join = Some (w', col, forf, byup) -> WOK w -> TBU w -> lo < hi ->
  WOK w' /\ TBU w' /\ GmonoU w w' /\ rw_tt w' = rw_tt w /\ rw_spread w' = rw_spread w /\
  (forall u j, j <> id -> acc_get (acc_u u w') j = acc_get (acc_u u w) j) /\
  ((forall u r, acc_get (acc_u u w) id = Some r -> ar_shares r <> 0) -> srecU w' cur id lo hi) /\
  (forall d u, 0 <= pr_sel d (nth u byup (0, 0))).
Proof.
  intros w cur pl now lo hi id join w' col forf byup H WK TB Hlh.
  pose proof (prepare_claim_all_incentives_uother _ _ _ _ _ _ _ _ _ _ _ _ H) as OTH.
  unfold prepare_claim_all_incentives in H.
  destruct (update_uptime w pl now) as [w1|] eqn:E1; [|discriminate H]. cbv beta iota in H.
  destruct ((now - join) * 1000000000 <? 0); [discriminate H|].
  destruct (uptime_growth_outside w1 cur lo hi) as [outs|] eqn:EO; [|discriminate H]. cbv beta iota in H.
  destruct (claim_uptimes (rw_up w1) outs uptimes_ns id ((now - join) * 1000000000) (rw_inc_scaling w1)) as [[[[ups c1] f1] b1]|] eqn:EC; [|discriminate H].
  inversion H; subst w' col forf byup. clear H.
  destruct (update_uptime_U _ _ _ _ E1 WK) as [[OK1 [Hi1 LN1]] [T1 [S1 [GM1 R1]]]].
  destruct (claim_uptimes_values _ _ _ _ _ _ _ _ _ _ EC) as [LU VU].
  assert (VW : forall k, view k (set_up w1 ups) cur dc0 = view k w1 cur dc0) by (intro k; apply set_up_view; intro v; apply VU).
  assert (SG : forall k, sel_G k (set_up w1 ups) = sel_G k w1) by (intro k; rewrite <- (view_G k _ cur), VW, view_G; reflexivity).
  assert (TB1 : TBU w1) by (intros u d; apply (TBk_same _ w w1 T1 (GM1 u d) (TB u d))).
  split; [split; [exact OK1|]; split; [exact Hi1|simpl; rewrite LU; exact LN1]|].
  split; [intros u d; apply (TBk_same (CU u d) w1 (set_up w1 ups) eq_refl); [rewrite SG; lia|apply TB1]|].
  split; [intros u d; rewrite SG; apply GM1|]. split; [exact T1|]. split; [exact S1|]. split; [exact OTH|].
  split; [|intros d u; eapply claim_uptimes_byup_nonneg; exact EC].
  intros SHN u d r' Hu R'. unfold insU. rewrite SG, VW.
  change (acc_u u (set_up w1 ups)) with (nth u ups acc_empty) in R'.
  destruct (acc_get (nth u (rw_up w1) acc_empty) id) as [r|] eqn:R.
  - assert (NZ : ar_shares r <> 0) by (apply (SHN u r); rewrite <- (R1 u id); exact R).
    destruct (claim_uptimes_snap _ _ _ _ _ _ _ _ _ _ EC u r R NZ) as [insv [EI RA]]. rewrite RA in R'. inversion R'; subst r'. cbn [ar_snap].
    destruct (outs_view d _ _ _ _ _ EO Hlh) as [_ OV]. specialize (OV u ltac:(rewrite LN1; exact Hu)).
    rewrite (dsel_safe_sub d _ _ _ EI). unfold acc_u, insU in OV. rewrite OV.
    pose proof (TBk_ins (CU u d) w1 cur lo hi (TB1 u d)). lia.
  - rewrite (proj2 (VU u) R) in R'. discriminate R'.
Qed.

(* ---------- initOrUpdatePositionUptimeAccumulators ---------- *)
Lemma updU_U : forall w cur pl now lo hi id liquidity delta w',
  init_or_update_uptime w cur pl now lo hi id liquidity delta = Some w' -> WOK w -> TBU w -> lo < hi ->
  WOK w' /\ TBU w' /\ GmonoU w w' /\ rw_tt w' = rw_tt w /\ rw_spread w' = rw_spread w /\
  (forall u j, j <> id -> acc_get (acc_u u w') j = acc_get (acc_u u w) j) /\ srecU w' cur id lo hi.
Proof.
  intros w cur pl now lo hi id liquidity delta w' H WK TB Hlh.
  pose proof (init_or_update_uptime_uother _ _ _ _ _ _ _ _ _ _ H) as OTH.
  unfold init_or_update_uptime in H.
  destruct (update_uptime w pl now) as [w1|] eqn:E1; [|discriminate H]. cbv beta iota in H.
  destruct (uptime_growth_inside w1 cur lo hi) as [ins|] eqn:EI; [|discriminate H]. cbv beta iota in H.
  destruct (uptime_growth_outside w1 cur lo hi) as [outs|] eqn:EO; [|discriminate H]. cbv beta iota in H.
  destruct (upd_uptime_accs (rw_up w1) ins outs id liquidity delta) as [ups|] eqn:EU; [|discriminate H]. inversion H; subst w'. clear H.
  destruct (update_uptime_U _ _ _ _ E1 WK) as [[OK1 [Hi1 LN1]] [T1 [S1 [GM1 R1]]]].
  destruct (upd_uptime_accs_values _ _ _ _ _ _ _ EU) as [LU [_ VU]].
  assert (VW : forall k, view k (set_up w1 ups) cur dc0 = view k w1 cur dc0) by (intro k; apply set_up_view; intro v; apply VU).
  assert (SG : forall k, sel_G k (set_up w1 ups) = sel_G k w1) by (intro k; rewrite <- (view_G k _ cur), VW, view_G; reflexivity).
  assert (TB1 : TBU w1) by (intros u d; apply (TBk_same _ w w1 T1 (GM1 u d) (TB u d))).
  split; [split; [exact OK1|]; split; [exact Hi1|simpl; rewrite LU; exact LN1]|].
  split; [intros u d; apply (TBk_same (CU u d) w1 (set_up w1 ups) eq_refl); [rewrite SG; lia|apply TB1]|].
  split; [intros u d; rewrite SG; apply GM1|]. split; [exact T1|]. split; [exact S1|]. split; [exact OTH|].
  intros u d r' Hu R'. unfold insU. rewrite SG, VW.
  change (acc_u u (set_up w1 ups)) with (nth u ups acc_empty) in R'.
  assert (Hu1 : (u < length (rw_up w1))%nat) by (rewrite LN1; exact Hu).
  assert (SN : ar_snap r' = nth u ins dc0).
  { destruct (upd_uptime_accs_snap _ _ _ _ _ _ _ EU u Hu1) as [A B].
    destruct (acc_get (nth u (rw_up w1) acc_empty) id) as [r|] eqn:R.
    - destruct (A r eq_refl) as [un RA]. rewrite RA in R'. inversion R'; reflexivity.
    - rewrite (B eq_refl) in R'. inversion R'; reflexivity. }
  rewrite SN, (uptime_growth_inside_view u d w1 cur lo hi ins Hlh Hu1 EI).
  pose proof (TBk_ins (CU u d) w1 cur lo hi (TB1 u d)). lia.
Qed.

(* ---------- redepositForfeitedIncentives ---------- *)
Lemma redeposit_U : forall w byup liq w', redeposit_forfeited w byup liq = Some w' -> 0 < liq ->
  (forall d u, 0 <= pr_sel d (nth u byup (0, 0))) -> WOK w -> TBU w ->
  WOK w' /\ TBU w' /\ GmonoU w w' /\ rw_tt w' = rw_tt w /\ rw_spread w' = rw_spread w /\
  (forall u j, acc_get (acc_u u w') j = acc_get (acc_u u w) j).
Proof.
  intros w byup liq w' H Hl NN [OK [Hi LN]] TB.
  pose proof (redeposit_forfeited_urecs _ _ _ _ H) as RC. pose proof (redeposit_forfeited_tt _ _ _ _ H) as TT.
  pose proof (redeposit_forfeited_spread _ _ _ _ H) as SS.
  unfold redeposit_forfeited in H. destruct (redeposit_accs (rw_up w) byup liq) as [ups|] eqn:E; [|discriminate H]. inversion H; subst w'. clear H.
  assert (GM : GmonoU w (set_up w ups)).
  { intros u d. destruct (redeposit_accs_spec d _ _ _ _ E Hl (NN d)) as [_ [F _]]. destruct (F u) as [_ G].
    rewrite !sel_G_CU. unfold acc_u. simpl. lia. }
  destruct (redeposit_accs_spec false _ _ _ _ E Hl (NN false)) as [LL _].
  split; [split; [exact OK|]; split; [exact Hi|simpl; rewrite LL; exact LN]|].
  split; [intros u d; apply (TBk_same (CU u d) w (set_up w ups) eq_refl (GM u d) (TB u d))|].
  split; [exact GM|]. split; [exact TT|]. split; [exact SS|exact RC].
Qed.

Lemma ensure_tick_U_recs : forall w cur liq now i w', ensure_tick w cur liq now i = Some w' -> WOK w -> tt_sorted w -> TBU w ->
  WOK w' /\ TBU w' /\ GmonoU w w' /\ tt_sorted w' /\ (forall u j, acc_get (acc_u u w') j = acc_get (acc_u u w) j).
Proof.
  intros w cur liq now i w' E WK St TB. destruct (ensure_tick_U _ _ _ _ _ _ E WK St TB) as [A [B [C D]]].
  split; [exact A|]. split; [exact B|]. split; [exact C|]. split; [exact D|]. apply (ensure_tick_urecs _ _ _ _ _ _ E).
Qed.

(* ---------- UpdatePosition, reward side ---------- *)
Lemma upr_U : forall w cur pl now lo hi id' liq delta w',
  update_position_rewards w cur pl now lo hi id' liq delta = Some w' -> WOK w -> tt_sorted w -> TBU w -> lo < hi ->
  WOK w' /\ TBU w' /\ GmonoU w w' /\ tt_sorted w' /\
  (forall u j, j <> id' -> acc_get (acc_u u w') j = acc_get (acc_u u w) j) /\ srecU w' cur id' lo hi.
Proof.
  unfold update_position_rewards. intros w cur pl now lo hi id' liq delta w' H WK St TB Hlh.
  destruct (ensure_tick w cur pl now lo) as [w1|] eqn:E1; [|discriminate H]. simpl in H.
  destruct (ensure_tick w1 cur pl now hi) as [w2|] eqn:E2; [|discriminate H]. simpl in H.
  destruct (init_or_update_uptime w2 cur pl now lo hi id' liq delta) as [w3|] eqn:E3; [|discriminate H]. simpl in H.
  destruct (ensure_tick_U_recs _ _ _ _ _ _ E1 WK St TB) as [WK1 [TB1 [GM1 [St1 R1]]]].
  destruct (ensure_tick_U_recs _ _ _ _ _ _ E2 WK1 St1 TB1) as [WK2 [TB2 [GM2 [St2 R2]]]].
  destruct (updU_U _ _ _ _ _ _ _ _ _ _ E3 WK2 TB2 Hlh) as [WK3 [TB3 [GM3 [T3 [_ [R3 Z3]]]]]].
  pose proof (init_or_update_spread_tt _ _ _ _ _ _ _ H) as T4. pose proof (init_or_update_spread_up _ _ _ _ _ _ _ H) as U4.
  assert (VW : forall k, (match k with CS _ => False | CU _ _ => True end) -> view k w' cur dc0 = view k w3 cur dc0).
  { intros [d|u d] X; [destruct X|]. apply view_same; [exact T4|]. simpl. rewrite U4. reflexivity. }
  assert (SG : forall u d, sel_G (CU u d) w' = sel_G (CU u d) w3) by (intros u d; simpl; rewrite U4; reflexivity).
  assert (IRS : rw_recs w' = rw_recs w3 /\ rw_inc_scaling w' = rw_inc_scaling w3).
  { unfold init_or_update_spread in H. obind H. destruct (negb (acc_has (rw_spread w3) id')); obind H; inversion H; split; reflexivity. }
  destruct IRS as [RR IS]. destruct WK3 as [OK3 [Hi3 LN3]].
  split; [split; [rewrite RR; exact OK3|]; split; [rewrite IS; exact Hi3|rewrite U4; exact LN3]|].
  split; [intros u d; apply (TBk_same (CU u d) w3 w' T4); [rewrite SG; lia|apply TB3]|].
  split; [intros u d; rewrite SG; specialize (GM1 u d); specialize (GM2 u d); specialize (GM3 u d); lia|].
  split; [unfold tt_sorted in *; rewrite T4, T3; exact St2|].
  split.
  - intros u j NE. unfold acc_u at 1. rewrite U4. fold (acc_u u w3). rewrite (R3 u j NE), R2, R1. reflexivity.
  - intros u d r Hu R. unfold acc_u in R. rewrite U4 in R. unfold insU. rewrite SG, (VW (CU u d) I). apply (Z3 u d r Hu R).
Qed.

Lemma prepare_claimable_spread_upfields : forall w sc cur l u id w' c, prepare_claimable_spread w sc cur l u id = Some (w', c) ->
  rw_up w' = rw_up w /\ rw_tt w' = rw_tt w /\ rw_recs w' = rw_recs w /\ rw_inc_scaling w' = rw_inc_scaling w.
Proof.
  unfold prepare_claimable_spread. intros w sc cur l u id w' c H.
  destruct (negb (acc_has (rw_spread w) id)); [discriminate H|].
  destruct (spread_growth_outside w cur l u) as [out|]; [|discriminate H]. simpl in H.
  destruct (update_accum_and_claim (rw_spread w) id out) as [[[a1 cs] dust]|]; [|discriminate H]. simpl in H.
  match type of H with (do cd <- ?X; _) = _ => destruct X as [[cl du]|]; [|discriminate H] end. simpl in H.
  match type of H with (do a2 <- ?X; _) = _ => destruct X as [a2|]; [|discriminate H] end. simpl in H.
  inversion H; subst. simpl. auto.
Qed.

(* ---------- operations ---------- *)
Lemma PII_WOK : forall rs, PII rs -> WOK (r_rw rs).
Proof. intros rs [_ [[OK [Hi [LN _]]] _]]. split; [exact OK|]. split; assumption. Qed.
Lemma pos_lt : forall s id q, Inv s -> pos_get (s_pos s) id = Some q -> ps_lower q < ps_upper q.
Proof.
  intros s id q I Q. pose proof (pos_get_in _ _ _ Q) as HIn. pose proof (inv_pos_ok _ I) as F. rewrite Forall_forall in F.
  destruct (F q HIn) as [_ [_ V]]. apply validate_tick_range_spec in V. lia.
Qed.

Lemma U_create : forall rs owner a0 a1 m0 m1 lo hi rs' c, r_create rs owner a0 a1 m0 m1 lo hi = Some (rs', c) ->
  RInv rs -> RInv rs' -> WOK (r_rw rs) -> TBU (r_rw rs) ->
  WOK (r_rw rs') /\ TBU (r_rw rs') /\ GmonoU (r_rw rs) (r_rw rs') /\ srecU (r_rw rs') (cur_tick rs') (cr_id c) (cr_lower c) (cr_upper c).
Proof.
  intros rs owner a0 a1 m0 m1 lo hi rs' c H [I [_ St]] [I' _] WK TB.
  pose proof (r_create_base _ _ _ _ _ _ _ _ _ _ H) as B.
  destruct (create_position_spec _ _ _ _ _ _ _ _ _ _ I B) as [_ [_ [CID [SP _]]]].
  assert (Hlh : cr_lower c < cr_upper c).
  { apply (pos_lt (r_base rs') (s_next_id (r_base rs)) (mkPos (s_next_id (r_base rs)) owner (cr_lower c) (cr_upper c) (cr_liq c) (s_time (r_base rs))) I').
    rewrite SP, pos_get_set. cbn [ps_id]. rewrite Z.eqb_refl. reflexivity. }
  unfold r_create in H. rewrite B in H. cbv beta iota in H.
  match type of H with (do w <- ?X; _) = _ => destruct X as [w|] eqn:EU; [|discriminate H] end.
  assert (RW : r_rw rs' = w) by (inversion H as [E']; rewrite <- E' at 1; reflexivity). clear H.
  destruct (upr_U _ _ _ _ _ _ _ _ _ _ EU WK St TB Hlh) as [WK' [TB' [GM [_ [_ Z]]]]].
  unfold cur_tick. rewrite RW. split; [exact WK'|]. split; [exact TB'|]. split; [exact GM|]. exact Z.
Qed.

Lemma U_withdraw : forall rs owner id' liq rs' amts q, r_withdraw rs owner id' liq = Some (rs', amts) ->
  pos_get (s_pos (r_base rs)) id' = Some q -> RInv rs -> WOK (r_rw rs) -> TBU (r_rw rs) ->
  (forall u r, acc_get (acc_u u (r_rw rs)) id' = Some r -> ar_shares r <> 0) ->
  WOK (r_rw rs') /\ TBU (r_rw rs') /\ GmonoU (r_rw rs) (r_rw rs') /\
  (liq <> ps_liq q -> tks (r_rw rs) (ps_lower q) (ps_upper q) ->
   ~ In (ps_lower q) (removed (r_base rs') (ps_lower q) ++ removed (r_base rs') (ps_upper q)) ->
   ~ In (ps_upper q) (removed (r_base rs') (ps_lower q) ++ removed (r_base rs') (ps_upper q)) ->
   srecU (r_rw rs') (cur_tick rs) id' (ps_lower q) (ps_upper q)).
Proof.
  unfold r_withdraw. intros rs owner id' liq rs' amts q H Q [I [_ St]] WK TB SHN. rewrite Q in H.
  pose proof (pos_lt _ _ _ I Q) as Hlh. assert (QI : ps_id q = id') by (eapply pos_get_id; exact Q).
  destruct (withdraw_position (r_base rs) owner id' liq) as [[s amts']|]; [|discriminate H]. simpl in H.
  unfold cur_tick. set (cur := p_tick (s_pool (r_base rs))) in *.
  destruct (collect_incentives (s_bank s) (r_rw rs) cur (p_liq (s_pool (r_base rs))) (s_time (r_base rs)) q)
    as [[[[[b1 w1] col] forf] byup]|] eqn:E1; [|discriminate H]. simpl in H.
  destruct (update_position_rewards w1 cur (p_liq (s_pool (r_base rs))) (s_time (r_base rs)) (ps_lower q) (ps_upper q) id' (ps_liq q - liq) (- liq))
    as [w2|] eqn:E2; [|discriminate H]. simpl in H.
  match type of H with (do bw <- ?X; _) = _ => destruct X as [[b2 w3]|] eqn:E3; [|discriminate H] end. simpl in H.
  match type of H with (do bw2 <- ?X; _) = _ => destruct X as [[b3 w4]|] eqn:E4; [|discriminate H] end. simpl in H.
  inversion H; subst rs' amts. clear H. cbn [r_rw r_base] in *.
  destruct (collect_incentives_parts _ _ _ _ _ _ _ _ _ _ _ E1) as [PC _]. rewrite QI in PC.
  destruct (claimI_U _ _ _ _ _ _ _ _ _ _ _ _ PC WK TB Hlh) as [WK1 [TB1 [GM1 [T1 [S1 [O1 [_ NN]]]]]]].
  assert (St1 : tt_sorted w1) by (unfold tt_sorted; rewrite T1; exact St).
  destruct (upr_U _ _ _ _ _ _ _ _ _ _ E2 WK1 St1 TB1 Hlh) as [WK2 [TB2 [GM2 [St2 [O2 Z2]]]]].
  (* redeposit *)
  assert (X3 : WOK w3 /\ TBU w3 /\ GmonoU w2 w3 /\ rw_tt w3 = rw_tt w2 /\ (forall u j, acc_get (acc_u u w3) j = acc_get (acc_u u w2) j)).
  { destruct (p_liq (s_pool s) <? P18) eqn:EL.
    - obind E3. inversion E3; subst. split; [exact WK2|]. split; [exact TB2|]. split; [apply GmonoU_refl|]. split; reflexivity.
    - apply Z.ltb_ge in EL. pose proof P18_pos. obind E3. inversion E3; subst.
      destruct (redeposit_U _ _ _ _ E ltac:(lia) NN WK2 TB2) as [A [B [C [D [_ F]]]]]. split; [exact A|]. split; [exact B|]. split; [exact C|]. split; [exact D|exact F]. }
  destruct X3 as [WK3 [TB3 [GM3 [T3 R3]]]].
  assert (St3 : tt_sorted w3) by (unfold tt_sorted; rewrite T3; exact St2).
  (* spread claim of a full withdrawal: uptime side untouched *)
  assert (X4 : rw_up w4 = rw_up w3 /\ rw_tt w4 = rw_tt w3 /\ rw_recs w4 = rw_recs w3 /\ rw_inc_scaling w4 = rw_inc_scaling w3).
  { destruct (liq =? ps_liq q); [|inversion E4; subst; auto].
    destruct (collect_spread_rewards b2 w3 (p_scaling (s_pool (r_base rs))) cur q) as [[[b5 w5] c5]|] eqn:E5; [|discriminate E4].
    inversion E4; subst b3 w4. apply collect_spread_rewards_inv in E5.
    exact (prepare_claimable_spread_upfields _ _ _ _ _ _ _ _ E5). }
  destruct X4 as [U4 [T4 [RR4 IS4]]].
  assert (SG4 : forall u d, sel_G (CU u d) w4 = sel_G (CU u d) w3) by (intros u d; simpl; rewrite U4; reflexivity).
  assert (WK4 : WOK w4) by (destruct WK3 as [A [B C]]; split; [rewrite RR4; exact A|]; split; [rewrite IS4; exact B|rewrite U4; exact C]).
  assert (TB4 : TBU w4) by (intros u d; apply (TBk_same (CU u d) w3 w4 T4); [rewrite SG4; lia|apply TB3]).
  assert (St4 : tt_sorted w4) by (unfold tt_sorted; rewrite T4; exact St3).
  set (t1 := match tick_get (s_ticks s) (ps_lower q) with None => tt_remove (rw_tt w4) (ps_lower q) | Some _ => rw_tt w4 end) in *.
  set (t2 := match tick_get (s_ticks s) (ps_upper q) with None => tt_remove t1 (ps_upper q) | Some _ => t1 end) in *.
  assert (S5 : forall k, SE k cur (removed s (ps_lower q) ++ removed s (ps_upper q)) w4 (set_tt w4 t2)).
  { intro k. unfold removed, t2, t1. destruct (tick_get (s_ticks s) (ps_lower q)); destruct (tick_get (s_ticks s) (ps_upper q)); simpl.
    - replace (set_tt w4 (rw_tt w4)) with w4 by (destruct w4; reflexivity). apply SE_refl.
    - apply SE_remove.
    - apply SE_remove.
    - pose proof (SE_trans k cur _ _ _ _ _ (SE_remove k cur w4 (ps_lower q)) (SE_remove k cur (set_tt w4 (tt_remove (rw_tt w4) (ps_lower q))) (ps_upper q))) as X.
      simpl in X. exact X. }
  assert (TB5 : TBU (set_tt w4 t2)).
  { intros u d. unfold t2, t1. destruct (tick_get (s_ticks s) (ps_lower q)); destruct (tick_get (s_ticks s) (ps_upper q)).
    - replace (set_tt w4 (rw_tt w4)) with w4 by (destruct w4; reflexivity). apply TB4.
    - apply TBk_remove; [exact St4|apply TB4].
    - apply TBk_remove; [exact St4|apply TB4].
    - pose proof (TBk_remove (CU u d) (set_tt w4 (tt_remove (rw_tt w4) (ps_lower q))) (ps_upper q)) as X. simpl in X. apply X.
      + apply (SE_sorted cur _ _ _ (SE_remove (CS false) cur w4 (ps_lower q)) St4).
      + apply TBk_remove; [exact St4|apply TB4]. }
  split; [exact WK4|]. split; [exact TB5|]. split.
  - intros u d. specialize (GM1 u d). specialize (GM2 u d). specialize (GM3 u d). specialize (SG4 u d).
    change (sel_G (CU u d) (set_tt w4 t2)) with (sel_G (CU u d) w4). lia.
  - intros NF TK Rl Ru.
    assert (TK1 : tks w1 (ps_lower q) (ps_upper q)) by (destruct TK as [A [B C]]; unfold tks; rewrite T1; auto).
    (* the ticks of the position are kept through UpdatePosition *)
    assert (TK2 : tks w2 (ps_lower q) (ps_upper q)).
    { destruct TK1 as [A [B C]]. split; [exact St2|].
      destruct (update_position_rewards_keys _ _ _ _ _ _ _ _ _ _ E2) as [K _].
      split; intro X; apply K in X; destruct X as [_ [_ X]]; contradiction. }
    destruct (srecU_SE cur [] w2 w3 id' _ _ (fun u d => SE_same_tt (CU u d) cur _ _ T3) Hlh TK2 ltac:(simpl; tauto) ltac:(simpl; tauto) GM3
                (fun u => R3 u id') Z2) as [Z3 TK3].
    assert (EF : (liq =? ps_liq q) = false) by (apply Z.eqb_neq; exact NF). rewrite EF in E4. inversion E4; subst b3 w4.
    apply (srecU_SE cur _ w3 _ id' _ _ (fun u d => S5 (CU u d)) Hlh TK3 Rl Ru); [intros u d; simpl; lia|reflexivity|exact Z3].
Qed.

Lemma claimI_shares : forall w cur pl now lo hi id join w' col forf byup,
  prepare_claim_all_incentives w cur pl now lo hi id join = Some (w', col, forf, byup) ->
  (forall u r, acc_get (acc_u u w) id = Some r -> ar_shares r <> 0) ->
  forall u r, acc_get (acc_u u w') id = Some r -> ar_shares r <> 0.
Proof.
  intros w cur pl now lo hi id join w' col forf byup PC SHN u r R.
  unfold prepare_claim_all_incentives in PC.
  destruct (update_uptime w pl now) as [w1|] eqn:E1; [|discriminate PC]. cbv beta iota in PC.
  destruct ((now - join) * 1000000000 <? 0); [discriminate PC|].
  destruct (uptime_growth_outside w1 cur lo hi) as [outs|]; [|discriminate PC]. cbv beta iota in PC.
  destruct (claim_uptimes (rw_up w1) outs uptimes_ns id ((now - join) * 1000000000) (rw_inc_scaling w1)) as [[[[ups c1] f1] b1]|] eqn:EC; [|discriminate PC].
  inversion PC; subst w'. clear PC.
  change (acc_u u (set_up w1 ups)) with (nth u ups acc_empty) in R.
  destruct (acc_get (nth u (rw_up w1) acc_empty) id) as [r0|] eqn:R0.
  - assert (NZ : ar_shares r0 <> 0) by (apply (SHN u r0); rewrite <- (update_uptime_urecs _ _ _ _ E1 u id); exact R0).
    destruct (claim_uptimes_snap _ _ _ _ _ _ _ _ _ _ EC u r0 R0 NZ) as [insv [_ RA]]. rewrite RA in R. inversion R; subst r. exact NZ.
  - destruct (claim_uptimes_values _ _ _ _ _ _ _ _ _ _ EC) as [_ VU]. rewrite (proj2 (VU u) R0) in R. discriminate R.
Qed.

Lemma U_collect_inc_loop : forall ids rs owner col forf rs' c, r_collect_inc_loop rs owner ids col forf = Some (rs', c) ->
  Inv (r_base rs) -> WOK (r_rw rs) -> TBU (r_rw rs) ->
  WOK (r_rw rs') /\ TBU (r_rw rs') /\ GmonoU (r_rw rs) (r_rw rs') /\ rw_tt (r_rw rs') = rw_tt (r_rw rs).
Proof.
  induction ids as [|id' rest IH]; intros rs owner col forf rs' c H I WK TB; simpl in H.
  - inversion H; subst. split; [exact WK|]. split; [exact TB|]. split; [apply GmonoU_refl|reflexivity].
  - destruct (pos_get (s_pos (r_base rs)) id') as [q|] eqn:Q; [|discriminate H].
    destruct (negb (ps_owner q =? owner)); [discriminate H|].
    destruct (collect_incentives (s_bank (r_base rs)) (r_rw rs) (p_tick (s_pool (r_base rs))) (p_liq (s_pool (r_base rs))) (s_time (r_base rs)) q)
      as [[[[[b w] x] f] byup]|] eqn:E; [|discriminate H].
    pose proof (pos_lt _ _ _ I Q) as Hlh.
    destruct (collect_incentives_parts _ _ _ _ _ _ _ _ _ _ _ E) as [PC _].
    destruct (claimI_U _ _ _ _ _ _ _ _ _ _ _ _ PC WK TB Hlh) as [WK1 [TB1 [GM1 [T1 _]]]].
    destruct (IH (mkRS (set_bank (r_base rs) b) w) owner _ _ rs' c H) as [WK' [TB' [GM' T']]]; try assumption;
      [apply (inv_same_but_bank (r_base rs)); [apply same_but_bank_set|exact I]|].
    cbn [r_rw r_base] in *.
    split; [exact WK'|]. split; [exact TB'|]. split; [eapply GmonoU_trans; eassumption|rewrite T'; exact T1].
Qed.

Lemma srecU_collect_inc_loop : forall ids rs owner col forf rs' c id l h,
  r_collect_inc_loop rs owner ids col forf = Some (rs', c) ->
  (forall q, pos_get (s_pos (r_base rs)) id = Some q -> ps_lower q = l /\ ps_upper q = h) ->
  Inv (r_base rs) -> WOK (r_rw rs) -> TBU (r_rw rs) ->
  (forall u r, acc_get (acc_u u (r_rw rs)) id = Some r -> ar_shares r <> 0) ->
  l < h -> tks (r_rw rs) l h -> srecU (r_rw rs) (cur_tick rs) id l h -> srecU (r_rw rs') (cur_tick rs) id l h.
Proof.
  induction ids as [|id' rest IH]; intros rs owner col forf rs' c id l h H PQ I WK TB SHN Hl TK Z; simpl in H.
  - inversion H; subst. exact Z.
  - destruct (pos_get (s_pos (r_base rs)) id') as [q|] eqn:Q; [|discriminate H].
    destruct (negb (ps_owner q =? owner)); [discriminate H|].
    destruct (collect_incentives (s_bank (r_base rs)) (r_rw rs) (p_tick (s_pool (r_base rs))) (p_liq (s_pool (r_base rs))) (s_time (r_base rs)) q)
      as [[[[[b w] x] f] byup]|] eqn:E; [|discriminate H].
    assert (QI : ps_id q = id') by (eapply pos_get_id; exact Q). pose proof (pos_lt _ _ _ I Q) as Hlh.
    destruct (collect_incentives_parts _ _ _ _ _ _ _ _ _ _ _ E) as [PC _].
    destruct (claimI_U _ _ _ _ _ _ _ _ _ _ _ _ PC WK TB Hlh) as [WK1 [TB1 [GM1 [T1 [_ [O1 [Z1 _]]]]]]].
    assert (TK1 : tks w l h) by (destruct TK as [A [B C]]; unfold tks; rewrite T1; auto).
    assert (X : srecU w (cur_tick rs) id l h /\ (forall u r, acc_get (acc_u u w) id = Some r -> ar_shares r <> 0)).
    { destruct (Z.eq_dec id' id) as [EQ|NE].
      - subst id. destruct (PQ q Q) as [Pl Ph]. rewrite Pl, Ph, QI in Z1, PC. split; [exact (Z1 SHN)|].
        exact (claimI_shares _ _ _ _ _ _ _ _ _ _ _ _ PC SHN).
      - split.
        + apply (srecU_SE (cur_tick rs) [] (r_rw rs) w id l h (fun u d => SE_same_tt (CU u d) _ _ _ T1) Hl TK ltac:(simpl; tauto) ltac:(simpl; tauto) GM1
                  (fun u => O1 u id ltac:(rewrite QI; congruence)) Z).
        + intros u r R. rewrite (O1 u id ltac:(rewrite QI; congruence)) in R. exact (SHN u r R). }
    destruct X as [Zw SHNw].
    specialize (IH (mkRS (set_bank (r_base rs) b) w) owner _ _ rs' c id l h H). unfold cur_tick in *. cbn [r_base r_rw s_pos s_pool set_bank] in IH.
    apply IH; try assumption. apply (inv_same_but_bank (r_base rs)); [apply same_but_bank_set|exact I].
Qed.

Lemma r_collect_spread_loop_upfields : forall ids rs owner tot rs' c, r_collect_spread_loop rs owner ids tot = Some (rs', c) ->
  rw_up (r_rw rs') = rw_up (r_rw rs) /\ rw_tt (r_rw rs') = rw_tt (r_rw rs).
Proof.
  induction ids as [|id' rest IH]; intros rs owner tot rs' c H; simpl in H; [inversion H; auto|].
  destruct (pos_get (s_pos (r_base rs)) id') as [q|]; [|discriminate H].
  destruct (negb (ps_owner q =? owner)); [discriminate H|].
  destruct (collect_spread_rewards _ _ _ _ q) as [[[b w] x]|] eqn:E; [|discriminate H].
  apply collect_spread_rewards_inv in E. destruct (prepare_claimable_spread_upfields _ _ _ _ _ _ _ _ E) as [A [B _]].
  destruct (IH _ _ _ _ _ H) as [C D]. simpl in *. split; congruence.
Qed.

Lemma TBU_same_up : forall w w', rw_up w' = rw_up w -> rw_tt w' = rw_tt w -> TBU w -> TBU w'.
Proof. intros w w' U T TB u d. apply (TBk_same (CU u d) w w' T); [simpl; rewrite U; lia|apply TB]. Qed.

(* every non-swap operation *)
Lemma U_static : forall rs o rs' r, PII rs -> rhandler rs o = Some (rs', r) -> is_swap o = false ->
  TBU (r_rw rs) -> TBU (r_rw rs') /\ GmonoU (r_rw rs) (r_rw rs').
Proof.
  intros rs o rs' r HPI H NS TB.
  destruct (inc_handler _ _ _ _ false HPI H) as [HPI' _].
  pose proof HPI as [RI [HIW _]]. pose proof RI as [I [_ St]]. pose proof HPI' as [RI' _]. pose proof (PII_WOK _ HPI) as WK.
  destruct o as [b|owner ids|owner ids|sender denom amount rate dt uu]; simpl in H.
  - destruct b as [owner a0 a1 m0 m1 lo hi|owner id' liq|owner id' a0 a1 m0 m1|sender ids recipient|sender zfo amt mo|sender zfo amt mi|dt];
      simpl in NS; try discriminate NS.
    + destruct (r_create rs owner a0 a1 m0 m1 lo hi) as [[rs1 c]|] eqn:E; [|discriminate H]. inversion H; subst.
      destruct (U_create _ _ _ _ _ _ _ _ _ _ E RI RI' WK TB) as [_ [A [B _]]]. split; assumption.
    + destruct (r_withdraw rs owner id' liq) as [[rs1 [x0 x1]]|] eqn:E; [|discriminate H]. inversion H; subst.
      destruct (r_withdraw_base _ _ _ _ _ _ E) as [s' [W _]].
      destruct (withdraw_position_spec _ _ _ _ _ _ _ I W) as [_ [_ [_ [_ [q [Q _]]]]]].
      destruct (U_withdraw _ _ _ _ _ _ q E Q RI WK TB) as [_ [A [B _]]]; [|split; assumption].
      intros u r0 R0. destruct HIW as [_ [_ [LN [_ RM]]]].
      destruct (Nat.lt_ge_cases u NU) as [Hu|Hu].
      * destruct (RM u q Hu (pos_get_in _ _ _ Q)) as [r1 [R1 [SH _]]]. rewrite (pos_get_id _ _ _ Q) in R1. rewrite R0 in R1. inversion R1; subst r1.
        pose proof (inv_pos_ok _ I) as F. rewrite Forall_forall in F. destruct (F q (pos_get_in _ _ _ Q)) as [_ [L _]]. lia.
      * unfold acc_u in R0. rewrite nth_overflow in R0 by (rewrite LN; exact Hu). discriminate R0.
    + destruct (r_add rs owner id' a0 a1 m0 m1) as [[rs1 [[nid x0] x1]]|] eqn:E; [|discriminate H]. inversion H; subst rs1 r. clear H.
      assert (Q : exists q, pos_get (s_pos (r_base rs)) id' = Some q).
      { unfold r_add in E. destruct (id' <=? 0); [discriminate E|]. destruct ((a0 <? 0) || (a1 <? 0) || (m0 <? 0) || (m1 <? 0)); [discriminate E|].
        destruct (pos_get (s_pos (r_base rs)) id') as [q|]; [eexists; reflexivity|discriminate E]. }
      destruct Q as [q Q]. destruct (r_add_split _ _ _ _ _ _ _ _ _ _ E Q) as [rs1 [w0 [w1 [m0' [m1' [cr [EW EC]]]]]]].
      assert (HW : rhandler rs (RBase (OWithdraw owner id' (ps_liq q))) = Some (rs1, [w0; w1])) by (simpl; rewrite EW; reflexivity).
      destruct (inc_handler _ _ _ _ false HPI HW) as [HPI1 _]. pose proof HPI1 as [RI1 _].
      destruct (U_withdraw _ _ _ _ _ _ q EW Q RI WK TB) as [_ [A [B _]]].
      { intros u r0 R0. destruct HIW as [_ [_ [LN [_ RM]]]].
        destruct (Nat.lt_ge_cases u NU) as [Hu|Hu].
        - destruct (RM u q Hu (pos_get_in _ _ _ Q)) as [r1 [R1 [SH _]]]. rewrite (pos_get_id _ _ _ Q) in R1. rewrite R0 in R1. inversion R1; subst r1.
          pose proof (inv_pos_ok _ I) as F. rewrite Forall_forall in F. destruct (F q (pos_get_in _ _ _ Q)) as [_ [L _]]. lia.
        - unfold acc_u in R0. rewrite nth_overflow in R0 by (rewrite LN; exact Hu). discriminate R0. }
      destruct (U_create _ _ _ _ _ _ _ _ _ _ EC RI1 RI' (PII_WOK _ HPI1) A) as [_ [A2 [B2 _]]].
      split; [exact A2|eapply GmonoU_trans; eassumption].
    + destruct (transfer_positions (r_base rs) sender ids recipient) as [s'|]; [|discriminate H]. inversion H; subst. simpl.
      split; [exact TB|apply GmonoU_refl].
    + inversion H; subst. simpl. split; [exact TB|apply GmonoU_refl].
  - destruct (r_collect_spread rs owner ids) as [[rs1 c]|] eqn:E; [|discriminate H]. inversion H; subst.
    unfold r_collect_spread in E. destruct (r_collect_spread_loop_upfields _ _ _ _ _ _ E) as [A B].
    split; [apply (TBU_same_up _ _ A B TB)|apply GmonoU_same; exact A].
  - destruct (r_collect_inc rs owner ids) as [[rs1 [c f]]|] eqn:E; [|discriminate H]. inversion H; subst.
    unfold r_collect_inc in E. destruct (U_collect_inc_loop _ _ _ _ _ _ _ E I WK TB) as [_ [A [B _]]]. split; assumption.
  - destruct (r_incentive rs sender denom amount rate dt uu) as [rs1|] eqn:E; [|discriminate H]. inversion H; subst.
    unfold r_incentive in E. obind E. inversion E; subst. cbn [r_rw].
    match goal with E0 : update_uptime _ _ _ = Some _ |- _ => destruct (update_uptime_U _ _ _ _ E0 WK) as [_ [TT [_ [GM _]]]] end.
    split.
    + intros u d. apply (TBk_same (CU u d) (r_rw rs)); [exact TT|apply GM|apply TB].
    + exact GM.
Qed.

Lemma PII_sharesU : forall rs id q, PII rs -> pos_get (s_pos (r_base rs)) id = Some q ->
  forall u r, acc_get (acc_u u (r_rw rs)) id = Some r -> ar_shares r <> 0.
Proof.
  intros rs id q [[I _] [[_ [_ [LN [_ RM]]]] _]] Q u r0 R0.
  destruct (Nat.lt_ge_cases u NU) as [Hu|Hu].
  - destruct (RM u q Hu (pos_get_in _ _ _ Q)) as [r1 [R1 [SH _]]]. rewrite (pos_get_id _ _ _ Q) in R1. rewrite R0 in R1. inversion R1; subst r1.
    pose proof (inv_pos_ok _ I) as F. rewrite Forall_forall in F. destruct (F q (pos_get_in _ _ _ Q)) as [_ [L _]]. lia.
  - unfold acc_u in R0. rewrite nth_overflow in R0 by (rewrite LN; exact Hu). discriminate R0.
Qed.

(* ---------- positions an operation does not write to ---------- *)
Lemma srecU_bystander : forall rs o rs' r id l h, RInv rs -> rhandler rs o = Some (rs', r) -> is_swap o = false ->
  livep (r_base rs) id l h -> livep (r_base rs') id l h -> touchesI o id = false -> GmonoU (r_rw rs) (r_rw rs') ->
  srecU (r_rw rs) (cur_tick rs) id l h -> srecU (r_rw rs') (cur_tick rs') id l h.
Proof.
  intros rs o rs' r id l h RI H NS LV LV' T GM Z.
  destruct (op_ok_static _ _ _ _ _ _ _ H NS (static_op_ok (CS false) _ _ _ _ _ _ _ RI H NS LV LV')) as [CT [MT [Tl Th]]].
  destruct (livep_tks _ _ _ _ RI LV) as [Hlh TK].
  destruct (livep_lt _ _ _ _ (proj1 RI) LV) as [_ LT].
  rewrite CT. apply (srecU_SE (cur_tick rs) (touched rs o) (r_rw rs) (r_rw rs') id l h); try assumption.
  - intros u d. apply (op_static (CU u d) _ _ _ _ H NS CT MT).
  - intro u. apply (handler_urec_frame _ _ _ _ _ RI H T LT u).
Qed.

(* ---------- swaps ---------- *)
Lemma cross_trackers_fields : forall w din pending i w', cross_trackers w din pending i = Some w' ->
  rw_up w' = rw_up w /\ rw_recs w' = rw_recs w /\ rw_inc_scaling w' = rw_inc_scaling w.
Proof. unfold cross_trackers. intros w din pending i w' H. obind H. inversion H; subst. simpl. auto. Qed.

Lemma strace_nonneg_U : forall u d zfo evs din w pl now pending, WOK w ->
  Forall ev_nonneg (strace (CU u d) zfo din w pl now pending evs).
Proof.
  induction evs as [|e r IH]; intros din w pl now pending WK; cbn [strace]; [constructor|].
  destruct e as [g|i|t].
  - constructor; [cbn [ev_nonneg sel_pend]; lia|apply IH; exact WK].
  - destruct (update_uptime w pl now) as [w1|] eqn:E1; [|constructor].
    destruct (cross_trackers w1 din pending i) as [w2|] eqn:E2; [|constructor].
    destruct (update_uptime_U _ _ _ _ E1 WK) as [[OK1 [Hi1 LN1]] [_ [_ [GM _]]]].
    destruct (cross_trackers_fields _ _ _ _ _ E2) as [A [B C]].
    constructor; [cbn [ev_nonneg]; specialize (GM u d); lia|]. constructor; [exact I|]. apply IH.
    split; [rewrite B; exact OK1|]. split; [rewrite C; exact Hi1|rewrite A; exact LN1].
  - constructor; [exact I|]. apply IH. exact WK.
Qed.
Lemma op_trace_nonneg_U : forall rs o u d, WOK (r_rw rs) -> Forall ev_nonneg (op_trace (CU u d) rs o).
Proof.
  intros rs o u d WK. unfold op_trace. destruct (swap_args o) as [[[ei zfo] amt]|]; [|constructor].
  destruct (swap_events (r_base rs) ei zfo amt) as [evs|]; [|constructor]. apply strace_nonneg_U. exact WK.
Qed.

Lemma U_swap : forall rs o rs' r, RInv rs -> WOK (r_rw rs) -> rhandler rs o = Some (rs', r) -> is_swap o = true ->
  TBU (r_rw rs) -> TBU (r_rw rs') /\ GmonoU (r_rw rs) (r_rw rs').
Proof.
  intros rs o rs' r [I [D St]] WK H S TB.
  assert (X : forall u d, TBk (CU u d) (r_rw rs') /\ sel_G (CU u d) (r_rw rs) <= sel_G (CU u d) (r_rw rs')).
  { intros u d. pose proof (swap_view (CU u d) _ _ _ _ H S) as V. pose proof (op_trace_nonneg_U rs o u d WK) as N.
    split.
    - apply (TBk_view (CU u d) (r_rw rs') (cur_tick rs')). fold (rview (CU u d) rs'). rewrite V.
      destruct (proj1 (TBk_view (CU u d) (r_rw rs) (cur_tick rs)) (TB u d)) as [A B].
      assert (S' : tm_sorted (a_O (rview (CU u d) rs))) by (simpl; eapply vmap_sorted_any; exact St).
      destruct (a_run_bounded _ _ S' A B N) as [B' A']. split; assumption.
    - rewrite <- (view_G (CU u d) (r_rw rs) (cur_tick rs)), <- (view_G (CU u d) (r_rw rs') (cur_tick rs')).
      fold (rview (CU u d) rs'). fold (rview (CU u d) rs). rewrite V. apply a_run_G_mono. exact N. }
  split; [intros u d; apply X|intros u d; apply X].
Qed.

Lemma swap_urecs : forall rs o rs' r, rhandler rs o = Some (rs', r) -> is_swap o = true ->
  forall u j, acc_get (acc_u u (r_rw rs')) j = acc_get (acc_u u (r_rw rs)) j.
Proof.
  intros rs o rs' r H S.
  destruct o as [b|? ?|? ?|? ? ? ? ? ?]; simpl in S; try discriminate S.
  destruct b as [? ? ? ? ? ? ?|? ? ?|? ? ? ? ? ?|? ? ?|sender zfo amt mo|sender zfo amt mi|?]; simpl in S; try discriminate S; simpl in H.
  - unfold r_swap_in in H. destruct (swap_exact_in (r_base rs) sender zfo amt mo) as [[s' out]|]; [|discriminate H]. simpl in H.
    destruct (swap_rewards (r_rw rs) (r_base rs) true zfo amt (s_time (r_base rs))) as [w|] eqn:E2; [|discriminate H].
    inversion H; subst. simpl. eapply swap_rewards_urecs. exact E2.
  - unfold r_swap_out in H. destruct (swap_exact_out (r_base rs) sender zfo amt mi) as [[s' tin]|]; [|discriminate H]. simpl in H.
    destruct (swap_rewards (r_rw rs) (r_base rs) false zfo amt (s_time (r_base rs))) as [w|] eqn:E2; [|discriminate H].
    inversion H; subst. simpl. eapply swap_rewards_urecs. exact E2.
Qed.

Lemma srecU_swap : forall rs o rs' r id l h, RInv rs -> WOK (r_rw rs) -> rhandler rs o = Some (rs', r) -> is_swap o = true ->
  livep (r_base rs) id l h -> GmonoU (r_rw rs) (r_rw rs') ->
  srecU (r_rw rs) (cur_tick rs) id l h -> srecU (r_rw rs') (cur_tick rs') id l h.
Proof.
  intros rs o rs' r id l h RI WK H S LV GM Z. pose proof RI as [I [D St]].
  destruct (livep_tks _ _ _ _ RI LV) as [Hlh [_ [Kl Kh]]].
  intros u d r0 Hu R0. rewrite (swap_urecs _ _ _ _ H S u id) in R0. destruct (Z u d r0 Hu R0) as [A B]. specialize (GM u d).
  pose proof (op_inside_swap (CU u d) _ _ _ _ l h H S Hlh (vmap_sorted_any _ (CU u d) _ St) Kl Kh (swap_op_wf (CU u d) _ _ _ _ I D H S)) as E.
  pose proof (in_range_growth_nonneg (op_trace (CU u d) rs o) (rview (CU u d) rs) l h (op_trace_nonneg_U rs o u d WK)) as N.
  unfold insU, rview in *. rewrite E. lia.
Qed.

(* ---------- the invariant ---------- *)
Definition CII (rs : rstate) : Prop :=
  PII rs /\ TBU (r_rw rs) /\ forall id l h, livep (r_base rs) id l h -> srecU (r_rw rs) (cur_tick rs) id l h.

Lemma CII_create : forall rs owner a0 a1 m0 m1 lo hi rs' c, CII rs -> r_create rs owner a0 a1 m0 m1 lo hi = Some (rs', c) -> CII rs'.
Proof.
  intros rs owner a0 a1 m0 m1 lo hi rs' c [HPI [TB SR]] E.
  assert (H : rhandler rs (RBase (OCreate owner a0 a1 m0 m1 lo hi)) = Some (rs', [cr_id c; cr_amount0 c; cr_amount1 c; cr_liq c; cr_lower c; cr_upper c]))
    by (simpl; rewrite E; reflexivity).
  destruct (inc_handler _ _ _ _ false HPI H) as [HPI' _]. destruct (U_static _ _ _ _ HPI H eq_refl TB) as [TB' GM].
  split; [exact HPI'|]. split; [exact TB'|]. intros id l h LV'.
  pose proof HPI as [RI _]. pose proof RI as [I _]. pose proof HPI' as [RI' _].
  pose proof (r_create_base _ _ _ _ _ _ _ _ _ _ E) as B.
  destruct (create_position_spec _ _ _ _ _ _ _ _ _ _ I B) as [_ [_ [CID [SP _]]]].
  destruct LV' as [q' [Q' [Ql Qh]]]. rewrite SP, pos_get_set in Q'. cbn [ps_id] in Q'.
  destruct (id =? s_next_id (r_base rs)) eqn:EI.
  - apply Z.eqb_eq in EI. inversion Q'; subst q'. cbn [ps_lower ps_upper] in Ql, Qh. subst l h id. rewrite <- CID.
    destruct (U_create _ _ _ _ _ _ _ _ _ _ E RI RI' (PII_WOK _ HPI) TB) as [_ [_ [_ Z]]]. exact Z.
  - assert (LV : livep (r_base rs) id l h) by (exists q'; auto).
    apply (srecU_bystander _ _ _ _ id l h RI H eq_refl LV); try assumption; [|reflexivity|apply SR; exact LV].
    exists q'. rewrite SP, pos_get_set. cbn [ps_id]. rewrite EI. auto.
Qed.

Lemma CII_withdraw : forall rs owner id' liq rs' amts, CII rs -> r_withdraw rs owner id' liq = Some (rs', amts) -> CII rs'.
Proof.
  intros rs owner id' liq rs' [x0 x1] [HPI [TB SR]] E.
  assert (H : rhandler rs (RBase (OWithdraw owner id' liq)) = Some (rs', [x0; x1])) by (simpl; rewrite E; reflexivity).
  destruct (inc_handler _ _ _ _ false HPI H) as [HPI' _]. destruct (U_static _ _ _ _ HPI H eq_refl TB) as [TB' GM].
  split; [exact HPI'|]. split; [exact TB'|]. intros id l h LV'.
  pose proof HPI as [RI _]. pose proof RI as [I _]. pose proof HPI' as [RI' _].
  destruct (r_withdraw_base _ _ _ _ _ _ E) as [s' [W [_ [_ [SPB _]]]]].
  destruct (withdraw_position_spec _ _ _ _ _ _ _ I W) as [_ [_ [_ [_ [q [Q [_ [LQ SP]]]]]]]].
  pose proof LV' as [q' [Q' [Ql Qh]]]. rewrite SPB, SP in Q'.
  destruct (Z.eq_dec id id') as [EQ|NE].
  - subst id'. destruct (liq =? ps_liq q) eqn:EF.
    + rewrite pos_get_remove, Z.eqb_refl in Q' by (apply (inv_pos_sorted _ I)). discriminate Q'.
    + rewrite pos_get_set in Q'. cbn [ps_id] in Q'. rewrite Z.eqb_refl in Q'. inversion Q'; subst q'. cbn [ps_lower ps_upper] in Ql, Qh.
      assert (LV : livep (r_base rs) id l h) by (exists q; auto).
      destruct (op_ok_static _ _ _ _ _ _ _ H eq_refl (static_op_ok (CS false) _ _ _ _ _ _ _ RI H eq_refl LV LV')) as [CT _].
      destruct (livep_tks _ _ _ _ RI LV) as [Hlh TK].
      destruct (livep_keys _ _ _ _ RI' LV') as [_ [_ [K3 [K4 _]]]].
      destruct (U_withdraw _ _ _ _ _ _ q E Q RI (PII_WOK _ HPI) TB (PII_sharesU _ _ _ HPI Q)) as [_ [_ [_ Z]]].
      rewrite CT. subst l h. apply Z.
      * apply Z.eqb_neq. exact EF.
      * exact TK.
      * intro X. apply in_app_or in X. destruct X as [X|X]; (eapply removed_stored; [|exact X]; assumption).
      * intro X. apply in_app_or in X. destruct X as [X|X]; (eapply removed_stored; [|exact X]; assumption).
  - assert (LV : livep (r_base rs) id l h).
    { exists q'. split; [|auto]. destruct (liq =? ps_liq q).
      - rewrite pos_get_remove in Q' by (apply (inv_pos_sorted _ I)). rewrite (proj2 (Z.eqb_neq id id') NE) in Q'. exact Q'.
      - rewrite pos_get_set in Q'. cbn [ps_id] in Q'. rewrite (proj2 (Z.eqb_neq id id') NE) in Q'. exact Q'. }
    apply (srecU_bystander _ _ _ _ id l h RI H eq_refl LV LV'); try assumption; [|apply SR; exact LV].
    simpl. apply Z.eqb_neq. congruence.
Qed.

Lemma CII_keep : forall rs o rs' r, CII rs -> rhandler rs o = Some (rs', r) -> is_swap o = false ->
  (forall id l h, livep (r_base rs') id l h -> livep (r_base rs) id l h) ->
  (forall id l h, livep (r_base rs) id l h -> livep (r_base rs') id l h -> touchesI o id = true ->
     srecU (r_rw rs') (cur_tick rs') id l h) -> CII rs'.
Proof.
  intros rs o rs' r [HPI [TB SR]] H NS LB TCH.
  destruct (inc_handler _ _ _ _ false HPI H) as [HPI' _]. destruct (U_static _ _ _ _ HPI H NS TB) as [TB' GM].
  split; [exact HPI'|]. split; [exact TB'|]. intros id l h LV'. pose proof (LB _ _ _ LV') as LV. pose proof HPI as [RI _].
  destruct (touchesI o id) eqn:T; [apply TCH; assumption|].
  apply (srecU_bystander _ _ _ _ id l h RI H NS LV LV' T GM). apply SR. exact LV.
Qed.

Theorem CII_handler : forall rs o rs' r, CII rs -> rhandler rs o = Some (rs', r) -> CII rs'.
Proof.
  intros rs o rs' r HCI H. pose proof HCI as [HPI [TB SR]]. pose proof HPI as [RI _]. pose proof RI as [I _].
  destruct (is_swap o) eqn:S.
  - destruct (inc_handler _ _ _ _ false HPI H) as [HPI' _]. destruct (U_swap _ _ _ _ RI (PII_WOK _ HPI) H S TB) as [TB' GM].
    split; [exact HPI'|]. split; [exact TB'|]. intros id l h LV'.
    assert (SP : s_pos (r_base rs') = s_pos (r_base rs)).
    { destruct o as [b|? ?|? ?|? ? ? ? ? ?]; simpl in S; try discriminate S.
      destruct b as [? ? ? ? ? ? ?|? ? ?|? ? ? ? ? ?|? ? ?|sender zfo amt mo|sender zfo amt mi|?]; simpl in S; try discriminate S; simpl in H.
      - unfold r_swap_in in H. destruct (swap_exact_in (r_base rs) sender zfo amt mo) as [[s' out]|] eqn:E1; [|discriminate H]. simpl in H.
        destruct (swap_rewards _ _ _ _ _ _); [|discriminate H]. inversion H; subst. simpl. eapply swap_exact_in_pos. exact E1.
      - unfold r_swap_out in H. destruct (swap_exact_out (r_base rs) sender zfo amt mi) as [[s' tin]|] eqn:E1; [|discriminate H]. simpl in H.
        destruct (swap_rewards _ _ _ _ _ _); [|discriminate H]. inversion H; subst. simpl. eapply swap_exact_out_pos. exact E1. }
    assert (LV : livep (r_base rs) id l h) by (unfold livep in *; rewrite SP in LV'; exact LV').
    apply (srecU_swap _ _ _ _ id l h RI (PII_WOK _ HPI) H S LV GM). apply SR. exact LV.
  - destruct o as [b|owner ids|owner ids|sender denom amount rate dt uu].
    + destruct b as [owner a0 a1 m0 m1 lo hi|owner id' liq|owner id' a0 a1 m0 m1|sender ids recipient|sender zfo amt mo|sender zfo amt mi|dt];
        simpl in S; try discriminate S.
      * simpl in H. destruct (r_create rs owner a0 a1 m0 m1 lo hi) as [[rs1 c]|] eqn:E; [|discriminate H]. inversion H; subst.
        eapply CII_create; eassumption.
      * simpl in H. destruct (r_withdraw rs owner id' liq) as [[rs1 [x0 x1]]|] eqn:E; [|discriminate H]. inversion H; subst.
        eapply CII_withdraw; eassumption.
      * simpl in H. destruct (r_add rs owner id' a0 a1 m0 m1) as [[rs1 [[nid x0] x1]]|] eqn:E; [|discriminate H]. inversion H; subst rs1 r. clear H.
        assert (Q : exists q, pos_get (s_pos (r_base rs)) id' = Some q).
        { unfold r_add in E. destruct (id' <=? 0); [discriminate E|]. destruct ((a0 <? 0) || (a1 <? 0) || (m0 <? 0) || (m1 <? 0)); [discriminate E|].
          destruct (pos_get (s_pos (r_base rs)) id') as [q|]; [eexists; reflexivity|discriminate E]. }
        destruct Q as [q Q]. destruct (r_add_split _ _ _ _ _ _ _ _ _ _ E Q) as [rs1 [w0 [w1 [m0' [m1' [cr [EW EC]]]]]]].
        apply (CII_create _ _ _ _ _ _ _ _ _ _ (CII_withdraw _ _ _ _ _ _ HCI EW) EC).
      * apply (CII_keep _ _ _ _ HCI H eq_refl); [|intros id l h _ _ T; discriminate T].
        simpl in H. destruct (transfer_positions (r_base rs) sender ids recipient) as [s'|] eqn:E; [|discriminate H]. inversion H; subst. simpl.
        destruct (transfer_positions_spec _ _ _ _ _ I E) as [_ [_ [_ [_ [_ [PG _]]]]]].
        intros id l h [q' [Q' [Ql Qh]]]. rewrite PG in Q'. destruct (pos_get (s_pos (r_base rs)) id) as [q|] eqn:Q0; [|discriminate Q'].
        exists q. split; [exact Q0|]. destruct (z_mem id ids); inversion Q'; subst q'; [destruct q; simpl in *; auto|auto].
      * apply (CII_keep _ _ _ _ HCI H eq_refl); [|intros id l h _ _ T; discriminate T].
        simpl in H. inversion H; subst. simpl. auto.
    + pose proof H as H0. simpl in H. destruct (r_collect_spread rs owner ids) as [[rs1 c]|] eqn:E; [|discriminate H]. inversion H; subst rs1 r. clear H.
      unfold r_collect_spread in E. destruct (r_collect_spread_loop_base _ _ _ _ _ _ E) as [SP _].
      apply (CII_keep _ _ _ _ HCI H0 eq_refl); [|intros id l h _ _ T; discriminate T].
      intros id l h LV'. unfold livep in *. rewrite SP in LV'. exact LV'.
    + pose proof H as H0. simpl in H. destruct (r_collect_inc rs owner ids) as [[rs1 [c f]]|] eqn:E; [|discriminate H]. inversion H; subst rs1 r. clear H.
      unfold r_collect_inc in E. destruct (r_collect_inc_loop_base _ _ _ _ _ _ _ E) as [SP [PL _]].
      apply (CII_keep _ _ _ _ HCI H0 eq_refl).
      * intros id l h LV'. unfold livep in *. rewrite SP in LV'. exact LV'.
      * intros id l h LV LV' _. destruct (livep_tks _ _ _ _ RI LV) as [Hlh TK].
        assert (CT : cur_tick rs' = cur_tick rs) by (unfold cur_tick; rewrite PL; reflexivity). rewrite CT.
        pose proof LV as [q [Q [A B]]].
        apply (srecU_collect_inc_loop _ _ _ _ _ _ _ id l h E); try assumption.
        -- intros q0 Q0. rewrite Q in Q0. inversion Q0; subst. auto.
        -- apply PII_WOK. exact HPI.
        -- exact (PII_sharesU _ _ _ HPI Q).
        -- apply SR. exact LV.
    + pose proof H as H0. simpl in H. destruct (r_incentive rs sender denom amount rate dt uu) as [rs1|] eqn:E; [|discriminate H]. inversion H; subst rs1 r. clear H.
      apply (CII_keep _ _ _ _ HCI H0 eq_refl); [|intros id l h _ _ T; discriminate T].
      unfold r_incentive in E. obind E. inversion E; subst. simpl. auto.
Qed.

Theorem CII_run : forall ops rs, CII rs -> CII (rrun rs ops).
Proof.
  induction ops as [|o r IH]; intros rs HCI; simpl; [exact HCI|].
  unfold rstep. destruct (rhandler rs o) as [[rs' res]|] eqn:H; simpl; [apply IH; eapply CII_handler; eassumption|apply IH; exact HCI].
Qed.

Lemma CII_init : forall sp spf ssc isc users t, 0 < sp -> 0 <= spf <= 500000000000000000 -> 0 < isc -> CII (rinit sp spf ssc isc users t).
Proof.
  intros sp spf ssc isc users t Hsp Hspf Hisc. split; [apply (PII_init sp spf ssc isc users t Hsp Hspf Hisc)|]. split.
  - intros u d. split.
    + rewrite sel_G_CU. unfold acc_u, rinit, rwd_init. cbn [r_rw rw_up].
      assert (X : forall l n, ac_value (nth n (map (fun _ : Z => acc_empty) l) acc_empty) = dc0).
      { induction l as [|a l IHl]; intros [|n]; simpl; try reflexivity. apply IHl. }
      rewrite X. rewrite dsel_dc0. lia.
    + intros i o E. simpl in E. discriminate E.
  - intros id l h [q [Q _]]. simpl in Q. discriminate Q.
Qed.
