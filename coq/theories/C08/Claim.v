(* C08: what a position can claim, as a formula of its accumulator record and the growth inside its range. *)
From Coq Require Import ZArith List Bool Lia.
Import ListNotations.
From Osmo Require Import Base.DecModel CL.TickMath CL.CLMath CL.CLPool CL.CLSwap CL.CLStep
  CLR.Accum CLR.Rewards CLR.RSwap CLR.RStep C08.Telescope C08.View.
Open Scope Z_scope.

Definition pr_sel (d : bool) (x : Z * Z) : Z := if d then snd x else fst x.

Lemma dsel_mul_dec : forall d a s c, dc_mul_dec a s = Some c -> dsel d c = d_mul (dsel d a) s.
Proof.
  unfold dc_mul_dec. intros d a s c H. obind H. inversion H; subst. apply dchk_some in E, E0. subst. destruct d; reflexivity.
Qed.
Lemma trunc1_some : forall x t ch, trunc1 x = Some (t, ch) -> t = d_truncate_int x /\ ch = x - d_from_int t /\ 0 <= t /\ 0 <= ch.
Proof.
  unfold trunc1. intros x t ch H. destruct ((d_truncate_int x <? 0) || (x - d_from_int (d_truncate_int x) <? 0)) eqn:E; [discriminate H|].
  inversion H; subst. apply orb_false_iff in E. destruct E as [A B]. apply Z.ltb_ge in A, B. auto.
Qed.
Lemma sel_truncate_decimal : forall d a coins dust, dc_truncate_decimal a = Some (coins, dust) ->
  pr_sel d coins = d_truncate_int (dsel d a) /\ dsel d dust = dsel d a - d_from_int (pr_sel d coins) /\ 0 <= pr_sel d coins.
Proof.
  unfold dc_truncate_decimal. intros d a coins dust H. obind H. inversion H; subst.
  destruct p as [t0 c0]. destruct p0 as [t1 c1]. apply trunc1_some in E, E0. simpl. destruct d; simpl; tauto.
Qed.

(* the amount of one denomination that leaves the accumulator for a position: unclaimed + (growth since the snapshot) x shares,
   truncated to whole (scaled) units *)
Definition claim_scaled (un g sh : Z) : Z := d_truncate_int (un + d_mul g sh).
(* ... and scaled back down *)
Definition unscale (sc t : Z) : Z := d_truncate_int (d_quo_truncate (d_from_int t) sc).

Lemma scale_down_some : forall t sc r, scale_down t sc = Some r -> r = unscale sc t.
Proof. unfold scale_down, unscale. intros t sc r H. obind H. inversion H; subst. apply dchk_some in E0. subst. reflexivity. Qed.
Lemma scale_down2_sel : forall d c sc r, scale_down2 c sc = Some r -> pr_sel d r = unscale sc (pr_sel d c).
Proof.
  unfold scale_down2. intros d c sc r H. obind H. inversion H; subst. apply scale_down_some in E, E0. destruct d; simpl; assumption.
Qed.

(* updateAccumAndClaimRewards: claimed coins as a function of the record, the accumulator value and growth outside *)
Lemma update_accum_and_claim_spec : forall a id out a' coins dust,
  update_accum_and_claim a id out = Some (a', coins, dust) ->
  exists r, acc_get a id = Some r /\
    forall d, let g := dsel d (ac_value a) - dsel d out - dsel d (ar_snap r) in
      0 <= g /\ pr_sel d coins = claim_scaled (dsel d (ar_unclaimed r)) g (ar_shares r).
Proof.
  unfold update_accum_and_claim, to_init_plus_outside, acc_claim_rewards, acc_total_rewards, acc_set_position.
  intros a id out a' coins dust H.
  destruct (acc_get a id) as [r|] eqn:ER; [|discriminate H]. simpl in H.
  destruct (dc_add (ar_snap r) out) as [snap'|] eqn:ES; [|discriminate H]. simpl in H.
  exists r. split; [reflexivity|].
  (* the record read back after SetPositionIntervalAccumulation *)
  unfold acc_get, acc_with_recs in H. simpl in H.
  assert (RG : forall m k v, rec_get (rec_set m k v) k = Some v).
  { induction m as [|[k' v'] m IHm]; intros k v; simpl; [rewrite Z.eqb_refl; reflexivity|].
    destruct (k <? k') eqn:E1; simpl; [rewrite Z.eqb_refl; reflexivity|].
    destruct (k =? k') eqn:E2; simpl; [rewrite Z.eqb_refl; reflexivity|]. rewrite E2. apply IHm. }
  rewrite RG in H. simpl in H.
  destruct (dc_sub (ac_value a) snap') as [diff|] eqn:ED; [|discriminate H]. simpl in H.
  destruct (dc_mul_dec diff (ar_shares r)) as [acr|] eqn:EM; [|discriminate H]. simpl in H.
  destruct (dc_add (ar_unclaimed r) acr) as [tot|] eqn:ET; [|discriminate H]. simpl in H.
  destruct (dc_truncate_decimal tot) as [[cs ds]|] eqn:ETr; [|discriminate H]. simpl in H.
  assert (HC : coins = cs).
  { destruct (acc_has _ id); [|inversion H; reflexivity].
    destruct (dc_safe_sub _ out); [|discriminate H]. simpl in H. destruct (rec_get _ id); [|discriminate H]. inversion H; reflexivity. }
  subst cs. intros d. cbv zeta. set (g := dsel d (ac_value a) - dsel d out - dsel d (ar_snap r)). destruct (dsel_sub d _ _ _ ED) as [D1 D2]. rewrite (dsel_add d _ _ _ ES) in D1.
  assert (G : dsel d diff = g) by (unfold g; lia). split; [lia|].
  destruct (sel_truncate_decimal d _ _ _ ETr) as [T1 _]. rewrite T1, (dsel_add d _ _ _ ET), (dsel_mul_dec d _ _ _ EM), G. reflexivity.
Qed.

(* GetClaimableSpreadRewards *)
Theorem claimable_spread_formula : forall w sc cur lo hi id w' c,
  prepare_claimable_spread w sc cur lo hi id = Some (w', c) ->
  exists r, acc_get (rw_spread w) id = Some r /\
    forall d, let g := a_inside (view (CS d) w cur dc0) lo hi - dsel d (ar_snap r) in
      0 <= g /\
      pr_sel d c = (if sc =? P18 then claim_scaled (dsel d (ar_unclaimed r)) g (ar_shares r)
                    else unscale sc (claim_scaled (dsel d (ar_unclaimed r)) g (ar_shares r))).
Proof.
  unfold prepare_claimable_spread. intros w sc cur lo hi id w' c H.
  destruct (negb (acc_has (rw_spread w) id)); [discriminate H|].
  destruct (spread_growth_outside w cur lo hi) as [out|] eqn:EO; [|discriminate H]. simpl in H.
  destruct (update_accum_and_claim (rw_spread w) id out) as [[[a1 cs] dust]|] eqn:EU; [|discriminate H]. simpl in H.
  destruct (update_accum_and_claim_spec _ _ _ _ _ _ EU) as [r [ER Hd]]. exists r. split; [exact ER|].
  intros d. cbv zeta. set (g := a_inside (view (CS d) w cur dc0) lo hi - dsel d (ar_snap r)). specialize (Hd d). cbv zeta in Hd.
  assert (G : dsel d (ac_value (rw_spread w)) - dsel d out - dsel d (ar_snap r) = g).
  { unfold g, a_inside. rewrite (spread_growth_outside_view d _ _ _ _ _ EO). simpl. rewrite dsel_dc0. lia. }
  rewrite G in Hd. destruct Hd as [G0 HC]. split; [exact G0|].
  destruct (sc =? P18).
  - simpl in H. obind H. inversion H; subst. exact HC.
  - destruct (scale_down2 cs sc) as [cl|] eqn:ESc; [|discriminate H]. simpl in H. obind H. inversion H; subst.
    rewrite (scale_down2_sel d _ _ _ ESc), HC. reflexivity.
Qed.
