(* C08: frame lemmas - an accumulator operation on position name id leaves the records of every other name alone;
   which records the handlers of CLR/RStep.v write in the spread-reward accumulator. *)
From Coq Require Import ZArith List Bool Lia.
Import ListNotations.
From Osmo Require Import Base.DecModel CL.TickMath CL.CLMath CL.CLPool CL.CLSwap CL.CLStep
  CLR.Accum CLR.Rewards CLR.RSwap CLR.RStep C08.Telescope C08.View.
Open Scope Z_scope.

Lemma rec_get_set : forall m k v k', rec_get (rec_set m k v) k' = if k' =? k then Some v else rec_get m k'.
Proof.
  induction m as [|[a b] m IH]; intros k v k'; simpl.
  - destruct (k' =? k); reflexivity.
  - destruct (k <? a) eqn:E1; simpl.
    + destruct (k' =? k); reflexivity.
    + destruct (k =? a) eqn:E2; simpl.
      * apply Z.eqb_eq in E2. subst a. destruct (k' =? k); reflexivity.
      * rewrite IH. destruct (k' =? a) eqn:E3; [|reflexivity].
        apply Z.eqb_eq in E3. subst a. destruct (k' =? k) eqn:E4; [|reflexivity].
        apply Z.eqb_eq in E4. subst k'. rewrite Z.eqb_refl in E2. discriminate.
Qed.
Lemma rec_get_remove_other : forall m k k', k' <> k -> rec_get (rec_remove m k) k' = rec_get m k'.
Proof.
  induction m as [|[a b] m IH]; intros k k' N; simpl; [reflexivity|].
  destruct (k =? a) eqn:E1; simpl.
  - apply Z.eqb_eq in E1. subst a. destruct (k' =? k) eqn:E; [apply Z.eqb_eq in E; contradiction|reflexivity].
  - destruct (k' =? a); [reflexivity|apply IH; exact N].
Qed.

Definition same_other (a a' : accum) (id : Z) : Prop := forall j, j <> id -> acc_get a' j = acc_get a j.
Lemma same_other_refl : forall a id, same_other a a id. Proof. intros a id j _. reflexivity. Qed.
Lemma same_other_trans : forall a b c id, same_other a b id -> same_other b c id -> same_other a c id.
Proof. intros a b c id H1 H2 j N. rewrite (H2 j N). apply H1. exact N. Qed.

Lemma neq_eqb : forall j id : Z, j <> id -> (j =? id) = false. Proof. intros. apply Z.eqb_neq. assumption. Qed.

Lemma acc_add_to_recs : forall a amt a', acc_add_to a amt = Some a' -> ac_recs a' = ac_recs a /\ ac_total a' = ac_total a.
Proof. unfold acc_add_to. intros a amt a' H. obind H. inversion H; subst. simpl. auto. Qed.
Lemma acc_new_position_other : forall a id sh snap a', acc_new_position a id sh snap = Some a' -> same_other a a' id.
Proof.
  unfold acc_new_position. intros a id sh snap a' H. obind H. inversion H; subst. intros j N.
  unfold acc_get. simpl. rewrite rec_get_set, (neq_eqb _ _ N). reflexivity.
Qed.
Lemma acc_set_position_other : forall a id snap a', acc_set_position a id snap = Some a' -> same_other a a' id.
Proof.
  unfold acc_set_position. intros a id snap a' H. obind H. inversion H; subst. intros j N.
  unfold acc_get. simpl. rewrite rec_get_set, (neq_eqb _ _ N). reflexivity.
Qed.
Lemma acc_update_position_other : forall a id delta snap a', acc_update_position a id delta snap = Some a' -> same_other a a' id.
Proof.
  unfold acc_update_position, acc_remove_from_position, acc_add_to_position. intros a id delta snap a' H.
  destruct (delta =? 0); [discriminate H|]. destruct (delta <? 0); obind H; inversion H; subst; intros j N;
    unfold acc_get; simpl; rewrite rec_get_set, (neq_eqb _ _ N); reflexivity.
Qed.
Lemma to_init_plus_outside_other : forall a id out a', to_init_plus_outside a id out = Some a' -> same_other a a' id.
Proof. unfold to_init_plus_outside. intros a id out a' H. obind H. eapply acc_set_position_other. exact H. Qed.
Lemma acc_claim_rewards_other : forall a id a' c d, acc_claim_rewards a id = Some (a', c, d) -> same_other a a' id.
Proof.
  unfold acc_claim_rewards. intros a id a' c d H. obind H. inversion H; subst. intros j N. unfold acc_get. simpl.
  destruct (ar_shares a0 =? 0); [apply rec_get_remove_other; exact N|]. rewrite rec_get_set, (neq_eqb _ _ N). reflexivity.
Qed.
Lemma update_accum_and_claim_other : forall a id out a' c d, update_accum_and_claim a id out = Some (a', c, d) -> same_other a a' id.
Proof.
  unfold update_accum_and_claim. intros a id out a' c d H.
  destruct (to_init_plus_outside a id out) as [a1|] eqn:E1; [|discriminate H]. simpl in H.
  destruct (acc_claim_rewards a1 id) as [[[a2 c2] d2]|] eqn:E2; [|discriminate H]. simpl in H.
  pose proof (same_other_trans _ _ _ _ (to_init_plus_outside_other _ _ _ _ E1) (acc_claim_rewards_other _ _ _ _ _ E2)) as S.
  destruct (acc_has a2 id); [|inversion H; subst; exact S].
  destruct (dc_safe_sub (ac_value a2) out); [|discriminate H]. simpl in H.
  destruct (acc_set_position a2 id d0) as [a3|] eqn:E3; [|discriminate H]. inversion H; subst.
  eapply same_other_trans; [exact S|]. eapply acc_set_position_other. exact E3.
Qed.

(* ---------- the value of the accumulator is only changed by AddToAccumulator ---------- *)
Lemma acc_new_position_value : forall a id sh snap a', acc_new_position a id sh snap = Some a' -> ac_value a' = ac_value a.
Proof. unfold acc_new_position. intros. obind H. inversion H; reflexivity. Qed.
Lemma acc_set_position_value : forall a id snap a', acc_set_position a id snap = Some a' -> ac_value a' = ac_value a.
Proof. unfold acc_set_position. intros. obind H. inversion H; reflexivity. Qed.
Lemma acc_update_position_value : forall a id delta snap a', acc_update_position a id delta snap = Some a' -> ac_value a' = ac_value a.
Proof.
  unfold acc_update_position, acc_remove_from_position, acc_add_to_position. intros a id delta snap a' H.
  destruct (delta =? 0); [discriminate H|]. destruct (delta <? 0); obind H; inversion H; reflexivity.
Qed.
Lemma to_init_plus_outside_value : forall a id out a', to_init_plus_outside a id out = Some a' -> ac_value a' = ac_value a.
Proof. unfold to_init_plus_outside. intros. obind H. eapply acc_set_position_value. exact H. Qed.
Lemma acc_claim_rewards_value : forall a id a' c d, acc_claim_rewards a id = Some (a', c, d) -> ac_value a' = ac_value a.
Proof. unfold acc_claim_rewards. intros. obind H. inversion H; reflexivity. Qed.
Lemma update_accum_and_claim_value : forall a id out a' c d, update_accum_and_claim a id out = Some (a', c, d) -> ac_value a' = ac_value a.
Proof.
  unfold update_accum_and_claim. intros a id out a' c d H.
  destruct (to_init_plus_outside a id out) as [a1|] eqn:E1; [|discriminate H]. simpl in H.
  destruct (acc_claim_rewards a1 id) as [[[a2 c2] d2]|] eqn:E2; [|discriminate H]. simpl in H.
  pose proof (to_init_plus_outside_value _ _ _ _ E1) as V1. pose proof (acc_claim_rewards_value _ _ _ _ _ E2) as V2.
  destruct (acc_has a2 id); [|inversion H; subst; congruence].
  destruct (dc_safe_sub (ac_value a2) out); [|discriminate H]. simpl in H.
  destruct (acc_set_position a2 id d0) as [a3|] eqn:E3; [|discriminate H]. inversion H; subst.
  rewrite (acc_set_position_value _ _ _ _ E3). congruence.
Qed.

(* ---------- the record an operation on id leaves behind ---------- *)
(* claiming for a position that keeps shares: snapshot := value - growth outside (= growth inside now), nothing unclaimed *)
Lemma update_accum_and_claim_rec : forall a id out a' c d r,
  update_accum_and_claim a id out = Some (a', c, d) -> acc_get a id = Some r -> ar_shares r <> 0 ->
  exists ins, dc_safe_sub (ac_value a) out = Some ins /\ acc_get a' id = Some (mkARec (ar_shares r) ins dc0).
Proof.
  unfold update_accum_and_claim, to_init_plus_outside, acc_set_position, acc_claim_rewards. intros a id out a' c d r H R NZ.
  rewrite R in H. simpl in H.
  destruct (dc_add (ar_snap r) out) as [s1|]; [|discriminate H]. simpl in H.
  unfold acc_get, acc_with_recs in H. simpl in H. rewrite rec_get_set, Z.eqb_refl in H. simpl in H.
  destruct (acc_total_rewards _ _) as [tot|]; [|discriminate H]. simpl in H.
  destruct (dc_truncate_decimal tot) as [[cs ds]|]; [|discriminate H]. simpl in H.
  apply Z.eqb_neq in NZ. rewrite NZ in H. unfold acc_has, acc_get in H. simpl in H.
  rewrite rec_get_set, Z.eqb_refl in H.
  destruct (dc_safe_sub (ac_value a) out) as [ins|]; [|discriminate H]. simpl in H.
  try (rewrite rec_get_set, Z.eqb_refl in H; simpl in H). inversion H; subst. exists ins. split; [reflexivity|].
  unfold acc_get. simpl. rewrite rec_get_set, Z.eqb_refl. reflexivity.
Qed.
