(* C08: executable versions of the side conditions of growth_inside_telescopes (well-formed traces, untouched ticks),
   sound with respect to the propositional ones; used for the non-vacuity examples and, in the correspondence runs, to
   validate on every executed swap that its trace is well-formed. *)
From Coq Require Import ZArith List Bool Lia.
Import ListNotations.
From Osmo Require Import Base.DecModel CL.TickMath CL.CLMath CL.CLPool CL.CLSwap CL.CLStep
  CLR.Accum CLR.Rewards CLR.RSwap CLR.RStep C08.Telescope C08.View C08.Static C08.Stages C08.Ops C08.OpInside C08.SwapTrace C08.Crux.
Open Scope Z_scope.

Fixpoint zmem (x : Z) (l : list Z) : bool := match l with [] => false | y :: r => (x =? y) || zmem x r end.
Lemma zmem_in : forall x l, zmem x l = true <-> In x l.
Proof.
  induction l as [|y r IH]; simpl; [split; [discriminate|tauto]|].
  rewrite orb_true_iff, IH, Z.eqb_eq. split; intros [A|A]; auto.
Qed.

Lemma tm_get_in : forall m i, tm_get m i <> None <-> In i (map fst m).
Proof.
  induction m as [|[a b] m IH]; intros i; simpl; [split; [congruence|tauto]|].
  destruct (i =? a) eqn:E.
  - apply Z.eqb_eq in E. subst. split; [auto|discriminate].
  - apply Z.eqb_neq in E. rewrite IH. split; [auto|]. intros [A|A]; [congruence|assumption].
Qed.

Definition same_side_b (c c' i : Z) : bool := Bool.eqb (i <=? c) (i <=? c').
Lemma same_side_b_ok : forall c c' i, same_side_b c c' i = true <-> same_side c c' i.
Proof.
  intros. unfold same_side_b, same_side. rewrite eqb_true_iff.
  destruct (i <=? c) eqn:E1; destruct (i <=? c') eqn:E2.
  - apply Z.leb_le in E1, E2. tauto.
  - apply Z.leb_le in E1. apply Z.leb_gt in E2. split; [discriminate|]. intro H. exfalso. apply H in E1. lia.
  - apply Z.leb_gt in E1. apply Z.leb_le in E2. split; [discriminate|]. intro H. exfalso. apply H in E2. lia.
  - apply Z.leb_gt in E1, E2. split; [|reflexivity]. intros _. split; lia.
Qed.

Definition ev_wf_b (s : astate) (e : aev) : bool :=
  let ks := map fst (a_O s) in
  match e with
  | AGrow _ => true
  | ACross i c' => zmem i ks && negb (same_side_b (a_c s) c' i)
                   && forallb (fun j => (j =? i) || same_side_b (a_c s) c' j) ks
  | AMove c' => forallb (fun j => same_side_b (a_c s) c' j) ks
  | AInit i => negb (zmem i ks)
  | ARemove _ => true
  end.
Lemma ev_wf_b_ok : forall s e, ev_wf_b s e = true -> ev_wf s e.
Proof.
  intros s e H. destruct e; simpl in *; try exact I.
  - apply andb_true_iff in H. destruct H as [H H3]. apply andb_true_iff in H. destruct H as [H1 H2].
    split; [|split].
    + unfold keys. apply tm_get_in. apply zmem_in. exact H1.
    + intro X. apply same_side_b_ok in X. rewrite X in H2. discriminate.
    + intros j Kj Nj. unfold keys in Kj. apply tm_get_in in Kj. rewrite forallb_forall in H3. specialize (H3 j Kj).
      apply orb_true_iff in H3. destruct H3 as [A|A]; [apply Z.eqb_eq in A; contradiction|apply same_side_b_ok; exact A].
  - intros j Kj. unfold keys in Kj. apply tm_get_in in Kj. rewrite forallb_forall in H. apply same_side_b_ok. apply H. exact Kj.
  - intro K. unfold keys in K. apply tm_get_in in K. apply zmem_in in K. rewrite K in H. discriminate.
Qed.
Fixpoint evs_wf_b (s : astate) (evs : list aev) : bool :=
  match evs with [] => true | e :: r => ev_wf_b s e && evs_wf_b (a_step s e) r end.
Lemma evs_wf_b_ok : forall evs s, evs_wf_b s evs = true -> evs_wf s evs.
Proof.
  induction evs as [|e r IH]; intros s H; simpl in *; [exact I|]. apply andb_true_iff in H. destruct H as [H1 H2].
  split; [apply ev_wf_b_ok; exact H1|apply IH; exact H2].
Qed.

Definition mid_tick_ok_b (rs : rstate) (o : rop) : bool :=
  match o with
  | RBase (OAdd owner id _ _ _ _) =>
      match pos_get (s_pos (r_base rs)) id with
      | Some q => match r_withdraw rs owner id (ps_liq q) with Some (rs1, _) => cur_tick rs1 =? cur_tick rs | None => true end
      | None => true
      end
  | _ => true
  end.
Lemma mid_tick_ok_b_ok : forall rs o, mid_tick_ok_b rs o = true -> mid_tick_ok rs o.
Proof.
  intros rs o H. destruct o as [b| | |]; simpl; try exact I. destruct b; simpl; try exact I.
  intros q rs1 w Q W. simpl in H. rewrite Q, W in H. apply Z.eqb_eq. exact H.
Qed.

Definition op_ok_b (k : comp) (rs : rstate) (o : rop) (l u : Z) : bool :=
  match rstep rs o with
  | (rs', Some _) =>
      if is_swap o then evs_wf_b (rview k rs) (op_trace k rs o)
      else (cur_tick rs' =? cur_tick rs) && mid_tick_ok_b rs o && negb (zmem l (touched rs o)) && negb (zmem u (touched rs o))
  | (_, None) => true
  end.
Lemma op_ok_b_ok : forall k rs o l u, op_ok_b k rs o l u = true -> op_ok k rs o l u.
Proof.
  intros k rs o l u H. unfold op_ok_b, op_ok in *. destruct (rstep rs o) as [rs' [r|]]; [|exact I].
  destruct (is_swap o); [apply evs_wf_b_ok; exact H|].
  apply andb_true_iff in H. destruct H as [H H4]. apply andb_true_iff in H. destruct H as [H H3].
  apply andb_true_iff in H. destruct H as [H1 H2].
  split; [apply Z.eqb_eq; exact H1|]. split; [apply mid_tick_ok_b_ok; exact H2|].
  split; intro X; apply zmem_in in X; [rewrite X in H3|rewrite X in H4]; discriminate.
Qed.
Fixpoint hist_ok_b (k : comp) (rs : rstate) (ops : list rop) (l u : Z) : bool :=
  match ops with [] => true | o :: r => op_ok_b k rs o l u && hist_ok_b k (fst (rstep rs o)) r l u end.
Lemma hist_ok_b_ok : forall ops k rs l u, hist_ok_b k rs ops l u = true -> hist_ok k rs ops l u.
Proof.
  induction ops as [|o r IH]; intros k rs l u H; simpl in *; [exact I|]. apply andb_true_iff in H. destruct H as [H1 H2].
  split; [apply op_ok_b_ok; exact H1|apply IH; exact H2].
Qed.

Fixpoint tm_sorted_b (m : tmap) : bool :=
  match m with
  | [] => true
  | (k, _) :: r => forallb (fun kv => k <? fst kv) r && tm_sorted_b r
  end.
Lemma tm_sorted_b_ok : forall m, tm_sorted_b m = true -> tm_sorted m.
Proof.
  induction m as [|[k v] r IH]; simpl; intro H; [constructor|]. apply andb_true_iff in H. destruct H as [H1 H2].
  constructor; [|apply IH; exact H2]. rewrite forallb_forall in H1. apply Forall_forall. intros x Hx. apply Z.ltb_lt. apply H1. exact Hx.
Qed.
Definition tt_ok_b (k : comp) (rs : rstate) (l u : Z) : bool :=
  tm_sorted_b (vmap k (rw_tt (r_rw rs)))
  && match tt_get (rw_tt (r_rw rs)) l with Some _ => true | None => false end
  && match tt_get (rw_tt (r_rw rs)) u with Some _ => true | None => false end.
Lemma tt_ok_b_ok : forall k rs l u, tt_ok_b k rs l u = true -> tt_ok k rs l u.
Proof.
  intros k rs l u H. unfold tt_ok_b in H. apply andb_true_iff in H. destruct H as [H H3]. apply andb_true_iff in H. destruct H as [H1 H2].
  split; [apply tm_sorted_b_ok; exact H1|]. split; [destruct (tt_get _ l)|destruct (tt_get _ u)]; congruence.
Qed.

(* every executed swap of a history has a well-formed trace (spread component of token 0: well-formedness only looks at
   the stored tick indices and the current ticks, which are the same for every component) *)
Fixpoint swaps_wf_b (rs : rstate) (ops : list rop) : bool :=
  match ops with
  | [] => true
  | o :: r =>
    (match rstep rs o with
     | (_, Some _) => if is_swap o then evs_wf_b (rview (CS false) rs) (op_trace (CS false) rs o) else true
     | _ => true
     end) && swaps_wf_b (fst (rstep rs o)) r
  end.
