(* C08 / C01, incentive account, part 1: the exact amount owed by the six uptime accumulators, the remaining emission of the
   incentive records, and the accrual stage (updateGivenPoolUptimeAccumulatorsToNow): what the accumulators gain per unit of
   liquidity, times the liquidity, is at most what the records lose, times the scaling factor. *)
From Coq Require Import ZArith List Bool Lia.
Import ListNotations.
From Osmo Require Import Base.DecModel CL.TickMath CL.CLMath CL.CLPool CL.CLSwap CL.CLStep
  CLR.Accum CLR.Rewards CLR.RSwap CLR.RStep C07.Base C07.LP C03.Steps
  C08.Proj C08.Telescope C08.View C08.Static C08.Stages C08.Ops C08.OpInside C08.SwapTrace C08.Crux
  C08.Claim C08.Conseq C08.Frame C08.Never C08.Paid C08.IncAcc.
Open Scope Z_scope.

Definition acc_u (u : nat) (w : rwd) : accum := nth u (rw_up w) acc_empty.
Definition insU (u : nat) (d : bool) (w : rwd) (cur l h : Z) : Z := a_inside (view (CU u d) w cur dc0) l h.
Definition owedU (u : nat) (d : bool) (w : rwd) (cur : Z) (p : position) : Z :=
  match acc_get (acc_u u w) (ps_id p) with
  | Some r => owedA d (insU u d w cur (ps_lower p) (ps_upper p)) r
  | None => 0
  end.
Definition sharesU (u : nat) (w : rwd) (p : position) : Z :=
  match acc_get (acc_u u w) (ps_id p) with Some r => ar_shares r | None => 0 end.
Fixpoint usum (n : nat) (f : nat -> Z) : Z := match n with O => 0 | S m => usum m f + f m end.

Lemma usum_ext : forall n f g, (forall u, (u < n)%nat -> f u = g u) -> usum n f = usum n g.
Proof. induction n as [|n IH]; intros f g H; simpl; [reflexivity|]. rewrite (IH f g), (H n); [reflexivity|lia|intros; apply H; lia]. Qed.
Lemma usum_le : forall n f g, (forall u, (u < n)%nat -> f u <= g u) -> usum n f <= usum n g.
Proof.
  induction n as [|n IH]; intros f g H; simpl; [lia|]. pose proof (H n ltac:(lia)).
  assert (usum n f <= usum n g) by (apply IH; intros; apply H; lia). lia.
Qed.
Lemma usum_plus : forall n f g, usum n (fun u => f u + g u) = usum n f + usum n g.
Proof. induction n as [|n IH]; intros; simpl; [reflexivity|]. rewrite IH. lia. Qed.
Lemma usum_scale : forall n c f, usum n (fun u => c * f u) = c * usum n f.
Proof. induction n as [|n IH]; intros; simpl; [lia|]. rewrite IH. lia. Qed.

Lemma sel_G_CU : forall u d w, sel_G (CU u d) w = dsel d (ac_value (acc_u u w)).
Proof. intros. unfold sel_G, acc_u. change dc0 with (ac_value acc_empty). rewrite map_nth. reflexivity. Qed.

Lemma owedU_frame : forall u d w w' cur cur' p delta,
  acc_get (acc_u u w') (ps_id p) = acc_get (acc_u u w) (ps_id p) ->
  insU u d w' cur' (ps_lower p) (ps_upper p) = insU u d w cur (ps_lower p) (ps_upper p) + delta ->
  owedU u d w' cur' p = owedU u d w cur p + delta * sharesU u w p.
Proof.
  intros u d w w' cur cur' p delta R I. unfold owedU, sharesU, owedA. rewrite R, I.
  destruct (acc_get (acc_u u w) (ps_id p)); lia.
Qed.

(* ---------- incentive records ---------- *)
Definition den_match (d : bool) (r : inc_rec) : bool := Bool.eqb d (negb (ir_denom r =? 0)).
Definition remD (d : bool) (l : list inc_rec) : Z := fold_right (fun r a => (if den_match d r then ir_remaining r else 0) + a) 0 l.
Definition rec_ok (r : inc_rec) : Prop := 0 < ir_rate r /\ 0 <= ir_remaining r.
Definition recs_ok (l : list inc_rec) : Prop := Forall rec_ok l.

Lemma remD_filter : forall d l, recs_ok l -> remD d (filter (fun r => 0 <? ir_remaining r) l) = remD d l.
Proof.
  induction l as [|r l IH]; intro H; simpl; [reflexivity|]. inversion H; subst. destruct H2 as [_ R0].
  destruct (0 <? ir_remaining r) eqn:E; simpl; rewrite (IH H3); [reflexivity|].
  apply Z.ltb_ge in E. assert (ir_remaining r = 0) by lia. destruct (den_match d r); lia.
Qed.
Lemma recs_ok_filter : forall f l, recs_ok l -> recs_ok (filter f l).
Proof. intros f l H. unfold recs_ok in *. rewrite Forall_forall in *. intros x Hx. apply filter_In in Hx. apply H. tauto. Qed.

(* one record inside calcAccruedIncentivesForAccum *)
Lemma accrue_one_spec : forall u liq dt18 isc now r acc acc' r' d,
  accrue_one u liq dt18 isc now r acc = Some (acc', r') -> 0 < liq -> 0 < isc -> 0 <= dt18 -> rec_ok r ->
  exists per, dsel d acc' = dsel d acc + (if den_match d r then per else 0) /\ 0 <= per /\
    per * liq <= (ir_remaining r - ir_remaining r') * isc /\ ir_remaining r' <= ir_remaining r /\ rec_ok r' /\ den_match d r' = den_match d r.
Proof.
  unfold accrue_one. intros u liq dt18 isc now r acc acc' r' d H Hl Hi Hd [RR R0]. pose proof P18_pos as HP.
  assert (SAME : acc' = acc -> r' = r -> exists per, dsel d acc' = dsel d acc + (if den_match d r then per else 0) /\ 0 <= per /\
            per * liq <= (ir_remaining r - ir_remaining r') * isc /\ ir_remaining r' <= ir_remaining r /\ rec_ok r' /\ den_match d r' = den_match d r).
  { intros -> ->. exists 0. destruct (den_match d r); repeat split; try lia; assumption. }
  destruct (negb (ir_start r <? now) || negb (ir_up r =? u)); [inversion H; subst; apply SAME; reflexivity|].
  destruct (dchk (d_mul_truncate dt18 (ir_rate r))) as [total|] eqn:ET; [|inversion H; subst; apply SAME; reflexivity].
  destruct (dchk (d_mul_truncate total isc)) as [scaled|] eqn:ES; [|inversion H; subst; apply SAME; reflexivity].
  apply dchk_some in ET, ES. unfold d_mul_truncate, chop_trunc in ET, ES.
  assert (T0 : 0 <= total) by (subst total; apply Z.quot_pos; [apply Z.mul_nonneg_nonneg; lia|exact HP]).
  assert (S0 : 0 <= scaled /\ scaled * P18 <= total * isc).
  { subst scaled. assert (N : 0 <= total * isc) by nia. destruct (quot_bounds _ _ N HP) as [A _]. split; [apply Z.quot_pos; lia|lia]. }
  destruct S0 as [S0 S1].
  destruct (nz liq); [|discriminate H]. cbv beta iota in H.
  destruct (dchk (d_quo_truncate scaled liq)) as [per|] eqn:EP; [|discriminate H]. cbv beta iota in H. apply dchk_some in EP.
  assert (PB : 0 <= per /\ per * liq <= scaled * P18).
  { subst per. unfold d_quo_truncate. assert (N : 0 <= scaled * P18) by nia. destruct (quot_bounds _ _ N Hl) as [A _].
    split; [apply Z.quot_pos; lia|lia]. }
  destruct PB as [P0 P1].
  destruct (total <=? ir_remaining r) eqn:EC.
  - apply Z.leb_le in EC. destruct (dc_add acc (dc_one (ir_denom r) per)) as [a1|] eqn:EA; [|discriminate H]. cbv beta iota in H.
    destruct (dchk (ir_remaining r - total)) as [rem|] eqn:ER; [|discriminate H]. apply dchk_some in ER. inversion H; subst acc' r'. clear H.
    exists per. rewrite (dsel_add d _ _ _ EA), dsel_one. unfold den_match. cbn [ir_remaining ir_denom ir_rate].
    split; [reflexivity|]. split; [exact P0|]. split; [subst rem; replace (ir_remaining r - (ir_remaining r - total)) with total by lia; lia|]. split; [clear - ER T0; lia|]. split; [unfold rec_ok; cbn [ir_remaining ir_rate]; split; [exact RR|clear - ER EC; lia]|reflexivity].
  - apply Z.leb_gt in EC.
    destruct (dchk (d_mul_truncate (ir_remaining r) isc)) as [rs|] eqn:ERS; [|inversion H; subst; apply SAME; reflexivity].
    apply dchk_some in ERS. unfold d_mul_truncate, chop_trunc in ERS.
    destruct (dchk (d_quo_truncate rs liq)) as [per'|] eqn:EP'; [|discriminate H]. cbv beta iota in H. apply dchk_some in EP'.
    destruct (dc_add acc (dc_one (ir_denom r) per')) as [a1|] eqn:EA; [|discriminate H]. inversion H; subst acc' r'. clear H.
    assert (RS : 0 <= rs /\ rs * P18 <= ir_remaining r * isc).
    { subst rs. assert (N : 0 <= ir_remaining r * isc) by nia. destruct (quot_bounds _ _ N HP) as [A _]. split; [apply Z.quot_pos; lia|lia]. }
    destruct RS as [RS0 RS1].
    assert (PB' : 0 <= per' /\ per' * liq <= rs * P18).
    { subst per'. unfold d_quo_truncate. assert (N : 0 <= rs * P18) by nia. destruct (quot_bounds _ _ N Hl) as [A _].
      split; [apply Z.quot_pos; lia|lia]. }
    destruct PB' as [Q0 Q1].
    exists per'. rewrite (dsel_add d _ _ _ EA), dsel_one. unfold den_match. cbn [ir_remaining ir_denom ir_rate].
    split; [reflexivity|]. split; [exact Q0|]. split; [rewrite Z.sub_0_r; lia|]. split; [exact R0|]. split; [unfold rec_ok; cbn [ir_remaining ir_rate]; split; [exact RR|lia]|reflexivity].
Qed.

Lemma calc_accrued_spec : forall u liq dt18 isc now d recs acc acc' recs',
  calc_accrued u liq dt18 isc now recs acc = Some (acc', recs') -> 0 < liq -> 0 < isc -> 0 <= dt18 -> recs_ok recs ->
  0 <= dsel d acc' - dsel d acc /\ (dsel d acc' - dsel d acc) * liq <= (remD d recs - remD d recs') * isc /\
  remD d recs' <= remD d recs /\ recs_ok recs'.
Proof.
  induction recs as [|r rest IH]; intros acc acc' recs' H Hl Hi Hd OK; simpl in H.
  - inversion H; subst. simpl. repeat split; try lia. constructor.
  - inversion OK as [|? ? H1 H2]; subst.
    destruct (accrue_one u liq dt18 isc now r acc) as [[a1 r1]|] eqn:E1; [|discriminate H]. cbv beta iota in H.
    destruct (calc_accrued u liq dt18 isc now rest a1) as [[a2 rest2]|] eqn:E2; [|discriminate H]. inversion H; subst acc' recs'. clear H.
    destruct (accrue_one_spec _ _ _ _ _ _ _ _ _ d E1 Hl Hi Hd H1) as [per [A [P0 [PB [RL [OK1 DM]]]]]].
    destruct (IH a1 a2 rest2 E2 Hl Hi Hd H2) as [B0 [B1 [B2 OK2]]]. simpl remD. rewrite DM.
    split; [destruct (den_match d r); lia|]. split; [|split; [destruct (den_match d r); lia|constructor; assumption]].
    destruct (den_match d r).
    + replace (dsel d a2 - dsel d acc) with ((dsel d a2 - dsel d a1) + per) by lia. nia.
    + replace (dsel d a2 - dsel d acc) with (dsel d a2 - dsel d a1) by lia. nia.
Qed.

Lemma usum_shift : forall n f, usum (S n) f = f O + usum n (fun u => f (S u)).
Proof. induction n as [|n IH]; intro f; [simpl; lia|]. change (usum (S (S n)) f) with (usum (S n) f + f (S n)). rewrite IH. simpl. lia. Qed.

Lemma accrue_all_spec : forall d liq dt18 isc now ups u recs ups' recs',
  accrue_all u ups liq dt18 isc now recs = Some (ups', recs') -> P18 <= liq -> 0 < isc -> 0 <= dt18 -> recs_ok recs ->
  length ups' = length ups /\
  (forall i, ac_recs (nth i ups' acc_empty) = ac_recs (nth i ups acc_empty) /\ ac_total (nth i ups' acc_empty) = ac_total (nth i ups acc_empty) /\
             0 <= dsel d (ac_value (nth i ups' acc_empty)) - dsel d (ac_value (nth i ups acc_empty))) /\
  usum (length ups) (fun i => dsel d (ac_value (nth i ups' acc_empty)) - dsel d (ac_value (nth i ups acc_empty))) * liq
    <= (remD d recs - remD d recs') * isc /\
  remD d recs' <= remD d recs /\ recs_ok recs'.
Proof.
  induction ups as [|a rest IH]; intros u recs ups' recs' H Hl Hi Hd OK; simpl in H.
  - inversion H; subst. simpl. split; [reflexivity|]. split; [intro i; destruct i; simpl; repeat split; lia|]. repeat split; try lia. exact OK.
  - unfold calc_accrued_for_accum in H. pose proof P18_pos as HP.
    destruct (negb (0 <? liq) || negb (0 <? dt18)) eqn:EG; [discriminate H|].
    destruct (calc_accrued u liq dt18 isc now recs dc0) as [[add recs1]|] eqn:E1; [|discriminate H]. cbv beta iota in H.
    destruct (acc_add_to a add) as [a'|] eqn:EA; [|discriminate H]. cbv beta iota in H.
    destruct (accrue_all (u + 1) rest liq dt18 isc now recs1) as [[rest' recs2]|] eqn:E2; [|discriminate H]. inversion H; subst ups' recs'. clear H.
    destruct (calc_accrued_spec _ _ _ _ _ d _ _ _ _ E1 ltac:(lia) Hi Hd OK) as [A0 [A1 [A2 OK1]]]. rewrite dsel_dc0, Z.sub_0_r in A0, A1.
    destruct (IH _ _ _ _ E2 Hl Hi Hd OK1) as [L [PW [SM [RL OK2]]]].
    destruct (acc_add_to_recs _ _ _ EA) as [RR RT].
    assert (VA : dsel d (ac_value a') = dsel d (ac_value a) + dsel d add).
    { unfold acc_add_to in EA. destruct (dc_add (ac_value a) add) as [v|] eqn:EV; [|discriminate EA]. inversion EA; subst. simpl. apply (dsel_add d _ _ _ EV). }
    split; [simpl; lia|]. split.
    + intro i. destruct i as [|i]; simpl; [repeat split; [exact RR|exact RT|lia]|apply PW].
    + split; [|split; [lia|exact OK2]].
      change (length (a :: rest)) with (S (length rest)). rewrite usum_shift. cbn [nth]. rewrite VA.
      replace (dsel d (ac_value a) + dsel d add - dsel d (ac_value a)) with (dsel d add) by lia. nia.
Qed.

Lemma update_uptime_spec : forall w liq now w' d, update_uptime w liq now = Some w' -> recs_ok (rw_recs w) -> 0 < rw_inc_scaling w ->
  rw_tt w' = rw_tt w /\ rw_spread w' = rw_spread w /\ rw_inc_scaling w' = rw_inc_scaling w /\ length (rw_up w') = length (rw_up w) /\
  (forall u, ac_recs (acc_u u w') = ac_recs (acc_u u w) /\ ac_total (acc_u u w') = ac_total (acc_u u w) /\
             0 <= sel_G (CU u d) w' - sel_G (CU u d) w) /\
  usum (length (rw_up w)) (fun u => sel_G (CU u d) w' - sel_G (CU u d) w) * liq + remD d (rw_recs w') * rw_inc_scaling w
    <= remD d (rw_recs w) * rw_inc_scaling w /\
  recs_ok (rw_recs w') /\ rw_next_inc w' = rw_next_inc w.
Proof.
  unfold update_uptime. intros w liq now w' d H OK Hi.
  assert (SAME : forall recs, remD d recs = remD d (rw_recs w) -> recs_ok recs ->
            forall w2, w2 = mkRwd (rw_tt w) (rw_spread w) (rw_up w) recs (rw_next_inc w) now (rw_inc_scaling w) \/ w2 = w ->
            rw_up w2 = rw_up w -> remD d (rw_recs w2) = remD d (rw_recs w) -> recs_ok (rw_recs w2) ->
            rw_tt w2 = rw_tt w /\ rw_spread w2 = rw_spread w /\ rw_inc_scaling w2 = rw_inc_scaling w /\ length (rw_up w2) = length (rw_up w) /\
            (forall u, ac_recs (acc_u u w2) = ac_recs (acc_u u w) /\ ac_total (acc_u u w2) = ac_total (acc_u u w) /\
                       0 <= sel_G (CU u d) w2 - sel_G (CU u d) w) /\
            usum (length (rw_up w)) (fun u => sel_G (CU u d) w2 - sel_G (CU u d) w) * liq + remD d (rw_recs w2) * rw_inc_scaling w
              <= remD d (rw_recs w) * rw_inc_scaling w /\ recs_ok (rw_recs w2) /\ rw_next_inc w2 = rw_next_inc w).
  { intros recs _ _ w2 Hw2 UP RM OK2.
    assert (G : forall u, sel_G (CU u d) w2 = sel_G (CU u d) w) by (intro u; unfold sel_G; rewrite UP; reflexivity).
    assert (U0 : usum (length (rw_up w)) (fun u => sel_G (CU u d) w2 - sel_G (CU u d) w) = 0).
    { rewrite (usum_ext _ _ (fun _ => 0)); [|intros u _; rewrite G; lia]. clear. induction (length (rw_up w)); simpl; lia. }
    rewrite U0, RM. destruct Hw2 as [-> | ->]; simpl; repeat split; try reflexivity; try lia; try assumption;
      try (unfold acc_u; simpl; reflexivity); try (rewrite G; lia). }
  destruct (now - rw_last w =? 0); [inversion H; subst w'; apply (SAME (rw_recs w) eq_refl OK w (or_intror eq_refl) eq_refl eq_refl OK)|].
  destruct (now - rw_last w <? 0) eqn:EN; [discriminate H|]. apply Z.ltb_ge in EN.
  destruct (liq <? P18) eqn:EL.
  - inversion H; subst w'. clear H.
    apply (SAME (filter (fun r => 0 <? ir_remaining r) (rw_recs w)) (remD_filter d _ OK) (recs_ok_filter _ _ OK) _ (or_introl eq_refl) eq_refl);
      simpl; [apply remD_filter; exact OK|apply recs_ok_filter; exact OK].
  - apply Z.ltb_ge in EL.
    destruct (accrue_all 0 (rw_up w) liq (d_from_int (now - rw_last w)) (rw_inc_scaling w) now (rw_recs w)) as [[ups recs]|] eqn:EA; [|discriminate H].
    inversion H; subst w'. clear H. pose proof P18_pos as HP.
    assert (D0 : 0 <= d_from_int (now - rw_last w)) by (unfold d_from_int; nia).
    destruct (accrue_all_spec d _ _ _ _ _ _ _ _ _ EA EL Hi D0 OK) as [L [PW [SM [RL OK2]]]].
    assert (G : forall u, sel_G (CU u d) (mkRwd (rw_tt w) (rw_spread w) ups (filter (fun r => 0 <? ir_remaining r) recs) (rw_next_inc w) now (rw_inc_scaling w))
                          - sel_G (CU u d) w = dsel d (ac_value (nth u ups acc_empty)) - dsel d (ac_value (nth u (rw_up w) acc_empty))).
    { intro u. rewrite !sel_G_CU. unfold acc_u. simpl. reflexivity. }
    cbn [rw_tt rw_spread rw_inc_scaling rw_up rw_recs rw_next_inc]. split; [reflexivity|]. split; [reflexivity|]. split; [reflexivity|]. split; [exact L|]. split.
    + intro u. destruct (PW u) as [A [B C]]. rewrite G. unfold acc_u. cbn [rw_up]. auto.
    + rewrite (remD_filter d _ OK2). split; [|split; [apply recs_ok_filter; exact OK2|reflexivity]].
      rewrite (usum_ext _ _ (fun u => dsel d (ac_value (nth u ups acc_empty)) - dsel d (ac_value (nth u (rw_up w) acc_empty)))) by (intros u _; apply G).
      lia.
Qed.

(* ---------- the accrual stage on the amounts owed ---------- *)
Definition NU : nat := n_uptimes.
Definition OwedI (d : bool) (w : rwd) (cur : Z) (P : list position) : Z := usum NU (fun u => zsum (owedU u d w cur) P).
(* every listed position has a record in each uptime accumulator, with shares = liquidity *)
Definition RMU (w : rwd) (P : list position) : Prop :=
  forall u p, (u < NU)%nat -> In p P -> exists r, acc_get (acc_u u w) (ps_id p) = Some r /\ ar_shares r = ps_liq p /\
    forall d, 0 <= dsel d (ar_unclaimed r).
Lemma RMU_shares : forall w P u p, RMU w P -> (u < NU)%nat -> In p P -> sharesU u w p = ps_liq p.
Proof. intros w P u p H Hu Hp. destruct (H u p Hu Hp) as [r [R [S _]]]. unfold sharesU. rewrite R. exact S. Qed.

Lemma sum_liq_zsum' : forall c P, sum_liq (f_range c) P = zsum (fun p => if in_rng (ps_lower p) (ps_upper p) c then ps_liq p else 0) P.
Proof. induction P as [|p P IH]; simpl; [reflexivity|]. rewrite IH. unfold wt, f_range, in_rng. reflexivity. Qed.

(* a stage that grows the uptime accumulators at a fixed tick without touching trackers or records *)
Lemma stage_grow_U : forall cur w w' P d, rw_tt w' = rw_tt w -> PT w P -> RMU w P ->
  (forall u j, acc_get (acc_u u w') j = acc_get (acc_u u w) j) ->
  OwedI d w' cur P = OwedI d w cur P + usum NU (fun u => sel_G (CU u d) w' - sel_G (CU u d) w) * sum_liq (f_range cur) P /\
  PT w' P /\ RMU w' P.
Proof.
  intros cur w w' P d TT HPT HRM RG. split; [|split].
  - unfold OwedI. rewrite (Z.mul_comm (usum NU _) (sum_liq (f_range cur) P)), <- usum_scale, <- usum_plus. apply usum_ext. intros u Hu.
    rewrite (Z.mul_comm (sum_liq (f_range cur) P)), sum_liq_zsum', <- zsum_scale, <- zsum_plus. apply zsum_ext. intros p Hp.
    destruct (HPT p Hp) as [Hlu TK].
    destruct (SE_inside_gen (CU u d) cur [] w w' _ _ (SE_same_tt (CU u d) cur _ _ TT) Hlu TK ltac:(simpl; tauto) ltac:(simpl; tauto)) as [I _].
    rewrite (owedU_frame u d w w' cur cur p _ (RG u _) I), (RMU_shares w P u p HRM Hu Hp).
    destruct (in_rng _ _ _); lia.
  - intros p Hp. destruct (HPT p Hp) as [Hlu [A [B C]]]. split; [exact Hlu|]. unfold tks. rewrite TT. auto.
  - intros u p Hu Hp. rewrite RG. apply HRM; assumption.
Qed.

Lemma stage_accrue : forall cur w liq now w' P d, update_uptime w liq now = Some w' -> recs_ok (rw_recs w) -> 0 < rw_inc_scaling w ->
  length (rw_up w) = NU -> PT w P -> RMU w P -> liq = sum_liq (f_range cur) P ->
  OwedI d w' cur P + remD d (rw_recs w') * rw_inc_scaling w <= OwedI d w cur P + remD d (rw_recs w) * rw_inc_scaling w /\
  PT w' P /\ RMU w' P /\ recs_ok (rw_recs w') /\ rw_tt w' = rw_tt w /\ rw_spread w' = rw_spread w /\
  rw_inc_scaling w' = rw_inc_scaling w /\ length (rw_up w') = NU /\ rw_next_inc w' = rw_next_inc w /\
  (forall u j, acc_get (acc_u u w') j = acc_get (acc_u u w) j).
Proof.
  intros cur w liq now w' P d H OK Hi LN HPT HRM HL.
  destruct (update_uptime_spec _ _ _ _ d H OK Hi) as [TT [SP [IS [LU [PW [SM [OK' NI]]]]]]].
  assert (RG : forall u j, acc_get (acc_u u w') j = acc_get (acc_u u w) j).
  { intros u j. unfold acc_get. destruct (PW u) as [A _]. rewrite A. reflexivity. }
  destruct (stage_grow_U cur w w' P d TT HPT HRM RG) as [OW [PT' RM']].
  rewrite LN in SM. rewrite OW, <- HL.
  split; [lia|]. split; [exact PT'|]. split; [exact RM'|]. split; [exact OK'|]. split; [exact TT|]. split; [exact SP|].
  split; [exact IS|]. split; [rewrite LU; exact LN|]. split; [exact NI|exact RG].
Qed.
