(* C08 / C01, incentive account, part 4: every operation preserves the bookkeeping invariant PII and moves the potential
     PhiI_d = 2 * (sum over the six uptime accumulators and the open positions of the amount owed
                   + remaining emission of the incentive records * scaling) - 2 * (incentive account balance_d) * scaling * 10^18
   up by at most (number of MulDec roundings) * 10^18. *)
From Coq Require Import ZArith List Bool Lia.
Import ListNotations.
From Osmo Require Import Base.DecModel CL.TickMath CL.CLMath CL.CLPool CL.CLSwap CL.CLStep
  CLR.Accum CLR.Rewards CLR.RSwap CLR.RStep C07.Base C07.TickLemmas C07.LP C07.Swap C07.Proofs C03.Steps
  C08.Proj C08.Telescope C08.View C08.Static C08.Stages C08.Ops C08.OpInside C08.SwapTrace C08.Crux
  C08.Claim C08.Conseq C08.Frame C08.Never C08.SwapWf C08.Dom C08.StaticOk C08.Paid C08.PaidOps
  C08.PaidSwap C08.PaidHist C08.IncAcc C08.Inc C08.IncList C08.IncStage.
Open Scope Z_scope.

Definition PII (rs : rstate) : Prop :=
  RInv rs /\ IW (r_rw rs) (s_pos (r_base rs)) /\
  (forall u j, s_next_id (r_base rs) <= j -> acc_get (acc_u u (r_rw rs)) j = None).
Definition isc_of (rs : rstate) : Z := rw_inc_scaling (r_rw rs).
Definition inc_bal (d : bool) (rs : rstate) : Z := pr_sel d (b_inc (s_bank (r_base rs))).
Definition OwedInc (d : bool) (rs : rstate) : Z :=
  OwedI d (r_rw rs) (cur_tick rs) (s_pos (r_base rs)) + remD d (rw_recs (r_rw rs)) * isc_of rs.
Definition PhiI (d : bool) (rs : rstate) : Z := 2 * OwedInc d rs - 2 * (inc_bal d rs * isc_of rs * P18).

(* ---------- what the pool-model operations leave alone ---------- *)
Lemma send_user_to_pool_binc : forall b u a0 a1 b', send_user_to_pool b u a0 a1 = Some b' -> b_inc b' = b_inc b.
Proof.
  unfold send_user_to_pool. intros b u a0 a1 b' H. destruct ((a0 <? 0) || (a1 <? 0)); [discriminate H|].
  destruct (user_bal b u) as [[u0 u1]|]; [|discriminate H]. simpl in H. destruct ((u0 <? a0) || (u1 <? a1)); [discriminate H|].
  destruct (b_pool b). inversion H; subst. reflexivity.
Qed.
Lemma send_pool_to_user_binc : forall b u a0 a1 b', send_pool_to_user b u a0 a1 = Some b' -> b_inc b' = b_inc b.
Proof.
  unfold send_pool_to_user. intros b u a0 a1 b' H. destruct ((a0 <? 0) || (a1 <? 0)); [discriminate H|].
  destruct (user_bal b u) as [[u0 u1]|]; [|discriminate H]. simpl in H. destruct (b_pool b) as [p0 p1].
  destruct ((p0 <? a0) || (p1 <? a1)); [discriminate H|]. inversion H; subst. reflexivity.
Qed.
Lemma send_spread_to_user_binc : forall b u a0 a1 b', send_spread_to_user b u a0 a1 = Some b' -> b_inc b' = b_inc b.
Proof.
  unfold send_spread_to_user. intros b u a0 a1 b' H. destruct ((a0 <? 0) || (a1 <? 0)); [discriminate H|].
  destruct (user_bal b u) as [[u0 u1]|]; [|discriminate H]. simpl in H. destruct (b_spread b) as [p0 p1].
  destruct ((p0 <? a0) || (p1 <? a1)); [discriminate H|]. inversion H; subst. reflexivity.
Qed.
Lemma send_inc_to_user_binc : forall b u a0 a1 b', send_inc_to_user b u a0 a1 = Some b' ->
  b_inc b' = (fst (b_inc b) - a0, snd (b_inc b) - a1).
Proof.
  unfold send_inc_to_user. intros b u a0 a1 b' H. destruct ((a0 <? 0) || (a1 <? 0)); [discriminate H|].
  destruct (user_bal b u) as [[u0 u1]|]; [|discriminate H]. simpl in H. destruct (b_inc b) as [p0 p1].
  destruct ((p0 <? a0) || (p1 <? a1)); [discriminate H|]. inversion H; subst. reflexivity.
Qed.

Lemma create_position_binc : forall s owner a0 a1 m0 m1 lo hi s' c, create_position s owner a0 a1 m0 m1 lo hi = Some (s', c) ->
  b_inc (s_bank s') = b_inc (s_bank s).
Proof.
  unfold create_position. intros s owner a0 a1 m0 m1 lo hi s' c H.
  destruct (hi <=? lo); [discriminate H|]. destruct ((a0 <? 0) || (a1 <? 0)); [discriminate H|].
  destruct ((a0 =? 0) && (a1 =? 0)); [discriminate H|]. destruct ((m0 <? 0) || (m1 <? 0)); [discriminate H|].
  destruct (negb (validate_tick_range (p_spacing (s_pool s)) lo hi)); [discriminate H|].
  destruct (ticks_to_sqrt_price lo hi) as [[sl su]|]; [|discriminate H]. cbv beta iota in H.
  destruct (round_tick_to_canonical lo hi sl su (p_spacing (s_pool s))) as [[lo' hi']|]; [|discriminate H]. cbv beta iota in H.
  match type of H with (do p1 <- ?X; _) = _ => destruct X as [p1|] eqn:EP; [|discriminate H] end. cbv beta iota in H.
  destruct (get_liquidity_from_amounts (p_sqrt p1) sl su a0 a1) as [liq|]; [|discriminate H]. cbv beta iota in H.
  destruct (liq =? 0); [discriminate H|].
  destruct (update_position _ owner lo' hi' liq (s_time s) (s_next_id s)) as [[[s3 [amt0 amt1]] [le ue]]|] eqn:EU; [|discriminate H]. cbv beta iota in H.
  destruct ((amt0 <? m0) || (amt1 <? m1)); [discriminate H|].
  destruct (send_user_to_pool (s_bank s3) owner amt0 amt1) as [b|] eqn:EB; [|discriminate H]. inversion H; subst. clear H. simpl.
  destruct (update_position_scaling _ _ _ _ _ _ _ _ _ _ EU) as [_ BK]. simpl in BK.
  rewrite (send_user_to_pool_binc _ _ _ _ _ EB), BK. reflexivity.
Qed.
Lemma withdraw_position_binc : forall s owner id liq s' amts, withdraw_position s owner id liq = Some (s', amts) ->
  b_inc (s_bank s') = b_inc (s_bank s).
Proof.
  unfold withdraw_position. intros s owner id liq s' amts H.
  destruct (negb (0 <? liq)); [discriminate H|]. destruct (pos_get (s_pos s) id) as [q|]; [|discriminate H]. cbv beta iota in H.
  destruct (negb (ps_owner q =? owner)); [discriminate H|]. destruct (ps_liq q <? liq); [discriminate H|].
  destruct (update_position s owner (ps_lower q) (ps_upper q) (- liq) (ps_join q) id) as [[[s1 [amt0 amt1]] [le ue]]|] eqn:EU; [|discriminate H]. cbv beta iota in H.
  destruct (send_pool_to_user (s_bank s1) owner (Z.abs amt0) (Z.abs amt1)) as [b|] eqn:EB; [|discriminate H]. cbv beta iota in H.
  destruct (update_position_scaling _ _ _ _ _ _ _ _ _ _ EU) as [_ BK].
  match type of H with (do s3 <- ?X; _) = _ => destruct X as [s3|] eqn:E3; [|discriminate H] end. cbv beta iota in H.
  inversion H; subst s' amts. clear H. simpl.
  assert (S3 : s_bank s3 = b).
  { destruct (liq =? ps_liq q); [|inversion E3; subst; simpl; auto]. simpl in E3.
    destruct (has_any_position (set_pos (set_bank s1 b) (pos_remove (s_pos s1) id))) eqn:EH; [inversion E3; subst; simpl; auto|].
    unfold uninitialize_pool in E3. rewrite EH in E3. inversion E3; subst. simpl. auto. }
  rewrite S3, (send_pool_to_user_binc _ _ _ _ _ EB), BK. reflexivity.
Qed.

Lemma PII_PT : forall rs, PII rs -> PT (r_rw rs) (s_pos (r_base rs)).
Proof. intros rs [_ [[_ [_ [_ [H _]]]] _]]. exact H. Qed.
Lemma inv_liq : forall s, Inv s -> p_liq (s_pool s) = sum_liq (f_range (p_tick (s_pool s))) (s_pos s).
Proof. intros s I. apply (inv_active s I). Qed.

(* sums over the position list, pointwise in the accumulator index *)
Lemma OwedI_set_new : forall d w cur P p, pos_get P (ps_id p) = None ->
  OwedI d w cur (pos_set P p) = OwedI d w cur P + usum NU (fun u => owedU u d w cur p).
Proof. intros d w cur P p G. unfold OwedI. rewrite <- usum_plus. apply usum_ext. intros u _. apply zsum_set_new. exact G. Qed.
Lemma OwedI_ext : forall d w w' cur cur' P, (forall u p, (u < NU)%nat -> In p P -> owedU u d w' cur' p = owedU u d w cur p) ->
  OwedI d w' cur' P = OwedI d w cur P.
Proof. intros d w w' cur cur' P H. unfold OwedI. apply usum_ext. intros u Hu. apply zsum_ext. intros p Hp. apply H; assumption. Qed.
Lemma usum_zero : forall n, usum n (fun _ => 0) = 0.
Proof. induction n; simpl; lia. Qed.

(* ---------- CreatePosition ---------- *)
Lemma inc_create : forall rs owner a0 a1 m0 m1 lo hi rs' c d, PII rs ->
  r_create rs owner a0 a1 m0 m1 lo hi = Some (rs', c) ->
  PII rs' /\ isc_of rs' = isc_of rs /\ PhiI d rs' <= PhiI d rs + Z.of_nat NU * P18.
Proof.
  intros rs owner a0 a1 m0 m1 lo hi rs' c d [RI [HIW FR]] H.
  pose proof (rinv_create _ _ _ _ _ _ _ _ _ _ H RI) as RI'. pose proof RI as [I _].
  pose proof (r_create_base _ _ _ _ _ _ _ _ _ _ H) as B.
  destruct (create_position_spec _ _ _ _ _ _ _ _ _ _ I B) as [I' [NX [CI [SP [_ [LP _]]]]]].
  pose proof (create_position_binc _ _ _ _ _ _ _ _ _ _ B) as BI.
  set (P := s_pos (r_base rs)) in *. set (id := cr_id c) in *.
  set (newp := mkPos (s_next_id (r_base rs)) owner (cr_lower c) (cr_upper c) (cr_liq c) (s_time (r_base rs))) in *.
  assert (EW : update_position_rewards (r_rw rs) (cur_tick rs') (p_liq (s_pool (r_base rs))) (s_time (r_base rs))
                 (cr_lower c) (cr_upper c) id (cr_liq c) (cr_liq c) = Some (r_rw rs')).
  { unfold r_create in H. destruct (create_position _ _ _ _ _ _ _ _) as [[s2 c2]|]; [|discriminate H]. simpl in H.
    match type of H with (do w <- ?X; _) = _ => destruct X as [w|] eqn:E; [|discriminate H] end. inversion H; subst. simpl. exact E. }
  set (cur := cur_tick rs') in *. set (pl := p_liq (s_pool (r_base rs))) in *.
  assert (PG : pos_get P (ps_id newp) = None) by (simpl; apply (pos_get_fresh _ _ _ (inv_pos_ok _ I))).
  assert (CT : P <> [] -> cur = cur_tick rs).
  { intro NE. unfold cur, cur_tick. apply (create_position_tick _ _ _ _ _ _ _ _ _ _ B). apply (pool_has_position_iff _ I). exact NE. }
  assert (HL : pl = sum_liq (f_range cur) P).
  { unfold pl. rewrite (inv_liq _ I). fold P. destruct P as [|p0 P0] eqn:EP; [reflexivity|]. rewrite CT by discriminate. reflexivity. }
  unfold update_position_rewards in EW.
  destruct (ensure_tick (r_rw rs) cur pl _ (cr_lower c)) as [w1|] eqn:E1; [|discriminate EW]. simpl in EW.
  destruct (ensure_tick w1 cur pl _ (cr_upper c)) as [w2|] eqn:E2; [|discriminate EW]. simpl in EW.
  destruct (init_or_update_uptime w2 cur pl _ (cr_lower c) (cr_upper c) id (cr_liq c) (cr_liq c)) as [w3|] eqn:E3; [|discriminate EW]. simpl in EW.
  destruct (stage_ensure_tick cur _ _ _ _ _ P d E1 HIW HL) as [A1 [IW1 [_ [IS1 [NI1 RG1]]]]].
  destruct (stage_ensure_tick cur _ _ _ _ _ P d E2 IW1 HL) as [A2 [IW2 [_ [IS2 [NI2 RG2]]]]].
  (* initOrUpdatePositionUptimeAccumulators *)
  unfold init_or_update_uptime in E3.
  destruct (update_uptime w2 pl (s_time (r_base rs))) as [w2a|] eqn:EU; [|discriminate E3]. cbv beta iota in E3.
  destruct (uptime_growth_inside w2a cur (cr_lower c) (cr_upper c)) as [ins|] eqn:EI; [|discriminate E3]. cbv beta iota in E3.
  destruct (uptime_growth_outside w2a cur (cr_lower c) (cr_upper c)) as [outs|] eqn:EO; [|discriminate E3]. cbv beta iota in E3.
  destruct (upd_uptime_accs (rw_up w2a) ins outs id (cr_liq c) (cr_liq c)) as [ups|] eqn:EUp; [|discriminate E3]. inversion E3; subst w3. clear E3.
  destruct IW2 as [OK2 [Hi2 [LN2 [PT2 RM2]]]].
  destruct (stage_accrue cur w2 pl _ w2a P d EU OK2 Hi2 LN2 PT2 RM2 HL) as [A3 [PT3 [RM3 [OK3 [TT3 [SP3 [IS3 [LN3 [NI3 RG3]]]]]]]]].
  (* the new position's range *)
  assert (NIN : In newp (s_pos (r_base rs'))) by (rewrite SP; eapply pos_get_in; rewrite pos_get_set; simpl; rewrite Z.eqb_refl; reflexivity).
  destruct (PI_PT rs' RI' newp NIN) as [Hlu _]. simpl in Hlu.
  assert (IDS : forall p, In p P -> ps_id p <> id).
  { intros p Hp. pose proof (inv_pos_ok _ I) as F. rewrite Forall_forall in F. destruct (F p Hp) as [[_ X] _]. rewrite CI. lia. }
  assert (NR : forall u, acc_get (acc_u u w2a) id = None).
  { intro u. rewrite RG3, RG2, RG1. apply FR. rewrite CI. lia. }
  destruct (stage_upd_core d w2a cur _ _ id (cr_liq c) (cr_liq c) ins outs ups EI EO EUp LN3 Hlu
              ltac:(intros u Hu r R; rewrite NR in R; discriminate R)) as [OTH [TGT [RGO [RCS [LN4 INS4]]]]].
  set (w3 := set_up w2a ups) in *.
  (* initOrUpdatePositionSpreadRewardAccumulator does not touch the uptime side *)
  pose proof (init_or_update_spread_tt _ _ _ _ _ _ _ EW) as TT5.
  assert (UP5 : rw_up (r_rw rs') = rw_up w3 /\ rw_recs (r_rw rs') = rw_recs w3 /\ rw_inc_scaling (r_rw rs') = rw_inc_scaling w3 /\ rw_next_inc (r_rw rs') = rw_next_inc w3).
  { unfold init_or_update_spread in EW. obind EW. destruct (negb (acc_has (rw_spread w3) id)); obind EW; inversion EW; subst; simpl; auto. }
  destruct UP5 as [UP5 [RC5 [IS5 NI5]]].
  assert (OW5 : forall u p, owedU u d (r_rw rs') cur p = owedU u d w3 cur p).
  { intros u p. unfold owedU, acc_u, insU. rewrite UP5. rewrite (view_same (CU u d) w3 (r_rw rs') cur dc0 TT5); [reflexivity|].
    unfold sel_G. rewrite UP5. reflexivity. }
  assert (ISC : isc_of rs' = isc_of rs) by (unfold isc_of; rewrite IS5; unfold w3; simpl; rewrite IS3, IS2, IS1; reflexivity).
  (* the amounts owed *)
  assert (OP : OwedI d (r_rw rs') cur P = OwedI d w2a cur P).
  { apply OwedI_ext. intros u p Hu Hp. rewrite OW5. apply OTH. apply IDS. exact Hp. }
  assert (ON : 2 * usum NU (fun u => owedU u d (r_rw rs') cur newp) <= Z.of_nat NU * P18).
  { rewrite (usum_ext _ _ (fun u => owedU u d w3 cur newp)) by (intros u _; apply OW5).
    pose proof (TGT newp (eq_sym CI) eq_refl eq_refl) as X.
    rewrite (usum_ext _ (fun u => owedU u d w2a cur newp) (fun _ => 0)) in X; [rewrite usum_zero in X; lia|].
    intros u _. unfold owedU. simpl ps_id. rewrite <- CI. fold id. rewrite NR. reflexivity. }
  split; [|split; [exact ISC|]].
  - split; [exact RI'|]. split.
    + split; [rewrite RC5; exact OK3|]. split; [rewrite IS5; unfold w3; simpl; rewrite IS3; exact Hi2|]. split; [rewrite UP5; exact LN4|].
      split; [apply PI_PT; exact RI'|].
      intros u p Hu Hp. rewrite SP in Hp. fold P newp in Hp. unfold acc_u. rewrite UP5. fold (acc_u u w3).
      destruct (in_pos_set _ _ _ Hp) as [EQ|Hin].
      * subst p. simpl ps_id. rewrite <- CI. fold id. destruct (RCS u Hu) as [_ NEW]. destruct (NEW (NR u)) as [r' [R' [S' [_ U']]]].
        exists r'. split; [exact R'|]. split; [exact S'|]. intro d0. rewrite U', dsel_dc0. lia.
      * rewrite (RGO u _ (IDS p Hin)). apply RM3; assumption.
    + intros u j Hj. rewrite NX in Hj. assert (j <> id) by (rewrite CI; lia). unfold acc_u. rewrite UP5. fold (acc_u u w3).
      rewrite (RGO u j H0), RG3, RG2, RG1. apply FR. lia.
  - unfold PhiI, OwedInc, inc_bal. fold cur. rewrite ISC, BI, SP. fold P newp. rewrite (OwedI_set_new d _ cur P newp PG), OP, RC5.
    change (rw_recs w3) with (rw_recs w2a).
    assert (OLD : OwedI d (r_rw rs) (cur_tick rs) P = OwedI d (r_rw rs) cur P).
    { destruct P as [|p0 P0] eqn:EP; [apply OwedI_ext; intros u p _ []|]. rewrite CT by discriminate. reflexivity. }
    rewrite OLD. unfold isc_of in *. rewrite IS2, IS1 in A3. rewrite IS1 in A2. lia.
Qed.

(* ---------- WithdrawPosition ---------- *)
Lemma collect_incentives_parts : forall b w cur pl now q b' w' col forf byup,
  collect_incentives b w cur pl now q = Some (b', w', col, forf, byup) ->
  prepare_claim_all_incentives w cur pl now (ps_lower q) (ps_upper q) (ps_id q) (ps_join q) = Some (w', col, forf, byup) /\
  b_inc b' = (fst (b_inc b) - fst col, snd (b_inc b) - snd col) /\ b_spread b' = b_spread b.
Proof.
  unfold collect_incentives. intros b w cur pl now q b' w' col forf byup H.
  destruct (prepare_claim_all_incentives _ _ _ _ _ _ _ _) as [[[[w1 c1] f1] by1]|]; [|discriminate H]. cbv beta iota in H.
  destruct ((fst c1 =? 0) && (snd c1 =? 0)) eqn:EZ.
  - inversion H; subst. split; [reflexivity|]. apply andb_true_iff in EZ. destruct EZ as [A B0]. apply Z.eqb_eq in A, B0.
    rewrite A, B0, !Z.sub_0_r. split; [destruct (b_inc b'); reflexivity|reflexivity].
  - destruct (send_inc_to_user b (ps_owner q) (fst c1) (snd c1)) as [b1|] eqn:E; [|discriminate H]. inversion H; subst.
    split; [reflexivity|]. split; [eapply send_inc_to_user_binc; exact E|eapply send_inc_to_user_bspread; exact E].
Qed.

Lemma OwedI_set_upd_same : forall d w cur P q q2, ids_sorted P -> pos_get P (ps_id q2) = Some q ->
  ps_lower q2 = ps_lower q -> ps_upper q2 = ps_upper q -> OwedI d w cur (pos_set P q2) = OwedI d w cur P.
Proof.
  intros d w cur P q q2 OS Q EL EU. unfold OwedI. apply usum_ext. intros u _. rewrite (zsum_set_upd _ P q2 q OS Q).
  assert (X : owedU u d w cur q2 = owedU u d w cur q).
  { unfold owedU. rewrite EL, EU, (pos_get_id _ _ _ Q). reflexivity. }
  lia.
Qed.

Lemma prepare_claimable_spread_up : forall w sc cur lo hi id w' c, prepare_claimable_spread w sc cur lo hi id = Some (w', c) ->
  rw_up w' = rw_up w /\ rw_recs w' = rw_recs w /\ rw_inc_scaling w' = rw_inc_scaling w /\ rw_next_inc w' = rw_next_inc w /\ rw_tt w' = rw_tt w.
Proof. unfold prepare_claimable_spread. intros. obind H. inversion H; subst; simpl; auto. Qed.

Lemma neutral_same_tt : forall cur w w' P d, rw_tt w' = rw_tt w -> rw_up w' = rw_up w -> rw_recs w' = rw_recs w ->
  rw_inc_scaling w' = rw_inc_scaling w -> IW w P -> OwedI d w' cur P = OwedI d w cur P /\ IW w' P.
Proof.
  intros cur w w' P d TT UP RC IS HIW.
  apply (stage_inc_neutral cur [] w w' P d (fun u => SE_same_tt (CU u d) cur _ _ TT) UP HIW RC IS). intros p _. simpl. tauto.
Qed.

Lemma inc_withdraw : forall rs owner id liq rs' amts d, PII rs ->
  r_withdraw rs owner id liq = Some (rs', amts) ->
  PII rs' /\ isc_of rs' = isc_of rs /\ PhiI d rs' <= PhiI d rs + 2 * (Z.of_nat NU * P18).
Proof.
  intros rs owner id liq rs' amts d [RI [HIW FR]] H.
  pose proof (rinv_withdraw _ _ _ _ _ _ H RI) as RI'. pose proof RI as [I _]. pose proof RI' as [I' _]. pose proof P18_pos as HP.
  unfold r_withdraw in H.
  destruct (withdraw_position (r_base rs) owner id liq) as [[s amts']|] eqn:EB; [|discriminate H]. simpl in H.
  destruct (pos_get (s_pos (r_base rs)) id) as [q|] eqn:Q; [|discriminate H]. simpl in H.
  assert (QI : ps_id q = id) by (eapply pos_get_id; exact Q).
  assert (QIn : In q (s_pos (r_base rs))) by (eapply pos_get_in; exact Q).
  set (cur := p_tick (s_pool (r_base rs))) in *. set (pl := p_liq (s_pool (r_base rs))) in *. set (now := s_time (r_base rs)) in *.
  set (lo := ps_lower q) in *. set (hi := ps_upper q) in *. set (P := s_pos (r_base rs)) in *.
  destruct (collect_incentives (s_bank s) (r_rw rs) cur pl now q) as [[[[[b1 w1] col] forf] byup]|] eqn:E1; [|discriminate H]. simpl in H.
  destruct (update_position_rewards w1 cur pl now lo hi id (ps_liq q - liq) (- liq)) as [w2|] eqn:E2; [|discriminate H]. simpl in H.
  match type of H with (do bw <- ?X; _) = _ => destruct X as [[b2 w3]|] eqn:E3; [|discriminate H] end. simpl in H.
  match type of H with (do bw2 <- ?X; _) = _ => destruct X as [[b3 w4]|] eqn:E4; [|discriminate H] end. simpl in H.
  inversion H; subst rs' amts. clear H. simpl in RI', I'.
  destruct amts' as [x0 x1].
  destruct (withdraw_position_spec _ _ _ _ _ _ _ I EB) as [_ [NX [_ [_ [q' [Q' [_ [LQ SP]]]]]]]].
  fold P in Q', SP. rewrite Q in Q'. inversion Q'; subst q'. clear Q'.
  pose proof (withdraw_position_binc _ _ _ _ _ _ EB) as BI.
  assert (OS : ids_sorted P) by apply (inv_pos_sorted _ I).
  assert (LP : forall p, In p P -> 0 < ps_liq p).
  { intros p Hp. pose proof (inv_pos_ok _ I) as F. rewrite Forall_forall in F. destruct (F p Hp) as [_ [X _]]. exact X. }
  assert (HL : pl = sum_liq (f_range cur) P) by apply (inv_liq _ I).
  (* A: collectIncentives *)
  destruct (collect_incentives_parts _ _ _ _ _ _ _ _ _ _ _ E1) as [PC [BC1 _]]. fold lo hi in PC. rewrite QI in PC.
  destruct (stage_inc_claim d _ cur pl now id (ps_join q) w1 col forf byup P q PC HIW HL Q OS LP)
    as [T [T0 [INA [C0 [F0 [B0 [RD [FO [IW1 [TT1 [SP1 [IS1 [NI1 [RG1 [LB BN]]]]]]]]]]]]]]].
  (* B: UpdatePosition with the negative delta *)
  unfold update_position_rewards in E2.
  destruct (ensure_tick w1 cur pl now lo) as [w1a|] eqn:E2a; [|discriminate E2]. simpl in E2.
  destruct (ensure_tick w1a cur pl now hi) as [w1b|] eqn:E2b; [|discriminate E2]. simpl in E2.
  destruct (init_or_update_uptime w1b cur pl now lo hi id (ps_liq q - liq) (- liq)) as [w1c|] eqn:E2c; [|discriminate E2]. simpl in E2.
  destruct (stage_ensure_tick cur _ _ _ _ _ P d E2a IW1 HL) as [A1 [IW1a [_ [IS1a [NI1a RG1a]]]]].
  destruct (stage_ensure_tick cur _ _ _ _ _ P d E2b IW1a HL) as [A2 [IW1b [_ [IS1b [NI1b RG1b]]]]].
  unfold init_or_update_uptime in E2c.
  destruct (update_uptime w1b pl now) as [wu|] eqn:EU; [|discriminate E2c]. cbv beta iota in E2c.
  destruct (uptime_growth_inside wu cur lo hi) as [ins|] eqn:EI; [|discriminate E2c]. cbv beta iota in E2c.
  destruct (uptime_growth_outside wu cur lo hi) as [outs|] eqn:EO; [|discriminate E2c]. cbv beta iota in E2c.
  destruct (upd_uptime_accs (rw_up wu) ins outs id (ps_liq q - liq) (- liq)) as [ups|] eqn:EUp; [|discriminate E2c]. inversion E2c; subst w1c. clear E2c.
  destruct IW1b as [OKb [Hib [LNb [PTb RMb]]]].
  destruct (stage_accrue cur w1b pl now wu P d EU OKb Hib LNb PTb RMb HL) as [A3 [PTu [RMu [OKu [TTu [SPu [ISu [LNu [NIu RGu]]]]]]]]].
  destruct (PTu q QIn) as [Hlu TKu]. fold lo hi in Hlu, TKu.
  assert (NNS : forall u, (u < NU)%nat -> nn_shares id (acc_u u wu)).
  { intros u Hu r R. destruct (RMu u q Hu QIn) as [r0 [R0 [S0 _]]]. rewrite QI in R0. rewrite R in R0. inversion R0; subst r0. rewrite S0. pose proof (LP q QIn). lia. }
  destruct (stage_upd_core d wu cur lo hi id (ps_liq q - liq) (- liq) ins outs ups EI EO EUp LNu Hlu NNS) as [OTH [TGT [RGO [RCS [LNc INSc]]]]].
  set (wc := set_up wu ups) in *.
  (* the spread accumulator stage does not touch the uptime side *)
  pose proof (init_or_update_spread_tt _ _ _ _ _ _ _ E2) as TT2.
  assert (UP2 : rw_up w2 = rw_up wc /\ rw_recs w2 = rw_recs wc /\ rw_inc_scaling w2 = rw_inc_scaling wc /\ rw_next_inc w2 = rw_next_inc wc).
  { unfold init_or_update_spread in E2. obind E2. destruct (negb (acc_has (rw_spread wc) id)); obind E2; inversion E2; subst; simpl; auto. }
  destruct UP2 as [UP2 [RC2 [IS2 NI2]]].
  assert (OW2 : forall u p, owedU u d w2 cur p = owedU u d wc cur p).
  { intros u p. unfold owedU, acc_u, insU. rewrite UP2. rewrite (view_same (CU u d) wc w2 cur dc0 TT2); [reflexivity|]. unfold sel_G. rewrite UP2. reflexivity. }
  (* amounts owed after B, over the old position list *)
  assert (OB : 2 * OwedI d w2 cur P <= 2 * OwedI d wu cur P + Z.of_nat NU * P18).
  { rewrite (OwedI_split d w2 cur P id q Q), (OwedI_split d wu cur P id q Q).
    assert (X1 : OwedI d w2 cur (pos_remove P id) = OwedI d wu cur (pos_remove P id)).
    { apply OwedI_ext. intros u p Hu Hp. rewrite OW2. apply OTH. apply (in_pos_remove P id p OS Hp). }
    rewrite X1. rewrite (usum_ext _ _ (fun u => owedU u d wc cur q)) by (intros u _; apply OW2).
    pose proof (TGT q QI eq_refl eq_refl). lia. }
  (* records after B *)
  destruct (stage_upd_core (negb d) wu cur lo hi id (ps_liq q - liq) (- liq) ins outs ups EI EO EUp LNu Hlu NNS) as [_ [_ [_ [RCS' _]]]].
  fold wc in RCS'.
  assert (PT2 : PT w2 P).
  { intros p Hp. destruct (PTu p Hp) as [A [X1 [X2 X3]]]. split; [exact A|]. unfold tks. rewrite TT2. simpl. auto. }
  assert (RG2 : forall u j, j <> id -> acc_get (acc_u u w2) j = acc_get (acc_u u wu) j).
  { intros u j NE. unfold acc_u. rewrite UP2. apply RGO. exact NE. }
  assert (R2Q : forall u, (u < NU)%nat -> exists r', acc_get (acc_u u w2) id = Some r' /\ ar_shares r' = ps_liq q - liq /\ forall d0, 0 <= dsel d0 (ar_unclaimed r')).
  { intros u Hu. destruct (RMu u q Hu QIn) as [r [R [S UN]]]. rewrite QI in R.
    destruct (RCS u Hu) as [EX _]. destruct (RCS' u Hu) as [EX' _]. destruct (EX r R) as [r' [R' [S' U']]]. destruct (EX' r R) as [r'' [R'' [_ U'']]].
    rewrite R' in R''. inversion R''; subst r''. exists r'. unfold acc_u. rewrite UP2. split; [exact R'|]. split; [lia|].
    intro d0. destruct (Bool.bool_dec d0 d) as [->|ND]; [apply U'; apply UN|].
    assert (d0 = negb d) as -> by (destruct d0; destruct d; simpl; congruence). apply U''; apply UN. }
  set (P' := s_pos s) in *.
  assert (Is : Inv s) by (eapply inv_same_but_bank; [|exact I']; repeat split).
  assert (Ss : ids_sorted P') by apply (inv_pos_sorted _ Is).
  (* membership in the new list *)
  assert (PIN : forall p, In p P' -> (In p P /\ ps_id p <> id) \/ (liq <> ps_liq q /\ p = mkPos id owner lo hi (ps_liq q - liq) (ps_join q))).
  { intros p Hp. rewrite SP in Hp. destruct (liq =? ps_liq q) eqn:EF.
    - left. apply (in_pos_remove P id p OS Hp).
    - apply Z.eqb_neq in EF. assert (Ss' : ids_sorted (pos_set P (mkPos id owner lo hi (ps_liq q - liq) (ps_join q)))) by (rewrite SP in Ss; exact Ss).
      pose proof (in_pos_get _ _ Ss' Hp) as G.
      rewrite pos_get_set in G. simpl in G. destruct (ps_id p =? id) eqn:EP.
      + right. inversion G; subst p. auto.
      + left. apply Z.eqb_neq in EP. split; [eapply pos_get_in; exact G|exact EP]. }
  assert (IW2 : IW w2 P').
  { split; [rewrite RC2; exact OKu|]. split; [rewrite IS2; unfold wc; simpl; rewrite ISu; exact Hib|]. split; [rewrite UP2; exact LNc|]. split.
    - intros p Hp. destruct (PIN p Hp) as [[HpP _]|[_ ->]]; [apply PT2; exact HpP|]. simpl. apply (PT2 q QIn).
    - intros u p Hu Hp. destruct (PIN p Hp) as [[HpP NE]|[_ ->]].
      + rewrite (RG2 u _ NE). apply RMu; assumption.
      + simpl. apply R2Q. exact Hu. }
  (* amounts owed over the new list *)
  assert (OP' : OwedI d w2 cur P' <= OwedI d w2 cur P).
  { rewrite SP. destruct (liq =? ps_liq q) eqn:EF.
    - rewrite (OwedI_split d w2 cur P id q Q).
      assert (0 <= usum NU (fun u => owedU u d w2 cur q)); [|lia].
      apply Z.eqb_eq in EF.
      assert (X : forall n, (n <= NU)%nat -> 0 <= usum n (fun u => owedU u d w2 cur q)).
      { induction n as [|n IHn]; intro Hn; simpl; [lia|]. assert (0 <= usum n (fun u => owedU u d w2 cur q)) by (apply IHn; lia).
        set (tl := usum n (fun u => owedU u d w2 cur q)) in *.
        destruct (R2Q n ltac:(lia)) as [r' [R' [S' U']]]. unfold owedU. rewrite QI, R'. unfold owedA. rewrite S', EF, Z.sub_diag, Z.mul_0_r.
        pose proof (U' d). clearbody tl. nia. }
      apply X. lia.
    - rewrite (OwedI_set_upd_same d w2 cur P q _ OS); [lia|exact Q|reflexivity|reflexivity]. }
  assert (CT : P' <> [] -> p_tick (s_pool s) = cur) by (intro NE; apply (withdraw_position_tick _ _ _ _ _ _ EB NE)).
  (* C: forfeited incentives *)
  assert (STC : exists fpaid, IW w3 P' /\ b_inc b2 = (fst (b_inc b1) - fst fpaid, snd (b_inc b1) - snd fpaid) /\
            rw_tt w3 = rw_tt w2 /\ rw_inc_scaling w3 = rw_inc_scaling w2 /\ rw_recs w3 = rw_recs w2 /\
            (forall u j, acc_get (acc_u u w3) j = acc_get (acc_u u w2) j) /\ b_spread b2 = b_spread b1 /\
            2 * OwedI d w3 cur P' + 2 * ((pr_sel d col + pr_sel d fpaid) * rw_inc_scaling w2 * P18) <= 2 * OwedI d w2 cur P' + 2 * (T * P18 * P18)).
  { assert (ISw : rw_inc_scaling w2 = rw_inc_scaling (r_rw rs)).
    { rewrite IS2. unfold wc. simpl. rewrite ISu, IS1b, IS1a, IS1. reflexivity. }
    destruct (p_liq (s_pool s) <? P18) eqn:EPL.
    - destruct (send_inc_to_user b1 owner (fst forf) (snd forf)) as [bb|] eqn:E; [|discriminate E3]. inversion E3; subst b2 w3.
      exists forf. split; [exact IW2|]. split; [eapply send_inc_to_user_binc; exact E|]. split; [reflexivity|]. split; [reflexivity|].
      split; [reflexivity|]. split; [reflexivity|]. split; [eapply send_inc_to_user_bspread; exact E|]. rewrite ISw. lia.
    - apply Z.ltb_ge in EPL. destruct (redeposit_forfeited w2 byup (p_liq (s_pool s))) as [ww|] eqn:E; [|discriminate E3]. inversion E3; subst b2 w3.
      assert (NE : P' <> []).
      { intro X. pose proof (inv_liq _ Is) as IL. fold P' in IL. rewrite X in IL. simpl in IL. lia. }
      assert (HL' : p_liq (s_pool s) = sum_liq (f_range cur) P') by (rewrite (inv_liq _ Is), (CT NE); reflexivity).
      destruct (stage_inc_redeposit d w2 cur byup _ ww P' E IW2 ltac:(lia) HL' BN) as [RDP [IW3 [TT3 [_ [RC3 [IS3 [_ RG3]]]]]]].
      exists (0, 0). split; [exact IW3|]. split; [destruct (b_inc b1); simpl; f_equal; lia|]. split; [exact TT3|]. split; [exact IS3|].
      split; [exact RC3|]. split; [exact RG3|]. split; [reflexivity|].
      assert (Z0 : pr_sel d (0, 0) = 0) by (destruct d; reflexivity). rewrite Z0, ISw. lia. }
  destruct STC as [fpaid [IW3 [BC2 [TT3 [IS3 [RC3 [RG3 [BS3 OW3]]]]]]]].
  (* D: the spread rewards of a full withdrawal do not touch the uptime side *)
  assert (STD : IW w4 P' /\ OwedI d w4 cur P' = OwedI d w3 cur P' /\ b_inc b3 = b_inc b2 /\ rw_recs w4 = rw_recs w3 /\ rw_inc_scaling w4 = rw_inc_scaling w3 /\
            (forall u j, acc_get (acc_u u w4) j = acc_get (acc_u u w3) j)).
  { destruct (liq =? ps_liq q).
    - destruct (collect_spread_rewards b2 w3 (p_scaling (s_pool (r_base rs))) cur q) as [[[b4 w4'] c4]|] eqn:E5; [|discriminate E4].
      inversion E4; subst b4 w4'. clear E4. unfold collect_spread_rewards in E5.
      destruct (prepare_claimable_spread w3 _ cur (ps_lower q) (ps_upper q) (ps_id q)) as [[w5 c5]|] eqn:EPC; [|discriminate E5]. cbv beta iota in E5.
      destruct (prepare_claimable_spread_up _ _ _ _ _ _ _ _ EPC) as [UP4 [RC4 [IS4 [_ TT4]]]].
      assert (BB : b_inc b3 = b_inc b2 /\ w4 = w5).
      { destruct ((fst c5 =? 0) && (snd c5 =? 0)); [inversion E5; subst; auto|].
        destruct (send_spread_to_user b2 (ps_owner q) (fst c5) (snd c5)) as [bb|] eqn:E; [|discriminate E5]. inversion E5; subst.
        split; [eapply send_spread_to_user_binc; exact E|reflexivity]. }
      destruct BB as [BB ->].
      destruct (neutral_same_tt cur w3 w5 P' d TT4 UP4 RC4 IS4 IW3) as [NA NB].
      split; [exact NB|]. split; [exact NA|]. split; [exact BB|]. split; [exact RC4|]. split; [exact IS4|].
      intros u j. unfold acc_u. rewrite UP4. reflexivity.
    - inversion E4; subst b3 w4. split; [exact IW3|]. repeat split; reflexivity. }
  destruct STD as [IW4 [OW4 [BC3 [RC4 [IS4 RG4]]]]].
  (* E: RemoveTickInfo *)
  set (t2 := match tick_get (s_ticks s) hi with
             | None => tt_remove (match tick_get (s_ticks s) lo with None => tt_remove (rw_tt w4) lo | Some _ => rw_tt w4 end) hi
             | Some _ => match tick_get (s_ticks s) lo with None => tt_remove (rw_tt w4) lo | Some _ => rw_tt w4 end end) in *.
  set (w5 := set_tt w4 t2) in *.
  assert (SE5 : forall k, SE k cur (removed s lo ++ removed s hi) w4 w5).
  { intro k. unfold w5, t2, removed. destruct (tick_get (s_ticks s) lo); destruct (tick_get (s_ticks s) hi); simpl.
    - replace (set_tt w4 (rw_tt w4)) with w4 by (destruct w4; reflexivity). apply SE_refl.
    - apply SE_remove.
    - apply SE_remove.
    - pose proof (SE_trans k cur _ _ _ _ _ (SE_remove k cur w4 lo) (SE_remove k cur (set_tt w4 (tt_remove (rw_tt w4) lo)) hi)) as X.
      simpl in X. exact X. }
  assert (KEEP : forall p, In p P' -> ~ In (ps_lower p) (removed s lo ++ removed s hi) /\ ~ In (ps_upper p) (removed s lo ++ removed s hi)).
  { intros p Hp. assert (HR : has_range s (ps_lower p) (ps_upper p)) by (exists p; auto).
    destruct (has_range_stored _ _ _ Is HR) as [KA [KB _]].
    split; intro X; apply in_app_or in X; destruct X as [X|X]; (eapply removed_stored; [|exact X]; assumption). }
  destruct (stage_inc_neutral cur _ w4 w5 P' d (fun u => SE5 (CU u d)) eq_refl IW4 eq_refl eq_refl KEEP) as [OW5 IW5].
  (* assemble *)
  assert (NXI : id < s_next_id (r_base rs)).
  { pose proof (inv_pos_ok _ I) as F. rewrite Forall_forall in F. destruct (F q QIn) as [[_ X] _]. lia. }
  assert (ISC : rw_inc_scaling w5 = rw_inc_scaling (r_rw rs)).
  { change (rw_inc_scaling w5) with (rw_inc_scaling w4). rewrite IS4, IS3, IS2. unfold wc. simpl. rewrite ISu, IS1b, IS1a, IS1. reflexivity. }
  split; [|split; [exact ISC|]].
  - split; [exact RI'|]. split; [exact IW5|].
    intros u j Hj. simpl in Hj. rewrite NX in Hj. assert (j <> id) by lia. change (acc_u u (r_rw (mkRS (set_bank s b3) w5))) with (acc_u u w4).
    rewrite RG4, RG3, (RG2 u j H), RGu, RG1b, RG1a, (RG1 u j H). apply FR. exact Hj.
  - unfold PhiI, OwedInc, inc_bal, isc_of, cur_tick. cbn [r_base r_rw]. unfold set_bank. cbn [s_bank s_pool s_pos]. fold P'.
    assert (ON : OwedI d w5 (p_tick (s_pool s)) P' = OwedI d w5 cur P').
    { destruct P' as [|p0 P0] eqn:EP; [apply OwedI_ext; intros u p _ []|]. rewrite CT by discriminate. reflexivity. }
    rewrite ON, OW5, OW4, ISC. change (rw_recs w5) with (rw_recs w4). rewrite RC4, RC3, RC2. change (rw_recs wc) with (rw_recs wu).
    rewrite BC3, BC2, BC1, BI. fold P.
    assert (ISa : rw_inc_scaling w1 = rw_inc_scaling (r_rw rs)) by exact IS1.
    assert (ISw2 : rw_inc_scaling w2 = rw_inc_scaling (r_rw rs)) by (rewrite IS2; unfold wc; simpl; rewrite ISu, IS1b, IS1a, IS1; reflexivity).
    rewrite ISw2 in OW3. rewrite ISa in A1. rewrite IS1a, ISa in A2. rewrite IS1b, IS1a, ISa in A3.
    set (isc := rw_inc_scaling (r_rw rs)) in *. set (bal := b_inc (s_bank (r_base rs))) in *.
    assert (BD : pr_sel d (fst (fst bal - fst col, snd bal - snd col) - fst fpaid, snd (fst bal - fst col, snd bal - snd col) - snd fpaid)
                 = pr_sel d bal - pr_sel d col - pr_sel d fpaid) by (destruct d; simpl; lia).
    rewrite BD. fold cur.
    set (o0 := OwedI d (r_rw rs) cur P) in *. set (r0 := remD d (rw_recs (r_rw rs))) in *.
    set (o1 := OwedI d w1 cur P) in *. set (r1 := remD d (rw_recs w1)) in *.
    set (o1a := OwedI d w1a cur P) in *. set (r1a := remD d (rw_recs w1a)) in *.
    set (o1b := OwedI d w1b cur P) in *. set (r1b := remD d (rw_recs w1b)) in *.
    set (ou := OwedI d wu cur P) in *. set (ru := remD d (rw_recs wu)) in *.
    set (o2 := OwedI d w2 cur P) in *. set (o2' := OwedI d w2 cur P') in *. set (o3 := OwedI d w3 cur P') in *.
    set (cd := pr_sel d col) in *. set (fd := pr_sel d fpaid) in *. set (bd := pr_sel d bal) in *. set (nu := Z.of_nat NU) in *.
    clearbody o0 r0 o1 r1 o1a r1a o1b r1b ou ru o2 o2' o3 cd fd bd isc nu. nia.
Qed.

(* ---------- operations that do not touch the incentive bookkeeping ---------- *)
Lemma owedU_same : forall u d w w' cur p, rw_up w' = rw_up w -> rw_tt w' = rw_tt w -> owedU u d w' cur p = owedU u d w cur p.
Proof.
  intros u d w w' cur p UP TT. unfold owedU, acc_u, insU. rewrite UP. rewrite (view_same (CU u d) w w' cur dc0 TT); [reflexivity|].
  unfold sel_G. rewrite UP. reflexivity.
Qed.

Lemma inc_same : forall rs rs' d, PII rs -> RInv rs' ->
  s_pos (r_base rs') = s_pos (r_base rs) -> s_pool (r_base rs') = s_pool (r_base rs) -> s_next_id (r_base rs') = s_next_id (r_base rs) ->
  b_inc (s_bank (r_base rs')) = b_inc (s_bank (r_base rs)) ->
  rw_up (r_rw rs') = rw_up (r_rw rs) -> rw_tt (r_rw rs') = rw_tt (r_rw rs) -> rw_recs (r_rw rs') = rw_recs (r_rw rs) ->
  rw_inc_scaling (r_rw rs') = rw_inc_scaling (r_rw rs) ->
  PII rs' /\ isc_of rs' = isc_of rs /\ PhiI d rs' = PhiI d rs.
Proof.
  intros rs rs' d [RI [[OK [Hi [LN [HPT HRM]]]] FR]] RI' SP PL NX BI UP TT RC IS.
  split; [|split].
  - split; [exact RI'|]. split.
    + split; [rewrite RC; exact OK|]. split; [rewrite IS; exact Hi|]. split; [rewrite UP; exact LN|]. split; [apply PI_PT; exact RI'|].
      intros u p Hu Hp. rewrite SP in Hp. unfold acc_u. rewrite UP. apply HRM; assumption.
    + intros u j Hj. unfold acc_u. rewrite UP. apply FR. rewrite <- NX. exact Hj.
  - unfold isc_of. exact IS.
  - unfold PhiI, OwedInc, inc_bal, isc_of, cur_tick. rewrite SP, PL, BI, RC, IS. f_equal. f_equal. f_equal.
    apply OwedI_ext. intros u p _ _. apply owedU_same; assumption.
Qed.

(* ---------- CollectIncentives of one live position ---------- *)
Lemma inc_collect_one : forall rs id q b w col forf byup d, PII rs ->
  pos_get (s_pos (r_base rs)) id = Some q ->
  collect_incentives (s_bank (r_base rs)) (r_rw rs) (p_tick (s_pool (r_base rs))) (p_liq (s_pool (r_base rs))) (s_time (r_base rs)) q = Some (b, w, col, forf, byup) ->
  let rs' := mkRS (set_bank (r_base rs) b) w in
  PII rs' /\ isc_of rs' = isc_of rs /\ PhiI d rs' <= PhiI d rs + Z.of_nat NU * P18.
Proof.
  intros rs id q b w col forf byup d [RI [HIW FR]] Q E rs'. pose proof RI as [I [D S]]. pose proof P18_pos as HP.
  destruct (collect_incentives_parts _ _ _ _ _ _ _ _ _ _ _ E) as [PC [BC _]].
  assert (QI : ps_id q = id) by (eapply pos_get_id; exact Q). rewrite QI in PC.
  set (cur := p_tick (s_pool (r_base rs))) in *. set (P := s_pos (r_base rs)) in *.
  assert (OS : ids_sorted P) by apply (inv_pos_sorted _ I).
  assert (LP : forall p, In p P -> 0 < ps_liq p).
  { intros p Hp. pose proof (inv_pos_ok _ I) as F. rewrite Forall_forall in F. destruct (F p Hp) as [_ [X _]]. exact X. }
  destruct (stage_inc_claim d _ cur _ _ id (ps_join q) w col forf byup P q PC HIW (inv_liq _ I) Q OS LP)
    as [T [T0 [INA [C0 [F0 [B0 [RD [FO [IW1 [TT1 [SP1 [IS1 [NI1 [RG1 [LB BN]]]]]]]]]]]]]]].
  assert (RI' : RInv rs').
  { split; [eapply inv_same_but_bank; [apply same_but_bank_set|exact I]|].
    split; [intro j; simpl; rewrite TT1; apply D|unfold tt_sorted; simpl; rewrite TT1; exact S]. }
  split; [|split; [exact IS1|]].
  - split; [exact RI'|]. split; [exact IW1|]. intros u j Hj. simpl in Hj.
    assert (j <> id). { pose proof (inv_pos_ok _ I) as F. rewrite Forall_forall in F. destruct (F q (pos_get_in _ _ _ Q)) as [[_ X] _]. lia. }
    simpl. rewrite (RG1 u j H). apply FR. exact Hj.
  - unfold PhiI, OwedInc, inc_bal, isc_of, cur_tick, rs', set_bank. cbn [r_base r_rw s_bank s_pool s_pos]. fold P cur. rewrite IS1, BC.
    set (bal := b_inc (s_bank (r_base rs))) in *.
    assert (BD : pr_sel d (fst bal - fst col, snd bal - snd col) = pr_sel d bal - pr_sel d col) by (destruct d; reflexivity).
    rewrite BD. set (isc := rw_inc_scaling (r_rw rs)) in *.
    set (o1 := OwedI d w cur P) in *. set (o0 := OwedI d (r_rw rs) cur P) in *. set (r1 := remD d (rw_recs w)) in *. set (r0 := remD d (rw_recs (r_rw rs))) in *.
    set (cd := pr_sel d col) in *. set (bd := pr_sel d bal) in *. set (lb := lsum byup d) in *. set (nu := Z.of_nat NU) in *.
    clearbody o1 o0 r1 r0 cd bd lb isc nu. nia.
Qed.

Lemma inc_collect_loop : forall ids rs owner col forf rs' c d, PII rs ->
  r_collect_inc_loop rs owner ids col forf = Some (rs', c) ->
  PII rs' /\ isc_of rs' = isc_of rs /\ PhiI d rs' <= PhiI d rs + Z.of_nat (length ids) * (Z.of_nat NU * P18).
Proof.
  induction ids as [|id rest IH]; intros rs owner col forf rs' c d HP H; simpl in H.
  - inversion H; subst. split; [exact HP|]. split; [reflexivity|]. simpl. lia.
  - destruct (pos_get (s_pos (r_base rs)) id) as [q|] eqn:Q; [|discriminate H].
    destruct (negb (ps_owner q =? owner)); [discriminate H|].
    destruct (collect_incentives _ _ _ _ _ q) as [[[[[b w] x] f] byup]|] eqn:E; [|discriminate H].
    destruct (inc_collect_one rs id q b w x f byup d HP Q E) as [P1 [S1 F1]]. cbv zeta in P1, S1, F1.
    destruct (IH _ _ _ _ _ _ d P1 H) as [P2 [S2 F2]].
    split; [exact P2|]. split; [rewrite S2; exact S1|].
    change (length (id :: rest)) with (S (length rest)). rewrite Nat2Z.inj_succ. pose proof P18_pos. nia.
Qed.

(* ---------- CreateIncentive ---------- *)
Lemma remD_app : forall d l r, remD d (l ++ [r]) = remD d l + (if den_match d r then ir_remaining r else 0).
Proof. induction l as [|a l IH]; intro r; simpl; [lia|]. rewrite IH. lia. Qed.

Lemma inc_incentive : forall rs sender denom amount rate dt uu rs' d, PII rs ->
  r_incentive rs sender denom amount rate dt uu = Some rs' ->
  PII rs' /\ isc_of rs' = isc_of rs /\ PhiI d rs' <= PhiI d rs.
Proof.
  intros rs sender denom amount rate dt uu rs' d [RI [HIW FR]] E. pose proof RI as [I [D S]]. pose proof P18_pos as HP.
  unfold r_incentive in E.
  destruct (negb (0 <? amount)) eqn:EA; [discriminate E|]. apply negb_false_iff, Z.ltb_lt in EA.
  destruct (dt <? 0); [discriminate E|].
  destruct (negb (0 <? rate)) eqn:ER; [discriminate E|]. apply negb_false_iff, Z.ltb_lt in ER.
  destruct ((uu <? 0) || (Z.of_nat n_uptimes <=? uu)); [discriminate E|].
  destruct (user_bal _ sender) as [ub|]; [|discriminate E]. cbv beta iota in E.
  destruct (dc_get denom ub <? amount); [discriminate E|].
  destruct (update_uptime _ _ _) as [w1|] eqn:EU; [|discriminate E]. cbv beta iota in E.
  destruct (send_user_to_inc _ _ _ _) as [b|] eqn:EB; [|discriminate E]. inversion E; subst rs'. clear E.
  destruct HIW as [OK [Hi [LN [HPT HRM]]]].
  set (cur := p_tick (s_pool (r_base rs))) in *. set (P := s_pos (r_base rs)) in *.
  destruct (stage_accrue cur _ _ _ w1 P d EU OK Hi LN HPT HRM (inv_liq _ I)) as [A1 [PT1 [RM1 [OK1 [TT1 [SP1 [IS1 [LN1 [NI1 RG1]]]]]]]]].
  set (rnew := mkIR (rw_next_inc w1) uu denom (d_from_int amount) rate (s_time (r_base rs) + dt)).
  set (w2 := add_incentive_record w1 uu denom amount rate (s_time (r_base rs) + dt)).
  assert (BI : b_inc b = (fst (b_inc (s_bank (r_base rs))) + fst (dc_one denom amount), snd (b_inc (s_bank (r_base rs))) + snd (dc_one denom amount))).
  { unfold send_user_to_inc in EB. destruct ((_ <? 0) || (_ <? 0)); [discriminate EB|].
    destruct (user_bal (s_bank (r_base rs)) sender) as [[u0 u1]|]; [|discriminate EB]. simpl in EB.
    destruct ((u0 <? _) || (u1 <? _)); [discriminate EB|]. destruct (b_inc (s_bank (r_base rs))) as [p0 p1]. inversion EB; subst. reflexivity. }
  assert (RI' : RInv (mkRS (set_bank (r_base rs) b) w2)).
  { split; [eapply inv_same_but_bank; [apply same_but_bank_set|exact I]|].
    split; [intro j; simpl; rewrite TT1; apply D|unfold tt_sorted; simpl; rewrite TT1; exact S]. }
  assert (OW2 : OwedI d w2 cur P = OwedI d w1 cur P) by (apply OwedI_ext; intros u p _ _; apply owedU_same; reflexivity).
  split; [|split; [exact IS1|]].
  - split; [exact RI'|]. split.
    + split.
      * unfold w2, add_incentive_record. simpl. apply Forall_app. split; [exact OK1|]. constructor; [|constructor].
        split; simpl; [exact ER|unfold d_from_int; nia].
      * split; [simpl; rewrite IS1; exact Hi|]. split; [exact LN1|]. split; [intros p Hp; apply PT1; exact Hp|].
        intros u p Hu Hp. apply RM1; assumption.
    + intros u j Hj. simpl in *. change (acc_u u w2) with (acc_u u w1). rewrite RG1. apply FR. exact Hj.
  - unfold PhiI, OwedInc, inc_bal, isc_of, cur_tick, set_bank. cbn [r_base r_rw s_bank s_pool s_pos]. fold P cur. rewrite OW2, BI.
    change (rw_recs w2) with (rw_recs w1 ++ [rnew]). rewrite remD_app. change (rw_inc_scaling w2) with (rw_inc_scaling w1). rewrite IS1.
    set (bal := b_inc (s_bank (r_base rs))) in *.
    assert (BD : pr_sel d (fst bal + fst (dc_one denom amount), snd bal + snd (dc_one denom amount)) = pr_sel d bal + dsel d (dc_one denom amount)) by (destruct d; reflexivity).
    rewrite BD, dsel_one. unfold den_match, rnew. cbn [ir_denom ir_remaining]. unfold d_from_int.
    set (isc := rw_inc_scaling (r_rw rs)) in *. set (o1 := OwedI d w1 cur P) in *. set (o0 := OwedI d (r_rw rs) cur P) in *.
    set (r1 := remD d (rw_recs w1)) in *. set (r0 := remD d (rw_recs (r_rw rs))) in *. set (bd := pr_sel d bal) in *.
    destruct (Bool.eqb d (negb (denom =? 0))); clearbody o1 o0 r1 r0 bd isc; nia.
Qed.

(* ---------- TransferPositions ---------- *)
Lemma inc_transfer : forall rs sender ids recipient s' d, PII rs ->
  transfer_positions (r_base rs) sender ids recipient = Some s' ->
  PII (mkRS s' (r_rw rs)) /\ isc_of (mkRS s' (r_rw rs)) = isc_of rs /\ PhiI d (mkRS s' (r_rw rs)) = PhiI d rs.
Proof.
  intros rs sender ids recipient s' d [RI [[OK [Hi [LN [HPT HRM]]]] FR]] E. pose proof RI as [I _].
  assert (RI' : RInv (mkRS s' (r_rw rs))).
  { apply (rinv_handler rs (RBase (OTransfer sender ids recipient)) _ []); [simpl; rewrite E; reflexivity|exact RI]. }
  destruct (transfer_positions_spec _ _ _ _ _ I E) as [I' [NX [_ [PL [_ PG]]]]].
  unfold transfer_positions in E. destruct (sender =? recipient); [discriminate E|].
  destruct (negb (z_nodup ids)); [discriminate E|].
  assert (T : transfer_loop (r_base rs) ids sender recipient = Some s') by (destruct ids; [discriminate E|exact E]).
  split; [|split; [reflexivity|]].
  - split; [exact RI'|]. split.
    + split; [exact OK|]. split; [exact Hi|]. split; [exact LN|]. split; [apply PI_PT; exact RI'|].
      intros u p Hu Hp. simpl in Hp. simpl.
      pose proof (in_pos_get _ _ (inv_pos_sorted _ I') Hp) as G. destruct PG as [PG _]. rewrite PG in G.
      destruct (pos_get (s_pos (r_base rs)) (ps_id p)) as [q|] eqn:Q; [|discriminate G].
      pose proof (pos_get_in _ _ _ Q) as Qin. pose proof (pos_get_id _ _ _ Q) as Qid. destruct (HRM u q Hu Qin) as [r [R [SS UN]]].
      exists r. rewrite <- Qid. split; [exact R|]. split; [|exact UN]. rewrite SS.
      destruct (z_mem (ps_id p) ids); inversion G; subst; reflexivity.
    + intros u j Hj. simpl in *. apply FR. rewrite <- NX. exact Hj.
  - unfold PhiI, OwedInc, inc_bal, isc_of, cur_tick. simpl. rewrite PL.
    assert (A : OwedI d (r_rw rs) (p_tick (s_pool (r_base rs))) (s_pos s') = OwedI d (r_rw rs) (p_tick (s_pool (r_base rs))) (s_pos (r_base rs))).
    { unfold OwedI. apply usum_ext. intros u _.
      destruct (transfer_loop_zsum (owedU u d (r_rw rs) (p_tick (s_pool (r_base rs)))) (fun q o => eq_refl) _ _ _ _ _ I T) as [X _]. exact X. }
    destruct (transfer_loop_zsum ps_liq (fun q o => eq_refl) _ _ _ _ _ I T) as [_ B0]. rewrite A, B0. reflexivity.
Qed.
