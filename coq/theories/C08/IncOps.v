(* C08 / C01, incentive account, part 4: every operation preserves the bookkeeping invariant PII and moves the potential
     PhiI_d = 2 * (sum over the six uptime accumulators and the open positions of the amount owed
                   + remaining emission of the incentive records * scaling) - 2 * (incentive account balance_d) * scaling * 10^18
   up by at most (number of MulDec roundings) * 10^18. *)
From Coq Require Import ZArith List Bool Lia.
Import ListNotations.
From Osmo Require Import Base.DecModel CL.TickMath CL.CLMath CL.CLPool CL.CLSwap CL.CLStep
  CLR.Accum CLR.Rewards CLR.RSwap CLR.RStep C07.Base C07.TickLemmas C07.LP C07.Swap C07.Proofs C03.Steps
  C08.Proj C08.Telescope C08.View C08.Static C08.Stages C08.Ops C08.OpInside C08.SwapTrace C08.Crux
  C08.Claim C08.Conseq C08.Frame C08.Never C08.SwapWf C08.Dom C08.StaticOk C08.Paid C08.PaidOps
  C08.IncAcc C08.Inc C08.IncList C08.IncStage.
Open Scope Z_scope.

Definition PII (rs : rstate) : Prop :=
  RInv rs /\ IW (r_rw rs) (s_pos (r_base rs)) /\
  (forall u j, s_next_id (r_base rs) <= j -> acc_get (acc_u u (r_rw rs)) j = None).
Definition isc_of (rs : rstate) : Z := rw_inc_scaling (r_rw rs).
Definition inc_bal (d : bool) (rs : rstate) : Z := pr_sel d (b_inc (s_bank (r_base rs))).
Definition OwedInc (d : bool) (rs : rstate) : Z :=
  OwedI d (r_rw rs) (cur_tick rs) (s_pos (r_base rs)) + remD d (rw_recs (r_rw rs)) * isc_of rs.
Definition PhiI (d : bool) (rs : rstate) : Z := 2 * OwedInc d rs - 2 * (inc_bal d rs * isc_of rs * P18).

(* ---------- what the pool-model operations leave alone ---------- *)
Lemma send_user_to_pool_binc : forall b u a0 a1 b', send_user_to_pool b u a0 a1 = Some b' -> b_inc b' = b_inc b.
Proof.
  unfold send_user_to_pool. intros b u a0 a1 b' H. destruct ((a0 <? 0) || (a1 <? 0)); [discriminate H|].
  destruct (user_bal b u) as [[u0 u1]|]; [|discriminate H]. simpl in H. destruct ((u0 <? a0) || (u1 <? a1)); [discriminate H|].
  destruct (b_pool b). inversion H; subst. reflexivity.
Qed.
Lemma send_pool_to_user_binc : forall b u a0 a1 b', send_pool_to_user b u a0 a1 = Some b' -> b_inc b' = b_inc b.
Proof.
  unfold send_pool_to_user. intros b u a0 a1 b' H. destruct ((a0 <? 0) || (a1 <? 0)); [discriminate H|].
  destruct (user_bal b u) as [[u0 u1]|]; [|discriminate H]. simpl in H. destruct (b_pool b) as [p0 p1].
  destruct ((p0 <? a0) || (p1 <? a1)); [discriminate H|]. inversion H; subst. reflexivity.
Qed.
Lemma send_spread_to_user_binc : forall b u a0 a1 b', send_spread_to_user b u a0 a1 = Some b' -> b_inc b' = b_inc b.
Proof.
  unfold send_spread_to_user. intros b u a0 a1 b' H. destruct ((a0 <? 0) || (a1 <? 0)); [discriminate H|].
  destruct (user_bal b u) as [[u0 u1]|]; [|discriminate H]. simpl in H. destruct (b_spread b) as [p0 p1].
  destruct ((p0 <? a0) || (p1 <? a1)); [discriminate H|]. inversion H; subst. reflexivity.
Qed.
Lemma send_inc_to_user_binc : forall b u a0 a1 b', send_inc_to_user b u a0 a1 = Some b' ->
  b_inc b' = (fst (b_inc b) - a0, snd (b_inc b) - a1).
Proof.
  unfold send_inc_to_user. intros b u a0 a1 b' H. destruct ((a0 <? 0) || (a1 <? 0)); [discriminate H|].
  destruct (user_bal b u) as [[u0 u1]|]; [|discriminate H]. simpl in H. destruct (b_inc b) as [p0 p1].
  destruct ((p0 <? a0) || (p1 <? a1)); [discriminate H|]. inversion H; subst. reflexivity.
Qed.

Lemma create_position_binc : forall s owner a0 a1 m0 m1 lo hi s' c, create_position s owner a0 a1 m0 m1 lo hi = Some (s', c) ->
  b_inc (s_bank s') = b_inc (s_bank s).
Proof.
  unfold create_position. intros s owner a0 a1 m0 m1 lo hi s' c H.
  destruct (hi <=? lo); [discriminate H|]. destruct ((a0 <? 0) || (a1 <? 0)); [discriminate H|].
  destruct ((a0 =? 0) && (a1 =? 0)); [discriminate H|]. destruct ((m0 <? 0) || (m1 <? 0)); [discriminate H|].
  destruct (negb (validate_tick_range (p_spacing (s_pool s)) lo hi)); [discriminate H|].
  destruct (ticks_to_sqrt_price lo hi) as [[sl su]|]; [|discriminate H]. cbv beta iota in H.
  destruct (round_tick_to_canonical lo hi sl su (p_spacing (s_pool s))) as [[lo' hi']|]; [|discriminate H]. cbv beta iota in H.
  match type of H with (do p1 <- ?X; _) = _ => destruct X as [p1|] eqn:EP; [|discriminate H] end. cbv beta iota in H.
  destruct (get_liquidity_from_amounts (p_sqrt p1) sl su a0 a1) as [liq|]; [|discriminate H]. cbv beta iota in H.
  destruct (liq =? 0); [discriminate H|].
  destruct (update_position _ owner lo' hi' liq (s_time s) (s_next_id s)) as [[[s3 [amt0 amt1]] [le ue]]|] eqn:EU; [|discriminate H]. cbv beta iota in H.
  destruct ((amt0 <? m0) || (amt1 <? m1)); [discriminate H|].
  destruct (send_user_to_pool (s_bank s3) owner amt0 amt1) as [b|] eqn:EB; [|discriminate H]. inversion H; subst. clear H. simpl.
  destruct (update_position_scaling _ _ _ _ _ _ _ _ _ _ EU) as [_ BK]. simpl in BK.
  rewrite (send_user_to_pool_binc _ _ _ _ _ EB), BK. reflexivity.
Qed.
Lemma withdraw_position_binc : forall s owner id liq s' amts, withdraw_position s owner id liq = Some (s', amts) ->
  b_inc (s_bank s') = b_inc (s_bank s).
Proof.
  unfold withdraw_position. intros s owner id liq s' amts H.
  destruct (negb (0 <? liq)); [discriminate H|]. destruct (pos_get (s_pos s) id) as [q|]; [|discriminate H]. cbv beta iota in H.
  destruct (negb (ps_owner q =? owner)); [discriminate H|]. destruct (ps_liq q <? liq); [discriminate H|].
  destruct (update_position s owner (ps_lower q) (ps_upper q) (- liq) (ps_join q) id) as [[[s1 [amt0 amt1]] [le ue]]|] eqn:EU; [|discriminate H]. cbv beta iota in H.
  destruct (send_pool_to_user (s_bank s1) owner (Z.abs amt0) (Z.abs amt1)) as [b|] eqn:EB; [|discriminate H]. cbv beta iota in H.
  destruct (update_position_scaling _ _ _ _ _ _ _ _ _ _ EU) as [_ BK].
  match type of H with (do s3 <- ?X; _) = _ => destruct X as [s3|] eqn:E3; [|discriminate H] end. cbv beta iota in H.
  inversion H; subst s' amts. clear H. simpl.
  assert (S3 : s_bank s3 = b).
  { destruct (liq =? ps_liq q); [|inversion E3; subst; simpl; auto]. simpl in E3.
    destruct (has_any_position (set_pos (set_bank s1 b) (pos_remove (s_pos s1) id))) eqn:EH; [inversion E3; subst; simpl; auto|].
    unfold uninitialize_pool in E3. rewrite EH in E3. inversion E3; subst. simpl. auto. }
  rewrite S3, (send_pool_to_user_binc _ _ _ _ _ EB), BK. reflexivity.
Qed.

Lemma PII_PT : forall rs, PII rs -> PT (r_rw rs) (s_pos (r_base rs)).
Proof. intros rs [_ [[_ [_ [_ [H _]]]] _]]. exact H. Qed.
Lemma inv_liq : forall s, Inv s -> p_liq (s_pool s) = sum_liq (f_range (p_tick (s_pool s))) (s_pos s).
Proof. intros s I. apply (inv_active s I). Qed.

(* sums over the position list, pointwise in the accumulator index *)
Lemma OwedI_set_new : forall d w cur P p, pos_get P (ps_id p) = None ->
  OwedI d w cur (pos_set P p) = OwedI d w cur P + usum NU (fun u => owedU u d w cur p).
Proof. intros d w cur P p G. unfold OwedI. rewrite <- usum_plus. apply usum_ext. intros u _. apply zsum_set_new. exact G. Qed.
Lemma OwedI_ext : forall d w w' cur cur' P, (forall u p, (u < NU)%nat -> In p P -> owedU u d w' cur' p = owedU u d w cur p) ->
  OwedI d w' cur' P = OwedI d w cur P.
Proof. intros d w w' cur cur' P H. unfold OwedI. apply usum_ext. intros u Hu. apply zsum_ext. intros p Hp. apply H; assumption. Qed.
Lemma usum_zero : forall n, usum n (fun _ => 0) = 0.
Proof. induction n; simpl; lia. Qed.

(* ---------- CreatePosition ---------- *)
Lemma inc_create : forall rs owner a0 a1 m0 m1 lo hi rs' c d, PII rs ->
  r_create rs owner a0 a1 m0 m1 lo hi = Some (rs', c) ->
  PII rs' /\ isc_of rs' = isc_of rs /\ PhiI d rs' <= PhiI d rs + Z.of_nat NU * P18.
Proof.
  intros rs owner a0 a1 m0 m1 lo hi rs' c d [RI [HIW FR]] H.
  pose proof (rinv_create _ _ _ _ _ _ _ _ _ _ H RI) as RI'. pose proof RI as [I _].
  pose proof (r_create_base _ _ _ _ _ _ _ _ _ _ H) as B.
  destruct (create_position_spec _ _ _ _ _ _ _ _ _ _ I B) as [I' [NX [CI [SP [_ [LP _]]]]]].
  pose proof (create_position_binc _ _ _ _ _ _ _ _ _ _ B) as BI.
  set (P := s_pos (r_base rs)) in *. set (id := cr_id c) in *.
  set (newp := mkPos (s_next_id (r_base rs)) owner (cr_lower c) (cr_upper c) (cr_liq c) (s_time (r_base rs))) in *.
  assert (EW : update_position_rewards (r_rw rs) (cur_tick rs') (p_liq (s_pool (r_base rs))) (s_time (r_base rs))
                 (cr_lower c) (cr_upper c) id (cr_liq c) (cr_liq c) = Some (r_rw rs')).
  { unfold r_create in H. destruct (create_position _ _ _ _ _ _ _ _) as [[s2 c2]|]; [|discriminate H]. simpl in H.
    match type of H with (do w <- ?X; _) = _ => destruct X as [w|] eqn:E; [|discriminate H] end. inversion H; subst. simpl. exact E. }
  set (cur := cur_tick rs') in *. set (pl := p_liq (s_pool (r_base rs))) in *.
  assert (PG : pos_get P (ps_id newp) = None) by (simpl; apply (pos_get_fresh _ _ _ (inv_pos_ok _ I))).
  assert (CT : P <> [] -> cur = cur_tick rs).
  { intro NE. unfold cur, cur_tick. apply (create_position_tick _ _ _ _ _ _ _ _ _ _ B). apply (pool_has_position_iff _ I). exact NE. }
  assert (HL : pl = sum_liq (f_range cur) P).
  { unfold pl. rewrite (inv_liq _ I). fold P. destruct P as [|p0 P0] eqn:EP; [reflexivity|]. rewrite CT by discriminate. reflexivity. }
  unfold update_position_rewards in EW.
  destruct (ensure_tick (r_rw rs) cur pl _ (cr_lower c)) as [w1|] eqn:E1; [|discriminate EW]. simpl in EW.
  destruct (ensure_tick w1 cur pl _ (cr_upper c)) as [w2|] eqn:E2; [|discriminate EW]. simpl in EW.
  destruct (init_or_update_uptime w2 cur pl _ (cr_lower c) (cr_upper c) id (cr_liq c) (cr_liq c)) as [w3|] eqn:E3; [|discriminate EW]. simpl in EW.
  destruct (stage_ensure_tick cur _ _ _ _ _ P d E1 HIW HL) as [A1 [IW1 [_ [IS1 [NI1 RG1]]]]].
  destruct (stage_ensure_tick cur _ _ _ _ _ P d E2 IW1 HL) as [A2 [IW2 [_ [IS2 [NI2 RG2]]]]].
  (* initOrUpdatePositionUptimeAccumulators *)
  unfold init_or_update_uptime in E3.
  destruct (update_uptime w2 pl (s_time (r_base rs))) as [w2a|] eqn:EU; [|discriminate E3]. cbv beta iota in E3.
  destruct (uptime_growth_inside w2a cur (cr_lower c) (cr_upper c)) as [ins|] eqn:EI; [|discriminate E3]. cbv beta iota in E3.
  destruct (uptime_growth_outside w2a cur (cr_lower c) (cr_upper c)) as [outs|] eqn:EO; [|discriminate E3]. cbv beta iota in E3.
  destruct (upd_uptime_accs (rw_up w2a) ins outs id (cr_liq c) (cr_liq c)) as [ups|] eqn:EUp; [|discriminate E3]. inversion E3; subst w3. clear E3.
  destruct IW2 as [OK2 [Hi2 [LN2 [PT2 RM2]]]].
  destruct (stage_accrue cur w2 pl _ w2a P d EU OK2 Hi2 LN2 PT2 RM2 HL) as [A3 [PT3 [RM3 [OK3 [TT3 [SP3 [IS3 [LN3 [NI3 RG3]]]]]]]]].
  (* the new position's range *)
  assert (NIN : In newp (s_pos (r_base rs'))) by (rewrite SP; eapply pos_get_in; rewrite pos_get_set; simpl; rewrite Z.eqb_refl; reflexivity).
  destruct (PI_PT rs' RI' newp NIN) as [Hlu _]. simpl in Hlu.
  assert (IDS : forall p, In p P -> ps_id p <> id).
  { intros p Hp. pose proof (inv_pos_ok _ I) as F. rewrite Forall_forall in F. destruct (F p Hp) as [[_ X] _]. rewrite CI. lia. }
  assert (NR : forall u, acc_get (acc_u u w2a) id = None).
  { intro u. rewrite RG3, RG2, RG1. apply FR. rewrite CI. lia. }
  destruct (stage_upd_core d w2a cur _ _ id (cr_liq c) (cr_liq c) ins outs ups EI EO EUp LN3 Hlu
              ltac:(intros u Hu r R; rewrite NR in R; discriminate R)) as [OTH [TGT [RGO [RCS [LN4 INS4]]]]].
  set (w3 := set_up w2a ups) in *.
  (* initOrUpdatePositionSpreadRewardAccumulator does not touch the uptime side *)
  pose proof (init_or_update_spread_tt _ _ _ _ _ _ _ EW) as TT5.
  assert (UP5 : rw_up (r_rw rs') = rw_up w3 /\ rw_recs (r_rw rs') = rw_recs w3 /\ rw_inc_scaling (r_rw rs') = rw_inc_scaling w3 /\ rw_next_inc (r_rw rs') = rw_next_inc w3).
  { unfold init_or_update_spread in EW. obind EW. destruct (negb (acc_has (rw_spread w3) id)); obind EW; inversion EW; subst; simpl; auto. }
  destruct UP5 as [UP5 [RC5 [IS5 NI5]]].
  assert (OW5 : forall u p, owedU u d (r_rw rs') cur p = owedU u d w3 cur p).
  { intros u p. unfold owedU, acc_u, insU. rewrite UP5. rewrite (view_same (CU u d) w3 (r_rw rs') cur dc0 TT5); [reflexivity|].
    unfold sel_G. rewrite UP5. reflexivity. }
  assert (ISC : isc_of rs' = isc_of rs) by (unfold isc_of; rewrite IS5; unfold w3; simpl; rewrite IS3, IS2, IS1; reflexivity).
  (* the amounts owed *)
  assert (OP : OwedI d (r_rw rs') cur P = OwedI d w2a cur P).
  { apply OwedI_ext. intros u p Hu Hp. rewrite OW5. apply OTH. apply IDS. exact Hp. }
  assert (ON : 2 * usum NU (fun u => owedU u d (r_rw rs') cur newp) <= Z.of_nat NU * P18).
  { rewrite (usum_ext _ _ (fun u => owedU u d w3 cur newp)) by (intros u _; apply OW5).
    pose proof (TGT newp (eq_sym CI) eq_refl eq_refl) as X.
    rewrite (usum_ext _ (fun u => owedU u d w2a cur newp) (fun _ => 0)) in X; [rewrite usum_zero in X; lia|].
    intros u _. unfold owedU. simpl ps_id. rewrite <- CI. fold id. rewrite NR. reflexivity. }
  split; [|split; [exact ISC|]].
  - split; [exact RI'|]. split.
    + split; [rewrite RC5; exact OK3|]. split; [rewrite IS5; unfold w3; simpl; rewrite IS3; exact Hi2|]. split; [rewrite UP5; exact LN4|].
      split; [apply PI_PT; exact RI'|].
      intros u p Hu Hp. rewrite SP in Hp. fold P newp in Hp. unfold acc_u. rewrite UP5. fold (acc_u u w3).
      destruct (in_pos_set _ _ _ Hp) as [EQ|Hin].
      * subst p. simpl ps_id. rewrite <- CI. fold id. destruct (RCS u Hu) as [_ NEW]. destruct (NEW (NR u)) as [r' [R' [S' [_ U']]]].
        exists r'. split; [exact R'|]. split; [exact S'|]. intro d0. rewrite U', dsel_dc0. lia.
      * rewrite (RGO u _ (IDS p Hin)). apply RM3; assumption.
    + intros u j Hj. rewrite NX in Hj. assert (j <> id) by (rewrite CI; lia). unfold acc_u. rewrite UP5. fold (acc_u u w3).
      rewrite (RGO u j H0), RG3, RG2, RG1. apply FR. lia.
  - unfold PhiI, OwedInc, inc_bal. fold cur. rewrite ISC, BI, SP. fold P newp. rewrite (OwedI_set_new d _ cur P newp PG), OP, RC5.
    change (rw_recs w3) with (rw_recs w2a).
    assert (OLD : OwedI d (r_rw rs) (cur_tick rs) P = OwedI d (r_rw rs) cur P).
    { destruct P as [|p0 P0] eqn:EP; [apply OwedI_ext; intros u p _ []|]. rewrite CT by discriminate. reflexivity. }
    rewrite OLD. unfold isc_of in *. rewrite IS2, IS1 in A3. rewrite IS1 in A2. lia.
Qed.
