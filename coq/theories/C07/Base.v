(* C07 infrastructure: option-inversion tactic, lemmas about the tick map and the position list of CL/CLPool.v,
   and the liquidity sums the invariant is phrased with. *)
From Coq Require Import ZArith List Bool Lia Sorted.
Import ListNotations.
From Osmo Require Import Base.DecModel CL.TickMath CL.CLMath CL.CLPool.
Open Scope Z_scope.

(* peel one layer of the option monad / error guards off a hypothesis  [... = Some _] *)
Ltac oinv1 H :=
  match type of H with
  | (match ?x with Some _ => _ | None => None end) = Some _ => let E := fresh "E" in destruct x eqn:E; [|discriminate H]
  | (if ?b then None else _) = Some _ => let E := fresh "E" in destruct b eqn:E; [discriminate H|]
  | (if ?b then _ else None) = Some _ => let E := fresh "E" in destruct b eqn:E; [|discriminate H]
  | (let (_, _) := ?p in _) = Some _ => destruct p
  | Some _ = Some _ => inversion H; clear H
  end.
Ltac oinv H := repeat oinv1 H.

Ltac splits := repeat match goal with |- _ /\ _ => split end.

Lemma orb_false_elim3 : forall a b, a || b = false -> a = false /\ b = false.
Proof. intros; apply orb_false_iff; assumption. Qed.

(* ---------- tick map ---------- *)
Definition keys_lb (x : Z) (m : list (Z * tick_info)) : Prop := Forall (fun kv => x < fst kv) m.
Inductive keys_sorted : list (Z * tick_info) -> Prop :=
| ks_nil : keys_sorted []
| ks_cons : forall k v m, keys_lb k m -> keys_sorted m -> keys_sorted ((k, v) :: m).

Lemma tick_get_set : forall m k v k', tick_get (tick_set m k v) k' = if k' =? k then Some v else tick_get m k'.
Proof.
  induction m as [|[k0 v0] m IH]; intros k v k'; simpl.
  - reflexivity.
  - destruct (k <? k0) eqn:E1; simpl; [reflexivity|].
    destruct (k =? k0) eqn:E2; simpl.
    + apply Z.eqb_eq in E2; subst. destruct (k' =? k0); reflexivity.
    + rewrite IH. destruct (k' =? k0) eqn:E3; [|reflexivity].
      apply Z.eqb_eq in E3; subst. rewrite Z.eqb_sym, E2. reflexivity.
Qed.

Lemma keys_lb_get_none : forall m x k, keys_lb x m -> k <= x -> tick_get m k = None.
Proof.
  induction m as [|[k0 v0] m IH]; intros x k H Hk; simpl; [reflexivity|].
  inversion H; subst. simpl in *. destruct (k =? k0) eqn:E; [apply Z.eqb_eq in E; lia|]. eapply IH; eassumption.
Qed.

Lemma keys_lb_weaken : forall m x y, keys_lb x m -> y <= x -> keys_lb y m.
Proof. intros m x y H Hy. unfold keys_lb in *. eapply Forall_impl; [|exact H]. simpl. intros; lia. Qed.

Lemma keys_lb_set : forall m x k v, keys_lb x m -> x < k -> keys_lb x (tick_set m k v).
Proof.
  induction m as [|[k0 v0] m IH]; intros x k v H Hk; simpl.
  - constructor; [simpl; lia|constructor].
  - inversion H; subst. simpl in *. destruct (k <? k0); [constructor; [simpl; lia|assumption]|].
    destruct (k =? k0); constructor; simpl; try lia; try assumption. apply IH; assumption.
Qed.

Lemma keys_sorted_set : forall m k v, keys_sorted m -> keys_sorted (tick_set m k v).
Proof.
  induction m as [|[k0 v0] m IH]; intros k v H; simpl.
  - constructor; constructor.
  - inversion H; subst. destruct (k <? k0) eqn:E1.
    + apply Z.ltb_lt in E1. constructor; [|assumption]. constructor; [simpl; lia|]. eapply keys_lb_weaken; [eassumption|lia].
    + apply Z.ltb_ge in E1. destruct (k =? k0) eqn:E2.
      * apply Z.eqb_eq in E2; subst. constructor; assumption.
      * apply Z.eqb_neq in E2. constructor; [|apply IH; assumption]. apply keys_lb_set; [assumption|lia].
Qed.

Lemma keys_lb_remove : forall m x k, keys_lb x m -> keys_lb x (tick_remove m k).
Proof.
  induction m as [|[k0 v0] m IH]; intros x k H; simpl; [constructor|].
  inversion H; subst. destruct (k =? k0); [assumption|]. constructor; [assumption|apply IH; assumption].
Qed.

Lemma keys_sorted_remove : forall m k, keys_sorted m -> keys_sorted (tick_remove m k).
Proof.
  induction m as [|[k0 v0] m IH]; intros k H; simpl; [constructor|].
  inversion H; subst. destruct (k =? k0); [assumption|]. constructor; [apply keys_lb_remove; assumption|apply IH; assumption].
Qed.

Lemma tick_get_remove : forall m k k', keys_sorted m ->
  tick_get (tick_remove m k) k' = if k' =? k then None else tick_get m k'.
Proof.
  induction m as [|[k0 v0] m IH]; intros k k' H; simpl.
  - destruct (k' =? k); reflexivity.
  - inversion H; subst. destruct (k =? k0) eqn:E1.
    + apply Z.eqb_eq in E1; subst. destruct (k' =? k0) eqn:E2; [|reflexivity].
      apply Z.eqb_eq in E2; subst. eapply keys_lb_get_none; [eassumption|lia].
    + simpl. destruct (k' =? k0) eqn:E2.
      * apply Z.eqb_eq in E2; subst. rewrite Z.eqb_sym, E1. reflexivity.
      * apply IH; assumption.
Qed.

Lemma tick_get_in : forall m k v, tick_get m k = Some v -> In (k, v) m.
Proof.
  induction m as [|[k0 v0] m IH]; intros k v H; simpl in *; [discriminate|].
  destruct (k =? k0) eqn:E; [apply Z.eqb_eq in E; inversion H; subst; left; reflexivity|right; apply IH; assumption].
Qed.

Lemma in_tick_get : forall m k v, keys_sorted m -> In (k, v) m -> tick_get m k = Some v.
Proof.
  induction m as [|[k0 v0] m IH]; intros k v S H; simpl in *; [contradiction|].
  inversion S; subst. destruct H as [H|H].
  - inversion H; subst. rewrite Z.eqb_refl. reflexivity.
  - destruct (k =? k0) eqn:E; [|apply IH; assumption].
    apply Z.eqb_eq in E; subst. exfalso. unfold keys_lb in H2. rewrite Forall_forall in H2. specialize (H2 _ H). simpl in H2. lia.
Qed.

(* ---------- position list ---------- *)
Definition ids_lb (x : Z) (l : list position) : Prop := Forall (fun p => x < ps_id p) l.
Inductive ids_sorted : list position -> Prop :=
| is_nil : ids_sorted []
| is_cons : forall p l, ids_lb (ps_id p) l -> ids_sorted l -> ids_sorted (p :: l).

Lemma pos_get_id : forall l id q, pos_get l id = Some q -> ps_id q = id.
Proof.
  induction l as [|p l IH]; intros id q H; simpl in *; [discriminate|].
  destruct (ps_id p =? id) eqn:E; [apply Z.eqb_eq in E; inversion H; subst; reflexivity|apply IH; assumption].
Qed.

Lemma pos_get_in : forall l id q, pos_get l id = Some q -> In q l.
Proof.
  induction l as [|p l IH]; intros id q H; simpl in *; [discriminate|].
  destruct (ps_id p =? id); [inversion H; left; reflexivity|right; eapply IH; eassumption].
Qed.

Lemma ids_lb_get_none : forall l x id, ids_lb x l -> id <= x -> pos_get l id = None.
Proof.
  induction l as [|p l IH]; intros x id H Hx; simpl; [reflexivity|].
  inversion H; subst. destruct (ps_id p =? id) eqn:E; [apply Z.eqb_eq in E; lia|]. eapply IH; eassumption.
Qed.

Lemma in_pos_get : forall l q, ids_sorted l -> In q l -> pos_get l (ps_id q) = Some q.
Proof.
  induction l as [|p l IH]; intros q S H; simpl in *; [contradiction|].
  inversion S; subst. destruct H as [H|H].
  - subst. rewrite Z.eqb_refl. reflexivity.
  - destruct (ps_id p =? ps_id q) eqn:E; [|apply IH; assumption].
    apply Z.eqb_eq in E. exfalso. unfold ids_lb in H2. rewrite Forall_forall in H2. specialize (H2 _ H). lia.
Qed.

Lemma pos_get_set : forall l p id, pos_get (pos_set l p) id = if id =? ps_id p then Some p else pos_get l id.
Proof.
  induction l as [|q l IH]; intros p id; simpl.
  - rewrite Z.eqb_sym. destruct (id =? ps_id p); reflexivity.
  - destruct (ps_id p <? ps_id q) eqn:E1; simpl.
    + rewrite (Z.eqb_sym (ps_id p) id). destruct (id =? ps_id p); reflexivity.
    + destruct (ps_id p =? ps_id q) eqn:E2; simpl.
      * apply Z.eqb_eq in E2. rewrite (Z.eqb_sym (ps_id p) id). destruct (id =? ps_id p) eqn:E3; [reflexivity|].
        rewrite <- E2. rewrite (Z.eqb_sym (ps_id p) id), E3. reflexivity.
      * rewrite IH. destruct (ps_id q =? id) eqn:E3; [|reflexivity].
        apply Z.eqb_eq in E3; subst. rewrite Z.eqb_sym, E2. reflexivity.
Qed.

Lemma ids_lb_weaken : forall l x y, ids_lb x l -> y <= x -> ids_lb y l.
Proof. intros l x y H Hy. unfold ids_lb in *. eapply Forall_impl; [|exact H]. simpl. intros; lia. Qed.

Lemma ids_lb_set : forall l x p, ids_lb x l -> x < ps_id p -> ids_lb x (pos_set l p).
Proof.
  induction l as [|q l IH]; intros x p H Hx; simpl.
  - constructor; [assumption|constructor].
  - inversion H; subst. destruct (ps_id p <? ps_id q); [constructor; assumption|].
    destruct (ps_id p =? ps_id q); constructor; try assumption. apply IH; assumption.
Qed.

Lemma ids_sorted_set : forall l p, ids_sorted l -> ids_sorted (pos_set l p).
Proof.
  induction l as [|q l IH]; intros p H; simpl.
  - constructor; constructor.
  - inversion H; subst. destruct (ps_id p <? ps_id q) eqn:E1.
    + apply Z.ltb_lt in E1. constructor; [|assumption]. constructor; [assumption|]. eapply ids_lb_weaken; [eassumption|lia].
    + apply Z.ltb_ge in E1. destruct (ps_id p =? ps_id q) eqn:E2.
      * apply Z.eqb_eq in E2. constructor; [rewrite E2|]; assumption.
      * apply Z.eqb_neq in E2. constructor; [|apply IH; assumption]. apply ids_lb_set; [assumption|lia].
Qed.

Lemma ids_lb_remove : forall l x id, ids_lb x l -> ids_lb x (pos_remove l id).
Proof.
  induction l as [|q l IH]; intros x id H; simpl; [constructor|].
  inversion H; subst. destruct (ps_id q =? id); [assumption|]. constructor; [assumption|apply IH; assumption].
Qed.

Lemma ids_sorted_remove : forall l id, ids_sorted l -> ids_sorted (pos_remove l id).
Proof.
  induction l as [|q l IH]; intros id H; simpl; [constructor|].
  inversion H; subst. destruct (ps_id q =? id); [assumption|]. constructor; [apply ids_lb_remove; assumption|apply IH; assumption].
Qed.

Lemma pos_get_remove : forall l id id', ids_sorted l ->
  pos_get (pos_remove l id) id' = if id' =? id then None else pos_get l id'.
Proof.
  induction l as [|q l IH]; intros id id' H; simpl.
  - destruct (id' =? id); reflexivity.
  - inversion H; subst. destruct (ps_id q =? id) eqn:E1.
    + apply Z.eqb_eq in E1; subst. destruct (id' =? ps_id q) eqn:E2.
      * apply Z.eqb_eq in E2; subst. eapply ids_lb_get_none; [eassumption|lia].
      * rewrite Z.eqb_sym, E2. reflexivity.
    + simpl. destruct (ps_id q =? id') eqn:E2.
      * apply Z.eqb_eq in E2; subst. rewrite E1. reflexivity.
      * apply IH; assumption.
Qed.

Lemma Forall_pos_set : forall (P : position -> Prop) l p, Forall P l -> P p -> Forall P (pos_set l p).
Proof.
  induction l as [|q l IH]; intros p H Hp; simpl.
  - constructor; [assumption|constructor].
  - inversion H; subst. destruct (ps_id p <? ps_id q); [constructor; assumption|].
    destruct (ps_id p =? ps_id q); constructor; try assumption. apply IH; assumption.
Qed.

Lemma Forall_pos_remove : forall (P : position -> Prop) l id, Forall P l -> Forall P (pos_remove l id).
Proof.
  induction l as [|q l IH]; intros id H; simpl; [constructor|].
  inversion H; subst. destruct (ps_id q =? id); [assumption|]. constructor; [assumption|apply IH; assumption].
Qed.

(* ---------- liquidity sums over positions selected by their range ---------- *)
Definition wt (f : Z -> Z -> bool) (p : position) : Z := if f (ps_lower p) (ps_upper p) then ps_liq p else 0.
Fixpoint sum_liq (f : Z -> Z -> bool) (l : list position) : Z :=
  match l with [] => 0 | p :: r => wt f p + sum_liq f r end.

Lemma sum_liq_set_new : forall f l p, pos_get l (ps_id p) = None ->
  sum_liq f (pos_set l p) = sum_liq f l + wt f p.
Proof.
  induction l as [|q l IH]; intros p H; simpl in *; [lia|].
  destruct (ps_id q =? ps_id p) eqn:E; [discriminate|].
  destruct (ps_id p <? ps_id q); simpl; [lia|].
  rewrite Z.eqb_sym, E. simpl. rewrite IH by assumption. lia.
Qed.

Lemma sum_liq_set_upd : forall f l p q, ids_sorted l -> pos_get l (ps_id p) = Some q ->
  sum_liq f (pos_set l p) = sum_liq f l - wt f q + wt f p.
Proof.
  induction l as [|x l IH]; intros p q S H; simpl in *; [discriminate|].
  inversion S; subst.
  destruct (ps_id x =? ps_id p) eqn:E.
  - inversion H; subst. apply Z.eqb_eq in E. rewrite <- E, Z.ltb_irrefl, Z.eqb_refl. simpl. lia.
  - assert (Hin := pos_get_in _ _ _ H). assert (Hid := pos_get_id _ _ _ H).
    unfold ids_lb in H2. rewrite Forall_forall in H2. specialize (H2 _ Hin).
    destruct (ps_id p <? ps_id x) eqn:E1; [apply Z.ltb_lt in E1; lia|].
    rewrite Z.eqb_sym, E. simpl. rewrite (IH p q) by assumption. lia.
Qed.

Lemma sum_liq_remove : forall f l id q, pos_get l id = Some q ->
  sum_liq f (pos_remove l id) = sum_liq f l - wt f q.
Proof.
  induction l as [|x l IH]; intros id q H; simpl in *; [discriminate|].
  destruct (ps_id x =? id); [inversion H; subst; lia|]. simpl. rewrite (IH id q) by assumption. lia.
Qed.

Lemma sum_liq_nonneg : forall f l, Forall (fun p => 0 < ps_liq p) l -> 0 <= sum_liq f l.
Proof.
  induction l as [|x l IH]; intros H; simpl; [lia|]. inversion H; subst. specialize (IH H3). unfold wt. destruct (f _ _); lia.
Qed.

Lemma sum_liq_zero_sub : forall f g l, Forall (fun p => 0 < ps_liq p) l ->
  (forall a b, g a b = true -> f a b = true) -> sum_liq f l = 0 -> sum_liq g l = 0.
Proof.
  induction l as [|x l IH]; intros H Hs Hz; simpl in *; [reflexivity|]. inversion H; subst.
  pose proof (sum_liq_nonneg f l H3). pose proof (sum_liq_nonneg g l H3).
  unfold wt in *. destruct (f (ps_lower x) (ps_upper x)) eqn:Ef.
  - lia.
  - destruct (g (ps_lower x) (ps_upper x)) eqn:Eg; [rewrite (Hs _ _ Eg) in Ef; discriminate|]. simpl. apply IH; try assumption; lia.
Qed.

Lemma sum_liq_ext : forall f g l, (forall a b, f a b = g a b) -> sum_liq f l = sum_liq g l.
Proof. induction l as [|x l IH]; intros H; simpl; [reflexivity|]. unfold wt. rewrite H, IH by assumption. reflexivity. Qed.

(* a position with boundary b exists iff the gross sum at b is positive *)
Definition f_gross (b : Z) : Z -> Z -> bool := fun lo hi => (lo =? b) || (hi =? b).
Definition f_lower (b : Z) : Z -> Z -> bool := fun lo _ => lo =? b.
Definition f_upper (b : Z) : Z -> Z -> bool := fun _ hi => hi =? b.
Definition f_range (t : Z) : Z -> Z -> bool := fun lo hi => (lo <=? t) && (t <? hi).
Definition gross_at (b : Z) (l : list position) : Z := sum_liq (f_gross b) l.
Definition net_at (b : Z) (l : list position) : Z := sum_liq (f_lower b) l - sum_liq (f_upper b) l.
Definition uses (b : Z) (l : list position) : bool := existsb (fun p => (ps_lower p =? b) || (ps_upper p =? b)) l.

Lemma uses_gross : forall b l, Forall (fun p => 0 < ps_liq p) l -> (uses b l = true <-> 0 < gross_at b l).
Proof.
  induction l as [|x l IH]; intros H; simpl.
  - unfold gross_at; simpl. split; [discriminate|lia].
  - inversion H; subst. specialize (IH H3). unfold gross_at in *. simpl. unfold wt at 1, f_gross at 1.
    pose proof (sum_liq_nonneg (f_gross b) l H3).
    destruct ((ps_lower x =? b) || (ps_upper x =? b)); simpl.
    + split; [lia|reflexivity].
    + rewrite IH. lia.
Qed.

Lemma gross_zero_net_zero : forall b l, Forall (fun p => 0 < ps_liq p) l -> gross_at b l = 0 -> net_at b l = 0.
Proof.
  intros b l H Hz. unfold net_at, gross_at in *.
  rewrite (sum_liq_zero_sub (f_gross b) (f_lower b) l H), (sum_liq_zero_sub (f_gross b) (f_upper b) l H); try assumption; try lia.
  - intros a c E. unfold f_upper, f_gross in *. rewrite E. apply orb_true_r.
  - intros a c E. unfold f_lower, f_gross in *. rewrite E. reflexivity.
Qed.

Lemma pos_remove_set : forall l p q, ids_sorted l -> pos_get l (ps_id p) = Some q ->
  pos_remove (pos_set l p) (ps_id p) = pos_remove l (ps_id p).
Proof.
  induction l as [|x l IH]; intros p q S H; simpl in *; [discriminate|].
  inversion S; subst.
  destruct (ps_id x =? ps_id p) eqn:E.
  - apply Z.eqb_eq in E. rewrite E, Z.ltb_irrefl, Z.eqb_refl. simpl. rewrite Z.eqb_refl. reflexivity.
  - assert (Hin := pos_get_in _ _ _ H). assert (Hid := pos_get_id _ _ _ H).
    unfold ids_lb in H2. rewrite Forall_forall in H2. specialize (H2 _ Hin).
    destruct (ps_id p <? ps_id x) eqn:E1; [apply Z.ltb_lt in E1; lia|].
    rewrite Z.eqb_sym, E. simpl. rewrite E. f_equal. eapply IH; eassumption.
Qed.
