(* C07 lemmas (first instalment: atomicity of step). *)
From Coq Require Import ZArith List Bool Lia.
Import ListNotations.
From Osmo Require Import Base.DecModel CL.TickMath CL.CLMath CL.CLPool CL.CLSwap CL.CLStep.
Open Scope Z_scope.

Lemma step_failed_unchanged : forall s o s', step s o = (s', None) -> s' = s.
Proof.
  intros s o s' H. unfold step in H. destruct (handler s o) as [[s1 r]|]; inversion H; reflexivity.
Qed.
