(* C07: every operation of a history preserves the bookkeeping invariant; ids, owners and ranges are stable. *)
From Coq Require Import ZArith List Bool Lia.
Import ListNotations.
From Osmo Require Import Base.DecModel CL.TickMath CL.CLMath CL.CLPool CL.CLSwap CL.CLStep.
From Osmo Require Import C07.Base C07.TickLemmas C07.LP C07.SwapDir C07.Swap.
Open Scope Z_scope.

Lemma step_failed_unchanged : forall s o s', step s o = (s', None) -> s' = s.
Proof.
  intros s o s' H. unfold step in H. destruct (handler s o) as [[s1 r]|]; inversion H; reflexivity.
Qed.

Lemma z_mem_In : forall x l, z_mem x l = true -> In x l.
Proof.
  induction l as [|y l IH]; simpl; intros H; [discriminate|]. apply orb_true_iff in H.
  destruct H as [H|H]; [apply Z.eqb_eq in H; left; congruence|right; auto].
Qed.

(* what one operation may do to the positions *)
Definition stable_step (s s' : state) (o : op) : Prop :=
  s_next_id s <= s_next_id s' /\
  (forall id q q', pos_get (s_pos s) id = Some q -> pos_get (s_pos s') id = Some q' ->
     ps_lower q' = ps_lower q /\ ps_upper q' = ps_upper q /\
     (ps_owner q' <> ps_owner q -> exists ids, o = OTransfer (ps_owner q) ids (ps_owner q') /\ In id ids)) /\
  (forall id q', pos_get (s_pos s) id = None -> pos_get (s_pos s') id = Some q' -> s_next_id s <= id < s_next_id s').

Lemma stable_refl : forall s o, stable_step s s o.
Proof.
  intros s o. unfold stable_step. split; [lia|]. split.
  - intros id q q' A B. rewrite A in B. inversion B; subst. splits; try reflexivity. intro C; contradiction.
  - intros id q' A B. rewrite A in B. discriminate.
Qed.

Lemma stable_same_pos : forall s s' o, s_pos s' = s_pos s -> s_next_id s' = s_next_id s -> stable_step s s' o.
Proof.
  intros s s' o P N. unfold stable_step. rewrite P, N. apply (stable_refl s o).
Qed.

Lemma handler_inv : forall s o s' r, Inv s -> handler s o = Some (s', r) -> Inv s' /\ stable_step s s' o.
Proof.
  intros s o s' r I H. destruct o; simpl in H.
  - (* create *)
    destruct (create_position s owner amt0 amt1 min0 min1 lo hi) as [[s1 c]|] eqn:E; [|discriminate]. inversion H; subst; clear H.
    destruct (create_position_spec _ _ _ _ _ _ _ _ _ _ I E) as [I' [N [Cid [P [T [L Spc]]]]]]. split; [assumption|].
    pose proof (pos_get_fresh _ _ _ (inv_pos_ok s I)) as Fr.
    unfold stable_step. split; [lia|]. split.
    + intros id q q' A B. rewrite P, pos_get_set in B. simpl in B.
      destruct (id =? s_next_id s) eqn:Ei; [apply Z.eqb_eq in Ei; subst id; congruence|].
      rewrite A in B. inversion B; subst. splits; try reflexivity. intro C; contradiction.
    + intros id q' A B. rewrite P, pos_get_set in B. simpl in B.
      destruct (id =? s_next_id s) eqn:Ei; [apply Z.eqb_eq in Ei; lia|]. congruence.
  - (* withdraw *)
    destruct (withdraw_position s owner id liq) as [[s1 [a0 a1]]|] eqn:E; [|discriminate]. inversion H; subst; clear H.
    destruct (withdraw_position_spec _ _ _ _ _ _ _ I E) as [I' [N [T [Spc [q0 [G [O [Lq P]]]]]]]]. split; [assumption|].
    unfold stable_step. split; [lia|].
    assert (Get : forall id', pos_get (s_pos s') id' =
                  if id' =? id then (if liq =? ps_liq q0 then None else Some (mkPos id owner (ps_lower q0) (ps_upper q0) (ps_liq q0 - liq) (ps_join q0)))
                  else pos_get (s_pos s) id').
    { intros id'. rewrite P. destruct (liq =? ps_liq q0).
      - rewrite pos_get_remove by apply (inv_pos_sorted s I). reflexivity.
      - rewrite pos_get_set. simpl. reflexivity. }
    split.
    + intros id' q q' A B. rewrite Get in B. destruct (id' =? id) eqn:Ei.
      * apply Z.eqb_eq in Ei. subst id'. rewrite G in A. inversion A; subst q0.
        destruct (liq =? ps_liq q); [discriminate|]. inversion B; subst q'. simpl. splits; try reflexivity. intro C. congruence.
      * rewrite A in B. inversion B; subst. splits; try reflexivity. intro C; contradiction.
    + intros id' q' A B. rewrite Get in B. destruct (id' =? id) eqn:Ei; [apply Z.eqb_eq in Ei; subst; congruence|congruence].
  - (* add to position *)
    destruct (add_to_position s owner id amt0 amt1 min0 min1) as [[s1 [[nid x0] x1]]|] eqn:E; [|discriminate]. inversion H; subst; clear H.
    destruct (add_to_position_spec _ _ _ _ _ _ _ _ _ _ _ I E) as [I' [N [Nid [T [Spc [q0 [lo' [hi' [liq' [G [O [Lq P]]]]]]]]]]]]. split; [assumption|].
    pose proof (pos_get_fresh _ _ _ (inv_pos_ok s I)) as Fr.
    unfold stable_step. split; [lia|].
    assert (Get : forall id', pos_get (s_pos s') id' =
                  if id' =? s_next_id s then Some (mkPos (s_next_id s) owner lo' hi' liq' (s_time s))
                  else if id' =? id then None else pos_get (s_pos s) id').
    { intros id'. rewrite P, pos_get_set. simpl. destruct (id' =? s_next_id s); [reflexivity|].
      rewrite pos_get_remove by apply (inv_pos_sorted s I). reflexivity. }
    split.
    + intros id' q q' A B. rewrite Get in B.
      destruct (id' =? s_next_id s) eqn:Ei; [apply Z.eqb_eq in Ei; subst id'; congruence|].
      destruct (id' =? id); [discriminate|]. rewrite A in B. inversion B; subst. splits; try reflexivity. intro C; contradiction.
    + intros id' q' A B. rewrite Get in B.
      destruct (id' =? s_next_id s) eqn:Ei; [apply Z.eqb_eq in Ei; lia|]. destruct (id' =? id); congruence.
  - (* transfer *)
    destruct (transfer_positions s sender ids recipient) as [s1|] eqn:E; [|discriminate]. inversion H; subst; clear H.
    destruct (transfer_positions_spec _ _ _ _ _ I E) as [I' [N [T [Pl [Tk [G Ow]]]]]]. split; [assumption|].
    unfold stable_step. split; [lia|]. split.
    + intros id q q' A B. rewrite G, A in B. destruct (z_mem id ids) eqn:M.
      * inversion B; subst q'. unfold owner_set; simpl. splits; try reflexivity. intros _.
        exists ids. rewrite (Ow id q M A). split; [reflexivity|apply z_mem_In; assumption].
      * inversion B; subst. splits; try reflexivity. intro C; contradiction.
    + intros id q' A B. rewrite G, A in B. discriminate.
  - (* swap exact in *)
    destruct (swap_exact_in s sender zfo amt min_out) as [[s1 out]|] eqn:E; [|discriminate]. inversion H; subst; clear H.
    destruct (swap_exact_in_spec _ _ _ _ _ _ _ I E) as [I' [P [_ [N _]]]]. split; [assumption|apply stable_same_pos; assumption].
  - (* swap exact out *)
    destruct (swap_exact_out s sender zfo amt max_in) as [[s1 tin]|] eqn:E; [|discriminate]. inversion H; subst; clear H.
    destruct (swap_exact_out_spec _ _ _ _ _ _ _ I E) as [I' [P [_ [N _]]]]. split; [assumption|apply stable_same_pos; assumption].
  - (* time *)
    inversion H; subst; clear H. split; [|apply stable_same_pos; reflexivity].
    constructor; simpl; apply I.
Qed.

Lemma handler_spacing : forall s o s' r, Inv s -> handler s o = Some (s', r) -> p_spacing (s_pool s') = p_spacing (s_pool s).
Proof.
  intros s o s' r I H. destruct o; simpl in H.
  - destruct (create_position s owner amt0 amt1 min0 min1 lo hi) as [[s1 c]|] eqn:E; [|discriminate]. inversion H; subst; clear H.
    apply (create_position_spec _ _ _ _ _ _ _ _ _ _ I E).
  - destruct (withdraw_position s owner id liq) as [[s1 [a0 a1]]|] eqn:E; [|discriminate]. inversion H; subst; clear H.
    apply (withdraw_position_spec _ _ _ _ _ _ _ I E).
  - destruct (add_to_position s owner id amt0 amt1 min0 min1) as [[s1 [[nid x0] x1]]|] eqn:E; [|discriminate]. inversion H; subst; clear H.
    apply (add_to_position_spec _ _ _ _ _ _ _ _ _ _ _ I E).
  - destruct (transfer_positions s sender ids recipient) as [s1|] eqn:E; [|discriminate]. inversion H; subst; clear H.
    destruct (transfer_positions_spec _ _ _ _ _ I E) as [_ [_ [_ [Pl _]]]]. rewrite Pl. reflexivity.
  - destruct (swap_exact_in s sender zfo amt min_out) as [[s1 out]|] eqn:E; [|discriminate]. inversion H; subst; clear H.
    apply (swap_exact_in_spec _ _ _ _ _ _ _ I E).
  - destruct (swap_exact_out s sender zfo amt max_in) as [[s1 tin]|] eqn:E; [|discriminate]. inversion H; subst; clear H.
    apply (swap_exact_out_spec _ _ _ _ _ _ _ I E).
  - inversion H; subst. reflexivity.
Qed.

Lemma step_inv : forall s o, Inv s -> Inv (fst (step s o)) /\ stable_step s (fst (step s o)) o.
Proof.
  intros s o I. unfold step. destruct (handler s o) as [[s' r]|] eqn:E; simpl.
  - eapply handler_inv; eassumption.
  - split; [assumption|apply stable_refl].
Qed.

Lemma step_spacing : forall s o, Inv s -> p_spacing (s_pool (fst (step s o))) = p_spacing (s_pool s).
Proof.
  intros s o I. unfold step. destruct (handler s o) as [[s' r]|] eqn:E; simpl; [eapply handler_spacing; eassumption|reflexivity].
Qed.

Lemma run_spacing : forall ops s, Inv s -> p_spacing (s_pool (run s ops)) = p_spacing (s_pool s).
Proof.
  induction ops as [|o ops IH]; intros s I; simpl; [reflexivity|].
  rewrite IH by apply (step_inv s o I). apply step_spacing; assumption.
Qed.

Lemma init_inv : forall sp spf sc users t, 0 < sp -> 0 <= spf <= 500000000000000000 -> Inv (init_state sp spf sc users t).
Proof.
  intros sp spf sc users t Hs Hf. unfold init_state. constructor; simpl.
  - constructor.
  - constructor.
  - constructor.
  - intro b. reflexivity.
  - reflexivity.
  - intro H; contradiction.
  - intros _. split; reflexivity.
  - lia.
  - assumption.
  - assumption.
Qed.

Lemma run_inv : forall ops s, Inv s -> Inv (run s ops).
Proof.
  induction ops as [|o ops IH]; intros s I; simpl; [assumption|]. apply IH. apply (step_inv s o I).
Qed.

(* prefix of a history *)
Lemma run_app : forall a b s, run s (a ++ b) = run (run s a) b.
Proof. induction a as [|o a IH]; intros b s; simpl; [reflexivity|apply IH]. Qed.

(* ---------- consequences used by the property theorems ---------- *)
Lemma authorised_spacing_pos : forall sp, In sp Gen.CL_consts.cl_AuthorizedTickSpacing -> 0 < sp.
Proof. intros sp H. unfold Gen.CL_consts.cl_AuthorizedTickSpacing in H. simpl in H. intuition lia. Qed.
Lemma authorised_spread_bounds : forall spf, In spf Gen.CL_consts.cl_AuthorizedSpreadFactors -> 0 <= spf <= 500000000000000000.
Proof. intros spf H. unfold Gen.CL_consts.cl_AuthorizedSpreadFactors in H. simpl in H. intuition lia. Qed.

Lemma tick_expected_uses : forall b l, Forall (fun p => 0 < ps_liq p) l ->
  tick_expected b l = if uses b l then Some (mkTick (gross_at b l) (net_at b l)) else None.
Proof.
  intros b l H. unfold tick_expected. destruct (uses b l) eqn:U.
  - apply (uses_gross b l H) in U. apply Z.ltb_lt in U. rewrite U. reflexivity.
  - destruct (0 <? gross_at b l) eqn:G; [|reflexivity]. apply Z.ltb_lt in G. apply (uses_gross b l H) in G. congruence.
Qed.

Lemma tick_get_all_none : forall m, (forall b, tick_get m b = None) -> m = [].
Proof. intros [|[k v] m] H; [reflexivity|]. specialize (H k). simpl in H. rewrite Z.eqb_refl in H. discriminate. Qed.

Lemma absent_stays : forall ops s id, Inv s -> pos_get (s_pos s) id = None -> id < s_next_id s ->
  pos_get (s_pos (run s ops)) id = None.
Proof.
  induction ops as [|o ops IH]; intros s id I A L; simpl; [assumption|].
  destruct (step_inv s o I) as [I' [N [_ S3]]]. apply IH; [assumption| |lia].
  destruct (pos_get (s_pos (fst (step s o))) id) as [q'|] eqn:E; [|reflexivity].
  specialize (S3 id q' A E). lia.
Qed.

Lemma ranges_stable_run : forall ops s id q q', Inv s ->
  pos_get (s_pos s) id = Some q -> pos_get (s_pos (run s ops)) id = Some q' ->
  ps_lower q' = ps_lower q /\ ps_upper q' = ps_upper q.
Proof.
  induction ops as [|o ops IH]; intros s id q q' I A B; simpl in B.
  - rewrite A in B. inversion B; subst. split; reflexivity.
  - destruct (step_inv s o I) as [I' [N [S2 S3]]].
    destruct (pos_get (s_pos (fst (step s o))) id) as [q1|] eqn:E.
    + destruct (S2 id q q1 A E) as [X [Y _]]. destruct (IH _ id q1 q' I' E B) as [X' Y']. split; congruence.
    + exfalso. pose proof (pos_get_in _ _ _ A) as Hin. pose proof (pos_get_id _ _ _ A) as Hid.
      pose proof (inv_pos_ok s I) as POK. rewrite Forall_forall in POK. destruct (POK _ Hin) as [[_ Lt] _].
      rewrite (absent_stays ops _ id I' E ltac:(lia)) in B. discriminate.
Qed.
