(* C07: the bookkeeping invariant and its preservation by the liquidity-provider operations
   (create / withdraw / add-to-position / transfer). *)
From Coq Require Import ZArith List Bool Lia.
Import ListNotations.
From Osmo Require Import Base.DecModel CL.TickMath CL.CLMath CL.CLPool C07.Base C07.TickLemmas.
Open Scope Z_scope.

(* ---------- the invariant ---------- *)
Definition pos_ok (sp next : Z) (p : position) : Prop :=
  0 < ps_id p < next /\ 0 < ps_liq p /\ validate_tick_range sp (ps_lower p) (ps_upper p) = true.

Definition tick_expected (b : Z) (l : list position) : option tick_info :=
  if 0 <? gross_at b l then Some (mkTick (gross_at b l) (net_at b l)) else None.

(* price and tick agree about every multiple b of the tick spacing in the initialisable range *)
Definition price_consistent_at (sp tick sqrtp : Z) : Prop :=
  forall b sb, Z.rem b sp = 0 -> MinInitializedTick <= b <= MaxTick -> tick_to_sqrt_price b = Some sb ->
    (b <= tick -> sb <= sqrtp) /\ (tick < b -> sqrtp <= sb).
Definition price_consistent (p : pool) : Prop := price_consistent_at (p_spacing p) (p_tick p) (p_sqrt p).

Record Inv (s : state) : Prop := mkInv {
  inv_pos_sorted : ids_sorted (s_pos s);
  inv_pos_ok : Forall (pos_ok (p_spacing (s_pool s)) (s_next_id s)) (s_pos s);
  inv_ticks_sorted : keys_sorted (s_ticks s);
  inv_tick_sums : forall b, tick_get (s_ticks s) b = tick_expected b (s_pos s);
  inv_active : p_liq (s_pool s) = sum_liq (f_range (p_tick (s_pool s))) (s_pos s);
  inv_price : s_pos s <> [] -> 0 < p_sqrt (s_pool s) /\ price_consistent (s_pool s);
  inv_empty : s_pos s = [] -> p_sqrt (s_pool s) = 0 /\ p_tick (s_pool s) = 0;
  inv_next : 0 < s_next_id s;
  inv_spacing : 0 < p_spacing (s_pool s);
  inv_spread : 0 <= p_spread (s_pool s) <= 500000000000000000 }.

Lemma pos_ok_liq : forall sp n l, Forall (pos_ok sp n) l -> Forall (fun p => 0 < ps_liq p) l.
Proof. intros sp n l H. eapply Forall_impl; [|exact H]. intros a [_ [A _]]. exact A. Qed.

Lemma pos_ok_next : forall sp n n' l, n <= n' -> Forall (pos_ok sp n) l -> Forall (pos_ok sp n') l.
Proof. intros sp n n' l Hn H. eapply Forall_impl; [|exact H]. intros a [A [B C]]. repeat split; try assumption; lia. Qed.

Lemma validate_tick_range_spec : forall sp lo hi, validate_tick_range sp lo hi = true ->
  sp <> 0 /\ Z.rem lo sp = 0 /\ Z.rem hi sp = 0 /\ MinInitializedTick <= lo < MaxTick /\ MinInitializedTick < hi <= MaxTick /\ lo < hi.
Proof.
  unfold validate_tick_range. intros sp lo hi H.
  repeat (apply andb_true_iff in H; destruct H as [H ?]).
  apply negb_true_iff in H. apply Z.eqb_neq in H. apply Z.eqb_eq in H4. apply Z.eqb_eq in H3.
  apply negb_true_iff in H2. apply orb_false_iff in H2. destruct H2 as [A B]. apply Z.ltb_ge in A. apply Z.leb_gt in B.
  apply negb_true_iff in H1. apply orb_false_iff in H1. destruct H1 as [C D]. apply Z.ltb_ge in C. apply Z.leb_gt in D.
  apply Z.ltb_lt in H0. repeat split; try assumption; lia.
Qed.

Lemma pool_has_position_iff : forall s, Inv s -> (pool_has_position (s_pool s) = true <-> s_pos s <> []).
Proof.
  intros s I. unfold pool_has_position. split.
  - intros H E. destruct (inv_empty s I E) as [A B]. rewrite A, B in H. discriminate.
  - intros H. destruct (inv_price s I H) as [A _]. destruct (p_sqrt (s_pool s) =? 0) eqn:E; [apply Z.eqb_eq in E; lia|reflexivity].
Qed.

(* ---------- a liquidity delta d applied to the range [lo, hi) ---------- *)
Definition shift (l l' : list position) (lo hi d : Z) : Prop :=
  forall f, sum_liq f l' = sum_liq f l + (if f lo hi then d else 0).

(* the tick map after initOrUpdateTick on both boundaries and removal of the emptied ones *)
Definition ticks_after (m : list (Z * tick_info)) (lo hi d : Z) (rm : bool) : list (Z * tick_info) :=
  let '(t1, le) := init_or_update_tick m lo d false in
  let '(t2, ue) := init_or_update_tick t1 hi d true in
  let t3 := if rm && le then tick_remove t2 lo else t2 in
  if rm && ue then tick_remove t3 hi else t3.

Lemma get_or_init_expected : forall m l b, Forall (fun p => 0 < ps_liq p) l ->
  tick_get m b = tick_expected b l -> tick_get_or_init m b = mkTick (gross_at b l) (net_at b l).
Proof.
  intros m l b Hl H. unfold tick_get_or_init. rewrite H. unfold tick_expected.
  destruct (0 <? gross_at b l) eqn:E; [reflexivity|]. apply Z.ltb_ge in E.
  pose proof (sum_liq_nonneg (f_gross b) l Hl). unfold gross_at in *.
  assert (Z0 : sum_liq (f_gross b) l = 0) by lia. rewrite Z0. rewrite (gross_zero_net_zero b l Hl Z0). reflexivity.
Qed.

Lemma ticks_after_sums : forall m l l' lo hi d rm,
  keys_sorted m -> (forall b, tick_get m b = tick_expected b l) ->
  Forall (fun p => 0 < ps_liq p) l -> Forall (fun p => 0 < ps_liq p) l' ->
  shift l l' lo hi d -> lo < hi ->
  (rm = false -> 0 < gross_at lo l' /\ 0 < gross_at hi l') ->
  keys_sorted (ticks_after m lo hi d rm) /\ (forall b, tick_get (ticks_after m lo hi d rm) b = tick_expected b l').
Proof.
  intros m l l' lo hi d rm Sm Hm Hl Hl' Sh Hlh Hrm.
  (* new sums *)
  assert (Glo : gross_at lo l' = gross_at lo l + d).
  { unfold gross_at. rewrite (Sh (f_gross lo)). unfold f_gross. rewrite Z.eqb_refl. reflexivity. }
  assert (Ghi : gross_at hi l' = gross_at hi l + d).
  { unfold gross_at. rewrite (Sh (f_gross hi)). unfold f_gross. rewrite Z.eqb_refl, orb_true_r. reflexivity. }
  assert (Nlo : net_at lo l' = net_at lo l + d).
  { unfold net_at. rewrite (Sh (f_lower lo)), (Sh (f_upper lo)). unfold f_lower, f_upper. rewrite Z.eqb_refl.
    destruct (hi =? lo) eqn:E; [apply Z.eqb_eq in E; lia|]. lia. }
  assert (Nhi : net_at hi l' = net_at hi l - d).
  { unfold net_at. rewrite (Sh (f_lower hi)), (Sh (f_upper hi)). unfold f_lower, f_upper. rewrite Z.eqb_refl.
    destruct (lo =? hi) eqn:E; [apply Z.eqb_eq in E; lia|]. lia. }
  assert (Oth : forall b, b <> lo -> b <> hi -> gross_at b l' = gross_at b l /\ net_at b l' = net_at b l).
  { intros b B1 B2. unfold gross_at, net_at. rewrite (Sh (f_gross b)), (Sh (f_lower b)), (Sh (f_upper b)).
    unfold f_gross, f_lower, f_upper.
    destruct (lo =? b) eqn:E1; [apply Z.eqb_eq in E1; lia|]. destruct (hi =? b) eqn:E2; [apply Z.eqb_eq in E2; lia|]. simpl. lia. }
  unfold ticks_after, init_or_update_tick.
  rewrite (get_or_init_expected m l lo Hl (Hm lo)). cbn [ti_gross ti_net]. rewrite <- Glo, <- Nlo.
  set (T1 := mkTick (gross_at lo l') (net_at lo l')).
  assert (G1 : tick_get_or_init (tick_set m lo T1) hi = mkTick (gross_at hi l) (net_at hi l)).
  { unfold tick_get_or_init. rewrite tick_get_set. destruct (hi =? lo) eqn:E; [apply Z.eqb_eq in E; lia|].
    fold (tick_get_or_init m hi). apply get_or_init_expected; [assumption|apply Hm]. }
  rewrite G1. cbn [ti_gross ti_net]. rewrite <- Ghi, <- Nhi.
  set (T2 := mkTick (gross_at hi l') (net_at hi l')).
  pose proof (sum_liq_nonneg (f_gross lo) l' Hl') as P1. pose proof (sum_liq_nonneg (f_gross hi) l' Hl') as P2.
  fold (gross_at lo l') in P1. fold (gross_at hi l') in P2.
  (* the emptiness flags *)
  assert (F1 : ((gross_at lo l' =? 0) && (net_at lo l' =? 0)) = (gross_at lo l' =? 0)).
  { destruct (gross_at lo l' =? 0) eqn:E; [|reflexivity]. apply Z.eqb_eq in E. rewrite (gross_zero_net_zero lo l' Hl' E). reflexivity. }
  assert (F2 : ((gross_at hi l' =? 0) && (net_at hi l' =? 0)) = (gross_at hi l' =? 0)).
  { destruct (gross_at hi l' =? 0) eqn:E; [|reflexivity]. apply Z.eqb_eq in E. rewrite (gross_zero_net_zero hi l' Hl' E). reflexivity. }
  rewrite F1, F2.
  assert (S2 : keys_sorted (tick_set (tick_set m lo T1) hi T2)) by (apply keys_sorted_set, keys_sorted_set; assumption).
  set (t2 := tick_set (tick_set m lo T1) hi T2) in *.
  set (t3 := if rm && (gross_at lo l' =? 0) then tick_remove t2 lo else t2).
  assert (S3 : keys_sorted t3) by (unfold t3; destruct (rm && _); [apply keys_sorted_remove|]; assumption).
  split.
  { destruct (rm && (gross_at hi l' =? 0)); [apply keys_sorted_remove|]; assumption. }
  intros b.
  assert (Get2 : tick_get t2 b = if b =? hi then Some T2 else if b =? lo then Some T1 else tick_get m b).
  { unfold t2. rewrite !tick_get_set. reflexivity. }
  assert (Get3 : tick_get t3 b = if rm && (gross_at lo l' =? 0) && (b =? lo) then None else tick_get t2 b).
  { unfold t3. destruct (rm && (gross_at lo l' =? 0)); simpl; [|reflexivity]. rewrite tick_get_remove by assumption. reflexivity. }
  assert (Get4 : tick_get (if rm && (gross_at hi l' =? 0) then tick_remove t3 hi else t3) b =
                 if rm && (gross_at hi l' =? 0) && (b =? hi) then None else tick_get t3 b).
  { destruct (rm && (gross_at hi l' =? 0)); simpl; [|reflexivity]. rewrite tick_get_remove by assumption. reflexivity. }
  rewrite Get4, Get3, Get2. unfold tick_expected.
  destruct (b =? hi) eqn:Ehi.
  - apply Z.eqb_eq in Ehi. subst b. destruct (hi =? lo) eqn:E; [apply Z.eqb_eq in E; lia|].
    rewrite andb_false_r, andb_true_r. unfold T2.
    destruct rm; simpl.
    + destruct (gross_at hi l' =? 0) eqn:E0; [apply Z.eqb_eq in E0; rewrite E0; reflexivity|].
      apply Z.eqb_neq in E0. destruct (0 <? gross_at hi l') eqn:E1; [reflexivity|apply Z.ltb_ge in E1; lia].
    + destruct (Hrm eq_refl) as [_ G]. apply Z.ltb_lt in G. rewrite G. reflexivity.
  - rewrite andb_false_r. destruct (b =? lo) eqn:Elo.
    + apply Z.eqb_eq in Elo. subst b. rewrite andb_true_r. unfold T1.
      destruct rm; simpl.
      * destruct (gross_at lo l' =? 0) eqn:E0; [apply Z.eqb_eq in E0; rewrite E0; reflexivity|].
        apply Z.eqb_neq in E0. destruct (0 <? gross_at lo l') eqn:E1; [reflexivity|apply Z.ltb_ge in E1; lia].
      * destruct (Hrm eq_refl) as [G _]. apply Z.ltb_lt in G. rewrite G. reflexivity.
    + rewrite andb_false_r. apply Z.eqb_neq in Ehi. apply Z.eqb_neq in Elo.
      destruct (Oth b Elo Ehi) as [A B]. rewrite A, B. rewrite Hm. reflexivity.
Qed.

(* ---------- Keeper.UpdatePosition ---------- *)
Lemma update_position_spec : forall s owner lo hi d join id s' a0 a1 le ue,
  update_position s owner lo hi d join id = Some (s', (a0, a1), (le, ue)) ->
  let old := match pos_get (s_pos s) id with Some q => ps_liq q | None => 0 end in
  s_ticks s' = fst (init_or_update_tick (fst (init_or_update_tick (s_ticks s) lo d false)) hi d true) /\
  le = snd (init_or_update_tick (s_ticks s) lo d false) /\
  ue = snd (init_or_update_tick (fst (init_or_update_tick (s_ticks s) lo d false)) hi d true) /\
  s_pos s' = pos_set (s_pos s) (mkPos id owner lo hi (old + d) join) /\
  s_pool s' = (if in_range (s_pool s) lo hi
               then pool_with (s_pool s) (p_tick (s_pool s)) (p_sqrt (s_pool s)) (p_liq (s_pool s) + d) else s_pool s) /\
  s_next_id s' = s_next_id s /\ s_bank s' = s_bank s /\ s_time s' = s_time s /\
  0 <= old + d /\ d <> 0 /\ id <> 0 /\
  (pos_get (s_pos s) id = None -> 0 < d) /\
  (forall q, pos_get (s_pos s) id = Some q -> ps_owner q = owner /\ ps_lower q = lo /\ ps_upper q = hi /\ ps_join q = join).
Proof.
  intros s owner lo hi d join id s' a0 a1 le ue H. unfold update_position in H.
  destruct (id =? 0) eqn:Eid; [discriminate|]. apply Z.eqb_neq in Eid.
  destruct (match pos_get (s_pos s) id with Some q => _ | None => Some tt end) eqn:EV; [|discriminate].
  unfold init_or_update_tick in H at 1 2. cbv beta iota zeta in H.
  match type of H with (if ?c then None else _) = _ => destruct c eqn:Enl; [discriminate|] end.
  match type of H with (if ?c then None else _) = _ => destruct c eqn:Enew; [discriminate|] end.
  destruct (calc_actual_amounts (s_pool s) lo hi d) as [[x0 x1]|] eqn:EA; [|discriminate].
  inversion H; subst; clear H. cbv zeta.
  assert (Dnz : d <> 0).
  { unfold calc_actual_amounts in EA. destruct (d =? 0) eqn:E; [discriminate|]. apply Z.eqb_neq in E; assumption. }
  apply Z.ltb_ge in Enl.
  assert (Q : forall q, pos_get (s_pos s) id = Some q -> ps_owner q = owner /\ ps_lower q = lo /\ ps_upper q = hi /\ ps_join q = join).
  { intros q Hq. rewrite Hq in EV.
    destruct (negb (ps_owner q =? owner) || negb (ps_lower q =? lo) || negb (ps_upper q =? hi)
              || (d <? 0) && (ps_liq q <? Z.abs d) || negb (ps_join q =? join)) eqn:EE; [discriminate|].
    apply orb_false_iff in EE as [EE E5]. apply orb_false_iff in EE as [EE E4].
    apply orb_false_iff in EE as [EE E3]. apply orb_false_iff in EE as [E1 E2].
    apply negb_false_iff in E1, E2, E3, E5. apply Z.eqb_eq in E1, E2, E3, E5. repeat split; assumption. }
  split; [reflexivity|]. split; [reflexivity|]. split; [reflexivity|]. split; [reflexivity|].
  split; [destruct (in_range (s_pool s) lo hi); reflexivity|].
  split; [reflexivity|]. split; [reflexivity|]. split; [reflexivity|].
  split; [assumption|]. split; [assumption|]. split; [assumption|].
  split; [|exact Q].
  intros HN. rewrite HN in Enew. simpl in Enew. apply negb_false_iff in Enew. apply Z.ltb_lt in Enew. assumption.
Qed.

(* ---------- small facts ---------- *)
Lemma ticks_after_false : forall m lo hi d,
  ticks_after m lo hi d false = fst (init_or_update_tick (fst (init_or_update_tick m lo d false)) hi d true).
Proof. intros. unfold ticks_after, init_or_update_tick. reflexivity. Qed.

Lemma ticks_after_true : forall m lo hi d,
  ticks_after m lo hi d true =
  let t2 := fst (init_or_update_tick (fst (init_or_update_tick m lo d false)) hi d true) in
  let le := snd (init_or_update_tick m lo d false) in
  let ue := snd (init_or_update_tick (fst (init_or_update_tick m lo d false)) hi d true) in
  let t3 := if le then tick_remove t2 lo else t2 in
  if ue then tick_remove t3 hi else t3.
Proof. intros. unfold ticks_after, init_or_update_tick. reflexivity. Qed.

Lemma pos_set_not_nil : forall l p, pos_set l p <> [].
Proof. intros [|q l] p; simpl; [discriminate|]. destruct (ps_id p <? ps_id q); [discriminate|]. destruct (ps_id p =? ps_id q); discriminate. Qed.

Lemma pos_get_fresh : forall sp n l, Forall (pos_ok sp n) l -> pos_get l n = None.
Proof.
  intros sp n l H. destruct (pos_get l n) as [q|] eqn:E; [|reflexivity]. exfalso.
  pose proof (pos_get_in _ _ _ E) as Hin. pose proof (pos_get_id _ _ _ E) as Hid.
  rewrite Forall_forall in H. destruct (H _ Hin) as [A _]. lia.
Qed.

Lemma round_tick_to_canonical_valid : forall lo hi sl su sp lo' hi',
  validate_tick_range sp lo hi = true -> round_tick_to_canonical lo hi sl su sp = Some (lo', hi') ->
  validate_tick_range sp lo' hi' = true.
Proof.
  unfold round_tick_to_canonical. intros lo hi sl su sp lo' hi' V H.
  destruct (sqrt_price_to_tick_round_down_spacing sl sp) as [nlo|]; [|discriminate].
  destruct (sqrt_price_to_tick_round_down_spacing su sp) as [nhi|]; [|discriminate].
  destruct (negb (lo =? nlo) || negb (hi =? nhi)) eqn:E.
  - destruct (validate_tick_range sp nlo nhi) eqn:V2; [|discriminate]. inversion H; subst. assumption.
  - apply orb_false_iff in E. destruct E as [A B]. apply negb_false_iff in A, B. apply Z.eqb_eq in A, B. inversion H; subst. assumption.
Qed.

Lemma initialize_initial_position_spec : forall p a0 a1 p1, 0 < p_spacing p ->
  initialize_initial_position p a0 a1 = Some p1 ->
  p_spacing p1 = p_spacing p /\ p_spread p1 = p_spread p /\ p_scaling p1 = p_scaling p /\ p_liq p1 = p_liq p /\
  0 < p_sqrt p1 /\ price_consistent p1.
Proof.
  unfold initialize_initial_position. intros p a0 a1 p1 Hsp H.
  destruct (negb (0 <? a0) || negb (0 <? a1)); [discriminate|].
  destruct (negb (d_fits _)); [discriminate|].
  destruct (monotonic_sqrt18 _) as [r|]; [|discriminate].
  destruct (sqrt_price_to_tick_round_down_spacing (bd_from_dec r) (p_spacing p)) as [t|] eqn:ET; [|discriminate].
  inversion H; subst; clear H. unfold pool_with; simpl.
  split; [reflexivity|]. split; [reflexivity|]. split; [reflexivity|]. split; [reflexivity|]. split.
  - unfold sqrt_price_to_tick_round_down_spacing in ET.
    destruct (calculate_sqrt_price_to_tick (bd_from_dec r)) as [t0|] eqn:EC; [|discriminate].
    apply calculate_sqrt_price_to_tick_cert in EC. eapply bucket_cert_pos; eassumption.
  - unfold price_consistent, price_consistent_at; simpl. intros b sb Hb Hr Sb.
    unfold sqrt_price_to_tick_round_down_spacing in ET.
    destruct (calculate_sqrt_price_to_tick (bd_from_dec r)) as [t0|] eqn:EC; [|discriminate].
    apply calculate_sqrt_price_to_tick_cert in EC.
    destruct (round_down_spec _ _ _ Hsp ET) as [R1 [R2 R3]].
    eapply bucket_round_consistent; eassumption.
Qed.

(* ---------- CreatePosition ---------- *)
Lemma create_position_spec : forall s owner a0 a1 m0 m1 lo hi s' r, Inv s ->
  create_position s owner a0 a1 m0 m1 lo hi = Some (s', r) ->
  Inv s' /\ s_next_id s' = s_next_id s + 1 /\ cr_id r = s_next_id s /\
  s_pos s' = pos_set (s_pos s) (mkPos (s_next_id s) owner (cr_lower r) (cr_upper r) (cr_liq r) (s_time s)) /\
  s_time s' = s_time s /\ 0 < cr_liq r /\ p_spacing (s_pool s') = p_spacing (s_pool s).
Proof.
  intros s owner a0 a1 m0 m1 lo hi s' r I H. unfold create_position in H.
  destruct (hi <=? lo); [discriminate|]. destruct ((a0 <? 0) || (a1 <? 0)); [discriminate|].
  destruct ((a0 =? 0) && (a1 =? 0)); [discriminate|]. destruct ((m0 <? 0) || (m1 <? 0)); [discriminate|].
  destruct (validate_tick_range (p_spacing (s_pool s)) lo hi) eqn:V; [|discriminate]. simpl in H.
  destruct (ticks_to_sqrt_price lo hi) as [[sl su]|] eqn:ES; [|discriminate].
  destruct (round_tick_to_canonical lo hi sl su (p_spacing (s_pool s))) as [[lo' hi']|] eqn:ER; [|discriminate].
  pose proof (round_tick_to_canonical_valid _ _ _ _ _ _ _ V ER) as V'.
  destruct (if pool_has_position (s_pool s) then Some (s_pool s) else initialize_initial_position (s_pool s) a0 a1) as [p1|] eqn:EP; [|discriminate].
  destruct (get_liquidity_from_amounts (p_sqrt p1) sl su a0 a1) as [liq|] eqn:EL; [|discriminate].
  destruct (liq =? 0) eqn:Ez; [discriminate|].
  destruct (update_position _ owner lo' hi' liq (s_time s) (s_next_id s)) as [[[s3 [amt0 amt1]] [le ue]]|] eqn:EU; [|discriminate].
  destruct ((amt0 <? m0) || (amt1 <? m1)); [discriminate|].
  destruct (send_user_to_pool (s_bank s3) owner amt0 amt1) as [b|]; [|discriminate].
  inversion H; subst; clear H. simpl.
  pose proof (update_position_spec _ _ _ _ _ _ _ _ _ _ _ _ EU) as U. cbv zeta in U.
  cbn [s_pos s_ticks s_pool s_next_id s_bank s_time set_pool set_next_id] in U.
  rewrite (pos_get_fresh _ _ _ (inv_pos_ok s I)) in U.
  destruct U as [Ut [_ [_ [Up [Upool [Un [_ [Utime [_ [_ [_ [Upos _]]]]]]]]]]]].
  specialize (Upos eq_refl). rewrite Z.add_0_l in Up.
  destruct (validate_tick_range_spec _ _ _ V') as [_ [Rl [Rh [Bl [Bh Hlh]]]]].
  (* the pool before the position update *)
  assert (P1 : p_spacing p1 = p_spacing (s_pool s) /\ p_spread p1 = p_spread (s_pool s) /\
               p_liq p1 = sum_liq (f_range (p_tick p1)) (s_pos s) /\
               0 < p_sqrt p1 /\ price_consistent p1).
  { destruct (pool_has_position (s_pool s)) eqn:HP.
    - inversion EP; subst p1. apply (pool_has_position_iff s I) in HP. destruct (inv_price s I HP) as [A B].
      splits; try reflexivity; try assumption. apply (inv_active s I).
    - assert (HN : s_pos s = []).
      { destruct (s_pos s) eqn:E; [reflexivity|]. exfalso. assert (HH : s_pos s <> []) by (rewrite E; discriminate).
        apply (pool_has_position_iff s I) in HH. congruence. }
      destruct (initialize_initial_position_spec _ _ _ _ (inv_spacing s I) EP) as [A [B [_ [C [D E]]]]].
      splits; try assumption. rewrite C, (inv_active s I), HN. reflexivity. }
  destruct P1 as [Q1 [Q2 [Q3 [Q4 Q5]]]].
  set (np := mkPos (s_next_id s) owner lo' hi' liq (s_time s)) in *.
  assert (Sh : shift (s_pos s) (pos_set (s_pos s) np) lo' hi' liq).
  { intro f. rewrite sum_liq_set_new by (apply (pos_get_fresh _ _ _ (inv_pos_ok s I))). unfold wt, np; simpl. reflexivity. }
  assert (PosOk : Forall (pos_ok (p_spacing (s_pool s)) (s_next_id s + 1)) (pos_set (s_pos s) np)).
  { apply Forall_pos_set; [eapply pos_ok_next; [|apply (inv_pos_ok s I)]; lia|].
    unfold pos_ok, np; simpl. pose proof (inv_next s I). splits; try lia; assumption. }
  assert (LiqOld := pos_ok_liq _ _ _ (inv_pos_ok s I)). assert (LiqNew := pos_ok_liq _ _ _ PosOk).
  destruct (ticks_after_sums (s_ticks s) (s_pos s) _ lo' hi' liq false (inv_ticks_sorted s I) (inv_tick_sums s I) LiqOld LiqNew Sh Hlh) as [TS TG].
  { intros _. unfold gross_at. rewrite (Sh (f_gross lo')), (Sh (f_gross hi')).
    pose proof (sum_liq_nonneg (f_gross lo') _ LiqOld). pose proof (sum_liq_nonneg (f_gross hi') _ LiqOld).
    assert (E1 : f_gross lo' lo' hi' = true) by (unfold f_gross; rewrite Z.eqb_refl; reflexivity).
    assert (E2 : f_gross hi' lo' hi' = true) by (unfold f_gross; rewrite Z.eqb_refl, orb_true_r; reflexivity).
    rewrite E1, E2. lia. }
  rewrite ticks_after_false in TS, TG. rewrite <- Ut in TS, TG.
  assert (Spc : p_spacing (s_pool s3) = p_spacing (s_pool s)).
  { rewrite Upool. destruct (in_range p1 lo' hi'); simpl; assumption. }
  split; [|splits; try assumption; try lia].
  constructor; simpl.
  - rewrite Up. apply ids_sorted_set, (inv_pos_sorted s I).
  - rewrite Up, Spc, Un. simpl. exact PosOk.
  - exact TS.
  - rewrite Up. exact TG.
  - rewrite Up, Upool. unfold in_range. fold (f_range (p_tick p1) lo' hi').
    rewrite (Sh (f_range _)).
    destruct (f_range (p_tick p1) lo' hi') eqn:EF; simpl; rewrite EF; lia.
  - intros _. rewrite Upool. destruct (in_range p1 lo' hi'); simpl; (split; [assumption|]); exact Q5.
  - rewrite Up. intros HH. exfalso. eapply pos_set_not_nil; eassumption.
  - rewrite Un. simpl. pose proof (inv_next s I). lia.
  - rewrite Spc. apply (inv_spacing s I).
  - rewrite Upool. destruct (in_range p1 lo' hi'); simpl; rewrite Q2; apply (inv_spread s I).
Qed.

(* ---------- WithdrawPosition ---------- *)
Lemma withdraw_position_spec : forall s owner id liq s' x0 x1, Inv s ->
  withdraw_position s owner id liq = Some (s', (x0, x1)) ->
  Inv s' /\ s_next_id s' = s_next_id s /\ s_time s' = s_time s /\ p_spacing (s_pool s') = p_spacing (s_pool s) /\
  exists q, pos_get (s_pos s) id = Some q /\ ps_owner q = owner /\ 0 < liq <= ps_liq q /\
    s_pos s' = (if liq =? ps_liq q then pos_remove (s_pos s) id
                else pos_set (s_pos s) (mkPos id owner (ps_lower q) (ps_upper q) (ps_liq q - liq) (ps_join q))).
Proof.
  intros s owner id liq s' x0 x1 I H. unfold withdraw_position in H.
  destruct (negb (0 <? liq)) eqn:Eliq; [discriminate|]. apply negb_false_iff in Eliq. apply Z.ltb_lt in Eliq.
  destruct (pos_get (s_pos s) id) as [q|] eqn:EQ; [|discriminate].
  destruct (negb (ps_owner q =? owner)) eqn:Eo; [discriminate|]. apply negb_false_iff in Eo. apply Z.eqb_eq in Eo.
  destruct (ps_liq q <? liq) eqn:El; [discriminate|]. apply Z.ltb_ge in El.
  destruct (update_position s owner (ps_lower q) (ps_upper q) (- liq) (ps_join q) id) as [[[s1 [amt0 amt1]] [le ue]]|] eqn:EU; [|discriminate].
  destruct (send_pool_to_user (s_bank s1) owner (Z.abs amt0) (Z.abs amt1)) as [b|]; [|discriminate].
  pose proof (update_position_spec _ _ _ _ _ _ _ _ _ _ _ _ EU) as U. cbv zeta in U. rewrite EQ in U.
  destruct U as [Ut [Ule [Uue [Up [Upool [Un [_ [Utime _]]]]]]]].
  pose proof (pos_get_id _ _ _ EQ) as Qid. pose proof (pos_get_in _ _ _ EQ) as Qin.
  pose proof (inv_pos_ok s I) as POK. rewrite Forall_forall in POK. destruct (POK _ Qin) as [Qa [Qb Qc]].
  destruct (validate_tick_range_spec _ _ _ Qc) as [_ [Rl [Rh [Bl [Bh Hlh]]]]].
  set (lo := ps_lower q) in *. set (hi := ps_upper q) in *.
  (* final positions and the liquidity shift *)
  set (l := s_pos s) in *.
  set (l' := if liq =? ps_liq q then pos_remove l id else pos_set l (mkPos id owner lo hi (ps_liq q - liq) (ps_join q))).
  assert (Sh : shift l l' lo hi (- liq)).
  { intro f. unfold l'. destruct (liq =? ps_liq q) eqn:E.
    - apply Z.eqb_eq in E. rewrite (sum_liq_remove f l id q EQ). unfold wt. fold lo hi. destruct (f lo hi); lia.
    - rewrite (sum_liq_set_upd f l _ q (inv_pos_sorted s I)) by (simpl; exact EQ). unfold wt; simpl. fold lo hi. destruct (f lo hi); lia. }
  assert (Sorted' : ids_sorted l').
  { unfold l'. destruct (liq =? ps_liq q); [apply ids_sorted_remove|apply ids_sorted_set]; apply (inv_pos_sorted s I). }
  assert (PosOk : Forall (pos_ok (p_spacing (s_pool s)) (s_next_id s)) l').
  { unfold l'. destruct (liq =? ps_liq q) eqn:E; [apply Forall_pos_remove, (inv_pos_ok s I)|].
    apply Z.eqb_neq in E. apply Forall_pos_set; [apply (inv_pos_ok s I)|]. unfold pos_ok; simpl. splits; try lia. exact Qc. }
  assert (LiqOld := pos_ok_liq _ _ _ (inv_pos_ok s I)). assert (LiqNew := pos_ok_liq _ _ _ PosOk).
  destruct (ticks_after_sums (s_ticks s) l l' lo hi (- liq) true (inv_ticks_sorted s I) (inv_tick_sums s I) LiqOld LiqNew Sh Hlh) as [TS TG];
    [discriminate|].
  (* the pool after UpdatePosition *)
  set (pu := if in_range (s_pool s) lo hi
             then pool_with (s_pool s) (p_tick (s_pool s)) (p_sqrt (s_pool s)) (p_liq (s_pool s) + - liq) else s_pool s) in *.
  assert (PU : p_tick pu = p_tick (s_pool s) /\ p_sqrt pu = p_sqrt (s_pool s) /\ p_spacing pu = p_spacing (s_pool s) /\
               p_spread pu = p_spread (s_pool s) /\ p_liq pu = sum_liq (f_range (p_tick (s_pool s))) l').
  { unfold pu. rewrite (Sh (f_range _)). unfold in_range. fold (f_range (p_tick (s_pool s)) lo hi).
    destruct (f_range (p_tick (s_pool s)) lo hi); simpl; splits; try reflexivity; rewrite (inv_active s I); fold l; lia. }
  destruct PU as [PU1 [PU2 [PU3 [PU4 PU5]]]].
  assert (Lne : l <> []) by (intro E; unfold l in *; rewrite E in EQ; discriminate).
  destruct (inv_price s I Lne) as [PR1 PR2].
  (* now the two branches *)
  assert (Hfinal : exists pf, s' = mkState pf (ticks_after (s_ticks s) lo hi (- liq) true) l' (s_next_id s) b (s_time s) /\
                   ((l' <> [] /\ pf = pu) \/ (l' = [] /\ pf = pool_with pu 0 0 (p_liq pu))) /\ x0 = - amt0 /\ x1 = - amt1).
  { rewrite ticks_after_true. cbv zeta. rewrite <- Ule, <- Uue, <- Ut.
    destruct (liq =? ps_liq q) eqn:E.
    - assert (Lr : pos_remove (s_pos (set_bank s1 b)) id = l').
      { unfold l'. rewrite ?E. simpl. rewrite Up.
        apply (pos_remove_set l (mkPos id owner lo hi (ps_liq q + - liq) (ps_join q)) q (inv_pos_sorted s I)). simpl. exact EQ. }
      rewrite Lr in H. unfold has_any_position, uninitialize_pool, has_any_position, set_ticks, set_pool, set_pos, set_bank in H.
      cbn [s_pool s_ticks s_pos s_next_id s_bank s_time] in H.
      destruct l' as [|z l''] eqn:EL'.
      + inversion H; subst s' x0 x1; clear H. exists (pool_with (s_pool s1) 0 0 (p_liq (s_pool s1))).
        rewrite Upool, Un, Utime. fold pu. split; [reflexivity|]. split; [right; split; reflexivity|split; reflexivity].
      + inversion H; subst s' x0 x1; clear H. exists (s_pool s1).
        rewrite Upool, Un, Utime. fold pu. split; [reflexivity|]. split; [left; split; [discriminate|reflexivity]|split; reflexivity].
    - unfold set_ticks, set_pool, set_pos, set_bank in H. cbn [s_pool s_ticks s_pos s_next_id s_bank s_time] in H.
      inversion H; subst s' x0 x1; clear H. exists (s_pool s1).
      assert (Lr : s_pos s1 = l') by (unfold l'; rewrite ?E; exact Up).
      rewrite Upool, Un, Utime, Lr. fold pu. split; [reflexivity|].
      split; [left; split; [unfold l'; rewrite ?E; apply pos_set_not_nil|reflexivity]|split; reflexivity]. }
  destruct Hfinal as [pf [Es' [Hpf _]]]. subst s'. simpl.
  split; [|split; [reflexivity|split; [reflexivity|split; [destruct Hpf as [[_ E]|[_ E]]; subst pf; simpl; exact PU3|]]]].
  - constructor; simpl.
    + exact Sorted'.
    + destruct Hpf as [[_ E]|[_ E]]; subst pf; simpl; rewrite PU3; exact PosOk.
    + exact TS.
    + exact TG.
    + destruct Hpf as [[_ E]|[E1 E]]; subst pf; simpl.
      * rewrite PU1. exact PU5.
      * rewrite PU5, E1. reflexivity.
    + intros HH. destruct Hpf as [[_ E]|[E1 E]]; [|contradiction]. subst pf.
      unfold price_consistent. rewrite PU1, PU2, PU3. split; assumption.
    + intros HH. destruct Hpf as [[E1 _]|[_ E]]; [contradiction|]. subst pf. simpl. split; reflexivity.
    + apply (inv_next s I).
    + destruct Hpf as [[_ E]|[_ E]]; subst pf; simpl; rewrite PU3; apply (inv_spacing s I).
    + destruct Hpf as [[_ E]|[_ E]]; subst pf; simpl; rewrite PU4; apply (inv_spread s I).
  - exists q. splits; try assumption; try lia; reflexivity.
Qed.

(* ---------- addToPosition ---------- *)
Lemma add_to_position_spec : forall s owner id a0 a1 m0 m1 s' nid x0 x1, Inv s ->
  add_to_position s owner id a0 a1 m0 m1 = Some (s', (nid, x0, x1)) ->
  Inv s' /\ s_next_id s' = s_next_id s + 1 /\ nid = s_next_id s /\ s_time s' = s_time s /\ p_spacing (s_pool s') = p_spacing (s_pool s) /\
  exists q lo' hi' liq', pos_get (s_pos s) id = Some q /\ ps_owner q = owner /\ 0 < liq' /\
    s_pos s' = pos_set (pos_remove (s_pos s) id) (mkPos (s_next_id s) owner lo' hi' liq' (s_time s)).
Proof.
  intros s owner id a0 a1 m0 m1 s' nid x0 x1 I H. unfold add_to_position in H.
  destruct (id <=? 0); [discriminate|].
  destruct ((a0 <? 0) || (a1 <? 0) || (m0 <? 0) || (m1 <? 0)); [discriminate|].
  destruct (pos_get (s_pos s) id) as [q|] eqn:EQ; [|discriminate].
  destruct (negb (ps_owner q =? owner)) eqn:Eo; [discriminate|]. apply negb_false_iff in Eo. apply Z.eqb_eq in Eo.
  destruct ((a0 =? 0) && (a1 =? 0)); [discriminate|].
  destruct (withdraw_position s owner id (ps_liq q)) as [[s1 [w0 w1]]|] eqn:EW; [|discriminate].
  destruct (negb (pool_has_position (s_pool s1))); [discriminate|].
  destruct (create_position s1 owner (w0 + a0) (w1 + a1) _ _ (ps_lower q) (ps_upper q)) as [[s2 r]|] eqn:EC; [|discriminate].
  inversion H; subst; clear H.
  destruct (withdraw_position_spec _ _ _ _ _ _ _ I EW) as [I1 [N1 [T1 [S1 [q' [EQ' [_ [_ P1]]]]]]]].
  rewrite EQ in EQ'. inversion EQ'; subst q'. rewrite Z.eqb_refl in P1.
  destruct (create_position_spec _ _ _ _ _ _ _ _ _ _ I1 EC) as [I2 [N2 [Cid [P2 [T2 [Lq S2]]]]]].
  split; [assumption|]. split; [lia|]. split; [congruence|]. split; [congruence|]. split; [congruence|].
  exists q, (cr_lower r), (cr_upper r), (cr_liq r). splits; try assumption; try reflexivity.
  rewrite P2, P1, N1, T1. reflexivity.
Qed.

(* ---------- TransferPositions ---------- *)
Lemma inv_replace_positions : forall s l', Inv s ->
  ids_sorted l' -> Forall (pos_ok (p_spacing (s_pool s)) (s_next_id s)) l' ->
  (forall f, sum_liq f l' = sum_liq f (s_pos s)) -> (l' = [] <-> s_pos s = []) -> Inv (set_pos s l').
Proof.
  intros s l' I S P Sum Emp. constructor; simpl; try apply I; try assumption.
  - intro b. rewrite (inv_tick_sums s I). unfold tick_expected, gross_at, net_at. rewrite !Sum. reflexivity.
  - rewrite (inv_active s I). rewrite Sum. reflexivity.
  - intro HH. apply (inv_price s I). intro E. apply HH. apply Emp. assumption.
  - intro HH. apply (inv_empty s I). apply Emp. assumption.
Qed.

Definition owner_set (q : position) (o : Z) : position := mkPos (ps_id q) o (ps_lower q) (ps_upper q) (ps_liq q) (ps_join q).

Lemma transfer_loop_spec : forall ids s sender recipient s', Inv s ->
  transfer_loop s ids sender recipient = Some s' ->
  Inv s' /\ s_next_id s' = s_next_id s /\ s_time s' = s_time s /\ s_pool s' = s_pool s /\ s_ticks s' = s_ticks s /\
  forall id', pos_get (s_pos s') id' =
    match pos_get (s_pos s) id' with
    | Some q => if z_mem id' ids then Some (owner_set q recipient) else Some q
    | None => None
    end.
Proof.
  induction ids as [|id ids IH]; intros s sender recipient s' I H; simpl in H.
  - inversion H; subst. splits; try reflexivity; try assumption. intros id'. simpl. destruct (pos_get (s_pos s') id'); reflexivity.
  - destruct (pos_get (s_pos s) id) as [q|] eqn:EQ; [|discriminate].
    destruct (negb (ps_owner q =? sender)) eqn:Eo; [discriminate|].
    destruct (negb (has_any_position (set_pos s (pos_remove (s_pos s) id)))) eqn:EH; [discriminate|].
    set (q' := mkPos id recipient (ps_lower q) (ps_upper q) (ps_liq q) (ps_join q)) in *.
    set (l1 := pos_set (pos_remove (s_pos s) id) q') in *.
    change (transfer_loop (set_pos s l1) ids sender recipient = Some s') in H.
    pose proof (pos_get_id _ _ _ EQ) as Qid. pose proof (pos_get_in _ _ _ EQ) as Qin.
    pose proof (inv_pos_ok s I) as POK. rewrite Forall_forall in POK. destruct (POK _ Qin) as [Qa [Qb Qc]].
    assert (GetR : pos_get (pos_remove (s_pos s) id) id = None).
    { rewrite pos_get_remove by apply (inv_pos_sorted s I). rewrite Z.eqb_refl. reflexivity. }
    assert (I1 : Inv (set_pos s l1)).
    { apply inv_replace_positions; [assumption| | | |].
      - apply ids_sorted_set, ids_sorted_remove, (inv_pos_sorted s I).
      - apply Forall_pos_set; [apply Forall_pos_remove, (inv_pos_ok s I)|]. unfold pos_ok, q'; simpl. splits; try lia; assumption.
      - intro f. unfold l1. rewrite sum_liq_set_new by (simpl; exact GetR).
        rewrite (sum_liq_remove f _ id q EQ). unfold wt, q'; simpl. lia.
      - split; intro HH.
        + exfalso. eapply pos_set_not_nil; eassumption.
        + rewrite HH in EQ. discriminate. }
    destruct (IH _ _ _ _ I1 H) as [I' [N' [T' [Pl' [Tk' G']]]]].
    splits; try assumption.
    intros id'. rewrite G'. simpl. unfold l1. rewrite pos_get_set. simpl.
    rewrite pos_get_remove by apply (inv_pos_sorted s I).
    destruct (id' =? id) eqn:E.
    + apply Z.eqb_eq in E. subst id'. rewrite EQ. simpl.
      destruct (z_mem id ids); unfold owner_set, q'; simpl; rewrite Qid; reflexivity.
    + simpl. reflexivity.
Qed.

Lemma transfer_positions_spec : forall s sender ids recipient s', Inv s ->
  transfer_positions s sender ids recipient = Some s' ->
  Inv s' /\ s_next_id s' = s_next_id s /\ s_time s' = s_time s /\ s_pool s' = s_pool s /\ s_ticks s' = s_ticks s /\
  (forall id', pos_get (s_pos s') id' =
    match pos_get (s_pos s) id' with
    | Some q => if z_mem id' ids then Some (owner_set q recipient) else Some q
    | None => None
    end) /\
  (forall id' q, z_mem id' ids = true -> pos_get (s_pos s) id' = Some q -> ps_owner q = sender).
Proof.
  intros s sender ids recipient s' I H. unfold transfer_positions in H.
  destruct (sender =? recipient); [discriminate|]. destruct (negb (z_nodup ids)) eqn:ND; [discriminate|].
  apply negb_false_iff in ND.
  assert (H' : transfer_loop s ids sender recipient = Some s') by (destruct ids; [discriminate|exact H]).
  destruct (transfer_loop_spec _ _ _ _ _ I H') as [A [B [C [D [E F]]]]]. splits; try assumption.
  (* every transferred position belonged to the sender *)
  clear H F A B C D E. revert s I H' ND.
  induction ids as [|id ids IH]; intros s I H ND id' q M G; simpl in *; [discriminate|].
  destruct (pos_get (s_pos s) id) as [q0|] eqn:EQ; [|discriminate].
  destruct (negb (ps_owner q0 =? sender)) eqn:Eo; [discriminate|]. apply negb_false_iff in Eo. apply Z.eqb_eq in Eo.
  destruct (negb (has_any_position (set_pos s (pos_remove (s_pos s) id)))) eqn:EH; [discriminate|].
  apply andb_true_iff in ND. destruct ND as [ND1 ND2]. apply negb_true_iff in ND1.
  destruct (id' =? id) eqn:E.
  - apply Z.eqb_eq in E. subst id'. rewrite EQ in G. inversion G; subst. reflexivity.
  - simpl in M.
    set (q' := mkPos id recipient (ps_lower q0) (ps_upper q0) (ps_liq q0) (ps_join q0)) in *.
    set (l1 := pos_set (pos_remove (s_pos s) id) q') in *.
    change (transfer_loop (set_pos s l1) ids sender recipient = Some s') in H.
    (* re-establish the invariant for the intermediate state, as in transfer_loop_spec *)
    pose proof (pos_get_id _ _ _ EQ) as Qid. pose proof (pos_get_in _ _ _ EQ) as Qin.
    pose proof (inv_pos_ok s I) as POK. rewrite Forall_forall in POK. destruct (POK _ Qin) as [Qa [Qb Qc]].
    assert (GetR : pos_get (pos_remove (s_pos s) id) id = None).
    { rewrite pos_get_remove by apply (inv_pos_sorted s I). rewrite Z.eqb_refl. reflexivity. }
    assert (I1 : Inv (set_pos s l1)).
    { apply inv_replace_positions; [assumption| | | |].
      - apply ids_sorted_set, ids_sorted_remove, (inv_pos_sorted s I).
      - apply Forall_pos_set; [apply Forall_pos_remove, (inv_pos_ok s I)|]. unfold pos_ok, q'; simpl. splits; try lia; assumption.
      - intro f. unfold l1. rewrite sum_liq_set_new by (simpl; exact GetR).
        rewrite (sum_liq_remove f _ id q0 EQ). unfold wt, q'; simpl. lia.
      - split; intro HH.
        + exfalso. eapply pos_set_not_nil; eassumption.
        + rewrite HH in EQ. discriminate. }
    eapply (IH (set_pos s l1) I1 H ND2 id' q M).
    simpl. unfold l1. rewrite pos_get_set. simpl. rewrite E.
    rewrite pos_get_remove by apply (inv_pos_sorted s I). rewrite E. exact G.
Qed.
