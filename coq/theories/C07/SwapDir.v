(* C07: which way the four next-sqrt-price formulas move the price (needed when a swap step lands inside a bucket). *)
From Coq Require Import ZArith List Bool Lia.
Import ListNotations.
From Osmo Require Import Base.DecModel CL.TickMath CL.CLMath CL.CLPool CL.CLSwap C07.Base C07.TickLemmas.
Open Scope Z_scope.
Set Default Timeout 120.

Lemma bd_chk_some : forall z r, bd_chk z = Some r -> r = z.
Proof. unfold bd_chk. intros z r H. destruct (bd_fits z); inversion H; reflexivity. Qed.
Lemma nz_some : forall d u, nz d = Some u -> d <> 0.
Proof. unfold nz. intros d u H. destruct (d =? 0) eqn:E; [discriminate|apply Z.eqb_neq in E; assumption]. Qed.

Lemma quot_rem_pos : forall a b, 0 <= a -> 0 < b -> a = b * Z.quot a b + Z.rem a b /\ 0 <= Z.rem a b < b /\ 0 <= Z.quot a b.
Proof.
  intros a b Ha Hb. pose proof (Z.quot_rem' a b). pose proof (Z.rem_bound_pos a b Ha Hb). pose proof (Z.quot_pos a b Ha Hb). lia.
Qed.

(* D1: token1 in, rounding down: the price does not move down *)
Lemma dir_amount1_in : forall cur liq amt next, 0 < liq -> 0 <= amt ->
  next_sqrt_price_amount1_in_round_down cur liq amt = Some next -> cur <= next.
Proof.
  unfold next_sqrt_price_amount1_in_round_down. intros cur liq amt next Hl Ha H.
  destruct (nz liq); [|discriminate]. destruct (bd_chk _) as [q|] eqn:E; [|discriminate]. inversion H; subst.
  apply bd_chk_some in E. subst q. unfold bd_quo_truncate_dec. rewrite P18_val.
  pose proof (Z.quot_pos (amt * 1000000000000000000) liq ltac:(lia) Hl). lia.
Qed.

(* D2: token1 out, rounding down: the price does not move up *)
Lemma dir_amount1_out : forall cur liq amt next, 0 < liq -> 0 <= amt ->
  next_sqrt_price_amount1_out_round_down cur liq amt = Some next -> next <= cur.
Proof.
  unfold next_sqrt_price_amount1_out_round_down. intros cur liq amt next Hl Ha H.
  destruct (nz liq); [|discriminate]. destruct (bd_chk _) as [q|] eqn:E; [|discriminate]. inversion H; subst.
  apply bd_chk_some in E. subst q. unfold bd_quo_by_dec_round_up, inc_rem_div. rewrite P18_val.
  pose proof (Z.quot_pos (amt * 1000000000000000000) liq ltac:(lia) Hl).
  destruct (_ || _); lia.
Qed.

Lemma chop_round_up_nonneg_spec : forall p d, 0 < p -> 0 <= d ->
  d <= chop_round_up p d * p < d + p.
Proof.
  intros p d Hp Hd. unfold chop_round_up, inc_based_on_rem.
  destruct (d <? 0) eqn:E; [apply Z.ltb_lt in E; lia|].
  destruct (quot_rem_pos d p Hd Hp) as [A [B C]].
  destruct (Z.rem d p =? 0) eqn:E0; [apply Z.eqb_eq in E0|apply Z.eqb_neq in E0]; nia.
Qed.

(* D3: token0 in, rounding up: the price does not move up, provided the amount and the price are not both microscopic *)
Lemma dir_amount0_in : forall cur liq36 amt36 next,
  0 < liq36 -> 10 ^ 30 <= cur -> 10 ^ 18 <= amt36 ->
  next_sqrt_price_amount0_in_round_up cur liq36 amt36 = Some next -> next <= cur.
Proof.
  unfold next_sqrt_price_amount0_in_round_up. intros cur liq36 amt36 next Hl Hc Ha H.
  change (10 ^ 30) with 1000000000000000000000000000000 in Hc. change (10 ^ 18) with 1000000000000000000 in Ha.
  destruct (amt36 =? 0) eqn:E0; [apply Z.eqb_eq in E0; lia|].
  destruct (bd_chk (bd_mul_truncate amt36 cur)) as [product|] eqn:E1; [|discriminate].
  destruct (bd_chk (bd_mul_round_up liq36 cur)) as [num|] eqn:E2; [|discriminate].
  destruct (nz (product + liq36)); [|discriminate].
  apply bd_chk_some in E1, E2, H. subst.
  unfold bd_mul_truncate, bd_mul_round_up, chop_trunc in *. rewrite P36_val in *.
  set (P := 1000000000000000000000000000000000000) in *.
  destruct (quot_rem_pos (amt36 * cur) P ltac:(nia) ltac:(unfold P; lia)) as [A1 [A2 A3]].
  set (product := Z.quot (amt36 * cur) P) in *.
  assert (Hprod : 1000000000000 <= product).
  { assert (1000000000000 * P <= amt36 * cur) by (unfold P; nia). unfold P in *. nia. }
  pose proof (chop_round_up_nonneg_spec P (liq36 * cur) ltac:(unfold P; lia) ltac:(nia)) as [N1 N2].
  set (num := chop_round_up P (liq36 * cur)) in *.
  (* num * P <= cur * den *)
  assert (Key : num * P <= cur * (product + liq36)) by (unfold P in *; nia).
  unfold bd_quo_round_up_mut, bd_quo_round_up, inc_rem_div. rewrite P36_val. fold P.
  assert (Hden : 0 < product + liq36) by lia.
  assert (Hnum : 0 <= num) by (unfold P in *; nia).
  destruct (quot_rem_pos (num * P) (product + liq36) ltac:(unfold P; nia) Hden) as [B1 [B2 B3]].
  set (Q := Z.quot (num * P) (product + liq36)) in *. set (R := Z.rem (num * P) (product + liq36)) in *.
  set (den := product + liq36) in *.
  destruct ((R =? 0) || negb (Z.sgn R =? Z.sgn den)) eqn:EI.
  - apply (Z.mul_le_mono_pos_l _ _ den Hden). lia.
  - apply orb_false_iff in EI. destruct EI as [EI _]. apply Z.eqb_neq in EI.
    assert (Q < cur) by (apply (Z.mul_lt_mono_pos_l den); lia). lia.
Qed.

(* D4: token0 out, rounding up: with a positive denominator the price does not move down;
   with a negative one the result is not a price at all (<= 0) *)
Lemma dir_amount0_out : forall cur liq36 amt18 next,
  0 < liq36 -> 0 < cur -> 0 <= amt18 ->
  next_sqrt_price_amount0_out_round_up cur liq36 amt18 = Some next -> cur <= next \/ next <= 0.
Proof.
  unfold next_sqrt_price_amount0_out_round_up. intros cur liq36 amt18 next Hl Hc Ha H.
  destruct (amt18 =? 0) eqn:E0; [inversion H; left; lia|].
  destruct (bd_chk (bd_mul_round_up_dec cur amt18)) as [product|] eqn:E1; [|discriminate].
  destruct (bd_chk (bd_mul_round_up liq36 cur)) as [num|] eqn:E2; [|discriminate].
  destruct (nz (liq36 - product)) eqn:E3; [|discriminate].
  apply bd_chk_some in E1, E2, H. apply nz_some in E3. subst.
  unfold bd_mul_round_up_dec, bd_mul_round_up in *. rewrite P36_val, P18_val in *.
  set (P := 1000000000000000000000000000000000000) in *. set (P8 := 1000000000000000000) in *.
  pose proof (chop_round_up_nonneg_spec P8 (cur * amt18) ltac:(unfold P8; lia) ltac:(nia)) as [M1 M2].
  set (product := chop_round_up P8 (cur * amt18)) in *.
  pose proof (chop_round_up_nonneg_spec P (liq36 * cur) ltac:(unfold P; lia) ltac:(nia)) as [N1 N2].
  set (num := chop_round_up P (liq36 * cur)) in *.
  assert (Hprod : 0 <= product) by (unfold P8 in *; nia).
  assert (Hnum : 0 <= num) by (unfold P in *; nia).
  unfold bd_quo_round_up_mut, bd_quo_round_up, inc_rem_div. rewrite P36_val. fold P.
  set (den := liq36 - product) in *.
  destruct (Z_lt_le_dec den 0) as [Dn|Dp0].
  - (* negative denominator *)
    right. pose proof (Z.quot_rem' (num * P) den) as QR.
    assert (Qle : Z.quot (num * P) den <= 0).
    { rewrite <- (Z.opp_involutive den). rewrite Z.quot_opp_r by lia.
      pose proof (Z.quot_pos (num * P) (- den) ltac:(unfold P; nia) ltac:(lia)). lia. }
    assert (Rge : 0 <= Z.rem (num * P) den).
    { rewrite <- (Z.opp_involutive den). rewrite Z.rem_opp_r by lia. apply Z.rem_nonneg; [lia|unfold P; nia]. }
    destruct (Z.rem (num * P) den =? 0) eqn:ER; simpl; [lia|].
    apply Z.eqb_neq in ER.
    assert (Z.sgn (Z.rem (num * P) den) = 1) by (apply Z.sgn_pos; lia).
    assert (Z.sgn den = -1) by (apply Z.sgn_neg; lia).
    rewrite H, H0. simpl. lia.
  - left. assert (Dp : 0 < den) by (unfold den in *; lia).
    destruct (quot_rem_pos (num * P) den ltac:(unfold P; nia) ltac:(lia)) as [B1 [B2 B3]].
    set (Q := Z.quot (num * P) den) in *. set (R := Z.rem (num * P) den) in *.
    assert (Key : cur * den <= num * P) by (unfold den, P in *; nia).
    destruct ((R =? 0) || negb (Z.sgn R =? Z.sgn den)) eqn:EI.
    + destruct (Z.eq_dec R 0) as [Rz|Rz].
      * apply (Z.mul_le_mono_pos_l _ _ den Dp). lia.
      * exfalso. apply orb_true_iff in EI. destruct EI as [EI|EI]; [apply Z.eqb_eq in EI; lia|].
        apply negb_true_iff in EI. apply Z.eqb_neq in EI.
        assert (Z.sgn R = 1) by (apply Z.sgn_pos; lia). assert (Z.sgn den = 1) by (apply Z.sgn_pos; lia). lia.
    + assert (cur * den < den * (Q + 1)) by lia.
      assert (cur < Q + 1) by (apply (Z.mul_lt_mono_pos_l den); lia). lia.
Qed.
