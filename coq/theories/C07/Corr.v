(* C07 correspondence: the shared concentrated-liquidity glue with no extra per-operation observables. *)
From Coq Require Import ZArith List Bool.
From Osmo Require Import Base.Obs CL.CLPool CL.CLStep CL.CLCorr.
Definition case_ok (c : case) : bool := case_ok_with no_pre no_post c.
