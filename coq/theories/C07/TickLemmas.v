(* Lemmas about CL/TickMath.v used by C07 (and C03): positivity and monotonicity of tick_to_sqrt_price on the
   initialisable range, what a successful calculate_sqrt_price_to_tick certifies, round-down to spacing. *)
From Coq Require Import ZArith List Bool Lia.
Import ListNotations.
From Osmo Require Import Base.DecModel Gen.CL_consts CL.TickMath.
Open Scope Z_scope.

Lemma P18_val : P18 = 1000000000000000000. Proof. reflexivity. Qed.
Lemma P36_val : P36 = 1000000000000000000000000000000000000. Proof. reflexivity. Qed.
Lemma MinInit_val : MinInitializedTick = -108000000. Proof. reflexivity. Qed.
Lemma MaxTick_val : MaxTick = 342000000. Proof. reflexivity. Qed.
Lemma MinInitV2_val : MinInitializedTickV2 = -270000000. Proof. reflexivity. Qed.
Lemma geo_dist_val : geo_dist = 9000000. Proof. reflexivity. Qed.
Lemma Exp1_val : ExponentAtPriceOne = -6. Proof. reflexivity. Qed.
Lemma MinSpotV2_val : MinSpotPriceV2 = 1000000. Proof. reflexivity. Qed.

(* ---------- ceil-sqrt ---------- *)
Lemma ceil_sqrt_spec : forall sh, 0 <= sh ->
  let r := (if Z.sqrt sh * Z.sqrt sh <? sh then Z.sqrt sh + 1 else Z.sqrt sh) in
  0 <= r /\ sh <= r * r /\ (r = 0 \/ (r - 1) * (r - 1) < sh).
Proof.
  intros sh H. pose proof (Z.sqrt_spec sh H) as [A B]. pose proof (Z.sqrt_nonneg sh) as C.
  cbv zeta. destruct (Z.sqrt sh * Z.sqrt sh <? sh) eqn:E.
  - apply Z.ltb_lt in E. split; [lia|]. split; [nia|]. right. replace (Z.sqrt sh + 1 - 1) with (Z.sqrt sh) by lia. exact E.
  - apply Z.ltb_ge in E. split; [lia|]. split; [nia|]. destruct (Z.eq_dec (Z.sqrt sh) 0); [left; assumption|right; nia].
Qed.

Lemma ceil_sqrt_mono : forall a b, 0 <= a <= b ->
  (if Z.sqrt a * Z.sqrt a <? a then Z.sqrt a + 1 else Z.sqrt a) <=
  (if Z.sqrt b * Z.sqrt b <? b then Z.sqrt b + 1 else Z.sqrt b).
Proof.
  intros a b [Ha Hab].
  pose proof (ceil_sqrt_spec a Ha) as [A1 [A2 A3]]. pose proof (ceil_sqrt_spec b ltac:(lia)) as [B1 [B2 B3]].
  cbv zeta in *.
  set (ra := if Z.sqrt a * Z.sqrt a <? a then Z.sqrt a + 1 else Z.sqrt a) in *.
  set (rb := if Z.sqrt b * Z.sqrt b <? b then Z.sqrt b + 1 else Z.sqrt b) in *.
  destruct (Z_le_gt_dec ra rb); [assumption|]. exfalso.
  destruct A3 as [A3|A3]; [lia|]. assert ((ra - 1) * (ra - 1) >= rb * rb) by nia. lia.
Qed.

Lemma monotonic_sqrt18_mono : forall a b ra rb, 0 <= a <= b ->
  monotonic_sqrt18 a = Some ra -> monotonic_sqrt18 b = Some rb -> ra <= rb.
Proof.
  unfold monotonic_sqrt18. intros a b ra rb H Ha Hb.
  destruct (a <? 0) eqn:E1; [discriminate|]. destruct (b <? 0) eqn:E2; [discriminate|].
  inversion Ha; inversion Hb; subst. apply ceil_sqrt_mono. rewrite P18_val. lia.
Qed.

Lemma monotonic_sqrt18_pos : forall a r, 0 < a -> monotonic_sqrt18 a = Some r -> 0 < r.
Proof.
  unfold monotonic_sqrt18. intros a r H Ha. destruct (a <? 0) eqn:E1; [discriminate|]. inversion Ha; subst; clear Ha.
  pose proof (ceil_sqrt_spec (a * P18) ltac:(rewrite P18_val; lia)) as [A1 [A2 A3]]. cbv zeta in *.
  set (r := if Z.sqrt (a * P18) * Z.sqrt (a * P18) <? a * P18 then Z.sqrt (a * P18) + 1 else Z.sqrt (a * P18)) in *.
  rewrite P18_val in *. nia.
Qed.

Lemma monotonic_sqrt36_pos : forall a r, 0 < a -> monotonic_sqrt36 a = Some r -> 0 < r.
Proof.
  unfold monotonic_sqrt36. intros a r H Ha. destruct (a <? 0) eqn:E1; [discriminate|]. inversion Ha; subst; clear Ha.
  pose proof (ceil_sqrt_spec (a * P36) ltac:(rewrite P36_val; lia)) as [A1 [A2 A3]]. cbv zeta in *.
  set (r := if Z.sqrt (a * P36) * Z.sqrt (a * P36) <? a * P36 then Z.sqrt (a * P36) + 1 else Z.sqrt (a * P36)) in *.
  rewrite P36_val in *. nia.
Qed.

(* ---------- tick_to_price: lower bound and closed form ---------- *)
Lemma tick_to_price_lb : forall t p, tick_to_price t = Some p -> MinSpotPriceV2 <= p.
Proof.
  unfold tick_to_price. intros t p H.
  destruct (t =? 0); [inversion H; rewrite MinSpotV2_val, P36_val; lia|].
  destruct ((t =? MinInitializedTickV2) || (t =? MinCurrentTickV2)); [inversion H; lia|].
  destruct (t <? MinCurrentTickV2); [discriminate|]. destruct (MaxTick <? t); [discriminate|].
  destruct (pow_ten_bigdec _); [|discriminate].
  destruct (negb (bd_fits _)); [discriminate|].
  destruct ((MaxSpotPriceBigDec <? _) || (_ <? MinSpotPriceV2)) eqn:E; [discriminate|].
  inversion H; subst. apply orb_false_iff in E. destruct E as [_ E]. apply Z.ltb_ge in E. exact E.
Qed.

(* floor-division view of Go's truncated division on negative ticks *)
Lemma quot_neg_floor : forall t d, 0 < d -> t < 0 ->
  (Z.rem t d = 0 -> Z.quot t d = t / d /\ t mod d = 0) /\
  (Z.rem t d <> 0 -> Z.quot t d = t / d + 1 /\ t mod d = d + Z.rem t d).
Proof.
  intros t d Hd Ht.
  pose proof (Z.quot_rem' t d) as E.
  assert (B : - d < Z.rem t d <= 0).
  { pose proof (Z.rem_bound_pos (- t) d ltac:(lia) ltac:(lia)) as B0. rewrite Z.rem_opp_l in B0 by lia. lia. }
  split; intro R.
  - rewrite R in E. assert (t = d * Z.quot t d) by lia.
    split; [apply Z.div_unique with 0; lia | symmetry; apply Z.mod_unique with (Z.quot t d); lia].
  - split; [| symmetry; apply Z.mod_unique with (Z.quot t d - 1); lia].
    assert (t / d = Z.quot t d - 1) by (symmetry; apply Z.div_unique with (d + Z.rem t d); lia). lia.
Qed.

Definition price_closed (t : Z) : Z := 10 ^ (30 + t / 9000000) * (1000000 + t mod 9000000).

Lemma pow_ten_bigdec_closed : forall e x, pow_ten_bigdec e = Some x -> -36 <= e <= 308 /\ x = 10 ^ (36 + e).
Proof.
  unfold pow_ten_bigdec. intros e x H.
  destruct ((0 <=? e) && (e <=? 308)) eqn:E1.
  - apply andb_true_iff in E1. destruct E1 as [A B]. apply Z.leb_le in A. apply Z.leb_le in B.
    inversion H; subst. split; [lia|]. rewrite Z.pow_add_r by lia. rewrite P36_val. change (10 ^ 36) with 1000000000000000000000000000000000000. lia.
  - destruct ((e <? 0) && (-36 <=? e)) eqn:E2; [|discriminate].
    apply andb_true_iff in E2. destruct E2 as [A B]. apply Z.ltb_lt in A. apply Z.leb_le in B.
    inversion H; subst. split; [lia|reflexivity].
Qed.

Lemma tick_to_price_closed : forall t p, MinInitializedTick <= t <= MaxTick ->
  tick_to_price t = Some p -> p = price_closed t.
Proof.
  intros t p Hr H. rewrite MinInit_val, MaxTick_val in Hr. unfold tick_to_price in H.
  destruct (t =? 0) eqn:E0.
  { apply Z.eqb_eq in E0. subst t. inversion H. unfold price_closed. reflexivity. }
  apply Z.eqb_neq in E0.
  destruct ((t =? MinInitializedTickV2) || (t =? MinCurrentTickV2)) eqn:E1.
  { exfalso. apply orb_true_iff in E1. unfold MinCurrentTickV2 in E1. rewrite MinInitV2_val in E1.
    destruct E1 as [E1|E1]; apply Z.eqb_eq in E1; lia. }
  destruct (t <? MinCurrentTickV2); [discriminate|]. destruct (MaxTick <? t); [discriminate|].
  rewrite geo_dist_val, Exp1_val in H.
  destruct (pow_ten_bigdec _) as [p10|] eqn:EP; [|discriminate].
  match type of H with (if ?c then _ else _) = _ => destruct c; [discriminate|] end.
  match type of H with (if ?c then _ else _) = _ => destruct c; [discriminate|] end.
  inversion H; subst; clear H. apply pow_ten_bigdec_closed in EP. destruct EP as [Eb EP]. subst p10.
  unfold price_closed.
  destruct (t <? 0) eqn:Et.
  - apply Z.ltb_lt in Et. destruct (quot_neg_floor t 9000000 ltac:(lia) Et) as [Q0 Q1].
    assert (R : Z.rem t 9000000 = t - Z.quot t 9000000 * 9000000) by (pose proof (Z.quot_rem' t 9000000); lia).
    destruct (Z.eq_dec (Z.rem t 9000000) 0) as [Rz|Rz].
    + destruct (Q0 Rz) as [Qa Qb]. rewrite Qb, Qa.
      replace (t - t / 9000000 * 9000000) with 0 by (rewrite Qa in R; lia).
      replace (36 + (-6 + t / 9000000 - 1)) with (29 + t / 9000000) by lia.
      replace (30 + t / 9000000) with (29 + t / 9000000 + 1) by lia.
      rewrite (Z.pow_add_r 10 (29 + t / 9000000) 1); [change (10 ^ 1) with 10; ring| |lia].
      rewrite Qa in Eb. lia.
    + destruct (Q1 Rz) as [Qa Qb]. rewrite Qb, Qa.
      replace (36 + (-6 + (t / 9000000 + 1) - 1)) with (30 + t / 9000000) by lia.
      f_equal. rewrite Qa in R. lia.
  - apply Z.ltb_ge in Et. rewrite Z.quot_div_nonneg by lia.
    replace (36 + (-6 + t / 9000000)) with (30 + t / 9000000) by lia. f_equal.
    pose proof (Z.div_mod t 9000000 ltac:(lia)). lia.
Qed.

Lemma price_closed_mono : forall a b, -270000000 <= a -> a <= b -> price_closed a <= price_closed b.
Proof.
  intros a b Ha H. unfold price_closed.
  pose proof (Z.mod_pos_bound a 9000000 ltac:(lia)) as Ma. pose proof (Z.mod_pos_bound b 9000000 ltac:(lia)) as Mb.
  pose proof (Z.div_mod a 9000000 ltac:(lia)) as Da. pose proof (Z.div_mod b 9000000 ltac:(lia)) as Db.
  assert (Hq : a / 9000000 <= b / 9000000) by (apply Z.div_le_mono; lia).
  assert (Hlo : -30 <= a / 9000000) by (apply Z.div_le_lower_bound; lia).
  destruct (Z.eq_dec (a / 9000000) (b / 9000000)) as [E|E].
  - rewrite E in *. assert (0 < 10 ^ (30 + b / 9000000)) by (apply Z.pow_pos_nonneg; lia). nia.
  - assert (Hlt : a / 9000000 + 1 <= b / 9000000) by lia.
    assert (P1 : 0 < 10 ^ (30 + a / 9000000)) by (apply Z.pow_pos_nonneg; lia).
    assert (P2 : 10 ^ (30 + a / 9000000 + 1) <= 10 ^ (30 + b / 9000000)) by (apply Z.pow_le_mono_r; lia).
    rewrite Z.pow_add_r in P2 by lia. change (10 ^ 1) with 10 in P2.
    assert (0 < 10 ^ (30 + b / 9000000)) by (apply Z.pow_pos_nonneg; lia). nia.
Qed.

Lemma price_closed_lb : forall t, -108000000 <= t -> 1000000000000000000000000 <= price_closed t.
Proof.
  intros t H. pose proof (price_closed_mono (-108000000) t ltac:(lia) H) as M.
  replace (price_closed (-108000000)) with 1000000000000000000000000 in M by (vm_compute; reflexivity). exact M.
Qed.

(* ---------- tick_to_sqrt_price ---------- *)
Lemma tick_to_sqrt_price_pos : forall t s, tick_to_sqrt_price t = Some s -> 0 < s.
Proof.
  unfold tick_to_sqrt_price. intros t s H.
  destruct (tick_to_price t) as [p|] eqn:Ep; [|discriminate].
  pose proof (tick_to_price_lb t p Ep) as Lb. rewrite MinSpotV2_val in Lb.
  destruct (MinInitializedTick <=? t) eqn:E.
  - apply Z.leb_le in E. destruct (monotonic_sqrt18 (bd_to_dec p)) as [r|] eqn:Er; [|discriminate]. inversion H; subst.
    destruct (Z_le_gt_dec t MaxTick) as [Hm|Hm].
    + pose proof (tick_to_price_closed t p (conj E Hm) Ep). subst p.
      pose proof (price_closed_lb t ltac:(rewrite MinInit_val in E; lia)) as L2.
      assert (0 < bd_to_dec (price_closed t)).
      { unfold bd_to_dec. rewrite P18_val. apply Z.quot_str_pos. lia. }
      pose proof (monotonic_sqrt18_pos _ _ H0 Er). unfold bd_from_dec. rewrite P18_val. lia.
    + exfalso. unfold tick_to_price in Ep. rewrite MaxTick_val in Hm.
      destruct (t =? 0) eqn:E0; [apply Z.eqb_eq in E0; lia|].
      destruct (_ || _) eqn:E1 in Ep.
      { apply orb_true_iff in E1. unfold MinCurrentTickV2 in E1. rewrite MinInitV2_val in E1. destruct E1 as [E1|E1]; apply Z.eqb_eq in E1; lia. }
      destruct (t <? MinCurrentTickV2); [discriminate|].
      destruct (MaxTick <? t) eqn:E2; [discriminate|]. apply Z.ltb_ge in E2. rewrite MaxTick_val in E2. lia.
  - eapply monotonic_sqrt36_pos; [|exact H]. lia.
Qed.

(* monotone (weakly) on the initialisable range *)
Lemma tick_to_sqrt_price_mono : forall a b sa sb,
  MinInitializedTick <= a -> a <= b -> b <= MaxTick ->
  tick_to_sqrt_price a = Some sa -> tick_to_sqrt_price b = Some sb -> sa <= sb.
Proof.
  intros a b sa sb Ha Hab Hb Sa Sb. unfold tick_to_sqrt_price in *.
  destruct (tick_to_price a) as [pa|] eqn:Pa; [|discriminate]. destruct (tick_to_price b) as [pb|] eqn:Pb; [|discriminate].
  assert (Ea : (MinInitializedTick <=? a) = true) by (apply Z.leb_le; lia).
  assert (Eb : (MinInitializedTick <=? b) = true) by (apply Z.leb_le; lia).
  rewrite Ea in Sa. rewrite Eb in Sb.
  destruct (monotonic_sqrt18 (bd_to_dec pa)) as [ra|] eqn:Ra; [|discriminate].
  destruct (monotonic_sqrt18 (bd_to_dec pb)) as [rb|] eqn:Rb; [|discriminate].
  inversion Sa; inversion Sb; subst.
  pose proof (tick_to_price_closed a pa ltac:(lia) Pa). pose proof (tick_to_price_closed b pb ltac:(lia) Pb). subst.
  rewrite MinInit_val in *.
  pose proof (price_closed_mono a b ltac:(lia) Hab) as M. pose proof (price_closed_lb a ltac:(lia)) as L.
  assert (0 <= bd_to_dec (price_closed a) <= bd_to_dec (price_closed b)).
  { unfold bd_to_dec. rewrite P18_val. split; [apply Z.quot_pos; lia| apply Z.quot_le_mono; lia]. }
  pose proof (monotonic_sqrt18_mono _ _ _ _ H Ra Rb). unfold bd_from_dec. rewrite P18_val. lia.
Qed.

(* ---------- what a successful sqrt-price -> tick conversion certifies (by the code's own comparisons) ---------- *)
Definition bucket_cert (s t : Z) : Prop :=
  MinCurrentTick - 1 <= t <= MaxTick /\
  (exists s0, tick_to_sqrt_price t = Some s0 /\ s0 <= s) /\
  (t = MaxTick \/ exists s1, tick_to_sqrt_price (t + 1) = Some s1 /\ s < s1).

Lemma calculate_sqrt_price_to_tick_cert : forall s t, calculate_sqrt_price_to_tick s = Some t -> bucket_cert s t.
Proof.
  unfold calculate_sqrt_price_to_tick. intros s t H.
  destruct (negb (bd_fits _)); [discriminate|].
  destruct (calculate_price_to_tick _) as [t0|]; [|discriminate].
  destruct (t0 <? MinCurrentTick) eqn:E0; [discriminate|]. apply Z.ltb_ge in E0.
  unfold MinCurrentTick in *. rewrite MinInit_val in *.
  destruct (t0 <=? MinInitializedTickV2) eqn:E1.
  { apply Z.leb_le in E1. rewrite MinInitV2_val in E1. lia. }
  destruct (MaxTick - 1 <=? t0) eqn:E2.
  - (* clamped at the top: tick = MaxTick - 2, out of bounds *)
    destruct (tick_to_sqrt_price (MaxTick - 2 + 1)) as [s1|] eqn:S1; [|discriminate].
    destruct (s1 <=? s) eqn:C1.
    + destruct (tick_to_sqrt_price (MaxTick - 2 + 2)) as [s2|] eqn:S2; [|discriminate].
      rewrite andb_false_l, orb_false_l, andb_true_l in H.
      destruct (s2 <? s) eqn:C2; [discriminate|]. apply Z.ltb_ge in C2. apply Z.leb_le in C1.
      destruct (s =? s2) eqn:C3; inversion H; subst; clear H.
      * apply Z.eqb_eq in C3. subst. unfold bucket_cert, MinCurrentTick; rewrite ?MinInit_val, ?MaxTick_val in *. split; [lia|]. split; [|left; lia].
        exists s2. replace (342000000 - 2 + 2) with 342000000 in * by lia. split; [assumption|lia].
      * apply Z.eqb_neq in C3. unfold bucket_cert, MinCurrentTick; rewrite ?MinInit_val, ?MaxTick_val in *. split; [lia|]. split.
        { exists s1. split; [assumption|lia]. }
        right. exists s2. replace (342000000 - 2 + 1 + 1) with (342000000 - 2 + 2) by lia. split; [assumption|lia].
    + apply Z.leb_gt in C1.
      destruct (tick_to_sqrt_price (MaxTick - 2)) as [s0|] eqn:S0; [|discriminate].
      destruct (s0 <=? s) eqn:C0.
      * inversion H; subst. apply Z.leb_le in C0. unfold bucket_cert, MinCurrentTick; rewrite ?MinInit_val, ?MaxTick_val in *. split; [lia|]. split.
        { exists s0. split; assumption. } right. exists s1. split; assumption.
      * apply Z.leb_gt in C0. destruct (tick_to_sqrt_price (MaxTick - 2 - 1)) as [sm|] eqn:Sm; [|discriminate].
        destruct (s <? sm) eqn:Cm; [discriminate|]. apply Z.ltb_ge in Cm. inversion H; subst.
        unfold bucket_cert, MinCurrentTick; rewrite ?MinInit_val, ?MaxTick_val in *. split; [lia|]. split.
        { exists sm. split; assumption. } right. exists s0. replace (342000000 - 2 - 1 + 1) with (342000000 - 2) by lia. split; assumption.
  - apply Z.leb_gt in E2. rewrite MaxTick_val in E2.
    destruct (tick_to_sqrt_price (t0 + 1)) as [s1|] eqn:S1; [|discriminate].
    destruct (s1 <=? s) eqn:C1.
    + destruct (tick_to_sqrt_price (t0 + 2)) as [s2|] eqn:S2; [|discriminate].
      rewrite andb_true_l, andb_false_l, orb_false_r in H.
      destruct (s2 <=? s) eqn:C2; [discriminate|]. apply Z.leb_gt in C2. apply Z.leb_le in C1.
      destruct (s =? s2) eqn:C3; [apply Z.eqb_eq in C3; lia|]. inversion H; subst.
      unfold bucket_cert, MinCurrentTick; rewrite ?MinInit_val, ?MaxTick_val in *. split; [lia|]. split.
      { exists s1. split; assumption. } right. exists s2. replace (t0 + 1 + 1) with (t0 + 2) by lia. split; assumption.
    + apply Z.leb_gt in C1.
      destruct (tick_to_sqrt_price t0) as [s0|] eqn:S0; [|discriminate].
      destruct (s0 <=? s) eqn:C0.
      * inversion H; subst. apply Z.leb_le in C0. unfold bucket_cert, MinCurrentTick; rewrite ?MinInit_val, ?MaxTick_val in *. split; [lia|]. split.
        { exists s0. split; assumption. } right. exists s1. split; assumption.
      * apply Z.leb_gt in C0. destruct (tick_to_sqrt_price (t0 - 1)) as [sm|] eqn:Sm; [|discriminate].
        destruct (s <? sm) eqn:Cm; [discriminate|]. apply Z.ltb_ge in Cm. inversion H; subst.
        unfold bucket_cert, MinCurrentTick; rewrite ?MinInit_val, ?MaxTick_val in *.
        split; [lia|]. split.
        { exists sm. split; assumption. } right. exists s0. replace (t0 - 1 + 1) with t0 by lia. split; assumption.
Qed.

(* ---------- one tick below the initialisable range (a swap may momentarily sit there) ---------- *)
Lemma tick_to_sqrt_price_mono_ext : forall a b sa sb,
  MinInitializedTick - 1 <= a -> a <= b -> b <= MaxTick ->
  tick_to_sqrt_price a = Some sa -> tick_to_sqrt_price b = Some sb -> sa <= sb.
Proof.
  intros a b sa sb Ha Hab Hb Sa Sb.
  destruct (Z_le_gt_dec MinInitializedTick a) as [L|L]; [eapply tick_to_sqrt_price_mono; eassumption|].
  assert (a = MinInitializedTick - 1) by lia. subst a.
  destruct (Z.eq_dec b (MinInitializedTick - 1)) as [E|E]; [subst b; rewrite Sa in Sb; inversion Sb; lia|].
  assert (Hc : exists c0, tick_to_sqrt_price MinInitializedTick = Some c0 /\ sa <= c0).
  { rewrite MinInit_val in *. vm_compute in Sa. inversion Sa; subst sa. eexists. split; [vm_compute; reflexivity|]. vm_compute. discriminate. }
  destruct Hc as [c0 [C0 Hc]].
  assert (B1 : MinInitializedTick <= MinInitializedTick) by lia.
  assert (B2 : MinInitializedTick <= b) by lia.
  pose proof (tick_to_sqrt_price_mono MinInitializedTick b c0 sb B1 B2 Hb C0 Sb). lia.
Qed.

(* ---------- RoundDownTickToSpacing ---------- *)
Lemma round_down_spec : forall t sp t', 0 < sp -> round_down_tick_to_spacing t sp = Some t' ->
  Z.rem t' sp = 0 /\ t' <= t < t' + sp /\ MinInitializedTickV2 <= t' <= MaxTick.
Proof.
  unfold round_down_tick_to_spacing. intros t sp t' Hsp H.
  destruct (sp =? 0) eqn:E0; [discriminate|].
  pose proof (Z.quot_rem' t sp) as QR.
  assert (RB : - sp < Z.rem t sp < sp).
  { pose proof (Z.rem_bound_abs t sp ltac:(lia)). lia. }
  set (m0 := Z.rem t sp) in *. set (m := if m0 <? 0 then m0 + sp else m0) in *.
  assert (Hm : 0 <= m < sp) by (unfold m; destruct (m0 <? 0) eqn:E; [apply Z.ltb_lt in E|apply Z.ltb_ge in E]; lia).
  assert (Ht : (if negb (m =? 0) then t - m else t) = t - m).
  { destruct (m =? 0) eqn:E; simpl; [apply Z.eqb_eq in E; lia|reflexivity]. }
  rewrite Ht in H. destruct ((MaxTick <? t - m) || (t - m <? MinInitializedTickV2)) eqn:EB; [discriminate|].
  inversion H; subst t'. apply orb_false_iff in EB. destruct EB as [B1 B2]. apply Z.ltb_ge in B1. apply Z.ltb_ge in B2.
  split; [|split; [lia|lia]].
  assert (exists k, t - m = sp * k).
  { unfold m. destruct (m0 <? 0); [exists (Z.quot t sp - 1)|exists (Z.quot t sp)]; lia. }
  destruct H0 as [k Hk]. rewrite Hk. rewrite Z.mul_comm. apply Z.rem_mul. lia.
Qed.

Lemma multiple_gap : forall sp b t, 0 < sp -> Z.rem b sp = 0 -> Z.rem t sp = 0 -> t < b -> t + sp <= b.
Proof.
  intros sp b t Hsp Hb Ht Hlt.
  pose proof (Z.quot_rem' b sp) as Qb. pose proof (Z.quot_rem' t sp) as Qt. rewrite Hb in Qb. rewrite Ht in Qt.
  set (qb := Z.quot b sp) in *. set (qt := Z.quot t sp) in *.
  assert (qt < qb). { apply (Z.mul_lt_mono_pos_l sp); lia. }
  assert (sp * (qt + 1) <= sp * qb) by (apply Z.mul_le_mono_nonneg_l; lia). lia.
Qed.

(* the consistency between a sqrt price s and a tick t that is the bucket of s rounded down to the spacing *)
Lemma bucket_round_consistent : forall sp s t0 t b sb,
  0 < sp -> bucket_cert s t0 -> Z.rem t sp = 0 -> t <= t0 < t + sp ->
  Z.rem b sp = 0 -> MinInitializedTick <= b <= MaxTick -> tick_to_sqrt_price b = Some sb ->
  (b <= t -> sb <= s) /\ (t < b -> s <= sb).
Proof.
  intros sp s t0 t b sb Hsp [Hr [[s0 [S0 L0]] U]] Ht Htt Hb Hbr Sb. unfold MinCurrentTick in Hr. split; intro Hc.
  - pose proof (tick_to_sqrt_price_mono b t0 sb s0 ltac:(lia) ltac:(lia) ltac:(lia) Sb S0). lia.
  - pose proof (multiple_gap sp b t Hsp Hb Ht Hc).
    destruct U as [U|[s1 [S1 L1]]]; [lia|].
    pose proof (tick_to_sqrt_price_mono_ext (t0 + 1) b s1 sb ltac:(lia) ltac:(lia) ltac:(lia) S1 Sb). lia.
Qed.

(* the same for a tick that is the exact bucket (swap landing inside a bucket) *)
Lemma bucket_consistent : forall s t b sb,
  bucket_cert s t -> MinInitializedTick <= b <= MaxTick -> tick_to_sqrt_price b = Some sb ->
  (b <= t -> sb <= s) /\ (t < b -> s <= sb).
Proof.
  intros s t b sb [Hr [[s0 [S0 L0]] U]] Hbr Sb. unfold MinCurrentTick in Hr. split; intro Hc.
  - pose proof (tick_to_sqrt_price_mono b t sb s0 ltac:(lia) ltac:(lia) ltac:(lia) Sb S0). lia.
  - destruct U as [U|[s1 [S1 L1]]]; [lia|].
    pose proof (tick_to_sqrt_price_mono_ext (t + 1) b s1 sb ltac:(lia) ltac:(lia) ltac:(lia) S1 Sb). lia.
Qed.

Lemma bucket_cert_pos : forall s t, bucket_cert s t -> 0 < s.
Proof. intros s t [_ [[s0 [S0 L0]] _]]. pose proof (tick_to_sqrt_price_pos _ _ S0). lia. Qed.
