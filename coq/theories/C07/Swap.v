(* C07: swaps preserve the bookkeeping invariant (crossing ticks up and down, landing inside a bucket,
   no-progress steps), by a loop invariant over computeOutAmtGivenIn / computeInAmtGivenOut. *)
From Coq Require Import ZArith List Bool Lia.
Import ListNotations.
From Osmo Require Import Base.DecModel Gen.CL_consts CL.TickMath CL.CLMath CL.CLPool CL.CLSwap.
From Osmo Require Import C07.Base C07.TickLemmas C07.LP C07.SwapDir.
Open Scope Z_scope.

(* turn boolean comparisons in the context / goal into propositions *)
Ltac bdestr :=
  repeat match goal with
  | |- context [?a <=? ?b] => let E := fresh "E" in destruct (a <=? b) eqn:E; [apply Z.leb_le in E|apply Z.leb_gt in E]
  | |- context [?a <? ?b] => let E := fresh "E" in destruct (a <? b) eqn:E; [apply Z.ltb_lt in E|apply Z.ltb_ge in E]
  | |- context [?a =? ?b] => let E := fresh "E" in destruct (a =? b) eqn:E; [apply Z.eqb_eq in E|apply Z.eqb_neq in E]
  end.

(* ---------- definedness of tick_to_sqrt_price on the initialisable range ---------- *)
Lemma tick_to_sqrt_price_defined : forall t, MinInitializedTick <= t <= MaxTick -> exists s, tick_to_sqrt_price t = Some s.
Proof.
  intros t Hr. rewrite MinInit_val, MaxTick_val in Hr.
  assert (HP : exists p, tick_to_price t = Some p).
  { unfold tick_to_price.
    destruct (t =? 0) eqn:E0; [eexists; reflexivity|]. apply Z.eqb_neq in E0.
    destruct ((t =? MinInitializedTickV2) || (t =? MinCurrentTickV2)) eqn:E1; [eexists; reflexivity|].
    destruct (t <? MinCurrentTickV2) eqn:E2; [apply Z.ltb_lt in E2; unfold MinCurrentTickV2 in E2; rewrite MinInitV2_val in E2; lia|].
    destruct (MaxTick <? t) eqn:E3; [apply Z.ltb_lt in E3; rewrite MaxTick_val in E3; lia|].
    rewrite geo_dist_val, Exp1_val.
    set (e := if t <? 0 then -6 + Z.quot t 9000000 - 1 else -6 + Z.quot t 9000000).
    assert (He : -19 <= e <= 32).
    { unfold e. destruct (t <? 0) eqn:Et; [apply Z.ltb_lt in Et|apply Z.ltb_ge in Et].
      - assert (Hq : Z.quot t 9000000 = - ((- t) / 9000000)).
        { rewrite <- (Z.opp_involutive t) at 1. rewrite Z.quot_opp_l by lia. rewrite Z.quot_div_nonneg by lia. reflexivity. }
        assert (0 <= (- t) / 9000000 <= 12) by (split; [apply Z.div_pos; lia|apply Z.div_le_upper_bound; lia]).
        lia.
      - rewrite Z.quot_div_nonneg by lia.
        assert (0 <= t / 9000000 <= 38) by (split; [apply Z.div_pos; lia|apply Z.div_le_upper_bound; lia]). lia. }
    assert (Hp10 : pow_ten_bigdec e = Some (10 ^ (36 + e))).
    { unfold pow_ten_bigdec. destruct ((0 <=? e) && (e <=? 308)) eqn:Ea.
      - apply andb_true_iff in Ea. destruct Ea as [A B]. apply Z.leb_le in A. f_equal.
        rewrite Z.pow_add_r by lia. rewrite P36_val. change (10 ^ 36) with 1000000000000000000000000000000000000. lia.
      - assert (Eb : (e <? 0) && (-36 <=? e) = true).
        { apply andb_true_iff. split; [apply Z.ltb_lt|apply Z.leb_le]; lia. }
        rewrite Eb. reflexivity. }
    rewrite Hp10.
    (* the candidate price equals the closed form, whose size we know *)
    set (price := 10 ^ (36 + e) * ((if t <? 0 then 10000000 else 1000000) + (t - Z.quot t 9000000 * 9000000))).
    assert (Hcl : price = price_closed t).
    { unfold price, e, price_closed. destruct (t <? 0) eqn:Et.
      - apply Z.ltb_lt in Et. destruct (quot_neg_floor t 9000000 ltac:(lia) Et) as [Q0 Q1].
        assert (R : Z.rem t 9000000 = t - Z.quot t 9000000 * 9000000) by (pose proof (Z.quot_rem' t 9000000); lia).
        destruct (Z.eq_dec (Z.rem t 9000000) 0) as [Rz|Rz].
        + destruct (Q0 Rz) as [Qa Qb]. rewrite Qb. rewrite Qa in *.
          replace (t - t / 9000000 * 9000000) with 0 by lia.
          replace (36 + (-6 + t / 9000000 - 1)) with (29 + t / 9000000) by lia.
          replace (30 + t / 9000000) with (29 + t / 9000000 + 1) by lia.
          assert (-12 <= t / 9000000) by (apply Z.div_le_lower_bound; lia).
          rewrite (Z.pow_add_r 10 (29 + t / 9000000) 1) by lia. change (10 ^ 1) with 10. ring.
        + destruct (Q1 Rz) as [Qa Qb]. rewrite Qb. rewrite Qa in *.
          replace (36 + (-6 + (t / 9000000 + 1) - 1)) with (30 + t / 9000000) by lia. f_equal. lia.
      - apply Z.ltb_ge in Et. rewrite Z.quot_div_nonneg by lia.
        replace (36 + (-6 + t / 9000000)) with (30 + t / 9000000) by lia. f_equal.
        pose proof (Z.div_mod t 9000000 ltac:(lia)). lia. }
    fold price. rewrite Hcl.
    pose proof (price_closed_mono t 342000000 ltac:(lia) ltac:(lia)) as Hub.
    replace (price_closed 342000000) with (10 ^ 74) in Hub by (vm_compute; reflexivity).
    pose proof (price_closed_lb t ltac:(lia)) as Hlb.
    assert (Hf : bd_fits (price_closed t) = true).
    { unfold bd_fits, bitlen, max_dec_bit_len. destruct (price_closed t =? 0) eqn:Ez; [reflexivity|].
      apply Z.leb_le. rewrite Z.abs_eq by lia.
      assert (Z.log2 (price_closed t) <= Z.log2 (10 ^ 74)) by (apply Z.log2_le_mono; lia).
      replace (Z.log2 (10 ^ 74)) with 245 in H by (vm_compute; reflexivity). lia. }
    rewrite Hf. simpl.
    assert (Hrg : (MaxSpotPriceBigDec <? price_closed t) || (price_closed t <? MinSpotPriceV2) = false).
    { apply orb_false_iff. split; [apply Z.ltb_ge|apply Z.ltb_ge].
      - replace MaxSpotPriceBigDec with (10 ^ 74) by (vm_compute; reflexivity). lia.
      - rewrite MinSpotV2_val. lia. }
    rewrite Hrg. eexists; reflexivity. }
  destruct HP as [p Hp]. unfold tick_to_sqrt_price. rewrite Hp.
  assert (E : (MinInitializedTick <=? t) = true) by (apply Z.leb_le; rewrite MinInit_val; lia). rewrite E.
  pose proof (tick_to_price_lb _ _ Hp) as L. rewrite MinSpotV2_val in L.
  unfold monotonic_sqrt18.
  assert (0 <= bd_to_dec p) by (unfold bd_to_dec; rewrite P18_val; apply Z.quot_pos; lia).
  destruct (bd_to_dec p <? 0) eqn:En; [apply Z.ltb_lt in En; lia|]. eexists; reflexivity.
Qed.

(* the two sqrt price limits of the swap entry points are the sqrt prices of the extreme initialisable ticks *)
Lemma sqrt_price_limit_min : sqrt_price_limit true = tick_to_sqrt_price MinInitializedTick.
Proof. vm_compute. reflexivity. Qed.
Lemma sqrt_price_limit_max : sqrt_price_limit false = tick_to_sqrt_price MaxTick.
Proof. vm_compute. reflexivity. Qed.
Lemma sqrt_min_val : tick_to_sqrt_price MinInitializedTick = Some (10 ^ 30).
Proof. vm_compute. reflexivity. Qed.

(* ---------- sums over positions when the tick moves ---------- *)
Lemma sum_liq_ext_in : forall f g l, (forall p, In p l -> f (ps_lower p) (ps_upper p) = g (ps_lower p) (ps_upper p)) ->
  sum_liq f l = sum_liq g l.
Proof.
  induction l as [|x l IH]; intros H; simpl; [reflexivity|].
  unfold wt. rewrite (H x (or_introl eq_refl)). rewrite IH; [reflexivity|]. intros p Hp. apply H. right. assumption.
Qed.

Lemma sum_range_cross_up : forall l cur nt,
  (forall p, In p l -> ps_lower p < ps_upper p /\ ~ (cur < ps_lower p < nt) /\ ~ (cur < ps_upper p < nt)) -> cur < nt ->
  sum_liq (f_range nt) l = sum_liq (f_range cur) l + net_at nt l.
Proof.
  induction l as [|x l IH]; intros cur nt H Hlt; unfold net_at in *; simpl; [lia|].
  destruct (H x (or_introl eq_refl)) as [A [B C]].
  rewrite (IH cur nt) by (try assumption; intros p Hp; apply H; right; assumption).
  unfold wt, f_range, f_lower, f_upper. bdestr; simpl; lia.
Qed.

Lemma sum_range_cross_down : forall l cur nt,
  (forall p, In p l -> ps_lower p < ps_upper p /\ ~ (nt < ps_lower p <= cur) /\ ~ (nt < ps_upper p <= cur)) -> nt <= cur ->
  sum_liq (f_range (nt - 1)) l = sum_liq (f_range cur) l - net_at nt l.
Proof.
  induction l as [|x l IH]; intros cur nt H Hlt; unfold net_at in *; simpl; [lia|].
  destruct (H x (or_introl eq_refl)) as [A [B C]].
  rewrite (IH cur nt) by (try assumption; intros p Hp; apply H; right; assumption).
  unfold wt, f_range, f_lower, f_upper. bdestr; simpl; lia.
Qed.

(* ---------- the remaining-ticks iterator ---------- *)
Definition beyond (zfo : bool) (cur k : Z) : bool := if zfo then k <=? cur else cur <? k.
Fixpoint dsorted (zfo : bool) (l : list (Z * tick_info)) : Prop :=
  match l with
  | [] => True
  | kv :: r => Forall (fun kv' => if zfo then fst kv' < fst kv else fst kv < fst kv') r /\ dsorted zfo r
  end.
Definition iter_ok (zfo : bool) (ticks : list (Z * tick_info)) (cur : Z) (iter : list (Z * tick_info)) : Prop :=
  dsorted zfo iter /\ forall k v, In (k, v) iter <-> (In (k, v) ticks /\ beyond zfo cur k = true).

Lemma Forall_filter : forall A (P : A -> Prop) f l, Forall P l -> Forall P (filter f l).
Proof. induction l as [|x l IH]; intros H; simpl; [constructor|]. inversion H; subst. destruct (f x); [constructor; auto|auto]. Qed.

Lemma keys_sorted_dsorted_filter : forall f m, keys_sorted m -> dsorted false (filter f m).
Proof.
  induction m as [|[k v] m IH]; intros H; simpl; [exact I|]. inversion H; subst.
  destruct (f (k, v)); [|apply IH; assumption]. simpl. split; [|apply IH; assumption].
  apply Forall_filter. exact H2.
Qed.

Lemma dsorted_rev : forall l, dsorted false l -> dsorted true (rev l).
Proof.
  induction l as [|x l IH]; intros H; simpl; [exact I|]. destruct H as [A B]. specialize (IH B).
  assert (G : forall l1, dsorted true l1 -> Forall (fun kv' => fst x < fst kv') l1 -> dsorted true (l1 ++ [x])).
  { induction l1 as [|y l1 IH1]; intros D F; simpl; [split; [constructor|exact I]|].
    destruct D as [D1 D2]. inversion F; subst. split; [|apply IH1; assumption].
    apply Forall_app. split; [assumption|]. constructor; [simpl; assumption|constructor]. }
  apply G; [assumption|]. apply Forall_rev. exact A.
Qed.

Lemma next_ticks_ok : forall zfo ticks cur, keys_sorted ticks -> iter_ok zfo ticks cur (next_ticks zfo ticks cur).
Proof.
  intros zfo ticks cur S. unfold iter_ok, next_ticks. destruct zfo.
  - split; [apply dsorted_rev, keys_sorted_dsorted_filter; assumption|].
    intros k v. rewrite <- in_rev, filter_In. simpl. reflexivity.
  - split; [apply keys_sorted_dsorted_filter; assumption|].
    intros k v. rewrite filter_In. simpl. reflexivity.
Qed.

Lemma iter_ok_head : forall zfo ticks cur nt info rest, iter_ok zfo ticks cur ((nt, info) :: rest) ->
  In (nt, info) ticks /\ beyond zfo cur nt = true /\
  (forall k v, In (k, v) ticks -> beyond zfo cur k = true -> if zfo then k <= nt else nt <= k) /\
  iter_ok zfo ticks (if zfo then nt - 1 else nt) rest.
Proof.
  intros zfo ticks cur nt info rest [[D1 D2] HI].
  destruct (proj1 (HI nt info) (or_introl eq_refl)) as [A B].
  split; [assumption|]. split; [assumption|]. rewrite Forall_forall in D1. split.
  - intros k v Hk Hb. destruct (proj2 (HI k v) (conj Hk Hb)) as [E|E].
    + inversion E; subst. destruct zfo; lia.
    + specialize (D1 _ E). simpl in D1. destruct zfo; lia.
  - split; [assumption|]. intros k v. split.
    + intros Hin. destruct (proj1 (HI k v) (or_intror Hin)) as [X Y]. split; [assumption|].
      specialize (D1 _ Hin). simpl in D1. unfold beyond in *. destruct zfo; [apply Z.leb_le; lia|apply Z.ltb_lt; lia].
    + intros [X Y]. unfold beyond in *.
      assert (Yc : (if zfo then k <=? cur else cur <? k) = true).
      { destruct zfo; [apply Z.leb_le in Y, B; apply Z.leb_le; lia|apply Z.ltb_lt in Y, B; apply Z.ltb_lt; lia]. }
      destruct (proj2 (HI k v) (conj X Yc)) as [E|E]; [|assumption].
      inversion E; subst. destruct zfo; [apply Z.leb_le in Y; lia|apply Z.ltb_lt in Y; lia].
Qed.

(* ---------- stored ticks are position boundaries ---------- *)
Lemma boundary_stored : forall s p, Inv s -> In p (s_pos s) ->
  (exists v, In (ps_lower p, v) (s_ticks s)) /\ (exists v, In (ps_upper p, v) (s_ticks s)).
Proof.
  intros s p I Hin. pose proof (pos_ok_liq _ _ _ (inv_pos_ok s I)) as L.
  assert (G : forall b, (ps_lower p =? b) || (ps_upper p =? b) = true -> exists v, In (b, v) (s_ticks s)).
  { intros b Hb. assert (U : uses b (s_pos s) = true).
    { unfold uses. apply existsb_exists. exists p. split; assumption. }
    apply (uses_gross b _ L) in U. pose proof (inv_tick_sums s I b) as T. unfold tick_expected in T.
    apply Z.ltb_lt in U. rewrite U in T. eexists. eapply tick_get_in. exact T. }
  split; apply G; rewrite Z.eqb_refl; [reflexivity|apply orb_true_r].
Qed.

Lemma stored_tick_ok : forall s k v, Inv s -> In (k, v) (s_ticks s) ->
  Z.rem k (p_spacing (s_pool s)) = 0 /\ MinInitializedTick <= k <= MaxTick /\ ti_net v = net_at k (s_pos s).
Proof.
  intros s k v I Hin. pose proof (in_tick_get _ _ _ (inv_ticks_sorted s I) Hin) as G.
  rewrite (inv_tick_sums s I) in G. unfold tick_expected in G.
  destruct (0 <? gross_at k (s_pos s)) eqn:E; [|discriminate]. inversion G; subst. simpl.
  apply Z.ltb_lt in E. pose proof (pos_ok_liq _ _ _ (inv_pos_ok s I)) as L.
  apply (uses_gross k _ L) in E. unfold uses in E. apply existsb_exists in E. destruct E as [p [Hp Hb]].
  pose proof (inv_pos_ok s I) as POK. rewrite Forall_forall in POK. destruct (POK _ Hp) as [_ [_ V]].
  destruct (validate_tick_range_spec _ _ _ V) as [_ [Rl [Rh [Bl [Bh _]]]]].
  apply orb_true_iff in Hb. destruct Hb as [Hb|Hb]; apply Z.eqb_eq in Hb; subst k; (split; [assumption|split; [lia|reflexivity]]).
Qed.

(* ---------- fields untouched by the fee bookkeeping ---------- *)
Lemma update_fee_growth_fields : forall sc st fee st', update_fee_growth sc st fee = Some st' ->
  ss_sqrt st' = ss_sqrt st /\ ss_tick st' = ss_tick st /\ ss_liq st' = ss_liq st /\
  ss_remaining st' = ss_remaining st /\ ss_calculated st' = ss_calculated st.
Proof.
  unfold update_fee_growth. intros sc st fee st' H. oinv H.
  destruct (ss_liq st =? 0); [inversion H; subst; simpl; splits; reflexivity|].
  oinv H. subst. simpl. splits; reflexivity.
Qed.

(* ---------- direction of one bucket computation ---------- *)
Definition dir_ok (zfo : bool) (start computed : Z) : Prop :=
  (if zfo then computed <= start else start <= computed) \/ computed <= 0.

Lemma calc_amount0_delta_zero_liq : forall a b ru x, calc_amount0_delta 0 a b ru = Some x -> x = 0.
Proof.
  unfold calc_amount0_delta. intros a b ru x H.
  destruct (b <? a); oinv H; destruct ru; oinv H; subst;
  repeat match goal with E : bd_chk _ = Some _ |- _ => apply bd_chk_some in E end; subst;
  unfold bd_mul_round_up_dec, bd_mul_truncate_dec, chop_round_up, chop_trunc, bd_quo_round_up_mut, bd_quo_round_up, bd_quo_round_up_next_int_mut,
    bd_quo_truncate, inc_rem_div, inc_based_on_rem; rewrite ?Z.mul_0_r; simpl;
  repeat (rewrite Z.quot_0_l by (eapply nz_some; eassumption)); repeat (rewrite Z.rem_0_l by (eapply nz_some; eassumption)); simpl;
  repeat (rewrite Z.quot_0_l by (eapply nz_some; eassumption)); simpl; reflexivity.
Qed.

(* ---------- landing inside a bucket does not jump over a stored tick ---------- *)
Lemma landing_equiv : forall s zfo cur s_old computed t nt info nts,
  Inv s -> price_consistent_at (p_spacing (s_pool s)) cur s_old -> bucket_cert computed t ->
  In (nt, info) (s_ticks s) -> tick_to_sqrt_price nt = Some nts ->
  (forall k v, In (k, v) (s_ticks s) -> beyond zfo cur k = true -> if zfo then k <= nt else nt <= k) ->
  (if zfo then nts < computed /\ computed < s_old else computed < nts /\ s_old <= computed) ->
  forall k v, In (k, v) (s_ticks s) -> beyond zfo cur k = beyond zfo t k.
Proof.
  intros s zfo cur s_old computed t nt info nts I PC [Hr [[s0 [S0 L0]] U]] Hnt Snt Near Dir k v Hk.
  destruct (stored_tick_ok s k v I Hk) as [Rk [Bk _]]. destruct (stored_tick_ok s nt info I Hnt) as [Rn [Bn _]].
  destruct (tick_to_sqrt_price_defined k Bk) as [sk Sk].
  destruct (PC k sk Rk Bk Sk) as [PC1 PC2]. unfold MinCurrentTick in Hr.
  unfold beyond. destruct zfo.
  - destruct Dir as [D1 D2].
    destruct (k <=? cur) eqn:E1; destruct (k <=? t) eqn:E2; try reflexivity; exfalso.
    + apply Z.leb_le in E1. apply Z.leb_gt in E2.
      assert (Hkn : k <= nt) by (apply (Near k v Hk); unfold beyond; apply Z.leb_le; assumption).
      pose proof (tick_to_sqrt_price_mono k nt sk nts ltac:(lia) Hkn ltac:(lia) Sk Snt).
      destruct U as [U|[s1 [S1 L1]]]; [lia|].
      pose proof (tick_to_sqrt_price_mono_ext (t + 1) k s1 sk ltac:(lia) ltac:(lia) ltac:(lia) S1 Sk). lia.
    + apply Z.leb_gt in E1. apply Z.leb_le in E2.
      pose proof (tick_to_sqrt_price_mono k t sk s0 ltac:(lia) E2 ltac:(lia) Sk S0).
      specialize (PC2 E1). lia.
  - destruct Dir as [D1 D2].
    destruct (cur <? k) eqn:E1; destruct (t <? k) eqn:E2; try reflexivity; exfalso.
    + apply Z.ltb_lt in E1. apply Z.ltb_ge in E2.
      assert (Hkn : nt <= k) by (apply (Near k v Hk); unfold beyond; apply Z.ltb_lt; assumption).
      pose proof (tick_to_sqrt_price_mono nt k nts sk ltac:(lia) Hkn ltac:(lia) Snt Sk).
      pose proof (tick_to_sqrt_price_mono k t sk s0 ltac:(lia) E2 ltac:(lia) Sk S0). lia.
    + apply Z.ltb_ge in E1. apply Z.ltb_lt in E2. specialize (PC1 E1).
      destruct U as [U|[s1 [S1 L1]]]; [lia|].
      pose proof (tick_to_sqrt_price_mono_ext (t + 1) k s1 sk ltac:(lia) ltac:(lia) ltac:(lia) S1 Sk). lia.
Qed.

(* ---------- the loop invariant ---------- *)
Definition LI (s : state) (zfo : bool) (st : swap_state) (iter : list (Z * tick_info)) : Prop :=
  ss_liq st = sum_liq (f_range (ss_tick st)) (s_pos s) /\ 0 < ss_sqrt st /\
  price_consistent_at (p_spacing (s_pool s)) (ss_tick st) (ss_sqrt st) /\
  iter_ok zfo (s_ticks s) (ss_tick st) iter.

Lemma after_step_LI : forall s zfo accum sc st iter nt info rest nts computed dspec dcalc fee st' iter',
  Inv s -> LI s zfo st iter -> iter = (nt, info) :: rest -> tick_to_sqrt_price nt = Some nts ->
  (computed = nts \/ computed = ss_sqrt st \/ dir_ok zfo (ss_sqrt st) computed) ->
  after_step zfo accum sc st iter nt info nts computed dspec dcalc fee = Some (st', iter') ->
  LI s zfo st' iter'.
Proof.
  intros s zfo accum sc st iter nt info rest nts computed dspec dcalc fee st' iter' I [L1 [L2 [L3 L4]]] Eit Snt Dir H.
  subst iter. unfold after_step in H.
  destruct (if accum then update_fee_growth sc st fee else Some st) as [st1|] eqn:E1; [|discriminate].
  assert (F : ss_tick st1 = ss_tick st /\ ss_liq st1 = ss_liq st).
  { destruct accum; [destruct (update_fee_growth_fields _ _ _ _ E1) as [_ [A [B _]]]; split; assumption|inversion E1; subst; split; reflexivity]. }
  destruct F as [F1 F2].
  destruct (dchk (ss_remaining st1 - dspec)) as [rem|]; [|discriminate].
  destruct (dchk (ss_calculated st1 + dcalc)) as [calc|]; [|discriminate].
  destruct (iter_ok_head _ _ _ _ _ _ L4) as [Hin [Hb [Near Hrest]]].
  destruct (stored_tick_ok s nt info I Hin) as [Rn [Bn Nn]].
  pose proof (inv_pos_ok s I) as POK. rewrite Forall_forall in POK.
  destruct (nts =? computed) eqn:Ec.
  - (* the next initialised tick is reached: cross it *)
    apply Z.eqb_eq in Ec. subst computed.
    unfold cross_tick in H. cbn [ss_liq ss_tick ss_sqrt ss_remaining ss_calculated ss_growth ss_fee] in H.
    destruct (dchk (ss_liq st1 + (if zfo then - ti_net info else ti_net info))) as [nl|] eqn:El; [|discriminate].
    unfold dchk in El. destruct (d_fits _); [|discriminate]. inversion El; subst nl; clear El.
    inversion H; subst; clear H. unfold LI. cbn [ss_liq ss_tick ss_sqrt].
    assert (Bd : forall p, In p (s_pos s) -> ps_lower p < ps_upper p /\
                 (forall b, b = ps_lower p \/ b = ps_upper p -> beyond zfo (ss_tick st) b = true -> if zfo then b <= nt else nt <= b)).
    { intros p Hp. destruct (POK _ Hp) as [_ [_ V]]. destruct (validate_tick_range_spec _ _ _ V) as [_ [_ [_ [_ [_ Hlh]]]]].
      split; [assumption|]. intros b Hbb Hbe. destruct (boundary_stored s p I Hp) as [[v1 B1] [v2 B2]].
      destruct Hbb; subst b; eapply Near; eassumption. }
    split; [|split; [eapply tick_to_sqrt_price_pos; eassumption|split; [|exact Hrest]]].
    + rewrite F2, L1, Nn. unfold beyond in *. destruct zfo.
      * apply Z.leb_le in Hb. rewrite (sum_range_cross_down (s_pos s) (ss_tick st) nt); [lia| |assumption].
        intros p Hp. destruct (Bd p Hp) as [A B]. split; [assumption|].
        split; intros [X Y].
        { specialize (B (ps_lower p) (or_introl eq_refl)). rewrite (proj2 (Z.leb_le _ _) Y) in B. specialize (B eq_refl). lia. }
        { specialize (B (ps_upper p) (or_intror eq_refl)). rewrite (proj2 (Z.leb_le _ _) Y) in B. specialize (B eq_refl). lia. }
      * apply Z.ltb_lt in Hb. rewrite (sum_range_cross_up (s_pos s) (ss_tick st) nt); [lia| |assumption].
        intros p Hp. destruct (Bd p Hp) as [A B]. split; [assumption|].
        split; intros [X Y].
        { specialize (B (ps_lower p) (or_introl eq_refl)). rewrite (proj2 (Z.ltb_lt _ _) X) in B. specialize (B eq_refl). lia. }
        { specialize (B (ps_upper p) (or_intror eq_refl)). rewrite (proj2 (Z.ltb_lt _ _) X) in B. specialize (B eq_refl). lia. }
    + intros b sb Rb Bb Sb. destruct zfo.
      * split; intro Hc.
        { pose proof (tick_to_sqrt_price_mono b nt sb nts ltac:(lia) ltac:(lia) ltac:(lia) Sb Snt). lia. }
        { pose proof (tick_to_sqrt_price_mono nt b nts sb ltac:(lia) ltac:(lia) ltac:(lia) Snt Sb). lia. }
      * split; intro Hc.
        { pose proof (tick_to_sqrt_price_mono b nt sb nts ltac:(lia) ltac:(lia) ltac:(lia) Sb Snt). lia. }
        { pose proof (tick_to_sqrt_price_mono nt b nts sb ltac:(lia) ltac:(lia) ltac:(lia) Snt Sb). lia. }
  - apply Z.eqb_neq in Ec.
    destruct (edge_case zfo nts computed) eqn:Ee; [discriminate|].
    destruct (negb (ss_sqrt st =? computed)) eqn:Es.
    + (* landing inside the bucket *)
      apply negb_true_iff in Es. apply Z.eqb_neq in Es.
      destruct (calculate_sqrt_price_to_tick computed) as [t|] eqn:Et; [|discriminate].
      inversion H; subst; clear H. apply calculate_sqrt_price_to_tick_cert in Et.
      pose proof (bucket_cert_pos _ _ Et) as Cpos.
      assert (Dir' : if zfo then nts < computed /\ computed < ss_sqrt st else computed < nts /\ ss_sqrt st <= computed).
      { destruct Dir as [D|[D|[D|D]]]; try congruence; try lia.
        unfold edge_case in Ee. destruct zfo; [apply Z.ltb_ge in Ee|apply Z.ltb_ge in Ee]; lia. }
      pose proof (landing_equiv s zfo (ss_tick st) (ss_sqrt st) computed t nt info nts I L3 Et Hin Snt Near Dir') as EQ.
      unfold LI. cbn [ss_liq ss_tick ss_sqrt].
      split; [|split; [assumption|split]].
      * rewrite F2, L1. apply sum_liq_ext_in. intros p Hp.
        destruct (boundary_stored s p I Hp) as [[v1 B1] [v2 B2]].
        pose proof (EQ _ _ B1) as Q1. pose proof (EQ _ _ B2) as Q2. unfold beyond, f_range in *.
        destruct zfo.
        { rewrite Q1. rewrite !Z.ltb_antisym. rewrite Q2. reflexivity. }
        { rewrite !Z.leb_antisym. rewrite Q1, Q2. reflexivity. }
      * intros b sb Rb Bb Sb. eapply bucket_consistent; eassumption.
      * destruct L4 as [D HI]. split; [assumption|]. intros k v. rewrite HI. split; intros [A B]; (split; [assumption|]).
        { rewrite <- (EQ k v A). assumption. }
        { rewrite (EQ k v A). assumption. }
    + (* no movement *)
      apply negb_false_iff in Es. apply Z.eqb_eq in Es. inversion H; subst; clear H.
      unfold LI. cbn [ss_liq ss_tick ss_sqrt]. rewrite F1, F2. splits; assumption.
Qed.

(* ---------- one bucket computation: where the price goes ---------- *)
Lemma rlf_lb : forall remaining spf, 1 < remaining -> 0 <= spf <= 500000000000000000 ->
  10 ^ 18 <= bd_from_dec_mul_dec remaining (one_minus_spf spf).
Proof.
  intros remaining spf Hr Hs. unfold bd_from_dec_mul_dec, one_minus_spf. rewrite P18_val.
  change (10 ^ 18) with 1000000000000000000. nia.
Qed.

Lemma compute_out_given_in_dir : forall zfo spf cur target liq remaining next ain aout fee,
  compute_out_given_in zfo spf cur target liq remaining = Some (next, ain, aout, fee) ->
  0 <= liq -> 0 < cur -> 1 < remaining -> 0 <= spf <= 500000000000000000 -> (zfo = true -> 10 ^ 30 <= cur) ->
  next = target \/ dir_ok zfo cur next.
Proof.
  intros zfo spf cur target liq remaining next ain aout fee H Hl Hc Hr Hs Hz.
  pose proof (rlf_lb remaining spf Hr Hs) as Hrlf. change (10 ^ 18) with 1000000000000000000 in Hrlf.
  unfold compute_out_given_in in H. destruct zfo.
  - destruct (calc_amount0_delta liq target cur true) as [a0|] eqn:E0; [|discriminate].
    destruct (a0 <=? bd_from_dec_mul_dec remaining (one_minus_spf spf)) eqn:Ecmp.
    + oinv H. subst. left. reflexivity.
    + destruct (next_sqrt_price_amount0_in_round_up cur (bd_from_dec liq) (bd_from_dec_mul_dec remaining (one_minus_spf spf))) as [nx|] eqn:En; [|discriminate].
      oinv H. subst. right. left. apply Z.leb_gt in Ecmp.
      assert (Hlp : 0 < liq).
      { destruct (Z.eq_dec liq 0) as [Z0|Z0]; [|lia]. subst liq. apply calc_amount0_delta_zero_liq in E0. lia. }
      eapply dir_amount0_in; [| |change (10 ^ 18) with 1000000000000000000; exact Hrlf|exact En].
      * unfold bd_from_dec. rewrite P18_val. lia.
      * apply Hz. reflexivity.
  - destruct (calc_amount1_delta liq target cur true) as [a0|] eqn:E0; [|discriminate].
    destruct (a0 <=? bd_from_dec_mul_dec remaining (one_minus_spf spf)) eqn:Ecmp.
    + oinv H. subst. left. reflexivity.
    + destruct (next_sqrt_price_amount1_in_round_down cur liq (bd_from_dec_mul_dec remaining (one_minus_spf spf))) as [nx|] eqn:En; [|discriminate].
      oinv H. subst. right. left.
      assert (Hlp : 0 < liq).
      { unfold next_sqrt_price_amount1_in_round_down in En. destruct (nz liq) eqn:Enz; [|discriminate]. apply nz_some in Enz. lia. }
      eapply dir_amount1_in; [exact Hlp| |exact En]. lia.
Qed.

Lemma compute_in_given_out_dir : forall zfo spf cur target liq remaining next aout ain fee,
  compute_in_given_out zfo spf cur target liq remaining = Some (next, aout, ain, fee) ->
  0 <= liq -> 0 < cur -> 1 < remaining ->
  next = target \/ dir_ok zfo cur next.
Proof.
  intros zfo spf cur target liq remaining next aout ain fee H Hl Hc Hr.
  unfold compute_in_given_out in H. destruct zfo.
  - destruct (calc_amount1_delta liq target cur false) as [a0|] eqn:E0; [|discriminate].
    destruct (a0 <=? bd_from_dec remaining) eqn:Ecmp.
    + oinv H. subst. left. reflexivity.
    + destruct (next_sqrt_price_amount1_out_round_down cur liq (bd_from_dec remaining)) as [nx|] eqn:En; [|discriminate].
      oinv H. subst. right. left.
      assert (Hlp : 0 < liq).
      { unfold next_sqrt_price_amount1_out_round_down in En. destruct (nz liq) eqn:Enz; [|discriminate]. apply nz_some in Enz. lia. }
      eapply dir_amount1_out; [exact Hlp| |exact En]. unfold bd_from_dec. rewrite P18_val. lia.
  - destruct (calc_amount0_delta liq target cur false) as [a0|] eqn:E0; [|discriminate].
    destruct (a0 <=? bd_from_dec remaining) eqn:Ecmp.
    + oinv H. subst. left. reflexivity.
    + destruct (next_sqrt_price_amount0_out_round_up cur (bd_from_dec liq) remaining) as [nx|] eqn:En; [|discriminate].
      oinv H. subst. right. apply Z.leb_gt in Ecmp.
      assert (Hlp : 0 < liq).
      { destruct (Z.eq_dec liq 0) as [Z0|Z0]; [|lia]. subst liq. apply calc_amount0_delta_zero_liq in E0.
        unfold bd_from_dec in Ecmp. rewrite P18_val in Ecmp. lia. }
      unfold dir_ok. eapply dir_amount0_out; [| | |exact En]; try lia. unfold bd_from_dec. rewrite P18_val. lia.
Qed.

(* with the price limits of the entry points the target of a step is always the next initialised tick *)
Lemma sqrt_target_next : forall zfo limit nt nts, sqrt_price_limit zfo = Some limit ->
  MinInitializedTick <= nt <= MaxTick -> tick_to_sqrt_price nt = Some nts -> sqrt_target zfo limit nts = nts.
Proof.
  intros zfo limit nt nts HL Hr Snt. unfold sqrt_target. destruct zfo.
  - rewrite sqrt_price_limit_min in HL.
    pose proof (tick_to_sqrt_price_mono MinInitializedTick nt limit nts ltac:(lia) ltac:(lia) ltac:(lia) HL Snt).
    destruct (nts <? limit) eqn:E; [apply Z.ltb_lt in E; lia|reflexivity].
  - rewrite sqrt_price_limit_max in HL.
    pose proof (tick_to_sqrt_price_mono nt MaxTick nts limit ltac:(lia) ltac:(lia) ltac:(lia) Snt HL).
    destruct (limit <? nts) eqn:E; [apply Z.ltb_lt in E; lia|reflexivity].
Qed.

Lemma LI_facts : forall s zfo st nt info rest nts, Inv s -> LI s zfo st ((nt, info) :: rest) ->
  tick_to_sqrt_price nt = Some nts ->
  0 <= ss_liq st /\ MinInitializedTick <= nt <= MaxTick /\ (zfo = true -> 10 ^ 30 <= ss_sqrt st).
Proof.
  intros s zfo st nt info rest nts I [L1 [L2 [L3 L4]]] Snt.
  destruct (iter_ok_head _ _ _ _ _ _ L4) as [Hin [Hb _]]. destruct (stored_tick_ok s nt info I Hin) as [Rn [Bn _]].
  split; [rewrite L1; apply sum_liq_nonneg; apply (pos_ok_liq _ _ _ (inv_pos_ok s I))|]. split; [assumption|].
  intros Ez. subst zfo. unfold beyond in Hb. apply Z.leb_le in Hb.
  destruct (L3 nt nts Rn Bn Snt) as [A _]. specialize (A Hb).
  pose proof (tick_to_sqrt_price_mono MinInitializedTick nt _ nts ltac:(lia) ltac:(lia) ltac:(lia) sqrt_min_val Snt). lia.
Qed.

Lemma loop_out_LI : forall s fuel zfo accum sc limit st iter noprog st', Inv s ->
  sqrt_price_limit zfo = Some limit -> LI s zfo st iter ->
  loop_out_given_in fuel zfo accum (p_spread (s_pool s)) sc limit st iter noprog = Some st' ->
  exists iter', LI s zfo st' iter'.
Proof.
  intros s fuel. induction fuel as [|f IH]; intros zfo accum sc limit st iter noprog st' I HL L H; simpl in H; [discriminate|].
  destruct ((smallest_dec <? ss_remaining st) && negb (ss_sqrt st =? limit)) eqn:Econd; [|inversion H; subst; eexists; eassumption].
  apply andb_true_iff in Econd. destruct Econd as [Erem _]. apply Z.ltb_lt in Erem. unfold smallest_dec in Erem.
  destruct iter as [|[nt info] rest]; [discriminate|].
  destruct (tick_to_sqrt_price nt) as [nts|] eqn:Snt; [|discriminate].
  destruct (LI_facts s zfo st nt info rest nts I L Snt) as [Fl [Fr Fz]].
  rewrite (sqrt_target_next zfo limit nt nts HL Fr Snt) in H.
  destruct (compute_out_given_in zfo (p_spread (s_pool s)) (ss_sqrt st) nts (ss_liq st) (ss_remaining st)) as [[[[computed ain] aout] fee]|] eqn:EC; [|discriminate].
  destruct (negb (progress_ok computed (ss_sqrt st) ain aout)); [discriminate|].
  destruct (dchk (ain + fee)) as [infee|]; [|discriminate].
  destruct (after_step zfo accum sc st ((nt, info) :: rest) nt info nts computed infee aout fee) as [[st1 iter1]|] eqn:EA; [|discriminate].
  assert (L' : LI s zfo st1 iter1).
  { eapply after_step_LI; try eassumption; try reflexivity.
    destruct L as [_ [L2 _]].
    destruct (compute_out_given_in_dir _ _ _ _ _ _ _ _ _ _ EC Fl L2 Erem (inv_spread s I) Fz) as [D|D]; [left; assumption|right; right; assumption]. }
  destruct (ain =? 0).
  - destruct (swap_no_progress_limit <=? noprog); [discriminate|]. eapply IH; eassumption.
  - eapply IH; eassumption.
Qed.

Lemma loop_in_LI : forall s fuel zfo accum sc limit st iter noprog st', Inv s ->
  sqrt_price_limit zfo = Some limit -> LI s zfo st iter ->
  loop_in_given_out fuel zfo accum (p_spread (s_pool s)) sc limit st iter noprog = Some st' ->
  exists iter', LI s zfo st' iter'.
Proof.
  intros s fuel. induction fuel as [|f IH]; intros zfo accum sc limit st iter noprog st' I HL L H; simpl in H; [discriminate|].
  destruct ((smallest_dec <? ss_remaining st) && negb (ss_sqrt st =? limit)) eqn:Econd; [|inversion H; subst; eexists; eassumption].
  apply andb_true_iff in Econd. destruct Econd as [Erem _]. apply Z.ltb_lt in Erem. unfold smallest_dec in Erem.
  destruct iter as [|[nt info] rest]; [discriminate|].
  destruct (tick_to_sqrt_price nt) as [nts|] eqn:Snt; [|discriminate].
  destruct (LI_facts s zfo st nt info rest nts I L Snt) as [Fl [Fr Fz]].
  rewrite (sqrt_target_next zfo limit nt nts HL Fr Snt) in H.
  destruct (compute_in_given_out zfo (p_spread (s_pool s)) (ss_sqrt st) nts (ss_liq st) (ss_remaining st)) as [[[[computed aout] ain] fee]|] eqn:EC; [|discriminate].
  destruct (negb (progress_ok computed (ss_sqrt st) ain aout)); [discriminate|].
  destruct (dchk (ain + fee)) as [infee|]; [|discriminate].
  destruct (after_step zfo accum sc st ((nt, info) :: rest) nt info nts computed aout infee fee) as [[st1 iter1]|] eqn:EA; [|discriminate].
  assert (L' : LI s zfo st1 iter1).
  { eapply after_step_LI; try eassumption; try reflexivity.
    destruct L as [_ [L2 _]].
    destruct (compute_in_given_out_dir _ _ _ _ _ _ _ _ _ _ EC Fl L2 Erem) as [D|D]; [left; assumption|right; right; assumption]. }
  destruct (aout =? 0).
  - destruct (swap_no_progress_limit <=? noprog); [discriminate|]. eapply IH; eassumption.
  - eapply IH; eassumption.
Qed.

(* ---------- the two swap entry points ---------- *)
Lemma swap_setup_LI : forall s zfo limit iter rem, Inv s -> swap_setup s zfo = Some (limit, iter) ->
  sqrt_price_limit zfo = Some limit /\ s_pos s <> [] /\
  LI s zfo (mkSS rem 0 (p_sqrt (s_pool s)) (p_tick (s_pool s)) (p_liq (s_pool s)) 0 0) iter.
Proof.
  intros s zfo limit iter rem I H. unfold swap_setup in H.
  destruct (negb (pool_has_position (s_pool s))) eqn:EP; [discriminate|]. apply negb_false_iff in EP.
  apply (pool_has_position_iff s I) in EP.
  destruct (sqrt_price_limit zfo) as [lim|] eqn:EL; [|discriminate].
  destruct (negb (validate_sqrt_price zfo lim (p_sqrt (s_pool s)))); [discriminate|]. inversion H; subst; clear H.
  split; [reflexivity|]. split; [assumption|]. destruct (inv_price s I EP) as [A B].
  unfold LI. cbn [ss_liq ss_tick ss_sqrt]. splits; try assumption.
  - apply (inv_active s I).
  - apply next_ticks_ok, (inv_ticks_sorted s I).
Qed.

Lemma inv_after_swap : forall s zfo st iter b, Inv s -> s_pos s <> [] -> LI s zfo st iter ->
  Inv (set_bank (set_pool s (pool_with (s_pool s) (ss_tick st) (ss_sqrt st) (ss_liq st))) b).
Proof.
  intros s zfo st iter b I Hne [L1 [L2 [L3 L4]]]. constructor; simpl; try apply I.
  - exact L1.
  - intros _. split; [assumption|]. unfold price_consistent; simpl. exact L3.
  - intros E. contradiction.
Qed.

Lemma update_pool_for_swap_spec : forall s sender zfo r s', update_pool_for_swap s sender zfo r = Some s' ->
  exists b, s' = set_bank (set_pool s (pool_with (s_pool s) (sr_tick r) (sr_sqrt r) (sr_liq r))) b.
Proof.
  unfold update_pool_for_swap. intros s sender zfo r s' H.
  destruct (sr_in r - d_truncate_int (d_ceil (sr_fee r)) <=? 0); [discriminate|].
  destruct (user_bal (s_bank s) sender); [|discriminate].
  destruct (pick zfo _) as [i0 i1]. destruct (send_user_to_pool _ _ _ _) as [b1|]; [|discriminate].
  match type of H with (match ?x with Some _ => _ | None => None end) = _ => destruct x as [b2|]; [|discriminate] end.
  destruct (sr_out r <=? 0); [discriminate|].
  destruct (pick (negb zfo) _) as [o0 o1]. destruct (send_pool_to_user _ _ _ _) as [b3|]; [|discriminate].
  destruct (_ || _); [discriminate|]. inversion H; subst. eexists; reflexivity.
Qed.

Definition same_lp (s s' : state) : Prop :=
  s_pos s' = s_pos s /\ s_ticks s' = s_ticks s /\ s_next_id s' = s_next_id s /\ s_time s' = s_time s /\
  p_spacing (s_pool s') = p_spacing (s_pool s).

Lemma swap_exact_in_spec : forall s sender zfo amt min_out s' out, Inv s ->
  swap_exact_in s sender zfo amt min_out = Some (s', out) -> Inv s' /\ same_lp s s'.
Proof.
  intros s sender zfo amt min_out s' out I H. unfold swap_exact_in in H.
  destruct (negb (0 <? amt) || negb (0 <? min_out)); [discriminate|].
  destruct (compute_out_amt_given_in s zfo true amt) as [r|] eqn:EC; [|discriminate].
  destruct (negb (0 <? sr_out r)); [discriminate|].
  destruct (update_pool_for_swap s sender zfo r) as [s1|] eqn:EU; [|discriminate].
  destruct (sr_out r <? min_out); [discriminate|]. inversion H; subst; clear H.
  unfold compute_out_amt_given_in in EC.
  destruct (swap_setup s zfo) as [[limit iter]|] eqn:ES; [|discriminate].
  destruct (loop_out_given_in _ _ _ _ _ _ _ _ _) as [st|] eqn:EL; [|discriminate].
  destruct (ss_remaining st <? 0); [discriminate|]. inversion EC; subst r; clear EC.
  destruct (swap_setup_LI s zfo limit iter (d_from_int amt) I ES) as [HL [Hne L0]].
  destruct (loop_out_LI _ _ _ _ _ _ _ _ _ _ I HL L0 EL) as [iter' L'].
  destruct (update_pool_for_swap_spec _ _ _ _ _ EU) as [b Es]. simpl in Es. subst s'.
  split; [eapply inv_after_swap; eassumption|]. unfold same_lp; simpl. splits; reflexivity.
Qed.

Lemma swap_exact_out_spec : forall s sender zfo amt max_in s' tin, Inv s ->
  swap_exact_out s sender zfo amt max_in = Some (s', tin) -> Inv s' /\ same_lp s s'.
Proof.
  intros s sender zfo amt max_in s' tin I H. unfold swap_exact_out in H.
  destruct (negb (0 <? amt) || negb (0 <? max_in)); [discriminate|].
  destruct (compute_in_amt_given_out s zfo true amt) as [r|] eqn:EC; [|discriminate].
  destruct (negb (0 <? sr_in r)); [discriminate|].
  destruct (update_pool_for_swap s sender zfo r) as [s1|] eqn:EU; [|discriminate].
  destruct (max_in <? sr_in r); [discriminate|]. inversion H; subst; clear H.
  unfold compute_in_amt_given_out in EC.
  destruct (swap_setup s zfo) as [[limit iter]|] eqn:ES; [|discriminate].
  destruct (loop_in_given_out _ _ _ _ _ _ _ _ _) as [st|] eqn:EL; [|discriminate].
  destruct (ss_remaining st <? 0); [discriminate|]. inversion EC; subst r; clear EC.
  destruct (swap_setup_LI s zfo limit iter (d_from_int amt) I ES) as [HL [Hne L0]].
  destruct (loop_in_LI _ _ _ _ _ _ _ _ _ _ I HL L0 EL) as [iter' L'].
  destruct (update_pool_for_swap_spec _ _ _ _ _ EU) as [b Es]. simpl in Es. subst s'.
  split; [eapply inv_after_swap; eassumption|]. unfold same_lp; simpl. splits; reflexivity.
Qed.
