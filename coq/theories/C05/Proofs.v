(* C05 proofs: composition, estimate = execution, split = sum, limits - parametric in the pool interface.
   Section hypothesis [L : PoolLaws P] = the two laws "calc = fst of swap" and "calc leaves the pool unchanged". *)
From Coq Require Import ZArith List Bool Lia.
Import ListNotations.
From Osmo Require Import Base.DecModel Gen.C05_consts C05.Model.
Open Scope Z_scope.

(* ------------------------------------------------------------------ taker-fee arithmetic *)
Lemma P18_pos : 0 < P18.
Proof. reflexivity. Qed.

Lemma calc_fee_in_sum : forall amt f, fst (calc_fee_in amt f) + snd (calc_fee_in amt f) = amt.
Proof. intros; unfold calc_fee_in; cbn [fst snd]; lia. Qed.

Lemma calc_fee_in_zero : forall amt, calc_fee_in amt 0 = (amt, 0).
Proof.
  intros. unfold calc_fee_in, d_truncate_int, d_mul_int. rewrite Z.sub_0_r.
  rewrite (Z.mul_comm P18 amt), Z.quot_mul by (pose proof P18_pos; lia).
  f_equal. lia.
Qed.

Lemma chop_round_exact : forall x, chop_round P18 (x * P18) = x.
Proof.
  intros. pose proof P18_pos as HP.
  assert (N : forall y, 0 <= y -> chop_round_nonneg P18 (y * P18) = y).
  { intros. unfold chop_round_nonneg. rewrite Z.quot_mul, Z.rem_mul by lia. reflexivity. }
  unfold chop_round. destruct (x * P18 <? 0) eqn:E.
  - apply Z.ltb_lt in E. replace (- (x * P18)) with ((- x) * P18) by lia. rewrite N by nia. lia.
  - apply Z.ltb_ge in E. apply N. nia.
Qed.

Lemma calc_fee_out_zero : forall amt, calc_fee_out amt 0 = Ok (amt, 0).
Proof.
  intros. pose proof P18_pos as HP. unfold calc_fee_out. rewrite Z.sub_0_r.
  replace (P18 =? 0) with false by (symmetry; apply Z.eqb_neq; lia).
  unfold d_quo, d_from_int.
  replace (amt * P18 * (P18 * P18)) with (amt * P18 * P18 * P18) by lia.
  rewrite Z.quot_mul by lia. rewrite chop_round_exact.
  unfold d_ceil, d_truncate_int. rewrite Z.rem_mul, Z.quot_mul by lia. change (0 <? 0) with false. cbv iota.
  rewrite Z.quot_mul by lia. f_equal. f_equal. lia.
Qed.

(* ------------------------------------------------------------------ the taker fee is exactly rounded *)
Lemma chop_nonneg_lower : forall p q m, 0 < p -> 0 <= q -> m * p <= q -> m <= chop_round_nonneg p q.
Proof.
  intros p q m Hp Hq H. unfold chop_round_nonneg.
  rewrite Z.quot_div_nonneg, Z.rem_mod_nonneg by lia.
  assert (D : m <= q / p) by (apply Z.div_le_lower_bound; lia).
  destruct (q mod p =? 0); [lia|].
  destruct (q mod p ?= Z.quot p 2); try lia. destruct (Z.even (q / p)); lia.
Qed.

Lemma chop_nonneg_upper : forall p q m, 0 < p -> 0 <= q -> q <= m * p -> chop_round_nonneg p q <= m.
Proof.
  intros p q m Hp Hq H. unfold chop_round_nonneg.
  rewrite Z.quot_div_nonneg, Z.rem_mod_nonneg by lia.
  pose proof (Z.div_mod q p ltac:(lia)) as DM. pose proof (Z.mod_pos_bound q p Hp) as MB.
  destruct (q mod p =? 0) eqn:E0.
  - apply Z.eqb_eq in E0. nia.
  - apply Z.eqb_neq in E0. assert (q / p < m) by nia.
    destruct (q mod p ?= Z.quot p 2); try lia. destruct (Z.even (q / p)); lia.
Qed.

(* CalcTakerFeeExactOut returns exactly the ceiling of tokenIn / (1 - fee) *)
Lemma calc_fee_out_ceil : forall amt f, 0 <= amt -> 0 <= f < P18 ->
  exists c, calc_fee_out amt f = Ok (c, c - amt) /\ (c - 1) * (P18 - f) < amt * P18 <= c * (P18 - f).
Proof.
  intros amt f Ha Hf. pose proof P18_pos as HP. unfold calc_fee_out.
  set (b := P18 - f). assert (Hb : 0 < b <= P18) by (unfold b; lia).
  replace (b =? 0) with false by (symmetry; apply Z.eqb_neq; lia).
  unfold d_quo, d_from_int.
  set (q0 := Z.quot (amt * P18 * (P18 * P18)) b).
  assert (Q0 : q0 = (amt * P18 * (P18 * P18)) / b) by (unfold q0; apply Z.quot_div_nonneg; nia).
  assert (Q0pos : 0 <= q0) by (rewrite Q0; apply Z.div_pos; nia).
  assert (CR : chop_round P18 q0 = chop_round_nonneg P18 q0).
  { unfold chop_round. replace (q0 <? 0) with false by (symmetry; apply Z.ltb_ge; lia). reflexivity. }
  rewrite CR. set (R := chop_round_nonneg P18 q0).
  (* the true ceiling *)
  set (c := (amt * P18 + b - 1) / b).
  assert (C1 : (c - 1) * b < amt * P18 <= c * b).
  { unfold c. pose proof (Z.div_mod (amt * P18 + b - 1) b ltac:(lia)). pose proof (Z.mod_pos_bound (amt * P18 + b - 1) b ltac:(lia)). nia. }
  (* bounds on q0 *)
  pose proof (Z.div_mod (amt * P18 * (P18 * P18)) b ltac:(lia)) as DM.
  pose proof (Z.mod_pos_bound (amt * P18 * (P18 * P18)) b ltac:(lia)) as MB. rewrite <- Q0 in DM.
  assert (RU : R <= c * P18).
  { apply chop_nonneg_upper; try lia. (* q0 <= c*P18*P18 : b*q0 <= amt*P18^3 <= c*b*P18^2 *) nia. }
  assert (Rpos : 0 <= R) by (apply (chop_nonneg_lower P18 q0 0); lia).
  assert (RL : (c - 1) * P18 < R \/ (amt * P18 = c * b /\ R = c * P18)).
  { destruct (Z.eq_dec (amt * P18) (c * b)) as [E|NE].
    - right. split; [assumption|].
      assert (q0 = c * P18 * P18).
      { rewrite Q0. replace (amt * P18 * (P18 * P18)) with ((c * P18 * P18) * b) by nia. apply Z.div_mul. lia. }
      apply Z.le_antisymm; [assumption|]. apply chop_nonneg_lower; lia.
    - left. assert (S : (c - 1) * b + 1 <= amt * P18) by lia.
      (* q0 >= ((c-1)*P18 + 1) * P18 *)
      assert (((c - 1) * P18 + 1) * P18 <= q0).
      { rewrite Q0. apply Z.div_le_lower_bound; [lia|]. nia. }
      assert ((c - 1) * P18 + 1 <= R) by (apply chop_nonneg_lower; lia). lia. }
  exists c. split; [|exact C1].
  unfold d_ceil, d_truncate_int.
  assert (EQ : Z.quot R P18 = R / P18) by (apply Z.quot_div_nonneg; lia).
  assert (EM : Z.rem R P18 = R mod P18) by (apply Z.rem_mod_nonneg; lia).
  rewrite EQ, EM.
  pose proof (Z.div_mod R P18 ltac:(lia)) as DR. pose proof (Z.mod_pos_bound R P18 HP) as MR.
  destruct RL as [RL|[E ER]].
  - destruct (0 <? R mod P18) eqn:EZ.
    + apply Z.ltb_lt in EZ. rewrite Z.quot_mul by lia. assert (R / P18 + 1 = c) by nia. f_equal. f_equal; lia.
    + apply Z.ltb_ge in EZ. rewrite Z.quot_mul by lia. assert (R / P18 = c) by nia. f_equal. f_equal; lia.
  - rewrite ER. rewrite Z.mod_mul by lia. cbn [Z.ltb Z.compare]. rewrite Z.div_mul, Z.quot_mul by lia. reflexivity.
Qed.

(* CalcTakerFeeExactIn: the amount swapped is the floor of tokenIn * (1 - fee), the fee is the rest *)
Lemma calc_fee_in_floor : forall amt f, 0 <= amt -> 0 <= f <= P18 ->
  let a := fst (calc_fee_in amt f) in let fee := snd (calc_fee_in amt f) in
  a * P18 <= (P18 - f) * amt < (a + 1) * P18 /\ fee = amt - a /\ 0 <= fee <= amt.
Proof.
  intros amt f Ha Hf. pose proof P18_pos as HP. unfold calc_fee_in, d_truncate_int, d_mul_int. cbn [fst snd].
  rewrite Z.quot_div_nonneg by nia.
  pose proof (Z.div_mod ((P18 - f) * amt) P18 ltac:(lia)) as DM.
  pose proof (Z.mod_pos_bound ((P18 - f) * amt) P18 HP) as MB.
  assert (0 <= (P18 - f) * amt / P18) by (apply Z.div_pos; nia).
  assert ((P18 - f) * amt / P18 <= amt) by (apply Z.div_le_upper_bound; nia).
  repeat split; nia.
Qed.

(* indicator *)
Definition ind (c : bool) (v : Z) : Z := if c then v else 0.

(* ------------------------------------------------------------------ accounts and the bank *)
Lemma acct_eqb_eq : forall a b, acct_eqb a b = true <-> a = b.
Proof.
  destruct a, b; simpl; split; intro H; try discriminate; try reflexivity;
    try (apply Z.eqb_eq in H; subst; reflexivity); try (inversion H; apply Z.eqb_refl).
Qed.
Lemma acct_eqb_refl : forall a, acct_eqb a a = true.
Proof. intro; apply acct_eqb_eq; reflexivity. Qed.
Lemma acct_eqb_neq : forall a b, acct_eqb a b = false <-> a <> b.
Proof.
  intros; split; intro H.
  - intro E; subst. rewrite acct_eqb_refl in H; discriminate.
  - destruct (acct_eqb a b) eqn:E; [apply acct_eqb_eq in E; contradiction|reflexivity].
Qed.
Lemma acct_eqb_sym : forall a b, acct_eqb a b = acct_eqb b a.
Proof.
  intros. destruct (acct_eqb a b) eqn:E.
  - apply acct_eqb_eq in E; subst. symmetry; apply acct_eqb_refl.
  - symmetry. apply acct_eqb_neq. apply acct_eqb_neq in E. congruence.
Qed.

Definition at_ (a a0 : acct) (x d : Z) : bool := acct_eqb a a0 && (x =? d).

Lemma bal_set_spec : forall b a0 d v a x, bal_set b a0 d v a x = if at_ a a0 x d then v else b a x.
Proof. reflexivity. Qed.

Lemma bank_move_spec : forall b from to d amt b',
  bank_move b from to d amt = Ok b' ->
  amt <= b from d /\
  forall a x, b' a x = b a x + ind (at_ a to x d) amt - ind (at_ a from x d) amt.
Proof.
  unfold bank_move; intros. destruct (b from d <? amt) eqn:E; [discriminate|]. apply Z.ltb_ge in E.
  inversion H; subst; clear H. split; [assumption|]. intros.
  rewrite !bal_set_spec. unfold at_, ind.
  destruct (x =? d) eqn:Ex; [apply Z.eqb_eq in Ex; subst x|rewrite !andb_false_r; lia].
  rewrite !andb_true_r.
  destruct (acct_eqb a to) eqn:Et; destruct (acct_eqb a from) eqn:Ef;
    try (apply acct_eqb_eq in Et; subst a); try (apply acct_eqb_eq in Ef; subst);
    rewrite ?acct_eqb_refl, ?Z.eqb_refl; cbn [andb]; try lia.
  - rewrite Ef. cbn [andb]. lia.
Qed.

Lemma send_raw_spec : forall b from to d amt b',
  send_raw b from to d amt = Ok b' ->
  0 < amt /\ amt <= b from d /\
  forall a x, b' a x = b a x + ind (at_ a to x d) amt - ind (at_ a from x d) amt.
Proof.
  unfold send_raw; intros. destruct (amt <=? 0) eqn:E; [discriminate|]. apply Z.leb_gt in E.
  apply bank_move_spec in H. tauto.
Qed.

Lemma send_new_spec : forall b from to d amt b',
  send_new b from to d amt = Ok b' ->
  0 <= amt /\
  forall a x, b' a x = b a x + ind (at_ a to x d) amt - ind (at_ a from x d) amt.
Proof.
  unfold send_new; intros. destruct (amt =? 0) eqn:E0.
  - apply Z.eqb_eq in E0; subst. inversion H; subst. split; [lia|]. intros. unfold ind.
    destruct (at_ a to x d), (at_ a from x d); lia.
  - destruct (amt <? 0) eqn:E1; [discriminate|]. apply Z.ltb_ge in E1.
    apply bank_move_spec in H. split; [lia|tauto].
Qed.


(* keep the 18-decimal arithmetic folded: [simpl] on 10^18 mantissas explodes *)
Arguments calc_fee_in : simpl never.
Arguments calc_fee_out : simpl never.

Section WithPool.
Variable P : PoolIface.

(* ------------------------------------------------------------------ pool table *)
Lemma put_pool_same : forall l id p, get_pool P l id = Some p -> put_pool P l id p = l.
Proof.
  induction l as [|[k q] r IH]; intros; simpl in *; [reflexivity|].
  destruct (k =? id) eqn:E.
  - inversion H; subst; reflexivity.
  - f_equal. apply IH; assumption.
Qed.

Lemma get_put_other : forall l id p id', id' <> id -> get_pool P (put_pool P l id p) id' = get_pool P l id'.
Proof.
  induction l as [|[k q] r IH]; intros; simpl; [reflexivity|].
  destruct (k =? id) eqn:E; simpl.
  - apply Z.eqb_eq in E; subst. destruct (id =? id') eqn:E2; [apply Z.eqb_eq in E2; congruence|reflexivity].
  - destruct (k =? id'); [reflexivity|apply IH; assumption].
Qed.

Lemma set_pool_same : forall s id p, get_pool P (pools s) id = Some p -> set_pool P s id p = s.
Proof. intros; destruct s; unfold set_pool; simpl in *. rewrite put_pool_same by assumption. reflexivity. Qed.

(* ------------------------------------------------------------------ inversion lemmas *)
Lemma charge_inv : forall s sender dIn amt dOut ex s1 after fee,
  charge_taker_fee P s sender dIn amt dOut ex = Ok (s1, (after, fee)) ->
  pools s1 = pools s /\ taker_fee s1 = taker_fee s /\ whitelisted s1 = whitelisted s /\
  (whitelisted s sender = true -> s1 = s /\ after = amt /\ fee = 0) /\
  (whitelisted s sender = false ->
     (if ex then Ok (calc_fee_in amt (taker_fee s dIn dOut)) else calc_fee_out amt (taker_fee s dIn dOut)) = Ok (after, fee)
     /\ send_new (bal s) sender Collector dIn fee = Ok (bal s1)).
Proof.
  unfold charge_taker_fee; intros.
  destruct (whitelisted s sender) eqn:W.
  - inversion H; subst. repeat split; auto; intros; discriminate.
  - destruct (if ex then Ok (calc_fee_in amt (taker_fee s dIn dOut)) else calc_fee_out amt (taker_fee s dIn dOut)) as [[a f]|] eqn:E; [|discriminate].
    destruct (send_new (bal s) sender Collector dIn f) eqn:E2; [|discriminate].
    inversion H; subst. simpl. repeat split; auto; intros; discriminate.
Qed.

(* the sender pays exactly the fees of the taker-fee table: not on the reduced-fee whitelist, or the table is all zero *)
Definition fee_neutral (s : state P) (sender : acct) : Prop :=
  whitelisted s sender = false \/ forall a b, taker_fee s a b = 0.

Lemma charge_after_in : forall s sender dIn amt dOut s1 after fee, fee_neutral s sender ->
  charge_taker_fee P s sender dIn amt dOut true = Ok (s1, (after, fee)) ->
  after = fst (calc_fee_in amt (taker_fee s dIn dOut)).
Proof.
  intros. apply charge_inv in H0. destruct H0 as (_ & _ & _ & A & B).
  destruct (whitelisted s sender) eqn:W.
  - destruct (A eq_refl) as (_ & ? & _). subst. destruct H as [H|H]; [congruence|]. rewrite H, calc_fee_in_zero. reflexivity.
  - destruct (B eq_refl) as (C & _). remember (calc_fee_in amt (taker_fee s dIn dOut)) as cf. inversion C. reflexivity.
Qed.

Lemma charge_after_out : forall s sender dIn amt dOut s1 after fee, fee_neutral s sender ->
  charge_taker_fee P s sender dIn amt dOut false = Ok (s1, (after, fee)) ->
  exists fee', calc_fee_out amt (taker_fee s dIn dOut) = Ok (after, fee').
Proof.
  intros. apply charge_inv in H0. destruct H0 as (_ & _ & _ & A & B).
  destruct (whitelisted s sender) eqn:W.
  - destruct (A eq_refl) as (_ & ? & _). subst. destruct H as [H|H]; [congruence|]. rewrite H, calc_fee_out_zero. eauto.
  - destruct (B eq_refl) as (C & _). eauto.
Qed.

Lemma settle_inv : forall s sender pid p' dIn tin dOut tout s',
  settle P s sender pid p' dIn tin dOut tout = Ok s' ->
  pools s' = put_pool P (pools s) pid p' /\ taker_fee s' = taker_fee s /\ whitelisted s' = whitelisted s /\
  exists b1, send_raw (bal s) sender (PoolAcc pid) dIn tin = Ok b1 /\ send_raw b1 (PoolAcc pid) sender dOut tout = Ok (bal s').
Proof.
  unfold settle; intros.
  destruct (send_raw (bal s) sender (PoolAcc pid) dIn tin) as [b1|] eqn:E1; [|discriminate].
  destruct (send_raw b1 (PoolAcc pid) sender dOut tout) as [b2|] eqn:E2; [|discriminate].
  inversion H; subst; simpl. repeat split; auto. exists b1; auto.
Qed.

Lemma module_in_inv : forall s sender pid p dIn amt dOut minOut spread s' out,
  module_swap_exact_in P s sender pid p dIn amt dOut minOut spread = Ok (s', out) ->
  exists p' tin, swap_in P p dIn amt dOut spread = Ok (p', (tin, out)) /\ 0 < out /\ minOut <= out /\ dIn <> dOut /\
                 settle P s sender pid p' dIn tin dOut out = Ok s'.
Proof.
  unfold module_swap_exact_in; intros.
  destruct (dIn =? dOut) eqn:E0; [discriminate|].
  destruct (swap_in P p dIn amt dOut spread) as [[p' [tin tout]]|]; [|discriminate].
  destruct (tout <=? 0) eqn:E1; [discriminate|].
  destruct (tout <? minOut) eqn:E2; [discriminate|].
  destruct (settle P s sender pid p' dIn tin dOut tout) eqn:E3; [|discriminate].
  inversion H; subst. exists p', tin. apply Z.leb_gt in E1. apply Z.ltb_ge in E2. apply Z.eqb_neq in E0. auto.
Qed.

Lemma module_out_inv : forall s sender pid p dIn maxIn dOut amtOut spread s' tin,
  module_swap_exact_out P s sender pid p dIn maxIn dOut amtOut spread = Ok (s', tin) ->
  exists p' tout, swap_out P p dOut amtOut dIn spread = Ok (p', (tin, tout)) /\ 0 < tin /\ tin <= maxIn /\ dIn <> dOut /\
                  settle P s sender pid p' dIn tin dOut tout = Ok s'.
Proof.
  unfold module_swap_exact_out; intros.
  destruct (dIn =? dOut) eqn:E0; [discriminate|].
  destruct (swap_out P p dOut amtOut dIn spread) as [[p' [ti tout]]|]; [|discriminate].
  destruct (ti <=? 0) eqn:E1; [discriminate|].
  destruct (maxIn <? ti) eqn:E2; [discriminate|].
  destruct (settle P s sender pid p' dIn ti dOut tout) eqn:E3; [|discriminate].
  inversion H; subst. exists p', tout. apply Z.leb_gt in E1. apply Z.ltb_ge in E2. apply Z.eqb_neq in E0. auto.
Qed.

Lemma pm_in_inv : forall s sender pid dIn amt dOut minOut s' out fee,
  pm_swap_exact_in P s sender pid dIn amt dOut minOut = Ok (s', (out, fee)) ->
  exists p s1 after,
    get_pool P (pools s) pid = Some p /\ is_active P p = true /\
    charge_taker_fee P s sender dIn amt dOut true = Ok (s1, (after, fee)) /\
    module_swap_exact_in P s1 sender pid p dIn after dOut minOut (spread_of P p) = Ok (s', out).
Proof.
  unfold pm_swap_exact_in; intros.
  destruct (get_pool P (pools s) pid) as [p|]; [|discriminate].
  destruct (is_active P p) eqn:A; simpl in H; [|discriminate].
  destruct (charge_taker_fee P s sender dIn amt dOut true) as [[s1 [after f]]|] eqn:E; [|discriminate].
  destruct (module_swap_exact_in P s1 sender pid p dIn after dOut minOut (spread_of P p)) as [[s2 o]|] eqn:E2; [|discriminate].
  inversion H; subst. exists p, s1, after. auto.
Qed.

(* what one exact-in hop does to the non-bank part of the state *)
Lemma pm_in_frame : forall s sender pid dIn amt dOut minOut s' out fee,
  pm_swap_exact_in P s sender pid dIn amt dOut minOut = Ok (s', (out, fee)) ->
  taker_fee s' = taker_fee s /\ whitelisted s' = whitelisted s /\
  (forall q, q <> pid -> get_pool P (pools s') q = get_pool P (pools s) q).
Proof.
  intros. apply pm_in_inv in H. destruct H as (p & s1 & after & G & A & C & M).
  apply charge_inv in C. destruct C as (C1 & C2 & C3 & _).
  apply module_in_inv in M. destruct M as (p' & tin & _ & _ & _ & _ & St).
  apply settle_inv in St. destruct St as (S1 & S2 & S3 & _).
  repeat split; try congruence.
  intros. rewrite S1, C1. apply get_put_other; assumption.
Qed.

(* the share-agreement table is never written by a swap *)
Lemma charge_skim : forall s sender dIn amt dOut ex s1 r, charge_taker_fee P s sender dIn amt dOut ex = Ok (s1, r) -> skim s1 = skim s.
Proof.
  unfold charge_taker_fee; intros. destruct (whitelisted s sender); [inversion H; reflexivity|].
  destruct (if ex then Ok (calc_fee_in amt (taker_fee s dIn dOut)) else calc_fee_out amt (taker_fee s dIn dOut)) as [[a f]|]; [|discriminate].
  destruct (send_new (bal s) sender Collector dIn f); inversion H; reflexivity.
Qed.
Lemma settle_skim : forall s sender pid p' dIn tin dOut tout s', settle P s sender pid p' dIn tin dOut tout = Ok s' -> skim s' = skim s.
Proof.
  unfold settle; intros. destruct (send_raw (bal s) sender (PoolAcc pid) dIn tin) as [b1|]; [|discriminate].
  destruct (send_raw b1 (PoolAcc pid) sender dOut tout); inversion H; reflexivity.
Qed.
Lemma pm_in_skim : forall s sender pid dIn amt dOut m s' r, pm_swap_exact_in P s sender pid dIn amt dOut m = Ok (s', r) -> skim s' = skim s.
Proof.
  intros. destruct r as [out fee]. apply pm_in_inv in H. destruct H as (p & s1 & after & _ & _ & C & Md).
  apply module_in_inv in Md. destruct Md as (p' & tin & _ & _ & _ & _ & St).
  apply settle_skim in St. apply charge_skim in C. congruence.
Qed.
Lemma loop_in_skim : forall route s sender dIn amt minOut s' out,
  route_in_loop P s sender route dIn amt minOut = Ok (s', out) -> skim s' = skim s.
Proof.
  induction route as [|[pid dOut] rest IH]; intros; cbn [route_in_loop] in H; [discriminate|].
  destruct (pm_swap_exact_in P s sender pid dIn amt dOut (match rest with [] => minOut | _ :: _ => hop_min_out end)) as [[s1 [o f]]|] eqn:E; [|discriminate].
  apply pm_in_skim in E. destruct rest as [|h2 rest']; [inversion H; subst; assumption|].
  apply IH in H. congruence.
Qed.
Lemma skim_ok_ext : forall (s s2 : state P) ds, skim s2 = skim s -> skim_ok P s2 ds = skim_ok P s ds.
Proof. intros. unfold skim_ok. rewrite H. reflexivity. Qed.

(* ------------------------------------------------------------------ limits: exact-in *)
Lemma pm_swap_exact_in_min : forall s sender pid dIn amt dOut minOut s' out fee,
  pm_swap_exact_in P s sender pid dIn amt dOut minOut = Ok (s', (out, fee)) -> minOut <= out /\ 0 < out.
Proof.
  intros. apply pm_in_inv in H. destruct H as (p & s1 & after & _ & _ & _ & M).
  apply module_in_inv in M. destruct M as (p' & tin & _ & ? & ? & _). auto.
Qed.

(* RouteExactAmountIn = the hop loop, then the TakerFeeSkim validation *)
Lemma route_in_ok : forall s sender route dIn amt minOut s' out,
  route_exact_in P s sender route dIn amt minOut = Ok (s', out) <->
  route_in_loop P s sender route dIn amt minOut = Ok (s', out) /\ skim_ok P s' (dIn :: map snd route) = true.
Proof.
  intros. unfold route_exact_in. destruct (route_in_loop P s sender route dIn amt minOut) as [[s1 o]|e].
  - destruct (skim_ok P s1 (dIn :: map snd route)) eqn:K; split.
    + intro H; inversion H; subst; auto.
    + intros [H _]; exact H.
    + discriminate.
    + intros [H K2]. inversion H; subst. congruence.
  - split; [discriminate|intros [H _]; discriminate].
Qed.

Lemma loop_in_min_out : forall route s sender dIn amt minOut s' out,
  route_in_loop P s sender route dIn amt minOut = Ok (s', out) -> minOut <= out /\ 0 < out.
Proof.
  induction route as [|[pid dOut] rest IH]; intros; simpl in H; [discriminate|].
  destruct rest as [|h rest'].
  - destruct (pm_swap_exact_in P s sender pid dIn amt dOut minOut) as [[s1 [o f]]|] eqn:E; [|discriminate].
    inversion H; subst. eapply pm_swap_exact_in_min; eauto.
  - destruct (pm_swap_exact_in P s sender pid dIn amt dOut hop_min_out) as [[s1 [o f]]|] eqn:E; [|discriminate].
    eapply IH; eauto.
Qed.

Lemma route_in_min_out : forall route s sender dIn amt minOut s' out,
  route_exact_in P s sender route dIn amt minOut = Ok (s', out) -> minOut <= out /\ 0 < out.
Proof. intros. apply route_in_ok in H. destruct H as [H _]. eapply loop_in_min_out; eauto. Qed.

(* ------------------------------------------------------------------ composition: exact-in *)
(* a multi-hop route = its first hop (minimum 1) followed by the rest of the route fed with the first hop's output *)
Lemma loop_in_cons : forall s sender h rest dIn amt minOut, rest <> [] ->
  route_in_loop P s sender (h :: rest) dIn amt minOut =
  match route_in_loop P s sender [h] dIn amt hop_min_out with
  | Err e => Err e
  | Ok (s1, out) => route_in_loop P s1 sender rest (snd h) out minOut
  end.
Proof.
  intros. destruct h as [pid dOut]. destruct rest as [|h2 rest']; [congruence|].
  simpl. destruct (pm_swap_exact_in P s sender pid dIn amt dOut hop_min_out) as [[s1 [o f]]|]; reflexivity.
Qed.

(* the left fold of "taker fee, then the pool" over the hops *)
Definition in_step (sender : acct) (acc : result (state P * (Z * Z))) (hm : (Z * Z) * Z) : result (state P * (Z * Z)) :=
  match acc with
  | Err e => Err e
  | Ok (s, (dIn, amt)) =>
    match pm_swap_exact_in P s sender (fst (fst hm)) dIn amt (snd (fst hm)) (snd hm) with
    | Err e => Err e
    | Ok (s', (out, _)) => Ok (s', (snd (fst hm), out))
    end
  end.
(* the per-hop minimum: hop_min_out, ..., hop_min_out, the caller's minimum *)
Fixpoint hop_mins (route : list (Z * Z)) (minOut : Z) : list Z :=
  match route with
  | [] => []
  | [_] => [minOut]
  | _ :: r => hop_min_out :: hop_mins r minOut
  end.

Lemma fold_in_step_err : forall sender l e, fold_left (in_step sender) l (Err e) = Err e.
Proof. induction l; intros; simpl; auto. Qed.

Lemma loop_in_eq_fold : forall route s sender dIn amt minOut, route <> [] ->
  route_in_loop P s sender route dIn amt minOut =
  match fold_left (in_step sender) (combine route (hop_mins route minOut)) (Ok (s, (dIn, amt))) with
  | Err e => Err e
  | Ok (s', (_, out)) => Ok (s', out)
  end.
Proof.
  induction route as [|[pid dOut] rest IH]; intros; [congruence|].
  destruct rest as [|h2 rest'].
  - simpl. destruct (pm_swap_exact_in P s sender pid dIn amt dOut minOut) as [[s1 [o f]]|]; reflexivity.
  - remember (h2 :: rest') as r2 eqn:R.
    assert (R2 : r2 <> []) by (subst; discriminate).
    assert (HM : hop_mins ((pid, dOut) :: r2) minOut = hop_min_out :: hop_mins r2 minOut) by (subst; reflexivity).
    assert (HL : route_in_loop P s sender ((pid, dOut) :: r2) dIn amt minOut =
                 match pm_swap_exact_in P s sender pid dIn amt dOut hop_min_out with
                 | Err e => Err e
                 | Ok (s', (out, _)) => route_in_loop P s' sender r2 dOut out minOut
                 end).
    { subst. simpl. destruct (pm_swap_exact_in P s sender pid dIn amt dOut hop_min_out) as [[s1 [o f]]|]; reflexivity. }
    rewrite HL, HM. cbn [combine fold_left in_step fst snd].
    destruct (pm_swap_exact_in P s sender pid dIn amt dOut hop_min_out) as [[s1 [o f]]|].
    + rewrite IH by assumption. reflexivity.
    + rewrite fold_in_step_err. reflexivity.
Qed.

Lemma route_in_eq_fold : forall route s sender dIn amt minOut, route <> [] ->
  route_exact_in P s sender route dIn amt minOut =
  match fold_left (in_step sender) (combine route (hop_mins route minOut)) (Ok (s, (dIn, amt))) with
  | Err e => Err e
  | Ok (s', (_, out)) => if skim_ok P s' (dIn :: map snd route) then Ok (s', out) else Err ESkim
  end.
Proof.
  intros. unfold route_exact_in. rewrite loop_in_eq_fold by assumption.
  destruct (fold_left (in_step sender) (combine route (hop_mins route minOut)) (Ok (s, (dIn, amt)))) as [[s' [d o]]|]; reflexivity.
Qed.

(* ------------------------------------------------------------------ composition: exact-out as a fold *)
(* one forward hop of RouteExactAmountOut: swap for the out-coin with the per-hop maximum, then the taker fee on top;
   on the first hop the sum is compared with the caller's maximum *)
Definition out_hop (first : bool) (s : state P) (sender : acct) (pid dIn maxIn dOut amtOut : Z) : result (state P * Z) :=
  match get_pool P (pools s) pid with
  | None => Err ENoPool
  | Some p =>
    if negb (is_active P p) then Err EInactive else
    match module_swap_exact_out P s sender pid p dIn maxIn dOut amtOut (spread_of P p) with
    | Err e => Err e
    | Ok (s1, cur) =>
      match charge_taker_fee P s1 sender dIn cur dOut false with
      | Err e => Err e
      | Ok (s2, (after, _)) => if first && (maxIn <? after) then Err ELimit else Ok (s2, after)
      end
    end
  end.

(* the hops with their concrete arguments: (first?, (pool, denom in, maximum), out-coin) *)
Fixpoint out_hops (first : bool) (route : list (Z * Z)) (ins : list Z) (dOutF amtF : Z)
  : list (bool * (Z * Z * Z) * (Z * Z)) :=
  match route, ins with
  | (pid, dIn) :: rest, m :: ins_rest =>
    (first, (pid, dIn, m), next_out rest ins_rest dOutF amtF) :: out_hops false rest ins_rest dOutF amtF
  | _, _ => []
  end.

Definition out_step (sender : acct) (acc : result (state P * list Z)) (x : bool * (Z * Z * Z) * (Z * Z))
  : result (state P * list Z) :=
  match acc with
  | Err e => Err e
  | Ok (s, ts) =>
    let '(first, (pid, dIn, m), (dOut, amtOut)) := x in
    match out_hop first s sender pid dIn m dOut amtOut with
    | Err e => Err e
    | Ok (s', t) => Ok (s', ts ++ [t])
    end
  end.

Lemma fold_out_step_err : forall sender l e, fold_left (out_step sender) l (Err e) = Err e.
Proof. induction l; intros; simpl; auto. Qed.

Lemma route_out_loop_step : forall first s sender pid dIn rest m ins_rest dOutF amtF,
  route_out_loop P first s sender ((pid, dIn) :: rest) (m :: ins_rest) dOutF amtF =
  match out_hop first s sender pid dIn m (fst (next_out rest ins_rest dOutF amtF)) (snd (next_out rest ins_rest dOutF amtF)) with
  | Err e => Err e
  | Ok (s2, after) =>
    match rest with
    | [] => Ok (s2, after)
    | _ => match route_out_loop P false s2 sender rest ins_rest dOutF amtF with
           | Err e => Err e
           | Ok (s3, _) => Ok (s3, after)
           end
    end
  end.
Proof.
  intros. cbn [route_out_loop]. unfold out_hop.
  destruct (next_out rest ins_rest dOutF amtF) as [dOut amtOut]. simpl fst; simpl snd.
  destruct (get_pool P (pools s) pid) as [p|]; [|reflexivity].
  destruct (negb (is_active P p)); [reflexivity|].
  destruct (module_swap_exact_out P s sender pid p dIn m dOut amtOut (spread_of P p)) as [[s1 cur]|]; [|reflexivity].
  destruct (charge_taker_fee P s1 sender dIn cur dOut false) as [[s2 [after fee]]|]; [|reflexivity].
  destruct (first && (m <? after)); reflexivity.
Qed.

Lemma route_out_loop_fold : forall route first s sender ins dOutF amtF acc,
  route <> [] -> length ins = length route ->
  match route_out_loop P first s sender route ins dOutF amtF with
  | Err e => fold_left (out_step sender) (out_hops first route ins dOutF amtF) (Ok (s, acc)) = Err e
  | Ok (s', t) => exists ts, fold_left (out_step sender) (out_hops first route ins dOutF amtF) (Ok (s, acc)) = Ok (s', acc ++ t :: ts)
  end.
Proof.
  induction route as [|[pid dIn] rest IH]; intros first s sender ins dOutF amtF acc NE Len; [congruence|].
  destruct ins as [|m ins_rest]; [simpl in Len; discriminate|].
  rewrite route_out_loop_step. cbn [out_hops fold_left out_step].
  destruct (next_out rest ins_rest dOutF amtF) as [dOut amtOut]. simpl fst; simpl snd.
  destruct (out_hop first s sender pid dIn m dOut amtOut) as [[s2 after]|e].
  - destruct rest as [|h2 rest'].
    + destruct ins_rest; [|simpl in Len; discriminate]. simpl. exists []. reflexivity.
    + specialize (IH false s2 sender ins_rest dOutF amtF (acc ++ [after])).
      assert (NE2 : h2 :: rest' <> []) by discriminate.
      assert (Len2 : length ins_rest = length (h2 :: rest')) by (simpl in *; lia).
      specialize (IH NE2 Len2).
      destruct (route_out_loop P false s2 sender (h2 :: rest') ins_rest dOutF amtF) as [[s3 t']|e].
      * destruct IH as [ts IH]. exists (t' :: ts). rewrite IH. rewrite <- app_assoc. reflexivity.
      * exact IH.
  - apply fold_out_step_err.
Qed.

(* ------------------------------------------------------------------ split routes = the sum of their legs *)
Definition zsum (l : list Z) : Z := fold_right Z.add 0 l.
Lemma zsum_app : forall a b, zsum (a ++ b) = zsum a + zsum b.
Proof. induction a; intros; simpl; [reflexivity|]. rewrite IHa. lia. Qed.

Definition leg_in_step (sender : acct) (dIn : Z) (acc : result (state P * list Z)) (leg : list (Z * Z) * Z)
  : result (state P * list Z) :=
  match acc with
  | Err e => Err e
  | Ok (s, outs) =>
    if snd leg <? 0 then Err EPanic else
    match route_exact_in P s sender (fst leg) dIn (snd leg) split_leg_min with
    | Err e => Err e
    | Ok (s', out) => Ok (s', outs ++ [out])
    end
  end.
Definition leg_out_step (sender : acct) (dOut : Z) (acc : result (state P * list Z)) (leg : list (Z * Z) * Z)
  : result (state P * list Z) :=
  match acc with
  | Err e => Err e
  | Ok (s, ins) =>
    if snd leg <? 0 then Err EPanic else
    match route_exact_out P s sender (fst leg) int_max_value dOut (snd leg) with
    | Err e => Err e
    | Ok (s', tin) => Ok (s', ins ++ [tin])
    end
  end.

Lemma fold_leg_in_err : forall sender d l e, fold_left (leg_in_step sender d) l (Err e) = Err e.
Proof. induction l; intros; simpl; auto. Qed.
Lemma fold_leg_out_err : forall sender d l e, fold_left (leg_out_step sender d) l (Err e) = Err e.
Proof. induction l; intros; simpl; auto. Qed.

Lemma split_in_loop_fold : forall legs s sender dIn total acc,
  match split_in_loop P s sender legs dIn total with
  | Err e => fold_left (leg_in_step sender dIn) legs (Ok (s, acc)) = Err e
  | Ok (s', tot) => exists outs, fold_left (leg_in_step sender dIn) legs (Ok (s, acc)) = Ok (s', acc ++ outs)
                                 /\ tot = total + zsum outs
  end.
Proof.
  induction legs as [|[r amt] rest IH]; intros; simpl.
  - exists []. rewrite app_nil_r. split; [reflexivity|simpl; lia].
  - destruct (amt <? 0); [apply fold_leg_in_err|].
    destruct (route_exact_in P s sender r dIn amt split_leg_min) as [[s1 out]|e]; [|apply fold_leg_in_err].
    specialize (IH s1 sender dIn (total + out) (acc ++ [out])).
    destruct (split_in_loop P s1 sender rest dIn (total + out)) as [[s' tot]|e]; [|exact IH].
    destruct IH as (outs & F & T). exists (out :: outs). rewrite F, <- app_assoc. split; [reflexivity|simpl; lia].
Qed.

Lemma split_out_loop_fold : forall legs s sender dOut total acc,
  match split_out_loop P s sender legs dOut total with
  | Err e => fold_left (leg_out_step sender dOut) legs (Ok (s, acc)) = Err e
  | Ok (s', tot) => exists ins, fold_left (leg_out_step sender dOut) legs (Ok (s, acc)) = Ok (s', acc ++ ins)
                                /\ tot = total + zsum ins
  end.
Proof.
  induction legs as [|[r amt] rest IH]; intros; simpl.
  - exists []. rewrite app_nil_r. split; [reflexivity|simpl; lia].
  - destruct (amt <? 0); [apply fold_leg_out_err|].
    destruct (route_exact_out P s sender r int_max_value dOut amt) as [[s1 tin]|e]; [|apply fold_leg_out_err].
    specialize (IH s1 sender dOut (total + tin) (acc ++ [tin])).
    destruct (split_out_loop P s1 sender rest dOut (total + tin)) as [[s' tot]|e]; [|exact IH].
    destruct IH as (ins & F & T). exists (tin :: ins). rewrite F, <- app_assoc. split; [reflexivity|simpl; lia].
Qed.

(* a split exact-in swap succeeds with [total] iff the message is well-formed, its legs - executed one after the
   other as routed swaps - all succeed, [total] is the sum of their outputs, and that sum is positive and at least
   the caller's minimum *)
Theorem split_in_eq_sum : forall s sender legs dIn minOut s' total,
  split_exact_in P s sender legs dIn minOut = Ok (s', total) <->
  validate_split last_denom (map fst legs) = true /\
  exists outs, fold_left (leg_in_step sender dIn) legs (Ok (s, [])) = Ok (s', outs) /\
               total = zsum outs /\ 0 < total /\ minOut <= total.
Proof.
  intros. unfold split_exact_in.
  pose proof (split_in_loop_fold legs s sender dIn 0 []) as F.
  destruct (validate_split last_denom (map fst legs)); simpl.
  2:{ split; [discriminate|intros [? _]; discriminate]. }
  destruct (split_in_loop P s sender legs dIn 0) as [[s2 tot]|e].
  - destruct F as (outs & F & T). simpl in F. 
    destruct (tot <=? 0) eqn:E1; [|destruct (tot <? minOut) eqn:E2].
    + split; [discriminate|]. intros (_ & outs' & F' & T' & Pz & _). rewrite F in F'. inversion F'; subst.
      apply Z.leb_le in E1. lia.
    + split; [discriminate|]. intros (_ & outs' & F' & T' & _ & Mn). rewrite F in F'. inversion F'; subst.
      apply Z.ltb_lt in E2. lia.
    + apply Z.leb_gt in E1. apply Z.ltb_ge in E2. split.
      * intro H; inversion H; subst. split; [reflexivity|]. exists outs. repeat split; auto; lia.
      * intros (_ & outs' & F' & T' & _ & _). rewrite F in F'. inversion F'; subst. repeat f_equal; try lia.
  - split; [discriminate|]. intros (_ & outs' & F' & _). rewrite F in F'. discriminate.
Qed.

Theorem split_out_eq_sum : forall s sender legs dOut maxIn s' total,
  split_exact_out P s sender legs dOut maxIn = Ok (s', total) <->
  validate_split first_denom (map fst legs) = true /\
  exists ins, fold_left (leg_out_step sender dOut) legs (Ok (s, [])) = Ok (s', ins) /\
              total = zsum ins /\ 0 < total /\ total <= maxIn.
Proof.
  intros. unfold split_exact_out.
  pose proof (split_out_loop_fold legs s sender dOut 0 []) as F.
  destruct (validate_split first_denom (map fst legs)); simpl.
  2:{ split; [discriminate|intros [? _]; discriminate]. }
  destruct (split_out_loop P s sender legs dOut 0) as [[s2 tot]|e].
  - destruct F as (ins & F & T). simpl in F.
    destruct (tot <=? 0) eqn:E1; [|destruct (maxIn <? tot) eqn:E2].
    + split; [discriminate|]. intros (_ & ins' & F' & T' & Pz & _). rewrite F in F'. inversion F'; subst.
      apply Z.leb_le in E1. lia.
    + split; [discriminate|]. intros (_ & ins' & F' & T' & _ & Mx). rewrite F in F'. inversion F'; subst.
      apply Z.ltb_lt in E2. lia.
    + apply Z.leb_gt in E1. apply Z.ltb_ge in E2. split.
      * intro H; inversion H; subst. split; [reflexivity|]. exists ins. repeat split; auto; lia.
      * intros (_ & ins' & F' & T' & _ & _). rewrite F in F'. inversion F'; subst. repeat f_equal; try lia.
  - split; [discriminate|]. intros (_ & ins' & F' & _). rewrite F in F'. discriminate.
Qed.

(* a leg of a split exact-in swap (minimum 0) is the same as a routed swap with minimum 1: outputs are positive *)
Lemma pm_in_min01 : forall s sender pid dIn amt dOut,
  pm_swap_exact_in P s sender pid dIn amt dOut 0 = pm_swap_exact_in P s sender pid dIn amt dOut 1.
Proof.
  intros. unfold pm_swap_exact_in.
  destruct (get_pool P (pools s) pid) as [p|]; [|reflexivity].
  destruct (negb (is_active P p)); [reflexivity|].
  destruct (charge_taker_fee P s sender dIn amt dOut true) as [[s1 [after fee]]|]; [|reflexivity].
  unfold module_swap_exact_in. destruct (dIn =? dOut); [reflexivity|].
  destruct (swap_in P p dIn after dOut (spread_of P p)) as [[p' [tin tout]]|]; [|reflexivity].
  destruct (tout <=? 0) eqn:E; [reflexivity|]. apply Z.leb_gt in E.
  assert (A : tout <? 0 = false) by (apply Z.ltb_ge; lia).
  assert (B : tout <? 1 = false) by (apply Z.ltb_ge; lia).
  rewrite A, B. reflexivity.
Qed.

Lemma loop_in_min01 : forall route s sender dIn amt,
  route_in_loop P s sender route dIn amt 0 = route_in_loop P s sender route dIn amt 1.
Proof.
  induction route as [|[pid dOut] rest IH]; intros; [reflexivity|].
  simpl. destruct rest as [|h2 rest'].
  - rewrite pm_in_min01. reflexivity.
  - destruct (pm_swap_exact_in P s sender pid dIn amt dOut hop_min_out) as [[s1 [o f]]|]; [|reflexivity]. apply IH.
Qed.

Lemma route_in_min01 : forall route s sender dIn amt,
  route_exact_in P s sender route dIn amt 0 = route_exact_in P s sender route dIn amt 1.
Proof. intros. unfold route_exact_in. rewrite loop_in_min01. reflexivity. Qed.

(* ------------------------------------------------------------------ messages *)
Lemma step_err_unchanged : forall s m s' e, step P s m = (s', Err e) -> s' = s.
Proof. unfold step; intros. destruct (handle P s m) as [[s1 r]|e1]; inversion H; reflexivity. Qed.

Lemma step_ok : forall s m s' r, step P s m = (s', Ok r) -> handle P s m = Ok (s', r).
Proof. unfold step; intros. destruct (handle P s m) as [[s1 r1]|e1]; inversion H; reflexivity. Qed.

(* multi-hop exact-in message = the single-hop message for the first hop (minimum 1), then the message for the
   rest of the route with the first hop's output as its input *)
Lemma handle_swap_in : forall s sender route dIn amt minOut,
  handle P s (MSwapIn sender route dIn amt minOut) =
  if negb (match route with [] => true | _ => false end) && (0 <? amt) && (0 <? minOut)
  then route_exact_in P s sender route dIn amt minOut else Err EInvalid.
Proof.
  intros. unfold handle, validate_basic.
  destruct (negb (match route with [] => true | _ => false end) && (0 <? amt) && (0 <? minOut)); reflexivity.
Qed.

Theorem swap_in_msg_compose : forall s sender h rest dIn amt minOut, rest <> [] -> 0 < minOut ->
  (* the taker-fee share agreements let the whole route and its two parts through (see C05_compose_skim_refuted) *)
  skim_ok P s (dIn :: map snd (h :: rest)) = true -> skim_ok P s [dIn; snd h] = true ->
  skim_ok P s (snd h :: map snd rest) = true ->
  handle P s (MSwapIn sender (h :: rest) dIn amt minOut) =
  match handle P s (MSwapIn sender [h] dIn amt hop_min_out) with
  | Err e => Err e
  | Ok (s1, out) => handle P s1 (MSwapIn sender rest (snd h) out minOut)
  end.
Proof.
  intros s sender h rest dIn amt minOut NE Pm K0 K1 K2. rewrite !handle_swap_in.
  assert (M : 0 <? minOut = true) by (apply Z.ltb_lt; assumption). rewrite M.
  change (0 <? hop_min_out) with true. cbn [negb andb].
  destruct (0 <? amt) eqn:A; cbn [andb]; [|reflexivity].
  unfold route_exact_in at 1 2. rewrite loop_in_cons by assumption.
  destruct (route_in_loop P s sender [h] dIn amt hop_min_out) as [[s1 out]|] eqn:E; [|reflexivity].
  pose proof (loop_in_skim _ _ _ _ _ _ _ _ E) as SK1.
  cbn [map]. rewrite (skim_ok_ext s s1 _ SK1), K1.
  apply loop_in_min_out in E. destruct E as [_ Pz].
  rewrite handle_swap_in, M.
  assert (O : 0 <? out = true) by (apply Z.ltb_lt; assumption). rewrite O.
  assert (NB : negb (match rest with [] => true | _ :: _ => false end) = true) by (destruct rest; [congruence|reflexivity]).
  rewrite NB. cbn [andb]. unfold route_exact_in.
  destruct (route_in_loop P s1 sender rest (snd h) out minOut) as [[s2 o2]|] eqn:E2; [|reflexivity].
  pose proof (loop_in_skim _ _ _ _ _ _ _ _ E2) as SK2.
  assert (SK : skim s2 = skim s) by congruence.
  cbn [map] in K0. rewrite !(skim_ok_ext s s2 _ SK), K0, K2. reflexivity.
Qed.

(* ------------------------------------------------------------------ exact-out: one hop *)
Lemma route_out_loop_inv : forall first s sender pid dIn rest maxIn ins_rest dOutF amtF s' t,
  route_out_loop P first s sender ((pid, dIn) :: rest) (maxIn :: ins_rest) dOutF amtF = Ok (s', t) ->
  exists p s1 cur s2 fee,
    get_pool P (pools s) pid = Some p /\ is_active P p = true /\
    module_swap_exact_out P s sender pid p dIn maxIn (fst (next_out rest ins_rest dOutF amtF))
                          (snd (next_out rest ins_rest dOutF amtF)) (spread_of P p) = Ok (s1, cur) /\
    charge_taker_fee P s1 sender dIn cur (fst (next_out rest ins_rest dOutF amtF)) false = Ok (s2, (t, fee)) /\
    (first = true -> t <= maxIn) /\
    match rest with
    | [] => s' = s2
    | _ => exists t', route_out_loop P false s2 sender rest ins_rest dOutF amtF = Ok (s', t')
    end.
Proof.
  intros until t. intro H. cbn [route_out_loop] in H.
  destruct (next_out rest ins_rest dOutF amtF) as [dOut amtOut] eqn:N. simpl fst; simpl snd.
  destruct (get_pool P (pools s) pid) as [p|]; [|discriminate].
  destruct (is_active P p) eqn:A; simpl in H; [|discriminate].
  destruct (module_swap_exact_out P s sender pid p dIn maxIn dOut amtOut (spread_of P p)) as [[s1 cur]|] eqn:M; [|discriminate].
  destruct (charge_taker_fee P s1 sender dIn cur dOut false) as [[s2 [after fee]]|] eqn:C; [|discriminate].
  destruct (first && (maxIn <? after)) eqn:F; [discriminate|].
  assert (FL : first = true -> after <= maxIn).
  { intro; subst first. simpl in F. apply Z.ltb_ge in F. assumption. }
  destruct rest as [|h2 rest'].
  - inversion H; subst. exists p, s1, cur, s', fee. repeat split; auto.
  - destruct (route_out_loop P false s2 sender (h2 :: rest') ins_rest dOutF amtF) as [[s3 t']|] eqn:R; [|discriminate].
    inversion H; subst. exists p, s1, cur, s2, fee. repeat split; auto. exists t'. exact R.
Qed.

(* ------------------------------------------------------------------ limits: exact-out (after the repair of C05-F1) *)
Lemma expected_ins_length : forall route s dOutF amtF s1 ins,
  expected_ins P s route dOutF amtF = (s1, Ok ins) -> length ins = length route.
Proof.
  induction route as [|[pid dIn] rest IH]; intros; cbn [expected_ins] in H.
  - inversion H; reflexivity.
  - destruct (expected_ins P s rest dOutF amtF) as [s0 [ins_rest|e]] eqn:E; [|discriminate].
    destruct (next_out rest ins_rest dOutF amtF) as [dOut amtOut].
    destruct (get_pool P (pools s0) pid) as [p|]; [|discriminate].
    destruct (calc_in P p dOut amtOut dIn (spread_of P p)) as [p' [tin|e]]; [|discriminate].
    destruct (calc_fee_out tin (taker_fee s0 dIn dOut)) as [[after fee]|]; [|discriminate].
    inversion H; subst. cbn [length]. f_equal. eapply IH; eauto.
Qed.

(* RouteExactAmountOut = the backward estimate, the forward loop, then the TakerFeeSkim validation *)
Lemma route_out_ok : forall route s sender maxIn dOutF amtF s' t,
  route_exact_out P s sender route maxIn dOutF amtF = Ok (s', t) ->
  exists s1 a0 t0, route <> [] /\ expected_ins P s route dOutF amtF = (s1, Ok (a0 :: t0)) /\
    route_out_loop P true s1 sender route (maxIn :: t0) dOutF amtF = Ok (s', t) /\
    skim_ok P s' (dOutF :: map snd route) = true.
Proof.
  intros. unfold route_exact_out in H. destruct route as [|h rest]; [discriminate|].
  destruct (expected_ins P s (h :: rest) dOutF amtF) as [s1 [ins|e]] eqn:E; [|discriminate].
  pose proof (expected_ins_length _ _ _ _ _ _ E) as Len.
  destruct ins as [|a0 t0]; [cbn [length] in Len; discriminate|].
  destruct (route_out_loop P true s1 sender (h :: rest) (maxIn :: t0) dOutF amtF) as [[s2 t2]|] eqn:LP; [|discriminate].
  destruct (skim_ok P s2 (dOutF :: map snd (h :: rest))) eqn:K; [|discriminate].
  inversion H; subst. exists s1, a0, t0. repeat split; auto. discriminate.
Qed.

Theorem route_out_max_in : forall route s sender maxIn dOutF amtF s' t,
  route_exact_out P s sender route maxIn dOutF amtF = Ok (s', t) -> t <= maxIn.
Proof.
  intros. apply route_out_ok in H. destruct H as (s1 & a0 & t0 & NE & _ & H & _).
  destruct route as [|[pid dIn] rest]; [congruence|].
  apply route_out_loop_inv in H. destruct H as (p & s2 & cur & s3 & fee & _ & _ & _ & _ & F & _). auto.
Qed.

(* every message: success respects the caller's limit; failure leaves the state unchanged *)
Theorem step_limits : forall s m s' r, step P s m = (s', r) ->
  match r with
  | Ok v => match m with
            | MSwapIn _ _ _ _ minOut => minOut <= v
            | MSwapOut _ _ maxIn _ _ => v <= maxIn
            | MSplitIn _ _ _ minOut => minOut <= v
            | MSplitOut _ _ _ maxIn => v <= maxIn
            end
  | Err _ => s' = s
  end.
Proof.
  intros. destruct r as [v|e]; [|eapply step_err_unchanged; eauto].
  apply step_ok in H. unfold handle in H. destruct (negb (validate_basic m)); [discriminate|].
  destruct m.
  - apply route_in_min_out in H. tauto.
  - eapply route_out_max_in; eauto.
  - apply split_in_eq_sum in H. destruct H as (_ & outs & _ & _ & _ & ?). assumption.
  - apply split_out_eq_sum in H. destruct H as (_ & ins & _ & _ & _ & ?). assumption.
Qed.

(* ------------------------------------------------------------------ an induction principle for router invariants *)
(* Any state predicate preserved by the two kinds of hop (exact-in: taker fee then swap; exact-out: swap then taker
   fee) and by the state-threading of the backward estimate is preserved by every successful message of [sender].
   Used by C02 to lift bank / pool-record invariants from single hops to routes, split routes and messages. *)
Section Principle.
Variable I : state P -> Prop.
Variable sender : acct.
Hypothesis I_in : forall s pid dIn amt dOut m s' r,
  I s -> pm_swap_exact_in P s sender pid dIn amt dOut m = Ok (s', r) -> I s'.
Hypothesis I_out : forall first s pid dIn maxIn dOut amtOut s' t,
  I s -> out_hop first s sender pid dIn maxIn dOut amtOut = Ok (s', t) -> I s'.
Hypothesis I_est : forall s route dOutF amtF, I s -> I (fst (expected_ins P s route dOutF amtF)).

Lemma loop_in_preserves : forall route s dIn amt minOut s' out,
  I s -> route_in_loop P s sender route dIn amt minOut = Ok (s', out) -> I s'.
Proof.
  induction route as [|[pid dOut] rest IH]; intros; cbn [route_in_loop] in H0; [discriminate|].
  destruct (pm_swap_exact_in P s sender pid dIn amt dOut (match rest with [] => minOut | _ :: _ => hop_min_out end)) as [[s1 [o f]]|] eqn:E; [|discriminate].
  apply I_in in E; [|assumption].
  destruct rest as [|h2 rest']; [inversion H0; subst; assumption|]. eapply IH; eauto.
Qed.

Lemma route_in_preserves : forall route s dIn amt minOut s' out,
  I s -> route_exact_in P s sender route dIn amt minOut = Ok (s', out) -> I s'.
Proof. intros. apply route_in_ok in H0. destruct H0 as [H0 _]. eapply loop_in_preserves; eauto. Qed.

Lemma route_out_loop_preserves : forall route first s ins dOutF amtF s' t,
  I s -> route_out_loop P first s sender route ins dOutF amtF = Ok (s', t) -> I s'.
Proof.
  induction route as [|[pid dIn] rest IH]; intros first s ins dOutF amtF s' t Is H; [destruct ins; discriminate|].
  destruct ins as [|m ins_rest]; [discriminate|].
  rewrite route_out_loop_step in H.
  destruct (out_hop first s sender pid dIn m (fst (next_out rest ins_rest dOutF amtF)) (snd (next_out rest ins_rest dOutF amtF))) as [[s2 after]|] eqn:E; [|discriminate].
  apply I_out in E; [|assumption].
  destruct rest as [|h2 rest']; [inversion H; subst; assumption|].
  destruct (route_out_loop P false s2 sender (h2 :: rest') ins_rest dOutF amtF) as [[s3 t']|] eqn:R; [|discriminate].
  inversion H; subst. eapply IH; eauto.
Qed.

Lemma route_out_preserves : forall route s maxIn dOutF amtF s' t,
  I s -> route_exact_out P s sender route maxIn dOutF amtF = Ok (s', t) -> I s'.
Proof.
  intros. apply route_out_ok in H0. destruct H0 as (s1 & a0 & t0 & _ & E & LP & _).
  pose proof (I_est s route dOutF amtF H) as IE. rewrite E in IE. cbn [fst] in IE.
  eapply route_out_loop_preserves; eauto.
Qed.

Lemma split_in_loop_preserves : forall legs s dIn total s' tot,
  I s -> split_in_loop P s sender legs dIn total = Ok (s', tot) -> I s'.
Proof.
  induction legs as [|[r amt] rest IH]; intros; cbn [split_in_loop] in H0; [inversion H0; subst; assumption|].
  destruct (amt <? 0); [discriminate|].
  destruct (route_exact_in P s sender r dIn amt split_leg_min) as [[s1 out]|] eqn:E; [|discriminate].
  eapply IH; [|eassumption]. eapply route_in_preserves; eauto.
Qed.

Lemma split_out_loop_preserves : forall legs s dOut total s' tot,
  I s -> split_out_loop P s sender legs dOut total = Ok (s', tot) -> I s'.
Proof.
  induction legs as [|[r amt] rest IH]; intros; cbn [split_out_loop] in H0; [inversion H0; subst; assumption|].
  destruct (amt <? 0); [discriminate|].
  destruct (route_exact_out P s sender r int_max_value dOut amt) as [[s1 tin]|] eqn:E; [|discriminate].
  eapply IH; [|eassumption]. eapply route_out_preserves; eauto.
Qed.

Definition msg_sender (m : msg) : acct :=
  match m with MSwapIn a _ _ _ _ | MSwapOut a _ _ _ _ | MSplitIn a _ _ _ | MSplitOut a _ _ _ => a end.

Theorem handle_preserves : forall s m s' v, msg_sender m = sender ->
  I s -> handle P s m = Ok (s', v) -> I s'.
Proof.
  intros s m s' v Hs Is H. unfold handle in H. destruct (negb (validate_basic m)); [discriminate|].
  destruct m; cbn [msg_sender] in Hs; subst.
  - eapply route_in_preserves; eauto.
  - eapply route_out_preserves; eauto.
  - unfold split_exact_in in H. destruct (negb (validate_split last_denom (map fst legs))); [discriminate|].
    destruct (split_in_loop P s sender legs dIn 0) as [[s1 tot]|] eqn:E; [|discriminate].
    destruct (tot <=? 0); [discriminate|]. destruct (tot <? minOut); [discriminate|].
    inversion H; subst. eapply split_in_loop_preserves; eauto.
  - unfold split_exact_out in H. destruct (negb (validate_split first_denom (map fst legs))); [discriminate|].
    destruct (split_out_loop P s sender legs dOut 0) as [[s1 tot]|] eqn:E; [|discriminate].
    destruct (tot <=? 0); [discriminate|]. destruct (maxIn <? tot); [discriminate|].
    inversion H; subst. eapply split_out_loop_preserves; eauto.
Qed.
End Principle.

(* ------------------------------------------------------------------ the reported amounts are the amounts moved *)
Lemma trader_at : forall n a x d, at_ (Trader n) a x d = match a with Trader k => (n =? k) && (x =? d) | _ => false end.
Proof. intros. unfold at_. destruct a; reflexivity. Qed.

(* one exact-in hop, seen from the trader's balances *)
Lemma pm_in_sender_bal : forall s n pid dIn amt dOut m s' out fee,
  pm_swap_exact_in P s (Trader n) pid dIn amt dOut m = Ok (s', (out, fee)) ->
  dIn <> dOut /\ exists paid, 0 < paid /\
  forall x, bal s' (Trader n) x = bal s (Trader n) x - ind (x =? dIn) paid + ind (x =? dOut) out.
Proof.
  intros s n pid dIn amt dOut m s' out fee H.
  apply pm_in_inv in H. destruct H as (p & s1 & after & _ & _ & C & Md).
  apply module_in_inv in Md. destruct Md as (p' & tin & _ & _ & _ & Hne & St).
  apply settle_inv in St. destruct St as (_ & _ & _ & b1 & Sa & Sb).
  apply send_raw_spec in Sa. destruct Sa as (Ptin & _ & Sa).
  apply send_raw_spec in Sb. destruct Sb as (_ & _ & Sb).
  pose proof (charge_inv _ _ _ _ _ _ _ _ _ C) as (_ & _ & _ & CW & CN).
  assert (Fee : 0 <= fee /\ forall x, bal s1 (Trader n) x = bal s (Trader n) x - ind (x =? dIn) fee).
  { destruct (whitelisted s (Trader n)) eqn:W.
    - destruct (CW eq_refl) as (E & _ & E3). subst. split; [lia|]. intros. unfold ind. destruct (x =? dIn); lia.
    - destruct (CN eq_refl) as (_ & S). apply send_new_spec in S. destruct S as (Pz & S). split; [assumption|].
      intros. rewrite S, !trader_at. rewrite Z.eqb_refl. cbn [andb]. unfold ind. destruct (x =? dIn); lia. }
  destruct Fee as (Pf & S1). split; [assumption|]. exists (fee + tin). split; [lia|].
  intros. rewrite Sb, Sa, S1, !trader_at. rewrite Z.eqb_refl. cbn [andb]. unfold ind.
  destruct (x =? dIn), (x =? dOut); lia.
Qed.

Lemma last_denom_cons : forall h h2 rest, last_denom (h :: h2 :: rest) = last_denom (h2 :: rest).
Proof. reflexivity. Qed.

Lemma last_denom_in : forall route, route <> [] -> In (last_denom route) (map snd route).
Proof.
  induction route as [|h rest IH]; intros; [congruence|]. destruct rest as [|h2 rest'].
  - left. reflexivity.
  - rewrite last_denom_cons. right. apply IH. discriminate.
Qed.

Lemma loop_in_delivers : forall route s n dIn amt minOut s' out,
  NoDup (dIn :: map snd route) ->
  route_in_loop P s (Trader n) route dIn amt minOut = Ok (s', out) ->
  (forall x, ~ In x (dIn :: map snd route) -> bal s' (Trader n) x = bal s (Trader n) x) /\
  bal s' (Trader n) (last_denom route) = bal s (Trader n) (last_denom route) + out.
Proof.
  induction route as [|[pid dOut] rest IH]; intros s n dIn amt minOut s' out ND H; cbn [route_in_loop] in H; [discriminate|].
  destruct (pm_swap_exact_in P s (Trader n) pid dIn amt dOut (match rest with [] => minOut | _ :: _ => hop_min_out end)) as [[s1 [o f]]|] eqn:E; [|discriminate].
  apply pm_in_sender_bal in E. destruct E as (Hne & paid & _ & S1).
  cbn [map snd] in ND. inversion ND as [|? ? N1 ND1]; subst.
  destruct rest as [|h2 rest'].
  - inversion H; subst. split.
    + intros x Hx. rewrite S1. cbn [map snd In] in Hx.
      assert (X1 : x =? dIn = false) by (apply Z.eqb_neq; intro; subst; tauto).
      assert (X2 : x =? dOut = false) by (apply Z.eqb_neq; intro; subst; tauto).
      rewrite X1, X2. unfold ind. lia.
    + unfold last_denom; cbn [last snd]. rewrite S1. rewrite Z.eqb_refl.
      assert (X1 : dOut =? dIn = false) by (apply Z.eqb_neq; congruence). rewrite X1. unfold ind. lia.
  - apply IH in H; [|exact ND1]. destruct H as (F2 & D2).
    pose proof (last_denom_in (h2 :: rest') ltac:(discriminate)) as LI.
    inversion ND1 as [|? ? N2 ND2]; subst.
    split.
    + intros x Hx. rewrite F2.
      * rewrite S1.
        assert (X1 : x =? dIn = false) by (apply Z.eqb_neq; intro; subst; apply Hx; left; reflexivity).
        assert (X2 : x =? dOut = false) by (apply Z.eqb_neq; intro; subst; apply Hx; right; left; reflexivity).
        rewrite X1, X2. unfold ind. lia.
      * intro Hin. apply Hx. right. exact Hin.
    + rewrite last_denom_cons, D2, S1.
      assert (X1 : last_denom (h2 :: rest') =? dIn = false).
      { apply Z.eqb_neq. intro E. apply N1. rewrite <- E. right. exact LI. }
      assert (X2 : last_denom (h2 :: rest') =? dOut = false).
      { apply Z.eqb_neq. intro E. apply N2. rewrite <- E. exact LI. }
      rewrite X1, X2. unfold ind. lia.
Qed.

(* a routed exact-in swap over pairwise different denoms delivers to the trader exactly the amount it reports *)
Theorem route_in_delivers : forall route s n dIn amt minOut s' out,
  NoDup (dIn :: map snd route) ->
  route_exact_in P s (Trader n) route dIn amt minOut = Ok (s', out) ->
  bal s' (Trader n) (last_denom route) = bal s (Trader n) (last_denom route) + out.
Proof. intros. apply route_in_ok in H0. destruct H0 as [H0 _]. eapply loop_in_delivers; eauto. Qed.

Lemma calc_fee_out_fee : forall amt f a fee, calc_fee_out amt f = Ok (a, fee) -> fee = a - amt.
Proof.
  unfold calc_fee_out; intros. destruct (P18 - f =? 0); [discriminate|].
  remember (d_truncate_int (d_ceil (d_quo (d_from_int amt) (P18 - f)))) as v. inversion H. reflexivity.
Qed.

(* one exact-out hop, seen from the trader's balances: it pays the reported total, it receives the out-coin *)
Lemma out_hop_sender_bal : forall first s n pid dIn maxIn dOut amtOut s' t,
  out_hop first s (Trader n) pid dIn maxIn dOut amtOut = Ok (s', t) ->
  dIn <> dOut /\ exists got, 0 < got /\
  forall x, bal s' (Trader n) x = bal s (Trader n) x - ind (x =? dIn) t + ind (x =? dOut) got.
Proof.
  intros first s n pid dIn maxIn dOut amtOut s' t H. unfold out_hop in H.
  destruct (get_pool P (pools s) pid) as [p|]; [|discriminate].
  destruct (negb (is_active P p)); [discriminate|].
  destruct (module_swap_exact_out P s (Trader n) pid p dIn maxIn dOut amtOut (spread_of P p)) as [[s1 cur]|] eqn:Md; [|discriminate].
  destruct (charge_taker_fee P s1 (Trader n) dIn cur dOut false) as [[s2 [after fee]]|] eqn:C; [|discriminate].
  destruct (first && (maxIn <? after)); [discriminate|]. inversion H; subst s2 after; clear H.
  apply module_out_inv in Md. destruct Md as (p' & tout & _ & _ & _ & Hne & St).
  apply settle_inv in St. destruct St as (_ & _ & _ & b1 & Sa & Sb).
  apply send_raw_spec in Sa. destruct Sa as (_ & _ & Sa).
  apply send_raw_spec in Sb. destruct Sb as (Pout & _ & Sb).
  pose proof (charge_inv _ _ _ _ _ _ _ _ _ C) as (_ & _ & _ & CW & CN).
  assert (Fee : forall x, bal s' (Trader n) x = bal s1 (Trader n) x - ind (x =? dIn) (t - cur)).
  { destruct (whitelisted s1 (Trader n)) eqn:W.
    - destruct (CW eq_refl) as (E & E2 & _). subst. intros. unfold ind. destruct (x =? dIn); lia.
    - destruct (CN eq_refl) as (CF & S). apply calc_fee_out_fee in CF. subst fee.
      apply send_new_spec in S. destruct S as (_ & S).
      intros. rewrite S, !trader_at. rewrite Z.eqb_refl. cbn [andb]. unfold ind. destruct (x =? dIn); lia. }
  split; [assumption|]. exists tout. split; [assumption|].
  intros. rewrite Fee, Sb, Sa, !trader_at. rewrite Z.eqb_refl. cbn [andb]. unfold ind.
  destruct (x =? dIn), (x =? dOut); lia.
Qed.

Lemma expected_ins_bal : forall route s dOutF amtF, bal (fst (expected_ins P s route dOutF amtF)) = bal s.
Proof.
  induction route as [|[pid dIn] rest IH]; intros; cbn [expected_ins]; [reflexivity|].
  specialize (IH s dOutF amtF).
  destruct (expected_ins P s rest dOutF amtF) as [s1 [ins_rest|e]]; cbn [fst] in *; [|assumption].
  destruct (next_out rest ins_rest dOutF amtF) as [dOut amtOut].
  destruct (get_pool P (pools s1) pid) as [p|]; [|assumption].
  destruct (calc_in P p dOut amtOut dIn (spread_of P p)) as [p' [tin|e]]; [|assumption].
  destruct (calc_fee_out tin (taker_fee s1 dIn dOut)) as [[after fee]|]; assumption.
Qed.

Lemma next_out_in : forall rest ins_rest dOutF amtF,
  In (fst (next_out rest ins_rest dOutF amtF)) (map snd rest ++ [dOutF]).
Proof.
  intros. destruct rest as [|[p d] r]; [left; reflexivity|]. destruct ins_rest as [|a t].
  - cbn [next_out fst]. apply in_or_app. right. left. reflexivity.
  - left. reflexivity.
Qed.

Lemma loop_out_charges : forall route first s n ins dOutF amtF s' t,
  NoDup (map snd route ++ [dOutF]) ->
  route_out_loop P first s (Trader n) route ins dOutF amtF = Ok (s', t) ->
  (forall x, ~ In x (map snd route ++ [dOutF]) -> bal s' (Trader n) x = bal s (Trader n) x) /\
  bal s' (Trader n) (first_denom route) = bal s (Trader n) (first_denom route) - t.
Proof.
  induction route as [|[pid dIn] rest IH]; intros first s n ins dOutF amtF s' t ND H; [destruct ins; discriminate|].
  destruct ins as [|m ins_rest]; [discriminate|].
  rewrite route_out_loop_step in H.
  pose proof (next_out_in rest ins_rest dOutF amtF) as NI.
  destruct (out_hop first s (Trader n) pid dIn m (fst (next_out rest ins_rest dOutF amtF)) (snd (next_out rest ins_rest dOutF amtF))) as [[s2 after]|] eqn:E; [|discriminate].
  apply out_hop_sender_bal in E. destruct E as (Hne & got & _ & S1).
  set (dO := fst (next_out rest ins_rest dOutF amtF)) in *.
  cbn [map snd app] in ND. inversion ND as [|? ? N1 ND1]; subst.
  assert (HopFrame : forall x, x <> dIn -> ~ In x (map snd rest ++ [dOutF]) -> bal s2 (Trader n) x = bal s (Trader n) x).
  { intros x X1 X2. rewrite S1. assert (A : x =? dIn = false) by (apply Z.eqb_neq; assumption).
    assert (B : x =? dO = false) by (apply Z.eqb_neq; intro; subst x; contradiction). rewrite A, B. unfold ind. lia. }
  assert (HopFirst : bal s2 (Trader n) dIn = bal s (Trader n) dIn - after).
  { rewrite S1. rewrite Z.eqb_refl. assert (B : dIn =? dO = false) by (apply Z.eqb_neq; assumption). rewrite B. unfold ind. lia. }
  destruct rest as [|h2 rest'].
  - inversion H; subst. split.
    + intros x Hx. apply HopFrame; [intro; subst; apply Hx; left; reflexivity|intro Hi; apply Hx; right; exact Hi].
    + exact HopFirst.
  - destruct (route_out_loop P false s2 (Trader n) (h2 :: rest') ins_rest dOutF amtF) as [[s3 t']|] eqn:R; [|discriminate].
    inversion H; subst s3 after; clear H.
    apply IH in R; [|exact ND1]. destruct R as (F2 & _).
    split.
    + intros x Hx. rewrite F2 by (intro Hi; apply Hx; right; exact Hi).
      apply HopFrame; [intro; subst; apply Hx; left; reflexivity|intro Hi; apply Hx; right; exact Hi].
    + cbn [first_denom snd]. rewrite F2 by exact N1. exact HopFirst.
Qed.

(* a routed exact-out swap over pairwise different denoms takes from the trader exactly the amount it reports *)
Theorem route_out_charges : forall route s n maxIn dOutF amtF s' t,
  NoDup (map snd route ++ [dOutF]) ->
  route_exact_out P s (Trader n) route maxIn dOutF amtF = Ok (s', t) ->
  bal s' (Trader n) (first_denom route) = bal s (Trader n) (first_denom route) - t.
Proof.
  intros. apply route_out_ok in H0. destruct H0 as (s1 & a0 & t0 & _ & E & LP & _).
  pose proof (expected_ins_bal route s dOutF amtF) as B. rewrite E in B. cbn [fst] in B.
  apply loop_out_charges in LP; [|assumption]. destruct LP as (_ & D). rewrite B in D. exact D.
Qed.

(* ================================================================== with the two pool laws *)
Hypothesis L : PoolLaws P.

(* ------------------------------------------------------------------ estimates leave the state unchanged *)
(* the value an estimate returns, without the state threading *)
Fixpoint est_in_val (s : state P) (route : list (Z * Z)) (dIn amt : Z) : result Z :=
  match route with
  | [] => Ok amt
  | (pid, dOut) :: rest =>
    match get_pool P (pools s) pid with
    | None => Err ENoPool
    | Some p =>
      match snd (calc_out P p dIn (fst (calc_fee_in amt (taker_fee s dIn dOut))) dOut (spread_of P p)) with
      | Err e => Err e
      | Ok out => if out <=? 0 then Err EPool else est_in_val s rest dOut out
      end
    end
  end.

Lemma est_in_loop_val : forall route s dIn amt, est_in_loop P s route dIn amt = (s, est_in_val s route dIn amt).
Proof.
  induction route as [|[pid dOut] rest IH]; intros; cbn [est_in_loop est_in_val]; [reflexivity|].
  destruct (get_pool P (pools s) pid) as [p|] eqn:G; [|reflexivity].
  pose proof (law_calc_out_pure P L p dIn (fst (calc_fee_in amt (taker_fee s dIn dOut))) dOut (spread_of P p)) as Hp.
  destruct (calc_out P p dIn (fst (calc_fee_in amt (taker_fee s dIn dOut))) dOut (spread_of P p)) as [p' r] eqn:E.
  cbn [fst] in Hp; subst p'. cbn [snd]. rewrite set_pool_same by assumption.
  destruct r as [out|e]; [|reflexivity].
  destruct (out <=? 0); [reflexivity|]. apply IH.
Qed.

Theorem estimate_in_pure : forall route s dIn amt, fst (estimate_in P s route dIn amt) = s.
Proof.
  intros. unfold estimate_in. destruct route; [reflexivity|]. rewrite est_in_loop_val. reflexivity.
Qed.

(* the estimate only reads the pools on the route and the taker-fee table *)
Lemma est_in_val_agree : forall route s s2 dIn amt,
  (forall q, In q (map fst route) -> get_pool P (pools s2) q = get_pool P (pools s) q) ->
  taker_fee s2 = taker_fee s ->
  est_in_val s2 route dIn amt = est_in_val s route dIn amt.
Proof.
  induction route as [|[pid dOut] rest IH]; intros; cbn [est_in_val]; [reflexivity|].
  rewrite H by (cbn [map fst In]; auto). rewrite H0.
  destruct (get_pool P (pools s) pid) as [p|]; [|reflexivity].
  destruct (snd (calc_out P p dIn (fst (calc_fee_in amt (taker_fee s dIn dOut))) dOut (spread_of P p))) as [out|]; [|reflexivity].
  destruct (out <=? 0); [reflexivity|].
  apply IH; [|assumption]. intros; apply H; cbn [map fst In]; auto.
Qed.

(* ------------------------------------------------------------------ estimate = execution, exact-in *)
Lemma est_in_eq_exec : forall route s sender dIn amt minOut s' out,
  NoDup (map fst route) -> fee_neutral s sender ->
  route_in_loop P s sender route dIn amt minOut = Ok (s', out) ->
  est_in_val s route dIn amt = Ok out.
Proof.
  induction route as [|[pid dOut] rest IH]; intros s sender dIn amt minOut s' out ND W H; [discriminate|].
  cbn [route_in_loop] in H.
  destruct (pm_swap_exact_in P s sender pid dIn amt dOut (match rest with [] => minOut | _ :: _ => hop_min_out end)) as [[s1 [o f]]|] eqn:E; [|discriminate].
  pose proof (pm_in_frame _ _ _ _ _ _ _ _ _ _ E) as (F1 & F2 & F3).
  apply pm_in_inv in E. destruct E as (p & s0 & after & G & A & C & M).
  apply (charge_after_in _ _ _ _ _ _ _ _ W) in C. subst after.
  apply module_in_inv in M. destruct M as (p' & tin & SW & Pos & _ & _ & _).
  apply (law_calc_out_swap P L) in SW.
  cbn [est_in_val]. rewrite G, SW.
  destruct (o <=? 0) eqn:E0; [apply Z.leb_le in E0; lia|].
  inversion ND; subst.
  destruct rest as [|h2 rest'].
  - inversion H; subst. reflexivity.
  - rewrite <- (est_in_val_agree (h2 :: rest') s s1) by (auto; intros q Hq; apply F3; intro; subst; contradiction).
    eapply IH; eauto. unfold fee_neutral in *. rewrite F1, F2; assumption.
Qed.

Theorem estimate_in_eq_execute : forall route s sender dIn amt minOut s' out,
  NoDup (map fst route) -> fee_neutral s sender ->
  route_exact_in P s sender route dIn amt minOut = Ok (s', out) ->
  estimate_in P s route dIn amt = (s, Ok out).
Proof.
  intros. apply route_in_ok in H1. destruct H1 as [H1 _].
  unfold estimate_in. destruct route as [|h r]; [discriminate|].
  rewrite est_in_loop_val. f_equal. eapply est_in_eq_exec; eauto.
Qed.

(* ------------------------------------------------------------------ exact-out: the expected inputs *)
Fixpoint exp_ins_val (s : state P) (route : list (Z * Z)) (dOutF amtF : Z) : result (list Z) :=
  match route with
  | [] => Ok []
  | (pid, dIn) :: rest =>
    match exp_ins_val s rest dOutF amtF with
    | Err e => Err e
    | Ok ins_rest =>
      let '(dOut, amtOut) := next_out rest ins_rest dOutF amtF in
      match get_pool P (pools s) pid with
      | None => Err ENoPool
      | Some p =>
        match snd (calc_in P p dOut amtOut dIn (spread_of P p)) with
        | Err e => Err e
        | Ok tin =>
          match calc_fee_out tin (taker_fee s dIn dOut) with
          | Err e => Err e
          | Ok (after, _) => Ok (after :: ins_rest)
          end
        end
      end
    end
  end.

Lemma expected_ins_val : forall route s dOutF amtF,
  expected_ins P s route dOutF amtF = (s, exp_ins_val s route dOutF amtF).
Proof.
  induction route as [|[pid dIn] rest IH]; intros; cbn [expected_ins exp_ins_val]; [reflexivity|].
  rewrite IH. destruct (exp_ins_val s rest dOutF amtF) as [ins_rest|e]; [|reflexivity].
  destruct (next_out rest ins_rest dOutF amtF) as [dOut amtOut].
  destruct (get_pool P (pools s) pid) as [p|] eqn:G; [|reflexivity].
  pose proof (law_calc_in_pure P L p dOut amtOut dIn (spread_of P p)) as Hp.
  destruct (calc_in P p dOut amtOut dIn (spread_of P p)) as [p' r] eqn:E.
  cbn [fst] in Hp; subst p'. cbn [snd]. rewrite set_pool_same by assumption.
  destruct r as [tin|e]; [|reflexivity].
  destruct (calc_fee_out tin (taker_fee s dIn dOut)) as [[after fee]|]; reflexivity.
Qed.

Theorem estimate_out_pure : forall route s dOutF amtF, fst (estimate_out P s route dOutF amtF) = s.
Proof.
  intros. unfold estimate_out. destruct route; [reflexivity|]. rewrite expected_ins_val.
  destruct (exp_ins_val s (p :: route) dOutF amtF); reflexivity.
Qed.

Lemma exp_ins_length : forall route s dOutF amtF ins,
  exp_ins_val s route dOutF amtF = Ok ins -> length ins = length route.
Proof.
  induction route as [|[pid dIn] rest IH]; intros; cbn [exp_ins_val] in H.
  - inversion H; reflexivity.
  - destruct (exp_ins_val s rest dOutF amtF) as [ins_rest|] eqn:E; [|discriminate].
    destruct (next_out rest ins_rest dOutF amtF) as [dOut amtOut].
    destruct (get_pool P (pools s) pid) as [p|]; [|discriminate].
    destruct (snd (calc_in P p dOut amtOut dIn (spread_of P p))) as [tin|]; [|discriminate].
    destruct (calc_fee_out tin (taker_fee s dIn dOut)) as [[after fee]|]; [|discriminate].
    inversion H; subst. cbn [length]. f_equal. eapply IH; eauto.
Qed.

(* ------------------------------------------------------------------ estimate = execution, exact-out.
   No "each pool at most once" hypothesis is needed here: the amount charged is fixed by the FIRST executed hop,
   which runs on the very state the estimate was made on. *)
Theorem estimate_out_eq_execute : forall route s sender maxIn dOutF amtF s' t,
  fee_neutral s sender ->
  route_exact_out P s sender route maxIn dOutF amtF = Ok (s', t) ->
  estimate_out P s route dOutF amtF = (s, Ok t).
Proof.
  intros until t. intros W H. apply route_out_ok in H. destruct H as (s1' & a0 & t0 & NE & EI & H & _).
  unfold estimate_out. destruct route as [|[pid dIn] rest]; [congruence|].
  rewrite expected_ins_val in *.
  destruct (exp_ins_val s ((pid, dIn) :: rest) dOutF amtF) as [ins|] eqn:E; [|inversion EI].
  inversion EI; subst s1' ins; clear EI.
  cbn [hd]. f_equal. f_equal.
  (* what the estimate computed for the first hop *)
  cbn [exp_ins_val] in E.
  destruct (exp_ins_val s rest dOutF amtF) as [ins_rest|] eqn:ER; [|discriminate].
  destruct (next_out rest ins_rest dOutF amtF) as [dOut amtOut] eqn:N.
  destruct (get_pool P (pools s) pid) as [p|] eqn:G; [|discriminate].
  destruct (snd (calc_in P p dOut amtOut dIn (spread_of P p))) as [tin|] eqn:CI; [|discriminate].
  destruct (calc_fee_out tin (taker_fee s dIn dOut)) as [[after fee0]|] eqn:CF; [|discriminate].
  inversion E; subst a0 t0; clear E.
  (* what the execution did on the first hop *)
  apply route_out_loop_inv in H. rewrite N in H. cbn [fst snd] in H.
  destruct H as (p2 & s1 & cur & s2 & fee & G2 & _ & M & C & _ & _).
  rewrite G in G2; inversion G2; subst p2.
  apply module_out_inv in M. destruct M as (p' & tout & SW & _ & _ & _ & St).
  apply (law_calc_in_swap P L) in SW. rewrite CI in SW. inversion SW; subst cur.
  apply settle_inv in St. destruct St as (_ & TF & WL & _).
  assert (FN : fee_neutral s1 sender) by (unfold fee_neutral in *; rewrite TF, WL; assumption).
  apply (charge_after_out _ _ _ _ _ _ _ _ FN) in C. destruct C as (fee' & C).
  rewrite TF, CF in C. inversion C. reflexivity.
Qed.

(* RouteExactAmountOut = the backward estimate, then the left fold of [out_hop] over the hops, then the skim validation *)
Theorem route_out_eq_fold : forall route s sender maxIn dOutF amtF, route <> [] ->
  match exp_ins_val s route dOutF amtF with
  | Err e => route_exact_out P s sender route maxIn dOutF amtF = Err e
  | Ok ins =>
    match fold_left (out_step sender) (out_hops true route (maxIn :: tl ins) dOutF amtF) (Ok (s, [])) with
    | Err e => route_exact_out P s sender route maxIn dOutF amtF = Err e
    | Ok (s', ts) => route_exact_out P s sender route maxIn dOutF amtF =
                     if skim_ok P s' (dOutF :: map snd route) then Ok (s', hd 0 ts) else Err ESkim
    end
  end.
Proof.
  intros. unfold route_exact_out. destruct route as [|h rest]; [congruence|].
  rewrite expected_ins_val.
  destruct (exp_ins_val s (h :: rest) dOutF amtF) as [ins|e] eqn:E; [|reflexivity].
  pose proof (exp_ins_length _ _ _ _ _ E) as Len.
  destruct ins as [|a0 t0]; [simpl in Len; discriminate|]. simpl tl.
  pose proof (route_out_loop_fold (h :: rest) true s sender (maxIn :: t0) dOutF amtF [] H) as F.
  assert (Len2 : length (maxIn :: t0) = length (h :: rest)) by (simpl in *; lia).
  specialize (F Len2).
  destruct (route_out_loop P true s sender (h :: rest) (maxIn :: t0) dOutF amtF) as [[s' t]|e].
  - destruct F as [ts F]. rewrite F. reflexivity.
  - rewrite F. reflexivity.
Qed.

(* ------------------------------------------------------------------ composition at message level: exact-out *)
(* the backward estimate only reads the pools on the route and the taker-fee table *)
Lemma exp_ins_val_agree : forall route s s2 dOutF amtF,
  (forall q, In q (map fst route) -> get_pool P (pools s2) q = get_pool P (pools s) q) ->
  taker_fee s2 = taker_fee s ->
  exp_ins_val s2 route dOutF amtF = exp_ins_val s route dOutF amtF.
Proof.
  induction route as [|[pid dIn] rest IH]; intros; cbn [exp_ins_val]; [reflexivity|].
  rewrite (IH s s2) by (auto; intros; apply H; cbn [map fst In]; auto).
  destruct (exp_ins_val s rest dOutF amtF) as [ins_rest|]; [|reflexivity].
  destruct (next_out rest ins_rest dOutF amtF) as [dOut amtOut].
  rewrite H by (cbn [map fst In]; auto). rewrite H0. reflexivity.
Qed.

(* the total of the first executed hop is the head of the backward estimate (fee-paying sender) *)
Lemma out_loop_first_total : forall first s sender pid dIn rest m tl a1 dOutF amtF s' t,
  fee_neutral s sender ->
  exp_ins_val s ((pid, dIn) :: rest) dOutF amtF = Ok (a1 :: tl) ->
  route_out_loop P first s sender ((pid, dIn) :: rest) (m :: tl) dOutF amtF = Ok (s', t) -> t = a1.
Proof.
  intros first s sender pid dIn rest m tl a1 dOutF amtF s' t FN E H.
  cbn [exp_ins_val] in E.
  destruct (exp_ins_val s rest dOutF amtF) as [ins_rest|] eqn:ER; [|discriminate].
  destruct (next_out rest ins_rest dOutF amtF) as [dOut amtOut] eqn:N.
  destruct (get_pool P (pools s) pid) as [p|] eqn:G; [|discriminate].
  destruct (snd (calc_in P p dOut amtOut dIn (spread_of P p))) as [tin|] eqn:CI; [|discriminate].
  destruct (calc_fee_out tin (taker_fee s dIn dOut)) as [[after fee0]|] eqn:CF; [|discriminate].
  inversion E; subst a1 tl; clear E.
  apply route_out_loop_inv in H. rewrite N in H. cbn [fst snd] in H.
  destruct H as (p2 & s1 & cur & s2 & fee & G2 & _ & Md & C & _ & _).
  rewrite G in G2; inversion G2; subst p2.
  apply module_out_inv in Md. destruct Md as (p' & tout & SW & _ & _ & _ & St).
  apply (law_calc_in_swap P L) in SW. rewrite CI in SW. inversion SW; subst cur.
  apply settle_inv in St. destruct St as (_ & TF & WL & _).
  assert (FN1 : fee_neutral s1 sender) by (unfold fee_neutral in *; rewrite TF, WL; assumption).
  apply (charge_after_out _ _ _ _ _ _ _ _ FN1) in C. destruct C as (fee' & C).
  rewrite TF, CF in C. inversion C. reflexivity.
Qed.

(* the first-hop check is vacuous when the total does not exceed the maximum *)
Lemma out_loop_first_flag : forall s sender route m tl dOutF amtF s' t,
  route_out_loop P false s sender route (m :: tl) dOutF amtF = Ok (s', t) -> t <= m ->
  route_out_loop P true s sender route (m :: tl) dOutF amtF = Ok (s', t).
Proof.
  intros s sender route m tl dOutF amtF s' t H Hle. destruct route as [|[pid dIn] rest]; [discriminate|].
  rewrite route_out_loop_step in *. unfold out_hop in *.
  destruct (next_out rest tl dOutF amtF) as [dOut amtOut]. cbn [fst snd] in *.
  destruct (get_pool P (pools s) pid) as [p|]; [|discriminate].
  destruct (negb (is_active P p)); [discriminate|].
  destruct (module_swap_exact_out P s sender pid p dIn m dOut amtOut (spread_of P p)) as [[s1 cur]|]; [|discriminate].
  destruct (charge_taker_fee P s1 sender dIn cur dOut false) as [[s2 [after fee]]|]; [|discriminate].
  cbn [andb] in *.
  assert (T : t = after).
  { destruct rest; [inversion H; reflexivity|].
    destruct (route_out_loop P false s2 sender (p0 :: rest) tl dOutF amtF) as [[s3 t3]|]; inversion H; reflexivity. }
  subst t. assert (X : m <? after = false) by (apply Z.ltb_ge; assumption). rewrite X. exact H.
Qed.

(* what one exact-out hop leaves untouched *)
Lemma out_hop_frame : forall first s sender pid dIn maxIn dOut amtOut s' t,
  out_hop first s sender pid dIn maxIn dOut amtOut = Ok (s', t) ->
  taker_fee s' = taker_fee s /\ whitelisted s' = whitelisted s /\
  (forall q, q <> pid -> get_pool P (pools s') q = get_pool P (pools s) q) /\ skim s' = skim s.
Proof.
  intros. unfold out_hop in H.
  destruct (get_pool P (pools s) pid) as [p|]; [|discriminate].
  destruct (negb (is_active P p)); [discriminate|].
  destruct (module_swap_exact_out P s sender pid p dIn maxIn dOut amtOut (spread_of P p)) as [[s1 cur]|] eqn:Md; [|discriminate].
  destruct (charge_taker_fee P s1 sender dIn cur dOut false) as [[s2 [after fee]]|] eqn:C; [|discriminate].
  destruct (first && (maxIn <? after)); [discriminate|]. inversion H; subst.
  apply module_out_inv in Md. destruct Md as (p' & tout & _ & _ & _ & _ & St).
  pose proof (settle_skim _ _ _ _ _ _ _ _ _ St) as K1. pose proof (charge_skim _ _ _ _ _ _ _ _ C) as K2.
  apply settle_inv in St. destruct St as (S1 & S2 & S3 & _).
  apply charge_inv in C. destruct C as (C1 & C2 & C3 & _).
  repeat split; try congruence. intros. rewrite C1, S1. apply get_put_other; assumption.
Qed.

Lemma handle_swap_out : forall s sender route maxIn dOut amtOut,
  handle P s (MSwapOut sender route maxIn dOut amtOut) =
  if negb (match route with [] => true | _ => false end) && (0 <? amtOut) && (0 <? maxIn)
  then route_exact_out P s sender route maxIn dOut amtOut else Err EInvalid.
Proof.
  intros. unfold handle, validate_basic.
  destruct (negb (match route with [] => true | _ => false end) && (0 <? amtOut) && (0 <? maxIn)); reflexivity.
Qed.

Lemma route_out_loop_skim : forall route first s sender ins dOutF amtF s' t,
  route_out_loop P first s sender route ins dOutF amtF = Ok (s', t) -> skim s' = skim s.
Proof.
  induction route as [|[pid dIn] rest IH]; intros first s sender ins dOutF amtF s' t H; [destruct ins; discriminate|].
  destruct ins as [|m ins_rest]; [discriminate|].
  rewrite route_out_loop_step in H.
  destruct (out_hop first s sender pid dIn m (fst (next_out rest ins_rest dOutF amtF)) (snd (next_out rest ins_rest dOutF amtF))) as [[s2 after]|] eqn:E; [|discriminate].
  apply out_hop_frame in E. destruct E as (_ & _ & _ & K).
  destruct rest as [|h2 rest']; [inversion H; subst; assumption|].
  destruct (route_out_loop P false s2 sender (h2 :: rest') ins_rest dOutF amtF) as [[s3 t']|] eqn:R; [|discriminate].
  inversion H; subst. apply IH in R. congruence.
Qed.

Lemma route_exact_out_val : forall s sender h rest maxIn dOutF amtF,
  route_exact_out P s sender (h :: rest) maxIn dOutF amtF =
  match exp_ins_val s (h :: rest) dOutF amtF with
  | Err e => Err e
  | Ok [] => Ok (s, 0)
  | Ok (_ :: t) =>
    match route_out_loop P true s sender (h :: rest) (maxIn :: t) dOutF amtF with
    | Err e => Err e
    | Ok (s', tin) => if skim_ok P s' (dOutF :: map snd (h :: rest)) then Ok (s', tin) else Err ESkim
    end
  end.
Proof.
  intros. unfold route_exact_out. rewrite expected_ins_val.
  destruct (exp_ins_val s (h :: rest) dOutF amtF) as [[|a t]|]; reflexivity.
Qed.

Lemma exp_ins_cons : forall s pid dIn rest dOutF amtF a0 ins_rest,
  exp_ins_val s ((pid, dIn) :: rest) dOutF amtF = Ok (a0 :: ins_rest) ->
  exp_ins_val s rest dOutF amtF = Ok ins_rest /\
  exp_ins_val s [(pid, dIn)] (fst (next_out rest ins_rest dOutF amtF)) (snd (next_out rest ins_rest dOutF amtF)) = Ok [a0].
Proof.
  intros s pid dIn rest dOutF amtF a0 ins_rest E. cbn [exp_ins_val] in *.
  destruct (exp_ins_val s rest dOutF amtF) as [ir|] eqn:ER; [|discriminate].
  cbn [next_out].
  destruct (next_out rest ir dOutF amtF) as [dOut amtOut] eqn:N.
  destruct (get_pool P (pools s) pid) as [p|] eqn:G; [|discriminate].
  destruct (snd (calc_in P p dOut amtOut dIn (spread_of P p))) as [tin|] eqn:CI; [|discriminate].
  destruct (calc_fee_out tin (taker_fee s dIn dOut)) as [[after fee0]|] eqn:CF; [|discriminate].
  inversion E; subst. split; [reflexivity|]. rewrite N. cbn [fst snd]. rewrite CI, CF. reflexivity.
Qed.

(* a multi-hop exact-out message = the single-hop message for the first hop, buying exactly the estimated input of the
   rest of the route, followed by the message for the rest with that estimate as its maximum *)
Theorem swap_out_msg_compose : forall s sender pid dIn rest maxIn dOutF amtF s' t,
  rest <> [] -> fee_neutral s sender -> ~ In pid (map fst rest) ->
  (* the taker-fee share agreements let the two parts of the route through *)
  skim_ok P s [snd (hd (0, 0) rest); dIn] = true -> skim_ok P s (dOutF :: map snd rest) = true ->
  handle P s (MSwapOut sender ((pid, dIn) :: rest) maxIn dOutF amtF) = Ok (s', t) ->
  exists a1 s1 t',
    estimate_out P s rest dOutF amtF = (s, Ok a1) /\
    handle P s (MSwapOut sender [(pid, dIn)] maxIn (snd (hd (0, 0) rest)) a1) = Ok (s1, t) /\
    handle P s1 (MSwapOut sender rest a1 dOutF amtF) = Ok (s', t').
Proof.
  intros s sender pid dIn rest maxIn dOutF amtF s' t NE FN NI K1 K2 H.
  rewrite handle_swap_out in H. cbn [negb andb] in H.
  destruct (0 <? amtF) eqn:VA; [|discriminate]. destruct (0 <? maxIn) eqn:VM; [|discriminate]. cbn [andb] in H.
  rewrite route_exact_out_val in H.
  destruct (exp_ins_val s ((pid, dIn) :: rest) dOutF amtF) as [ins|] eqn:E; [|discriminate].
  pose proof (exp_ins_length _ _ _ _ _ E) as Len.
  destruct ins as [|a0 ins_rest]; [simpl in Len; discriminate|].
  destruct (route_out_loop P true s sender ((pid, dIn) :: rest) (maxIn :: ins_rest) dOutF amtF) as [[sx tx]|] eqn:H0; [|discriminate].
  destruct (skim_ok P sx (dOutF :: map snd ((pid, dIn) :: rest))); [|discriminate].
  inversion H; subst sx tx; clear H. rename H0 into H.
  destruct (exp_ins_cons _ _ _ _ _ _ _ _ E) as (ER & E1).
  pose proof (exp_ins_length _ _ _ _ _ ER) as LenR.
  destruct rest as [|[pid1 d1] rest']; [congruence|].
  destruct ins_rest as [|a1 tl]; [simpl in LenR; discriminate|].
  set (R := (pid1, d1) :: rest') in *.
  assert (N : next_out R (a1 :: tl) dOutF amtF = (d1, a1)) by reflexivity.
  rewrite N in E1. cbn [fst snd] in E1.
  rewrite route_out_loop_step in H. rewrite N in H. cbn [fst snd] in H.
  destruct (out_hop true s sender pid dIn maxIn d1 a1) as [[s2 after]|] eqn:HOP; [|discriminate].
  assert (HL : exists t', route_out_loop P false s2 sender R (a1 :: tl) dOutF amtF = Ok (s', t') /\ after = t).
  { unfold R in *. destruct (route_out_loop P false s2 sender ((pid1, d1) :: rest') (a1 :: tl) dOutF amtF) as [[s3 t3]|]; [|discriminate].
    inversion H; subst. eauto. }
  destruct HL as (t' & LOOP & Ha). subst after. clear H.
  destruct (out_hop_frame _ _ _ _ _ _ _ _ _ _ HOP) as (TF & WL & PF & SK2).
  pose proof (route_out_loop_skim _ _ _ _ _ _ _ _ _ LOOP) as SK3.
  assert (ER2 : exp_ins_val s2 R dOutF amtF = Ok (a1 :: tl)).
  { rewrite <- ER. apply exp_ins_val_agree; [|assumption]. intros q Hq. apply PF. intro; subst; contradiction. }
  assert (FN2 : fee_neutral s2 sender) by (unfold fee_neutral in *; rewrite TF, WL; assumption).
  assert (T' : t' = a1) by (unfold R in *; eapply out_loop_first_total; eauto).
  assert (Pa1 : 0 < a1).
  { pose proof LOOP as LP. unfold R in LP. apply route_out_loop_inv in LP.
    destruct LP as (p2 & s1 & cur & s4 & fee & _ & _ & Md & _). apply module_out_inv in Md.
    destruct Md as (p' & tout & _ & Pc & Lc & _). lia. }
  assert (X : 0 <? a1 = true) by (apply Z.ltb_lt; assumption).
  change (snd (hd (0, 0) R)) with d1 in *.
  exists a1, s2, t'. split; [|split].
  - unfold estimate_out, R. fold R. rewrite expected_ins_val, ER. reflexivity.
  - rewrite handle_swap_out. cbn [negb andb]. rewrite VM, X. cbn [andb].
    rewrite route_exact_out_val, E1. rewrite route_out_loop_step. cbn [next_out fst snd]. rewrite HOP.
    cbn [map snd]. rewrite (skim_ok_ext s s2 _ SK2), K1. reflexivity.
  - rewrite handle_swap_out. unfold R at 1. cbn [negb andb]. rewrite VA, X. cbn [andb].
    unfold R at 1. rewrite route_exact_out_val. fold R. rewrite ER2.
    rewrite (out_loop_first_flag _ _ _ _ _ _ _ _ _ LOOP) by lia.
    assert (SK : skim s' = skim s) by congruence.
    rewrite (skim_ok_ext s s' _ SK), K2. reflexivity.
Qed.

End WithPool.
