(* C05 proofs: composition, estimate = execution, limits - parametric in the pool interface. *)
From Coq Require Import ZArith List Bool Lia.
Import ListNotations.
From Osmo Require Import Base.DecModel C05.Model.
Open Scope Z_scope.

Section WithPool.
Variable P : PoolIface.

Lemma module_swap_exact_in_min : forall s sender pid p dIn amt dOut minOut spread s' out,
  module_swap_exact_in P s sender pid p dIn amt dOut minOut spread = Ok (s', out) -> minOut <= out /\ 0 < out.
Proof.
  unfold module_swap_exact_in; intros.
  destruct (dIn =? dOut); [discriminate|].
  destruct (swap_in P p dIn amt dOut spread) as [[p' [tin tout]]|]; [|discriminate].
  destruct (tout <=? 0) eqn:E1; [discriminate|].
  destruct (tout <? minOut) eqn:E2; [discriminate|].
  destruct (settle P s sender pid p' dIn tin dOut tout); [|discriminate].
  inversion H; subst. apply Z.leb_gt in E1. apply Z.ltb_ge in E2. lia.
Qed.

Lemma pm_swap_exact_in_min : forall s sender pid dIn amt dOut minOut s' out fee,
  pm_swap_exact_in P s sender pid dIn amt dOut minOut = Ok (s', (out, fee)) -> minOut <= out /\ 0 < out.
Proof.
  unfold pm_swap_exact_in; intros.
  destruct (get_pool P (pools s) pid); [|discriminate].
  destruct (negb (is_active P p)); [discriminate|].
  destruct (charge_taker_fee P s sender dIn amt dOut true) as [[s1 [after f]]|]; [|discriminate].
  destruct (module_swap_exact_in P s1 sender pid p dIn after dOut minOut (spread_of P p)) as [[s2 o]|] eqn:E; [|discriminate].
  inversion H; subst. eapply module_swap_exact_in_min; eauto.
Qed.

Lemma route_in_min_out : forall route s sender dIn amt minOut s' out,
  route_exact_in P s sender route dIn amt minOut = Ok (s', out) -> minOut <= out /\ 0 < out.
Proof.
  unfold route_exact_in.
  induction route as [|[pid dOut] rest IH]; intros; simpl in H; [discriminate|].
  destruct rest as [|h rest'].
  - destruct (pm_swap_exact_in P s sender pid dIn amt dOut minOut) as [[s1 [o f]]|] eqn:E; [|discriminate].
    inversion H; subst. eapply pm_swap_exact_in_min; eauto.
  - destruct (pm_swap_exact_in P s sender pid dIn amt dOut 1) as [[s1 [o f]]|] eqn:E; [|discriminate].
    eapply IH; eauto.
Qed.

End WithPool.
