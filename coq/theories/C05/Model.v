(* C05 model - the swap router of x/poolmanager over a small bank, PARAMETRIC in the pool interface.

   Mirrors, function by function and as written:
     x/poolmanager/router.go      RouteExactAmountIn, SwapExactAmountIn, SplitRouteExactAmountIn,
                                  multihopEstimateOutGivenExactAmountInInternal, RouteExactAmountOut,
                                  createMultihopExpectedSwapOuts, SplitRouteExactAmountOut,
                                  MultihopEstimateInGivenExactAmountOut
     x/poolmanager/taker_fee.go   chargeTakerFee, CalcTakerFeeExactIn, CalcTakerFeeExactOut, GetTradingPairTakerFee
     x/poolmanager/msg_server.go  the four swap messages;  types/msgs.go ValidateBasic;  types/routes.go Validate*
     x/gamm/keeper/swap.go        SwapExactAmountIn / SwapExactAmountOut (the pool-module wrapper: positivity check, limit
                                  check, updatePoolForSwap = two bank sends); x/concentrated-liquidity/swaps.go has the same
                                  wrapper with the bank sends before the limit check, which is the same function under the
                                  atomic message wrapper (DESIGN 1.5)
   The pool *math* (SwapOutAmtGivenIn / SwapInAmtGivenOut / CalcOutAmtGivenIn / CalcInAmtGivenOut of a balancer,
   stableswap or concentrated pool) is the parameter [PoolIface].  Denominations, pool ids and accounts are integers.
   Decimals (taker fee, spread factor) are raw 18-decimal mantissas (Base/DecModel).  Definitions only; no proofs here.

   Not modelled (no observable of the property depends on them): trackVolume, TakerFeeSkim (it only bumps accumulators
   of taker-fee share agreements - assumed absent), events, gas, cosmwasm pool hooks. *)
From Coq Require Import ZArith List Bool.
Import ListNotations.
From Osmo Require Import Base.DecModel Gen.C05_consts.
Open Scope Z_scope.

Inductive err :=
| ELimit      (* min-out / max-in / price impact protection *)
| EFunds      (* bank: insufficient funds *)
| EPool       (* the pool math failed, or produced a non-positive amount *)
| EInvalid    (* invalid coins / same denom in and out / ValidateBasic *)
| ENoPool     (* unknown pool id *)
| EInactive   (* pool not active *)
| ERoute      (* empty / duplicate / inconsistent routes *)
| EPanic      (* a Go panic (recovered by the route function or by baseapp) *)
| ESkim       (* TakerFeeSkim: the taker-fee share agreements of the route's denoms add up to more than 100 % *)
| ETable.     (* only produced by the table-driven pool of C05/Corr.v: call not in the table *)

Inductive result (A : Type) := Ok (a : A) | Err (e : err).
Arguments Ok {A} a.
Arguments Err {A} e.

(* ---------------------------------------------------------------- accounts and bank -- *)
Inductive acct :=
| Trader (n : Z)
| PoolAcc (id : Z)       (* a pool's address (for a concentrated pool: pool address + spread-rewards address) *)
| Collector              (* txfees TakerFeeCollectorName module account *)
| Community.             (* distribution module: community pool *)

Definition acct_eqb (a b : acct) : bool :=
  match a, b with
  | Trader x, Trader y => x =? y
  | PoolAcc x, PoolAcc y => x =? y
  | Collector, Collector => true
  | Community, Community => true
  | _, _ => false
  end.

Definition bank := acct -> Z -> Z.

Definition bal_set (b : bank) (a : acct) (d v : Z) : bank :=
  fun a' d' => if acct_eqb a' a && (d' =? d) then v else b a' d'.

(* subUnlockedCoins then addCoins *)
Definition bank_move (b : bank) (from to : acct) (d amt : Z) : result bank :=
  if b from d <? amt then Err EFunds
  else let b1 := bal_set b from d (b from d - amt) in
       Ok (bal_set b1 to d (b1 to d + amt)).

(* SendCoins(sdk.Coins{coin}): an unsanitised one-coin set is invalid unless the amount is positive *)
Definition send_raw (b : bank) (from to : acct) (d amt : Z) : result bank :=
  if amt <=? 0 then Err EInvalid else bank_move b from to d amt.

(* SendCoins...(sdk.NewCoins(coin)): NewCoins drops a zero coin (nothing to send) and panics on a negative one *)
Definition send_new (b : bank) (from to : acct) (d amt : Z) : result bank :=
  if amt =? 0 then Ok b else if amt <? 0 then Err EPanic else bank_move b from to d amt.

(* ---------------------------------------------------------------- taker fee arithmetic -- *)
(* CalcTakerFeeExactIn: (tokenIn after fee, fee) = (trunc((1-f)*amt), amt - that) *)
Definition calc_fee_in (amt f : Z) : Z * Z :=
  let after := d_truncate_int (d_mul_int (P18 - f) amt) in (after, amt - after).

(* CalcTakerFeeExactOut: (tokenIn plus fee, fee) = (ceil(amt / (1-f)), that - amt); Quo panics on 1-f = 0 *)
Definition calc_fee_out (amt f : Z) : result (Z * Z) :=
  if P18 - f =? 0 then Err EPanic
  else let after := d_truncate_int (d_ceil (d_quo (d_from_int amt) (P18 - f))) in Ok (after, after - amt).

Definition int_max_value : Z := 2 ^ int_max_bits - 1.      (* Gen/C05_consts: translated from router.go *)

(* ---------------------------------------------------------------- the pool interface -- *)
Record PoolIface := {
  pool_state : Type;
  is_active : pool_state -> bool;
  spread_of : pool_state -> Z;
  (* SwapOutAmtGivenIn + record update.  swap_in p dIn amt dOut spread = Ok (p', (tokenIn taken, tokenOut)) *)
  swap_in : pool_state -> Z -> Z -> Z -> Z -> result (pool_state * (Z * Z));
  (* SwapInAmtGivenOut + record update.  swap_out p dOut amt dIn spread = Ok (p', (tokenIn, tokenOut given)) *)
  swap_out : pool_state -> Z -> Z -> Z -> Z -> result (pool_state * (Z * Z));
  (* CalcOutAmtGivenIn p dIn amt dOut spread: receives the pool (and in Go a context it could write to) *)
  calc_out : pool_state -> Z -> Z -> Z -> Z -> pool_state * result Z;
  (* CalcInAmtGivenOut p dOut amt dIn spread *)
  calc_in : pool_state -> Z -> Z -> Z -> Z -> pool_state * result Z }.

Section Router.
Variable P : PoolIface.

Fixpoint get_pool (l : list (Z * pool_state P)) (id : Z) : option (pool_state P) :=
  match l with
  | [] => None
  | (k, p) :: r => if k =? id then Some p else get_pool r id
  end.
Fixpoint put_pool (l : list (Z * pool_state P)) (id : Z) (p : pool_state P) : list (Z * pool_state P) :=
  match l with
  | [] => []
  | (k, q) :: r => if k =? id then (k, p) :: r else (k, q) :: put_pool r id p
  end.

Record state := mkState {
  pools : list (Z * pool_state P);     (* pool id -> pool record (poolmanager routing table + the module's store) *)
  bal : bank;
  taker_fee : Z -> Z -> Z;              (* GetTradingPairTakerFee: ordered pair -> fee (default when unset) *)
  whitelisted : acct -> bool;           (* reducedFeeWhitelist *)
  skim : Z -> option Z }.               (* taker-fee share agreements: denom -> SkimPercent (18-decimal mantissa) *)

Definition set_pool (s : state) (id : Z) (p : pool_state P) : state :=
  mkState (put_pool (pools s) id p) (bal s) (taker_fee s) (whitelisted s) (skim s).
Definition set_bal (s : state) (b : bank) : state :=
  mkState (pools s) b (taker_fee s) (whitelisted s) (skim s).

(* chargeTakerFee *)
Definition charge_taker_fee (s : state) (sender : acct) (dIn amt dOut : Z) (exact_in : bool)
  : result (state * (Z * Z)) :=
  if whitelisted s sender then Ok (s, (amt, 0))
  else
    let f := taker_fee s dIn dOut in
    match (if exact_in then Ok (calc_fee_in amt f) else calc_fee_out amt f) with
    | Err e => Err e
    | Ok (after, fee) =>
      match send_new (bal s) sender Collector dIn fee with
      | Err e => Err e
      | Ok b => Ok (set_bal s b, (after, fee))
      end
    end.

(* updatePoolForSwap: setPool; sender -> pool tokenIn; pool -> sender tokenOut *)
Definition settle (s : state) (sender : acct) (pid : Z) (p' : pool_state P) (dIn tin dOut tout : Z) : result state :=
  match send_raw (bal s) sender (PoolAcc pid) dIn tin with
  | Err e => Err e
  | Ok b1 =>
    match send_raw b1 (PoolAcc pid) sender dOut tout with
    | Err e => Err e
    | Ok b2 => Ok (set_bal (set_pool s pid p') b2)
    end
  end.

(* the pool module's SwapExactAmountIn (gamm/keeper/swap.go) *)
Definition module_swap_exact_in (s : state) (sender : acct) (pid : Z) (p : pool_state P)
           (dIn amt dOut minOut spread : Z) : result (state * Z) :=
  if dIn =? dOut then Err EInvalid else
  match swap_in P p dIn amt dOut spread with
  | Err e => Err e
  | Ok (p', (tin, tout)) =>
    if tout <=? 0 then Err EPool
    else if tout <? minOut then Err ELimit
    else match settle s sender pid p' dIn tin dOut tout with
         | Err e => Err e
         | Ok s' => Ok (s', tout)
         end
  end.

(* the pool module's SwapExactAmountOut *)
Definition module_swap_exact_out (s : state) (sender : acct) (pid : Z) (p : pool_state P)
           (dIn maxIn dOut amtOut spread : Z) : result (state * Z) :=
  if dIn =? dOut then Err EInvalid else
  match swap_out P p dOut amtOut dIn spread with
  | Err e => Err e
  | Ok (p', (tin, tout)) =>
    if tin <=? 0 then Err EPool
    else if maxIn <? tin then Err ELimit
    else match settle s sender pid p' dIn tin dOut tout with
         | Err e => Err e
         | Ok s' => Ok (s', tin)
         end
  end.

(* poolmanager.SwapExactAmountIn: one hop = taker fee, then the pool module *)
Definition pm_swap_exact_in (s : state) (sender : acct) (pid dIn amt dOut minOut : Z) : result (state * (Z * Z)) :=
  match get_pool (pools s) pid with
  | None => Err ENoPool
  | Some p =>
    if negb (is_active P p) then Err EInactive else
    match charge_taker_fee s sender dIn amt dOut true with
    | Err e => Err e
    | Ok (s1, (after, fee)) =>
      match module_swap_exact_in s1 sender pid p dIn after dOut minOut (spread_of P p) with
      | Err e => Err e
      | Ok (s2, out) => Ok (s2, (out, fee))
      end
    end
  end.

(* RouteExactAmountIn's loop: the caller's minimum only on the last hop, hop_min_out (= 1, Gen/C05_consts) before *)
Fixpoint route_in_loop (s : state) (sender : acct) (route : list (Z * Z)) (dIn amt minOut : Z) : result (state * Z) :=
  match route with
  | [] => Err ERoute
  | (pid, dOut) :: rest =>
    let m := match rest with [] => minOut | _ => hop_min_out end in
    match pm_swap_exact_in s sender pid dIn amt dOut m with
    | Err e => Err e
    | Ok (s', (out, _)) =>
      match rest with
      | [] => Ok (s', out)
      | _ => route_in_loop s' sender rest dOut out minOut
      end
    end
  end.
(* TakerFeeSkim (taker_fee.go), the part that can make a swap fail: the distinct denoms of the route that have a
   taker-fee share agreement must have skim percentages adding up to a value in [0, 1].  (What it does otherwise -
   bumping the per-agreement accumulators of the fees charged - moves no funds and is not modelled; registered
   alloyed-asset pools are assumed absent.) *)
Fixpoint dedup (l : list Z) : list Z :=
  match l with
  | [] => []
  | x :: r => if existsb (Z.eqb x) r then dedup r else x :: dedup r
  end.
Fixpoint pct_sum (f : Z -> option Z) (ds : list Z) : option Z :=       (* None = no agreement among ds *)
  match ds with
  | [] => None
  | d :: r => match f d, pct_sum f r with
              | Some p, Some q => Some (p + q)
              | Some p, None => Some p
              | None, q => q
              end
  end.
Definition skim_ok (s : state) (denoms : list Z) : bool :=
  match pct_sum (skim s) (dedup denoms) with
  | None => true
  | Some p => (0 <=? p) && (p <=? P18)
  end.

(* RouteExactAmountIn: Validate() = non-empty route (the loop's [] case rejects it); the hop loop; TakerFeeSkim *)
Definition route_exact_in (s : state) (sender : acct) (route : list (Z * Z)) (dIn amt minOut : Z) : result (state * Z) :=
  match route_in_loop s sender route dIn amt minOut with
  | Err e => Err e
  | Ok (s', out) => if skim_ok s' (dIn :: map snd route) then Ok (s', out) else Err ESkim
  end.

(* SplitRouteExactAmountIn *)
Fixpoint list_eqb {A} (eqb : A -> A -> bool) (a b : list A) : bool :=
  match a, b with
  | [], [] => true
  | x :: a', y :: b' => eqb x y && list_eqb eqb a' b'
  | _, _ => false
  end.
Definition hop_eqb (a b : Z * Z) : bool := (fst a =? fst b) && (snd a =? snd b).
Definition route_eqb := list_eqb hop_eqb.
(* osmoutils.ContainsDuplicateDeepEqual compares each element with its successor only: a duplicate that is not
   adjacent is NOT detected (found by the correspondence run; mirrored as written) *)
Fixpoint has_dup (l : list (list (Z * Z))) : bool :=
  match l with
  | [] => false
  | [x] => false
  | x :: ((y :: _) as r) => route_eqb x y || has_dup r
  end.
Definition last_denom (r : list (Z * Z)) : Z := snd (last r (0, 0)).
Definition first_denom (r : list (Z * Z)) : Z := match r with [] => 0 | h :: _ => snd h end.
Fixpoint all_same (key : list (Z * Z) -> Z) (l : list (list (Z * Z))) : bool :=
  match l with
  | [] => true
  | [x] => true
  | x :: ((y :: _) as r) => (key x =? key y) && all_same key r
  end.
(* ValidateSwapAmountInSplitRoute / ValidateSwapAmountOutSplitRoute *)
Definition validate_split (key : list (Z * Z) -> Z) (rs : list (list (Z * Z))) : bool :=
  negb (match rs with [] => true | _ => false end)
  && forallb (fun r => negb (match r with [] => true | _ => false end)) rs
  && all_same key rs && negb (has_dup rs).

Fixpoint split_in_loop (s : state) (sender : acct) (legs : list (list (Z * Z) * Z)) (dIn total : Z)
  : result (state * Z) :=
  match legs with
  | [] => Ok (s, total)
  | (r, amt) :: rest =>
    if amt <? 0 then Err EPanic else                         (* sdk.NewCoin panics *)
    match route_exact_in s sender r dIn amt split_leg_min with
    | Err e => Err e
    | Ok (s', out) => split_in_loop s' sender rest dIn (total + out)
    end
  end.
Definition split_exact_in (s : state) (sender : acct) (legs : list (list (Z * Z) * Z)) (dIn minOut : Z)
  : result (state * Z) :=
  if negb (validate_split last_denom (map fst legs)) then Err ERoute else
  match split_in_loop s sender legs dIn 0 with
  | Err e => Err e
  | Ok (s', total) =>
    if total <=? 0 then Err EPool
    else if total <? minOut then Err ELimit
    else Ok (s', total)
  end.

(* multihopEstimateOutGivenExactAmountInInternal (applyTakerFee = true); no whitelist, no IsActive check *)
Fixpoint est_in_loop (s : state) (route : list (Z * Z)) (dIn amt : Z) : state * result Z :=
  match route with
  | [] => (s, Ok amt)
  | (pid, dOut) :: rest =>
    match get_pool (pools s) pid with
    | None => (s, Err ENoPool)
    | Some p =>
      let after := fst (calc_fee_in amt (taker_fee s dIn dOut)) in
      let '(p', r) := calc_out P p dIn after dOut (spread_of P p) in
      let s' := set_pool s pid p' in
      match r with
      | Err e => (s', Err e)
      | Ok out => if out <=? 0 then (s', Err EPool) else est_in_loop s' rest dOut out
      end
    end
  end.
Definition estimate_in (s : state) (route : list (Z * Z)) (dIn amt : Z) : state * result Z :=
  match route with [] => (s, Err ERoute) | _ => est_in_loop s route dIn amt end.

(* createMultihopExpectedSwapOuts: from the last hop backwards; head of the result = input of the first hop.
   The out-coin of hop i is the (taker-fee-inclusive) in-coin of hop i+1. *)
Definition next_out (rest : list (Z * Z)) (ins_rest : list Z) (dOutF amtF : Z) : Z * Z :=
  match rest, ins_rest with
  | (_, d') :: _, a :: _ => (d', a)
  | _, _ => (dOutF, amtF)
  end.
Fixpoint expected_ins (s : state) (route : list (Z * Z)) (dOutF amtF : Z) : state * result (list Z) :=
  match route with
  | [] => (s, Ok [])
  | (pid, dIn) :: rest =>
    match expected_ins s rest dOutF amtF with
    | (s1, Err e) => (s1, Err e)
    | (s1, Ok ins_rest) =>
      let '(dOut, amtOut) := next_out rest ins_rest dOutF amtF in
      match get_pool (pools s1) pid with
      | None => (s1, Err ENoPool)
      | Some p =>
        let '(p', r) := calc_in P p dOut amtOut dIn (spread_of P p) in
        let s2 := set_pool s1 pid p' in
        match r with
        | Err e => (s2, Err e)
        | Ok tin =>
          match calc_fee_out tin (taker_fee s1 dIn dOut) with
          | Err e => (s2, Err e)
          | Ok (after, _) => (s2, Ok (after :: ins_rest))
          end
        end
      end
    end
  end.

(* MultihopEstimateInGivenExactAmountOut *)
Definition estimate_out (s : state) (route : list (Z * Z)) (dOutF amtF : Z) : state * result Z :=
  match route with
  | [] => (s, Err ERoute)
  | _ => match expected_ins s route dOutF amtF with
         | (s1, Err e) => (s1, Err e)
         | (s1, Ok ins) => (s1, Ok (hd 0 ins))
         end
  end.

(* RouteExactAmountOut's forward loop: hop i swaps for the out-coin (d_{i+1}, ins[i+1]) with maximum ins[i]
   (ins[0] := the caller's maximum), then the taker fee is charged ON TOP of what the pool took; the value
   returned is the first hop's pool input plus its taker fee, and (since the repair 8abdc71882 of finding C05-F1)
   that sum is checked against the caller's maximum on the first hop. *)
Fixpoint route_out_loop (first : bool) (s : state) (sender : acct) (route : list (Z * Z)) (ins : list Z) (dOutF amtF : Z)
  : result (state * Z) :=
  match route, ins with
  | (pid, dIn) :: rest, maxIn :: ins_rest =>
    let '(dOut, amtOut) := next_out rest ins_rest dOutF amtF in
    match get_pool (pools s) pid with
    | None => Err ENoPool
    | Some p =>
      if negb (is_active P p) then Err EInactive else
      match module_swap_exact_out s sender pid p dIn maxIn dOut amtOut (spread_of P p) with
      | Err e => Err e
      | Ok (s1, cur) =>
        match charge_taker_fee s1 sender dIn cur dOut false with
        | Err e => Err e
        | Ok (s2, (after, _)) =>
          if first && (maxIn <? after) then Err ELimit else
          match rest with
          | [] => Ok (s2, after)
          | _ => match route_out_loop false s2 sender rest ins_rest dOutF amtF with
                 | Err e => Err e
                 | Ok (s3, _) => Ok (s3, after)
                 end
          end
        end
      end
    end
  | _, _ => Err ERoute
  end.
Definition route_exact_out (s : state) (sender : acct) (route : list (Z * Z)) (maxIn dOutF amtF : Z)
  : result (state * Z) :=
  match route with
  | [] => Err ERoute
  | _ =>
    match expected_ins s route dOutF amtF with
    | (_, Err e) => Err e
    | (s1, Ok ins) =>
      match ins with
      | [] => Ok (s1, 0)                                       (* unreachable: len(ins) = len(route) *)
      | _ :: t =>
        match route_out_loop true s1 sender route (maxIn :: t) dOutF amtF with
        | Err e => Err e
        | Ok (s', tin) => if skim_ok s' (dOutF :: map snd route) then Ok (s', tin) else Err ESkim
        end
      end
    end
  end.

(* SplitRouteExactAmountOut *)
Fixpoint split_out_loop (s : state) (sender : acct) (legs : list (list (Z * Z) * Z)) (dOut total : Z)
  : result (state * Z) :=
  match legs with
  | [] => Ok (s, total)
  | (r, amt) :: rest =>
    if amt <? 0 then Err EPanic else
    match route_exact_out s sender r int_max_value dOut amt with
    | Err e => Err e
    | Ok (s', tin) => split_out_loop s' sender rest dOut (total + tin)
    end
  end.
Definition split_exact_out (s : state) (sender : acct) (legs : list (list (Z * Z) * Z)) (dOut maxIn : Z)
  : result (state * Z) :=
  if negb (validate_split first_denom (map fst legs)) then Err ERoute else
  match split_out_loop s sender legs dOut 0 with
  | Err e => Err e
  | Ok (s', total) =>
    if total <=? 0 then Err EPool
    else if maxIn <? total then Err ELimit
    else Ok (s', total)
  end.

(* ---------------------------------------------------------------- messages -- *)
Inductive msg :=
| MSwapIn (sender : acct) (route : list (Z * Z)) (dIn amt minOut : Z)
| MSwapOut (sender : acct) (route : list (Z * Z)) (maxIn dOut amtOut : Z)
| MSplitIn (sender : acct) (legs : list (list (Z * Z) * Z)) (dIn minOut : Z)
| MSplitOut (sender : acct) (legs : list (list (Z * Z) * Z)) (dOut maxIn : Z).

(* ValidateBasic (types/msgs.go), as baseapp runs it before the handler *)
Definition validate_basic (m : msg) : bool :=
  match m with
  | MSwapIn _ route _ amt minOut => negb (match route with [] => true | _ => false end) && (0 <? amt) && (0 <? minOut)
  | MSwapOut _ route maxIn _ amtOut => negb (match route with [] => true | _ => false end) && (0 <? amtOut) && (0 <? maxIn)
  | MSplitIn _ legs _ minOut => validate_split last_denom (map fst legs) && (0 <? minOut)
  | MSplitOut _ legs _ maxIn => validate_split first_denom (map fst legs) && (0 <? maxIn)
  end.

Definition handle (s : state) (m : msg) : result (state * Z) :=
  if negb (validate_basic m) then Err EInvalid else
  match m with
  | MSwapIn sender route dIn amt minOut => route_exact_in s sender route dIn amt minOut
  | MSwapOut sender route maxIn dOut amtOut => route_exact_out s sender route maxIn dOut amtOut
  | MSplitIn sender legs dIn minOut => split_exact_in s sender legs dIn minOut
  | MSplitOut sender legs dOut maxIn => split_exact_out s sender legs dOut maxIn
  end.

(* baseapp: state is written only when the handler returns nil (DESIGN 1.5) *)
Definition step (s : state) (m : msg) : state * result Z :=
  match handle s m with
  | Ok (s', r) => (s', Ok r)
  | Err e => (s, Err e)
  end.

End Router.

Arguments mkState {P}.
Arguments pools {P}.
Arguments bal {P}.
Arguments taker_fee {P}.
Arguments whitelisted {P}.
Arguments skim {P}.

(* The two laws of the pool interface (Section hypotheses of C05/Proofs.v; discharged for the concrete pool of
   C05/Instance.v, measured on the real pools by the correspondence run). *)
Record PoolLaws (P : PoolIface) : Prop := {
  law_calc_out_pure : forall p dIn amt dOut sp, fst (calc_out P p dIn amt dOut sp) = p;
  law_calc_in_pure : forall p dOut amt dIn sp, fst (calc_in P p dOut amt dIn sp) = p;
  law_calc_out_swap : forall p dIn amt dOut sp p' tin tout,
    swap_in P p dIn amt dOut sp = Ok (p', (tin, tout)) -> snd (calc_out P p dIn amt dOut sp) = Ok tout;
  law_calc_in_swap : forall p dOut amt dIn sp p' tin tout,
    swap_out P p dOut amt dIn sp = Ok (p', (tin, tout)) -> snd (calc_in P p dOut amt dIn sp) = Ok tin }.
