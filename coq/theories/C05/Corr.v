(* C05 correspondence glue.  The router model is run with the pool interface instantiated by a TABLE-DRIVEN pool: a
   pool whose swap / calc functions replay the answers the real balancer / stableswap / concentrated pools gave on this
   very case (logged by the recording proxies of harness/routerdrv).  What is compared with the implementation is
   therefore exactly the router's own logic: which pool is called with which denominations, amounts and spread factor
   (a call that is not in the table is an error), the taker-fee arithmetic, the limit checks, the totals, the error
   class, and every bank balance. *)
From Coq Require Import ZArith List Bool.
Import ListNotations.
From Osmo Require Import Base.Obs C05.Model.
Open Scope Z_scope.

(* op: 0 swap_in, 1 swap_out, 2 calc_out, 3 calc_in.  n = number of swaps already applied to the pool.
   x / y: swap_in, calc_out: denom in / denom out;  swap_out, calc_in: denom out / denom in. *)
Record tentry := mkTE {
  te_op : Z; te_pool : Z; te_n : Z; te_x : Z; te_amt : Z; te_y : Z; te_spread : Z;
  te_ok : bool; te_r1 : Z; te_r2 : Z }.

Record tpool := mkTP { tp_id : Z; tp_n : Z; tp_spread : Z; tp_tbl : list tentry }.

Definition te_match (op : Z) (p : tpool) (x amt y spread : Z) (e : tentry) : bool :=
  (te_op e =? op) && (te_pool e =? tp_id p) && (te_n e =? tp_n p) && (te_x e =? x) && (te_amt e =? amt)
  && (te_y e =? y) && (te_spread e =? spread).

Definition t_swap (op : Z) (p : tpool) (x amt y spread : Z) : result (tpool * (Z * Z)) :=
  match find (te_match op p x amt y spread) (tp_tbl p) with
  | None => Err ETable
  | Some e => if te_ok e then Ok (mkTP (tp_id p) (tp_n p + 1) (tp_spread p) (tp_tbl p), (te_r1 e, te_r2 e))
              else Err EPool
  end.
Definition t_calc (op : Z) (p : tpool) (x amt y spread : Z) : tpool * result Z :=
  match find (te_match op p x amt y spread) (tp_tbl p) with
  | None => (p, Err ETable)
  | Some e => (p, if te_ok e then Ok (te_r1 e) else Err EPool)
  end.

Definition TablePool : PoolIface := {|
  pool_state := tpool;
  is_active := fun _ => true;
  spread_of := tp_spread;
  swap_in := t_swap 0;
  swap_out := t_swap 1;
  calc_out := t_calc 2;
  calc_in := t_calc 3 |}.

Inductive op :=
| OMsg (m : msg)
| OEstIn (route : list (Z * Z)) (dIn amt : Z)
| OEstOut (route : list (Z * Z)) (dOut amt : Z).

Record case := mkCase {
  c_nd : Z;                        (* number of denominations 0 .. nd-1 *)
  c_spreads : list Z;              (* pool i (id = i) has spread factor nth i *)
  c_fees : list Z;                 (* nd x nd, row-major: taker fee of the ordered pair (in, out) *)
  c_wl : bool;                     (* trader on the reduced-fee whitelist *)
  c_skim : list Z;                 (* per denom: skim percent of its taker-fee share agreement, -1 = none *)
  c_bal0 : list (list Z);          (* rows: trader, pool 0 .. np-1, collector, community pool; columns: denoms *)
  c_tbl : list tentry;
  c_ops : list op;
  c_expect : list Z }.

Definition np (c : case) : Z := Z.of_nat (length (c_spreads c)).

Definition acct_row (n : Z) (a : acct) : Z :=
  match a with
  | Trader _ => 0
  | PoolAcc i => 1 + i
  | Collector => 1 + n
  | Community => 2 + n
  end.

Definition nthz {A} (l : list A) (i : Z) (d : A) : A := if i <? 0 then d else nth (Z.to_nat i) l d.

Definition init_bank (c : case) : bank :=
  fun a d => match a with
             | PoolAcc i => if (i <? 0) || (np c <=? i) then 0 else nthz (nthz (c_bal0 c) (1 + i) []) d 0
             | _ => nthz (nthz (c_bal0 c) (acct_row (np c) a) []) d 0
             end.

Fixpoint mk_pools (tbl : list tentry) (i : Z) (spreads : list Z) : list (Z * tpool) :=
  match spreads with
  | [] => []
  | sp :: r => (i, mkTP i 0 sp tbl) :: mk_pools tbl (i + 1) r
  end.

Definition init_state (c : case) : state TablePool :=
  @mkState TablePool (mk_pools (c_tbl c) 0 (c_spreads c)) (init_bank c)
          (fun a b => nthz (c_fees c) (a * c_nd c + b) 0)
          (fun a => match a with Trader _ => c_wl c | _ => false end)
          (fun d => let v := nthz (c_skim c) d (-1) in if v <? 0 then None else Some v).

Definition code (e : err) : Z := match e with ELimit => 1 | _ => 2 end.
Definition flat_res (r : result Z) : list Z := match r with Ok v => [0; v] | Err e => [code e; 0] end.

Definition run_op (s : state TablePool) (o : op) : state TablePool * result Z :=
  match o with
  | OMsg m => step TablePool s m
  | OEstIn route dIn amt => estimate_in TablePool s route dIn amt
  | OEstOut route dOut amt => estimate_out TablePool s route dOut amt
  end.

Fixpoint run_ops (s : state TablePool) (os : list op) : list Z * state TablePool :=
  match os with
  | [] => ([], s)
  | o :: r => let '(s1, res) := run_op s o in
              let '(l, s2) := run_ops s1 r in (flat_res res ++ l, s2)
  end.

Fixpoint zrange (i : Z) (n : nat) : list Z := match n with O => [] | S k => i :: zrange (i + 1) k end.

Definition flat_bank (c : case) (b : bank) : list Z :=
  let ds := zrange 0 (Z.to_nat (c_nd c)) in
  let accts := [Trader 0] ++ map PoolAcc (zrange 0 (length (c_spreads c))) ++ [Collector; Community] in
  flat_map (fun a => map (b a) ds) accts.

Definition model_obs (c : case) : list Z :=
  let '(l, s) := run_ops (init_state c) (c_ops c) in l ++ [-1] ++ flat_bank c (bal s).

Definition case_ok (c : case) : bool := zlist_eqb (model_obs c) (c_expect c).
