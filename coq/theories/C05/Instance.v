(* C05: a concrete, executable pool instance - an exact constant-product integer pool with truncation - for which
   the two laws of the pool interface are PROVED (not assumed), so that the parametric theorems of C05/Proofs.v are
   instantiated and runnable; plus the concrete witnesses used by Properties/C05.v (non-vacuity examples and the
   documented counterexamples: repeated pools, whitelisted sender). *)
From Coq Require Import ZArith List Bool Lia.
Import ListNotations.
From Osmo Require Import Base.DecModel C05.Model C05.Proofs.
Open Scope Z_scope.

(* two denominations a, b with reserves ra, rb; x*y=k, outputs rounded down, inputs rounded up (floor + 1) *)
Record cp := mkCP { cp_a : Z; cp_b : Z; cp_ra : Z; cp_rb : Z }.

Definition cp_swap_in (p : cp) (dIn amt dOut spread : Z) : result (cp * (Z * Z)) :=
  if amt <=? 0 then Err EPool
  else if (dIn =? cp_a p) && (dOut =? cp_b p) then
    let out := (cp_rb p * amt) / (cp_ra p + amt) in
    Ok (mkCP (cp_a p) (cp_b p) (cp_ra p + amt) (cp_rb p - out), (amt, out))
  else if (dIn =? cp_b p) && (dOut =? cp_a p) then
    let out := (cp_ra p * amt) / (cp_rb p + amt) in
    Ok (mkCP (cp_a p) (cp_b p) (cp_ra p - out) (cp_rb p + amt), (amt, out))
  else Err EPool.

Definition cp_swap_out (p : cp) (dOut amt dIn spread : Z) : result (cp * (Z * Z)) :=
  if amt <=? 0 then Err EPool
  else if (dIn =? cp_a p) && (dOut =? cp_b p) then
    if cp_rb p <=? amt then Err EPool else
    let tin := (cp_ra p * amt) / (cp_rb p - amt) + 1 in
    Ok (mkCP (cp_a p) (cp_b p) (cp_ra p + tin) (cp_rb p - amt), (tin, amt))
  else if (dIn =? cp_b p) && (dOut =? cp_a p) then
    if cp_ra p <=? amt then Err EPool else
    let tin := (cp_rb p * amt) / (cp_ra p - amt) + 1 in
    Ok (mkCP (cp_a p) (cp_b p) (cp_ra p - amt) (cp_rb p + tin), (tin, amt))
  else Err EPool.

Definition cp_calc_out (p : cp) (dIn amt dOut spread : Z) : cp * result Z :=
  (p, match cp_swap_in p dIn amt dOut spread with Ok (_, (_, out)) => Ok out | Err e => Err e end).
Definition cp_calc_in (p : cp) (dOut amt dIn spread : Z) : cp * result Z :=
  (p, match cp_swap_out p dOut amt dIn spread with Ok (_, (tin, _)) => Ok tin | Err e => Err e end).

Definition CP : PoolIface := {|
  pool_state := cp;
  is_active := fun _ => true;
  spread_of := fun _ => 0;
  swap_in := cp_swap_in;
  swap_out := cp_swap_out;
  calc_out := cp_calc_out;
  calc_in := cp_calc_in |}.

Lemma CP_laws : PoolLaws CP.
Proof.
  constructor; simpl; intros.
  - reflexivity.
  - reflexivity.
  - unfold cp_calc_out; simpl. rewrite H. reflexivity.
  - unfold cp_calc_in; simpl. rewrite H. reflexivity.
Qed.

(* ---------------------------------------------------------------- a concrete chain state *)
(* denominations 1..4; pool 1: (1,2), pool 2: (2,3), pool 3: (3,4), pool 4: (1,3) *)
Definition ex_pools : list (Z * cp) :=
  [(1, mkCP 1 2 5000000 6000000); (2, mkCP 2 3 10000000 10000000); (3, mkCP 3 4 8000000 2000000); (4, mkCP 1 3 7000000 9000000)].
Definition ex_bank : bank :=
  fun a d => match a with Trader _ => 1000000000 | PoolAcc _ => 100000000 | _ => 0 end.
(* default taker fee 0.15 %, pair (2,3) 1 %, pair (3,4) zero *)
Definition ex_fee (a b : Z) : Z :=
  if (a =? 2) && (b =? 3) then 10000000000000000 else if (a =? 3) && (b =? 4) then 0 else 1500000000000000.
(* trader 7 is on the reduced-fee whitelist *)
Definition ex_state : state CP :=
  @mkState CP ex_pools ex_bank ex_fee (fun a => match a with Trader 7 => true | _ => false end) (fun _ => None).
(* the same chain with taker-fee share agreements of 60 % on denoms 1 and 3 *)
Definition ex_state_skim : state CP :=
  @mkState CP ex_pools ex_bank ex_fee (fun _ => false) (fun d => if (d =? 1) || (d =? 3) then Some 600000000000000000 else None).

Definition res_val {A} (r : result (A * Z)) : Z := match r with Ok (_, v) => v | Err _ => -1 end.
Definition res_err {A} (r : result A) : option err := match r with Ok _ => None | Err e => Some e end.

(* ---------------------------------------------------------------- witnesses used by Properties/C05.v *)
Definition wl_route : list (Z * Z) := [(1, 2); (2, 3); (3, 4)].
Lemma nodup_wl_route : NoDup (map fst wl_route).
Proof. repeat constructor; cbn; intuition discriminate. Qed.
Lemma res_val_ok : forall (r : result (state CP * Z)) v, res_val r = v -> v <> -1 -> exists s', r = Ok (s', v).
Proof. intros [[s' x]|e] v H N; simpl in H; [exists s'; congruence|congruence]. Qed.

(* a whitelisted sender (Trader 7): the routed swap delivers 2985, the estimate on the same state says 2951 *)
Lemma whitelisted_witness : exists s',
  route_exact_in CP ex_state (Trader 7) wl_route 1 10000 1 = Ok (s', 2985) /\
  snd (estimate_in CP ex_state wl_route 1 10000) = Ok 2951.
Proof.
  destruct (res_val_ok (route_exact_in CP ex_state (Trader 7) wl_route 1 10000 1) 2985) as [s' E];
    [vm_compute; reflexivity|discriminate|].
  exists s'. split; [exact E|vm_compute; reflexivity].
Qed.

(* the same pool twice: the routed swap delivers 99702, the estimate says 95873 *)
Lemma repeated_pool_witness : exists s',
  route_exact_in CP ex_state (Trader 0) [(1, 2); (1, 1)] 1 100000 1 = Ok (s', 99702) /\
  snd (estimate_in CP ex_state [(1, 2); (1, 1)] 1 100000) = Ok 95873.
Proof.
  destruct (res_val_ok (route_exact_in CP ex_state (Trader 0) [(1, 2); (1, 1)] 1 100000 1) 99702) as [s' E];
    [vm_compute; reflexivity|discriminate|].
  exists s'. split; [exact E|vm_compute; reflexivity].
Qed.

(* share agreements of 60 % on denoms 1 and 3: the two-hop message fails in TakerFeeSkim, its hops succeed *)
Lemma skim_witness :
  res_err (handle CP ex_state_skim (MSwapIn (Trader 0) [(1, 2); (2, 3)] 1 10000 1)) = Some ESkim /\
  res_err (match handle CP ex_state_skim (MSwapIn (Trader 0) [(1, 2)] 1 10000 1) with
           | Err e => Err e
           | Ok (s1, out) => handle CP s1 (MSwapIn (Trader 0) [(2, 3)] 2 out 1)
           end) = None.
Proof. split; vm_compute; reflexivity. Qed.

Lemma nonvacuous_witness :
  NoDup (map fst wl_route) /\ fee_neutral CP ex_state (Trader 0) /\
  res_val (route_exact_in CP ex_state (Trader 0) wl_route 1 10000 2951) = 2951 /\
  res_err (route_exact_in CP ex_state (Trader 0) wl_route 1 10000 2952) = Some ELimit /\
  snd (estimate_in CP ex_state wl_route 1 10000) = Ok 2951 /\
  res_val (route_exact_out CP ex_state (Trader 0) [(1, 1); (2, 2)] 4223 3 5000) = 4223 /\
  snd (estimate_out CP ex_state [(1, 1); (2, 2)] 3 5000) = Ok 4223 /\
  res_err (route_exact_out CP ex_state (Trader 0) [(1, 1); (2, 2)] 4222 3 5000) = Some ELimit /\
  res_val (split_exact_in CP ex_state (Trader 0) [([(1, 2); (2, 3)], 10000); ([(4, 3)], 20000)] 1 37426) = 37426 /\
  res_val (route_exact_in CP ex_state (Trader 0) [(1, 2); (2, 3)] 1 10000 1) = 11824 /\
  res_val (split_exact_out CP ex_state (Trader 0) [([(1, 1); (2, 2)], 5000); ([(4, 1)], 7000)] 3 9681) = 9681.
Proof.
  split; [exact nodup_wl_route|]. split; [left; reflexivity|].
  repeat split; vm_compute; reflexivity.
Qed.
