(* C05: a concrete, executable pool instance - an exact constant-product integer pool with truncation - for which
   the two laws of the pool interface are PROVED (not assumed), so that the parametric theorems of C05/Proofs.v are
   instantiated and runnable; plus the concrete witnesses used by Properties/C05.v (non-vacuity examples and the
   documented counterexamples: repeated pools, whitelisted sender). *)
From Coq Require Import ZArith List Bool Lia.
Import ListNotations.
From Osmo Require Import Base.DecModel C05.Model C05.Proofs.
Open Scope Z_scope.

(* two denominations a, b with reserves ra, rb; x*y=k, outputs rounded down, inputs rounded up (floor + 1) *)
Record cp := mkCP { cp_a : Z; cp_b : Z; cp_ra : Z; cp_rb : Z }.

Definition cp_swap_in (p : cp) (dIn amt dOut spread : Z) : result (cp * (Z * Z)) :=
  if amt <=? 0 then Err EPool
  else if (dIn =? cp_a p) && (dOut =? cp_b p) then
    let out := (cp_rb p * amt) / (cp_ra p + amt) in
    Ok (mkCP (cp_a p) (cp_b p) (cp_ra p + amt) (cp_rb p - out), (amt, out))
  else if (dIn =? cp_b p) && (dOut =? cp_a p) then
    let out := (cp_ra p * amt) / (cp_rb p + amt) in
    Ok (mkCP (cp_a p) (cp_b p) (cp_ra p - out) (cp_rb p + amt), (amt, out))
  else Err EPool.

Definition cp_swap_out (p : cp) (dOut amt dIn spread : Z) : result (cp * (Z * Z)) :=
  if amt <=? 0 then Err EPool
  else if (dIn =? cp_a p) && (dOut =? cp_b p) then
    if cp_rb p <=? amt then Err EPool else
    let tin := (cp_ra p * amt) / (cp_rb p - amt) + 1 in
    Ok (mkCP (cp_a p) (cp_b p) (cp_ra p + tin) (cp_rb p - amt), (tin, amt))
  else if (dIn =? cp_b p) && (dOut =? cp_a p) then
    if cp_ra p <=? amt then Err EPool else
    let tin := (cp_rb p * amt) / (cp_ra p - amt) + 1 in
    Ok (mkCP (cp_a p) (cp_b p) (cp_ra p - amt) (cp_rb p + tin), (tin, amt))
  else Err EPool.

Definition cp_calc_out (p : cp) (dIn amt dOut spread : Z) : cp * result Z :=
  (p, match cp_swap_in p dIn amt dOut spread with Ok (_, (_, out)) => Ok out | Err e => Err e end).
Definition cp_calc_in (p : cp) (dOut amt dIn spread : Z) : cp * result Z :=
  (p, match cp_swap_out p dOut amt dIn spread with Ok (_, (tin, _)) => Ok tin | Err e => Err e end).

Definition CP : PoolIface := {|
  pool_state := cp;
  is_active := fun _ => true;
  spread_of := fun _ => 0;
  swap_in := cp_swap_in;
  swap_out := cp_swap_out;
  calc_out := cp_calc_out;
  calc_in := cp_calc_in |}.

Lemma CP_laws : PoolLaws CP.
Proof.
  constructor; simpl; intros.
  - reflexivity.
  - reflexivity.
  - unfold cp_calc_out; simpl. rewrite H. reflexivity.
  - unfold cp_calc_in; simpl. rewrite H. reflexivity.
Qed.

(* ---------------------------------------------------------------- a concrete chain state *)
(* denominations 1..4; pool 1: (1,2), pool 2: (2,3), pool 3: (3,4), pool 4: (1,3) *)
Definition ex_pools : list (Z * cp) :=
  [(1, mkCP 1 2 5000000 6000000); (2, mkCP 2 3 10000000 10000000); (3, mkCP 3 4 8000000 2000000); (4, mkCP 1 3 7000000 9000000)].
Definition ex_bank : bank :=
  fun a d => match a with Trader _ => 1000000000 | PoolAcc _ => 100000000 | _ => 0 end.
(* default taker fee 0.15 %, pair (2,3) 1 %, pair (3,4) zero *)
Definition ex_fee (a b : Z) : Z :=
  if (a =? 2) && (b =? 3) then 10000000000000000 else if (a =? 3) && (b =? 4) then 0 else 1500000000000000.
(* trader 7 is on the reduced-fee whitelist *)
Definition ex_state : state CP :=
  @mkState CP ex_pools ex_bank ex_fee (fun a => match a with Trader 7 => true | _ => false end) (fun _ => None).
(* the same chain with taker-fee share agreements of 60 % on denoms 1 and 3 *)
Definition ex_state_skim : state CP :=
  @mkState CP ex_pools ex_bank ex_fee (fun _ => false) (fun d => if (d =? 1) || (d =? 3) then Some 600000000000000000 else None).

Definition res_val {A} (r : result (A * Z)) : Z := match r with Ok (_, v) => v | Err _ => -1 end.
Definition res_err {A} (r : result A) : option err := match r with Ok _ => None | Err e => Some e end.
