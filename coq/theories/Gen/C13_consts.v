(* GENERATED on every run by props/c13.py translate() from /repo/osmomath/{exp2,decimal,math,sqrt,sigfig_round}.go.
   Do not edit: the C13 model and theorems are stated against these names, so a changed literal re-checks them. *)
From Coq Require Import ZArith List.
Import ListNotations.
Open Scope Z_scope.

(* exp2.go: numeratorCoefficients13Param / denominatorCoefficients13Param (raw x 10^36, with the .Neg() signs) *)
Definition exp2_num_coeffs : list Z :=
  [0xc097ce7bc90715b34bc745f7238b0a;
   0x43cc8a44a99570547e391ae754f60a;
   0xae20d93dd41e1a6098dc95cfc9624;
   0x107798285c92c0e3990ff7dff07ac;
   0xfaa0c8ba944ada58c17044aa26c;
   0x9043818b649b302857c5341a08;
   0x28101b743123fabb36f5998ce].
Definition exp2_den_coeffs : list Z :=
  [0xc097ce7bc90715b34b9f1000000000;
   (-0x41b24120f365592e89bf60def3d69f);
   0xa277f5788feb87f87db4386fade6f;
   (-0xeabba581bf0ef67bdbcf18d08a66);
   0xd2c23e7251cd0ad14c26179ecf1;
   (-0x70a2145852e1d0965f7d6d28df);
   0x1c5429b900ee6fe8e74aa5a0c].
(* exp2.go: maxSupportedExponent = MustNewBigDecFromStr(base).PowerInteger(power) *)
Definition max_supported_exponent_base : Z := 0x1812f9cf7920e2b66973e2000000000.
Definition max_supported_exponent_power : Z := 9.
(* decimal.go *)
Definition max_log2_iterations : nat := 300.
Definition log_of_e_base2 : Z := 0x115da5b7461bf80d169739d30df7929.
Definition tick_log_of_2 : Z := 0x71cd89a50de980ef9634c417588.
Definition two_bigdec : Z := 0x1812f9cf7920e2b66973e2000000000.
(* math.go *)
Definition pow_precision : Z := 0x2540be400.
Definition pow_iteration_limit : Z := 150000.
Definition pow_one_half : Z := 0x6f05b59d3b20000.
Definition pow_two : Z := 0x1bc16d674ec80000.
(* sqrt.go: tenTo18, tenTo36 = tenTo18 * tenTo18 *)
Definition sqrt_scale_dec : Z := 0xde0b6b3a7640000.
Definition sqrt_scale_bigdec : Z := sqrt_scale_dec * sqrt_scale_dec.
(* sigfig_round.go: pointOne = OneDec().QuoInt64(n); loop multiplier; NewInt(base) *)
Definition sigfig_point_one_div : Z := 10.
Definition sigfig_step : Z := 10.
Definition sigfig_base : Z := 10.
