(* GENERATED on every run by props/c20.py translate() from the `MsgServer` interfaces in
   /repo/x/{concentrated-liquidity/types,concentrated-liquidity/model,lockup/types,superfluid/types,tokenfactory/types}/tx.pb.go
   (cross-checked against the proto `service Msg` definitions). Do not edit: C20/Inventory.v proves that the model
   classifies every entry, so a new or renamed message breaks the build until it is modelled. *)
From Coq Require Import String List.
Import ListNotations.
Local Open Scope string_scope.

(* (module, Msg service method) *)
Definition c20_msgs : list (string * string) :=
  [ ("concentrated-liquidity", "CreatePosition");
    ("concentrated-liquidity", "WithdrawPosition");
    ("concentrated-liquidity", "AddToPosition");
    ("concentrated-liquidity", "CollectSpreadRewards");
    ("concentrated-liquidity", "CollectIncentives");
    ("concentrated-liquidity", "TransferPositions");
    ("concentrated-liquidity", "CreateConcentratedPool");
    ("lockup", "LockTokens");
    ("lockup", "BeginUnlockingAll");
    ("lockup", "BeginUnlocking");
    ("lockup", "ExtendLockup");
    ("lockup", "ForceUnlock");
    ("lockup", "SetRewardReceiverAddress");
    ("superfluid", "SuperfluidDelegate");
    ("superfluid", "SuperfluidUndelegate");
    ("superfluid", "SuperfluidUnbondLock");
    ("superfluid", "SuperfluidUndelegateAndUnbondLock");
    ("superfluid", "LockAndSuperfluidDelegate");
    ("superfluid", "CreateFullRangePositionAndSuperfluidDelegate");
    ("superfluid", "UnPoolWhitelistedPool");
    ("superfluid", "UnlockAndMigrateSharesToFullRangeConcentratedPosition");
    ("superfluid", "AddToConcentratedLiquiditySuperfluidPosition");
    ("superfluid", "UnbondConvertAndStake");
    ("tokenfactory", "CreateDenom");
    ("tokenfactory", "Mint");
    ("tokenfactory", "Burn");
    ("tokenfactory", "ChangeAdmin");
    ("tokenfactory", "SetDenomMetadata");
    ("tokenfactory", "SetBeforeSendHook");
    ("tokenfactory", "ForceTransfer") ].
