(* GENERATED on every run by props/c06.py translate() from /repo/x/lockup/{abci.go, keeper/msg_server.go, keeper/lock.go, types/keys.go}.
   Do not edit: the C06 model is stated against these names, so a changed literal re-checks model, proofs and correspondence.
   The translator also checks shapes the model assumes and fails otherwise: the six message handlers of msg_server.go,
   the store key prefixes of keys.go (pairwise distinct single bytes, separator 0xFF), accumulationStore = sumtree per denomination. *)
From Coq Require Import ZArith.
Open Scope Z_scope.
(* abci.go EndBlocker: matured locks are withdrawn when BlockHeight % endblock_period == 0, at most num_locks_to_delete of them *)
Definition endblock_period : Z := 120.
Definition num_locks_to_delete : Z := 1000.
(* msg_server.go: number of message handlers (LockTokens, BeginUnlocking, BeginUnlockingAll, ExtendLockup, ForceUnlock, SetRewardReceiverAddress) *)
Definition msg_handler_count : Z := 6.
(* lock.go accumulationStore: fan-out of the per-denomination sum-tree (not used by the model, which abstracts the tree as a sorted map) *)
Definition sumtree_fanout : Z := 10.
