(* GENERATED on every run by props/c10.py translate() from /repo/x/twap/{types/utils.go,store.go,strategy.go} and
   x/gamm/types/constants.go. Do not edit: the C10 model is stated against these names. *)
From Coq Require Import ZArith List.
Import ListNotations.
Open Scope Z_scope.

(* twap types.MaxSpotPriceBigDec = BigDecFromDec(NewDec(b).Power(p).Sub(OneDec())), raw x 10^36 *)
Definition max_spot_price_bigdec : Z := 340282366920938463463374607431768211455 * 10 ^ 36.
(* twap NumRecordsToPrunePerBlock *)
Definition prune_limit_default : Z := 200.
(* gammtypes.SpotPriceSigFigs = NewDec(b).Power(SigFigsExponent).TruncateInt() *)
Definition sig_figs : Z := 100000000.
(* osmomath/exp2.go: numeratorCoefficients13Param / denominatorCoefficients13Param (raw x 10^36, .Neg() applied) *)
Definition exp2_num : list Z :=
  [0xc097ce7bc90715b34bc745f7238b0a;
   0x43cc8a44a99570547e391ae754f60a;
   0xae20d93dd41e1a6098dc95cfc9624;
   0x107798285c92c0e3990ff7dff07ac;
   0xfaa0c8ba944ada58c17044aa26c;
   0x9043818b649b302857c5341a08;
   0x28101b743123fabb36f5998ce].
Definition exp2_den : list Z :=
  [0xc097ce7bc90715b34b9f1000000000;
   (-0x41b24120f365592e89bf60def3d69f);
   0xa277f5788feb87f87db4386fade6f;
   (-0xeabba581bf0ef67bdbcf18d08a66);
   0xd2c23e7251cd0ad14c26179ecf1;
   (-0x70a2145852e1d0965f7d6d28df);
   0x1c5429b900ee6fe8e74aa5a0c].
(* exp2.go maxSupportedExponent = MustNewBigDecFromStr(b).PowerInteger(p), as an integer *)
Definition exp2_max_exponent : Z := 512.
(* decimal.go maxLog2Iterations, twoBigDec *)
Definition log2_iterations : nat := 300.
Definition two_bd : Z := 2000000000000000000000000000000000000.
