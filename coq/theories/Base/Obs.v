(* Shared helpers for the correspondence check: observables are flattened to [list Z] on both
   sides (implementation: by the harness; model: by a [flat_*] function) and compared here. *)
From Coq Require Import ZArith List Bool.
Import ListNotations.
Open Scope Z_scope.

Fixpoint zlist_eqb (a b : list Z) : bool :=
  match a, b with
  | [], [] => true
  | x :: a', y :: b' => (x =? y) && zlist_eqb a' b'
  | _, _ => false
  end.

Fixpoint mismatches_from {A} (ok : A -> bool) (i : nat) (l : list A) : list nat :=
  match l with
  | [] => []
  | x :: r => if ok x then mismatches_from ok (S i) r else i :: mismatches_from ok (S i) r
  end.
Definition mismatches {A} (ok : A -> bool) (l : list A) : list nat := mismatches_from ok 0%nat l.

Definition b2z (b : bool) : Z := if b then 1 else 0.
