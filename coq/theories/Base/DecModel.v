(* Shared value-level model of osmomath.BigDec (36 decimals) and cosmossdk.io/math LegacyDec
   (18 decimals, aliased as osmomath.Dec), on raw integers: a decimal is its big.Int mantissa.
   Mirrors /repo/osmomath/decimal.go and cosmossdk.io/math@v1.5.3/legacy_dec.go function by
   function, *as written* (sign handling included).  Go's big.Int Quo/Rem/QuoRem are truncated
   division = Z.quot / Z.rem.  Definitions only; lemmas live in C12/.  *)
From Coq Require Import ZArith Bool.
Open Scope Z_scope.

Definition P36 : Z := 10 ^ 36.
Definition P18 : Z := 10 ^ 18.
Definition P72 : Z := 10 ^ 72.
Definition max_bit_len : Z := 1024.
Definition max_dec_bit_len : Z := 1144.        (* maxBitLen + BigDecimalPrecisionBits *)

Definition bitlen (z : Z) : Z := if z =? 0 then 0 else Z.log2 (Z.abs z) + 1.
Definition bd_fits (z : Z) : bool := bitlen z <=? max_dec_bit_len.       (* assertMaxBitLen *)
(* LegacyDec upperLimit: init() builds "2^256 * 10^18 - 1" as a raw mantissa (checked against the Go code by
   the C12 correspondence: raw 2^256*10^18 - 1 is accepted by AddMut, raw 2^256*10^18 panics) *)
Definition upper_limit18 : Z := 2 ^ 256 * P18 - 1.
Definition d_fits (z : Z) : bool := (z <=? upper_limit18) && (- upper_limit18 <=? z). (* IsInValidRange *)

(* -- rounding helpers, parametric in the chopped precision p (10^36 or 10^18) -- *)
(* chopPrecisionAndRound: bankers rounding of d / p, via |d| *)
Definition chop_round_nonneg (p a : Z) : Z :=
  let q := Z.quot a p in let r := Z.rem a p in
  if r =? 0 then q else
  match r ?= Z.quot p 2 with
  | Lt => q
  | Gt => q + 1
  | Eq => if Z.even q then q else q + 1
  end.
Definition chop_round (p d : Z) : Z :=
  if d <? 0 then - chop_round_nonneg p (- d) else chop_round_nonneg p d.
Definition chop_trunc (p d : Z) : Z := Z.quot d p.                  (* chopPrecisionAndTruncate *)
Definition inc_based_on_rem (rem d : Z) : Z := if rem =? 0 then d else d + 1.
(* chopPrecisionAndRoundUpMut *)
Definition chop_round_up (p d : Z) : Z :=
  if d <? 0 then - Z.quot (- d) p else inc_based_on_rem (Z.rem d p) (Z.quot d p).

(* -- BigDec (raw values x 10^36) -- *)
Definition bd_add (a b : Z) : Z := a + b.
Definition bd_sub (a b : Z) : Z := a - b.
Definition bd_mul (a b : Z) : Z := chop_round P36 (a * b).
Definition bd_mul_dec (a b18 : Z) : Z := chop_round P18 (a * b18).
Definition bd_mul_truncate (a b : Z) : Z := chop_trunc P36 (a * b).
Definition bd_mul_truncate_dec (a b18 : Z) : Z := chop_trunc P18 (a * b18).
Definition bd_mul_round_up (a b : Z) : Z := chop_round_up P36 (a * b).
Definition bd_mul_round_up_dec (a b18 : Z) : Z := chop_round_up P18 (a * b18).
Definition bd_mul_int (a i : Z) : Z := a * i.
(* Quo: a*10^72 quot b, then bankers chop by 10^36 *)
Definition bd_quo (a b : Z) : Z := chop_round P36 (Z.quot (a * P72) b).
Definition bd_quo_raw (a i : Z) : Z := chop_round P36 (Z.quot (a * P36) i).
Definition bd_quo_truncate (a b : Z) : Z := Z.quot (a * P36) b.
Definition bd_quo_truncate_dec (a b18 : Z) : Z := Z.quot (a * P18) b18.
(* incBasedOnRemAndDivisor: increment iff remainder non-zero and of the divisor's sign *)
Definition inc_rem_div (rem divisor d : Z) : Z :=
  if (rem =? 0) || negb (Z.sgn rem =? Z.sgn divisor) then d else d + 1.
Definition bd_quo_round_up (a b : Z) : Z :=
  let m := a * P36 in inc_rem_div (Z.rem m b) b (Z.quot m b).
Definition bd_quo_by_dec_round_up (a b18 : Z) : Z :=
  let m := a * P18 in inc_rem_div (Z.rem m b18) b18 (Z.quot m b18).
Definition bd_quo_round_up_mut (a b : Z) : Z := bd_quo_round_up a b.
Definition bd_quo_round_up_next_int_mut (a b : Z) : Z :=
  inc_rem_div (Z.rem a b) b (Z.quot a b) * P36.
Definition bd_quo_int (a i : Z) : Z := Z.quot a i.
Definition bd_ceil (a : Z) : Z :=
  let q := Z.quot a P36 in let r := Z.rem a P36 in
  if r <=? 0 then q * P36 else (q + 1) * P36.
Definition bd_truncate_int (a : Z) : Z := Z.quot a P36.
Definition bd_truncate_dec (a : Z) : Z := Z.quot a P36 * P36.
Definition bd_round_int (a : Z) : Z := chop_round P36 a.
Definition bd_to_dec (a : Z) : Z := Z.quot a P18.                           (* BigDec.Dec: truncation *)
Definition bd_to_dec_round_up (a : Z) : Z := inc_rem_div (Z.rem a P18) P18 (Z.quot a P18). (* DecRoundUp *)
Definition bd_from_dec (d18 : Z) : Z := d18 * P18.                          (* BigDecFromDec *)
Definition bd_from_int (i : Z) : Z := i * P36.
Definition bd_from_dec_mul_dec (a18 b18 : Z) : Z := a18 * b18.              (* NewBigDecFromDecMulDec *)
(* ChopPrecision(k): keep k decimals, truncating (k <= 36) *)
Definition bd_chop_precision (k : Z) (a : Z) : Z := let f := 10 ^ (36 - k) in Z.quot a f * f.
(* DecWithPrecision(k): truncate to k decimals (k <= 18), as an 18-decimal value *)
Definition bd_dec_with_precision (k : Z) (a : Z) : Z := Z.quot a (10 ^ (36 - k)) * 10 ^ (18 - k).

(* -- LegacyDec (raw values x 10^18) -- *)
Definition d_mul (a b : Z) : Z := chop_round P18 (a * b).
Definition d_mul_truncate (a b : Z) : Z := chop_trunc P18 (a * b).
Definition d_chop_round_up (d : Z) : Z :=                                 (* legacy chopPrecisionAndRoundUp *)
  if d <? 0 then - Z.quot (- d) P18
  else let q := Z.quot d P18 in if Z.rem d P18 =? 0 then q else q + 1.
Definition d_mul_round_up (a b : Z) : Z := d_chop_round_up (a * b).
Definition d_mul_int (a i : Z) : Z := a * i.
Definition d_quo (a b : Z) : Z := chop_round P18 (Z.quot (a * (P18 * P18)) b).
Definition d_quo_truncate (a b : Z) : Z := Z.quot (a * P18) b.
(* QuoRoundupMut of v1.5.3: after QuoRem the receiver already holds the quotient, so
   "d.IsNegative()" is the sign of the (truncated) quotient *)
Definition d_quo_round_up (a b : Z) : Z :=
  let m := a * P18 in let q := Z.quot m b in let r := Z.rem m b in
  let qneg := q <? 0 in let bneg := b <? 0 in
  if ((0 <? r) && Bool.eqb qneg bneg) || ((r <? 0) && negb (Bool.eqb qneg bneg)) then q + 1 else q.
Definition d_quo_int (a i : Z) : Z := Z.quot a i.
Definition d_ceil (a : Z) : Z :=
  let q := Z.quot a P18 in let r := Z.rem a P18 in
  if 0 <? r then (q + 1) * P18 else q * P18.
Definition d_truncate_int (a : Z) : Z := Z.quot a P18.
Definition d_round_int (a : Z) : Z := chop_round P18 a.
Definition d_truncate_dec (a : Z) : Z := Z.quot a P18 * P18.
Definition d_from_int (i : Z) : Z := i * P18.

(* LegacyDec.PowerMut(power): square-and-multiply with rounded multiplications *)
Fixpoint d_power_loop (fuel : nat) (d tmp : Z) (i : Z) : Z * Z :=
  match fuel with
  | O => (d, tmp)
  | S f => if 1 <? i then
             let tmp' := if Z.odd i then d_mul tmp d else tmp in
             d_power_loop f (d_mul d d) tmp' (Z.quot i 2)
           else (d, tmp)
  end.
Definition d_power (d : Z) (power : Z) : Z :=
  if power =? 0 then P18 else
  let '(d', tmp) := d_power_loop 64 d P18 power in d_mul d' tmp.
