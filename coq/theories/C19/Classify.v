(* C19 - hand-written classification of the map-iteration sites that the scanner reports as Escaping, and the
   totality check against the generated inventory. A new (or edited) escaping site makes [all_sites_classified] fail:
   the build breaks and the check reports the site (file, function) that is not covered. *)
From Coq Require Import ZArith String List Bool Permutation.
Import ListNotations.
From Osmo Require Import C19.Perm C19.Sites C19.SiteTypes Gen.C19_sites.
Open Scope string_scope.

Inductive verdict : Type :=
| OrderCannotEscape : forall (model_theorem : Prop), model_theorem -> verdict  (* proved for the site's model *)
| NotStateAffecting : string -> verdict.                                       (* node-local / telemetry *)

Record entry := mkEntry { e_file : string; e_func : string; e_hash : string; e_verdict : verdict }.

Definition table : list entry := [
  (* registers commit listeners of the node-local ingest services (SQS / indexer); rootmulti.AddListeners inserts every
     key into a map, nothing reaches consensus state *)
  mkEntry "app/app.go" "registerStoreKeys" "8a69ce6d730d"
    (NotStateAffecting "node-local streaming listeners; AddListeners stores each key in a map");
  (* telemetry gauge per mempool lane *)
  mkEntry "app/lanes.go" "LanedMempoolWithTelemetry.emitTxDistributionMetric" "c89c5a921926"
    (NotStateAffecting "telemetry only");
  (* both loops of DisjointArrays feed one slice that is sorted before it is returned *)
  mkEntry "osmoutils/compare.go" "DisjointArrays" "0166162aac63"
    (OrderCannotEscape _ disjoint_arrays_perm_invariant);
  mkEntry "osmoutils/compare.go" "DisjointArrays" "7e38af4a69b4"
    (OrderCannotEscape _ disjoint_arrays_perm_invariant);
  mkEntry "osmoutils/partialord/internal/dag/dag.go" "DAG.hasIncomingEdge" "55d8d8f34c8f"
    (OrderCannotEscape _ exists_site_perm_invariant);
  (* writes each selected lock at its own precomputed index *)
  mkEntry "x/incentives/keeper/distribute.go" "Keeper.distributeSyntheticInternal" "14f2bdef1460"
    (OrderCannotEscape _ distribute_synthetic_perm_invariant);
  (* query: collects the gauges of every locked denom, then adds up their estimates (empty result if a lookup fails) *)
  mkEntry "x/incentives/keeper/gauge.go" "Keeper.GetRewardsEst" "cd988fb9081d"
    (OrderCannotEscape _ rewards_est_perm_invariant);
  (* one accumulation tree per synthetic denom: writes under disjoint key prefixes *)
  mkEntry "x/lockup/keeper/lock.go" "Keeper.RebuildSuperfluidAccumulationStoresForDenom" "c7d62267f76e"
    (OrderCannotEscape _ keyed_writes_perm_invariant);
  (* SetPoolForDenomPair(base, denom, pool): one store entry per (base denom, denom) pair *)
  mkEntry "x/protorev/keeper/epoch_hook.go" "Keeper.UpdatePools" "31850c389db5"
    (OrderCannotEscape _ keyed_writes_perm_invariant);
  mkEntry "x/protorev/keeper/epoch_hook.go" "Keeper.UpdatePools" "f28bf353375a"
    (OrderCannotEscape _ keyed_writes_perm_invariant);
  (* "does any value contain a float" *)
  mkEntry "x/smart-account/authenticator/message_filter.go" "checkForFloats" "f643a6274b8a"
    (OrderCannotEscape _ exists_site_perm_invariant)
].

Definition in_table (s : site) : bool :=
  existsb (fun e => same_site (e_file e) (e_func e) (e_hash e) s) table.

(* Pure and CollectSorted sites are discharged by the scanner's syntactic criterion
   (CollectSorted: Sites.collect_sorted_perm_invariant); every Escaping site needs a table entry *)
Definition classified (s : site) : bool :=
  match s_class s with Escaping => in_table s | _ => true end.

Definition unclassified : list site := filter (fun s => negb (classified s)) sites.
Definition stale : list entry :=
  filter (fun e => negb (existsb (same_site (e_file e) (e_func e) (e_hash e)) sites)) table.

Lemma scan_succeeded : scan_ok = true.
Proof. vm_compute. reflexivity. Qed.

Lemma all_sites_classified : forallb classified sites = true.
Proof. vm_compute. reflexivity. Qed.

(* ... and the table speaks about code that exists: every entry is a site of the current inventory *)
Lemma table_entries_exist : stale = [].
Proof. vm_compute. reflexivity. Qed.

Lemma inventory_not_empty : (10 <=? length sites)%nat = true.
Proof. vm_compute. reflexivity. Qed.

(* the same in logical form: every escaping site of the inventory has a table entry that names it *)
Lemma escaping_sites_have_entries : forall s, In s sites -> s_class s = Escaping ->
  exists e, In e table /\ e_file e = s_file s /\ e_func e = s_func s /\ e_hash e = s_hash s.
Proof.
  intros s Hin Hc. pose proof all_sites_classified as A. rewrite forallb_forall in A.
  specialize (A s Hin). unfold classified in A. rewrite Hc in A. unfold in_table in A.
  apply existsb_exists in A. destruct A as [e [He Hs]]. exists e; split; [assumption|].
  unfold same_site in Hs. apply andb_prop in Hs. destruct Hs as [Hs H3]. apply andb_prop in Hs. destruct Hs as [H1 H2].
  apply String.eqb_eq in H1, H2, H3. auto.
Qed.
