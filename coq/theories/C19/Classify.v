(* C19 - hand-written classification of the map-iteration sites that the scanner reports as Escaping, and the
   totality check against the generated inventory. A new (or edited) escaping site makes [all_sites_classified] fail:
   the build breaks and the check reports the site (file, function) that is not covered. *)
From Coq Require Import ZArith String List Bool Permutation.
Import ListNotations.
From Osmo Require Import C19.Perm C19.Sites C19.SiteTypes C19.Caches Gen.C19_sites Gen.C19_caches.
Open Scope string_scope.

Inductive verdict : Type :=
| OrderCannotEscape : forall (model_theorem : Prop), model_theorem -> verdict  (* proved for the site's model *)
| NotStateAffecting : string -> verdict.                                       (* node-local / telemetry *)

Record entry := mkEntry { e_file : string; e_func : string; e_hash : string; e_verdict : verdict }.

Definition table : list entry := [
  (* registers commit listeners of the node-local ingest services (SQS / indexer); rootmulti.AddListeners inserts every
     key into a map, nothing reaches consensus state *)
  mkEntry "app/app.go" "registerStoreKeys" "8a69ce6d730d"
    (NotStateAffecting "node-local streaming listeners; AddListeners stores each key in a map");
  (* telemetry gauge per mempool lane *)
  mkEntry "app/lanes.go" "LanedMempoolWithTelemetry.emitTxDistributionMetric" "c89c5a921926"
    (NotStateAffecting "telemetry only");
  (* both loops of DisjointArrays feed one slice that is sorted before it is returned *)
  mkEntry "osmoutils/compare.go" "DisjointArrays" "0166162aac63"
    (OrderCannotEscape _ disjoint_arrays_perm_invariant);
  mkEntry "osmoutils/compare.go" "DisjointArrays" "7e38af4a69b4"
    (OrderCannotEscape _ disjoint_arrays_perm_invariant);
  mkEntry "osmoutils/partialord/internal/dag/dag.go" "DAG.hasIncomingEdge" "55d8d8f34c8f"
    (OrderCannotEscape _ exists_site_perm_invariant);
  (* writes each selected lock at its own precomputed index *)
  mkEntry "x/incentives/keeper/distribute.go" "Keeper.distributeSyntheticInternal" "14f2bdef1460"
    (OrderCannotEscape _ distribute_synthetic_perm_invariant);
  (* query: collects the gauges of every locked denom, then adds up their estimates (empty result if a lookup fails) *)
  mkEntry "x/incentives/keeper/gauge.go" "Keeper.GetRewardsEst" "cd988fb9081d"
    (OrderCannotEscape _ rewards_est_perm_invariant);
  (* one accumulation tree per synthetic denom: writes under disjoint key prefixes *)
  mkEntry "x/lockup/keeper/lock.go" "Keeper.RebuildSuperfluidAccumulationStoresForDenom" "c7d62267f76e"
    (OrderCannotEscape _ keyed_writes_perm_invariant);
  (* SetPoolForDenomPair(base, denom, pool): one store entry per (base denom, denom) pair *)
  mkEntry "x/protorev/keeper/epoch_hook.go" "Keeper.UpdatePools" "31850c389db5"
    (OrderCannotEscape _ keyed_writes_perm_invariant);
  mkEntry "x/protorev/keeper/epoch_hook.go" "Keeper.UpdatePools" "f28bf353375a"
    (OrderCannotEscape _ keyed_writes_perm_invariant);
  (* "does any value contain a float" *)
  mkEntry "x/smart-account/authenticator/message_filter.go" "checkForFloats" "f643a6274b8a"
    (OrderCannotEscape _ exists_site_perm_invariant)
].

Definition in_table (s : site) : bool :=
  existsb (fun e => same_site (e_file e) (e_func e) (e_hash e) s) table.

(* Pure and CollectSorted sites are discharged by the scanner's syntactic criterion
   (CollectSorted: Sites.collect_sorted_perm_invariant); every Escaping site needs a table entry *)
Definition classified (s : site) : bool :=
  match s_class s with Escaping => in_table s | _ => true end.

Definition unclassified : list site := filter (fun s => negb (classified s)) sites.
Definition stale : list entry :=
  filter (fun e => negb (existsb (same_site (e_file e) (e_func e) (e_hash e)) sites)) table.

Lemma scan_succeeded : scan_ok = true.
Proof. vm_compute. reflexivity. Qed.

Lemma all_sites_classified : forallb classified sites = true.
Proof. vm_compute. reflexivity. Qed.

(* ... and the table speaks about code that exists: every entry is a site of the current inventory *)
Lemma table_entries_exist : stale = [].
Proof. vm_compute. reflexivity. Qed.

Lemma inventory_not_empty : (10 <=? length sites)%nat = true.
Proof. vm_compute. reflexivity. Qed.

(* the same in logical form: every escaping site of the inventory has a table entry that names it *)
Lemma escaping_sites_have_entries : forall s, In s sites -> s_class s = Escaping ->
  exists e, In e table /\ e_file e = s_file s /\ e_func e = s_func s /\ e_hash e = s_hash s.
Proof.
  intros s Hin Hc. pose proof all_sites_classified as A. rewrite forallb_forall in A.
  specialize (A s Hin). unfold classified in A. rewrite Hc in A. unfold in_table in A.
  apply existsb_exists in A. destruct A as [e [He Hs]]. exists e; split; [assumption|].
  unfold same_site in Hs. apply andb_prop in Hs. destruct Hs as [Hs H3]. apply andb_prop in Hs. destruct Hs as [H1 H2].
  apply String.eqb_eq in H1, H2, H3. auto.
Qed.

(* ===================================================================================================================== *)
(* in-memory state that outlives a transaction (Gen/C19_caches.v)                                                         *)
(* ===================================================================================================================== *)
Inductive cverdict : Type :=
| InitOnly : string -> cverdict            (* written only while the process starts (init(), app wiring): same on every node, rebuilt identically on restart *)
| CallLocal : string -> cverdict           (* field of an object created inside one keeper call; nothing survives the call *)
| NodeLocal : string -> cverdict           (* mempool / telemetry / RPC / test helper: never read by block execution *)
| UpgradeHandlerOnly : string -> cverdict  (* written and read inside one upgrade handler, as a function of committed state *)
| ConsensusCache : forall (rolled_back_on_tx_failure rebuilt_on_restart : bool) (model_fact : Prop), model_fact -> string -> cverdict.
                                           (* read by block execution: the two flags answer the two questions, the proposition is what
                                              is proved about its model, the string names the finding if one of the answers is "no" *)

Record centry := mkCEntry { ce_file : string; ce_owner : string; ce_hash : string; ce_verdict : cverdict }.

Definition cache_table : list centry := [
  mkCEntry "app/app.go" "DefaultNodeHome" "46df1d05e952" (InitOnly "init()");
  mkCEntry "app/app.go" "OsmosisApp.ModuleBasics" "6fffd3597dc1" (InitOnly "NewOsmosisApp");
  mkCEntry "app/app.go" "cachedReflectionService" "bcfa066061b6" (NodeLocal "gRPC reflection service of the node API");
  mkCEntry "app/genesis.go" "defaultGenesisState" "36cb5625ee5d" (NodeLocal "memoised default genesis for `init` / tests");
  mkCEntry "app/keepers/keepers.go" "AppKeepers.keys" "8fefba4f721d" (InitOnly "GenerateKeys at construction");
  mkCEntry "app/keepers/keepers.go" "AppKeepers.memKeys" "763fb636dd1a" (InitOnly "GenerateKeys at construction");
  mkCEntry "app/keepers/keepers.go" "AppKeepers.tkeys" "3631008349c1" (InitOnly "GenerateKeys at construction");
  mkCEntry "app/test_helpers.go" "defaultGenesisStatebytes" "65e8282bafce" (NodeLocal "test helper");
  mkCEntry "app/upgrades/v17/constants.go" "AssetPairs" "87c35c445a2f" (UpgradeHandlerOnly "v17: filled from pool state and consumed in the same handler");
  mkCEntry "osmoutils/module_account.go" "OsmoUtilsExtraAccountTypes" "7c97db414aac" (InitOnly "initReusablePackageInjections at construction");
  mkCEntry "osmoutils/sumtree/constants.go" "nodeKeyPrefix" "cd6894102b29" (InitOnly "init()");
  mkCEntry "x/concentrated-liquidity/math/precompute.go" "bigNegPowersOfTen" "ef95800f8650" (InitOnly "init(): table of constants");
  mkCEntry "x/concentrated-liquidity/math/precompute.go" "bigPowersOfTen" "bbfb14207481" (InitOnly "init(): table of constants");
  mkCEntry "x/concentrated-liquidity/math/precompute.go" "negPowersOfTen" "192d5f62728d" (InitOnly "init(): table of constants");
  mkCEntry "x/concentrated-liquidity/math/precompute.go" "powersOfTen" "7b97c873afa1" (InitOnly "init(): table of constants");
  mkCEntry "x/concentrated-liquidity/math/precompute.go" "tickExpCache" "ca051c36ab11" (InitOnly "buildTickExpCache, called from init()");
  mkCEntry "x/incentives/keeper/distribute.go" "DistributionValueCache.denomToMinValueMap" "da061b04e1de" (CallLocal "created per Distribute call");
  mkCEntry "x/incentives/keeper/distribute.go" "distributionInfo.lockOwnerAddrToID" "1f11a52207b9" (CallLocal "created per Distribute call");
  (* the pool id -> module route cache: an entry written by a rolled-back transaction survives, a restarted node starts empty *)
  mkCEntry "x/poolmanager/keeper.go" "Keeper.cachedPoolModules" "03fe2d059c17"
    (ConsensusCache false false _ pool_route_cache_restart_refuted "F19-16: gas of a failing swap on an unused pool id differs between a running and a restarted node");
  (* taker-fee share caches: written by gov-only messages inside the transaction (not rolled back), reloaded from the store
     in BeginBlock only while one of the two maps is empty; they live on the AppModule's copy of the keeper *)
  mkCEntry "x/poolmanager/keeper.go" "Keeper.cachedRegisteredAlloyPoolByAlloyDenomMap" "d02c5ec4b0c2"
    (ConsensusCache false true _ I "gov-only writers; not exercised by the dynamic check beyond the reload path");
  mkCEntry "x/poolmanager/keeper.go" "Keeper.cachedTakerFeeShareAgreementMap" "f929241e7d94"
    (ConsensusCache false true _ I "gov-only writers; not exercised by the dynamic check beyond the reload path");
  mkCEntry "x/smart-account/authenticator/manager.go" "AuthenticatorManager.registeredAuthenticators" "8661650b6887" (InitOnly "InitializeAuthenticators / RegisterAuthenticator in app wiring");
  mkCEntry "x/txfees/keeper/mempool-1559/code.go" "CurEipState" "a100b99639ca" (NodeLocal "EIP-1559 mempool base fee: CheckTx only");
  mkCEntry "x/txfees/keeper/mempool-1559/code.go" "TargetGas" "87c9491e2b2f" (NodeLocal "EIP-1559 mempool target gas");
  mkCEntry "x/txfees/module.go" "cachedConsParams" "51fa0c6bd5da" (NodeLocal "feeds TargetGas of the mempool fee market");
  mkCEntry "x/txfees/types/options.go" "GlobalMempool1559Enabled" "2fc8f24aa433" (InitOnly "node configuration")
].

Definition cclassified (s : csite) : bool :=
  existsb (fun e => same_csite (ce_file e) (ce_owner e) (ce_hash e) s) cache_table.
Definition cstale : list centry :=
  filter (fun e => negb (existsb (same_csite (ce_file e) (ce_owner e) (ce_hash e)) caches)) cache_table.

(* every piece of in-memory state the scanner finds is classified, under its current set of writing statements:
   a new cache, or an update / invalidation call added or dropped, breaks this lemma *)
Lemma all_caches_classified : forallb cclassified caches = true.
Proof. vm_compute. reflexivity. Qed.
Lemma cache_entries_exist : cstale = [].
Proof. vm_compute. reflexivity. Qed.
