(* C19 - vocabulary of Gen/C19_lockup_shape.v *)
Inductive kexpr :=
| KUnder      (* <period lock>.Duration : the (underlying) lock's duration *)
| KSynth      (* <synthetic lock>.Duration : the synthetic lock's duration *)
| KUnknown.   (* the translator did not recognise the code *)
