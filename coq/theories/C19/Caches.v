(* C19 - in-memory state that outlives a transaction (keeper fields / package variables of map or sync.Map type and
   other package-level variables written at run time), as listed by harness/c19scan in Gen/C19_caches.v.

   One of them is consensus relevant and modelled here: x/poolmanager Keeper.cachedPoolModules, the pool id -> swap
   module route cache (create_pool.go GetPoolModule / SetPoolRoute). A cache hit charges the gas a store read of the route
   would have cost, a committed SetPoolRoute invalidates the entry - but an entry written by a transaction that is later
   ROLLED BACK survives, and a restarted node does not have it. The model shows the consequence: the same transaction
   on the same committed state is answered with different gas by a node that has kept running and by one that was
   restarted (finding F19-16). *)
From Coq Require Import ZArith List Bool Lia.
Import ListNotations.
Open Scope Z_scope.

(* committed route store and the in-memory cache: pool id -> pool type (1 balancer, 2 stableswap, 3 concentrated, ...) *)
Definition pmap := list (Z * Z).
Fixpoint pget (k : Z) (m : pmap) : option Z :=
  match m with [] => None | (k', v) :: r => if k =? k' then Some v else pget k r end.
Definition pset (k v : Z) (m : pmap) : pmap := (k, v) :: m.
Fixpoint pdel (k : Z) (m : pmap) : pmap :=
  match m with [] => [] | (k', v) :: r => if k =? k' then pdel k r else (k', v) :: pdel k r end.

Record node := mkN { routes : pmap; pools : pmap; cache : pmap }.

(* gas of one KV read, as the gaskv store charges it: flat + per byte of key and value *)
Definition read_flat : Z := 1000.
Definition read_per_byte : Z := 3.
Definition route_key_len : Z := 9.   (* prefix byte + big-endian uint64 *)
Definition route_val_len : Z := 2.   (* protobuf ModuleRoute{PoolType} *)
Definition pool_key_len : Z := 9.

(* create_pool.go GetPoolModule: (module found?, gas charged, cache afterwards) *)
Definition get_pool_module (n : node) (id : Z) : option Z * Z * pmap :=
  match pget id (cache n) with
  | Some ty => (Some ty, read_flat + read_per_byte * route_key_len + read_per_byte * route_val_len, cache n)   (* ChargeMockReadGas *)
  | None =>
      match pget id (routes n) with
      | Some ty => (Some ty, read_flat + read_per_byte * route_key_len + read_per_byte * route_val_len, pset id ty (cache n))
      | None => (None, read_flat + read_per_byte * route_key_len, cache n)                                       (* FailedToFindRouteError *)
      end
  end.

(* create_pool.go SetPoolRoute: store write + cache.Delete(poolId) *)
Definition set_pool_route (n : node) (id ty : Z) : node :=
  mkN (pset id ty (routes n)) (pools n) (pdel id (cache n)).

(* a swap message on pool [id]: route lookup, then the module reads the pool; result = (succeeds?, gas) *)
Definition swap (n : node) (id : Z) : bool * Z * node :=
  let '(m, g, c) := get_pool_module n id in
  match m with
  | None => (false, g, mkN (routes n) (pools n) c)
  | Some _ =>
      match pget id (pools n) with
      | Some _ => (true, g + read_flat + read_per_byte * pool_key_len + 100, mkN (routes n) (pools n) c)
      | None => (false, g + read_flat + read_per_byte * pool_key_len, mkN (routes n) (pools n) c)   (* "pool with ID does not exist" *)
      end
  end.

(* a transaction [create pool id of type ty; swap through it; failing message]: the store is rolled back, the cache is not *)
Definition failed_create_and_swap (n : node) (id ty : Z) : node :=
  let n1 := mkN (pset id ty (routes n)) (pset id ty (pools n)) (pdel id (cache n)) in
  let '(_, _, n2) := swap n1 id in
  mkN (routes n) (pools n) (cache n2).

(* restart: same committed state, empty cache *)
Definition restart (n : node) : node := mkN (routes n) (pools n) [].

(* what does hold: a COMMITTED SetPoolRoute leaves no stale entry for that id *)
Lemma pget_pdel_same : forall id m, pget id (pdel id m) = None.
Proof.
  intros id m; induction m as [|[k v] r IH]; cbn [pdel pget]; [reflexivity|].
  destruct (id =? k) eqn:E; [exact IH|]. cbn [pget]. now rewrite E.
Qed.
Theorem set_pool_route_invalidates : forall n id ty, pget id (cache (set_pool_route n id ty)) = None.
Proof. intros; apply pget_pdel_same. Qed.

(* what does not: after a rolled-back creation the running node and the restarted node answer the same swap differently *)
Theorem pool_route_cache_restart_refuted :
  exists n id ty,
    let a := failed_create_and_swap n id ty in
    routes a = routes (restart a) /\ pools a = pools (restart a) /\
    fst (fst (swap a id)) = fst (fst (swap (restart a) id)) /\       (* both fail *)
    snd (fst (swap a id)) <> snd (fst (swap (restart a) id)).          (* with different gas *)
Proof. exists (mkN [] [] []), 15, 1. vm_compute. repeat split; discriminate. Qed.
