(* C19 correspondence glue: the modelled import functions evaluated on genesis data exported by the real application
   (harness/c19drv), compared with what the real application re-exports after InitChain. *)
From Coq Require Import ZArith List Bool.
Import ListNotations.
From Osmo Require Import Base.Obs C17.Model C19.Sites C19.Genesis.
Open Scope Z_scope.

(* epochs: (import height, import block time, exported timers, timers re-exported after the import) *)
Record ecase := mkECase { ec_h : Z; ec_t : Z; ec_orig : list einfo; ec_reimp : list einfo }.
Definition flat_e (e : einfo) : list Z :=
  [e_id e; e_start e; e_dur e; e_cur e; e_cur_start e; b2z (e_started e); e_height e].
Definition ecase_ok (c : ecase) : bool :=
  match import_epochs (ec_h c) (ec_t c) (ec_orig c) with
  | Some l => zlist_eqb (flat_map flat_e l) (flat_map flat_e (ec_reimp c))
  | None => false
  end.

(* keyed records (lockup: lock id -> locked amount, last_lock_id): exported (sorted by id), re-exported *)
Record kcase := mkKCase { kc_recs : list (Z * Z); kc_last : Z; kc_recs' : list (Z * Z); kc_last' : Z }.
Definition flat_kv (l : list (Z * Z)) : list Z := flat_map (fun kv => [fst kv; snd kv]) l.
Fixpoint increasing_b (l : list (Z * Z)) : bool :=
  match l with
  | [] => true
  | kv :: r => forallb (fun x => fst kv <? fst x) r && increasing_b r
  end.
Definition kcase_ok (c : kcase) : bool :=
  let s := kimport (kc_recs c, kc_last c) in
  zlist_eqb (flat_kv (fst (kexport s))) (flat_kv (kc_recs' c)) && (snd (kexport s) =? kc_last' c) &&
  (* the well-formedness the round-trip theorem assumes, checked on the real data *)
  increasing_b (kc_recs c) && forallb (fun x => fst x <=? kc_last c) (kc_recs c) && (total s =? sum_vals (kc_recs c)).

(* lockup genesis import: the modelled InitGenesis on the real exported locks / synthetic locks, against the accumulation
   values the real re-imported chain answers (GetPeriodLocksAccumulation) for (denom, duration) probes *)
From Osmo Require Import C19.LockupGenesis.
Record lcase := mkLCase { lc_g : lgenesis; lc_probes : list (Z * Z * Z) }.      (* denom, duration, observed value *)
Definition lcase_ok (c : lcase) : bool :=
  match import_lockup (export_lockup (lc_g c)) with
  | Some t => forallb (fun p => tree_acc t (fst (fst p)) (snd (fst p)) =? snd p) (lc_probes c)
  | None => false
  end.
