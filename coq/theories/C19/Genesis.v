(* C19 - export / import round trip for two modelled module states:
     (1) x/epochs: the timer state of C17/Model.v; ExportGenesis = AllEpochInfos, InitGenesis = AddEpochInfo per timer
         (which overwrites CurrentEpochStartHeight with the import height - as the code does);
     (2) a generic "keyed records + counter + derived total" module standing for lockup / incentives / twap-like
         modules: records by id in a sorted store, a last-id counter, and a derived aggregate that is NOT exported
         but rebuilt at import (as lockup's accumulation store is).
   For both: import (export s) is observationally equal to s, and running any history from the two gives equal
   observations. PARTIAL: every other module is outside these theorems (see Properties/C19.v). *)
From Coq Require Import ZArith List Bool Lia Permutation.
Import ListNotations.
From Osmo Require Import C17.Model C19.Perm C19.Sites.
Open Scope Z_scope.

(* ===================================================================================================== *)
(* (1) epochs                                                                                              *)
(* ===================================================================================================== *)

(* x/epochs/keeper/genesis.go ExportGenesis: genesis.Epochs = k.AllEpochInfos(ctx) *)
Definition export_epochs (s : list einfo) : list einfo := s.

(* x/epochs/keeper/epoch.go AddEpochInfo, as called by InitGenesis at block height [h] and time [t]:
   an identifier that already exists is an error (InitGenesis panics); a zero start time defaults to the block time;
   CurrentEpochStartHeight is overwritten with the block height *)
Definition add_epoch_info (h t : Z) (acc : option (list einfo)) (e : einfo) : option (list einfo) :=
  match acc with
  | None => None
  | Some l =>
      if existsb (fun x => e_id x =? e_id e) l then None
      else Some (l ++ [mkE (e_id e) (if e_start e =? 0 then t else e_start e) (e_dur e) (e_cur e) (e_cur_start e) (e_started e) h])
  end.
Definition import_epochs (h t : Z) (g : list einfo) : option (list einfo) := fold_left (add_epoch_info h t) g (Some []).

(* what the module reports apart from the start height (which the import rewrites) *)
Definition strip (e : einfo) : einfo := mkE (e_id e) (e_start e) (e_dur e) (e_cur e) (e_cur_start e) (e_started e) 0.
Definition epochs_obs_eq (a b : list einfo) : Prop := map strip a = map strip b.

Definition ids_distinct (s : list einfo) : Prop := NoDup (map e_id s).
Definition start_set (s : list einfo) : Prop := Forall (fun e => e_start e <> 0) s.

Lemma import_epochs_spec : forall h t g done,
  NoDup (map e_id (done ++ g)) -> Forall (fun e => e_start e <> 0) g ->
  exists r, fold_left (add_epoch_info h t) g (Some done) = Some (done ++ r) /\ map strip r = map strip g /\
            Forall (fun e => e_height e = h) r.
Proof.
  intros h t g; induction g as [|e g IH]; intros done ND ST; cbn [fold_left].
  - exists []; rewrite app_nil_r; repeat split; constructor.
  - cbn [add_epoch_info].
    assert (Hn : existsb (fun x => e_id x =? e_id e) done = false).
    { apply not_true_is_false; intros H. apply existsb_exists in H. destruct H as [x [Hx E]].
      apply Z.eqb_eq in E. rewrite map_app in ND. apply NoDup_remove_2 in ND.
      apply ND. rewrite in_app_iff; left. rewrite <- E. now apply in_map. }
    rewrite Hn. inversion ST as [|? ? He ST']; subst.
    destruct (e_start e =? 0) eqn:Z0; [apply Z.eqb_eq in Z0; contradiction|].
    set (e' := mkE (e_id e) (e_start e) (e_dur e) (e_cur e) (e_cur_start e) (e_started e) h).
    destruct (IH (done ++ [e'])) as [r [Hr [Hs Hh]]]; auto.
    { rewrite <- app_assoc; cbn. rewrite !map_app in *; cbn in *. exact ND. }
    exists (e' :: r). rewrite Hr, <- app_assoc; cbn. repeat split; auto.
    now rewrite Hs.
Qed.

Theorem epochs_import_export : forall h t s, ids_distinct s -> start_set s ->
  exists s', import_epochs h t (export_epochs s) = Some s' /\ epochs_obs_eq s' s /\ Forall (fun e => e_height e = h) s'.
Proof.
  intros h t s ND ST. destruct (import_epochs_spec h t s [] ND ST) as [r [H1 [H2 H3]]].
  exists r; auto.
Qed.

(* the round trip is NOT exact: the start height is lost (finding F19-2) *)
Theorem epochs_import_export_exact_refuted :
  exists h t s, ids_distinct s /\ start_set s /\ import_epochs h t (export_epochs s) <> Some s.
Proof.
  exists 21, 1000, [mkE 1 100 10 3 120 true 12]. repeat split.
  - repeat constructor; intros [].
  - repeat constructor; cbn; lia.
  - vm_compute; discriminate.
Qed.

(* ---- the step function (BeginBlocker) does not read the start height ---- *)
Definition R (e e' : einfo) : Prop := strip e = strip e'.

Lemma tick_one_R : forall sc n t ht e e' h, R e e' ->
  let r := tick_one sc n t ht e h in let r' := tick_one sc n t ht e' h in
  R (fst (fst r)) (fst (fst r')) /\ snd (fst r) = snd (fst r') /\ snd r = snd r'.
Proof.
  intros sc n t ht [i s d c cs st hh] [i' s' d' c' cs' st' hh'] h H.
  unfold R, strip in H; cbn in H. inversion H; subst; clear H.
  unfold tick_one; cbn [e_start e_started e_cur_start e_dur e_id e_cur].
  destruct (t <? s'); [cbn; repeat split; reflexivity|].
  destruct (negb ((cs' + d' <? t) || negb st')); [cbn; repeat split; reflexivity|].
  destruct (negb st').
  - destruct (run_sig sc n _ h); cbn; repeat split; reflexivity.
  - destruct (run_sig sc n (mkSig AfterEnd i' c') h) as [h1 o1].
    destruct o1; [cbn; repeat split; reflexivity|].
    destruct (run_sig sc n _ h1); cbn; repeat split; reflexivity.
Qed.

Lemma tick_all_R : forall sc n t ht es es' h, Forall2 R es es' ->
  let r := tick_all sc n t ht es h in let r' := tick_all sc n t ht es' h in
  Forall2 R (fst (fst r)) (fst (fst r')) /\ snd (fst r) = snd (fst r') /\ snd r = snd r'.
Proof.
  intros sc n t ht es es' h H; revert h; induction H as [|e e' r r' He Hr IH]; intros h; cbn [tick_all].
  - repeat split; constructor.
  - pose proof (tick_one_R sc n t ht e e' h He) as T; cbn zeta in T.
    destruct (tick_one sc n t ht e h) as [[e1 h1] o1], (tick_one sc n t ht e' h) as [[e1' h1'] o1'].
    cbn in T; destruct T as [T1 [T2 T3]]; subst h1' o1'.
    destruct o1.
    + cbn; repeat split; auto.
    + specialize (IH h1); cbn zeta in IH.
      destruct (tick_all sc n t ht r h1) as [[r1 h2] o2], (tick_all sc n t ht r' h1) as [[r1' h2'] o2'].
      cbn in IH; destruct IH as [I1 [I2 I3]]; subst h2' o2'. cbn; repeat split; auto.
Qed.

Definition SR (a b : state) : Prop := Forall2 R (infos a) (infos b) /\ hs a = hs b /\ halted a = halted b.

Lemma begin_block_SR : forall sc n a b blk, SR a b -> SR (begin_block sc n a blk) (begin_block sc n b blk).
Proof.
  intros sc n a b blk [H1 [H2 H3]]; unfold begin_block. rewrite <- H3.
  destruct (halted a) eqn:Ha; [repeat split; auto; congruence|].
  pose proof (tick_all_R sc n (fst blk) (snd blk) (infos a) (infos b) (hs a) H1) as T; cbn zeta in T.
  rewrite <- H2.
  destruct (tick_all sc n (fst blk) (snd blk) (infos a) (hs a)) as [[es h] o],
           (tick_all sc n (fst blk) (snd blk) (infos b) (hs a)) as [[es' h'] o'].
  cbn in T; destruct T as [T1 [T2 T3]]; subst. repeat split; auto.
Qed.

Lemma run_SR : forall sc n bs a b, SR a b -> SR (run sc n a bs) (run sc n b bs).
Proof.
  intros sc n bs; induction bs as [|blk r IH]; intros a b H; cbn [run fold_left]; [assumption|].
  apply IH, begin_block_SR, H.
Qed.

Lemma obs_eq_Forall2 : forall a b, epochs_obs_eq a b -> Forall2 R a b.
Proof.
  induction a as [|x a IH]; intros [|y b] H; unfold epochs_obs_eq in H; cbn in H; try discriminate; constructor.
  - unfold R; congruence.
  - apply IH; unfold epochs_obs_eq; congruence.
Qed.
Lemma Forall2_obs_eq : forall a b, Forall2 R a b -> epochs_obs_eq a b.
Proof. induction 1; [reflexivity|]. unfold epochs_obs_eq in *; cbn [map]; unfold R in H; congruence. Qed.

(* fed the same blocks, the re-imported timers and the original ones report the same (apart from start heights of
   timers that have not ticked since), call the same hooks in the same order with the same outcomes, and halt alike *)
Theorem epochs_run_import_export : forall sc n h t s hst bs, ids_distinct s -> start_set s ->
  exists s', import_epochs h t (export_epochs s) = Some s' /\
    let a := run sc n (mkS s hst false) bs in let b := run sc n (mkS s' hst false) bs in
    epochs_obs_eq (infos a) (infos b) /\ hs a = hs b /\ halted a = halted b.
Proof.
  intros sc n h t s hst bs ND ST. destruct (epochs_import_export h t s ND ST) as [s' [H1 [H2 _]]].
  exists s'; split; [assumption|]. cbn zeta.
  assert (Q : SR (mkS s hst false) (mkS s' hst false)).
  { repeat split; cbn. apply obs_eq_Forall2. unfold epochs_obs_eq in *; congruence. }
  destruct (run_SR sc n bs _ _ Q) as [A [B C]]. repeat split; auto. now apply Forall2_obs_eq.
Qed.

(* ===================================================================================================== *)
(* (2) keyed records + last-id counter + a derived total that is rebuilt at import                          *)
(*     (lockup: locks by id, last_lock_id, accumulation store; incentives: gauges by id, last_gauge_id;     *)
(*      twap: records by key)                                                                              *)
(* ===================================================================================================== *)
Record kstate := mkK { recs : list (Z * Z); last_id : Z; total : Z }.
Inductive kop := KCreate (v : Z) | KUpdate (id v : Z) | KDelete (id : Z).
Inductive kres := KOk (id : Z) | KErr.

Fixpoint kv_get (k : Z) (l : list (Z * Z)) : option Z :=
  match l with [] => None | (k', v) :: r => if k =? k' then Some v else kv_get k r end.
Fixpoint kv_del (k : Z) (l : list (Z * Z)) : list (Z * Z) :=
  match l with [] => [] | (k', v) :: r => if k =? k' then r else (k', v) :: kv_del k r end.
Definition sum_vals (l : list (Z * Z)) : Z := fold_right (fun kv a => snd kv + a) 0 l.

(* message handlers: create under the next id, update / delete an existing record; the total follows incrementally *)
Definition kstep (s : kstate) (o : kop) : kstate * kres :=
  match o with
  | KCreate v => let id := last_id s + 1 in (mkK (kv_set id v (recs s)) id (total s + v), KOk id)
  | KUpdate id v =>
      match kv_get id (recs s) with
      | Some old => (mkK (kv_set id v (recs s)) (last_id s) (total s - old + v), KOk id)
      | None => (s, KErr)
      end
  | KDelete id =>
      match kv_get id (recs s) with
      | Some old => (mkK (kv_del id (recs s)) (last_id s) (total s - old), KOk id)
      | None => (s, KErr)
      end
  end.
Fixpoint krun (s : kstate) (h : list kop) : kstate * list kres :=
  match h with
  | [] => (s, [])
  | o :: r => let '(s1, x) := kstep s o in let '(s2, xs) := krun s1 r in (s2, x :: xs)
  end.
Definition kinit : kstate := mkK [] 0 0.

(* ExportGenesis: the records in store order and the counter; the total is not exported.
   InitGenesis: every record is set one by one, the counter is set, the total is rebuilt from the records. *)
Definition kexport (s : kstate) : list (Z * Z) * Z := (recs s, last_id s).
Definition kimport (g : list (Z * Z) * Z) : kstate :=
  mkK (fold_left (fun st kv => kv_set (fst kv) (snd kv) st) (fst g) []) (snd g) (sum_vals (fst g)).

Fixpoint increasing (l : list (Z * Z)) : Prop :=
  match l with [] => True | kv :: r => Forall (fun x => fst kv < fst x) r /\ increasing r end.
Definition kwf (s : kstate) : Prop :=
  increasing (recs s) /\ Forall (fun x => fst x <= last_id s) (recs s) /\ total s = sum_vals (recs s).

Lemma kv_set_above : forall k v acc, Forall (fun x => fst x < k) acc -> kv_set k v acc = acc ++ [(k, v)].
Proof.
  intros k v acc H; induction H as [|[k' v'] r Hx Hr IH]; cbn [kv_set app]; [reflexivity|].
  cbn in Hx. destruct (k <? k') eqn:A; [apply Z.ltb_lt in A; lia|].
  destruct (k =? k') eqn:B; [apply Z.eqb_eq in B; lia|]. now rewrite IH.
Qed.

Lemma rebuild : forall l acc, increasing l -> (forall a b, In a acc -> In b l -> fst a < fst b) ->
  fold_left (fun st kv => kv_set (fst kv) (snd kv) st) l acc = acc ++ l.
Proof.
  induction l as [|[k v] r IH]; intros acc I D; cbn [fold_left]; [now rewrite app_nil_r|].
  destruct I as [I1 I2]. cbn [fst snd].
  rewrite kv_set_above.
  - rewrite IH; [now rewrite <- app_assoc| assumption |].
    intros a b Ha Hb. apply in_app_or in Ha. destruct Ha as [Ha|[Ha|[]]].
    + apply D; [assumption|now right].
    + subst a. rewrite Forall_forall in I1. apply (I1 b Hb).
  - apply Forall_forall. intros a Ha. apply (D a (k, v) Ha). now left.
Qed.

Theorem kimport_export : forall s, kwf s -> kimport (kexport s) = s.
Proof.
  intros [r l t] [I [_ T]]; unfold kimport, kexport; cbn in *.
  rewrite rebuild; [|assumption|intros a b []]. cbn [app]. now rewrite T.
Qed.

(* ---- the handlers keep the store canonical and the total exact ---- *)
Lemma kv_set_keys : forall k v l x, In x (kv_set k v l) -> x = (k, v) \/ In x l.
Proof.
  intros k v l; induction l as [|[k' v'] r IH]; intros x H; cbn [kv_set] in H.
  - destruct H as [H|[]]; auto.
  - destruct (k <? k'); [destruct H; auto|].
    destruct (k =? k'); [destruct H as [H|H]; auto; right; now right|].
    destruct H as [H|H]; [right; now left|]. destruct (IH x H); auto. right; now right.
Qed.

Lemma kv_set_increasing : forall k v l, increasing l -> increasing (kv_set k v l).
Proof.
  intros k v l; induction l as [|[k' v'] r IH]; intros I; cbn [kv_set]; [cbn; auto|].
  destruct I as [I1 I2].
  destruct (k <? k') eqn:A.
  - apply Z.ltb_lt in A. cbn [increasing]; repeat split; auto.
    constructor; [cbn; lia|]. eapply Forall_impl; [|exact I1]. cbn; intros; lia.
  - destruct (k =? k') eqn:B.
    + apply Z.eqb_eq in B; subst. cbn [increasing]; split; auto.
    + cbn [increasing]; split; [|now apply IH].
      apply Forall_forall; intros x Hx. apply kv_set_keys in Hx. destruct Hx as [Hx|Hx].
      * subst x; cbn. apply Z.ltb_ge in A. apply Z.eqb_neq in B. lia.
      * rewrite Forall_forall in I1. now apply I1.
Qed.

Lemma kv_del_keys : forall k l x, In x (kv_del k l) -> In x l.
Proof.
  intros k l; induction l as [|[k' v'] r IH]; intros x H; cbn [kv_del] in H; [assumption|].
  destruct (k =? k'); [now right|]. destruct H as [H|H]; [now left|right; auto].
Qed.

Lemma kv_del_increasing : forall k l, increasing l -> increasing (kv_del k l).
Proof.
  intros k l; induction l as [|[k' v'] r IH]; intros I; cbn [kv_del]; [exact I|].
  destruct I as [I1 I2]. destruct (k =? k'); [assumption|].
  cbn [increasing]; split; [|now apply IH].
  apply Forall_forall; intros x Hx. apply kv_del_keys in Hx. rewrite Forall_forall in I1; now apply I1.
Qed.

Lemma sum_set_fresh : forall k v l, kv_get k l = None -> sum_vals (kv_set k v l) = sum_vals l + v.
Proof.
  intros k v l; induction l as [|[k' v'] r IH]; intros H; cbn [kv_set kv_get sum_vals fold_right] in *; [cbn; lia|].
  destruct (k =? k') eqn:B; [discriminate|].
  destruct (k <? k'); cbn [sum_vals fold_right fst snd].
  - fold (sum_vals r). lia.
  - fold (sum_vals (kv_set k v r)) (sum_vals r). rewrite IH by assumption. lia.
Qed.

Lemma sum_set_old : forall k v old l, increasing l -> kv_get k l = Some old ->
  sum_vals (kv_set k v l) = sum_vals l - old + v.
Proof.
  intros k v old l; induction l as [|[k' v'] r IH]; intros I H; cbn [kv_set kv_get] in *; [discriminate|].
  destruct I as [I1 I2].
  destruct (k =? k') eqn:B.
  - inversion H; subst. apply Z.eqb_eq in B; subst.
    rewrite Z.ltb_irrefl. cbn [sum_vals fold_right fst snd]. fold (sum_vals r). lia.
  - destruct (k <? k') eqn:A.
    + (* k below the head of an increasing list but present in the tail: impossible *)
      exfalso. apply Z.ltb_lt in A. clear IH.
      assert (Hin : exists w, In (k, w) r).
      { clear -H. induction r as [|[a b] r IH]; cbn in H; [discriminate|].
        destruct (k =? a) eqn:E; [apply Z.eqb_eq in E; subst; exists b; now left|].
        destruct (IH H) as [w Hw]; exists w; now right. }
      destruct Hin as [w Hw]. rewrite Forall_forall in I1. specialize (I1 _ Hw). cbn in I1. lia.
    + cbn [sum_vals fold_right fst snd]. fold (sum_vals (kv_set k v r)) (sum_vals r).
      rewrite IH by assumption. lia.
Qed.

Lemma sum_del : forall k old l, kv_get k l = Some old -> sum_vals (kv_del k l) = sum_vals l - old.
Proof.
  intros k old l; induction l as [|[k' v'] r IH]; intros H; cbn [kv_del kv_get] in *; [discriminate|].
  destruct (k =? k').
  - inversion H; subst. cbn [sum_vals fold_right fst snd]. fold (sum_vals r). lia.
  - cbn [sum_vals fold_right fst snd]. fold (sum_vals (kv_del k r)) (sum_vals r). rewrite IH by assumption. lia.
Qed.

Lemma kv_get_none_above : forall k l, Forall (fun x => fst x < k) l -> kv_get k l = None.
Proof.
  intros k l H; induction H as [|[k' v'] r Hx Hr IH]; cbn [kv_get]; [reflexivity|].
  cbn in Hx. destruct (k =? k') eqn:B; [apply Z.eqb_eq in B; lia|assumption].
Qed.

Lemma kv_get_in : forall k v l, kv_get k l = Some v -> In (k, v) l.
Proof.
  intros k v l; induction l as [|[a b] r IH]; cbn [kv_get]; intros H; [discriminate|].
  destruct (k =? a) eqn:E; [apply Z.eqb_eq in E; inversion H; subst; now left|right; auto].
Qed.

Lemma kwf_step : forall s o, kwf s -> kwf (fst (kstep s o)).
Proof.
  intros [r l t] o [I [B T]]; unfold kwf; cbn [recs last_id total] in *;
    destruct o as [v|id v|id]; cbn [kstep recs last_id total].
  - cbn [fst recs last_id total]. repeat split.
    + now apply kv_set_increasing.
    + apply Forall_forall; intros x Hx. apply kv_set_keys in Hx. destruct Hx as [Hx|Hx]; [subst; cbn; lia|].
      rewrite Forall_forall in B. specialize (B x Hx). lia.
    + rewrite sum_set_fresh; [lia|]. apply kv_get_none_above.
      eapply Forall_impl; [|exact B]. cbn; intros; lia.
  - destruct (kv_get id r) as [old|] eqn:G; cbn [fst recs last_id total]; [|repeat split; auto].
    repeat split.
    + now apply kv_set_increasing.
    + apply Forall_forall; intros x Hx. apply kv_set_keys in Hx. destruct Hx as [Hx|Hx].
      * subst; cbn. apply kv_get_in in G. rewrite Forall_forall in B. apply (B _ G).
      * rewrite Forall_forall in B. now apply B.
    + rewrite (sum_set_old id v old) by assumption. lia.
  - destruct (kv_get id r) as [old|] eqn:G; cbn [fst recs last_id total]; [|repeat split; auto].
    repeat split.
    + now apply kv_del_increasing.
    + apply Forall_forall; intros x Hx. apply kv_del_keys in Hx. rewrite Forall_forall in B. now apply B.
    + rewrite (sum_del id old) by assumption. lia.
Qed.

Lemma kwf_run : forall h s, kwf s -> kwf (fst (krun s h)).
Proof.
  induction h as [|o r IH]; intros s W; cbn [krun]; [assumption|].
  pose proof (kwf_step s o W) as W1. destruct (kstep s o) as [s1 x]. cbn in W1.
  specialize (IH s1 W1). destruct (krun s1 r) as [s2 xs]. exact IH.
Qed.

Lemma kwf_init : kwf kinit.
Proof. repeat split; cbn; auto. Qed.

(* export after ANY history from genesis, import, continue with ANY history: same state and same results *)
Theorem krun_import_export : forall h1 h2,
  let s := fst (krun kinit h1) in
  kimport (kexport s) = s /\ krun (kimport (kexport s)) h2 = krun s h2.
Proof.
  intros h1 h2 s. assert (E : kimport (kexport s) = s) by (apply kimport_export, kwf_run, kwf_init).
  split; [exact E|now rewrite E].
Qed.

(* the derived total is only restored because the running chain keeps it exact ([kwf]); a module whose incremental
   statistic drifts from the value recomputed at import does not round-trip (finding F19-8 is of this kind) *)
Theorem kimport_export_needs_exact_total : exists s, increasing (recs s) /\ kimport (kexport s) <> s.
Proof. exists (mkK [(1, 5)] 1 7). split; [cbn; auto|]. vm_compute; discriminate. Qed.
