(* C19 - x/lockup genesis import as written (x/lockup/keeper/genesis.go InitGenesis -> lock.go InitializeAllLocks,
   InitializeAllSyntheticLocks): the accumulation store is rebuilt from the imported locks, per denom - native or
   synthetic - as a map duration -> amount that is then written with one Increase per entry.
   WHICH duration keys the map read, the map write and the initial literal is not written here: it comes from
   Gen/C19_lockup_shape.v, regenerated from the Go source on every run; the theorem needs the shape lemma below.
   The accumulation tree itself is abstract (a bag of Increase / Decrease calls; a query sums the entries of the denom
   with at least the given duration - that the sum-tree answers so is C16's business). *)
From Coq Require Import ZArith List Bool Lia.
Import ListNotations.
From Osmo Require Import C19.LockupShapeTypes Gen.C19_lockup_shape.
Open Scope Z_scope.

Record plock := mkL { l_id : Z; l_dur : Z; l_coins : list (Z * Z) }.        (* coins: (denom, amount) *)
Record slock := mkSL { s_under : Z; s_denom : Z; s_dur : Z }.                (* underlying lock id, synthetic denom, duration *)
Record lgenesis := mkG { g_locks : list plock; g_synth : list slock }.

(* Go maps as association lists: lookup finds the first entry of a key, assignment replaces it or appends *)
Definition amap := list (Z * Z).
Fixpoint aget (k : Z) (m : amap) : option Z :=
  match m with [] => None | (k', v) :: r => if k =? k' then Some v else aget k r end.
Fixpoint aset (k v : Z) (m : amap) : amap :=
  match m with [] => [(k, v)] | (k', v') :: r => if k =? k' then (k, v) :: r else (k', v') :: aset k v r end.
Definition emap := list (Z * amap).
Fixpoint oget (k : Z) (m : emap) : option amap :=
  match m with [] => None | (k', v) :: r => if k =? k' then Some v else oget k r end.
Fixpoint oset (k : Z) (v : amap) (m : emap) : emap :=
  match m with [] => [(k, v)] | (k', v') :: r => if k =? k' then (k, v) :: r else (k', v') :: oset k v r end.

(* the loop body shared by both functions:
     if durationMap, ok := entries[dn]; ok { newAmt := amt; if cur, ok := durationMap[rk]; ok { newAmt = newAmt.Add(cur) }; durationMap[wk] = newAmt }
     else { entries[dn] = map{ik: amt} } *)
Definition add_entry (dn rk wk ik amt : Z) (e : emap) : emap :=
  match oget dn e with
  | Some dm => oset dn (aset wk (amt + match aget rk dm with Some c => c | None => 0 end) dm) e
  | None => oset dn [(ik, amt)] e
  end.

(* the value of a key expression for a (period lock, synthetic lock) pair *)
Definition kval (k : kexpr) (under_dur synth_dur : Z) : Z :=
  match k with KUnder => under_dur | KSynth => synth_dur | KUnknown => 0 end.

(* InitializeAllLocks: for every lock, for every coin *)
Definition lock_step (e : emap) (l : plock) : emap :=
  fold_left (fun e c => add_entry (fst c) (kval locks_read_key (l_dur l) 0) (kval locks_write_key (l_dur l) 0)
                                  (kval locks_init_key (l_dur l) 0) (snd c) e) (l_coins l) e.
Definition init_all_locks (locks : list plock) : emap := fold_left lock_step locks [].

(* InitializeAllSyntheticLocks: GetLockByID / SingleCoin errors abort the import *)
Fixpoint find_lock (id : Z) (locks : list plock) : option plock :=
  match locks with [] => None | l :: r => if id =? l_id l then Some l else find_lock id r end.
Definition single_coin (l : plock) : option (Z * Z) := match l_coins l with [c] => Some c | _ => None end.
Definition synth_amount (locks : list plock) (s : slock) : option (Z * Z) :=      (* (underlying duration, amount) *)
  match find_lock (s_under s) locks with
  | None => None
  | Some l => match single_coin l with None => None | Some c => Some (l_dur l, snd c) end
  end.
Definition synth_step (locks : list plock) (acc : option emap) (s : slock) : option emap :=
  match acc with
  | None => None
  | Some e =>
      match synth_amount locks s with
      | None => None
      | Some (ud, amt) =>
          Some (add_entry (s_denom s) (kval synth_read_key ud (s_dur s)) (kval synth_write_key ud (s_dur s))
                          (kval synth_init_key ud (s_dur s)) amt e)
      end
  end.
Definition init_all_synth (locks : list plock) (synth : list slock) : option emap :=
  fold_left (synth_step locks) synth (Some []).

(* the accumulation store: the bag of Increase(denom, duration, amount) calls; query = SubsetAccumulation from the duration up *)
Definition tree := list (Z * Z * Z).
Definition flatten (e : emap) : tree := flat_map (fun p => map (fun kv => (fst p, fst kv, snd kv)) (snd p)) e.
Fixpoint tree_acc (t : tree) (dn d : Z) : Z :=
  match t with
  | [] => 0
  | (dn', du, a) :: r => (if (dn' =? dn) && (d <=? du) then a else 0) + tree_acc r dn d
  end.

Definition export_lockup (g : lgenesis) : lgenesis := g.   (* ExportGenesis: GetPeriodLocks, GetAllSyntheticLockups *)
Definition import_lockup (g : lgenesis) : option tree :=
  match init_all_synth (g_locks g) (g_synth g) with
  | None => None
  | Some e2 => Some (flatten (init_all_locks (g_locks g)) ++ flatten e2)
  end.

(* ---- what the accumulation must be: the sum over the exported (synthetic) locks with at least that duration ---- *)
Definition coins_of (dn : Z) (cs : list (Z * Z)) : Z := fold_right (fun c a => (if fst c =? dn then snd c else 0) + a) 0 cs.
Definition expected_native (locks : list plock) (dn d : Z) : Z :=
  fold_right (fun l a => (if d <=? l_dur l then coins_of dn (l_coins l) else 0) + a) 0 locks.
Definition expected_synth (locks : list plock) (synth : list slock) (dn d : Z) : Z :=
  fold_right (fun s a => (if (s_denom s =? dn) && (d <=? s_dur s)
                          then match synth_amount locks s with Some (_, amt) => amt | None => 0 end else 0) + a) 0 synth.
Definition expected (g : lgenesis) (dn d : Z) : Z :=
  expected_native (g_locks g) dn d + expected_synth (g_locks g) (g_synth g) dn d.

(* ---- the shape the proof needs (reflexivity on the generated constants: a changed key expression breaks it here) ---- *)
Lemma lockup_shape_ok :
  locks_read_key = KUnder /\ locks_write_key = KUnder /\ locks_init_key = KUnder /\
  synth_read_key = KSynth /\ synth_write_key = KSynth /\ synth_init_key = KSynth /\
  locks_denom_ok = true /\ locks_adds_found = true /\ synth_denom_ok = true /\ synth_adds_found = true.
Proof. repeat split; reflexivity. Qed.

(* ---- proofs ---- *)
Fixpoint sum_ge (d : Z) (m : amap) : Z :=
  match m with [] => 0 | (k, v) :: r => (if d <=? k then v else 0) + sum_ge d r end.
Definition acc_of (e : emap) (dn d : Z) : Z := match oget dn e with Some m => sum_ge d m | None => 0 end.

Lemma sum_ge_aset : forall k a m d,
  sum_ge d (aset k (a + match aget k m with Some c => c | None => 0 end) m) = sum_ge d m + (if d <=? k then a else 0).
Proof.
  intros k a m d; induction m as [|[k' v'] r IH]; cbn [aset aget sum_ge].
  - destruct (d <=? k); lia.
  - destruct (k =? k') eqn:E.
    + apply Z.eqb_eq in E; subst. cbn [sum_ge]. destruct (d <=? k'); lia.
    + cbn [sum_ge]. rewrite IH. lia.
Qed.

Lemma oget_oset : forall k v m k', oget k' (oset k v m) = if k' =? k then Some v else oget k' m.
Proof.
  intros k v m k'; induction m as [|[a b] r IH]; cbn [oset oget].
  - destruct (k' =? k); reflexivity.
  - destruct (k =? a) eqn:E.
    + apply Z.eqb_eq in E; subst. cbn [oget]. destruct (k' =? a); reflexivity.
    + cbn [oget]. destruct (k' =? a) eqn:F; [|exact IH].
      apply Z.eqb_eq in F; subst. destruct (a =? k) eqn:G; [apply Z.eqb_eq in G; subst; rewrite Z.eqb_refl in E; discriminate|reflexivity].
Qed.

Lemma acc_add_entry : forall dn k amt e dn' d,
  acc_of (add_entry dn k k k amt e) dn' d = acc_of e dn' d + (if (dn =? dn') && (d <=? k) then amt else 0).
Proof.
  intros dn k amt e dn' d; unfold add_entry, acc_of.
  destruct (oget dn e) as [dm|] eqn:G; rewrite oget_oset.
  - destruct (dn' =? dn) eqn:E.
    + apply Z.eqb_eq in E; subst. rewrite G, Z.eqb_refl, sum_ge_aset. cbn [andb]. reflexivity.
    + rewrite (Z.eqb_sym dn dn'), E. cbn [andb]. lia.
  - destruct (dn' =? dn) eqn:E.
    + apply Z.eqb_eq in E; subst. rewrite G, Z.eqb_refl. cbn [andb sum_ge]. destruct (d <=? k); lia.
    + rewrite (Z.eqb_sym dn dn'), E. cbn [andb]. lia.
Qed.

(* the keys of the outer map stay distinct, so the flattened bag and the per-denom lookup agree *)
Lemma oset_keys : forall k v m, map fst (oset k v m) = if existsb (Z.eqb k) (map fst m) then map fst m else map fst m ++ [k].
Proof.
  intros k v m; induction m as [|[a b] r IH]; cbn [oset map existsb fst]; [reflexivity|].
  destruct (k =? a) eqn:E; cbn [orb map fst].
  - apply Z.eqb_eq in E; subst; reflexivity.
  - rewrite IH. destruct (existsb (Z.eqb k) (map fst r)); reflexivity.
Qed.
Lemma oset_nodup : forall k v m, NoDup (map fst m) -> NoDup (map fst (oset k v m)).
Proof.
  intros k v m H; rewrite oset_keys. destruct (existsb (Z.eqb k) (map fst m)) eqn:E; [assumption|].
  apply NoDup_rev in H. rewrite <- (rev_involutive (map fst m ++ [k])). apply NoDup_rev. rewrite rev_app_distr; cbn.
  constructor; [|assumption]. rewrite <- in_rev. intros Hin.
  assert (existsb (Z.eqb k) (map fst m) = true) by (apply existsb_exists; exists k; split; [assumption|apply Z.eqb_refl]).
  congruence.
Qed.
Lemma add_entry_nodup : forall dn rk wk ik amt e, NoDup (map fst e) -> NoDup (map fst (add_entry dn rk wk ik amt e)).
Proof. intros; unfold add_entry; destruct (oget dn e); now apply oset_nodup. Qed.

Lemma tree_acc_app : forall a b dn d, tree_acc (a ++ b) dn d = tree_acc a dn d + tree_acc b dn d.
Proof. induction a as [|[[x y] z] r IH]; intros; cbn [app tree_acc]; [lia|rewrite IH; lia]. Qed.
Lemma tree_acc_inner : forall dn' m dn d,
  tree_acc (map (fun kv => (dn', fst kv, snd kv)) m) dn d = if dn' =? dn then sum_ge d m else 0.
Proof.
  intros dn' m dn d; induction m as [|[k v] r IH]; cbn [map tree_acc sum_ge fst snd]; [destruct (dn' =? dn); reflexivity|].
  rewrite IH. destruct (dn' =? dn); cbn [andb]; [reflexivity|lia].
Qed.
Lemma oget_none_notin : forall dn e, ~ In dn (map fst e) -> oget dn e = None.
Proof.
  intros dn e; induction e as [|[a b] r IH]; cbn [oget map fst In]; intros H; [reflexivity|].
  destruct (dn =? a) eqn:E; [apply Z.eqb_eq in E; subst; exfalso; apply H; now left|apply IH; tauto].
Qed.
Lemma tree_acc_flatten : forall e dn d, NoDup (map fst e) -> tree_acc (flatten e) dn d = acc_of e dn d.
Proof.
  intros e dn d; induction e as [|[a m] r IH]; intros ND; unfold acc_of in *; cbn [flatten flat_map oget fst snd]; [reflexivity|].
  inversion ND as [|? ? Hn ND']; subst. rewrite tree_acc_app, tree_acc_inner. fold (flatten r). rewrite (IH ND').
  destruct (dn =? a) eqn:E.
  - apply Z.eqb_eq in E; subst. rewrite Z.eqb_refl. rewrite (oget_none_notin a r Hn). lia.
  - rewrite (Z.eqb_sym a dn), E. lia.
Qed.

(* InitializeAllLocks accumulates exactly the locks *)
Lemma lock_step_acc : forall l e dn d, NoDup (map fst e) ->
  NoDup (map fst (lock_step e l)) /\
  acc_of (lock_step e l) dn d = acc_of e dn d + (if d <=? l_dur l then coins_of dn (l_coins l) else 0).
Proof.
  intros l e dn d; unfold lock_step.
  destruct lockup_shape_ok as [R [W [I _]]]. rewrite R, W, I. cbn [kval].
  generalize (l_coins l) as cs. intros cs; revert e; induction cs as [|c cs IH]; intros e ND; cbn [fold_left coins_of fold_right].
  - split; [assumption|]. destruct (d <=? l_dur l); lia.
  - destruct (IH (add_entry (fst c) (l_dur l) (l_dur l) (l_dur l) (snd c) e)) as [N A]; [now apply add_entry_nodup|].
    split; [assumption|]. rewrite A, acc_add_entry. fold (coins_of dn cs).
    destruct (d <=? l_dur l); destruct (fst c =? dn); cbn [andb]; lia.
Qed.
Lemma init_all_locks_acc : forall locks e dn d, NoDup (map fst e) ->
  NoDup (map fst (fold_left lock_step locks e)) /\
  acc_of (fold_left lock_step locks e) dn d = acc_of e dn d + expected_native locks dn d.
Proof.
  induction locks as [|l r IH]; intros e dn d ND; cbn [fold_left expected_native fold_right]; [split; [assumption|lia]|].
  destruct (lock_step_acc l e dn d ND) as [N A]. destruct (IH (lock_step e l) dn d N) as [N' A'].
  split; [assumption|]. rewrite A', A. fold (expected_native r dn d). lia.
Qed.

(* InitializeAllSyntheticLocks accumulates exactly the synthetic locks, under THEIR duration *)
Lemma init_all_synth_acc : forall locks synth e e' dn d, NoDup (map fst e) ->
  fold_left (synth_step locks) synth (Some e) = Some e' ->
  NoDup (map fst e') /\ acc_of e' dn d = acc_of e dn d + expected_synth locks synth dn d.
Proof.
  intros locks synth; induction synth as [|s r IH]; intros e e' dn d ND H; cbn [fold_left expected_synth fold_right] in *.
  - inversion H; subst; split; [assumption|lia].
  - unfold synth_step at 2 in H. destruct (synth_amount locks s) as [[ud amt]|] eqn:SA.
    + destruct lockup_shape_ok as [_ [_ [_ [R [W [I _]]]]]]. rewrite R, W, I in H. cbn [kval] in H.
      destruct (IH _ e' dn d (add_entry_nodup _ _ _ _ _ _ ND) H) as [N A].
      split; [assumption|]. rewrite A, acc_add_entry. fold (expected_synth locks r dn d). lia.
    + exfalso. clear -H. induction r as [|x r IHr]; cbn in H; [discriminate|auto].
Qed.

(* after import(export s): for every denom - native or synthetic - and every duration, the accumulation from that duration up is
   the sum over the exported locks / synthetic locks of that denom with at least that duration *)
Theorem lockup_import_accumulation : forall g t, import_lockup (export_lockup g) = Some t ->
  forall dn d, tree_acc t dn d = expected g dn d.
Proof.
  intros g t H dn d; unfold import_lockup, export_lockup, init_all_synth, init_all_locks in H.
  destruct (fold_left (synth_step (g_locks g)) (g_synth g) (Some [])) as [e2|] eqn:S; [|discriminate].
  inversion H; subst; clear H.
  destruct (init_all_locks_acc (g_locks g) [] dn d (NoDup_nil _)) as [N1 A1].
  destruct (init_all_synth_acc (g_locks g) (g_synth g) [] e2 dn d (NoDup_nil _) S) as [N2 A2].
  rewrite tree_acc_app, (tree_acc_flatten _ dn d N1), (tree_acc_flatten _ dn d N2), A1, A2.
  unfold expected, acc_of; cbn [oget]. lia.
Qed.

(* ---- the RUNNING chain's incremental bookkeeping (synthetic_lock.go), finding F19-17 ----
   CreateSyntheticLockup:  accumulationStore(synthDenom).Increase(accumulationKey(unlockDuration), amount)   - the synthetic lock's duration
   DeleteSyntheticLockup:  accumulationStore(synthDenom).Decrease(accumulationKey(lock.Duration), amount)    - the UNDERLYING lock's duration *)
Definition create_synthetic (t : tree) (l : plock) (s : slock) (amt : Z) : tree := t ++ [(s_denom s, s_dur s, amt)].
Definition delete_synthetic (t : tree) (l : plock) (s : slock) (amt : Z) : tree := t ++ [(s_denom s, l_dur l, - amt)].

Theorem running_accumulation_refuted :
  exists (l : plock) (s : slock) (amt dn d : Z) (t : tree),
    (* a lock longer than the synthetic lock on it; the synthetic lock is created and deleted again *)
    let running := delete_synthetic (create_synthetic [] l s amt) l s amt in
    let g := mkG [l] [] in
    import_lockup (export_lockup g) = Some t /\
    tree_acc t dn d = expected g dn d /\          (* the re-imported chain reports the sum over the locks *)
    tree_acc running dn d <> expected g dn d.     (* the running chain does not *)
Proof.
  exists (mkL 1 30 [(7, 400)]), (mkSL 1 9 20), 400, 9, 21.
  eexists. cbn zeta. split; [vm_compute; reflexivity|]. split; vm_compute; [reflexivity|discriminate].
Qed.
