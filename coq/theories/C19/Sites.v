(* C19 - models of the map-iteration sites of /repo whose loop body the scanner (harness/c19scan) cannot discharge
   syntactically, each as a function of the iteration order (an adversarial list of keys), with its
   permutation-invariance theorem. Keys are integers; a Go map has distinct keys, hence the NoDup premises. *)
From Coq Require Import ZArith List Bool Lia Permutation.
Import ListNotations.
From Osmo Require Import C19.Perm.
Open Scope Z_scope.

(* ---- commutation for distinct keys only ---- *)
Theorem fold_comm_perm_nodup : forall {S} (step : S -> Z -> S),
  (forall s a b, a <> b -> step (step s a) b = step (step s b) a) ->
  forall l l', Permutation l l' -> NoDup l -> forall s, fold_left step l s = fold_left step l' s.
Proof.
  intros S step C l l' H; induction H; intros ND s; cbn [fold_left].
  - reflexivity.
  - inversion ND; subst. now apply IHPermutation.
  - inversion ND as [|? ? Hy ND']; subst. rewrite C; [reflexivity|].
    intros E; subst; apply Hy; now left.
  - rewrite IHPermutation1 by assumption. apply IHPermutation2.
    eapply Permutation_NoDup; eauto.
Qed.

(* ---- a key-value store in canonical (sorted) form: bank balances, module stores, accumulation trees ---- *)
Fixpoint kv_set (k v : Z) (l : list (Z * Z)) : list (Z * Z) :=
  match l with
  | [] => [(k, v)]
  | (k', v') :: r =>
      if k <? k' then (k, v) :: l
      else if k =? k' then (k, v) :: r
      else (k', v') :: kv_set k v r
  end.

Lemma kv_set_comm : forall k1 v1 k2 v2 s, k1 <> k2 ->
  kv_set k1 v1 (kv_set k2 v2 s) = kv_set k2 v2 (kv_set k1 v1 s).
Proof.
  intros k1 v1 k2 v2 s NE; induction s as [|[k v] r IH]; cbn [kv_set].
  - destruct (k1 <? k2) eqn:A, (k2 <? k1) eqn:B, (k1 =? k2) eqn:C, (k2 =? k1) eqn:D; try reflexivity;
      repeat match goal with
             | H : (_ <? _) = true |- _ => apply Z.ltb_lt in H
             | H : (_ <? _) = false |- _ => apply Z.ltb_ge in H
             | H : (_ =? _) = true |- _ => apply Z.eqb_eq in H
             | H : (_ =? _) = false |- _ => apply Z.eqb_neq in H
             end; lia.
  - destruct (k2 <? k) eqn:A2, (k2 =? k) eqn:E2, (k1 <? k) eqn:A1, (k1 =? k) eqn:E1; cbn [kv_set];
      rewrite ?A1, ?A2, ?E1, ?E2;
      destruct (k1 <? k2) eqn:L12, (k2 <? k1) eqn:L21, (k1 =? k2) eqn:Q12, (k2 =? k1) eqn:Q21;
      try reflexivity; try (now rewrite IH);
      repeat match goal with
             | H : (_ <? _) = true |- _ => apply Z.ltb_lt in H
             | H : (_ <? _) = false |- _ => apply Z.ltb_ge in H
             | H : (_ =? _) = true |- _ => apply Z.eqb_eq in H
             | H : (_ =? _) = false |- _ => apply Z.eqb_neq in H
             end; try lia.
Qed.

(* ---- a slice written by index (sortedAndTrimmedQualifiedLocks[v.index] = &v.lock) ---- *)
Fixpoint upd_at (n : nat) (x : Z) (l : list Z) : list Z :=
  match l, n with
  | [], _ => []
  | _ :: r, O => x :: r
  | y :: r, S n' => y :: upd_at n' x r
  end.
Lemma upd_at_comm : forall i j x y l, i <> j -> upd_at i x (upd_at j y l) = upd_at j y (upd_at i x l).
Proof.
  induction i; destruct j, l; intros; cbn [upd_at]; try reflexivity; try congruence.
  f_equal; apply IHi; congruence.
Qed.

(* ================= site models ================= *)

(* x/incentives/keeper/distribute.go distributeSyntheticInternal:
     for _, v := range qualifiedLocksMap { if v.index < 0 { continue }; sorted[v.index] = &v.lock }
   [idx k] = the index stored for lock id k (-1: not selected), [lock k] its payload; the indices handed out by the
   preceding loop (curIndex++) are distinct. *)
Section DistributeSynthetic.
  Variable idx : Z -> Z.
  Variable lock : Z -> Z.
  Definition ds_step (arr : list Z) (k : Z) : list Z :=
    if idx k <? 0 then arr else upd_at (Z.to_nat (idx k)) (lock k) arr.
  Definition distribute_synthetic_site (init : list Z) (o : list Z) : list Z := fold_left ds_step o init.

  Hypothesis idx_inj : forall a b, a <> b -> 0 <= idx a -> 0 <= idx b -> idx a <> idx b.
  Theorem distribute_synthetic_perm_invariant : forall init o o',
    NoDup o -> Permutation o o' -> distribute_synthetic_site init o = distribute_synthetic_site init o'.
  Proof.
    intros init o o' ND P; unfold distribute_synthetic_site.
    apply fold_comm_perm_nodup; auto.
    intros s a b NE; unfold ds_step.
    destruct (idx a <? 0) eqn:A, (idx b <? 0) eqn:B; try reflexivity.
    apply Z.ltb_ge in A; apply Z.ltb_ge in B.
    apply upd_at_comm. intros E. apply (idx_inj a b NE A B). lia.
  Qed.
End DistributeSynthetic.

(* x/incentives/keeper/gauge.go GetRewardsEst (a query): the gauges of every locked denom are collected in map order;
   a failing lookup returns the empty result, otherwise the estimates of all gauges are added up. *)
Section RewardsEst.
  Variable gauges_of : Z -> list Z.     (* gauge ids of a denom *)
  Variable bad : Z -> bool.             (* GetGaugeByID fails *)
  Variable est : Z -> Z.                (* the estimate contributed by one gauge *)
  Definition rewards_est_site (o : list Z) : Z :=
    let gs := flat_map gauges_of o in
    if existsb bad gs then 0 else fold_left (fun acc g => acc + est g) gs 0.
  Theorem rewards_est_perm_invariant : forall o o', Permutation o o' -> rewards_est_site o = rewards_est_site o'.
  Proof.
    intros o o' P; unfold rewards_est_site.
    assert (Q : Permutation (flat_map gauges_of o) (flat_map gauges_of o')) by now apply Permutation_flat_map.
    rewrite (existsb_perm bad _ _ Q).
    destruct (existsb bad (flat_map gauges_of o')); [reflexivity|].
    apply fold_comm_perm; [intros; lia|assumption].
  Qed.
End RewardsEst.

(* x/lockup/keeper/lock.go RebuildSuperfluidAccumulationStoresForDenom:
     for synthDenom, durationMap := range accumulationStoreEntries { k.writeDurationValuesToAccumTree(ctx, synthDenom, durationMap) }
   and x/protorev/keeper/epoch_hook.go UpdatePools (outer and inner loop):
     for baseDenom, pools := range baseDenomPools { for denom, pool := range pools { k.SetPoolForDenomPair(ctx, baseDenom, denom, pool.PoolId) } }
   Both write one store entry per (outer key, inner key) under a key that determines the pair. *)
Section KeyedWrites.
  Variable enc : Z -> Z -> Z.           (* store key of (outer key, inner key) *)
  Variable value : Z -> Z -> Z.
  Hypothesis enc_inj : forall a b c d, enc a b = enc c d -> a = c /\ b = d.

  Definition w_step (s : list (Z * Z)) (p : Z * Z) : list (Z * Z) := kv_set (enc (fst p) (snd p)) (value (fst p) (snd p)) s.
  Definition pairs (o : list Z) (oi : Z -> list Z) : list (Z * Z) := flat_map (fun b => map (fun d => (b, d)) (oi b)) o.
  Definition keyed_writes_site (s0 : list (Z * Z)) (o : list Z) (oi : Z -> list Z) : list (Z * Z) :=
    fold_left w_step (pairs o oi) s0.

  Lemma fold_pairs_perm_nodup : forall l l', Permutation l l' -> NoDup l ->
    forall s, fold_left w_step l s = fold_left w_step l' s.
  Proof.
    intros l l' H; induction H; intros ND s; cbn [fold_left].
    - reflexivity.
    - inversion ND; subst. now apply IHPermutation.
    - inversion ND as [|? ? Hy ND']; subst. unfold w_step. rewrite kv_set_comm; [reflexivity|].
      intros E. apply enc_inj in E. destruct x, y; cbn in *; destruct E; subst. apply Hy; now left.
    - rewrite IHPermutation1 by assumption. apply IHPermutation2. eapply Permutation_NoDup; eauto.
  Qed.

  Lemma flat_map_pointwise_perm : forall {A B} (f g : A -> list B) l,
    (forall x, Permutation (f x) (g x)) -> Permutation (flat_map f l) (flat_map g l).
  Proof. intros A B f g l H; induction l; cbn; [constructor|now apply Permutation_app]. Qed.

  Lemma nodup_app : forall {A} (l1 l2 : list A), NoDup l1 -> NoDup l2 -> (forall x, In x l1 -> ~ In x l2) -> NoDup (l1 ++ l2).
  Proof.
    induction l1 as [|a r IH]; intros l2 N1 N2 D; cbn; [assumption|].
    inversion N1; subst. constructor.
    - rewrite in_app_iff; intros [H|H]; [contradiction|]. apply (D a); [now left|assumption].
    - apply IH; auto. intros x Hx; apply D; now right.
  Qed.

  Lemma pairs_nodup : forall o oi, NoDup o -> (forall b, NoDup (oi b)) -> NoDup (pairs o oi).
  Proof.
    intros o oi ND NI; unfold pairs; induction o as [|b r IH]; cbn; [constructor|].
    inversion ND as [|? ? Hb ND']; subst.
    apply nodup_app.
    - apply FinFun.Injective_map_NoDup; [|apply NI]. intros x y E; congruence.
    - now apply IH.
    - intros [x y] Hin Hin2. apply in_map_iff in Hin. destruct Hin as [d [E _]]. inversion E; subst.
      apply in_flat_map in Hin2. destruct Hin2 as [b' [Hb' Hin2]]. apply in_map_iff in Hin2.
      destruct Hin2 as [d' [E' _]]. inversion E'; subst. contradiction.
  Qed.

  Theorem keyed_writes_perm_invariant : forall s0 o o' oi oi',
    NoDup o -> (forall b, NoDup (oi b)) ->
    Permutation o o' -> (forall b, Permutation (oi b) (oi' b)) ->
    keyed_writes_site s0 o oi = keyed_writes_site s0 o' oi'.
  Proof.
    intros s0 o o' oi oi' ND NI P PI; unfold keyed_writes_site.
    apply fold_pairs_perm_nodup; [|now apply pairs_nodup].
    unfold pairs. eapply perm_trans.
    - apply Permutation_flat_map; exact P.
    - apply flat_map_pointwise_perm. intros b. apply Permutation_map, PI.
  Qed.
End KeyedWrites.

(* x/smart-account/authenticator/message_filter.go checkForFloats (one level of the recursion) and
   osmoutils/partialord/internal/dag hasIncomingEdge: "return true as soon as some value satisfies p" *)
Definition exists_site (p : Z -> bool) (o : list Z) : bool := existsb p o.
Theorem exists_site_perm_invariant : forall p o o', Permutation o o' -> exists_site p o = exists_site p o'.
Proof. intros; now apply existsb_perm. Qed.

(* osmoutils/compare.go DisjointArrays: two map ranges append the keys missing from the other map, the result is
   sorted before it is returned *)
Definition disjoint_arrays_site (in1 in2 : Z -> bool) (o1 o2 : list Z) : list Z :=
  isort (filter (fun x => negb (in2 x)) o1 ++ filter (fun x => negb (in1 x)) o2).
Lemma filter_perm : forall (p : Z -> bool) l l', Permutation l l' -> Permutation (filter p l) (filter p l').
Proof.
  intros p l l' H; induction H; cbn [filter].
  - constructor.
  - destruct (p x); auto.
  - destruct (p x), (p y); auto; apply perm_swap.
  - eapply perm_trans; eauto.
Qed.
Theorem disjoint_arrays_perm_invariant : forall in1 in2 o1 o1' o2 o2',
  Permutation o1 o1' -> Permutation o2 o2' ->
  disjoint_arrays_site in1 in2 o1 o2 = disjoint_arrays_site in1 in2 o1' o2'.
Proof.
  intros; unfold disjoint_arrays_site. apply isort_perm, Permutation_app; now apply filter_perm.
Qed.

(* the sites the scanner classifies as collect_sorted: the loop only appends (a function of) some of the keys to a
   slice, and the slice is sorted right after the loop *)
Definition collect_sorted_site (p : Z -> bool) (g : Z -> Z) (o : list Z) : list Z := isort (map g (filter p o)).
Theorem collect_sorted_perm_invariant : forall p g o o',
  Permutation o o' -> collect_sorted_site p g o = collect_sorted_site p g o'.
Proof. intros; unfold collect_sorted_site. now apply isort_perm, Permutation_map, filter_perm. Qed.
