(* C19 - order-independence toolkit for map-iteration sites.
   A Go `for k := range m` visits the keys of m in an order chosen by the runtime; a site is modelled as a function
   of that order (a list of keys, an ADVERSARIAL argument) and shown to be invariant under permutation, either because
   the code sorts the keys first or because the loop body commutes. Keys are integers (any finite set of Go strings /
   addresses / ids embeds order-isomorphically). *)
From Coq Require Import ZArith List Bool Lia Permutation.
Import ListNotations.
Open Scope Z_scope.

(* ---- sorting (sort.Strings / sort.Slice / osmoutils.SortSlice on distinct keys) ---- *)
Fixpoint insert (x : Z) (l : list Z) : list Z :=
  match l with
  | [] => [x]
  | y :: r => if x <=? y then x :: l else y :: insert x r
  end.
Fixpoint isort (l : list Z) : list Z :=
  match l with
  | [] => []
  | x :: r => insert x (isort r)
  end.

Lemma insert_comm : forall x y l, insert x (insert y l) = insert y (insert x l).
Proof.
  intros x y l; induction l as [|z r IH]; cbn [insert].
  - destruct (x <=? y) eqn:A, (y <=? x) eqn:B; try reflexivity;
      apply Z.leb_le in A || apply Z.leb_gt in A; apply Z.leb_le in B || apply Z.leb_gt in B;
      try lia; replace x with y by lia; reflexivity.
  - destruct (y <=? z) eqn:A, (x <=? z) eqn:B; cbn [insert]; rewrite ?A, ?B.
    + destruct (x <=? y) eqn:C, (y <=? x) eqn:D; try reflexivity;
        apply Z.leb_le in C || apply Z.leb_gt in C; apply Z.leb_le in D || apply Z.leb_gt in D;
        try lia; replace x with y by lia; reflexivity.
    + destruct (x <=? y) eqn:C; [|reflexivity].
      apply Z.leb_le in C; apply Z.leb_le in A; apply Z.leb_gt in B; lia.
    + destruct (y <=? x) eqn:C; [|reflexivity].
      apply Z.leb_le in C; apply Z.leb_le in B; apply Z.leb_gt in A; lia.
    + now rewrite IH.
Qed.

Theorem isort_perm : forall l l', Permutation l l' -> isort l = isort l'.
Proof.
  induction 1; cbn [isort].
  - reflexivity.
  - now rewrite IHPermutation.
  - apply insert_comm.
  - congruence.
Qed.

Lemma insert_perm : forall x l, Permutation (x :: l) (insert x l).
Proof.
  intros x l; induction l as [|y r IH]; cbn [insert]; [reflexivity|].
  destruct (x <=? y); [reflexivity|].
  eapply perm_trans; [apply perm_swap|]. now apply perm_skip.
Qed.
Lemma isort_is_perm : forall l, Permutation l (isort l).
Proof.
  induction l as [|x r IH]; cbn [isort]; [constructor|].
  eapply perm_trans; [apply perm_skip, IH|apply insert_perm].
Qed.

(* a site that sorts the ranged keys before using them *)
Theorem sorted_then_perm_invariant : forall {A} (f : list Z -> A) o o',
  Permutation o o' -> f (isort o) = f (isort o').
Proof. intros A f o o' H; now rewrite (isort_perm _ _ H). Qed.

(* ---- commutative bodies ---- *)
Theorem fold_comm_perm : forall {S K} (step : S -> K -> S),
  (forall s a b, step (step s a) b = step (step s b) a) ->
  forall l l', Permutation l l' -> forall s, fold_left step l s = fold_left step l' s.
Proof.
  intros S K step C l l' H; induction H; intros s; cbn [fold_left].
  - reflexivity.
  - apply IHPermutation.
  - now rewrite C.
  - now rewrite IHPermutation1.
Qed.

(* conditional commutation: the steps only have to commute on the states reachable from an invariant *)
Theorem fold_comm_perm_inv : forall {S K} (step : S -> K -> S) (I : S -> Prop),
  (forall s a, I s -> I (step s a)) ->
  (forall s a b, I s -> step (step s a) b = step (step s b) a) ->
  forall l l', Permutation l l' -> forall s, I s -> fold_left step l s = fold_left step l' s.
Proof.
  intros S K step I P C l l' H; induction H; intros s Hs; cbn [fold_left].
  - reflexivity.
  - apply IHPermutation; auto.
  - rewrite C; auto.
  - rewrite IHPermutation1; auto.
Qed.

(* existence / counting observations of the key set are order-free *)
Theorem existsb_perm : forall (p : Z -> bool) l l', Permutation l l' -> existsb p l = existsb p l'.
Proof.
  intros p l l' H; induction H; cbn [existsb].
  - reflexivity.
  - now rewrite IHPermutation.
  - destruct (p x), (p y); reflexivity.
  - congruence.
Qed.
Theorem forallb_perm : forall (p : Z -> bool) l l', Permutation l l' -> forallb p l = forallb p l'.
Proof.
  intros p l l' H; induction H; cbn [forallb].
  - reflexivity.
  - now rewrite IHPermutation.
  - destruct (p x), (p y); reflexivity.
  - congruence.
Qed.
Theorem length_perm : forall (l l' : list Z), Permutation l l' -> length l = length l'.
Proof. intros; now apply Permutation_length. Qed.
