(* C19 - the vocabulary of the generated site inventory (Gen/C19_sites.v) *)
From Coq Require Import String List Bool.
Import ListNotations.
Open Scope string_scope.

(* effect class computed by harness/c19scan from the loop body *)
Inductive sclass :=
| Pure            (* only writes maps / loop-local variables, calls only value-level functions, never leaves the loop early *)
| CollectSorted   (* only appends to slices that are sorted right after the loop *)
| Escaping.       (* anything else: must be classified by hand in C19/Classify.v *)

(* a site is identified by file, enclosing function and a hash of its normalised source - not by line number *)
Record site := mkSite { s_file : string; s_func : string; s_hash : string; s_class : sclass }.

Definition same_site (f fn h : string) (s : site) : bool :=
  String.eqb f (s_file s) && String.eqb fn (s_func s) && String.eqb h (s_hash s).

(* in-memory state inventory (Gen/C19_caches.v): declaration file, "Type.field" or variable name, hash of the normalised
   list of statements that write it *)
Record csite := mkCSite { c_file : string; c_owner : string; c_hash : string }.
Definition same_csite (f o h : string) (s : csite) : bool :=
  String.eqb f (c_file s) && String.eqb o (c_owner s) && String.eqb h (c_hash s).
