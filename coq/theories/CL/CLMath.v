(* Concentrated-liquidity amount / liquidity / next-price formulas, mirroring
   /repo/x/concentrated-liquidity/math/math.go function by function, as written, including every
   rounding call.  Sqrt prices and BigDec amounts are raw x 10^36, liquidity and Dec amounts raw x 10^18,
   token amounts (osmomath.Int) plain integers.  A Go panic (division by zero, explicit panic, BigDec
   bit-length overflow) is [None].  Definitions only.

   math.Liquidity0                               -> liquidity0
   math.Liquidity1                               -> liquidity1
   math.CalcAmount0Delta                         -> calc_amount0_delta
   math.CalcAmount1Delta                         -> calc_amount1_delta
   math.GetNextSqrtPriceFromAmount0InRoundingUp  -> next_sqrt_price_amount0_in_round_up
   math.GetNextSqrtPriceFromAmount0OutRoundingUp -> next_sqrt_price_amount0_out_round_up
   math.GetNextSqrtPriceFromAmount1InRoundingDown  -> next_sqrt_price_amount1_in_round_down
   math.GetNextSqrtPriceFromAmount1OutRoundingDown -> next_sqrt_price_amount1_out_round_down
   math.GetLiquidityFromAmounts                  -> get_liquidity_from_amounts *)
From Coq Require Import ZArith Bool.
From Osmo Require Import Base.DecModel CL.TickMath.
Open Scope Z_scope.

(* a BigDec result that must pass assertMaxBitLen *)
Definition bd_chk (z : Z) : option Z := if bd_fits z then Some z else None.
(* division whose divisor must be non-zero (big.Int division by zero panics) *)
Definition nz (d : Z) : option unit := if d =? 0 then None else Some tt.

(* amountBigDec.MulMut(product).QuoMut(diff).Dec() *)
Definition liquidity0 (amount sa sb : Z) : option Z :=
  let '(sa, sb) := if sb <? sa then (sb, sa) else (sa, sb) in
  do product <- bd_chk (bd_mul sa sb);
  let diff := sb - sa in
  do _ <- nz diff;
  do m <- bd_chk (bd_mul (bd_from_int amount) product);
  do q <- bd_chk (bd_quo m diff);
  Some (bd_to_dec q).

Definition liquidity1 (amount sa sb : Z) : option Z :=
  let '(sa, sb) := if sb <? sa then (sb, sa) else (sa, sb) in
  let diff := sb - sa in
  do _ <- nz diff;
  do q <- bd_chk (bd_quo (bd_from_int amount) diff);
  Some (bd_to_dec q).

(* liq : raw Dec (may be negative when withdrawing) *)
Definition calc_amount0_delta (liq sa sb : Z) (round_up : bool) : option Z :=
  let '(sa, sb) := if sb <? sa then (sb, sa) else (sa, sb) in
  let diff := sb - sa in
  do _ <- nz sa; do _ <- nz sb;
  if round_up then
    do x <- bd_chk (bd_mul_round_up_dec diff liq);
    do y <- bd_chk (bd_quo_round_up_mut x sb);
    bd_chk (bd_quo_round_up_next_int_mut y sa)
  else
    do x <- bd_chk (bd_mul_truncate_dec diff liq);
    do y <- bd_chk (bd_quo_truncate x sb);
    bd_chk (bd_quo_truncate y sa).

Definition calc_amount1_delta (liq sa sb : Z) (round_up : bool) : option Z :=
  let diff := Z.abs (sb - sa) in
  if round_up then
    do x <- bd_chk (bd_mul_dec diff liq);
    Some (bd_ceil x)
  else bd_chk (bd_mul_truncate_dec diff liq).

(* cur, liq36 (liquidity as BigDec), amt36 (BigDec amount) *)
Definition next_sqrt_price_amount0_in_round_up (cur liq36 amt36 : Z) : option Z :=
  if amt36 =? 0 then Some cur else
  do product <- bd_chk (bd_mul_truncate amt36 cur);
  let den := product + liq36 in
  do num <- bd_chk (bd_mul_round_up liq36 cur);
  do _ <- nz den;
  bd_chk (bd_quo_round_up_mut num den).

(* amt18 : Dec amount *)
Definition next_sqrt_price_amount0_out_round_up (cur liq36 amt18 : Z) : option Z :=
  if amt18 =? 0 then Some cur else
  do product <- bd_chk (bd_mul_round_up_dec cur amt18);
  let den := liq36 - product in
  do num <- bd_chk (bd_mul_round_up liq36 cur);
  do _ <- nz den;
  bd_chk (bd_quo_round_up_mut num den).

(* liq18 : Dec liquidity, amt36 : BigDec amount *)
Definition next_sqrt_price_amount1_in_round_down (cur liq18 amt36 : Z) : option Z :=
  do _ <- nz liq18;
  do q <- bd_chk (bd_quo_truncate_dec amt36 liq18);
  Some (q + cur).

Definition next_sqrt_price_amount1_out_round_down (cur liq18 amt36 : Z) : option Z :=
  do _ <- nz liq18;
  do q <- bd_chk (bd_quo_by_dec_round_up amt36 liq18);
  Some (cur - q).

Definition get_liquidity_from_amounts (s sa sb amount0 amount1 : Z) : option Z :=
  let '(sa, sb) := if sb <? sa then (sb, sa) else (sa, sb) in
  if s <=? sa then liquidity0 amount0 sa sb
  else if s <? sb then
    do l0 <- liquidity0 amount0 s sb;
    do l1 <- liquidity1 amount1 s sa;
    Some (Z.min l0 l1)
  else liquidity1 amount1 sb sa.
