(* Correspondence glue shared by the concentrated-liquidity properties: run the model on a driver case
   (harness/cldrv) and flatten its observables exactly as props/_cl.py flattens the driver's. *)
From Coq Require Import ZArith Bool List.
Import ListNotations.
From Osmo Require Import Base.Obs Base.DecModel CL.TickMath CL.CLMath CL.CLPool CL.CLSwap CL.CLStep.
Open Scope Z_scope.

Record case := mkCase {
  c_spacing : Z; c_spread : Z; c_scaling : Z;
  c_fund : Z;                 (* initial balance of each of the 3 accounts in each denom *)
  c_time : Z;                 (* block time (unix s) at pool creation *)
  c_ops : list op;            (* resolved operations echoed by the driver *)
  c_expect : list Z }.

Definition flat_tick (kv : Z * tick_info) : list Z := [fst kv; ti_gross (snd kv); ti_net (snd kv)].
Definition flat_pos (p : position) : list Z := [ps_id p; ps_owner p; ps_lower p; ps_upper p; ps_liq p; ps_join p].
(* all ticks, all positions, next id, principal balance of the pool account, block time *)
Definition flat_rest (s : state) : list Z :=
  [Z.of_nat (length (s_ticks s))] ++ flat_map flat_tick (s_ticks s)
  ++ [Z.of_nat (length (s_pos s))] ++ flat_map flat_pos (s_pos s)
  ++ [s_next_id s; fst (b_pool (s_bank s)); snd (b_pool (s_bank s)); s_time s].
(* Elaborating tens of thousands of 40-digit literals costs Coq seconds per case, so the bulky part of the
   state is compared through a 128-bit polynomial digest (computed identically by props/_cl.py on the driver's
   dump; Z.land is two's-complement on negatives, like Python's &); the pool summary and the message responses
   are compared literally. *)
Definition dg_mask : Z := 2 ^ 128 - 1.
Definition dg_b : Z := 1000000007.
Definition digest (l : list Z) : Z := fold_left (fun h x => Z.land (h * dg_b + x + 1) dg_mask) l 7.
Definition flat_state (s : state) : list Z :=
  [p_tick (s_pool s); p_sqrt (s_pool s); p_liq (s_pool s); digest (flat_rest s)].
Definition flat_result (r : option (list Z)) : list Z :=
  match r with
  | Some l => [1; Z.of_nat (length l)] ++ l
  | None => [0; 0]
  end.

(* extra per-operation observables of a property: [pre] is computed on the state BEFORE the operation,
   [post] on the states before and AFTER it (given the operation and its response) *)
Definition pre_obs := state -> op -> list Z.
Definition post_obs := state -> state -> op -> option (list Z) -> list Z.
Definition no_pre : pre_obs := fun _ _ => [].
Definition no_post : post_obs := fun _ _ _ _ => [].

Fixpoint scan (pre : pre_obs) (post : post_obs) (s : state) (ops : list op) : list Z :=
  match ops with
  | [] => []
  | o :: r => let '(s', res) := step s o in
              pre s o ++ flat_result res ++ flat_state s' ++ post s s' o res ++ scan pre post s' r
  end.

Definition case_init (c : case) : state :=
  init_state (c_spacing c) (c_spread c) (c_scaling c) [(c_fund c, c_fund c); (c_fund c, c_fund c); (c_fund c, c_fund c)] (c_time c).
Definition model_obs (pre : pre_obs) (post : post_obs) (c : case) : list Z :=
  flat_state (case_init c) ++ scan pre post (case_init c) (c_ops c).
Definition case_ok_with (pre : pre_obs) (post : post_obs) (c : case) : bool := zlist_eqb (model_obs pre post c) (c_expect c).

(* ---------- direct calls of the math functions (driver cases with a "math" list) ---------- *)
Inductive mcall :=
| MAmount0 (liq a b : Z) (ru : bool) | MAmount1 (liq a b : Z) (ru : bool)
| MNext0In (cur liq36 amt36 : Z) | MNext0Out (cur liq36 amt18 : Z) | MNext1In (cur liq amt36 : Z) | MNext1Out (cur liq amt36 : Z)
| MLiq0 (amt a b : Z) | MLiq1 (amt a b : Z) | MLiqFrom (s a b amt0 amt1 : Z)
| MTick2Sqrt (t : Z) | MSqrt2Tick (s : Z).
Definition mcall_eval (m : mcall) : option Z :=
  match m with
  | MAmount0 liq a b ru => calc_amount0_delta liq a b ru
  | MAmount1 liq a b ru => calc_amount1_delta liq a b ru
  | MNext0In cur l x => next_sqrt_price_amount0_in_round_up cur l x
  | MNext0Out cur l x => next_sqrt_price_amount0_out_round_up cur l x
  | MNext1In cur l x => next_sqrt_price_amount1_in_round_down cur l x
  | MNext1Out cur l x => next_sqrt_price_amount1_out_round_down cur l x
  | MLiq0 x a b => liquidity0 x a b
  | MLiq1 x a b => liquidity1 x a b
  | MLiqFrom s a b x y => get_liquidity_from_amounts s a b x y
  | MTick2Sqrt t => tick_to_sqrt_price t
  | MSqrt2Tick s => calculate_sqrt_price_to_tick s
  end.
Definition mcall_ok (me : mcall * list Z) : bool :=
  zlist_eqb (match mcall_eval (fst me) with Some x => [1; x] | None => [0; 0] end) (snd me).
