(* Concentrated-liquidity tick <-> price conversions, mirroring
   /repo/x/concentrated-liquidity/math/tick.go, math/precompute.go and /repo/osmomath/sqrt.go
   function by function, as written.  BigDec values are raw mantissas x 10^36, Dec values x 10^18
   (Base/DecModel.v).  Errors and panics are [None].  Definitions only (lemmas: C07/TickLemmas.v).
   This copy is independent of the C14 model of the same functions.

   Go function                         -> definition here
   osmomath.MonotonicSqrtMut           -> monotonic_sqrt18
   osmomath.MonotonicSqrtBigDecMut     -> monotonic_sqrt36
   math.powTenBigDec                   -> pow_ten_bigdec
   math.TickToAdditiveGeometricIndices -> (inlined in tick_to_price)
   math.TickToPrice                    -> tick_to_price
   math.TickToSqrtPrice                -> tick_to_sqrt_price
   math.TicksToSqrtPrice               -> ticks_to_sqrt_price
   math.RoundDownTickToSpacing         -> round_down_tick_to_spacing
   math.CalculatePriceToTick           -> calculate_price_to_tick
   math.CalculateSqrtPriceToTick       -> calculate_sqrt_price_to_tick
   math.SqrtPriceToTickRoundDownSpacing-> sqrt_price_to_tick_round_down_spacing *)
From Coq Require Import ZArith Bool List.
Import ListNotations.
From Osmo Require Import Base.DecModel Gen.CL_consts.
Open Scope Z_scope.

Notation "'do' x <- a ; b" := (match a with Some x => b | None => None end)
  (at level 200, x pattern, a at level 100, b at level 200).

Definition MinInitializedTick : Z := cl_MinInitializedTick.
Definition MaxTick : Z := cl_MaxTick.
Definition MinCurrentTick : Z := MinInitializedTick - 1.
Definition MinInitializedTickV2 : Z := cl_MinInitializedTickV2.
Definition MinCurrentTickV2 : Z := MinInitializedTickV2 - 1.
Definition ExponentAtPriceOne : Z := cl_ExponentAtPriceOne.
(* geometricExponentIncrementDistanceInTicks = 9 * 10^(-ExponentAtPriceOne) *)
Definition geo_dist : Z := 9 * 10 ^ (- ExponentAtPriceOne).
Definition MaxSpotPriceBigDec : Z := bd_from_dec cl_MaxSpotPrice18.
Definition MinSpotPriceBigDec : Z := bd_from_dec cl_MinSpotPrice18.
Definition MinSpotPriceV2 : Z := cl_MinSpotPriceV2_36.

(* osmomath.MonotonicSqrtMut: smallest r with r^2 >= d * 10^18 (d a raw Dec); error on negatives *)
Definition monotonic_sqrt18 (d : Z) : option Z :=
  if d <? 0 then None else
  let sh := d * P18 in let r := Z.sqrt sh in
  Some (if r * r <? sh then r + 1 else r).
(* osmomath.MonotonicSqrtBigDecMut *)
Definition monotonic_sqrt36 (d : Z) : option Z :=
  if d <? 0 then None else
  let sh := d * P36 in let r := Z.sqrt sh in
  Some (if r * r <? sh then r + 1 else r).

(* powTenBigDec: bigPowersOfTen[e] (e in 0..308) / bigNegPowersOfTen[-e] = 1.Quo(10^-e), -e in 0..36
   (exact: 10^(36+e)); any other index is an out-of-range slice access = panic *)
Definition pow_ten_bigdec (e : Z) : option Z :=
  if (0 <=? e) && (e <=? 308) then Some (10 ^ e * P36)
  else if (e <? 0) && (-36 <=? e) then Some (10 ^ (36 + e))
  else None.

Definition tick_to_price (t : Z) : option Z :=
  if t =? 0 then Some P36
  else if (t =? MinInitializedTickV2) || (t =? MinCurrentTickV2) then Some MinSpotPriceV2
  else if t <? MinCurrentTickV2 then None
  else if MaxTick <? t then None
  else
    let delta := Z.quot t geo_dist in                 (* Go's / on int64 truncates *)
    let additive := t - delta * geo_dist in
    let e0 := ExponentAtPriceOne + delta in
    let e := if t <? 0 then e0 - 1 else e0 in
    let unscaled := (if t <? 0 then 10000000 else 1000000) + additive in
    do p10 <- pow_ten_bigdec e;
    let price := p10 * unscaled in
    if negb (bd_fits price) then None
    else if (MaxSpotPriceBigDec <? price) || (price <? MinSpotPriceV2) then None
    else Some price.

Definition tick_to_sqrt_price (t : Z) : option Z :=
  do p <- tick_to_price t;
  if MinInitializedTick <=? t then
    do r <- monotonic_sqrt18 (bd_to_dec p); Some (bd_from_dec r)
  else monotonic_sqrt36 p.

(* returns (sqrtPriceLower, sqrtPriceUpper) *)
Definition ticks_to_sqrt_price (lo hi : Z) : option (Z * Z) :=
  if hi <=? lo then None else
  do su <- tick_to_sqrt_price hi;
  do sl <- tick_to_sqrt_price lo;
  Some (sl, su).

Definition round_down_tick_to_spacing (t sp : Z) : option Z :=
  if sp =? 0 then None else                            (* integer division by zero panics *)
  let m0 := Z.rem t sp in
  let m := if m0 <? 0 then m0 + sp else m0 in
  let t' := if negb (m =? 0) then t - m else t in
  if (MaxTick <? t') || (t' <? MinInitializedTickV2) then None else Some t'.

(* tickExpCache: index i >= 0 built while maxPrice < MaxSpotPrice, i < 0 while minPrice > 10^-30 *)
Definition geo_initial_price (i : Z) : option Z :=
  if 0 <=? i then Some (10 ^ i * P36) else pow_ten_bigdec i.
Definition geo_max_price (i : Z) : option Z :=
  if 0 <=? i then Some (10 ^ (i + 1) * P36) else pow_ten_bigdec (i + 1).
Definition geo_cache_has (i : Z) : bool :=
  if 0 <=? i then 10 ^ i * P36 <? MaxSpotPriceBigDec      (* entry i exists iff the previous maxPrice = 10^i < max *)
  else 10 ^ (37 + i) >? MinSpotPriceV2.                   (* entry i exists iff previous minPrice = 10^(i+1) > 10^-30 *)

Fixpoint geo_search_up (fuel : nat) (i : Z) (price : Z) : option Z :=
  match fuel with
  | O => None
  | S f => if negb (geo_cache_has i) then None            (* nil map entry: panic *)
           else do mx <- geo_max_price i;
                if mx <? price then geo_search_up f (i + 1) price else Some i
  end.
Fixpoint geo_search_down (fuel : nat) (i : Z) (price : Z) : option Z :=
  match fuel with
  | O => None
  | S f => if negb (geo_cache_has i) then None
           else do ip <- geo_initial_price i;
                if price <? ip then geo_search_down f (i - 1) price else Some i
  end.

Definition calculate_price_to_tick (price0 : Z) : option Z :=
  if price0 <? 0 then None
  else if (MaxSpotPriceBigDec <? price0) || (price0 <? MinSpotPriceV2) then None
  else if price0 =? P36 then Some 0
  else
    let price := if MinSpotPriceBigDec <=? price0 then bd_chop_precision 18 price0 else price0 in
    do i <- (if P36 <? price then geo_search_up 400 0 price else geo_search_down 400 (-1) price);
    do ip <- geo_initial_price i;
    do inc <- pow_ten_bigdec (ExponentAtPriceOne + i);
    let filled := bd_quo (price - ip) inc in
    Some (bd_truncate_int filled + geo_dist * i).

Definition calculate_sqrt_price_to_tick (s : Z) : option Z :=
  let price := bd_mul s s in
  if negb (bd_fits price) then None else
  do tick0 <- calculate_price_to_tick price;
  if tick0 <? MinCurrentTick then None else
  let '(tick, oob) :=
    if tick0 <=? MinInitializedTickV2 then (MinInitializedTickV2 + 1, true)
    else if MaxTick - 1 <=? tick0 then (MaxTick - 2, true)
    else (tick0, false) in
  do s1 <- tick_to_sqrt_price (tick + 1);
  if s1 <=? s then
    do s2 <- tick_to_sqrt_price (tick + 2);
    if (negb oob && (s2 <=? s)) || (oob && (s2 <? s)) then None
    else if s =? s2 then Some (tick + 2)
    else Some (tick + 1)
  else
    do s0 <- tick_to_sqrt_price tick;
    if s0 <=? s then Some tick
    else
      do sm1 <- tick_to_sqrt_price (tick - 1);
      if s <? sm1 then None else Some (tick - 1).

Definition sqrt_price_to_tick_round_down_spacing (s sp : Z) : option Z :=
  do t <- calculate_sqrt_price_to_tick s;
  round_down_tick_to_spacing t sp.
