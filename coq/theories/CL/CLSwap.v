(* Concentrated-liquidity swaps, mirroring /repo/x/concentrated-liquidity/swaps.go and
   swapstrategy/{zero_for_one.go, one_for_zero.go, spread_rewards.go, swap_strategy.go} as written.
   zfo = true: token0 in, price moves down (zeroForOneStrategy); zfo = false: token1 in, price moves up.
   Amounts inside the loop are raw Dec (x 10^18); sqrt prices raw BigDec (x 10^36).  [None] = error / panic.
   Definitions only.

   swapstrategy.GetSqrtTargetPrice                 -> sqrt_target
   swapstrategy.computeSpreadRewardChargeFromAmountIn      -> fee_from_amount_in
   swapstrategy.computeSpreadRewardChargePerSwapStepOutGivenIn -> fee_out_given_in
   {zeroForOne,oneForZero}Strategy.ComputeSwapWithinBucketOutGivenIn -> compute_out_given_in
   {zeroForOne,oneForZero}Strategy.ComputeSwapWithinBucketInGivenOut -> compute_in_given_out
   InitializeNextTickIterator (+ iterator Next)    -> next_ticks   (the remaining initialised ticks in traversal order)
   SetLiquidityDeltaSign / UpdateTickAfterCrossing -> (inlined in cross_tick)
   ValidateSqrtPrice, GetSqrtPriceLimit(0 / Min/MaxSpotPrice) -> sqrt_price_limit, validate_sqrt_price
   SwapState.updateSpreadRewardGrowthGlobal        -> update_fee_growth
   validateSwapProgressAndAmountConsumption        -> progress_ok
   edgeCaseInequalityBasedOnSwapStrategy           -> edge_case
   Keeper.swapCrossTickLogic                       -> cross_tick
   Keeper.computeOutAmtGivenIn                     -> loop_out_given_in + compute_out_amt_given_in
   Keeper.computeInAmtGivenOut                     -> loop_in_given_out + compute_in_amt_given_out
   Keeper.updatePoolForSwap (+ Pool.ApplySwap)     -> update_pool_for_swap
   Keeper.swapOutAmtGivenIn / SwapExactAmountIn    -> swap_exact_in
   Keeper.swapInAmtGivenOut / SwapExactAmountOut   -> swap_exact_out
   Keeper.CalcOutAmtGivenIn / CalcInAmtGivenOut    -> calc_out_given_in / calc_in_given_out  (estimates: no state change by construction)

   Fuel: the Go loops have no explicit bound; every iteration either crosses one initialised tick
   (at most #ticks times), or is a no-progress iteration (at most swapNoProgressLimit + 1 of them, then
   SwapNoProgressError), or ends the loop / lands inside a bucket.  The callers pass
   fuel = 2 * #ticks + swapNoProgressLimit + 8; running out of fuel is [None]. *)
From Coq Require Import ZArith Bool List.
Import ListNotations.
From Osmo Require Import Base.DecModel Gen.CL_consts CL.TickMath CL.CLMath CL.CLPool.
Open Scope Z_scope.

Definition swap_no_progress_limit : Z := cl_swapNoProgressLimit.
Definition smallest_dec : Z := 1.

(* ---------- strategy ---------- *)
Definition sqrt_target (zfo : bool) (limit next_tick_sqrt : Z) : Z :=
  if zfo then (if next_tick_sqrt <? limit then limit else next_tick_sqrt)
  else (if limit <? next_tick_sqrt then limit else next_tick_sqrt).

Definition dchk (z : Z) : option Z := if d_fits z then Some z else None.   (* LegacyDec assertInValidRange *)

Definition one_minus_spf (spf : Z) : Z := P18 - spf.
Definition spf_over_one_minus_spf (spf : Z) : option Z :=
  do _ <- nz (one_minus_spf spf); dchk (d_quo_round_up spf (one_minus_spf spf)).
Definition fee_from_amount_in (amount_in spf : Z) : option Z :=
  do k <- spf_over_one_minus_spf spf; dchk (d_mul_round_up amount_in k).
Definition fee_out_given_in (reached : bool) (amount_in remaining spf : Z) : option Z :=
  if spf =? 0 then Some 0
  else if spf <? 0 then None
  else
    do f <- (if reached then fee_from_amount_in amount_in spf else dchk (remaining - amount_in));
    if f <? 0 then None else Some f.

(* result: (sqrtPriceNext, amountIn consumed (Dec), amountOut (Dec), spread reward charge (Dec)) *)
Definition compute_out_given_in (zfo : bool) (spf cur target liq remaining : Z) : option (Z * Z * Z * Z) :=
  let remaining_less_fee := bd_from_dec_mul_dec remaining (one_minus_spf spf) in
  if zfo then
    do amt_in0 <- calc_amount0_delta liq target cur true;
    do next <- (if amt_in0 <=? remaining_less_fee then Some target
                else next_sqrt_price_amount0_in_round_up cur (bd_from_dec liq) remaining_less_fee);
    let reached := target =? next in
    do amt_in <- (if reached then Some amt_in0 else calc_amount0_delta liq next cur true);
    do amt_out <- calc_amount1_delta liq next cur false;
    let amt_in_final := bd_to_dec_round_up amt_in in
    do fee <- fee_out_given_in reached amt_in_final remaining spf;
    Some (next, amt_in_final, bd_to_dec amt_out, fee)
  else
    do amt_in0 <- calc_amount1_delta liq target cur true;
    do next <- (if amt_in0 <=? remaining_less_fee then Some target
                else next_sqrt_price_amount1_in_round_down cur liq remaining_less_fee);
    let reached := target =? next in
    do amt_in <- (if reached then Some amt_in0 else calc_amount1_delta liq next cur true);
    do amt_out <- calc_amount0_delta liq next cur false;
    let amt_in_final := bd_to_dec_round_up amt_in in
    do fee <- fee_out_given_in reached amt_in_final remaining spf;
    Some (next, amt_in_final, bd_to_dec amt_out, fee).

(* result: (sqrtPriceNext, amountOut consumed (Dec), amountIn (Dec), spread reward charge (Dec)) *)
Definition compute_in_given_out (zfo : bool) (spf cur target liq remaining_out : Z) : option (Z * Z * Z * Z) :=
  let remaining36 := bd_from_dec remaining_out in
  if zfo then
    do amt_out0 <- calc_amount1_delta liq target cur false;
    do next <- (if amt_out0 <=? remaining36 then Some target
                else next_sqrt_price_amount1_out_round_down cur liq remaining36);
    let reached := target =? next in
    do amt_out <- (if reached then Some amt_out0 else calc_amount1_delta liq next cur false);
    do amt_in <- calc_amount0_delta liq next cur true;
    let amt_in_final := bd_to_dec_round_up amt_in in
    do fee <- fee_from_amount_in amt_in_final spf;
    let amt_out' := if remaining36 <? amt_out then remaining36 else amt_out in
    Some (next, bd_to_dec amt_out', amt_in_final, fee)
  else
    do amt_out0 <- calc_amount0_delta liq target cur false;
    do next <- (if amt_out0 <=? remaining36 then Some target
                else next_sqrt_price_amount0_out_round_up cur (bd_from_dec liq) remaining_out);
    let reached := target =? next in
    do amt_out <- (if reached then Some amt_out0 else calc_amount0_delta liq next cur false);
    do amt_in <- calc_amount1_delta liq next cur true;
    let amt_in_final := bd_to_dec_round_up amt_in in
    do fee <- fee_from_amount_in amt_in_final spf;
    let amt_out' := if remaining36 <? amt_out then remaining36 else amt_out in
    Some (next, bd_to_dec amt_out', amt_in_final, fee).

(* the initialised ticks still ahead of the swap, in traversal order:
   zero-for-one: indices <= current tick, descending (search INCLUSIVE of the current tick);
   one-for-zero: indices > current tick, ascending (EXCLUSIVE) *)
Definition next_ticks (zfo : bool) (ticks : list (Z * tick_info)) (cur : Z) : list (Z * tick_info) :=
  if zfo then rev (filter (fun kv => fst kv <=? cur) ticks)
  else filter (fun kv => cur <? fst kv) ticks.

(* GetSqrtPriceLimit(priceLimit) for the two price limits the swap entry points use (Min/MaxSpotPrice; 0 in
   the estimates gives the same values): MinSqrtPrice / MaxSqrtPrice *)
Definition sqrt_price_limit (zfo : bool) : option Z :=
  do r <- monotonic_sqrt18 (if zfo then cl_MinSpotPrice18 else cl_MaxSpotPrice18); Some (bd_from_dec r).
Definition validate_sqrt_price (zfo : bool) (limit cur : Z) : bool :=
  match sqrt_price_limit true, sqrt_price_limit false with
  | Some mn, Some mx => if zfo then negb ((cur <? limit) || (limit <? mn)) else negb ((limit <? cur) || (mx <? limit))
  | _, _ => false
  end.

(* ---------- swap state ---------- *)
Record swap_state := mkSS {
  ss_remaining : Z;        (* amountSpecifiedRemaining (Dec) *)
  ss_calculated : Z;       (* amountCalculated (Dec) *)
  ss_sqrt : Z; ss_tick : Z; ss_liq : Z;
  ss_growth : Z;           (* globalSpreadRewardGrowthPerUnitLiquidity (Dec, scaled) *)
  ss_fee : Z }.            (* globalSpreadRewardGrowth (Dec): total spread reward charged *)

(* SwapState.updateSpreadRewardGrowthGlobal (only when updateAccumulators) *)
Definition update_fee_growth (scaling : Z) (st : swap_state) (fee : Z) : option swap_state :=
  do scaled <- (if scaling =? P18 then Some fee else dchk (d_mul_truncate fee scaling));
  do total <- dchk (ss_fee st + fee);
  if ss_liq st =? 0 then Some (mkSS (ss_remaining st) (ss_calculated st) (ss_sqrt st) (ss_tick st) (ss_liq st) (ss_growth st) total)
  else
    do per <- dchk (d_quo_truncate scaled (ss_liq st));
    do g <- dchk (ss_growth st + per);
    Some (mkSS (ss_remaining st) (ss_calculated st) (ss_sqrt st) (ss_tick st) (ss_liq st) g total).

Definition progress_ok (computed start amt_in amt_out : Z) : bool :=
  negb ((computed =? start) && negb ((amt_in =? 0) && (amt_out =? 0))).
Definition edge_case (zfo : bool) (next_tick_sqrt computed : Z) : bool :=
  if zfo then computed <? next_tick_sqrt else next_tick_sqrt <? computed.

(* swapCrossTickLogic: liquidity += (+/-) net, tick := next (one-for-zero) or next - 1 (zero-for-one) *)
Definition cross_tick (zfo : bool) (st : swap_state) (nt : Z) (info : tick_info) : option swap_state :=
  let net := if zfo then - ti_net info else ti_net info in
  do l <- dchk (ss_liq st + net);
  Some (mkSS (ss_remaining st) (ss_calculated st) (ss_sqrt st) (if zfo then nt - 1 else nt) l (ss_growth st) (ss_fee st)).

(* one iteration of the loop body after the bucket computation, shared by both swap kinds:
   dspec = amount taken from amountSpecifiedRemaining, dcalc = amount added to amountCalculated *)
Definition after_step (zfo accum : bool) (scaling : Z) (st : swap_state) (iter : list (Z * tick_info))
           (nt : Z) (info : tick_info) (nts computed dspec dcalc fee : Z) : option (swap_state * list (Z * tick_info)) :=
  do st1 <- (if accum then update_fee_growth scaling st fee else Some st);
  do rem <- dchk (ss_remaining st1 - dspec);
  do calc <- dchk (ss_calculated st1 + dcalc);
  let start := ss_sqrt st in
  let st2 := mkSS rem calc computed (ss_tick st1) (ss_liq st1) (ss_growth st1) (ss_fee st1) in
  if nts =? computed then
    do st3 <- cross_tick zfo st2 nt info; Some (st3, tl iter)
  else if edge_case zfo nts computed then None
  else if negb (start =? computed) then
    do t <- calculate_sqrt_price_to_tick computed;
    Some (mkSS rem calc computed t (ss_liq st2) (ss_growth st2) (ss_fee st2), iter)
  else Some (st2, iter).

Fixpoint loop_out_given_in (fuel : nat) (zfo accum : bool) (spf scaling limit : Z) (st : swap_state)
         (iter : list (Z * tick_info)) (noprog : Z) : option swap_state :=
  match fuel with
  | O => None
  | S f =>
    if (smallest_dec <? ss_remaining st) && negb (ss_sqrt st =? limit) then
      match iter with
      | [] => None                                            (* RanOutOfTicksForPoolError *)
      | (nt, info) :: _ =>
        do nts <- tick_to_sqrt_price nt;
        let target := sqrt_target zfo limit nts in
        do r <- compute_out_given_in zfo spf (ss_sqrt st) target (ss_liq st) (ss_remaining st);
        let '(computed, amt_in, amt_out, fee) := r in
        if negb (progress_ok computed (ss_sqrt st) amt_in amt_out) then None else
        do infee <- dchk (amt_in + fee);
        do nx <- after_step zfo accum scaling st iter nt info nts computed infee amt_out fee;
        let '(st', iter') := nx in
        if amt_in =? 0 then
          if swap_no_progress_limit <=? noprog then None
          else loop_out_given_in f zfo accum spf scaling limit st' iter' (noprog + 1)
        else loop_out_given_in f zfo accum spf scaling limit st' iter' noprog
      end
    else Some st
  end.

Fixpoint loop_in_given_out (fuel : nat) (zfo accum : bool) (spf scaling limit : Z) (st : swap_state)
         (iter : list (Z * tick_info)) (noprog : Z) : option swap_state :=
  match fuel with
  | O => None
  | S f =>
    if (smallest_dec <? ss_remaining st) && negb (ss_sqrt st =? limit) then
      match iter with
      | [] => None
      | (nt, info) :: _ =>
        do nts <- tick_to_sqrt_price nt;
        let target := sqrt_target zfo limit nts in
        do r <- compute_in_given_out zfo spf (ss_sqrt st) target (ss_liq st) (ss_remaining st);
        let '(computed, amt_out, amt_in, fee) := r in
        if negb (progress_ok computed (ss_sqrt st) amt_in amt_out) then None else
        do infee <- dchk (amt_in + fee);
        do nx <- after_step zfo accum scaling st iter nt info nts computed amt_out infee fee;
        let '(st', iter') := nx in
        if amt_out =? 0 then
          if swap_no_progress_limit <=? noprog then None
          else loop_in_given_out f zfo accum spf scaling limit st' iter' (noprog + 1)
        else loop_in_given_out f zfo accum spf scaling limit st' iter' noprog
      end
    else Some st
  end.

Definition swap_fuel (ticks : list (Z * tick_info)) : nat :=
  (2 * length ticks + Z.to_nat swap_no_progress_limit + 8)%nat.

(* result of computeOutAmtGivenIn / computeInAmtGivenOut: (amountIn, amountOut, spread rewards (Dec), new tick, liquidity, sqrt price) *)
Record swap_result := mkSR { sr_in : Z; sr_out : Z; sr_fee : Z; sr_tick : Z; sr_liq : Z; sr_sqrt : Z }.

Definition swap_setup (s : state) (zfo : bool) : option (Z * list (Z * tick_info)) :=
  let p := s_pool s in
  if negb (pool_has_position p) then None else               (* NoSpotPriceWhenNoLiquidityError *)
  do limit <- sqrt_price_limit zfo;
  if negb (validate_sqrt_price zfo limit (p_sqrt p)) then None else
  Some (limit, next_ticks zfo (s_ticks s) (p_tick p)).

Definition compute_out_amt_given_in (s : state) (zfo accum : bool) (token_in : Z) : option swap_result :=
  do su <- swap_setup s zfo;
  let '(limit, iter) := su in
  let p := s_pool s in
  let st0 := mkSS (d_from_int token_in) 0 (p_sqrt p) (p_tick p) (p_liq p) 0 0 in
  do st <- loop_out_given_in (swap_fuel (s_ticks s)) zfo accum (p_spread p) (p_scaling p) limit st0 iter 0;
  if ss_remaining st <? 0 then None else
  let amount_in := d_truncate_int (d_ceil (d_from_int token_in - ss_remaining st)) in
  let amount_out := d_truncate_int (ss_calculated st) in
  Some (mkSR amount_in amount_out (ss_fee st) (ss_tick st) (ss_liq st) (ss_sqrt st)).

Definition compute_in_amt_given_out (s : state) (zfo accum : bool) (token_out : Z) : option swap_result :=
  do su <- swap_setup s zfo;
  let '(limit, iter) := su in
  let p := s_pool s in
  let st0 := mkSS (d_from_int token_out) 0 (p_sqrt p) (p_tick p) (p_liq p) 0 0 in
  do st <- loop_in_given_out (swap_fuel (s_ticks s)) zfo accum (p_spread p) (p_scaling p) limit st0 iter 0;
  if ss_remaining st <? 0 then None else
  let amount_in := d_truncate_int (d_ceil (ss_calculated st)) in
  let amount_out := d_truncate_int (d_from_int token_out - ss_remaining st) in
  Some (mkSR amount_in amount_out (ss_fee st) (ss_tick st) (ss_liq st) (ss_sqrt st)).

(* updatePoolForSwap: user pays (amountIn - ceil(fee)) to the pool and ceil(fee) to the spread-reward
   account, receives amountOut from the pool; then Pool.ApplySwap *)
Definition pick (zfo : bool) (x : Z) : Z * Z := if zfo then (x, 0) else (0, x).
Definition update_pool_for_swap (s : state) (sender : Z) (zfo : bool) (r : swap_result) : option state :=
  let fee_up := d_truncate_int (d_ceil (sr_fee r)) in
  let to_pool := sr_in r - fee_up in
  if to_pool <=? 0 then None else                           (* sdk.Coins{non-positive coin} is rejected by the bank *)
  let b := s_bank s in
  do ub <- user_bal b sender;
  let '(i0, i1) := pick zfo to_pool in
  do b1 <- send_user_to_pool b sender i0 i1;
  do b2 <- (if fee_up =? 0 then Some b1 else
            do ub1 <- user_bal b1 sender;
            let '(f0, f1) := pick zfo fee_up in
            if (fst ub1 <? f0) || (snd ub1 <? f1) then None else
            Some (set_bspread (set_user b1 sender (fst ub1 - f0, snd ub1 - f1)) (fst (b_spread b1) + f0, snd (b_spread b1) + f1)));
  if sr_out r <=? 0 then None else
  let '(o0, o1) := pick (negb zfo) (sr_out r) in
  do b3 <- send_pool_to_user b2 sender o0 o1;
  if (sr_liq r <? 0) || (sr_sqrt r <? 0) || (sr_tick r <? MinCurrentTick) || (MaxTick <? sr_tick r) then None else
  Some (set_bank (set_pool s (pool_with (s_pool s) (sr_tick r) (sr_sqrt r) (sr_liq r))) b3).

(* MsgSwapExactAmountIn through the poolmanager route (zero taker fee) -> Keeper.SwapExactAmountIn; result = token out *)
Definition swap_exact_in (s : state) (sender : Z) (zfo : bool) (token_in min_out : Z) : option (state * Z) :=
  if negb (0 <? token_in) || negb (0 <? min_out) then None else   (* ValidateBasic *)
  do r <- compute_out_amt_given_in s zfo true token_in;
  if negb (0 <? sr_out r) then None else
  do s' <- update_pool_for_swap s sender zfo r;
  if sr_out r <? min_out then None else
  Some (s', sr_out r).

(* MsgSwapExactAmountOut -> Keeper.SwapExactAmountOut; result = token in *)
Definition swap_exact_out (s : state) (sender : Z) (zfo : bool) (token_out max_in : Z) : option (state * Z) :=
  if negb (0 <? token_out) || negb (0 <? max_in) then None else
  do r <- compute_in_amt_given_out s zfo true token_out;
  if negb (0 <? sr_in r) then None else
  do s' <- update_pool_for_swap s sender zfo r;
  if max_in <? sr_in r then None else
  Some (s', sr_in r).

(* estimates (Keeper.CalcOutAmtGivenIn / CalcInAmtGivenOut): same computation, accumulators not updated,
   run on a discarded cache context - the model has no state to touch *)
Definition calc_out_given_in (s : state) (zfo : bool) (token_in : Z) : option Z :=
  do r <- compute_out_amt_given_in s zfo false token_in; Some (sr_out r).
Definition calc_in_given_out (s : state) (zfo : bool) (token_out : Z) : option Z :=
  do r <- compute_in_amt_given_out s zfo false token_out; Some (sr_in r).
