(* Operations of a concentrated-liquidity history and their atomic execution (DESIGN.md 1.5):
   [step s o] runs the handler; on an error / panic ([None]) the state is unchanged.
   Definitions only. *)
From Coq Require Import ZArith Bool List.
Import ListNotations.
From Osmo Require Import Base.DecModel Gen.CL_consts CL.TickMath CL.CLMath CL.CLPool CL.CLSwap.
Open Scope Z_scope.

Inductive op :=
| OCreate (owner amt0 amt1 min0 min1 lo hi : Z)
| OWithdraw (owner id liq : Z)
| OAdd (owner id amt0 amt1 min0 min1 : Z)
| OTransfer (sender : Z) (ids : list Z) (recipient : Z)
| OSwapIn (sender : Z) (zfo : bool) (amt min_out : Z)
| OSwapOut (sender : Z) (zfo : bool) (amt max_in : Z)
| OTime (dt : Z).                                       (* block time advances by dt seconds *)

(* the message response, flattened *)
Definition handler (s : state) (o : op) : option (state * list Z) :=
  match o with
  | OCreate owner a0 a1 m0 m1 lo hi =>
      do r <- create_position s owner a0 a1 m0 m1 lo hi;
      let '(s', c) := r in
      Some (s', [cr_id c; cr_amount0 c; cr_amount1 c; cr_liq c; cr_lower c; cr_upper c])
  | OWithdraw owner id liq =>
      do r <- withdraw_position s owner id liq;
      let '(s', (a0, a1)) := r in Some (s', [a0; a1])
  | OAdd owner id a0 a1 m0 m1 =>
      do r <- add_to_position s owner id a0 a1 m0 m1;
      let '(s', (nid, x0, x1)) := r in Some (s', [nid; x0; x1])
  | OTransfer sender ids recipient =>
      do s' <- transfer_positions s sender ids recipient; Some (s', [])
  | OSwapIn sender zfo amt min_out =>
      do r <- swap_exact_in s sender zfo amt min_out;
      let '(s', out) := r in Some (s', [out])
  | OSwapOut sender zfo amt max_in =>
      do r <- swap_exact_out s sender zfo amt max_in;
      let '(s', tin) := r in Some (s', [tin])
  | OTime dt => Some (set_time s (s_time s + dt), [])
  end.

(* baseapp atomicity: state written back only on success.  result: Some response | None = failed *)
Definition step (s : state) (o : op) : state * option (list Z) :=
  match handler s o with
  | Some (s', r) => (s', Some r)
  | None => (s, None)
  end.

Fixpoint run (s : state) (ops : list op) : state :=
  match ops with
  | [] => s
  | o :: r => run (fst (step s o)) r
  end.

(* a freshly created pool: no price, no liquidity, no ticks, no positions; position ids start at 1 *)
Definition init_state (spacing spread scaling : Z) (users : list (Z * Z)) (time : Z) : state :=
  mkState (mkPool 0 0 0 spacing spread scaling) [] [] 1 (mkBank (0, 0) (0, 0) (0, 0) users) time.
