(* The ideal a concentrated-liquidity swap is compared with: the exact piecewise constant-liquidity curve,
   in exact rational arithmetic (Q), walked through the same initialised ticks with the same spread factor.
   Units: liquidity raw Dec (x 10^18), sqrt prices raw BigDec (x 10^36); results are token amounts as rationals.
   Definitions only. *)
From Coq Require Import ZArith QArith List Bool.
Import ListNotations.
From Osmo Require Import Base.DecModel CL.TickMath CL.CLPool.
Open Scope Q_scope.

Definition qz (z : Z) : Q := inject_Z z.
Definition q36 : Q := qz (10 ^ 36).
Definition q18 : Q := qz (10 ^ 18).

(* exact token0 amount between sqrt prices a and b (raw) at liquidity liq (raw): L * |1/b - 1/a| *)
Definition seg_amount0 (liq a b : Z) : Q :=
  (qz liq / q18) * (qz (Z.abs (a - b)) / q36) / ((qz a / q36) * (qz b / q36)).
(* exact token1 amount: L * |a - b| *)
Definition seg_amount1 (liq a b : Z) : Q := (qz liq / q18) * (qz (Z.abs (a - b)) / q36).

(* token in / token out of a price move for the two directions: zfo = token0 in, token1 out *)
Definition seg_in (zfo : bool) (liq a b : Z) : Q := if zfo then seg_amount0 liq a b else seg_amount1 liq a b.
Definition seg_out (zfo : bool) (liq a b : Z) : Q := if zfo then seg_amount1 liq a b else seg_amount0 liq a b.

(* ---- the ideal walk, exact-in: state = (sqrt price, liquidity, input left, output so far), all rational ---- *)
Record iw := mkIw { iw_s : Q; iw_l : Q; iw_rem : Q; iw_out : Q }.

(* one bucket: target = sqrt price of the next initialised tick (as a rational), net = its net liquidity, f = spread factor *)
Definition ideal_step_in (zfo : bool) (f : Q) (w : iw) (target net : Q) : iw :=
  let s := iw_s w in let l := iw_l w in
  let need := if zfo then (if Qlt_le_dec target s then l * (1 / target - 1 / s) else 0)
              else (if Qlt_le_dec s target then l * (target - s) else 0) in
  let avail := iw_rem w * (1 - f) in
  if Qlt_le_dec avail need then
    (* the input runs out inside the bucket *)
    let s' := if zfo then l * s / (l + avail * s) else s + avail / l in
    let o := if zfo then l * (s - s') else l * (1 / s - 1 / s') in
    mkIw s' l 0 (iw_out w + o)
  else
    let o := if zfo then (if Qlt_le_dec target s then l * (s - target) else 0)
             else (if Qlt_le_dec s target then l * (1 / s - 1 / target) else 0) in
    mkIw target (l + (if zfo then - net else net)) (iw_rem w - need / (1 - f)) (iw_out w + o).

Fixpoint ideal_walk_in (zfo : bool) (f : Q) (w : iw) (ticks : list (Q * Q)) : iw :=
  match ticks with
  | [] => w
  | (target, net) :: r =>
      if Qle_bool (iw_rem w) 0 then w else ideal_walk_in zfo f (ideal_step_in zfo f w target net) r
  end.

(* the ticks ahead of the current tick with the model's own sqrt prices as bucket edges *)
Definition ideal_ticks (zfo : bool) (ticks : list (Z * tick_info)) (cur : Z) : list (Q * Q) :=
  let ahead := if zfo then rev (filter (fun kv => (fst kv <=? cur)%Z) ticks) else filter (fun kv => (cur <? fst kv)%Z) ticks in
  flat_map (fun kv => match tick_to_sqrt_price (fst kv) with
                      | Some s => [(qz s / q36, qz (ti_net (snd kv)) / q18)]
                      | None => []
                      end) ahead.

Definition ideal_out_given_in (s : state) (zfo : bool) (amount : Z) : Q :=
  let p := s_pool s in
  iw_out (ideal_walk_in zfo (qz (p_spread p) / q18)
            (mkIw (qz (p_sqrt p) / q36) (qz (p_liq p) / q18) (qz amount) 0)
            (ideal_ticks zfo (s_ticks s) (p_tick p))).
