(* Concentrated-liquidity pool state and the liquidity-provider operations, mirroring
   /repo/x/concentrated-liquidity/{lp.go, tick.go, position.go, pool.go, model/pool.go} as written.
   One pool; token amounts are integers, liquidity raw Dec (x 10^18), sqrt price raw BigDec (x 10^36).
   Every operation returns [None] when the Go handler returns an error or panics; the caller
   (CLStep.step) then keeps the old state - baseapp's message atomicity (DESIGN.md 1.5).
   Definitions only.

   model.Pool                                  -> pool          (CurrentTick, CurrentSqrtPrice, CurrentTickLiquidity, TickSpacing, SpreadFactor)
   model.TickInfo (LiquidityGross/Net)         -> tick_info     (growth-outside trackers: extension point, see README)
   model.Position                              -> position
   bank balances of the three pool accounts and of the users -> bank
   Keeper.GetTickInfo/SetTickInfo/RemoveTickInfo -> tick_get_or_init / tick_set / tick_remove   (sorted association list)
   Keeper.initOrUpdateTick                     -> init_or_update_tick
   Pool.IsCurrentTickInRange                   -> in_range
   Pool.CalcActualAmounts                      -> calc_actual_amounts
   Pool.UpdateLiquidityIfActivePosition        -> (inlined in update_position)
   Keeper.PoolHasPosition                      -> pool_has_position
   Keeper.HasAnyPositionForPool                -> has_any_position
   validateTickRangeIsValid                    -> validate_tick_range
   roundTickToCanonicalPriceTick               -> round_tick_to_canonical
   Keeper.initializeInitialPositionForPool     -> initialize_initial_position
   Keeper.uninitializePool                     -> uninitialize_pool
   Keeper.validatePositionUpdateById + initOrUpdateTick x2 + initOrUpdatePosition + CalcActualAmounts
     + UpdateLiquidityIfActivePosition (Keeper.UpdatePosition) -> update_position
   Keeper.sendCoinsBetweenPoolAndUser          -> send_user_to_pool / send_pool_to_user
   Keeper.CreatePosition (+ MsgCreatePosition.ValidateBasic)   -> create_position
   Keeper.WithdrawPosition (+ MsgWithdrawPosition.ValidateBasic) -> withdraw_position
   Keeper.addToPosition (+ MsgAddToPosition.ValidateBasic)     -> add_to_position
   Keeper.transferPositions (+ MsgTransferPositions.ValidateBasic) -> transfer_positions

   Not modelled (see README "extension points"): spread-reward and uptime accumulators, incentive
   records, underlying locks (no position in the driver's histories has one), hooks/listeners
   (no contract set), gas, events, the full-range-liquidity tracker. *)
From Coq Require Import ZArith Bool List.
Import ListNotations.
From Osmo Require Import Base.DecModel CL.TickMath CL.CLMath.
Open Scope Z_scope.

(* ---------- records ---------- *)
Record pool := mkPool {
  p_tick : Z; p_sqrt : Z; p_liq : Z;
  p_spacing : Z; p_spread : Z;            (* constants of the pool: tick spacing, spread factor (raw Dec) *)
  p_scaling : Z }.                        (* spread-reward per-unit-liquidity scaling factor (raw Dec) of the pool *)
Record tick_info := mkTick { ti_gross : Z; ti_net : Z }.
Record position := mkPos { ps_id : Z; ps_owner : Z; ps_lower : Z; ps_upper : Z; ps_liq : Z; ps_join : Z }.
Record bank := mkBank {
  b_pool : Z * Z; b_spread : Z * Z; b_inc : Z * Z;      (* pool / spread-reward / incentive account: (denom0, denom1) *)
  b_users : list (Z * Z) }.
Record state := mkState {
  s_pool : pool; s_ticks : list (Z * tick_info); s_pos : list position;
  s_next_id : Z; s_bank : bank; s_time : Z }.

Definition set_pool (s : state) (p : pool) : state := mkState p (s_ticks s) (s_pos s) (s_next_id s) (s_bank s) (s_time s).
Definition set_ticks (s : state) (t : list (Z * tick_info)) : state := mkState (s_pool s) t (s_pos s) (s_next_id s) (s_bank s) (s_time s).
Definition set_pos (s : state) (ps : list position) : state := mkState (s_pool s) (s_ticks s) ps (s_next_id s) (s_bank s) (s_time s).
Definition set_next_id (s : state) (n : Z) : state := mkState (s_pool s) (s_ticks s) (s_pos s) n (s_bank s) (s_time s).
Definition set_bank (s : state) (b : bank) : state := mkState (s_pool s) (s_ticks s) (s_pos s) (s_next_id s) b (s_time s).
Definition set_time (s : state) (t : Z) : state := mkState (s_pool s) (s_ticks s) (s_pos s) (s_next_id s) (s_bank s) t.
Definition pool_with (p : pool) (tick sqrtp liq : Z) : pool := mkPool tick sqrtp liq (p_spacing p) (p_spread p) (p_scaling p).

(* ---------- ticks: association list sorted by strictly increasing index ---------- *)
Fixpoint tick_get (m : list (Z * tick_info)) (k : Z) : option tick_info :=
  match m with
  | [] => None
  | (k', v) :: r => if k =? k' then Some v else tick_get r k
  end.
Fixpoint tick_set (m : list (Z * tick_info)) (k : Z) (v : tick_info) : list (Z * tick_info) :=
  match m with
  | [] => [(k, v)]
  | (k', v') :: r => if k <? k' then (k, v) :: m else if k =? k' then (k, v) :: r else (k', v') :: tick_set r k v
  end.
Fixpoint tick_remove (m : list (Z * tick_info)) (k : Z) : list (Z * tick_info) :=
  match m with
  | [] => []
  | (k', v') :: r => if k =? k' then r else (k', v') :: tick_remove r k
  end.
(* GetTickInfo: a missing tick reads as makeInitialTickInfo = zero gross / net *)
Definition tick_get_or_init (m : list (Z * tick_info)) (k : Z) : tick_info :=
  match tick_get m k with Some v => v | None => mkTick 0 0 end.

(* initOrUpdateTick: returns the new tick map and tickIsEmpty *)
Definition init_or_update_tick (m : list (Z * tick_info)) (k delta : Z) (upper : bool) : list (Z * tick_info) * bool :=
  let ti := tick_get_or_init m k in
  let gross := ti_gross ti + delta in
  let net := if upper then ti_net ti - delta else ti_net ti + delta in
  (tick_set m k (mkTick gross net), (gross =? 0) && (net =? 0)).

(* ---------- positions: list in increasing id order ---------- *)
Fixpoint pos_get (l : list position) (id : Z) : option position :=
  match l with
  | [] => None
  | p :: r => if ps_id p =? id then Some p else pos_get r id
  end.
Fixpoint pos_set (l : list position) (p : position) : list position :=
  match l with
  | [] => [p]
  | q :: r => if ps_id p <? ps_id q then p :: l else if ps_id p =? ps_id q then p :: r else q :: pos_set r p
  end.
Fixpoint pos_remove (l : list position) (id : Z) : list position :=
  match l with
  | [] => []
  | q :: r => if ps_id q =? id then r else q :: pos_remove r id
  end.
Definition has_any_position (s : state) : bool := match s_pos s with [] => false | _ => true end.
Definition pool_has_position (p : pool) : bool := negb ((p_sqrt p =? 0) && (p_tick p =? 0)).

(* ---------- bank ---------- *)
Definition user_bal (b : bank) (u : Z) : option (Z * Z) := if u <? 0 then None else nth_error (b_users b) (Z.to_nat u).
Fixpoint set_nth {A} (l : list A) (n : nat) (x : A) : list A :=
  match l, n with
  | [], _ => []
  | _ :: r, O => x :: r
  | y :: r, S n' => y :: set_nth r n' x
  end.
Definition set_user (b : bank) (u : Z) (v : Z * Z) : bank :=
  mkBank (b_pool b) (b_spread b) (b_inc b) (set_nth (b_users b) (Z.to_nat u) v).
Definition set_bpool (b : bank) (v : Z * Z) : bank := mkBank v (b_spread b) (b_inc b) (b_users b).
Definition set_bspread (b : bank) (v : Z * Z) : bank := mkBank (b_pool b) v (b_inc b) (b_users b).
(* bank SendCoins of (a0, a1) >= 0: fails when the sender lacks either denom *)
Definition send_user_to_pool (b : bank) (u a0 a1 : Z) : option bank :=
  if (a0 <? 0) || (a1 <? 0) then None else
  do ub <- user_bal b u;
  let '(u0, u1) := ub in
  if (u0 <? a0) || (u1 <? a1) then None else
  let '(p0, p1) := b_pool b in
  Some (set_bpool (set_user b u (u0 - a0, u1 - a1)) (p0 + a0, p1 + a1)).
Definition send_pool_to_user (b : bank) (u a0 a1 : Z) : option bank :=
  if (a0 <? 0) || (a1 <? 0) then None else
  do ub <- user_bal b u;
  let '(u0, u1) := ub in
  let '(p0, p1) := b_pool b in
  if (p0 <? a0) || (p1 <? a1) then None else
  Some (set_bpool (set_user b u (u0 + a0, u1 + a1)) (p0 - a0, p1 - a1)).

(* ---------- pool helpers ---------- *)
Definition in_range (p : pool) (lo hi : Z) : bool := (lo <=? p_tick p) && (p_tick p <? hi).

(* Pool.CalcActualAmounts: (amount0, amount1) as raw Dec; negative when liquidity is removed *)
Definition calc_actual_amounts (p : pool) (lo hi delta : Z) : option (Z * Z) :=
  if delta =? 0 then None else
  do sq <- ticks_to_sqrt_price lo hi;
  let '(sl, su) := sq in
  let ru := 0 <? delta in
  do a01 <-
    (if in_range p lo hi then
       do a0 <- calc_amount0_delta delta (p_sqrt p) su ru;
       do a1 <- calc_amount1_delta delta (p_sqrt p) sl ru;
       Some (a0, a1)
     else if p_tick p <? lo then
       do a0 <- calc_amount0_delta delta sl su ru; Some (a0, 0)
     else
       do a1 <- calc_amount1_delta delta sl su ru; Some (0, a1));
  let '(a0, a1) := a01 in
  if ru then Some (bd_to_dec_round_up a0, bd_to_dec_round_up a1)
  else Some (bd_to_dec a0, bd_to_dec a1).

Definition validate_tick_range (sp lo hi : Z) : bool :=
  negb (sp =? 0) && (Z.rem lo sp =? 0) && (Z.rem hi sp =? 0)
  && negb ((lo <? MinInitializedTick) || (MaxTick <=? lo))
  && negb ((MaxTick <? hi) || (hi <=? MinInitializedTick))
  && (lo <? hi).

Definition round_tick_to_canonical (lo hi sl su sp : Z) : option (Z * Z) :=
  do nlo <- sqrt_price_to_tick_round_down_spacing sl sp;
  do nhi <- sqrt_price_to_tick_round_down_spacing su sp;
  if negb (lo =? nlo) || negb (hi =? nhi) then
    if validate_tick_range sp nlo nhi then Some (nlo, nhi) else None
  else Some (nlo, nhi).

(* initializeInitialPositionForPool: sets sqrt price = MonotonicSqrt(amount1/amount0), tick rounded down to the spacing *)
Definition initialize_initial_position (p : pool) (a0 a1 : Z) : option pool :=
  if negb (0 <? a0) || negb (0 <? a1) then None else
  let spot := d_quo (d_from_int a1) (d_from_int a0) in
  if negb (d_fits spot) then None else
  do r <- monotonic_sqrt18 spot;
  let s := bd_from_dec r in
  do t <- sqrt_price_to_tick_round_down_spacing s (p_spacing p);
  Some (pool_with p t s (p_liq p)).

Definition uninitialize_pool (s : state) : option state :=
  if has_any_position s then None else
  Some (set_pool s (pool_with (s_pool s) 0 0 (p_liq (s_pool s)))).

(* Keeper.UpdatePosition: returns the new state, the integer amounts (TruncateInt of the Dec amounts;
   negative on withdrawal) and the two tick-is-empty flags *)
Definition update_position (s : state) (owner lo hi delta join id : Z) : option (state * (Z * Z) * (bool * bool)) :=
  if id =? 0 then None else
  do _ <- (match pos_get (s_pos s) id with
           | Some q =>
               if negb (ps_owner q =? owner) || negb (ps_lower q =? lo) || negb (ps_upper q =? hi)
                  || ((delta <? 0) && (ps_liq q <? Z.abs delta)) || negb (ps_join q =? join) then None else Some tt
           | None => Some tt
           end);
  let '(t1, lower_empty) := init_or_update_tick (s_ticks s) lo delta false in
  let '(t2, upper_empty) := init_or_update_tick t1 hi delta true in
  let old := match pos_get (s_pos s) id with Some q => ps_liq q | None => 0 end in
  let nl := old + delta in
  if nl <? 0 then None else
  let is_new := match pos_get (s_pos s) id with Some _ => false | None => true end in
  if is_new && negb (0 <? delta) then None else      (* NonPositiveLiquidityForNewPositionError (accumulator init) *)
  let ps := pos_set (s_pos s) (mkPos id owner lo hi nl join) in
  let p := s_pool s in
  do am <- calc_actual_amounts p lo hi delta;
  let '(a0, a1) := am in
  let p' := if in_range p lo hi then pool_with p (p_tick p) (p_sqrt p) (p_liq p + delta) else p in
  Some (set_pool (set_pos (set_ticks s t2) ps) p', (d_truncate_int a0, d_truncate_int a1), (lower_empty, upper_empty)).

(* result of a successful CreatePosition *)
Record create_result := mkCreateRes { cr_id : Z; cr_amount0 : Z; cr_amount1 : Z; cr_liq : Z; cr_lower : Z; cr_upper : Z }.

(* MsgCreatePosition.ValidateBasic + Keeper.CreatePosition.
   a0, a1 = TokensProvided.AmountOf(token0 / token1) (the driver always sends NewCoins(coin0, coin1)). *)
Definition create_position (s : state) (owner a0 a1 min0 min1 lo hi : Z) : option (state * create_result) :=
  (* ValidateBasic *)
  if hi <=? lo then None else
  if (a0 <? 0) || (a1 <? 0) then None else
  if (a0 =? 0) && (a1 =? 0) then None else                 (* empty coins *)
  if (min0 <? 0) || (min1 <? 0) then None else
  (* handler *)
  let p := s_pool s in
  if negb (validate_tick_range (p_spacing p) lo hi) then None else
  do sq <- ticks_to_sqrt_price lo hi;
  let '(sl, su) := sq in
  do lh <- round_tick_to_canonical lo hi sl su (p_spacing p);
  let '(lo', hi') := lh in
  let has_positions := pool_has_position p in
  let id := s_next_id s in
  let s1 := set_next_id s (id + 1) in
  do p1 <- (if has_positions then Some p else initialize_initial_position p a0 a1);
  let s2 := set_pool s1 p1 in
  do liq <- get_liquidity_from_amounts (p_sqrt p1) sl su a0 a1;
  if liq =? 0 then None else
  do up <- update_position s2 owner lo' hi' liq (s_time s) id;
  let '(s3, (amt0, amt1), _) := up in
  if (amt0 <? min0) || (amt1 <? min1) then None else
  do b <- send_user_to_pool (s_bank s3) owner amt0 amt1;
  Some (set_bank s3 b, mkCreateRes id amt0 amt1 liq lo' hi').

(* MsgWithdrawPosition.ValidateBasic + Keeper.WithdrawPosition; result = (amount0, amount1) returned to the owner *)
Definition withdraw_position (s : state) (owner id liq : Z) : option (state * (Z * Z)) :=
  if negb (0 <? liq) then None else                          (* ValidateBasic *)
  do q <- pos_get (s_pos s) id;
  if negb (ps_owner q =? owner) then None else
  if ps_liq q <? liq then None else
  do up <- update_position s owner (ps_lower q) (ps_upper q) (- liq) (ps_join q) id;
  let '(s1, (amt0, amt1), (lower_empty, upper_empty)) := up in
  do b <- send_pool_to_user (s_bank s1) owner (Z.abs amt0) (Z.abs amt1);
  let s2 := set_bank s1 b in
  do s3 <- (if liq =? ps_liq q then
              let s' := set_pos s2 (pos_remove (s_pos s2) id) in
              if has_any_position s' then Some s' else uninitialize_pool s'
            else Some s2);
  let t1 := if lower_empty then tick_remove (s_ticks s3) (ps_lower q) else s_ticks s3 in
  let t2 := if upper_empty then tick_remove t1 (ps_upper q) else t1 in
  Some (set_ticks s3 t2, (- amt0, - amt1)).

(* MsgAddToPosition.ValidateBasic + Keeper.addToPosition; result = (new id, amount0, amount1) *)
Definition add_to_position (s : state) (owner id add0 add1 min0 min1 : Z) : option (state * (Z * Z * Z)) :=
  if id <=? 0 then None else
  if (add0 <? 0) || (add1 <? 0) || (min0 <? 0) || (min1 <? 0) then None else
  do q <- pos_get (s_pos s) id;
  if negb (ps_owner q =? owner) then None else
  if (add0 =? 0) && (add1 =? 0) then None else
  do w <- withdraw_position s owner id (ps_liq q);
  let '(s1, (w0, w1)) := w in
  if negb (pool_has_position (s_pool s1)) then None else   (* AddToLastPositionInPoolError *)
  let m0 := if min0 =? 0 then w0 else w0 + min0 in
  let m1 := if min1 =? 0 then w1 else w1 + min1 in
  do c <- create_position s1 owner (w0 + add0) (w1 + add1) m0 m1 (ps_lower q) (ps_upper q);
  let '(s2, r) := c in
  Some (s2, (cr_id r, cr_amount0 r, cr_amount1 r)).

(* Keeper.transferPositions: position by position; fails on the first bad one *)
Fixpoint transfer_loop (s : state) (ids : list Z) (sender recipient : Z) : option state :=
  match ids with
  | [] => Some s
  | id :: r =>
      do q <- pos_get (s_pos s) id;
      if negb (ps_owner q =? sender) then None else
      (* deletePosition, then HasAnyPositionForPool must still hold, then SetPosition for the recipient *)
      let s' := set_pos s (pos_remove (s_pos s) id) in
      if negb (has_any_position s') then None else
      let s'' := set_pos s' (pos_set (s_pos s') (mkPos id recipient (ps_lower q) (ps_upper q) (ps_liq q) (ps_join q))) in
      transfer_loop s'' r sender recipient
  end.
Fixpoint z_mem (x : Z) (l : list Z) : bool := match l with [] => false | y :: r => (x =? y) || z_mem x r end.
Fixpoint z_nodup (l : list Z) : bool := match l with [] => true | y :: r => negb (z_mem y r) && z_nodup r end.
Definition transfer_positions (s : state) (sender : Z) (ids : list Z) (recipient : Z) : option state :=
  if sender =? recipient then None else                     (* ValidateBasic *)
  if negb (z_nodup ids) then None else
  match ids with [] => None | _ => transfer_loop s ids sender recipient end.
