(* C13 - rounding facts about Base.DecModel's chop_round (bankers rounding of d/p) used by the C13 proofs.
   Integers only, axiom-free. *)
From Coq Require Import ZArith Lia Bool.
From Osmo Require Import Base.DecModel.
Open Scope Z_scope.

Lemma quot_rem_nonneg : forall a p, 0 <= a -> 0 < p ->
  a = p * Z.quot a p + Z.rem a p /\ 0 <= Z.rem a p < p /\ 0 <= Z.quot a p.
Proof.
  intros a p Ha Hp. split; [apply Z.quot_rem'|]. split; [apply Z.rem_bound_pos; lia|apply Z.quot_pos; lia].
Qed.

(* half-even rounding moves by at most half a unit (p even, as for 10^18 and 10^36) *)
Lemma chop_round_nonneg_err : forall h a, 0 < h -> 0 <= a ->
  2 * Z.abs (chop_round_nonneg (2 * h) a * (2 * h) - a) <= 2 * h /\ 0 <= chop_round_nonneg (2 * h) a.
Proof.
  intros h a Hh Ha. unfold chop_round_nonneg.
  destruct (quot_rem_nonneg a (2 * h) Ha ltac:(lia)) as (E & Hr & Hq).
  set (q := Z.quot a (2 * h)) in *. set (r := Z.rem a (2 * h)) in *.
  assert (Hh2 : Z.quot (2 * h) 2 = h) by (rewrite Z.mul_comm; apply Z.quot_mul; lia).
  rewrite Hh2. clear Hh2. clearbody q r.
  assert (X0 : q * (2 * h) - a = - r) by (rewrite E; ring).
  assert (X1 : (q + 1) * (2 * h) - a = 2 * h - r) by (rewrite E; ring).
  clear E.
  destruct (r =? 0) eqn:E0; [apply Z.eqb_eq in E0; rewrite X0; split; lia|]. apply Z.eqb_neq in E0.
  destruct (Z.compare_spec r h) as [C|C|C].
  - destruct (Z.even q); rewrite ?X0, ?X1; split; lia.
  - rewrite X0. split; lia.
  - rewrite X1. split; lia.
Qed.

Lemma chop_round_err : forall h d, 0 < h -> 2 * Z.abs (chop_round (2 * h) d * (2 * h) - d) <= 2 * h.
Proof.
  intros h d Hh. unfold chop_round. destruct (d <? 0) eqn:E.
  - apply Z.ltb_lt in E. destruct (chop_round_nonneg_err h (- d) Hh ltac:(lia)) as [H _]. lia.
  - apply Z.ltb_ge in E. destruct (chop_round_nonneg_err h d Hh E) as [H _]. lia.
Qed.

Lemma chop_round_nonneg_sign : forall h d, 0 < h -> 0 <= d -> 0 <= chop_round (2 * h) d.
Proof.
  intros h d Hh Hd. unfold chop_round. destruct (d <? 0) eqn:E; [apply Z.ltb_lt in E; lia|].
  apply chop_round_nonneg_err; assumption.
Qed.

(* exact when p divides d *)
Lemma chop_round_exact : forall p m, 0 < p -> chop_round p (m * p) = m.
Proof.
  intros p m Hp. unfold chop_round, chop_round_nonneg.
  destruct (m * p <? 0) eqn:E.
  - replace (- (m * p)) with ((- m) * p) by lia. rewrite Z.quot_mul, Z.rem_mul by lia.
    rewrite Z.eqb_refl. lia.
  - rewrite Z.quot_mul, Z.rem_mul by lia. rewrite Z.eqb_refl. reflexivity.
Qed.

Lemma P18_even : P18 = 2 * (5 * 10 ^ 17). Proof. vm_compute. reflexivity. Qed.
Lemma P36_even : P36 = 2 * (5 * 10 ^ 35). Proof. vm_compute. reflexivity. Qed.

Lemma chop_round_P18_err : forall d, 2 * Z.abs (chop_round P18 d * P18 - d) <= P18.
Proof. intros d. rewrite P18_even. apply chop_round_err. lia. Qed.
Lemma chop_round_P36_err : forall d, 2 * Z.abs (chop_round P36 d * P36 - d) <= P36.
Proof. intros d. rewrite P36_even. apply chop_round_err. lia. Qed.
Lemma chop_round_P36_nonneg : forall d, 0 <= d -> 0 <= chop_round P36 d.
Proof. intros d. rewrite P36_even. apply chop_round_nonneg_sign. lia. Qed.
Lemma chop_round_P18_nonneg : forall d, 0 <= d -> 0 <= chop_round P18 d.
Proof. intros d. rewrite P18_even. apply chop_round_nonneg_sign. lia. Qed.
