(* C13 - binary searches and ErrTolerance.Compare*: what a returned input satisfies (integers only, axiom-free). *)
From Coq Require Import ZArith Lia Bool List.
Import ListNotations.
From Osmo Require Import Base.DecModel C13.Common C13.BinSearch C13.RoundProofs.
Open Scope Z_scope.

(* ---- the rounded quotient underestimates the true ratio by less than one unit ---- *)
(* Quo on a type with p = 2h raw units per 1: chop_round p (a*p^2 quot b) *)
Lemma rounded_quo_le : forall h a b m, 0 < h -> 0 <= a -> 0 < b ->
  chop_round (2 * h) (Z.quot (a * ((2 * h) * (2 * h))) b) <= m -> a * (2 * h) < (m + 1) * b.
Proof.
  intros h a b m Hh Ha Hb Hq.
  set (p := 2 * h) in *. assert (Hp : 2 <= p) by lia.
  set (t := Z.quot (a * (p * p)) b) in *.
  assert (Ht : 0 <= t) by (apply Z.quot_pos; nia).
  pose proof (chop_round_err h t Hh) as Herr. fold p in Herr.
  assert (Hdiv : a * (p * p) < (t + 1) * b).
  { pose proof (Z.quot_rem' (a * (p * p)) b) as E. fold t in E.
    pose proof (Z.rem_bound_pos (a * (p * p)) b ltac:(nia) Hb). nia. }
  set (q := chop_round p t) in *.
  assert (Ht2 : 2 * t <= 2 * q * p + p) by lia.
  (* a*p*p < (t+1)*b,  2(t+1) <= 2qp + p + 2 <= 2(m+1)p *)
  assert (2 * (t + 1) <= 2 * (m + 1) * p) by nia.
  assert (2 * (a * (p * p)) < 2 * (m + 1) * p * b) by nia.
  assert (p * (a * p) < p * ((m + 1) * b)) by nia.
  apply Z.mul_lt_mono_pos_l with (p := p); lia.
Qed.

Lemma d_quo_le : forall a b m, 0 <= a -> 0 < b -> d_quo a b <= m -> a * P18 < (m + 1) * b.
Proof.
  intros a b m Ha Hb H. unfold d_quo in H. rewrite P18_even in *.
  apply rounded_quo_le; try assumption. lia.
Qed.
Lemma bd_quo_le : forall a b m, 0 <= a -> 0 < b -> bd_quo a b <= m -> a * P36 < (m + 1) * b.
Proof.
  intros a b m Ha Hb H. unfold bd_quo in H.
  assert (E : P72 = P36 * P36) by (vm_compute; reflexivity). rewrite E in H. rewrite P36_even in *.
  apply rounded_quo_le; try assumption. lia.
Qed.

(* ---- what "Compare returned 0" means ---- *)

(* shared checks: a zero answer is either the equality shortcut / equal operands, or both tolerance tests passed *)
Lemma tol_checks_zero : forall tol scale quo equal diff minv sign,
  tol_checks tol scale quo equal diff minv sign = Ok 0 ->
  sign = 0 \/ equal = true \/
  ((forall ad, t_add tol = Some ad -> diff <= ad * scale) /\
   (forall m, t_mul tol = Some m -> m <> 0 -> minv <> 0 /\ exists q, quo diff minv = Ok q /\ q <= m * scale)).
Proof.
  intros tol scale quo equal diff minv sign H. unfold tol_checks in H.
  destruct (t_add tol) as [ad|] eqn:Ea.
  - destruct ((ad =? 0) && equal) eqn:E1.
    + apply andb_true_iff in E1. right; left. tauto.
    + destruct (diff >? ad * scale) eqn:E2; [inversion H; auto|].
      assert (Hadd : diff <= ad * scale) by (destruct (Z.gtb_spec diff (ad * scale)); [discriminate|assumption]).
      destruct (t_mul tol) as [m|] eqn:Em.
      * destruct (m =? 0) eqn:E3.
        { right; right. split; [intros ? X; inversion X; subst; assumption|].
          intros m' X Hm'. inversion X; subst. apply Z.eqb_eq in E3. contradiction. }
        destruct (minv =? 0) eqn:E4; [inversion H; auto|].
        destruct (quo diff minv) as [q|e] eqn:Eq; cbn [bind] in H; [|discriminate].
        destruct (q >? m * scale) eqn:E5; [inversion H; auto|].
        right; right. split; [intros ? X; inversion X; subst; assumption|].
        intros m' X _. inversion X; subst. split; [apply Z.eqb_neq; assumption|].
        exists q. split; [reflexivity|]. destruct (Z.gtb_spec q (m' * scale)); [discriminate|assumption].
      * right; right. split; [intros ? X; inversion X; subst; assumption|intros ? X; discriminate].
  - destruct (t_mul tol) as [m|] eqn:Em.
    + destruct (m =? 0) eqn:E3.
      { right; right. split; [intros ? X; discriminate|].
        intros m' X Hm'. inversion X; subst. apply Z.eqb_eq in E3. contradiction. }
      destruct (minv =? 0) eqn:E4; [inversion H; auto|].
      destruct (quo diff minv) as [q|e] eqn:Eq; cbn [bind] in H; [|discriminate].
      destruct (q >? m * scale) eqn:E5; [inversion H; auto|].
      right; right. split; [intros ? X; discriminate|].
      intros m' X _. inversion X; subst. split; [apply Z.eqb_neq; assumption|].
      exists q. split; [reflexivity|]. destruct (Z.gtb_spec q (m' * scale)); [discriminate|assumption].
    + right; right. split; intros ? X; discriminate.
Qed.

(* the tolerance predicate of the property: [unit] raw units per 1 of the compared type; tolerances are Dec (10^-18) values.
   - requested side: RoundDown -> actual <= expected, RoundUp -> expected <= actual
   - additive: |expected - actual| <= AdditiveTolerance
   - multiplicative: |expected - actual| / min(|expected|,|actual|) < MultiplicativeTolerance + one ulp [ulp_den = 1/ulp of the type] *)
Definition meets_tolerance (unit ulp_den : Z) (tol : tolerance) (expected actual : Z) : Prop :=
  (t_dir tol = RoundDown -> actual <= expected) /\
  (t_dir tol = RoundUp -> expected <= actual) /\
  (expected = actual \/
   ((forall ad, t_add tol = Some ad -> Z.abs (expected - actual) * P18 <= ad * unit) /\
    (forall m, t_mul tol = Some m -> m <> 0 ->
       let mn := Z.min (Z.abs expected) (Z.abs actual) in
       0 < mn /\ Z.abs (expected - actual) * P18 * ulp_den < (m * ulp_den + P18) * mn))).

Lemma dir_checks : forall tol e a (X : result Z),
  (if (t_dir tol =? RoundDown) && (e <? a) then Ok (-1)
   else if negb (t_dir tol =? RoundDown) && (t_dir tol =? RoundUp) && (e >? a) then Ok 1 else X) = Ok 0 ->
  (t_dir tol = RoundDown -> a <= e) /\ (t_dir tol = RoundUp -> e <= a) /\ X = Ok 0.
Proof.
  intros tol e a X H.
  destruct (t_dir tol =? RoundDown) eqn:D1.
  - apply Z.eqb_eq in D1. destruct (e <? a) eqn:L; cbn [andb negb] in H; [discriminate|].
    apply Z.ltb_ge in L. repeat split; [intros; lia| |assumption].
    intros D2. rewrite D2 in D1. discriminate.
  - apply Z.eqb_neq in D1. cbn [andb negb] in H. destruct (t_dir tol =? RoundUp) eqn:D2; cbn [andb] in H.
    + destruct (e >? a) eqn:G; [discriminate|].
      assert (e <= a) by (destruct (Z.gtb_spec e a); [discriminate|assumption]).
      repeat split; [intros; contradiction|intros; assumption|assumption].
    + apply Z.eqb_neq in D2. repeat split; [intros; contradiction|intros; contradiction|assumption].
Qed.

Lemma d_check_inv : forall z r, d_check z = Ok r -> r = z.
Proof. intros z r. unfold d_check. destruct (d_in_range z); intros H; inversion H; reflexivity. Qed.
Lemma bd_check_inv : forall z r, bd_check z = Ok r -> r = z.
Proof. intros z r. unfold bd_check. destruct (bd_fits z); intros H; inversion H; reflexivity. Qed.
Lemma int_check_inv : forall z r, int_check z = Ok r -> r = z.
Proof. intros z r. unfold int_check. destruct (int_fits z); intros H; inversion H; reflexivity. Qed.

Lemma P18_pos : 0 < P18. Proof. vm_compute. reflexivity. Qed.
Lemma P36_pos : 0 < P36. Proof. vm_compute. reflexivity. Qed.
Lemma P36_P18 : P36 = P18 * P18. Proof. vm_compute. reflexivity. Qed.

Lemma min_abs_nonneg : forall e a, 0 <= Z.min (Z.abs e) (Z.abs a).
Proof. intros; lia. Qed.

(* Compare (sdk Int): ulp of the error term = 10^-18 *)
Lemma compare_int_zero : forall tol e a, compare_int tol e a = Ok 0 -> meets_tolerance 1 P18 tol e a.
Proof.
  intros tol e a H. unfold compare_int in H.
  destruct (dc_sub (e * P18) (a * P18)) as [d0|] eqn:Ed; cbn [bind] in H; [|discriminate].
  apply d_check_inv in Ed. apply dir_checks in H. destruct H as (H1 & H2 & H).
  split; [assumption|]. split; [assumption|].
  apply tol_checks_zero in H. destruct H as [H|[H|[Ha Hm]]].
  - destruct (e >? a); discriminate.
  - left. apply Z.eqb_eq. assumption.
  - right. pose proof P18_pos as HP. subst d0.
    replace (e * P18 - a * P18) with ((e - a) * P18) in * by ring.
    rewrite Z.abs_mul, (Z.abs_eq P18) in * by lia. split.
    + intros ad X. specialize (Ha ad X). lia.
    + intros m X Hm0. destruct (Hm m X Hm0) as (Hmin & q & Hq & Hle). cbv zeta.
      set (mn := Z.min (Z.abs e) (Z.abs a)) in *. pose proof (min_abs_nonneg e a) as Hnn. fold mn in Hnn.
      assert (Hmn : 0 < mn) by nia. split; [assumption|].
      unfold dc_quo in Hq. destruct (mn * P18 =? 0); [discriminate|]. apply d_check_inv in Hq. subst q.
      rewrite Z.mul_1_r in Hle. apply d_quo_le in Hle; [|nia|nia]. nia.
Qed.

(* CompareDec: values with 18 decimals *)
Lemma compare_dec_zero : forall tol e a, compare_dec tol e a = Ok 0 -> meets_tolerance P18 P18 tol e a.
Proof.
  intros tol e a H. unfold compare_dec, compare_gen in H.
  apply dir_checks in H. destruct H as (H1 & H2 & H).
  split; [assumption|]. split; [assumption|].
  destruct (d_check (e - a)) as [d0|] eqn:Ed; cbn [bind] in H; [|discriminate].
  apply d_check_inv in Ed. subst d0.
  apply tol_checks_zero in H. destruct H as [H|[H|[Ha Hm]]].
  - left. destruct (Z.gtb_spec e a); [discriminate|]. destruct (Z.ltb_spec e a); [discriminate|]. lia.
  - left. apply Z.eqb_eq. assumption.
  - right. pose proof P18_pos as HP. split.
    + intros ad X. specialize (Ha ad X). nia.
    + intros m X Hm0. destruct (Hm m X Hm0) as (Hmin & q & Hq & Hle). cbv zeta.
      set (mn := Z.min (Z.abs e) (Z.abs a)) in *. pose proof (min_abs_nonneg e a) as Hnn. fold mn in Hnn.
      assert (Hmn : 0 < mn) by lia. split; [assumption|].
      unfold dc_quo in Hq. destruct (mn =? 0); [discriminate|]. apply d_check_inv in Hq. subst q.
      rewrite Z.mul_1_r in Hle. apply d_quo_le in Hle; [|lia|lia]. nia.
Qed.

(* CompareBigDec: values with 36 decimals; the error term is rounded to 10^-36 *)
Lemma compare_bigdec_zero : forall tol e a, compare_bigdec tol e a = Ok 0 -> meets_tolerance P36 P36 tol e a.
Proof.
  intros tol e a H. unfold compare_bigdec, compare_gen in H.
  apply dir_checks in H. destruct H as (H1 & H2 & H).
  split; [assumption|]. split; [assumption|].
  destruct (bd_check (e - a)) as [d0|] eqn:Ed; cbn [bind] in H; [|discriminate].
  apply bd_check_inv in Ed. subst d0.
  apply tol_checks_zero in H. destruct H as [H|[H|[Ha Hm]]].
  - left. destruct (Z.gtb_spec e a); [discriminate|]. destruct (Z.ltb_spec e a); [discriminate|]. lia.
  - left. apply Z.eqb_eq. assumption.
  - right. pose proof P18_pos as HP. pose proof P36_pos as HP'. pose proof P36_P18 as HPP. split.
    + intros ad X. specialize (Ha ad X). nia.
    + intros m X Hm0. destruct (Hm m X Hm0) as (Hmin & q & Hq & Hle). cbv zeta.
      set (mn := Z.min (Z.abs e) (Z.abs a)) in *. pose proof (min_abs_nonneg e a) as Hnn. fold mn in Hnn.
      assert (Hmn : 0 < mn) by lia. split; [assumption|].
      unfold bdc_quo in Hq. destruct (mn =? 0); [discriminate|]. apply bd_check_inv in Hq. subst q.
      apply bd_quo_le in Hle; [|lia|lia]. nia.
Qed.

(* Compare* never report non-convergence themselves *)
Lemma tol_checks_not_noconv : forall tol scale quo equal diff minv sign,
  (forall x y, quo x y <> Err ENoConverge) -> tol_checks tol scale quo equal diff minv sign <> Err ENoConverge.
Proof.
  intros tol scale quo equal diff minv sign Hq. unfold tol_checks.
  destruct (t_add tol) as [ad|]; [destruct ((ad =? 0) && equal); [discriminate|destruct (diff >? ad * scale); [discriminate|]]|];
  (destruct (t_mul tol) as [m|]; [|discriminate]; destruct (m =? 0); [discriminate|]; destruct (minv =? 0); [discriminate|];
   destruct (quo diff minv) as [q|e] eqn:E; cbn [bind]; [destruct (q >? m * scale); discriminate|];
   intros X; inversion X; subst; apply (Hq diff minv); assumption).
Qed.
Lemma dc_quo_not_noconv : forall x y, dc_quo x y <> Err ENoConverge.
Proof. intros x y. unfold dc_quo, d_check. destruct (y =? 0); [discriminate|]. destruct (d_in_range _); discriminate. Qed.
Lemma bdc_quo_not_noconv : forall x y, bdc_quo x y <> Err ENoConverge.
Proof. intros x y. unfold bdc_quo, bd_check. destruct (y =? 0); [discriminate|]. destruct (bd_fits _); discriminate. Qed.
Lemma compare_int_not_noconv : forall tol e a, compare_int tol e a <> Err ENoConverge.
Proof.
  intros tol e a. unfold compare_int, dc_sub, d_check. destruct (d_in_range _); cbn [bind]; [|discriminate].
  destruct (_ && _); [discriminate|]. destruct (_ && _); [discriminate|].
  apply tol_checks_not_noconv, dc_quo_not_noconv.
Qed.
Lemma compare_bigdec_not_noconv : forall tol e a, compare_bigdec tol e a <> Err ENoConverge.
Proof.
  intros tol e a. unfold compare_bigdec, compare_gen.
  destruct (_ && _); [discriminate|]. destruct (_ && _); [discriminate|].
  unfold bd_check. destruct (bd_fits _); cbn [bind]; [|discriminate].
  apply tol_checks_not_noconv, bdc_quo_not_noconv.
Qed.

(* ---- the searches, for an arbitrary searched function ---- *)
Section SearchProofs.
  Variable f : Z -> result Z.

  (* the estimates probed while every probe is answered "not within tolerance" *)
  Fixpoint probes_int (iters : nat) (lo hi target : Z) (tol : tolerance) : list Z :=
    match iters with
    | O => []
    | S n =>
      let cur := Z.quot (lo + hi) 2 in
      match f cur with
      | Ok out => match compare_int tol target out with
                  | Ok c => if c <? 0 then cur :: probes_int n lo cur target tol
                            else if c >? 0 then cur :: probes_int n cur hi target tol else []
                  | Err _ => []
                  end
      | Err _ => []
      end
    end.
  Fixpoint probes_bigdec (iters : nat) (lo hi target : Z) (tol : tolerance) : list Z :=
    match iters with
    | O => []
    | S n =>
      let cur := Z.shiftr (lo + hi) 1 in
      match f cur with
      | Ok out => match compare_bigdec tol target out with
                  | Ok c => if c <? 0 then cur :: probes_bigdec n lo cur target tol
                            else if c >? 0 then cur :: probes_bigdec n cur hi target tol else []
                  | Err _ => []
                  end
      | Err _ => []
      end
    end.

  (* a returned input's image meets the tolerance, on the requested side *)
  Lemma binary_search_ok : forall n lo hi target tol x,
    binary_search f n lo hi target tol = Ok x ->
    exists y, f x = Ok y /\ compare_int tol target y = Ok 0 /\ meets_tolerance 1 P18 tol target y.
  Proof.
    induction n as [|n IH]; intros lo hi target tol x H; cbn [binary_search] in H; [discriminate|].
    destruct (int_check (lo + hi)) as [s|] eqn:Es; cbn [bind] in H; [|discriminate].
    destruct (f (Z.quot s 2)) as [out|] eqn:Ef; cbn [bind] in H; [|discriminate].
    destruct (compare_int tol target out) as [c|] eqn:Ec; cbn [bind] in H; [|discriminate].
    destruct (c <? 0) eqn:L; [eapply IH; eassumption|].
    destruct (c >? 0) eqn:G; [eapply IH; eassumption|].
    inversion H; subst x. exists out.
    assert (c = 0) by (apply Z.ltb_ge in L; destruct (Z.gtb_spec c 0); [discriminate|lia]). subst c.
    split; [assumption|]. split; [assumption|]. apply compare_int_zero; assumption.
  Qed.

  Lemma binary_search_bigdec_ok : forall n lo hi target tol x,
    binary_search_bigdec f n lo hi target tol = Ok x ->
    exists y, f x = Ok y /\ compare_bigdec tol target y = Ok 0 /\ meets_tolerance P36 P36 tol target y.
  Proof.
    induction n as [|n IH]; intros lo hi target tol x H; cbn [binary_search_bigdec] in H; [discriminate|].
    destruct (bdc_add lo hi) as [s|] eqn:Es; cbn [bind] in H; [|discriminate].
    destruct (f (Z.shiftr s 1)) as [out|] eqn:Ef; cbn [bind] in H; [|discriminate].
    destruct (compare_bigdec tol target out) as [c|] eqn:Ec; cbn [bind] in H; [|discriminate].
    destruct (c <? 0) eqn:L; [eapply IH; eassumption|].
    destruct (c >? 0) eqn:G; [eapply IH; eassumption|].
    inversion H; subst x. exists out.
    assert (c = 0) by (apply Z.ltb_ge in L; destruct (Z.gtb_spec c 0); [discriminate|lia]). subst c.
    split; [assumption|]. split; [assumption|]. apply compare_bigdec_zero; assumption.
  Qed.

  (* the returned input lies between the bounds *)
  Lemma quot2_between : forall lo hi, lo <= hi -> lo <= Z.quot (lo + hi) 2 <= hi.
  Proof.
    intros lo hi H. Z.to_euclidean_division_equations. lia.
  Qed.
  Lemma shiftr1_between : forall lo hi, lo <= hi -> lo <= Z.shiftr (lo + hi) 1 <= hi.
  Proof.
    intros lo hi H. rewrite Z.shiftr_div_pow2 by lia. change (2 ^ 1) with 2.
    pose proof (Z.div_mod (lo + hi) 2 ltac:(lia)). pose proof (Z.mod_pos_bound (lo + hi) 2 ltac:(lia)). lia.
  Qed.

  Lemma binary_search_in_range : forall n lo hi target tol x, lo <= hi ->
    binary_search f n lo hi target tol = Ok x -> lo <= x <= hi.
  Proof.
    induction n as [|n IH]; intros lo hi target tol x Hle H; cbn [binary_search] in H; [discriminate|].
    destruct (int_check (lo + hi)) as [s|] eqn:Es; cbn [bind] in H; [|discriminate].
    apply int_check_inv in Es. subst s. pose proof (quot2_between lo hi Hle) as Hb.
    destruct (f _) as [out|]; cbn [bind] in H; [|discriminate].
    destruct (compare_int tol target out) as [c|]; cbn [bind] in H; [|discriminate].
    destruct (c <? 0); [apply IH in H; lia|]. destruct (c >? 0); [apply IH in H; lia|].
    inversion H; subst; lia.
  Qed.
  Lemma binary_search_bigdec_in_range : forall n lo hi target tol x, lo <= hi ->
    binary_search_bigdec f n lo hi target tol = Ok x -> lo <= x <= hi.
  Proof.
    induction n as [|n IH]; intros lo hi target tol x Hle H; cbn [binary_search_bigdec] in H; [discriminate|].
    destruct (bdc_add lo hi) as [s|] eqn:Es; cbn [bind] in H; [|discriminate].
    apply bd_check_inv in Es. subst s. pose proof (shiftr1_between lo hi Hle) as Hb.
    destruct (f _) as [out|]; cbn [bind] in H; [|discriminate].
    destruct (compare_bigdec tol target out) as [c|]; cbn [bind] in H; [|discriminate].
    destruct (c <? 0); [apply IH in H; lia|]. destruct (c >? 0); [apply IH in H; lia|].
    inversion H; subst; lia.
  Qed.

  (* non-convergence is reported only after maxIterations probes, none of which met the tolerance *)
  Hypothesis f_not_noconv : forall x, f x <> Err ENoConverge.

  Lemma binary_search_noconv : forall n lo hi target tol,
    binary_search f n lo hi target tol = Err ENoConverge ->
    length (probes_int n lo hi target tol) = n /\
    Forall (fun x => exists y c, f x = Ok y /\ compare_int tol target y = Ok c /\ c <> 0) (probes_int n lo hi target tol).
  Proof.
    induction n as [|n IH]; intros lo hi target tol H; [split; [reflexivity|constructor]|].
    cbn [binary_search] in H. cbn [probes_int].
    destruct (int_check (lo + hi)) as [s|] eqn:Es; cbn [bind] in H.
    2:{ unfold int_check in Es. destruct (int_fits _); inversion Es; subst; discriminate. }
    apply int_check_inv in Es. subst s.
    destruct (f _) as [out|e] eqn:Ef; cbn [bind] in H.
    2:{ inversion H; subst. exfalso. eapply f_not_noconv. eassumption. }
    destruct (compare_int tol target out) as [c|e] eqn:Ec; cbn [bind] in H.
    2:{ inversion H; subst. exfalso. eapply compare_int_not_noconv. eassumption. }
    destruct (c <? 0) eqn:L.
    - destruct (IH _ _ _ _ H) as [Hl Hf]. split; [cbn [length]; congruence|].
      constructor; [|assumption]. exists out, c. apply Z.ltb_lt in L. repeat split; try assumption; lia.
    - destruct (c >? 0) eqn:G; [|discriminate].
      destruct (IH _ _ _ _ H) as [Hl Hf]. split; [cbn [length]; congruence|].
      constructor; [|assumption]. exists out, c. repeat split; try assumption.
      destruct (Z.gtb_spec c 0); [lia|discriminate].
  Qed.

  Lemma binary_search_bigdec_noconv : forall n lo hi target tol,
    binary_search_bigdec f n lo hi target tol = Err ENoConverge ->
    length (probes_bigdec n lo hi target tol) = n /\
    Forall (fun x => exists y c, f x = Ok y /\ compare_bigdec tol target y = Ok c /\ c <> 0) (probes_bigdec n lo hi target tol).
  Proof.
    induction n as [|n IH]; intros lo hi target tol H; [split; [reflexivity|constructor]|].
    cbn [binary_search_bigdec] in H. cbn [probes_bigdec].
    destruct (bdc_add lo hi) as [s|] eqn:Es; cbn [bind] in H.
    2:{ unfold bdc_add, bd_check in Es. destruct (bd_fits _); inversion Es; subst; discriminate. }
    apply bd_check_inv in Es. subst s.
    destruct (f _) as [out|e] eqn:Ef; cbn [bind] in H.
    2:{ inversion H; subst. exfalso. eapply f_not_noconv. eassumption. }
    destruct (compare_bigdec tol target out) as [c|e] eqn:Ec; cbn [bind] in H.
    2:{ inversion H; subst. exfalso. eapply compare_bigdec_not_noconv. eassumption. }
    destruct (c <? 0) eqn:L.
    - destruct (IH _ _ _ _ H) as [Hl Hf]. split; [cbn [length]; congruence|].
      constructor; [|assumption]. exists out, c. apply Z.ltb_lt in L. repeat split; try assumption; lia.
    - destruct (c >? 0) eqn:G; [|discriminate].
      destruct (IH _ _ _ _ H) as [Hl Hf]. split; [cbn [length]; congruence|].
      constructor; [|assumption]. exists out, c. repeat split; try assumption.
      destruct (Z.gtb_spec c 0); [lia|discriminate].
  Qed.
End SearchProofs.
