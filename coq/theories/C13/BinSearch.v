(* C13 model of osmomath/binary_search.go: ErrTolerance.Compare / CompareBigDec / CompareDec, BinarySearch,
   BinarySearchBigDec.  The searched function is a Section variable.  Definitions only. *)
From Coq Require Import ZArith Bool List.
Import ListNotations.
From Osmo Require Import Base.DecModel C13.Common.
Open Scope Z_scope.

(* RoundingDirection *)
Definition RoundUnconstrained : Z := 0.
Definition RoundUp : Z := 1.
Definition RoundDown : Z := 2.

(* ErrTolerance: a nil Dec is [None]; tolerances are raw 18-decimal Dec mantissas *)
Record tolerance := mkTol {
  t_add : option Z;      (* AdditiveTolerance *)
  t_mul : option Z;      (* MultiplicativeTolerance *)
  t_dir : Z }.           (* RoundingDir *)

(* the part the three Compare functions share once [diff] and the comparison sign are known:
   additive check, then multiplicative check.  [scale] converts a Dec tolerance to the compared type
   (1 for Int/Dec - the comparison is done on Dec values -, 10^18 for BigDec: BigDecFromDec);
   [quo] is the type's checked Quo. *)
Definition tol_checks (tol : tolerance) (scale : Z) (quo : Z -> Z -> result Z)
           (equal : bool) (diff minv sign : Z) : result Z :=
  let after_add :=
    match t_add tol with
    | None => None
    | Some a => if (a =? 0) && equal then Some 0
                else if diff >? a * scale then Some sign else None
    end in
  match after_add with
  | Some r => Ok r
  | None =>
    match t_mul tol with
    | None => Ok 0
    | Some m => if m =? 0 then Ok 0
                else if minv =? 0 then Ok sign
                else do errTerm <- quo diff minv;
                     if errTerm >? m * scale then Ok sign else Ok 0
    end
  end.

(* func (e ErrTolerance) Compare(expected Int, actual Int) int
   diff is computed first (LegacyDec.Sub asserts the range); comparisonSign is -1 also when equal *)
Definition compare_int (tol : tolerance) (expected actual : Z) : result Z :=
  do diff0 <- dc_sub (expected * P18) (actual * P18);
  let diff := Z.abs diff0 in
  let sign := if expected >? actual then 1 else -1 in
  if (t_dir tol =? RoundDown) && (expected <? actual) then Ok (-1)
  else if (negb (t_dir tol =? RoundDown)) && (t_dir tol =? RoundUp) && (expected >? actual) then Ok 1
  else tol_checks tol 1 dc_quo (expected =? actual) diff (Z.min (Z.abs expected) (Z.abs actual) * P18) sign.

(* CompareBigDec / CompareDec: rounding-direction check first, then diff; sign 0 when equal *)
Definition compare_gen (check : Z -> result Z) (scale : Z) (quo : Z -> Z -> result Z)
           (tol : tolerance) (expected actual : Z) : result Z :=
  if (t_dir tol =? RoundDown) && (expected <? actual) then Ok (-1)
  else if (negb (t_dir tol =? RoundDown)) && (t_dir tol =? RoundUp) && (expected >? actual) then Ok 1
  else
    do diff0 <- check (expected - actual);
    let diff := Z.abs diff0 in
    let sign := if expected >? actual then 1 else if expected <? actual then -1 else 0 in
    tol_checks tol scale quo (expected =? actual) diff (Z.min (Z.abs expected) (Z.abs actual)) sign.

Definition compare_bigdec := compare_gen bd_check P18 bdc_quo.
Definition compare_dec := compare_gen d_check 1 dc_quo.

Section Search.
  Variable f : Z -> result Z.        (* the searched function; Err = it returned an error / panicked *)

  (* BinarySearch(f, lowerbound, upperbound, targetOutput, errTolerance, maxIterations) on sdk Int *)
  Fixpoint binary_search (iters : nat) (lo hi target : Z) (tol : tolerance) : result Z :=
    match iters with
    | O => Err ENoConverge
    | S n =>
      do sum <- int_check (lo + hi);                    (* Int.Add: 256-bit overflow check *)
      let cur := Z.quot sum 2 in                        (* .QuoRaw(2): truncated *)
      do out <- f cur;
      do c <- compare_int tol target out;
      if c <? 0 then binary_search n lo cur target tol
      else if c >? 0 then binary_search n cur hi target tol
      else Ok cur
    end.

  (* BinarySearchBigDec: (lo + hi) with the BigDec bit-length assertion, then big.Int.Rsh 1 = floor(/2) *)
  Fixpoint binary_search_bigdec (iters : nat) (lo hi target : Z) (tol : tolerance) : result Z :=
    match iters with
    | O => Err ENoConverge
    | S n =>
      do sum <- bdc_add lo hi;
      let cur := Z.shiftr sum 1 in
      do out <- f cur;
      do c <- compare_bigdec tol target out;
      if c <? 0 then binary_search_bigdec n lo cur target tol
      else if c >? 0 then binary_search_bigdec n cur hi target tol
      else Ok cur
    end.
End Search.

(* maxIterations is a Go int: a non-positive value means no iteration *)
Definition iters_of (maxIterations : Z) : nat := Z.to_nat maxIterations.

(* concrete searched functions used by the correspondence run (harness/c13drv intFunc / bdFunc) *)
Definition search_fn_int (kind p1 p2 p3 x : Z) : result Z :=
  if kind =? 0 then int_check (p1 * x + p2)
  else if kind =? 1 then int_check (x * x * x * p1 + p2)
  else if kind =? 2 then int_check (if x <? p1 then p2 else p3)
  else if x >? p3 then Err EFuncError else int_check (p1 * x + p2).

Definition search_fn_bigdec (kind p1 p2 p3 x : Z) : result Z :=
  if kind =? 0 then do m <- bdc_mul p1 x; bdc_add m p2
  else if kind =? 1 then do a <- bdc_mul x x; do b <- bdc_mul a x; do c <- bdc_mul b p1; bdc_add c p2
  else Ok (if x <? p1 then p2 else p3).
