(* C13 model of osmomath/decimal.go LogBase2 (digit-by-digit binary logarithm, maxLog2Iterations squarings) and the
   derived Ln, TickLog, CustomBaseLog (Quo by a stored / computed base-2 logarithm).  Definitions only. *)
From Coq Require Import ZArith Bool.
From Osmo Require Import Base.DecModel C13.Common Gen.C13_consts.
Open Scope Z_scope.

Definition one_half_bigdec : result Z := bdc_quo P36 two_bigdec.      (* oneHalfBigDec = oneBigDec.Quo(twoBigDec) *)

(* for xCopy.LT(oneBigDec) { xCopy.i.Lsh(xCopy.i, 1); y.AddMut(negOneBigDec) }
   x >= 1 raw unit, 10^36 < 2^120: at most 120 rounds, so fuel 120 is never exhausted (Log2Proofs.v) *)
Fixpoint log2_norm_up (fuel : nat) (x y : Z) : result (Z * Z) :=
  if x <? P36 then
    match fuel with
    | O => Err EFuel
    | S f => do y' <- bdc_add y (- P36); log2_norm_up f (Z.shiftl x 1) y'
    end
  else Ok (x, y).

(* for xCopy.GTE(twoBigDec) { xCopy.i.Rsh(xCopy.i, 1); y.AddMut(oneBigDec) }: every round removes one bit *)
Fixpoint log2_norm_down (fuel : nat) (x y : Z) : result (Z * Z) :=
  if x >=? two_bigdec then
    match fuel with
    | O => Err EFuel
    | S f => do y' <- bdc_add y P36; log2_norm_down f (Z.shiftr x 1) y'
    end
  else Ok (x, y).

(* for i := 0; i < maxLog2Iterations; i++ { x.MulMut(x); if x >= 2 { x >>= 1; y.AddMut(b) }; b >>= 1 } *)
Fixpoint log2_iter (n : nat) (x y b : Z) : result Z :=
  match n with
  | O => Ok y
  | S m =>
    do x2 <- bdc_mul x x;
    if x2 >=? two_bigdec
    then do y' <- bdc_add y b; log2_iter m (Z.shiftr x2 1) y' (Z.shiftr b 1)
    else log2_iter m x2 y (Z.shiftr b 1)
  end.

Definition log_base2 (x : Z) : result Z :=
  if x <=? 0 then Err ELogDomain else
  do (x1, y1) <- log2_norm_up 120 x 0;
  do (x2, y2) <- log2_norm_down (S (Z.to_nat (Z.log2 x1))) x1 y1;
  do b <- one_half_bigdec;
  log2_iter max_log2_iterations x2 y2 b.

Definition ln_bigdec (x : Z) : result Z := do l <- log_base2 x; bdc_quo l log_of_e_base2.
Definition tick_log (x : Z) : result Z := do l <- log_base2 x; bdc_quo l tick_log_of_2.
Definition custom_base_log (x base : Z) : result Z :=
  if (base <=? 0) || (base =? P36) then Err ELogBase else
  do lx <- log_base2 x;
  do lb <- log_base2 base;
  bdc_quo lx lb.
