(* C13 - LogBase2: the digit-by-digit binary logarithm is within 2600 ulps (2.6e-33 < the documented 1e-32) of log2
   for every representable positive argument; derived logarithms.  Uses the standard library's real numbers. *)
From Coq Require Import ZArith List Reals Lra Lia Bool.
From Interval Require Import Tactic.
From Osmo Require Import Base.DecModel C13.Common C13.Log2 C13.RoundProofs C13.Exp2Real C13.Exp2Proofs Gen.C13_consts.
Open Scope R_scope.

Definition log2R (x : R) : R := ln x / ln 2.

Lemma ln_le_sub1 : forall F, 0 < F -> ln F <= F - 1.
Proof. intros F HF. pose proof (exp_ineq1_le (ln F)) as H. rewrite exp_ln in H by assumption. lra. Qed.
Lemma ln_ge_frac : forall F, 0 < F -> (F - 1) / F <= ln F.
Proof.
  intros F HF. pose proof (ln_le_sub1 (/ F) (Rinv_0_lt_compat _ HF)) as H. rewrite ln_Rinv in H by assumption.
  replace ((F - 1) / F) with (1 - / F) by (field; lra). lra.
Qed.
Lemma ln2_ge_half : 1 / 2 <= ln 2.
Proof. pose proof (ln_ge_frac 2 ltac:(lra)). lra. Qed.
Lemma ln2_pos : 0 < ln 2. Proof. pose proof ln2_ge_half. lra. Qed.

Lemma log2R_mult : forall a b, 0 < a -> 0 < b -> log2R (a * b) = log2R a + log2R b.
Proof. intros. unfold log2R. rewrite ln_mult by assumption. field. pose proof ln2_pos; lra. Qed.
Lemma log2R_2 : log2R 2 = 1.
Proof. unfold log2R. field. pose proof ln2_pos; lra. Qed.
Lemma log2R_1 : log2R 1 = 0.
Proof. unfold log2R. rewrite ln_1. field. pose proof ln2_pos; lra. Qed.
Lemma log2R_pow2 : forall n : nat, log2R (2 ^ n) = INR n.
Proof.
  induction n as [|n IH]; [simpl; apply log2R_1|].
  rewrite <- tech_pow_Rmult, log2R_mult, log2R_2, IH, S_INR by (try lra; apply pow_lt; lra). ring.
Qed.

Lemma log2R_near1 : forall F, 1 / 2 <= F <= 2 -> Rabs (log2R F) <= 4 * Rabs (F - 1).
Proof.
  intros F HF. unfold log2R. pose proof ln2_ge_half as H2.
  pose proof (ln_le_sub1 F ltac:(lra)) as Hu. pose proof (ln_ge_frac F ltac:(lra)) as Hl.
  assert (Hl' : - (2 * Rabs (F - 1)) <= ln F).
  { eapply Rle_trans; [|exact Hl]. unfold Rabs. destruct (Rcase_abs (F - 1)).
    - replace ((F - 1) / F) with (- ((1 - F) / F)) by (field; lra). apply Ropp_le_contravar.
      apply Rmult_le_reg_r with (r := F); [lra|]. replace ((1 - F) / F * F) with (1 - F) by (field; lra). nra.
    - apply Rle_trans with 0; [lra|]. apply Rmult_le_pos; [lra|]. left. apply Rinv_0_lt_compat. lra. }
  assert (Hu' : ln F <= 2 * Rabs (F - 1)) by (pose proof (Rle_abs (F - 1)); pose proof (Rabs_pos (F - 1)); lra).
  apply Rabs_le. pose proof (Rabs_pos (F - 1)) as Hp. split.
  - apply Rmult_le_reg_r with (r := ln 2); [lra|]. replace (ln F / ln 2 * ln 2) with (ln F) by (field; lra). nra.
  - apply Rmult_le_reg_r with (r := ln 2); [lra|]. replace (ln F / ln 2 * ln 2) with (ln F) by (field; lra). nra.
Qed.

Lemma log2R_range : forall X, 1 <= X < 2 -> 0 <= log2R X < 1.
Proof.
  intros X [H1 H2]. unfold log2R. pose proof ln2_pos as Hp. split.
  - apply Rmult_le_pos; [|left; apply Rinv_0_lt_compat; assumption].
    destruct H1 as [H1|<-]; [left; rewrite <- ln_1; apply ln_increasing; lra|rewrite ln_1; lra].
  - apply Rmult_lt_reg_r with (r := ln 2); [assumption|]. replace (ln X / ln 2 * ln 2) with (ln X) by (field; lra).
    rewrite Rmult_1_l. apply ln_increasing; lra.
Qed.

(* raw mantissas in [1,2) *)
Lemma bdR_range12 : forall x, (P36 <= x < 2 * P36)%Z -> 1 <= bdR x < 2.
Proof.
  intros x [H1 H2]. apply IZR_le in H1. apply IZR_lt in H2. rewrite mult_IZR, IZR_P36 in H2. rewrite IZR_P36 in H1.
  unfold bdR. pose proof u36_T36 as HU. pose proof u36_pos as Hu. pose proof T36_pos.
  assert (A : T36 * u36 <= IZR x * u36) by (apply Rmult_le_compat_r; lra).
  assert (B : IZR x * u36 < 2 * T36 * u36) by (apply Rmult_lt_compat_r; lra).
  rewrite (Rmult_comm T36) in A. replace (2 * T36 * u36) with (2 * (u36 * T36)) in B by ring. rewrite HU in *. lra.
Qed.

Lemma P36_pos' : (0 < P36)%Z. Proof. vm_compute. reflexivity. Qed.
Lemma shiftr1 : forall s, Z.shiftr s 1 = (s / 2)%Z.
Proof. intros. rewrite Z.shiftr_div_pow2 by lia. reflexivity. Qed.

(* one squaring of a mantissa x in [1,2): the new mantissa x' (after the optional halving) is again in [1,2) and
   x' * 2^bit = x^2 * F with |F - 1| <= 2 ulp *)
Lemma iter_step : forall x, (P36 <= x < 2 * P36)%Z ->
  let S := bd_mul x x in
  ((2 * P36 <= S)%Z -> (P36 <= Z.shiftr S 1 < 2 * P36)%Z /\
      exists F, Rabs (F - 1) <= 2 * u36 /\ bdR (Z.shiftr S 1) * 2 = bdR x * bdR x * F) /\
  ((S < 2 * P36)%Z -> (P36 <= S)%Z /\ exists F, Rabs (F - 1) <= 2 * u36 /\ bdR S = bdR x * bdR x * F).
Proof.
  intros x Hx S. pose proof P36_pos' as HP.
  pose proof (chop_round_P36_err (x * x)) as Herr. unfold bd_mul in S. fold S in Herr.
  assert (HS1 : (P36 <= S)%Z) by nia.
  assert (HS2 : (S <= 4 * P36 - 4)%Z).
  { assert (A : (x * x <= (2 * P36 - 1) * (2 * P36 - 1))%Z) by nia.
    assert (B : (2 * (S * P36 - x * x) <= P36)%Z) by lia.
    destruct (Z_le_gt_dec S (4 * P36 - 4)) as [|G]; [assumption|exfalso].
    assert (C : ((4 * P36 - 3) * P36 <= S * P36)%Z) by nia.
    assert (D : (3 <= P36)%Z) by (vm_compute; discriminate). nia. }
  pose proof (bdR_mul_err x x) as HR. unfold bd_mul in HR. fold S in HR. apply Rabs_le_inv' in HR.
  pose proof (bdR_range12 x Hx) as HX. set (X := bdR x) in *.
  pose proof u36_pos as Hu. pose proof u36_le as Hule.
  assert (HXX : 1 <= X * X) by nra.
  split.
  - intros H2. rewrite shiftr1.
    pose proof (Z.div_mod S 2 ltac:(lia)) as Ed. pose proof (Z.mod_pos_bound S 2 ltac:(lia)) as Em.
    split; [lia|].
    exists (bdR (S / 2) * 2 / (X * X)). split.
    + assert (Hr : bdR S - u36 <= bdR (S / 2) * 2 <= bdR S).
      { unfold bdR. assert (E : (2 * (S / 2) = S - S mod 2)%Z) by lia.
        assert (E' : IZR (S / 2) * 2 = IZR S - IZR (S mod 2)) by (rewrite <- minus_IZR, <- E, mult_IZR; simpl; ring).
        assert (0 <= IZR (S mod 2) <= 1) by (split; [apply IZR_le|apply (IZR_le _ 1)]; lia). nra. }
      apply Rabs_le. split.
      * apply Rmult_le_reg_r with (r := X * X); [lra|]. replace ((bdR (S / 2) * 2 / (X * X) - 1) * (X * X)) with (bdR (S / 2) * 2 - X * X) by (field; lra). nra.
      * apply Rmult_le_reg_r with (r := X * X); [lra|]. replace ((bdR (S / 2) * 2 / (X * X) - 1) * (X * X)) with (bdR (S / 2) * 2 - X * X) by (field; lra). nra.
    + field. lra.
  - intros H2. split; [assumption|].
    exists (bdR S / (X * X)). split.
    + apply Rabs_le. split.
      * apply Rmult_le_reg_r with (r := X * X); [lra|]. replace ((bdR S / (X * X) - 1) * (X * X)) with (bdR S - X * X) by (field; lra). nra.
      * apply Rmult_le_reg_r with (r := X * X); [lra|]. replace ((bdR S / (X * X) - 1) * (X * X)) with (bdR S - X * X) by (field; lra). nra.
    + field. lra.
Qed.

(* log identity for one step *)
Lemma log_step : forall X X' F bit, 1 <= X < 2 -> 0 < X' -> Rabs (F - 1) <= 2 * u36 -> (bit = 0 \/ bit = 1) ->
  X' * (if Req_EM_T bit 1 then 2 else 1) = X * X * F ->
  log2R X = (bit + log2R X' - log2R F) / 2 /\ Rabs (log2R F) <= 8 * u36.
Proof.
  intros X X' F bit HX HX' HF Hbit E.
  pose proof u36_pos as Hu. pose proof u36_le as Hule.
  assert (Hu3 : u36 <= 1 / 1000) by (eapply Rle_trans; [exact Hule|]; interval with (i_prec 64)).
  apply Rabs_le_inv' in HF. assert (HF0 : 1 / 2 <= F <= 2) by lra.
  split.
  - assert (EL : log2R (X' * (if Req_EM_T bit 1 then 2 else 1)) = log2R (X * X * F)) by (rewrite E; reflexivity).
    rewrite !log2R_mult in EL by (try nra; destruct (Req_EM_T bit 1); lra).
    destruct (Req_EM_T bit 1) as [->|Hb].
    + rewrite log2R_2 in EL. lra.
    + destruct Hbit as [->|?]; [|contradiction]. rewrite log2R_1 in EL. lra.
  - eapply Rle_trans; [apply log2R_near1; exact HF0|]. assert (Rabs (F - 1) <= 2 * u36) by (apply Rabs_le; lra). lra.
Qed.

Lemma bdR_half : forall b, (0 <= b)%Z -> bdR b / 2 - u36 / 2 <= bdR (Z.shiftr b 1) <= bdR b / 2.
Proof.
  intros b Hb. rewrite shiftr1. pose proof (Z.div_mod b 2 ltac:(lia)) as Ed. pose proof (Z.mod_pos_bound b 2 ltac:(lia)) as Em.
  assert (E : (2 * (b / 2) = b - b mod 2)%Z) by lia.
  assert (E' : IZR (b / 2) * 2 = IZR b - IZR (b mod 2)) by (rewrite <- minus_IZR, <- E, mult_IZR; simpl; ring).
  assert (0 <= IZR (b mod 2) <= 1) by (split; [apply IZR_le|apply (IZR_le _ 1)]; lia).
  unfold bdR. pose proof u36_pos. nra.
Qed.

(* the 300-round loop: with w = 2^-j the weight of the current mantissa's logarithm and b the matching "bit value" *)
Lemma log2_iter_err : forall m x y b y' w,
  log2_iter m x y b = Ok y' -> (P36 <= x < 2 * P36)%Z -> 0 < w <= 1 -> (0 <= b)%Z ->
  w / 2 - u36 <= bdR b <= w / 2 ->
  Rabs (bdR y' - bdR y - w * log2R (bdR x)) <= INR m * u36 + 8 * w * u36 + w / 2 ^ m.
Proof.
  induction m as [|m IH]; intros x y b y' w H Hx Hw Hb Hbw.
  - cbn [log2_iter] in H. inversion H; subst y'. pose proof (log2R_range _ (bdR_range12 x Hx)) as HL.
    pose proof u36_pos as Hu. simpl. apply Rabs_le. replace (w / 1) with w by field. split; nra.
  - cbn [log2_iter] in H.
    destruct (bdc_mul x x) as [sq|] eqn:ES; cbn [bind] in H; [|discriminate]. apply bdc_mul_inv in ES.
    pose proof (iter_step x Hx) as [St1 St0]. cbv zeta in St1, St0. rewrite <- ES in St1, St0.
    pose proof (bdR_range12 x Hx) as HX. pose proof u36_pos as Hu.
    pose proof (bdR_half b Hb) as Hbh.
    assert (Hb' : (0 <= Z.shiftr b 1)%Z) by (apply Z.shiftr_nonneg; assumption).
    assert (Hw' : 0 < w / 2 <= 1) by lra.
    assert (Hbw' : w / 2 / 2 - u36 <= bdR (Z.shiftr b 1) <= w / 2 / 2) by lra.
    assert (Hpow : w / 2 / 2 ^ m = w / 2 ^ S m) by (simpl; field; apply pow_nonzero; lra).
    rewrite two_bigdec_val in H.
    destruct (sq >=? 2 * P36)%Z eqn:EC.
    + assert (HS : (2 * P36 <= sq)%Z) by (destruct (Z.geb_spec sq (2 * P36)); [lia|discriminate]).
      destruct (St1 HS) as (Hx' & F & HF & EF).
      destruct (bdc_add y b) as [y1|] eqn:EY; cbn [bind] in H; [|discriminate]. apply bdc_add_inv in EY.
      specialize (IH _ _ _ _ (w / 2) H Hx' Hw' Hb' Hbw'). rewrite Hpow in IH.
      pose proof (bdR_range12 _ Hx') as HX'.
      destruct (log_step (bdR x) (bdR (Z.shiftr sq 1)) F 1 HX ltac:(lra) HF ltac:(right; reflexivity)) as [EL HLF].
      { destruct (Req_EM_T 1 1); [exact EF|contradiction]. }
      subst y1. rewrite bdR_add in IH. rewrite S_INR.
      apply Rabs_le_inv' in IH. apply Rabs_le_inv' in HLF.
      assert (HwF : - (w / 2 * (8 * u36)) <= w / 2 * log2R F <= w / 2 * (8 * u36)) by (split; nra).
      apply Rabs_le. rewrite EL. split; nra.
    + assert (HS : (sq < 2 * P36)%Z) by (destruct (Z.geb_spec sq (2 * P36)); [discriminate|lia]).
      destruct (St0 HS) as (HS1 & F & HF & EF).
      specialize (IH _ _ _ _ (w / 2) H ltac:(lia) Hw' Hb' Hbw'). rewrite Hpow in IH.
      pose proof (bdR_range12 sq ltac:(lia)) as HX'.
      destruct (log_step (bdR x) (bdR sq) F 0 HX ltac:(lra) HF ltac:(left; reflexivity)) as [EL HLF].
      { destruct (Req_EM_T 0 1); [lra|rewrite Rmult_1_r; exact EF]. }
      rewrite S_INR. apply Rabs_le_inv' in IH. apply Rabs_le_inv' in HLF.
      assert (HwF : - (w / 2 * (8 * u36)) <= w / 2 * log2R F <= w / 2 * (8 * u36)) by (split; nra).
      apply Rabs_le. rewrite EL. split; nra.
Qed.

(* ---- normalisation ---- *)
Lemma two_bigdec_val' : two_bigdec = (2 * P36)%Z. Proof. vm_compute. reflexivity. Qed.

Lemma bdR_pos : forall x, (0 < x)%Z -> 0 < bdR x.
Proof. intros x H. apply IZR_lt in H. unfold bdR. pose proof u36_pos. simpl in H. nra. Qed.

(* left shifts are exact: y + log2(x) is unchanged *)
Lemma norm_up_spec : forall fuel x y x1 y1, log2_norm_up fuel x y = Ok (x1, y1) -> (0 < x)%Z ->
  (P36 <= x1)%Z /\ (x1 = x \/ x1 < 2 * P36)%Z /\ (x <= x1)%Z /\ bdR y1 + log2R (bdR x1) = bdR y + log2R (bdR x).
Proof.
  induction fuel as [|f IH]; intros x y x1 y1 H Hx; cbn [log2_norm_up] in H.
  - destruct (x <? P36)%Z eqn:E; [discriminate|]. apply Z.ltb_ge in E. inversion H; subst. split; [lia|]. split; [left; reflexivity|]. split; [lia|reflexivity].
  - destruct (x <? P36)%Z eqn:E.
    + apply Z.ltb_lt in E. destruct (bdc_add y (- P36)) as [y'|] eqn:EY; cbn [bind] in H; [|discriminate]. apply bdc_add_inv in EY.
      rewrite Z.shiftl_mul_pow2 in H by lia. change (2 ^ 1)%Z with 2%Z in H.
      destruct (IH _ _ _ _ H ltac:(lia)) as (A & B & C & D).
      split; [assumption|]. split; [right; lia|]. split; [lia|].
      rewrite D. subst y'. rewrite bdR_add.
      assert (E2 : bdR (x * 2) = bdR x * 2) by (unfold bdR; rewrite mult_IZR; simpl; ring).
      rewrite E2, log2R_mult, log2R_2 by (try lra; apply bdR_pos; assumption).
      assert (bdR (- P36) = -1) by (unfold bdR; rewrite opp_IZR, IZR_P36; pose proof u36_T36; lra). lra.
    + apply Z.ltb_ge in E. inversion H; subst. split; [lia|]. split; [left; reflexivity|]. split; [lia|reflexivity].
Qed.

(* every right shift drops at most one raw unit of a value >= 2: at most 2 ulps of logarithm per shift *)
Lemma norm_down_spec : forall fuel x y x2 y2, log2_norm_down fuel x y = Ok (x2, y2) -> (P36 <= x)%Z ->
  (P36 <= x2 < 2 * P36)%Z /\
  Rabs (bdR y2 + log2R (bdR x2) - (bdR y + log2R (bdR x))) <= INR fuel * (2 * u36).
Proof.
  pose proof P36_pos' as HP. pose proof u36_pos as Hu. pose proof u36_le as Hule.
  induction fuel as [|f IH]; intros x y x2 y2 H Hx; cbn [log2_norm_down] in H; rewrite two_bigdec_val' in H.
  - destruct (x >=? 2 * P36)%Z eqn:E; [discriminate|]. inversion H; subst.
    assert (x2 < 2 * P36)%Z by (destruct (Z.geb_spec x2 (2 * P36)); [discriminate|lia]).
    split; [lia|]. replace (bdR y2 + log2R (bdR x2) - (bdR y2 + log2R (bdR x2))) with 0 by ring. rewrite Rabs_R0. simpl. lra.
  - destruct (x >=? 2 * P36)%Z eqn:E.
    + assert (Hx2 : (2 * P36 <= x)%Z) by (destruct (Z.geb_spec x (2 * P36)); [lia|discriminate]).
      destruct (bdc_add y P36) as [y'|] eqn:EY; cbn [bind] in H; [|discriminate]. apply bdc_add_inv in EY. subst y'.
      rewrite shiftr1 in H.
      pose proof (Z.div_mod x 2 ltac:(lia)) as Ed. pose proof (Z.mod_pos_bound x 2 ltac:(lia)) as Em.
      destruct (IH _ _ _ _ H ltac:(lia)) as [A B]. split; [assumption|].
      (* bdR (x/2) * 2 = bdR x * F *)
      set (x' := (x / 2)%Z) in *.
      assert (Hx'pos : 0 < bdR x') by (apply bdR_pos; lia). assert (Hxpos : 0 < bdR x) by (apply bdR_pos; lia).
      assert (Hx2R : 2 <= bdR x).
      { apply IZR_le in Hx2. rewrite mult_IZR, IZR_P36 in Hx2. simpl in Hx2. unfold bdR. pose proof u36_T36. pose proof T36_pos.
        assert (2 * T36 * u36 <= IZR x * u36) by (apply Rmult_le_compat_r; lra). nra. }
      assert (Hr : bdR x - u36 <= bdR x' * 2 <= bdR x).
      { unfold bdR. assert (E2 : (2 * x' = x - x mod 2)%Z) by (unfold x'; lia).
        assert (E' : IZR x' * 2 = IZR x - IZR (x mod 2)) by (rewrite <- minus_IZR, <- E2, mult_IZR; simpl; ring).
        assert (0 <= IZR (x mod 2) <= 1) by (split; [apply IZR_le|apply (IZR_le _ 1)]; lia). nra. }
      set (F := bdR x' * 2 / bdR x).
      assert (EF : bdR x' * 2 = bdR x * F) by (unfold F; field; lra).
      assert (HF : Rabs (F - 1) <= u36 / 2).
      { apply Rabs_le. split.
        - apply Rmult_le_reg_r with (r := bdR x); [lra|]. replace ((F - 1) * bdR x) with (bdR x' * 2 - bdR x) by (unfold F; field; lra). nra.
        - apply Rmult_le_reg_r with (r := bdR x); [lra|]. replace ((F - 1) * bdR x) with (bdR x' * 2 - bdR x) by (unfold F; field; lra). nra. }
      assert (Hu3 : u36 <= 1 / 1000) by (eapply Rle_trans; [exact Hule|]; interval with (i_prec 64)).
      assert (HF0 : 1 / 2 <= F <= 2) by (apply Rabs_le_inv' in HF; lra).
      assert (EL : log2R (bdR x') + 1 = log2R (bdR x) + log2R F).
      { rewrite <- log2R_2 at 1. rewrite <- !log2R_mult by lra. rewrite EF. reflexivity. }
      pose proof (log2R_near1 F HF0) as HLF.
      assert (HLF' : Rabs (log2R F) <= 2 * u36) by lra.
      rewrite bdR_add in B. assert (bdR P36 = 1) by apply bdR_P36.
      rewrite S_INR. apply Rabs_le_inv' in B. apply Rabs_le_inv' in HLF'. apply Rabs_le. split; lra.
    + inversion H; subst.
      assert (x2 < 2 * P36)%Z by (destruct (Z.geb_spec x2 (2 * P36)); [discriminate|lia]).
      split; [lia|]. replace (bdR y2 + log2R (bdR x2) - (bdR y2 + log2R (bdR x2))) with 0 by ring. rewrite Rabs_R0.
      pose proof (pos_INR (S f)). nra.
Qed.

Lemma half_val : bdR (5 * 10 ^ 35) = 1 / 2.
Proof.
  assert (E : (2 * (5 * 10 ^ 35) = 10 ^ 36)%Z) by (vm_compute; reflexivity).
  apply (f_equal IZR) in E. rewrite mult_IZR in E. fold T36 in E. simpl (IZR 2) in E.
  unfold bdR. pose proof u36_T36 as HU. replace (IZR (5 * 10 ^ 35)) with (T36 / 2) by lra. nra.
Qed.
Lemma one_half_val : one_half_bigdec = Ok (5 * 10 ^ 35)%Z. Proof. vm_compute. reflexivity. Qed.
Lemma iters_ok : (120 <= max_log2_iterations <= 1000)%nat. Proof. vm_compute. lia. Qed.

Lemma half_nonneg : (0 <= 5 * 10 ^ 35)%Z. Proof. vm_compute. discriminate. Qed.

Lemma pow_iters_small : 1 / 2 ^ max_log2_iterations <= u36.
Proof.
  destruct iters_ok as [I1 _].
  assert (A : 2 ^ 120 <= 2 ^ max_log2_iterations) by (apply Rle_pow; [lra|exact I1]).
  assert (B : 1 / 2 ^ 120 <= u36) by (rewrite u36_val; interval with (i_prec 200)).
  assert (C : 0 < 2 ^ 120) by (apply pow_lt; lra).
  eapply Rle_trans; [|exact B]. unfold Rdiv. rewrite !Rmult_1_l. apply Rinv_le_contravar; assumption.
Qed.
Lemma iters_INR : INR max_log2_iterations <= 1000.
Proof. destruct iters_ok as [_ I2]. apply le_INR in I2. replace 1000 with (INR 1000); [exact I2|]. rewrite INR_IZR_INZ. reflexivity. Qed.

Lemma down_fuel_bound : forall x x1, (0 < x)%Z -> (bitlen x <= 1144)%Z -> (x1 = x \/ x1 < 2 * P36)%Z -> (P36 <= x1)%Z ->
  INR (S (Z.to_nat (Z.log2 x1))) <= 1144.
Proof.
  intros x x1 Hx Hbits U2 U1. pose proof P36_pos'.
  assert (Hl : (Z.log2 x1 <= 1143)%Z).
  { destruct U2 as [->|U2].
    - unfold bitlen in Hbits. destruct (x =? 0)%Z eqn:Ex; [apply Z.eqb_eq in Ex; lia|]. rewrite Z.abs_eq in Hbits by lia. lia.
    - assert (Z.log2 x1 < 121)%Z; [|lia]. apply Z.log2_lt_pow2; [lia|]. assert (2 * P36 < 2 ^ 121)%Z by (vm_compute; reflexivity). lia. }
  rewrite S_INR, INR_IZR_INZ, Z2Nat.id by (apply Z.log2_nonneg). apply IZR_le in Hl. lra.
Qed.

(* LogBase2 on every representable positive argument *)
Lemma log_base2_err_parts : forall fu m x x1 y1 x2 y2 r, (0 < x)%Z -> (bitlen x <= 1144)%Z ->
  INR m <= 1000 -> 1 / 2 ^ m <= u36 ->
  log2_norm_up fu x 0 = Ok (x1, y1) ->
  log2_norm_down (S (Z.to_nat (Z.log2 x1))) x1 y1 = Ok (x2, y2) ->
  log2_iter m x2 y2 (5 * 10 ^ 35) = Ok r ->
  Rabs (bdR r - log2R (bdR x)) <= 3300 * u36.
Proof.
  intros fu m x x1 y1 x2 y2 r E0 Hbits Hit Hpow EU ED H.
  destruct (norm_up_spec _ _ _ _ _ EU E0) as (U1 & U2 & U3 & U4).
  destruct (norm_down_spec _ _ _ _ _ ED U1) as (D1 & D2).
  pose proof u36_pos as Hu.
  assert (Hb : 1 / 2 - u36 <= bdR (5 * 10 ^ 35) <= 1 / 2) by (rewrite half_val; lra).
  pose proof (log2_iter_err _ _ _ _ _ 1 H D1 ltac:(lra) half_nonneg) as HI.
  specialize (HI ltac:(lra)).
  pose proof (down_fuel_bound x x1 E0 Hbits U2 U1) as Hfuel.
  assert (bdR 0 = 0) by apply bdR_0.
  apply Rabs_le_inv' in HI. apply Rabs_le_inv' in D2. apply Rabs_le. split; nra.
Qed.

Lemma bind_ok : forall (A B : Type) (r : result A) (f : A -> result B) b, bind r f = Ok b -> exists a, r = Ok a /\ f a = Ok b.
Proof. intros A B [a|e] f b H; [exists a; split; [reflexivity|exact H]|discriminate]. Qed.

Lemma log_base2_err : forall x r, log_base2 x = Ok r -> (bitlen x <= 1144)%Z ->
  (0 < x)%Z /\ Rabs (bdR r - log2R (bdR x)) <= 3300 * u36.
Proof.
  intros x r H Hbits. unfold log_base2 in H.
  destruct (x <=? 0)%Z eqn:E0; [discriminate|]. apply Z.leb_gt in E0. split; [assumption|].
  apply bind_ok in H. destruct H as ([x1 y1] & EU & H).
  apply bind_ok in H. destruct H as ([x2 y2] & ED & H).
  apply bind_ok in H. destruct H as (b & EB & H).
  rewrite one_half_val in EB. assert (Eb : b = (5 * 10 ^ 35)%Z) by congruence. subst b.
  exact (log_base2_err_parts _ _ _ _ _ _ _ _ E0 Hbits iters_INR pow_iters_small EU ED H).
Qed.

(* ---- derived logarithms: Quo by a (stored or computed) base-2 logarithm ---- *)

(* the rounded quotient for operands of any sign *)
Lemma chop_round_opp : forall p d, chop_round p (- d) = (- chop_round p d)%Z.
Proof.
  intros p d. unfold chop_round. destruct (Z.ltb_spec (- d) 0); destruct (Z.ltb_spec d 0); try lia.
  - rewrite Z.opp_involutive. reflexivity.
  - assert (d = 0)%Z by lia. subst. reflexivity.
Qed.
Lemma bd_quo_opp_l : forall a b, b <> 0%Z -> bd_quo (- a) b = (- bd_quo a b)%Z.
Proof. intros. unfold bd_quo. rewrite Z.mul_opp_l, Z.quot_opp_l, chop_round_opp by assumption. reflexivity. Qed.
Lemma bd_quo_opp_r : forall a b, b <> 0%Z -> bd_quo a (- b) = (- bd_quo a b)%Z.
Proof. intros. unfold bd_quo. rewrite Z.quot_opp_r, chop_round_opp by assumption. reflexivity. Qed.
Lemma bdR_opp : forall a, bdR (- a) = - bdR a.
Proof. intros. unfold bdR. rewrite opp_IZR. ring. Qed.

Lemma bdR_quo_err_signed : forall a b, b <> 0%Z -> Rabs (bdR (bd_quo a b) - bdR a / bdR b) <= u36.
Proof.
  assert (Hpos : forall a b, (0 < b)%Z -> Rabs (bdR (bd_quo a b) - bdR a / bdR b) <= u36).
  { intros a b Hb. destruct (Z_le_gt_dec 0 a) as [Ha|Ha]; [apply bdR_quo_err; assumption|].
    pose proof (bdR_quo_err (- a) b ltac:(lia) Hb) as H. rewrite bd_quo_opp_l, !bdR_opp in H by lia.
    replace (bdR (bd_quo a b) - bdR a / bdR b) with (- (- bdR (bd_quo a b) - - bdR a / bdR b)).
    2:{ field. pose proof (bdR_pos b Hb). lra. }
    rewrite Rabs_Ropp. exact H. }
  intros a b Hb. destruct (Z_lt_le_dec 0 b) as [Hb'|Hb']; [apply Hpos; assumption|].
  pose proof (Hpos a (- b)%Z ltac:(lia)) as H. rewrite bd_quo_opp_r, !bdR_opp in H by lia.
  replace (bdR (bd_quo a b) - bdR a / bdR b) with (- (- bdR (bd_quo a b) - bdR a / - bdR b)).
  2:{ field. pose proof (bdR_pos (- b) ltac:(lia)) as Hp. rewrite bdR_opp in Hp. lra. }
  rewrite Rabs_Ropp. exact H.
Qed.

(* a quotient of two approximations: (L0 +- eL) / (C0 +- eC) against L0 / C0 *)
Lemma quotient_err : forall L L0 C C0 eL eC,
  Rabs (L - L0) <= eL -> Rabs (C - C0) <= eC -> eC < Rabs C0 ->
  Rabs (L / C - L0 / C0) <= (eL + Rabs (L0 / C0) * eC) / (Rabs C0 - eC).
Proof.
  intros L L0 C C0 eL eC HL HC HC0.
  assert (HC0nz : C0 <> 0) by (intros ->; rewrite Rabs_R0 in HC0; pose proof (Rabs_pos (C - 0)); lra).
  assert (HCabs : Rabs C0 - eC <= Rabs C).
  { replace C0 with (C - (C - C0)) at 1 by ring. pose proof (Rabs_triang C (- (C - C0))) as T. rewrite Rabs_Ropp in T.
    replace (C + - (C - C0)) with (C - (C - C0)) in T by ring. lra. }
  assert (HCpos : 0 < Rabs C) by lra.
  assert (HCnz : C <> 0) by (intros ->; rewrite Rabs_R0 in HCpos; lra).
  replace (L / C - L0 / C0) with (((L - L0) - L0 / C0 * (C - C0)) / C) by (field; split; assumption).
  unfold Rdiv at 1. rewrite Rabs_mult, Rabs_inv.
  assert (Hnum : Rabs (L - L0 - L0 / C0 * (C - C0)) <= eL + Rabs (L0 / C0) * eC).
  { eapply Rle_trans; [apply Rabs_triang|]. rewrite Rabs_Ropp, Rabs_mult.
    assert (Rabs (L0 / C0) * Rabs (C - C0) <= Rabs (L0 / C0) * eC) by (apply Rmult_le_compat_l; [apply Rabs_pos|assumption]). lra. }
  assert (Hnum0 : 0 <= eL + Rabs (L0 / C0) * eC) by (eapply Rle_trans; [apply Rabs_pos|exact Hnum]).
  unfold Rdiv. apply Rmult_le_compat; [apply Rabs_pos|left; apply Rinv_0_lt_compat; assumption|assumption|].
  apply Rinv_le_contravar; lra.
Qed.

(* generic derived logarithm: l = LogBase2 x (within 3300 ulps), divisor c within eC of the true log2(base) C0 *)
Lemma derived_log_err : forall x l c r C0 eC,
  log_base2 x = Ok l -> (bitlen x <= 1144)%Z -> bdc_quo l c = Ok r ->
  Rabs (bdR c - C0) <= eC -> eC < Rabs C0 ->
  Rabs (bdR r - log2R (bdR x) / C0) <=
    (3300 * u36 + Rabs (log2R (bdR x) / C0) * eC) / (Rabs C0 - eC) + u36.
Proof.
  intros x l c r C0 eC Hl Hbits Hq HC HC0.
  destruct (log_base2_err _ _ Hl Hbits) as [Hx HL].
  apply bdc_quo_inv in Hq. destruct Hq as [-> Hc].
  pose proof (bdR_quo_err_signed l c Hc) as HQ.
  pose proof (quotient_err _ _ _ _ _ _ HL HC HC0) as HD.
  replace (bdR (bd_quo l c) - log2R (bdR x) / C0) with ((bdR (bd_quo l c) - bdR l / bdR c) + (bdR l / bdR c - log2R (bdR x) / C0)) by ring.
  eapply Rle_trans; [apply Rabs_triang|]. lra.
Qed.

(* the stored constants are the correctly rounded 36-decimal values of log2(e) and log2(1.0001) *)
Lemma log_of_e_base2_accurate : Rabs (bdR log_of_e_base2 - 1 / ln 2) <= u36.
Proof. rewrite u36_val. unfold bdR, u36, log_of_e_base2. interval with (i_prec 300). Qed.
Lemma tick_log_of_2_accurate : Rabs (bdR tick_log_of_2 - log2R (10001 / 10000)) <= u36.
Proof. rewrite u36_val. unfold log2R, bdR, u36, tick_log_of_2. interval with (i_prec 300). Qed.

Lemma ln_as_log2 : forall X, ln X = log2R X / (1 / ln 2).
Proof. intros. unfold log2R. field. pose proof ln2_pos; lra. Qed.

Lemma ln_bigdec_err : forall x r, ln_bigdec x = Ok r -> (bitlen x <= 1144)%Z ->
  (0 < x)%Z /\ Rabs (bdR r - ln (bdR x)) <= (3300 * u36 + Rabs (ln (bdR x)) * u36) / (1 / ln 2 - u36) + u36.
Proof.
  intros x r H Hbits. unfold ln_bigdec in H.
  destruct (log_base2 x) as [l|] eqn:El; cbn [bind] in H; [|discriminate].
  split; [exact (proj1 (log_base2_err _ _ El Hbits))|].
  pose proof ln2_pos as Hp. pose proof ln2_ge_half. pose proof u36_pos. pose proof u36_le as Hule.
  assert (Hu3 : u36 <= 1 / 1000) by (eapply Rle_trans; [exact Hule|]; interval with (i_prec 64)).
  assert (Hln2 : ln 2 <= 1) by (interval with (i_prec 64)).
  assert (Hc0 : 1 <= 1 / ln 2). { unfold Rdiv. rewrite Rmult_1_l. rewrite <- Rinv_1 at 1. apply Rinv_le_contravar; lra. }
  pose proof (derived_log_err _ _ _ _ (1 / ln 2) u36 El Hbits H log_of_e_base2_accurate) as D.
  rewrite (Rabs_pos_eq (1 / ln 2)) in D by lra. rewrite <- ln_as_log2 in D. apply D. lra.
Qed.

Lemma tick_log_err : forall x r, tick_log x = Ok r -> (bitlen x <= 1144)%Z ->
  let C0 := log2R (10001 / 10000) in
  (0 < x)%Z /\ Rabs (bdR r - log2R (bdR x) / C0) <= (3300 * u36 + Rabs (log2R (bdR x) / C0) * u36) / (C0 - u36) + u36.
Proof.
  intros x r H Hbits C0. unfold tick_log in H.
  destruct (log_base2 x) as [l|] eqn:El; cbn [bind] in H; [|discriminate].
  split; [exact (proj1 (log_base2_err _ _ El Hbits))|].
  pose proof u36_pos. pose proof u36_le as Hule.
  assert (Hu3 : u36 <= 1 / 10 ^ 30) by exact Hule.
  assert (Hc0 : 1 / 10 ^ 4 <= C0) by (unfold C0, log2R; interval with (i_prec 64)).
  assert (Hsm : 1 / 10 ^ 30 < 1 / 10 ^ 4) by (interval with (i_prec 64)).
  pose proof (derived_log_err _ _ _ _ C0 u36 El Hbits H tick_log_of_2_accurate) as D.
  rewrite (Rabs_pos_eq C0) in D by lra. apply D. lra.
Qed.

Lemma custom_base_log_err : forall x base r, custom_base_log x base = Ok r -> (bitlen x <= 1144)%Z -> (bitlen base <= 1144)%Z ->
  let C0 := log2R (bdR base) in
  (0 < x)%Z /\ (0 < base)%Z /\ base <> P36 /\
  (3300 * u36 < Rabs C0 ->
   Rabs (bdR r - log2R (bdR x) / C0) <= (3300 * u36 + Rabs (log2R (bdR x) / C0) * (3300 * u36)) / (Rabs C0 - 3300 * u36) + u36).
Proof.
  intros x base r H Hbx Hbb C0. unfold custom_base_log in H.
  destruct (base <=? 0)%Z eqn:E1; [discriminate|]. destruct (base =? P36)%Z eqn:E2; [discriminate|]. cbn [orb] in H.
  apply Z.leb_gt in E1. apply Z.eqb_neq in E2.
  destruct (log_base2 x) as [lx|] eqn:Elx; cbn [bind] in H; [|discriminate].
  destruct (log_base2 base) as [lb|] eqn:Elb; cbn [bind] in H; [|discriminate].
  split; [exact (proj1 (log_base2_err _ _ Elx Hbx))|]. split; [assumption|]. split; [assumption|].
  intros HC0. destruct (log_base2_err _ _ Elb Hbb) as [_ HB].
  exact (derived_log_err _ _ _ _ C0 (3300 * u36) Elx Hbx H HB HC0).
Qed.

(* fail loudly *)
Lemma log_base2_domain : forall x, (x <= 0)%Z -> log_base2 x = Err ELogDomain.
Proof. intros x H. unfold log_base2. apply Z.leb_le in H. rewrite H. reflexivity. Qed.
Lemma ln_bigdec_domain : forall x, (x <= 0)%Z -> ln_bigdec x = Err ELogDomain.
Proof. intros x H. unfold ln_bigdec. rewrite log_base2_domain by assumption. reflexivity. Qed.
Lemma tick_log_domain : forall x, (x <= 0)%Z -> tick_log x = Err ELogDomain.
Proof. intros x H. unfold tick_log. rewrite log_base2_domain by assumption. reflexivity. Qed.
Lemma custom_base_log_base_domain : forall x base, (base <= 0 \/ base = P36)%Z -> custom_base_log x base = Err ELogBase.
Proof.
  intros x base H. unfold custom_base_log. destruct H as [H| ->].
  - apply Z.leb_le in H. rewrite H. reflexivity.
  - rewrite Z.eqb_refl, orb_true_r. reflexivity.
Qed.
Lemma custom_base_log_arg_domain : forall x base, (x <= 0)%Z -> (0 < base)%Z -> base <> P36 -> custom_base_log x base = Err ELogDomain.
Proof.
  intros x base Hx Hb Hb1. unfold custom_base_log.
  destruct (base <=? 0)%Z eqn:E1; [apply Z.leb_le in E1; lia|]. destruct (base =? P36)%Z eqn:E2; [apply Z.eqb_eq in E2; contradiction|].
  cbn [orb]. rewrite log_base2_domain by assumption. reflexivity.
Qed.

(* the documented accuracy: 32 digits *)
Lemma log_base2_err_documented : forall x r, log_base2 x = Ok r -> (bitlen x <= 1144)%Z ->
  Rabs (bdR r - log2R (bdR x)) <= 1 / 10 ^ 32.
Proof.
  intros x r H Hb. destruct (log_base2_err x r H Hb) as [_ E]. eapply Rle_trans; [exact E|].
  rewrite u36_val. interval with (i_prec 200).
Qed.
