(* C13 - shared result/error types of the osmomath approximation models, and the range checks of
   osmomath.BigDec / sdk LegacyDec / sdk Int *as the pinned code performs them*.
   Raw mantissas: Dec = value x 10^18, BigDec = value x 10^36, Int = the integer. Definitions only. *)
From Coq Require Import ZArith List Bool.
Import ListNotations.
From Osmo Require Import Base.DecModel.
Open Scope Z_scope.

(* every way the modelled functions fail loudly (Go: returned error or panic), as a small enum;
   [err_code] is the number the Go driver (harness/c13drv classify) assigns to the same failure *)
Inductive err : Type :=
| ENegSqrt        (* "cannot take square root of negative number" *)
| ENegExponent    (* Exp2: "negative exponent ... is not supported" *)
| EExpTooLarge    (* Exp2: "integer exponent ... is too large" *)
| ELogDomain      (* LogBase2: "log is not defined at <= 0" *)
| ELogBase        (* CustomBaseLog: "log is not defined at base <= 0 or base == 1" *)
| EPowBaseLE0     (* Pow/PowApprox: "base must be greater than 0" *)
| EPowBaseGE2     (* Pow: "base must be lesser than two" *)
| EPowIterLimit   (* PowApprox: "failed to reach precision within N iterations" *)
| EOverflow       (* "Int overflow" (assertMaxBitLen / assertInValidRange / sdk Int 256-bit check; ApproxRoot's recovered panic) *)
| EDivZero        (* big.Int division by zero *)
| ENoConverge     (* binary search: "hit maximum iterations, did not converge fast enough" *)
| EFuncError      (* binary search: the searched function returned an error *)
| EInt64Range     (* "Int64() out of bound" *)
| EExpContract    (* exp2ChebyshevRationalApprox: "exponent must be in the range [0, 1]" *)
| EFuel.          (* model-only: a loop bound of the model was exhausted; proved unreachable where it matters; never equal to a driver code *)

Definition err_code (e : err) : Z :=
  match e with
  | ENegSqrt => 1 | ENegExponent => 2 | EExpTooLarge => 3 | ELogDomain => 4 | ELogBase => 5
  | EPowBaseLE0 => 6 | EPowBaseGE2 => 7 | EPowIterLimit => 8 | EOverflow => 9 | EDivZero => 10
  | ENoConverge => 11 | EFuncError => 12 | EInt64Range => 13 | EExpContract => 14 | EFuel => 77
  end.

Inductive result (A : Type) : Type := Ok (a : A) | Err (e : err).
Arguments Ok {A} a.
Arguments Err {A} e.

Definition bind {A B} (r : result A) (f : A -> result B) : result B :=
  match r with Ok a => f a | Err e => Err e end.
Notation "'do' x <- r ; k" := (bind r (fun x => k)) (at level 200, x ident, r at level 100, k at level 200).

Notation "'do' ( x , y ) <- r ; k" := (bind r (fun p => let '(x, y) := p in k))
  (at level 200, x ident, y ident, r at level 100, k at level 200).

Definition is_ok {A} (r : result A) : bool := match r with Ok _ => true | Err _ => false end.

(* osmomath assertMaxBitLen: panic("Int overflow") iff BitLen > 1144 *)
Definition bd_check (z : Z) : result Z := if bd_fits z then Ok z else Err EOverflow.

(* cosmossdk.io/math v1.5.3 LegacyDec.assertInValidRange: upperLimit = 2^256*10^18 - 1, lowerLimit = -upperLimit *)
Definition d_upper : Z := 2 ^ 256 * P18 - 1.
Definition d_in_range (z : Z) : bool := (z <=? d_upper) && (- d_upper <=? z).
Definition d_check (z : Z) : result Z := if d_in_range z then Ok z else Err EOverflow.

(* sdk Int: NewIntFromBigInt / SafeAdd / SafeMul fail iff BitLen > 256 *)
Definition int_fits (z : Z) : bool := bitlen z <=? 256.
Definition int_check (z : Z) : result Z := if int_fits z then Ok z else Err EOverflow.

(* checked arithmetic, as the Go methods perform it (operation, then range assertion) *)
Definition bdc_add (a b : Z) : result Z := bd_check (a + b).
Definition bdc_sub (a b : Z) : result Z := bd_check (a - b).
Definition bdc_mul (a b : Z) : result Z := bd_check (bd_mul a b).
Definition bdc_quo (a b : Z) : result Z := if b =? 0 then Err EDivZero else bd_check (bd_quo a b).

Definition dc_add (a b : Z) : result Z := d_check (a + b).
Definition dc_sub (a b : Z) : result Z := d_check (a - b).
Definition dc_mul (a b : Z) : result Z := d_check (d_mul a b).
Definition dc_quo (a b : Z) : result Z := if b =? 0 then Err EDivZero else d_check (d_quo a b).
Definition dc_mul_int (a i : Z) : result Z := d_check (a * i).

(* LegacyDec.PowerMut with the range assertion of every MulMut (Base.DecModel.d_power is the unchecked value) *)
Fixpoint dc_power_loop (fuel : nat) (d tmp i : Z) : result (Z * Z) :=
  if 1 <? i then
    match fuel with
    | O => Err EFuel
    | S f => do tmp' <- (if Z.odd i then dc_mul tmp d else Ok tmp);
             do d' <- dc_mul d d;
             dc_power_loop f d' tmp' (Z.quot i 2)
    end
  else Ok (d, tmp).
Definition dc_power (d power : Z) : result Z :=      (* power: a uint64, 0 <= power < 2^64, so 64 halvings suffice *)
  if power =? 0 then Ok P18 else
  do (d', tmp) <- dc_power_loop 64 d P18 power; dc_mul d' tmp.

(* BigDec.PowerIntegerMut (square and multiply), every MulMut with its bit-length assertion *)
Fixpoint bdc_power_loop (fuel : nat) (d tmp i : Z) : result (Z * Z) :=
  if 1 <? i then
    match fuel with
    | O => Err EFuel
    | S f => do tmp' <- (if Z.odd i then bdc_mul tmp d else Ok tmp);
             do d' <- bdc_mul d d;
             bdc_power_loop f d' tmp' (Z.quot i 2)
    end
  else Ok (d, tmp).
Definition bdc_power_integer (d power : Z) : result Z :=        (* power: uint64 *)
  if power =? 0 then Ok P36
  else if power =? 1 then Ok d
  else if power =? 2 then bdc_mul d d
  else do (d', tmp) <- bdc_power_loop 64 d P36 power; bdc_mul d' tmp.
