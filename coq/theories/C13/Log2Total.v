(* C13 - LogBase2 returns for every representable positive argument (no range assertion fires, no model fuel runs out).
   Integers only, axiom-free. *)
From Coq Require Import ZArith Lia Bool.
From Osmo Require Import Base.DecModel C13.Common C13.Log2 C13.RoundProofs Gen.C13_consts.
Open Scope Z_scope.

Lemma P36_pos : 0 < P36. Proof. vm_compute. reflexivity. Qed.
Lemma P36_lt120 : P36 < 2 ^ 120. Proof. vm_compute. reflexivity. Qed.
Lemma two_bigdec_eq : two_bigdec = 2 * P36. Proof. vm_compute. reflexivity. Qed.

Lemma bd_check_small : forall z, Z.abs z <= 2 ^ 1000 -> bd_check z = Ok z.
Proof.
  intros z H. unfold bd_check, bd_fits, bitlen, max_dec_bit_len. destruct (z =? 0) eqn:E; [reflexivity|].
  assert (Z.log2 (Z.abs z) <= 1000).
  { replace 1000 with (Z.log2 (2 ^ 1000)) by (rewrite Z.log2_pow2; lia). apply Z.log2_le_mono. assumption. }
  destruct (Z.leb_spec (Z.log2 (Z.abs z) + 1) 1144); [reflexivity|lia].
Qed.

Lemma pow2_200_1000 : 2 ^ 200 <= 2 ^ 1000. Proof. apply Z.pow_le_mono_r; lia. Qed.

(* left normalisation: at most 120 doublings of a value >= 1 raw unit reach 10^36 *)
Lemma norm_up_total : forall fuel x y, 0 < x -> P36 <= x * 2 ^ Z.of_nat fuel ->
  Z.abs y + Z.of_nat fuel * P36 <= 2 ^ 200 ->
  exists x1 y1, log2_norm_up fuel x y = Ok (x1, y1) /\ Z.abs y1 <= Z.abs y + Z.of_nat fuel * P36 /\ 0 < x1.
Proof.
  pose proof P36_pos as HP. pose proof pow2_200_1000 as H2.
  induction fuel as [|f IH]; intros x y Hx Hf Hy; cbn [log2_norm_up].
  - change (Z.of_nat 0) with 0 in *. rewrite Z.pow_0_r, Z.mul_1_r in Hf.
    destruct (Z.ltb_spec x P36); [lia|]. exists x, y. repeat split; lia.
  - destruct (Z.ltb_spec x P36).
    + rewrite Nat2Z.inj_succ in *. rewrite Z.pow_succ_r in Hf by lia.
      unfold bdc_add. rewrite bd_check_small by lia. cbn [bind].
      rewrite Z.shiftl_mul_pow2 by lia. change (2 ^ 1) with 2.
      destruct (IH (x * 2) (y + - P36)) as (x1 & y1 & E & A & B); [lia|lia|lia|].
      exists x1, y1. split; [exact E|]. split; lia.
    + exists x, y. repeat split; lia.
Qed.

(* right normalisation: every round halves; S (log2 x) rounds always suffice *)
Lemma norm_down_total : forall fuel x y, 0 <= x < 2 ^ Z.of_nat fuel * (2 * P36) ->
  Z.abs y + Z.of_nat fuel * P36 <= 2 ^ 200 ->
  exists x2 y2, log2_norm_down fuel x y = Ok (x2, y2) /\ Z.abs y2 <= Z.abs y + Z.of_nat fuel * P36 /\ x2 < 2 * P36 /\ (P36 <= x -> P36 <= x2).
Proof.
  pose proof P36_pos as HP. pose proof pow2_200_1000 as H2.
  induction fuel as [|f IH]; intros x y Hx Hy; cbn [log2_norm_down]; rewrite two_bigdec_eq.
  - change (Z.of_nat 0) with 0 in *. rewrite Z.pow_0_r, Z.mul_1_l in Hx.
    destruct (Z.geb_spec x (2 * P36)); [lia|]. exists x, y. repeat split; lia.
  - destruct (Z.geb_spec x (2 * P36)).
    + rewrite Nat2Z.inj_succ in *. rewrite Z.pow_succ_r in Hx by lia.
      unfold bdc_add. rewrite bd_check_small by lia. cbn [bind].
      rewrite Z.shiftr_div_pow2 by lia. change (2 ^ 1) with 2.
      assert (Hd : 0 <= x / 2 < 2 ^ Z.of_nat f * (2 * P36)).
      { split; [apply Z.div_pos; lia|]. apply Z.div_lt_upper_bound; lia. }
      destruct (IH (x / 2) (y + P36) Hd ltac:(lia)) as (x2 & y2 & E & A & B & C).
      exists x2, y2. split; [exact E|]. split; [lia|]. split; [assumption|].
      intros _. apply C. apply Z.div_le_lower_bound; lia.
    + exists x, y. repeat split; lia.
Qed.

(* one squaring keeps the mantissa in [1,2) *)
Lemma iter_step_Z : forall x, P36 <= x < 2 * P36 ->
  let s := bd_mul x x in P36 <= s <= 4 * P36 - 4.
Proof.
  intros x Hx s. pose proof P36_pos as HP.
  pose proof (chop_round_P36_err (x * x)) as Herr. unfold bd_mul in s. fold s in Herr.
  split; [nia|].
  assert (A : x * x <= (2 * P36 - 1) * (2 * P36 - 1)) by nia.
  assert (B : 2 * (s * P36 - x * x) <= P36) by lia.
  destruct (Z_le_gt_dec s (4 * P36 - 4)) as [|G]; [assumption|exfalso].
  assert (C : (4 * P36 - 3) * P36 <= s * P36) by nia.
  assert (D : 3 <= P36) by (vm_compute; discriminate). nia.
Qed.

Lemma log2_iter_total : forall m x y b, P36 <= x < 2 * P36 -> 0 <= b <= P36 ->
  Z.abs y + Z.of_nat m * P36 <= 2 ^ 200 ->
  exists r, log2_iter m x y b = Ok r /\ Z.abs r <= Z.abs y + Z.of_nat m * P36.
Proof.
  pose proof P36_pos as HP. pose proof pow2_200_1000 as H2. pose proof P36_lt120 as H120.
  assert (H8 : 8 * 2 ^ 120 <= 2 ^ 1000) by (assert (8 * 2 ^ 120 <= 2 ^ 200) by (vm_compute; discriminate); lia).
  induction m as [|m IH]; intros x y b Hx Hb Hy; cbn [log2_iter]; [exists y; split; [reflexivity|lia]|].
  pose proof (iter_step_Z x Hx) as Hs. cbv zeta in Hs.
  unfold bdc_mul. rewrite bd_check_small by lia. cbn [bind]. rewrite two_bigdec_eq.
  rewrite Nat2Z.inj_succ in Hy.
  assert (Hb' : 0 <= Z.shiftr b 1 <= P36).
  { rewrite Z.shiftr_div_pow2 by lia. change (2 ^ 1) with 2. split; [apply Z.div_pos; lia|]. apply Z.div_le_upper_bound; lia. }
  destruct (Z.geb_spec (bd_mul x x) (2 * P36)).
  - unfold bdc_add. rewrite bd_check_small by lia. cbn [bind].
    destruct (IH (Z.shiftr (bd_mul x x) 1) (y + b) (Z.shiftr b 1)) as (r & E & A); [|assumption|lia|exists r; split; [exact E|lia]].
    rewrite Z.shiftr_div_pow2 by lia. change (2 ^ 1) with 2.
    split; [apply Z.div_le_lower_bound; lia|apply Z.div_lt_upper_bound; lia].
  - destruct (IH (bd_mul x x) y (Z.shiftr b 1)) as (r & E & A); [lia|assumption|lia|exists r; split; [exact E|lia]].
Qed.

Lemma log_base2_total_bound : forall x, 0 < x -> bitlen x <= 1144 -> exists r, log_base2 x = Ok r /\ Z.abs r <= 2300 * P36.
Proof.
  intros x Hx Hbits. pose proof P36_pos as HP. pose proof P36_lt120 as H120.
  assert (HPP : 2000 * P36 <= 2 ^ 200) by (vm_compute; discriminate).
  unfold log_base2. destruct (Z.leb_spec x 0); [lia|].
  destruct (norm_up_total 120 x 0 Hx) as (x1 & y1 & E1 & A1 & B1).
  { change (Z.of_nat 120) with 120. nia. }
  { change (Z.of_nat 120) with 120. cbn [Z.abs]. lia. }
  rewrite E1. cbn [bind]. change (Z.of_nat 120) with 120 in A1. cbn [Z.abs] in A1.
  (* x1 is x itself or below 2*10^36; in both cases its bit length is at most 1144 *)
  assert (Hx1 : Z.log2 x1 <= 1143).
  { (* re-derive from the definition: either no doubling happened or the loop stopped below 2*10^36 *)
    assert (Hcase : x1 = x \/ x1 < 2 * P36).
    { clear - E1 Hx HP. revert x y1 x1 E1 Hx. generalize 0 at 1. generalize 120%nat.
      induction n as [|f IH]; intros y x y1 x1 E Hx; cbn [log2_norm_up] in E.
      - destruct (x <? P36); [discriminate|]. inversion E; auto.
      - destruct (Z.ltb_spec x P36).
        + destruct (bdc_add y (- P36)) as [y'|]; cbn [bind] in E; [|discriminate].
          rewrite Z.shiftl_mul_pow2 in E by lia. change (2 ^ 1) with 2 in E.
          destruct (IH _ _ _ _ E ltac:(lia)) as [->|]; [right; lia|right; assumption].
        + inversion E; auto. }
    destruct Hcase as [->|Hlt].
    - unfold bitlen in Hbits. destruct (x =? 0) eqn:Ex; [apply Z.eqb_eq in Ex; lia|]. rewrite Z.abs_eq in Hbits by lia. lia.
    - assert (Z.log2 x1 < 121); [|lia]. apply Z.log2_lt_pow2; [assumption|]. assert (2 * P36 < 2 ^ 121) by (vm_compute; reflexivity). lia. }
  set (fuel := S (Z.to_nat (Z.log2 x1))).
  assert (Hfuel : Z.of_nat fuel = Z.log2 x1 + 1) by (unfold fuel; rewrite Nat2Z.inj_succ, Z2Nat.id by (apply Z.log2_nonneg); lia).
  destruct (norm_down_total fuel x1 y1) as (x2 & y2 & E2 & A2 & B2 & C2).
  { rewrite Hfuel. split; [lia|]. pose proof (Z.log2_spec x1 B1) as [_ Hu]. replace (Z.succ (Z.log2 x1)) with (Z.log2 x1 + 1) in Hu by lia. nia. }
  { rewrite Hfuel. nia. }
  rewrite E2. cbn [bind].
  replace one_half_bigdec with (Ok (5 * 10 ^ 35)) by (vm_compute; reflexivity). cbn [bind].
  (* x1 >= 10^36 after the left normalisation *)
  assert (Hx1lo : P36 <= x1).
  { clear - E1 Hx HP. revert x y1 x1 E1 Hx. generalize 0 at 1. generalize 120%nat.
    induction n as [|f IH]; intros y x y1 x1 E Hx; cbn [log2_norm_up] in E.
    - destruct (Z.ltb_spec x P36); [discriminate|]. inversion E; subst; assumption.
    - destruct (Z.ltb_spec x P36).
      + destruct (bdc_add y (- P36)) as [y'|]; cbn [bind] in E; [|discriminate].
        rewrite Z.shiftl_mul_pow2 in E by lia. change (2 ^ 1) with 2 in E. apply (IH _ _ _ _ E). lia.
      + inversion E; subst; assumption. }
  assert (Hit : Z.of_nat max_log2_iterations <= 1000) by (vm_compute; discriminate).
  destruct (log2_iter_total max_log2_iterations x2 y2 (5 * 10 ^ 35)) as (r & E & A).
  - split; [apply C2; assumption|assumption].
  - split; [vm_compute; discriminate|vm_compute; discriminate].
  - rewrite Hfuel in A2. nia.
  - exists r. split; [exact E|]. rewrite Hfuel in A2. nia.
Qed.

Lemma log_base2_total : forall x, 0 < x -> bitlen x <= 1144 -> exists r, log_base2 x = Ok r.
Proof. intros x H1 H2. destruct (log_base2_total_bound x H1 H2) as (r & E & _). exists r. exact E. Qed.

(* the quotient by a non-zero divisor of at least 10^-36 * 10^30 in magnitude... any non-zero raw divisor: fits *)
Lemma bdc_quo_total : forall l c, Z.abs l <= 2300 * P36 -> c <> 0 -> exists r, bdc_quo l c = Ok r.
Proof.
  intros l c Hl Hc. pose proof P36_pos as HP. unfold bdc_quo. destruct (Z.eqb_spec c 0); [contradiction|].
  assert (Hq : Z.abs (bd_quo l c) <= 2 ^ 1000).
  { unfold bd_quo. pose proof (chop_round_P36_err (Z.quot (l * P72) c)) as C.
    assert (Hquot : Z.abs (Z.quot (l * P72) c) <= Z.abs l * P72).
    { rewrite <- Z.quot_abs by assumption. rewrite Z.abs_mul, (Z.abs_eq P72) by (vm_compute; discriminate).
      assert (0 <= Z.abs l * P72) by (apply Z.mul_nonneg_nonneg; [lia|vm_compute; discriminate]).
      apply Z.quot_le_upper_bound; [lia|]. nia. }
    assert (H72 : 2300 * P36 * P72 + P36 <= 2 ^ 1000) by (vm_compute; discriminate).
    assert (Z.abs l * P72 <= 2300 * P36 * P72) by (apply Z.mul_le_mono_nonneg_r; [vm_compute; discriminate|assumption]). nia. }
  rewrite bd_check_small by assumption. eexists; reflexivity.
Qed.

Lemma ln_total : forall x, 0 < x -> bitlen x <= 1144 -> exists r, ln_bigdec x = Ok r.
Proof.
  intros x H1 H2. destruct (log_base2_total_bound x H1 H2) as (l & E & B). unfold ln_bigdec. rewrite E. cbn [bind].
  apply bdc_quo_total; [assumption|vm_compute; discriminate].
Qed.
Lemma tick_log_total : forall x, 0 < x -> bitlen x <= 1144 -> exists r, tick_log x = Ok r.
Proof.
  intros x H1 H2. destruct (log_base2_total_bound x H1 H2) as (l & E & B). unfold tick_log. rewrite E. cbn [bind].
  apply bdc_quo_total; [assumption|vm_compute; discriminate].
Qed.
(* CustomBaseLog: returns, unless the computed log2(base) is exactly 0 (base within 2^-119 of 1) - then the division panics *)
Lemma custom_base_log_total : forall x base, 0 < x -> bitlen x <= 1144 -> 0 < base -> base <> P36 -> bitlen base <= 1144 ->
  exists r, custom_base_log x base = Ok r \/ (custom_base_log x base = Err EDivZero /\ log_base2 base = Ok 0).
Proof.
  intros x base H1 H2 H3 H4 H5. unfold custom_base_log.
  destruct (Z.leb_spec base 0); [lia|]. destruct (Z.eqb_spec base P36); [contradiction|]. cbn [orb].
  destruct (log_base2_total_bound x H1 H2) as (lx & Ex & Bx). destruct (log_base2_total_bound base H3 H5) as (lb & Eb & Bb).
  rewrite Ex, Eb. cbn [bind]. destruct (Z.eq_dec lb 0) as [->|Hnz].
  - exists 0. right. split; reflexivity.
  - destruct (bdc_quo_total lx lb Bx Hnz) as (r & E). exists r. left. exact E.
Qed.
