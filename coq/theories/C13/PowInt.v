(* C13 - the integer power used by Pow: LegacyDec.Power(n) (cosmossdk.io/math v1.5.3 PowerMut, square-and-multiply with a
   half-even rounded 18-decimal product at every step; model Common.dc_power).  For a positive base b and 0 <= n <= 2^28:
       |Power(b, n) - b^n| <= 2 n max(1, b)^n ulp
   Invariant of the loop (i = remaining exponent, n = m i + l):  d is within (2m - 1) max(1,b)^m ulp of b^m,  tmp within
   2 l max(1,b)^l ulp of b^l; a rounded product of two such values adds the coefficients, half an ulp of rounding, and a
   second-order term that stays below 1/2 as long as (2n)^2 ulp <= 1/2.  Reals axioms only. *)
From Coq Require Import ZArith Reals Lra Lia Bool.
From Osmo Require Import Base.DecModel C13.Common C13.Pow C13.RoundProofs C13.PowProofs C13.PowBound Gen.C13_consts.
Open Scope R_scope.

Definition n_max : Z := 2 ^ 28.

(* rounded product of two approximations: x ~ x0 (within cx X ulp), y ~ y0 (within cy Y ulp), X, Y >= 1 bounds of x0, y0 *)
Lemma mul_round_err : forall x y x0 y0 X Y cx cy K,
  0 <= x0 <= X -> 0 <= y0 <= Y -> 1 <= X -> 1 <= Y -> 0 <= cx -> 0 <= cy ->
  Rabs (dR x - x0) <= cx * X * u18 -> Rabs (dR y - y0) <= cy * Y * u18 ->
  cx * (1 + cy * u18) + cy + 1 / 2 <= K ->
  Rabs (dR (d_mul x y) - x0 * y0) <= K * (X * Y) * u18.
Proof.
  intros x y x0 y0 X Y cx cy K Hx0 Hy0 HX HY Hcx Hcy Hx Hy HK.
  pose proof u18_pos as Hu. pose proof (dR_mul_err x y) as HM.
  set (ex := dR x - x0) in *. set (ey := dR y - y0) in *. set (em := dR (d_mul x y) - dR x * dR y) in *.
  replace (dR (d_mul x y) - x0 * y0) with (em + (ex * dR y + x0 * ey)) by (unfold em, ex, ey; ring).
  assert (HB : Rabs (dR y) <= Y + cy * Y * u18).
  { replace (dR y) with (y0 + ey) by (unfold ey; ring). eapply Rle_trans; [apply Rabs_triang|].
    rewrite (Rabs_pos_eq y0) by lra. lra. }
  assert (H1 : Rabs (ex * dR y) <= cx * X * u18 * (Y + cy * Y * u18)).
  { rewrite Rabs_mult. apply Rmult_le_compat; try apply Rabs_pos; assumption. }
  assert (H2 : Rabs (x0 * ey) <= X * (cy * Y * u18)).
  { rewrite Rabs_mult, (Rabs_pos_eq x0) by lra. apply Rmult_le_compat; try lra. apply Rabs_pos. }
  assert (HXY : 1 <= X * Y) by nra.
  assert (H3 : (cx * (1 + cy * u18) + cy + 1 / 2) * (X * Y) * u18 <= K * (X * Y) * u18).
  { apply Rmult_le_compat_r; [lra|]. apply Rmult_le_compat_r; lra. }
  eapply Rle_trans; [apply Rabs_triang|]. eapply Rle_trans; [apply Rplus_le_compat_l, Rabs_triang|].
  assert (H4 : u18 / 2 <= 1 / 2 * (X * Y) * u18) by nra.
  eapply Rle_trans; [|exact H3].
  replace ((cx * (1 + cy * u18) + cy + 1 / 2) * (X * Y) * u18)
    with (1 / 2 * (X * Y) * u18 + (cx * X * u18 * (Y + cy * Y * u18) + X * (cy * Y * u18))) by ring.
  lra.
Qed.

(* (2n)^2 ulp <= 1/2 for n <= 2^28 *)
Lemma second_order_small : forall p q, 0 <= p <= 2 ^ 29 -> 0 <= q <= 2 ^ 29 -> p * q * u18 <= 1 / 2.
Proof.
  intros p q Hp Hq. pose proof u18_pos as Hu.
  assert (H : p * q <= 2 ^ 29 * 2 ^ 29) by (apply Rmult_le_compat; lra).
  assert (Hu' : 2 ^ 29 * 2 ^ 29 * u18 <= 1 / 2) by (unfold u18; rewrite T18_val; lra).
  nra.
Qed.

Section Power.
  Variable base : Z.
  Hypothesis Hbase : (0 < base)%Z.
  Let b := dR base.
  Let M := Rmax 1 b.

  Lemma b_pos : 0 < b.
  Proof. unfold b. rewrite dR_eq. apply Rmult_lt_0_compat; [apply IZR_lt; assumption|apply u18_pos]. Qed.
  Lemma M_ge1 : 1 <= M. Proof. apply Rmax_l. Qed.
  Lemma b_le_M : b <= M. Proof. apply Rmax_r. Qed.
  Lemma pow_b_range : forall k, 0 <= b ^ k <= M ^ k.
  Proof.
    intros k. pose proof b_pos. split; [left; apply pow_lt; assumption|].
    apply pow_incr. split; [lra|apply b_le_M].
  Qed.
  Lemma pow_M_ge1 : forall k, 1 <= M ^ k.
  Proof. intros k. apply pow_R1_Rle, M_ge1. Qed.

  Variable n : Z.
  Hypothesis Hn : (0 < n <= n_max)%Z.

  (* d ~ b^m, tmp ~ b^l, remaining exponent i: n = m i + l *)
  Definition pinv (d tmp i : Z) (m l : nat) : Prop :=
    (1 <= i)%Z /\ (1 <= m)%nat /\ (Z.of_nat m * i + Z.of_nat l = n)%Z /\
    Rabs (dR d - b ^ m) <= (2 * INR m - 1) * M ^ m * u18 /\
    Rabs (dR tmp - b ^ l) <= (2 * INR l) * M ^ l * u18.

  Lemma INR_bound : forall k : nat, (Z.of_nat k <= n)%Z -> 0 <= INR k <= 2 ^ 28.
  Proof.
    intros k Hk. split; [apply pos_INR|]. rewrite INR_IZR_INZ.
    replace (2 ^ 28) with (IZR n_max) by (unfold n_max; rewrite pow_IZR; reflexivity).
    apply IZR_le. lia.
  Qed.

  Lemma power_loop_bound : forall fuel d tmp i m l d' tmp', pinv d tmp i m l ->
    dc_power_loop fuel d tmp i = Ok (d', tmp') ->
    exists m' l', pinv d' tmp' 1 m' l'.
  Proof.
    induction fuel as [|f IH]; intros d tmp i m l d' tmp' HI H.
    - cbn [dc_power_loop] in H. destruct (Z.ltb_spec 1 i) as [Hi|Hi]; [discriminate H|].
      inversion H; subst d' tmp'. destruct HI as (Hi1 & HI). assert (i = 1%Z) by lia. subst i.
      exists m, l. split; [lia|exact HI].
    - cbn [dc_power_loop] in H. destruct (Z.ltb_spec 1 i) as [Hi|Hi].
      2:{ inversion H; subst d' tmp'. destruct HI as (Hi1 & HI). assert (i = 1%Z) by lia. subst i.
          exists m, l. split; [lia|exact HI]. }
      destruct HI as (_ & Hm & Hn' & Hd & Ht).
      assert (Ei : (i = 2 * Z.quot i 2 + (if Z.odd i then 1 else 0))%Z).
      { rewrite Z.quot_div_nonneg by lia. rewrite <- Z.div2_div. pose proof (Z.div2_odd i) as E. destruct (Z.odd i); simpl Z.b2z in E; lia. }
      assert (Hq : (1 <= Z.quot i 2)%Z) by (destruct (Z.odd i); lia).
      assert (Hmn : (Z.of_nat m <= n)%Z) by nia.
      assert (Hln : (Z.of_nat l <= n)%Z) by nia.
      pose proof (INR_bound m Hmn) as HmR. pose proof (INR_bound l Hln) as HlR.
      assert (Hm1 : 1 <= INR m) by (apply (le_INR 1); assumption).
      pose proof (pow_b_range m) as Hbm. pose proof (pow_b_range l) as Hbl.
      pose proof (pow_M_ge1 m) as HMm. pose proof (pow_M_ge1 l) as HMl.
      pose proof u18_pos as Hu.
      (* the new d = d*d *)
      assert (Hdd : forall dd, dc_mul d d = Ok dd ->
                Rabs (dR dd - b ^ (2 * m)) <= (2 * INR (2 * m) - 1) * M ^ (2 * m) * u18).
      { intros dd E. unfold dc_mul in E. apply d_check_ok in E. subst dd.
        replace (2 * m)%nat with (m + m)%nat by lia. rewrite !pow_add, plus_INR.
        apply (mul_round_err d d (b ^ m) (b ^ m) (M ^ m) (M ^ m) (2 * INR m - 1) (2 * INR m - 1)); try assumption; try lra.
        pose proof (second_order_small (2 * INR m - 1) (2 * INR m - 1) ltac:(lra) ltac:(lra)). nra. }
      (* the new tmp *)
      assert (Htt : forall tt, dc_mul tmp d = Ok tt ->
                Rabs (dR tt - b ^ (l + m)) <= (2 * INR (l + m)) * M ^ (l + m) * u18).
      { intros tt E. unfold dc_mul in E. apply d_check_ok in E. subst tt.
        rewrite !pow_add, plus_INR.
        apply (mul_round_err tmp d (b ^ l) (b ^ m) (M ^ l) (M ^ m) (2 * INR l) (2 * INR m - 1)); try assumption; try lra.
        pose proof (second_order_small (2 * INR l) (2 * INR m - 1) ltac:(lra) ltac:(lra)). nra. }
      destruct (Z.odd i) eqn:Eodd.
      + destruct (dc_mul tmp d) as [tt|] eqn:E1; [|discriminate H]. cbn [bind] in H.
        destruct (dc_mul d d) as [dd|] eqn:E2; [|discriminate H]. cbn [bind] in H.
        apply (IH dd tt (Z.quot i 2) (2 * m)%nat (l + m)%nat d' tmp'); [|exact H].
        split; [assumption|]. split; [lia|]. split; [rewrite !Nat2Z.inj_mul, Nat2Z.inj_add; simpl Z.of_nat; nia|].
        split; [apply Hdd; reflexivity|apply Htt; reflexivity].
      + cbn [bind] in H.
        destruct (dc_mul d d) as [dd|] eqn:E2; [|discriminate H]. cbn [bind] in H.
        apply (IH dd tmp (Z.quot i 2) (2 * m)%nat l d' tmp'); [|exact H].
        split; [assumption|]. split; [lia|]. split; [rewrite !Nat2Z.inj_mul; simpl Z.of_nat; nia|].
        split; [apply Hdd; reflexivity|exact Ht].
  Qed.

  Theorem dc_power_bound : forall ip, dc_power base n = Ok ip ->
    Rabs (dR ip - b ^ Z.to_nat n) <= 2 * IZR n * M ^ Z.to_nat n * u18.
  Proof.
    intros ip H. unfold dc_power in H. destruct (Z.eqb_spec n 0) as [|_]; [lia|].
    destruct (dc_power_loop 64 base P18 n) as [[d' tmp']|] eqn:EL; [|discriminate H]. cbn [bind] in H.
    pose proof u18_pos as Hu.
    assert (HI0 : pinv base P18 n 1 0).
    { split; [lia|]. split; [lia|]. split; [simpl Z.of_nat; lia|]. simpl INR. rewrite dR_P18. fold b. rewrite !pow_1, !pow_O.
      replace (b - b) with 0 by ring. replace (1 - 1) with 0 by ring. rewrite Rabs_R0.
      pose proof M_ge1. split; nra. }
    destruct (power_loop_bound 64 base P18 n 1 0 d' tmp' HI0 EL) as (m & l & _ & Hm & Hml & Hd & Ht).
    unfold dc_mul in H. apply d_check_ok in H. subst ip.
    assert (En : Z.to_nat n = (m + l)%nat) by lia. rewrite En, !pow_add.
    assert (Hmn : (Z.of_nat m <= n)%Z) by lia. assert (Hln : (Z.of_nat l <= n)%Z) by lia.
    pose proof (INR_bound m Hmn) as HmR. pose proof (INR_bound l Hln) as HlR.
    assert (Hm1 : 1 <= INR m) by (apply (le_INR 1); assumption).
    pose proof (pow_b_range m) as Hbm. pose proof (pow_b_range l) as Hbl.
    pose proof (pow_M_ge1 m) as HMm. pose proof (pow_M_ge1 l) as HMl.
    replace (2 * IZR n) with (2 * INR (m + l)).
    2:{ rewrite INR_IZR_INZ. f_equal. f_equal. lia. }
    rewrite plus_INR.
    apply (mul_round_err d' tmp' (b ^ m) (b ^ l) (M ^ m) (M ^ l) (2 * INR m - 1) (2 * INR l)); try assumption; try lra.
    pose proof (second_order_small (2 * INR m - 1) (2 * INR l) ltac:(lra) ltac:(lra)). nra.
  Qed.
End Power.
