(* C13 model of osmomath/sigfig_round.go SigFigRound(d Dec, tenToSigFig Int) Dec.  Definitions only. *)
From Coq Require Import ZArith Bool.
From Osmo Require Import Base.DecModel C13.Common Gen.C13_consts.
Open Scope Z_scope.

Definition point_one : Z := Z.quot P18 sigfig_point_one_div.          (* OneDec().QuoInt64(10) *)

(* for ; dTimesK.LT(pointOne); k += 1 { dTimesK.MulInt64Mut(10) }   (MulInt64Mut asserts the Dec range).
   A positive d needs at most 17 rounds, a negative d overflows within 96 (SigFigProofs.v): fuel 100 is never exhausted *)
Fixpoint sigfig_scale (fuel : nat) (d k : Z) : result (Z * Z) :=
  if d <? point_one then
    match fuel with
    | O => Err EFuel
    | S f => do d' <- dc_mul_int d sigfig_step; sigfig_scale f d' (k + 1)
    end
  else Ok (d, k).

Definition sigfig_round (d s : Z) : result Z :=
  if d =? 0 then Ok d else
  do (dk, k) <- sigfig_scale 100 d 0;
  do dks <- dc_mul_int dk s;                            (* dTimesK.MulInt(tenToSigFig) *)
  do n <- int_check (chop_round P18 dks);               (* .RoundInt(): bankers, then the 256-bit check of sdk Int *)
  let numerator := n * P18 in                           (* .ToLegacyDec() *)
  do tenk <- dc_power (sigfig_base * P18) k;            (* NewInt(10).ToLegacyDec().Power(k) *)
  do tk <- int_check (Z.quot tenk P18);                 (* .TruncateInt() *)
  do den <- int_check (s * tk);                         (* tenToSigFig.Mul(...) *)
  if den =? 0 then Err EDivZero else Ok (Z.quot numerator den).   (* numerator.QuoIntMut(denominator) *)
