(* C13 - real-analysis facts about the rational approximation of exp2.go, for the GENERATED coefficients
   (Gen/C13_consts.v), by Coq-Interval.  Uses the standard library's real numbers (classical axioms). *)
From Coq Require Import ZArith List Reals Lra.
From Interval Require Import Tactic.
From Osmo Require Import Base.DecModel Gen.C13_consts.
Import ListNotations.
Open Scope R_scope.

(* one unit in the last place of a BigDec, and the real value of a raw mantissa *)
Definition u36 : R := / IZR (10 ^ 36).
Definition bdR (z : Z) : R := IZR z * u36.

(* sum_j [c_j] * xi * x^j : the polynomial with raw coefficients cs, started at the power xi *)
Fixpoint polyR (cs : list Z) (x : R) (xi : R) : R :=
  match cs with
  | [] => 0
  | c :: r => bdR c * xi + polyR r x (xi * x)
  end.

Definition hR (x : R) : R := polyR exp2_num_coeffs x 1.      (* numerator h(x) *)
Definition pR (x : R) : R := polyR exp2_den_coeffs x 1.      (* denominator p(x) *)

Ltac expand_polys := unfold hR, pR, exp2_num_coeffs, exp2_den_coeffs, polyR, bdR, u36.

(* the approximation error of h/p against 2^x = exp(x ln 2) on [0,1], relative *)
Lemma exp2_rational_real : forall x, 0 <= x <= 1 ->
  Rabs (hR x / (pR x * exp (x * ln 2)) - 1) <= 1 / 10 ^ 20.
Proof.
  intros x Hx. expand_polys.
  interval with (i_taylor x, i_degree 30, i_prec 160, i_bisect x, i_depth 20).
Qed.

Lemma pR_bounds : forall x, 0 <= x <= 1 -> 7 / 10 <= pR x <= 101 / 100.
Proof. intros x Hx. expand_polys. interval with (i_bisect x, i_depth 12, i_prec 60). Qed.

Lemma hR_bounds : forall x, 0 <= x <= 1 -> 1 <= hR x <= 3 / 2.
Proof. intros x Hx. expand_polys. interval with (i_bisect x, i_depth 12, i_prec 160). Qed.
