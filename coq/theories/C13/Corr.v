(* C13 correspondence glue: one case = one call (op code, raw integer arguments) and the implementation's
   flattened observation; [model_obs] runs the model on the same arguments. *)
From Coq Require Import ZArith List Bool.
Import ListNotations.
From Osmo Require Import Base.Obs Base.DecModel C13.Common C13.Sqrt C13.SigFig C13.BinSearch C13.Exp2 C13.Log2 C13.Pow.
Open Scope Z_scope.

Record case := mkCase {
  c_op : Z;               (* function, numbered as in props/c13.py OPS *)
  c_args : list Z;        (* raw mantissas / integers *)
  c_expect : list Z }.    (* implementation: [0; value...] on success, [error enum] on error / panic *)

Definition flat_res (r : result Z) : list Z :=
  match r with Ok v => [0; v] | Err e => [err_code e] end.

Definition mk_tol (hasAdd add hasMul mul dir : Z) : tolerance :=
  mkTol (if hasAdd =? 0 then None else Some add) (if hasMul =? 0 then None else Some mul) dir.

Definition model_obs (c : case) : list Z :=
  match c_op c, c_args c with
  | 1, [d] => flat_res (monotonic_sqrt d)
  | 2, [d] => flat_res (monotonic_sqrt_bigdec d)
  | 3, [d; s] => flat_res (sigfig_round d s)
  | 4, [e; a; ha; ad; hm; mu; dir] => flat_res (compare_int (mk_tol ha ad hm mu dir) e a)
  | 5, [e; a; ha; ad; hm; mu; dir] => flat_res (compare_bigdec (mk_tol ha ad hm mu dir) e a)
  | 6, [e; a; ha; ad; hm; mu; dir] => flat_res (compare_dec (mk_tol ha ad hm mu dir) e a)
  | 7, [kind; p1; p2; p3; lo; hi; target; ha; ad; hm; mu; dir; maxit] =>
      flat_res (binary_search (search_fn_int kind p1 p2 p3) (iters_of maxit) lo hi target (mk_tol ha ad hm mu dir))
  | 8, [kind; p1; p2; p3; lo; hi; target; ha; ad; hm; mu; dir; maxit] =>
      flat_res (binary_search_bigdec (search_fn_bigdec kind p1 p2 p3) (iters_of maxit) lo hi target (mk_tol ha ad hm mu dir))
  | 9, [e] => flat_res (exp2 e)
  | 10, [x] => flat_res (log_base2 x)
  | 11, [x] => flat_res (ln_bigdec x)
  | 12, [x] => flat_res (tick_log x)
  | 13, [x; b] => flat_res (custom_base_log x b)
  | 14, [b; e] => flat_res (pow b e)
  | 15, [b; e; pr] => flat_res (pow_approx b e pr)
  | 16, [d; n] => flat_res (bdc_power_integer d n)
  | _, _ => [-999]
  end.

(* the implementation's failures carry a fine kind derived from the TEXT of the panic / error; a text the driver does not
   recognise is reported as the generic code 99 and is compatible with any failure the model predicts (the property requires a
   loud failure, not a particular message).  Value-versus-failure differences and differing recognised kinds are mismatches. *)
Definition generic_failure : Z := 99.
Definition model_failed (l : list Z) : bool :=
  match l with [k] => (0 <? k) && negb (k =? err_code EFuel) | _ => false end.
Definition case_ok (c : case) : bool :=
  match c_expect c with
  | [k] => if k =? generic_failure then model_failed (model_obs c) else zlist_eqb (model_obs c) (c_expect c)
  | _ => zlist_eqb (model_obs c) (c_expect c)
  end.
