(* C13 correspondence glue: one case = one call (op code, raw integer arguments) and the implementation's
   flattened observation; [model_obs] runs the model on the same arguments. *)
From Coq Require Import ZArith List Bool.
Import ListNotations.
From Osmo Require Import Base.Obs Base.DecModel C13.Common C13.Sqrt C13.SigFig.
Open Scope Z_scope.

Record case := mkCase {
  c_op : Z;               (* function, numbered as in props/c13.py OPS *)
  c_args : list Z;        (* raw mantissas / integers *)
  c_expect : list Z }.    (* implementation: [0; value...] on success, [error enum] on error / panic *)

Definition flat_res (r : result Z) : list Z :=
  match r with Ok v => [0; v] | Err e => [err_code e] end.

Definition model_obs (c : case) : list Z :=
  match c_op c, c_args c with
  | 1, [d] => flat_res (monotonic_sqrt d)
  | 2, [d] => flat_res (monotonic_sqrt_bigdec d)
  | 3, [d; s] => flat_res (sigfig_round d s)
  | _, _ => [-999]
  end.

Definition case_ok (c : case) : bool := zlist_eqb (model_obs c) (c_expect c).
