(* C13 - Pow / PowApprox: domain failures, exact special cases, and the refutation of the documented precision on the
   whole documented domain (finding F4) and of "fails loudly" for exponents <= -1 (finding F9).
   The integer lemmas are axiom-free; the refutations compare with Rpower and use the real-number axioms. *)
From Coq Require Import ZArith List Reals Lra Lia Bool.
From Interval Require Import Tactic.
From Osmo Require Import Base.DecModel C13.Common C13.Pow Gen.C13_consts.
Open Scope Z_scope.

(* ---- fail loudly (integers only) ---- *)
Lemma pow_base_nonpositive : forall base exp, base <= 0 -> pow base exp = Err EPowBaseLE0.
Proof. intros base exp H. unfold pow. destruct (Z.ltb_spec 0 base); [lia|reflexivity]. Qed.
Lemma pow_two_val : pow_two = 2 * P18. Proof. vm_compute. reflexivity. Qed.
Lemma pow_base_ge_two : forall base exp, 2 * P18 <= base -> pow base exp = Err EPowBaseGE2.
Proof.
  intros base exp H. unfold pow. assert (0 < P18) by (vm_compute; reflexivity).
  destruct (Z.ltb_spec 0 base); [|lia]. cbn [negb]. rewrite pow_two_val.
  destruct (Z.geb_spec base (2 * P18)); [reflexivity|lia].
Qed.
Lemma pow_approx_base_nonpositive : forall base exp prec, base <= 0 -> pow_approx base exp prec = Err EPowBaseLE0.
Proof. intros base exp prec H. unfold pow_approx. destruct (Z.ltb_spec 0 base); [lia|reflexivity]. Qed.
Lemma pow_approx_exp_zero : forall base prec, 0 < base -> pow_approx base 0 prec = Ok P18.
Proof. intros base prec H. unfold pow_approx. destruct (Z.ltb_spec 0 base); [|lia]. reflexivity. Qed.

(* the series loop returns within powIterationLimit rounds: the model's own fuel is never what stops it *)
Lemma loop_pos_inl_count : forall (S R : Type) (step : S -> S + R) (cnt : S -> Z),
  (forall s s', step s = inl s' -> cnt s' = cnt s + 1) ->
  forall p s s', loop_pos p step s = inl s' -> cnt s' = cnt s + Z.pos p.
Proof.
  intros S R step cnt Hstep. induction p as [p IH|p IH|]; intros s s' H; cbn [loop_pos] in H.
  - destruct (step s) as [s1|] eqn:E1; [|discriminate]. destruct (loop_pos p step s1) as [s2|] eqn:E2; [|discriminate].
    apply Hstep in E1. apply IH in E2. apply IH in H. lia.
  - destruct (loop_pos p step s) as [s1|] eqn:E1; [|discriminate]. apply IH in E1. apply IH in H. lia.
  - apply Hstep in H. lia.
Qed.

Definition st_i (st : pow_state) : Z := let '(i, _, _, _) := st in i.

Lemma pow_step_inl : forall exp x xneg prec st st', pow_step exp x xneg prec st = inl st' ->
  st_i st' = st_i st + 1 /\ st_i st <> pow_iteration_limit.
Proof.
  intros exp x xneg prec [[[i term] sum] neg] st' H. unfold pow_step in H.
  destruct (term <? prec); [discriminate|]. destruct (abs_diff_sign _ _) as [[c cneg]|]; [|discriminate].
  destruct (do t1 <- dc_mul term c; do t2 <- dc_mul t1 x; dc_quo t2 (i * P18)) as [term'|]; [|discriminate].
  destruct (term' =? 0); [discriminate|].
  destruct (if xorb (xorb neg xneg) cneg then dc_sub sum term' else dc_add sum term') as [sum'|]; [|discriminate].
  destruct (i =? pow_iteration_limit) eqn:E; [discriminate|]. apply Z.eqb_neq in E. inversion H; subst. cbn [st_i]. split; [reflexivity|assumption].
Qed.

Lemma pow_series_never_out_of_fuel : forall exp x xneg prec,
  forall st, loop_pos (Z.to_pos pow_iteration_limit) (pow_step exp x xneg prec) (1, P18, P18, false) <> inl st.
Proof.
  intros exp x xneg prec st H.
  assert (Hlim : 0 < pow_iteration_limit) by (vm_compute; reflexivity).
  (* after k rounds that all continued, the counter is 1 + k and round k itself had counter <> limit: take k = limit *)
  assert (Hgen : forall p s s', loop_pos p (pow_step exp x xneg prec) s = inl s' ->
                 st_i s' = st_i s + Z.pos p /\ (forall j, st_i s <= j < st_i s + Z.pos p -> j <> pow_iteration_limit)).
  { induction p as [p IH|p IH|]; intros s s' Hl; cbn [loop_pos] in Hl.
    - destruct (pow_step exp x xneg prec s) as [s1|] eqn:E1; [|discriminate].
      destruct (loop_pos p _ s1) as [s2|] eqn:E2; [|discriminate].
      apply pow_step_inl in E1. destruct E1 as [A1 B1]. apply IH in E2. destruct E2 as [A2 B2]. apply IH in Hl. destruct Hl as [A3 B3].
      split; [lia|]. intros j Hj. destruct (Z.eq_dec j (st_i s)) as [->|]; [assumption|].
      destruct (Z_lt_le_dec j (st_i s1 + Z.pos p)); [apply B2; lia|apply B3; lia].
    - destruct (loop_pos p _ s) as [s1|] eqn:E1; [|discriminate]. apply IH in E1. destruct E1 as [A1 B1]. apply IH in Hl. destruct Hl as [A2 B2].
      split; [lia|]. intros j Hj. destruct (Z_lt_le_dec j (st_i s + Z.pos p)); [apply B1; lia|apply B2; lia].
    - apply pow_step_inl in Hl. destruct Hl as [A B]. split; [lia|]. intros j Hj. assert (j = st_i s) by lia. subst. assumption. }
  apply Hgen in H. destruct H as [_ H]. cbn [st_i] in H.
  apply (H pow_iteration_limit); [|reflexivity]. rewrite Z2Pos.id by assumption. lia.
Qed.

(* an exponent without fractional part is the LegacyDec integer power, nothing else *)
Lemma pow_integer_exponent : forall base n, 0 < base < 2 * P18 -> 0 <= n < 2 ^ 63 ->
  pow base (n * P18) = dc_power base n.
Proof.
  intros base n Hb Hn. unfold pow. assert (HP : 0 < P18) by (vm_compute; reflexivity).
  destruct (Z.ltb_spec 0 base); [|lia]. cbn [negb]. rewrite pow_two_val.
  destruct (Z.geb_spec base (2 * P18)); [lia|].
  unfold d_truncate_dec, d_truncate_int64. rewrite !Z.quot_mul by lia.
  unfold dc_sub. rewrite Z.sub_diag. replace (d_check 0) with (Ok 0) by reflexivity. cbn [bind].
  destruct (Z.leb_spec (- 2 ^ 63) n); [|lia]. destruct (Z.ltb_spec n (2 ^ 63)); [|lia]. cbn [andb bind].
  destruct (Z.ltb_spec n 0); [lia|].
  destruct (dc_power base n); reflexivity.
Qed.

(* ---- refutations against the real power function ---- *)
Open Scope R_scope.
Definition dR (z : Z) : R := IZR z / 10 ^ 18.

(* the property as stated for Pow on its documented domain 0 < base < 2 with a fractional exponent:
   "fractional power to the documented power precision" 10^-8 *)
Definition C13_pow_full_statement : Prop :=
  forall base exp r, (0 < base < 2 * P18)%Z -> (0 <= exp < P18)%Z -> pow base exp = Ok r ->
  Rabs (dR r - Rpower (dR base) (dR exp)) <= 1 / 10 ^ 8.

(* F4: Pow(0.3, 0.3) = 0.696845320001282408, but 0.3^0.3 = 0.69684530193594...: off by 1.8e-8
   (further from the truth for smaller bases: Pow(0.001, 0.1) is off by 8.7e-6) *)
Lemma pow_full_refuted : ~ C13_pow_full_statement.
Proof.
  intros H. specialize (H (3 * 10 ^ 17)%Z (3 * 10 ^ 17)%Z 696845320001282408%Z).
  assert (E : pow (3 * 10 ^ 17) (3 * 10 ^ 17) = Ok 696845320001282408%Z) by (vm_compute; reflexivity).
  specialize (H ltac:(vm_compute; split; reflexivity) ltac:(vm_compute; split; [discriminate|reflexivity]) E).
  revert H. unfold dR, Rpower. apply Rlt_not_le.
  interval with (i_prec 100).
Qed.

(* F9: "outside the domain fail loudly instead of returning a wrong number": Pow(0.5, -1) returns 0 (true value 2) *)
Definition C13_pow_negative_exponent_statement : Prop :=
  forall base exp r, (0 < base < 2 * P18)%Z -> (exp < 0)%Z -> pow base exp = Ok r ->
  Rabs (dR r - Rpower (dR base) (dR exp)) <= 1 / 10 ^ 8 * Rpower (dR base) (dR exp).
Lemma pow_negative_exponent_refuted : ~ C13_pow_negative_exponent_statement.
Proof.
  intros H. specialize (H (5 * 10 ^ 17)%Z (- P18)%Z 0%Z).
  assert (E : pow (5 * 10 ^ 17) (- P18) = Ok 0%Z) by (vm_compute; reflexivity).
  specialize (H ltac:(vm_compute; split; reflexivity) ltac:(vm_compute; reflexivity) E).
  revert H. unfold dR, Rpower, P18. apply Rlt_not_le.
  interval with (i_prec 100).
Qed.
