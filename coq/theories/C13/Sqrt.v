(* C13 model of osmomath/sqrt.go: MonotonicSqrt (Dec, 18 decimals) and MonotonicSqrtBigDec (36 decimals).
   Go: r = isqrt(d * 10^k) (big.Int.Sqrt = floor); if r*r < d*10^k then r++.  Definitions only. *)
From Coq Require Import ZArith Bool.
From Osmo Require Import Base.DecModel C13.Common Gen.C13_consts.
Open Scope Z_scope.

(* the shared body of MonotonicSqrtMut / MonotonicSqrtBigDecMut on the raw mantissa *)
Definition sqrt_round_up (scale v : Z) : Z :=
  let shifted := v * scale in
  let r := Z.sqrt shifted in
  if r * r <? shifted then r + 1 else r.

Definition monotonic_sqrt (d : Z) : result Z :=
  if d <? 0 then Err ENegSqrt else Ok (sqrt_round_up sqrt_scale_dec d).

Definition monotonic_sqrt_bigdec (d : Z) : result Z :=
  if d <? 0 then Err ENegSqrt else Ok (sqrt_round_up sqrt_scale_bigdec d).
