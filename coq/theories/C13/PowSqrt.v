(* C13 - the exponent-1/2 shortcut of PowApprox: LegacyDec.ApproxSqrt = ApproxRoot(2) (cosmossdk.io/math v1.5.3), a Newton
   iteration guess <- guess + trunc((d / guess - guess) / 2) from guess = 1, at most 300 rounds, stopping when the
   correction is at most one ulp.  For 1/2 <= d < 2:
     * one round is the real Newton step (g + d/g)/2 up to one ulp (rounded quotient, truncated halving);
     * after n >= 1 rounds  -2 ulp <= guess - sqrt d <= 2^-n + 4 ulp  (g' - s = (g - s)^2 / (2 g) + rounding);
     * when the loop stops because the correction is <= 1 ulp, |d/g - g| <= 4 ulp, hence |g - s| <= 4 ulp and the result is
       within 5 ulp; when it stops because the 300 rounds are used up, 2^-300 + 4 ulp <= 5 ulp.
   Result (approx_sqrt_bound): |ApproxSqrt(d) - sqrt d| <= 5e-18.  Reals axioms only. *)
From Coq Require Import ZArith Reals Lra Lia Bool.
From Osmo Require Import Base.DecModel C13.Common C13.Pow C13.RoundProofs C13.PowProofs C13.PowBound Gen.C13_consts.
Open Scope R_scope.

Lemma u18_small : u18 <= / 10 ^ 18.
Proof. unfold u18. rewrite T18_val. lra. Qed.
Lemma u18_le : u18 <= 1 / 1000.
Proof. unfold u18. rewrite T18_val. lra. Qed.

Lemma half_pow_300 : (1 / 2) ^ 300 <= u18.
Proof. unfold u18. rewrite T18_val. lra. Qed.

(* truncated halving *)
Lemma quot2_spec : forall z, (Z.abs (2 * Z.quot z 2 - z) <= 1)%Z /\ ((Z.abs (Z.quot z 2) <= 1)%Z -> (Z.abs z <= 3)%Z).
Proof.
  intros z. pose proof (Z.quot_rem' z 2) as E.
  assert (Hr : (Z.abs (Z.rem z 2) < 2)%Z) by (apply Z.rem_bound_abs; lia).
  split; lia.
Qed.

Section Sqrt.
  Variable d : Z.
  Hypothesis Hd1 : (P18 <= 2 * d)%Z.
  Hypothesis Hd2 : (d < 2 * P18)%Z.
  Let D := dR d.
  Let s := sqrt D.

  Lemma D_range : 1 / 2 <= D < 2.
  Proof.
    unfold D. split.
    - assert (H : 1 <= dR (2 * d)) by (rewrite <- dR_P18; apply dR_le; assumption).
      replace (dR (2 * d)) with (2 * dR d) in H by (rewrite !dR_eq, mult_IZR; ring). lra.
    - assert (H : dR d < dR (2 * P18)) by (apply dR_lt; assumption).
      replace (dR (2 * P18)) with 2 in H by (rewrite dR_mul_P18; reflexivity). exact H.
  Qed.

  Lemma s_sq : s * s = D.
  Proof. unfold s. apply sqrt_sqrt. pose proof D_range. lra. Qed.
  Lemma s_range : 7 / 10 <= s <= 3 / 2.
  Proof.
    pose proof D_range as HD. pose proof s_sq as Hs. assert (0 <= s) by (unfold s; apply sqrt_pos).
    split; nra.
  Qed.

  (* the real Newton step with a perturbation eps: error e -> e^2 / (2 g) + eps *)
  Lemma newton_identity : forall G eps, 0 < G -> (G + D / G) / 2 + eps - s = (G - s) * (G - s) / (2 * G) + eps.
  Proof. intros G eps HG. rewrite <- s_sq. field. lra. Qed.

  Definition sq_inv (n : nat) (g : Z) : Prop :=
    (0 < g)%Z /\ ((n = O /\ g = P18) \/ ((1 <= n)%nat /\ - (2 * u18) <= dR g - s <= (1 / 2) ^ n + 4 * u18)).

  Lemma sq_inv_next : forall n g g', sq_inv n g -> Rabs (dR g' - (dR g + D / dR g) / 2) <= u18 -> sq_inv (S n) g'.
  Proof.
    intros n g g' [Hg HI] Hstep.
    pose proof s_range as Hs. pose proof u18_pos as Hu. pose proof u18_le as Hu'.
    assert (HG : 0 < dR g) by (rewrite dR_eq; apply Rmult_lt_0_compat; [apply IZR_lt; assumption|assumption]).
    set (G := dR g) in *. set (eps := dR g' - (G + D / G) / 2) in *. apply Rabs_le_inv2 in Hstep.
    assert (E : dR g' - s = (G - s) * (G - s) / (2 * G) + eps).
    { rewrite <- newton_identity by assumption. unfold eps. ring. }
    assert (Hsq : 0 <= (G - s) * (G - s) / (2 * G)).
    { apply Rmult_le_pos; [exact (Rle_0_sqr (G - s))|]. left. apply Rinv_0_lt_compat. lra. }
    assert (Hup : dR g' - s <= (1 / 2) ^ S n + 4 * u18).
    { rewrite E. destruct HI as [[-> Eg]|[Hn HI]].
      - (* first round, from G = 1 *)
        assert (G = 1) by (unfold G; rewrite Eg; apply dR_P18). subst G. rewrite H in *.
        simpl pow. replace ((1 - s) * (1 - s) / (2 * 1)) with ((1 - s) * (1 - s) / 2) by field.
        assert ((1 - s) * (1 - s) <= 1 / 4) by nra. lra.
      - change ((1 / 2) ^ S n) with (1 / 2 * (1 / 2) ^ n).
        assert (Hp : 0 < (1 / 2) ^ n) by (apply pow_lt; lra).
        destruct (Rle_dec 0 (G - s)) as [Hpos|Hneg].
        + (* e >= 0: e^2 / (2G) <= e / 2 because e <= G *)
          assert ((G - s) * (G - s) / (2 * G) <= (G - s) / 2).
          { apply Rmult_le_reg_r with (r := 2 * G); [lra|]. unfold Rdiv at 1. rewrite Rmult_assoc, Rinv_l by lra. nra. }
          lra.
        + (* -2 ulp <= e < 0: e^2 / (2G) is negligible *)
          assert ((G - s) * (G - s) / (2 * G) <= u18).
          { apply Rmult_le_reg_r with (r := 2 * G); [lra|]. unfold Rdiv at 1. rewrite Rmult_assoc, Rinv_l by lra. nra. }
          lra. }
    assert (Hlo : - (2 * u18) <= dR g' - s) by (rewrite E; lra).
    split.
    - (* g' > 0 *)
      assert (0 < dR g') by lra. rewrite dR_eq in H.
      destruct (Z_lt_le_dec 0 g') as [|Hle]; [assumption|]. apply IZR_le in Hle. nra.
    - right. split; [lia|]. split; assumption.
  Qed.

  (* one round of the loop on a positive guess *)
  Lemma sqrt_round : forall f g r, (0 < g)%Z -> approx_sqrt_loop (S f) d g = Ok r ->
    exists g', Rabs (dR g' - (dR g + D / dR g) / 2) <= u18 /\
      ((Rabs (D / dR g - dR g) <= 4 * u18 /\ Rabs (dR g' - dR g) <= u18 /\ r = g') \/ approx_sqrt_loop f d g' = Ok r).
  Proof.
    intros f g r Hg H. cbn [approx_sqrt_loop] in H.
    assert (HP : (0 < P18)%Z) by (vm_compute; reflexivity).
    destruct (dc_power g 1) as [prev0|] eqn:E0; [|discriminate H]. apply dc_power_1 in E0. subst prev0. cbn [bind] in H.
    destruct (Z.eqb_spec g 0) as [|_]; [lia|].
    unfold dc_quo in H. destruct (Z.eqb_spec g 0) as [|_]; [lia|].
    destruct (d_check (d_quo d g)) as [q|] eqn:E1; [|discriminate H]. apply d_check_ok in E1. cbn [bind] in H.
    unfold dc_sub in H. destruct (d_check (q - g)) as [dl|] eqn:E2; [|discriminate H]. apply d_check_ok in E2. cbn [bind] in H.
    unfold dc_add in H. destruct (d_check (g + Z.quot dl 2)) as [g'|] eqn:E3; [|discriminate H]. apply d_check_ok in E3. cbn [bind] in H.
    destruct (dR_quo_err d g ltac:(lia) Hg) as [HQ _]. rewrite <- E1 in HQ. fold D in HQ.
    destruct (quot2_spec dl) as [Hq1 Hq2]. set (delta := Z.quot dl 2) in *.
    pose proof u18_pos as Hu.
    assert (Hdelta : Rabs (2 * dR delta - dR dl) <= u18).
    { apply IZR_le in Hq1. rewrite abs_IZR, minus_IZR, mult_IZR in Hq1. rewrite !dR_eq.
      replace (2 * (IZR delta * u18) - IZR dl * u18) with ((2 * IZR delta - IZR dl) * u18) by ring.
      rewrite Rabs_mult, (Rabs_pos_eq u18) by lra. simpl (IZR 2) in Hq1. nra. }
    assert (Edl : dR dl = dR q - dR g) by (rewrite E2; apply dR_sub).
    assert (Eg' : dR g' = dR g + dR delta) by (rewrite E3; apply dR_add).
    exists g'. apply Rabs_le_inv2 in HQ, Hdelta.
    split.
    - apply Rabs_le. lra.
    - destruct (Z.leb_spec (Z.abs delta) 1) as [Hle|Hgt].
      + left. inversion H; subst r. specialize (Hq2 Hle).
        assert (Hdl : Rabs (dR dl) <= 3 * u18).
        { rewrite dR_eq, Rabs_mult, (Rabs_pos_eq u18) by lra. apply IZR_le in Hq2. rewrite abs_IZR in Hq2. nra. }
        assert (Hde : Rabs (dR delta) <= u18).
        { rewrite dR_eq, Rabs_mult, (Rabs_pos_eq u18) by lra. apply IZR_le in Hle. rewrite abs_IZR in Hle. nra. }
        apply Rabs_le_inv2 in Hdl, Hde.
        split; [apply Rabs_le; lra|]. split; [apply Rabs_le; lra|reflexivity].
      + right. exact H.
  Qed.

  (* |D/G - G| <= 4 ulp pins G within 4 ulp of sqrt D *)
  Lemma close_of_residual : forall G, 0 < G -> Rabs (D / G - G) <= 4 * u18 -> Rabs (G - s) <= 4 * u18.
  Proof.
    intros G HG H. pose proof s_range as Hs. pose proof u18_pos as Hu.
    assert (E : D / G - G = (s - G) * ((s + G) / G)) by (rewrite <- s_sq; field; lra).
    rewrite E in H. clear E.
    assert (Hf : 1 <= (s + G) / G).
    { apply Rmult_le_reg_r with (r := G); [assumption|]. unfold Rdiv. rewrite Rmult_assoc, Rinv_l by lra. lra. }
    rewrite Rabs_mult, (Rabs_pos_eq ((s + G) / G)) in H by lra.
    replace (G - s) with (- (s - G)) by ring. rewrite Rabs_Ropp.
    pose proof (Rabs_pos (s - G)). nra.
  Qed.

  Lemma sqrt_loop_bound : forall fuel n g r, sq_inv n g -> (n + fuel = 300)%nat ->
    approx_sqrt_loop fuel d g = Ok r -> Rabs (dR r - s) <= 5 * u18.
  Proof.
    induction fuel as [|f IH]; intros n g r HI Hn H.
    - cbn [approx_sqrt_loop] in H. inversion H; subst r. destruct HI as [Hg [[-> _]|[_ HI]]]; [lia|].
      replace n with 300%nat in HI by lia. pose proof half_pow_300. pose proof u18_pos. apply Rabs_le. lra.
    - pose proof HI as [Hg _].
      destruct (sqrt_round f g r Hg H) as (g' & Hstep & [(Hres & Hclose & ->)|Hrec]).
      + assert (HG : 0 < dR g) by (rewrite dR_eq; apply Rmult_lt_0_compat; [apply IZR_lt; assumption|apply u18_pos]).
        pose proof (close_of_residual (dR g) HG Hres) as Hc.
        apply Rabs_le_inv2 in Hc, Hclose. apply Rabs_le. lra.
      + apply (IH (S n) g' r); [eapply sq_inv_next; eassumption|lia|assumption].
  Qed.
End Sqrt.

Theorem approx_sqrt_bound : forall d r, (P18 <= 2 * d)%Z -> (d < 2 * P18)%Z -> approx_sqrt d = Ok r ->
  Rabs (dR r - sqrt (dR d)) <= 5 * u18.
Proof.
  intros d r Hd1 Hd2 H. assert (HP : (0 < P18)%Z) by (vm_compute; reflexivity).
  unfold approx_sqrt in H. destruct (Z.ltb_spec d 0); [lia|].
  destruct (Z.eqb_spec d 0); [lia|]. cbn [orb] in H.
  destruct (Z.eqb_spec d P18) as [->|Hne].
  - inversion H; subst r. rewrite dR_P18, sqrt_1. replace (1 - 1) with 0 by ring. rewrite Rabs_R0. pose proof u18_pos. lra.
  - unfold approx_root_iterations in H.
    apply (sqrt_loop_bound d Hd1 Hd2 300 0 P18 r); [|reflexivity|assumption].
    split; [assumption|]. left. split; reflexivity.
Qed.

Lemma dR_one_half : dR pow_one_half = / 2.
Proof.
  rewrite dR_eq. unfold u18. rewrite T18_val.
  replace (IZR pow_one_half) with (5 * 10 ^ 17) by (rewrite pow_IZR, <- mult_IZR; apply f_equal; vm_compute; reflexivity).
  field.
Qed.

(* PowApprox with exponent exactly 1/2 *)
Theorem pow_approx_half_bound : forall base prec r, (P18 <= 2 * base)%Z -> (base < 2 * P18)%Z ->
  pow_approx base pow_one_half prec = Ok r ->
  Rabs (dR r - Rpower (dR base) (dR pow_one_half)) <= 5 * u18.
Proof.
  intros base prec r Hb1 Hb2 H. assert (HP : (0 < P18)%Z) by (vm_compute; reflexivity).
  unfold pow_approx in H. destruct (Z.ltb_spec 0 base); [|lia]. cbn [negb] in H.
  change (pow_one_half =? 0)%Z with false in H. rewrite Z.eqb_refl in H.
  destruct (approx_sqrt base) as [r0|] eqn:E; [|discriminate H]. inversion H; subst r0.
  rewrite dR_one_half, Rpower_sqrt.
  - apply approx_sqrt_bound; assumption.
  - rewrite dR_eq. apply Rmult_lt_0_compat; [apply IZR_lt; lia|apply u18_pos].
Qed.
