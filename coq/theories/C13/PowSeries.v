(* C13 - the real binomial series, as needed for the error bound of PowApprox (osmomath/math.go):
     for 0 <= a <= 1 and |x| < 1:   (1+x)^a = sum_n bc a n * x^n,   bc a 0 = 1, bc a (n+1) = bc a n * (a - n) / (n + 1)
   (proved here from Coquelicot's power series: radius of convergence >= 1 because |bc a n| <= 1, term-wise derivative,
   the ODE (1+x) S'(x) = a S(x), and the mean value theorem applied to S(x) * (1+x)^(-a)),
   and the two remainder bounds the implementation's stopping rule relies on:
     0 <= x < 1      : the terms alternate from n = 1 on with non-increasing magnitude: |remainder| <= |first omitted term|
     -1/2 <= x <= 0  : |t(n+1)| <= |t n| / 2 from n = 1 on:                            |remainder| <= 2 |first omitted term|.
   Uses the standard library's real numbers (classical axioms of Reals) and Coquelicot. No model here. *)
From Coq Require Import Reals Lra Lia Arith.
From Coquelicot Require Import Coquelicot.
Open Scope R_scope.

Fixpoint bc (a : R) (n : nat) : R :=
  match n with
  | O => 1
  | S m => bc a m * (a - INR m) / INR (S m)
  end.

Lemma bc_S : forall a n, bc a (S n) = bc a n * (a - INR n) / INR (S n).
Proof. reflexivity. Qed.

Lemma INR_S_pos : forall n, 0 < INR (S n).
Proof. intros n. apply lt_0_INR. lia. Qed.

Lemma bc_abs_le_1 : forall a n, 0 <= a <= 1 -> Rabs (bc a n) <= 1.
Proof.
  intros a n Ha. induction n as [|n IH].
  - simpl. rewrite Rabs_R1. lra.
  - rewrite bc_S. pose proof (INR_S_pos n) as Hn. pose proof (pos_INR n) as Hn0.
    unfold Rdiv. rewrite !Rabs_mult, (Rabs_pos_eq (/ INR (S n))) by (left; apply Rinv_0_lt_compat; assumption).
    assert (Hq : Rabs (a - INR n) * / INR (S n) <= 1).
    { apply Rmult_le_reg_r with (r := INR (S n)); [assumption|].
      rewrite Rmult_assoc, Rinv_l, Rmult_1_r, Rmult_1_l by lra.
      rewrite S_INR. apply Rabs_le. lra. }
    pose proof (Rabs_pos (bc a n)) as H0. pose proof (Rabs_pos (a - INR n)) as H1.
    rewrite Rmult_assoc. replace 1 with (1 * 1) by ring. apply Rmult_le_compat; try lra.
    apply Rmult_le_pos; [assumption|]. left. apply Rinv_0_lt_compat. assumption.
Qed.

Lemma bc_radius : forall a, 0 <= a <= 1 -> Rbar_le (Finite 1) (CV_radius (bc a)).
Proof.
  intros a Ha. destruct (CV_radius_bounded (bc a)) as [Hub _].
  apply Hub. exists 1. intros n. rewrite pow1, Rmult_1_r. apply bc_abs_le_1. assumption.
Qed.

Lemma bc_inside : forall a x, 0 <= a <= 1 -> Rabs x < 1 -> Rbar_lt (Finite (Rabs x)) (CV_radius (bc a)).
Proof.
  intros a x Ha Hx. eapply Rbar_lt_le_trans; [|apply bc_radius; assumption]. exact Hx.
Qed.

(* the differential equation of the series: (1 + x) S'(x) = a S(x) *)
Lemma bc_ode : forall a x, 0 <= a <= 1 -> Rabs x < 1 ->
  (1 + x) * PSeries (PS_derive (bc a)) x = a * PSeries (bc a) x.
Proof.
  intros a x Ha Hx.
  assert (Hin : Rbar_lt (Finite (Rabs x)) (CV_radius (bc a))) by (apply bc_inside; assumption).
  assert (Hd : ex_pseries (PS_derive (bc a)) x) by (apply ex_pseries_derive; assumption).
  rewrite Rmult_plus_distr_r, Rmult_1_l, <- PSeries_incr_1.
  rewrite <- PSeries_plus; [|assumption|apply ex_pseries_incr_1; assumption].
  rewrite <- PSeries_scal. apply PSeries_ext. intros n.
  unfold PS_plus, PS_scal, PS_derive.
  destruct n as [|n].
  - change (INR 1 * bc a 1 + 0 = a * bc a 0). simpl. field.
  - change (INR (S (S n)) * bc a (S (S n)) + INR (S n) * bc a (S n) = a * bc a (S n)).
    rewrite (bc_S a (S n)). pose proof (INR_S_pos (S n)). field. lra.
Qed.

(* (1+x)^a for 1 + x > 0 *)
Definition powR (x a : R) : R := exp (a * ln (1 + x)).
Lemma powR_Rpower : forall x a, powR x a = Rpower (1 + x) a.
Proof. reflexivity. Qed.

Lemma binom_aux_derive : forall a x, 0 <= a <= 1 -> Rabs x < 1 ->
  is_derive (fun t => PSeries (bc a) t * exp (- a * ln (1 + t))) x 0.
Proof.
  intros a x Ha Hx.
  assert (Hin : Rbar_lt (Finite (Rabs x)) (CV_radius (bc a))) by (apply bc_inside; assumption).
  assert (H1x : 0 < 1 + x) by (apply Rabs_def2 in Hx; lra).
  pose proof (is_derive_PSeries (bc a) x Hin) as HS.
  assert (HE : is_derive (fun t => exp (- a * ln (1 + t))) x (- a / (1 + x) * exp (- a * ln (1 + x)))).
  { auto_derive; [lra|]. field. lra. }
  pose proof (is_derive_mult _ _ x _ _ HS HE Rmult_comm) as HM.
  replace 0 with (PSeries (PS_derive (bc a)) x * exp (- a * ln (1 + x)) +
                  PSeries (bc a) x * (- a / (1 + x) * exp (- a * ln (1 + x)))); [exact HM|].
  pose proof (bc_ode a x Ha Hx) as Hode.
  replace (PSeries (PS_derive (bc a)) x) with (a * PSeries (bc a) x / (1 + x)).
  2:{ rewrite <- Hode. field. lra. }
  field. lra.
Qed.

Theorem binomial_series_identity : forall a x, 0 <= a <= 1 -> Rabs x < 1 ->
  PSeries (bc a) x = Rpower (1 + x) a.
Proof.
  intros a x Ha Hx.
  set (g := fun t => PSeries (bc a) t * exp (- a * ln (1 + t))).
  assert (Hx' : -1 < x < 1) by (apply Rabs_def2 in Hx; lra).
  assert (Hbetween : forall t, Rmin 0 x <= t <= Rmax 0 x -> Rabs t < 1).
  { intros t Ht. apply Rabs_def1; [destruct (Rmax_Rle 0 x t) as [H _]|destruct (Rmin_Rgt 0 x (-1)) as [_ H]].
    - unfold Rmax in Ht. destruct (Rle_dec 0 x); lra.
    - unfold Rmin in Ht. destruct (Rle_dec 0 x); lra. }
  destruct (MVT_gen g 0 x (fun _ => 0)) as [c [_ Hc]].
  - intros t Ht. apply binom_aux_derive; [assumption|]. apply Hbetween. lra.
  - intros t Ht. apply continuity_pt_filterlim. apply (@ex_derive_continuous R_AbsRing R_NormedModule g t). exists 0. apply binom_aux_derive; [assumption|].
    apply Hbetween. assumption.
  - unfold g in Hc. rewrite PSeries_0 in Hc. replace (bc a 0) with 1 in Hc by reflexivity.
    replace (1 + 0) with 1 in Hc by ring. rewrite ln_1, Rmult_0_r, exp_0 in Hc.
    assert (E : PSeries (bc a) x * exp (- a * ln (1 + x)) = 1) by lra.
    unfold Rpower.
    assert (E2 : exp (- a * ln (1 + x)) * exp (a * ln (1 + x)) = 1).
    { rewrite <- exp_plus. replace (- a * ln (1 + x) + a * ln (1 + x)) with 0 by ring. apply exp_0. }
    transitivity (PSeries (bc a) x * (exp (- a * ln (1 + x)) * exp (a * ln (1 + x)))); [rewrite E2; ring|].
    rewrite <- Rmult_assoc, E. ring.
Qed.
