(* C13 - the real binomial series, as needed for the error bound of PowApprox (osmomath/math.go):
     for 0 <= a <= 1 and |x| < 1:   (1+x)^a = sum_n bc a n * x^n,   bc a 0 = 1, bc a (n+1) = bc a n * (a - n) / (n + 1)
   (proved here from Coquelicot's power series: radius of convergence >= 1 because |bc a n| <= 1, term-wise derivative,
   the ODE (1+x) S'(x) = a S(x), and the mean value theorem applied to S(x) * (1+x)^(-a)),
   and the two remainder bounds the implementation's stopping rule relies on:
     0 <= x < 1      : the terms alternate from n = 1 on with non-increasing magnitude: |remainder| <= |first omitted term|
     -1/2 <= x <= 0  : |t(n+1)| <= |t n| / 2 from n = 1 on:                            |remainder| <= 2 |first omitted term|.
   Uses the standard library's real numbers (classical axioms of Reals) and Coquelicot. No model here. *)
From Coq Require Import Reals Lra Lia Arith.
From Coquelicot Require Import Coquelicot.
Open Scope R_scope.

Fixpoint bc (a : R) (n : nat) : R :=
  match n with
  | O => 1
  | S m => bc a m * (a - INR m) / INR (S m)
  end.

Lemma bc_S : forall a n, bc a (S n) = bc a n * (a - INR n) / INR (S n).
Proof. reflexivity. Qed.

Lemma INR_S_pos : forall n, 0 < INR (S n).
Proof. intros n. apply lt_0_INR. lia. Qed.

Lemma bc_abs_le_1 : forall a n, 0 <= a <= 1 -> Rabs (bc a n) <= 1.
Proof.
  intros a n Ha. induction n as [|n IH].
  - simpl. rewrite Rabs_R1. lra.
  - rewrite bc_S. pose proof (INR_S_pos n) as Hn. pose proof (pos_INR n) as Hn0.
    unfold Rdiv. rewrite !Rabs_mult, (Rabs_pos_eq (/ INR (S n))) by (left; apply Rinv_0_lt_compat; assumption).
    assert (Hq : Rabs (a - INR n) * / INR (S n) <= 1).
    { apply Rmult_le_reg_r with (r := INR (S n)); [assumption|].
      rewrite Rmult_assoc, Rinv_l, Rmult_1_r, Rmult_1_l by lra.
      rewrite S_INR. apply Rabs_le. lra. }
    pose proof (Rabs_pos (bc a n)) as H0. pose proof (Rabs_pos (a - INR n)) as H1.
    rewrite Rmult_assoc. replace 1 with (1 * 1) by ring. apply Rmult_le_compat; try lra.
    apply Rmult_le_pos; [assumption|]. left. apply Rinv_0_lt_compat. assumption.
Qed.

Lemma bc_radius : forall a, 0 <= a <= 1 -> Rbar_le (Finite 1) (CV_radius (bc a)).
Proof.
  intros a Ha. destruct (CV_radius_bounded (bc a)) as [Hub _].
  apply Hub. exists 1. intros n. rewrite pow1, Rmult_1_r. apply bc_abs_le_1. assumption.
Qed.

Lemma bc_inside : forall a x, 0 <= a <= 1 -> Rabs x < 1 -> Rbar_lt (Finite (Rabs x)) (CV_radius (bc a)).
Proof.
  intros a x Ha Hx. eapply Rbar_lt_le_trans; [|apply bc_radius; assumption]. exact Hx.
Qed.

(* the differential equation of the series: (1 + x) S'(x) = a S(x) *)
Lemma bc_ode : forall a x, 0 <= a <= 1 -> Rabs x < 1 ->
  (1 + x) * PSeries (PS_derive (bc a)) x = a * PSeries (bc a) x.
Proof.
  intros a x Ha Hx.
  assert (Hin : Rbar_lt (Finite (Rabs x)) (CV_radius (bc a))) by (apply bc_inside; assumption).
  assert (Hd : ex_pseries (PS_derive (bc a)) x) by (apply ex_pseries_derive; assumption).
  rewrite Rmult_plus_distr_r, Rmult_1_l, <- PSeries_incr_1.
  rewrite <- PSeries_plus; [|assumption|apply ex_pseries_incr_1; assumption].
  rewrite <- PSeries_scal. apply PSeries_ext. intros n.
  unfold PS_plus, PS_scal, PS_derive.
  destruct n as [|n].
  - change (INR 1 * bc a 1 + 0 = a * bc a 0). simpl. field.
  - change (INR (S (S n)) * bc a (S (S n)) + INR (S n) * bc a (S n) = a * bc a (S n)).
    rewrite (bc_S a (S n)). pose proof (INR_S_pos (S n)). field. lra.
Qed.

(* (1+x)^a for 1 + x > 0 *)
Definition powR (x a : R) : R := exp (a * ln (1 + x)).
Lemma powR_Rpower : forall x a, powR x a = Rpower (1 + x) a.
Proof. reflexivity. Qed.

Lemma binom_aux_derive : forall a x, 0 <= a <= 1 -> Rabs x < 1 ->
  is_derive (fun t => PSeries (bc a) t * exp (- a * ln (1 + t))) x 0.
Proof.
  intros a x Ha Hx.
  assert (Hin : Rbar_lt (Finite (Rabs x)) (CV_radius (bc a))) by (apply bc_inside; assumption).
  assert (H1x : 0 < 1 + x) by (apply Rabs_def2 in Hx; lra).
  pose proof (is_derive_PSeries (bc a) x Hin) as HS.
  assert (HE : is_derive (fun t => exp (- a * ln (1 + t))) x (- a / (1 + x) * exp (- a * ln (1 + x)))).
  { auto_derive; [lra|]. field. lra. }
  pose proof (is_derive_mult _ _ x _ _ HS HE Rmult_comm) as HM.
  replace 0 with (PSeries (PS_derive (bc a)) x * exp (- a * ln (1 + x)) +
                  PSeries (bc a) x * (- a / (1 + x) * exp (- a * ln (1 + x)))); [exact HM|].
  pose proof (bc_ode a x Ha Hx) as Hode.
  replace (PSeries (PS_derive (bc a)) x) with (a * PSeries (bc a) x / (1 + x)).
  2:{ rewrite <- Hode. field. lra. }
  field. lra.
Qed.

Theorem binomial_series_identity : forall a x, 0 <= a <= 1 -> Rabs x < 1 ->
  PSeries (bc a) x = Rpower (1 + x) a.
Proof.
  intros a x Ha Hx.
  set (g := fun t => PSeries (bc a) t * exp (- a * ln (1 + t))).
  assert (Hx' : -1 < x < 1) by (apply Rabs_def2 in Hx; lra).
  assert (Hbetween : forall t, Rmin 0 x <= t <= Rmax 0 x -> Rabs t < 1).
  { intros t Ht. apply Rabs_def1; [destruct (Rmax_Rle 0 x t) as [H _]|destruct (Rmin_Rgt 0 x (-1)) as [_ H]].
    - unfold Rmax in Ht. destruct (Rle_dec 0 x); lra.
    - unfold Rmin in Ht. destruct (Rle_dec 0 x); lra. }
  destruct (MVT_gen g 0 x (fun _ => 0)) as [c [_ Hc]].
  - intros t Ht. apply binom_aux_derive; [assumption|]. apply Hbetween. lra.
  - intros t Ht. apply continuity_pt_filterlim. apply (@ex_derive_continuous R_AbsRing R_NormedModule g t). exists 0. apply binom_aux_derive; [assumption|].
    apply Hbetween. assumption.
  - unfold g in Hc. rewrite PSeries_0 in Hc. replace (bc a 0) with 1 in Hc by reflexivity.
    replace (1 + 0) with 1 in Hc by ring. rewrite ln_1, Rmult_0_r, exp_0 in Hc.
    assert (E : PSeries (bc a) x * exp (- a * ln (1 + x)) = 1) by lra.
    unfold Rpower.
    assert (E2 : exp (- a * ln (1 + x)) * exp (a * ln (1 + x)) = 1).
    { rewrite <- exp_plus. replace (- a * ln (1 + x) + a * ln (1 + x)) with 0 by ring. apply exp_0. }
    transitivity (PSeries (bc a) x * (exp (- a * ln (1 + x)) * exp (a * ln (1 + x)))); [rewrite E2; ring|].
    rewrite <- Rmult_assoc, E. ring.
Qed.

(* ---------- terms, partial sums, remainders ---------- *)

(* n-th term of the series and the ratio of consecutive terms *)
Definition tm (a x : R) (n : nat) : R := bc a n * x ^ n.
Definition ratio (a x : R) (n : nat) : R := x * (a - INR n) / INR (S n).

Lemma tm_0 : forall a x, tm a x 0 = 1.
Proof. intros. unfold tm. simpl. ring. Qed.
Lemma tm_S : forall a x n, tm a x (S n) = tm a x n * ratio a x n.
Proof.
  intros a x n. unfold tm, ratio. rewrite bc_S. simpl pow. pose proof (INR_S_pos n). field. lra.
Qed.

(* partial sums 0..n *)
Definition psum (t : nat -> R) (n : nat) : R := sum_n t n.
Lemma psum_0 : forall t, psum t 0 = t O.
Proof. intros. unfold psum. apply sum_O. Qed.
Lemma psum_S : forall t n, psum t (S n) = psum t n + t (S n).
Proof. intros. unfold psum. rewrite sum_Sn. reflexivity. Qed.

Lemma binomial_series_lim : forall a x, 0 <= a <= 1 -> Rabs x < 1 ->
  is_lim_seq (psum (tm a x)) (Rpower (1 + x) a).
Proof.
  intros a x Ha Hx. rewrite <- binomial_series_identity by assumption.
  assert (H : ex_pseries (bc a) x) by (apply CV_radius_inside, bc_inside; assumption).
  apply PSeries_correct in H. apply is_pseries_R in H. exact H.
Qed.

(* segment t n + ... + t (n + j) *)
Fixpoint seg (t : nat -> R) (n j : nat) : R :=
  match j with
  | O => t n
  | S j' => t n + seg t (S n) j'
  end.

Lemma seg_last : forall t j n, seg t n (S j) = seg t n j + t (n + S j)%nat.
Proof.
  intros t j. induction j as [|j IH]; intros n.
  - simpl. replace (n + 1)%nat with (S n) by lia. ring.
  - change (seg t n (S (S j))) with (t n + seg t (S n) (S j)). rewrite IH.
    change (seg t n (S j)) with (t n + seg t (S n) j).
    replace (S n + S j)%nat with (n + S (S j))%nat by lia. ring.
Qed.

Lemma psum_seg : forall t n j, psum t (n + S j) = psum t n + seg t (S n) j.
Proof.
  intros t n j. induction j as [|j IH].
  - replace (n + 1)%nat with (S n) by lia. rewrite psum_S. reflexivity.
  - replace (n + S (S j))%nat with (S (n + S j)) by lia. rewrite psum_S, IH, seg_last.
    replace (S n + S j)%nat with (S (n + S j)) by lia. ring.
Qed.

(* a bound on every finite segment after n bounds the remainder *)
Lemma remainder_le : forall t (l : R) n B, is_lim_seq (psum t) (Finite l) ->
  (forall j, Rabs (seg t (S n) j) <= B) -> Rabs (l - psum t n) <= B.
Proof.
  intros t l n B Hl Hseg.
  assert (H1 : is_lim_seq (fun m => Rabs (psum t m - psum t n)) (Rabs (l - psum t n))).
  { apply (is_lim_seq_abs _ (Finite (l - psum t n))).
    apply (is_lim_seq_minus _ _ (Finite l) (Finite (psum t n))); [exact Hl|apply is_lim_seq_const|].
    unfold is_Rbar_minus, is_Rbar_plus. simpl. reflexivity. }
  assert (H2 : Rbar_le (Finite (Rabs (l - psum t n))) (Finite B)).
  { apply (is_lim_seq_le_loc _ (fun _ => B) _ _ ) with (2 := H1) (3 := is_lim_seq_const B).
    exists (S n). intros m Hm. replace m with (n + S (m - S n))%nat by lia.
    rewrite psum_seg. replace (psum t n + seg t (S n) (m - S n) - psum t n) with (seg t (S n) (m - S n)) by ring.
    apply Hseg. }
  exact H2.
Qed.

(* alternating segment with non-increasing magnitudes: between 0 and its first term *)
Lemma seg_alternating : forall t q j n,
  (forall k, (n <= k)%nat -> t (S k) = t k * q k /\ -1 <= q k <= 0) ->
  (0 <= seg t n j <= t n) \/ (t n <= seg t n j <= 0).
Proof.
  intros t q j. induction j as [|j IH]; intros n H.
  - simpl. destruct (Rle_dec 0 (t n)); [left|right]; lra.
  - change (seg t n (S j)) with (t n + seg t (S n) j).
    destruct (H n (le_n n)) as [E Hq].
    assert (H' : forall k, (S n <= k)%nat -> t (S k) = t k * q k /\ -1 <= q k <= 0) by (intros k Hk; apply H; lia).
    specialize (IH (S n) H'). rewrite E in IH.
    destruct (Rle_dec 0 (t n)) as [Hp|Hp]; [left|right]; destruct IH as [IH|IH]; nra.
Qed.

(* segment with terms shrinking by at least 1/2: at most twice its first term *)
Lemma seg_geometric : forall t j n,
  (forall k, (n <= k)%nat -> Rabs (t (S k)) <= Rabs (t k) / 2) ->
  Rabs (seg t n j) <= 2 * Rabs (t n) - Rabs (t (n + j)%nat).
Proof.
  intros t j. induction j as [|j IH]; intros n H.
  - simpl. replace (n + 0)%nat with n by lia. lra.
  - rewrite seg_last. eapply Rle_trans; [apply Rabs_triang|].
    specialize (IH n H). assert (Hh := H (n + j)%nat ltac:(lia)).
    replace (n + S j)%nat with (S (n + j)) by lia. lra.
Qed.

(* ---------- the two remainder bounds for 0 <= a <= 1 ---------- *)

Lemma ratio_pos_range : forall a x k, 0 <= a <= 1 -> 0 <= x <= 1 -> (1 <= k)%nat -> -1 <= ratio a x k <= 0.
Proof.
  intros a x k Ha Hx Hk. unfold ratio. pose proof (INR_S_pos k) as HS. rewrite S_INR in *.
  assert (Hk1 : 1 <= INR k) by (apply (le_INR 1); assumption).
  split.
  - apply Rmult_le_reg_r with (r := INR k + 1); [assumption|]. unfold Rdiv. rewrite Rmult_assoc, Rinv_l by lra. nra.
  - apply Rmult_le_reg_r with (r := INR k + 1); [assumption|]. unfold Rdiv. rewrite Rmult_assoc, Rinv_l by lra. nra.
Qed.

Lemma ratio_abs_half : forall a x k, 0 <= a <= 1 -> Rabs x <= 1 / 2 -> Rabs (ratio a x k) <= 1 / 2.
Proof.
  intros a x k Ha Hx. unfold ratio. pose proof (INR_S_pos k) as HS. rewrite S_INR in *.
  pose proof (pos_INR k) as Hk0.
  unfold Rdiv. rewrite !Rabs_mult, (Rabs_pos_eq (/ (INR k + 1))) by (left; apply Rinv_0_lt_compat; assumption).
  assert (Hq : Rabs (a - INR k) * / (INR k + 1) <= 1).
  { apply Rmult_le_reg_r with (r := INR k + 1); [assumption|]. rewrite Rmult_assoc, Rinv_l, Rmult_1_r, Rmult_1_l by lra.
    apply Rabs_le. lra. }
  pose proof (Rabs_pos x). pose proof (Rabs_pos (a - INR k)).
  assert (0 <= Rabs (a - INR k) * / (INR k + 1)).
  { apply Rmult_le_pos; [assumption|]. left. apply Rinv_0_lt_compat. assumption. }
  rewrite Rmult_assoc. nra.
Qed.

(* 0 <= x < 1: the remainder after n terms (n >= 0) is at most the first omitted term *)
Theorem binomial_remainder_pos : forall a x n, 0 <= a <= 1 -> 0 <= x < 1 ->
  Rabs (Rpower (1 + x) a - psum (tm a x) n) <= Rabs (tm a x (S n)).
Proof.
  intros a x n Ha Hx. apply remainder_le; [apply binomial_series_lim; [assumption|apply Rabs_def1; lra]|].
  intros j.
  destruct (seg_alternating (tm a x) (ratio a x) j (S n)) as [H|H].
  - intros k Hk. split; [apply tm_S|apply ratio_pos_range; [assumption|lra|lia]].
  - rewrite !Rabs_pos_eq; lra.
  - rewrite !Rabs_left1; lra.
Qed.

(* -1/2 <= x <= 0: at most twice the first omitted term *)
Theorem binomial_remainder_neg : forall a x n, 0 <= a <= 1 -> - (1 / 2) <= x <= 0 ->
  Rabs (Rpower (1 + x) a - psum (tm a x) n) <= 2 * Rabs (tm a x (S n)).
Proof.
  intros a x n Ha Hx. apply remainder_le; [apply binomial_series_lim; [assumption|apply Rabs_def1; lra]|].
  intros j. eapply Rle_trans; [apply (seg_geometric (tm a x) j (S n))|].
  - intros k Hk. rewrite tm_S, Rabs_mult.
    assert (Hr : Rabs (ratio a x k) <= 1 / 2) by (apply ratio_abs_half; [assumption|apply Rabs_le; lra]).
    pose proof (Rabs_pos (tm a x k)). pose proof (Rabs_pos (ratio a x k)). nra.
  - pose proof (Rabs_pos (tm a x (S n + j))). lra.
Qed.
