(* C13 model of osmomath/exp2.go: Exp2 and exp2ChebyshevRationalApprox (13-parameter rational approximation on [0,1]
   plus a left shift by the integer part).  Coefficients and maxSupportedExponent come from Gen/C13_consts.v.
   Definitions only. *)
From Coq Require Import ZArith Bool List.
Import ListNotations.
From Osmo Require Import Base.DecModel C13.Common Gen.C13_consts.
Open Scope Z_scope.

(* maxSupportedExponent = MustNewBigDecFromStr("2").PowerInteger(9) *)
Definition max_supported_exponent : result Z :=
  bdc_power_integer max_supported_exponent_base max_supported_exponent_power.

(* for i := 1; i < len(numerator); i++ { x_exp_i.MulMut(x); h_x.AddMut(num[i].Mul(x_exp_i)); p_x.AddMut(den[i].Mul(x_exp_i)) } *)
Fixpoint exp2_loop (cs : list (Z * Z)) (x xe h p : Z) : result (Z * Z) :=
  match cs with
  | [] => Ok (h, p)
  | (a, b) :: r =>
    do xe' <- bdc_mul xe x;
    do ta <- bdc_mul a xe';
    do h' <- bdc_add h ta;
    do tb <- bdc_mul b xe';
    do p' <- bdc_add p tb;
    exp2_loop r x xe' h' p'
  end.

Definition exp2_rational_approx_with (numc denc : list Z) (x : Z) : result Z :=
  if (x <? 0) || (x >? P36) then Err EExpContract
  else if x =? 0 then Ok P36
  else if x =? P36 then Ok two_bigdec
  else
    match numc, denc with
    | h0 :: nums, p0 :: dens =>
      do (h, p) <- exp2_loop (combine nums dens) x P36 h0 p0;
      bdc_quo h p                                             (* h_x.QuoMut(p_x) *)
    | _, _ => Err EFuel                                       (* shape excluded by the translator *)
    end.
Definition exp2_rational_approx : Z -> result Z :=
  exp2_rational_approx_with exp2_num_coeffs exp2_den_coeffs.

Definition exp2 (exponent : Z) : result Z :=
  if exponent <? 0 then Err ENegExponent else
  do mx <- max_supported_exponent;
  if Z.abs exponent >? mx then Err EExpTooLarge else
  let integerExponent := bd_truncate_dec exponent in
  do fractionalExponent <- bdc_sub exponent integerExponent;
  do fractionalResult <- exp2_rational_approx fractionalExponent;
  (* big.Int.Lsh by integerExponent.TruncateInt().Uint64(); no bit-length assertion afterwards *)
  Ok (Z.shiftl fractionalResult (bd_truncate_int integerExponent)).
