(* C13 - SigFigRound moves a value by at most half a unit of the last kept digit (integers only, axiom-free). *)
From Coq Require Import ZArith Lia Bool.
From Osmo Require Import Base.DecModel C13.Common C13.SigFig C13.RoundProofs Gen.C13_consts.
Open Scope Z_scope.

Lemma point_one_val : point_one = 10 ^ 17. Proof. vm_compute. reflexivity. Qed.
Lemma sigfig_step_val : sigfig_step = 10. Proof. reflexivity. Qed.
Lemma sigfig_base_val : sigfig_base = 10. Proof. reflexivity. Qed.
Lemma P18_val : P18 = 10 ^ 18. Proof. reflexivity. Qed.
Lemma d_upper_big : 10 ^ 19 < d_upper. Proof. vm_compute. reflexivity. Qed.

Lemma d_check_ok : forall z, - d_upper <= z <= d_upper -> d_check z = Ok z.
Proof.
  intros z [H1 H2]. unfold d_check, d_in_range.
  apply Z.leb_le in H1, H2. rewrite H1, H2. reflexivity.
Qed.
Lemma d_check_cases : forall z, d_check z = Ok z \/ d_check z = Err EOverflow.
Proof. intros z. unfold d_check. destruct (d_in_range z); auto. Qed.
Lemma int_check_cases : forall z, int_check z = Ok z \/ int_check z = Err EOverflow.
Proof. intros z. unfold int_check. destruct (int_fits z); auto. Qed.

(* the scaling loop on a positive d: stops after the least j with d*10^j >= 0.1, never overflows, never runs out of fuel *)
Lemma sigfig_scale_pos : forall fuel d k, 0 < d -> 10 ^ 17 <= d * 10 ^ Z.of_nat fuel ->
  exists j, 0 <= j <= Z.of_nat fuel /\ sigfig_scale fuel d k = Ok (d * 10 ^ j, k + j) /\
            10 ^ 17 <= d * 10 ^ j /\ (0 < j -> d * 10 ^ (j - 1) < 10 ^ 17).
Proof.
  induction fuel as [|f IH]; intros d k Hd Hf.
  - exists 0. simpl in Hf. rewrite Z.mul_1_r in Hf. cbn [sigfig_scale]. rewrite point_one_val.
    destruct (d <? 10 ^ 17) eqn:E; [apply Z.ltb_lt in E; lia|].
    rewrite Z.pow_0_r, Z.mul_1_r, Z.add_0_r. repeat split; lia.
  - cbn [sigfig_scale]. rewrite point_one_val. destruct (d <? 10 ^ 17) eqn:E.
    + apply Z.ltb_lt in E. unfold dc_mul_int. rewrite sigfig_step_val.
      rewrite d_check_ok by (pose proof d_upper_big; lia). cbn [bind].
      destruct (IH (d * 10) (k + 1)) as (j & Hj & Hs & Hlo & Hhi); [lia| |].
      * rewrite Nat2Z.inj_succ, Z.pow_succ_r in Hf by lia. lia.
      * exists (j + 1). rewrite Nat2Z.inj_succ.
        replace (d * 10 ^ (j + 1)) with (d * 10 * 10 ^ j) by (rewrite Z.pow_add_r by lia; lia).
        replace (k + (j + 1)) with (k + 1 + j) by lia.
        repeat split; try lia; try assumption.
        intros _. replace (j + 1 - 1) with j by lia.
        destruct (Z.eq_dec j 0) as [->|Hj0]; [rewrite Z.pow_0_r; lia|].
        specialize (Hhi ltac:(lia)).
        replace (d * 10 ^ j) with (d * 10 * 10 ^ (j - 1)); [assumption|].
        replace j with (j - 1 + 1) at 2 by lia. rewrite Z.pow_add_r by lia. lia.
    + apply Z.ltb_ge in E. exists 0. rewrite Z.pow_0_r, Z.mul_1_r, Z.add_0_r. repeat split; lia.
Qed.

(* a negative d: the loop can only end in the range panic *)
Lemma sigfig_scale_neg : forall fuel d k, d < 0 -> d * 10 ^ Z.of_nat fuel < - d_upper -> (0 < fuel)%nat ->
  sigfig_scale fuel d k = Err EOverflow.
Proof.
  induction fuel as [|f IH]; intros d k Hd Hf Hpos; [lia|].
  cbn [sigfig_scale]. rewrite point_one_val.
  destruct (d <? 10 ^ 17) eqn:E; [|apply Z.ltb_ge in E; lia].
  unfold dc_mul_int. rewrite sigfig_step_val. unfold d_check.
  destruct (d_in_range (d * 10)) eqn:R; [|reflexivity]. cbn [bind].
  unfold d_in_range in R. apply andb_true_iff in R. destruct R as [R1 R2]. apply Z.leb_le in R1, R2.
  rewrite Nat2Z.inj_succ, Z.pow_succ_r in Hf by lia.
  apply IH; [lia|lia|]. destruct f; [change (Z.of_nat 0) with 0 in Hf; rewrite Z.pow_0_r in Hf; lia|lia].
Qed.

Lemma sigfig_round_negative_fails : forall d s, d < 0 -> sigfig_round d s = Err EOverflow.
Proof.
  intros d s Hd. unfold sigfig_round. destruct (d =? 0) eqn:E; [apply Z.eqb_eq in E; lia|].
  rewrite sigfig_scale_neg; [reflexivity|assumption| |lia].
  assert (H : d_upper < 10 ^ Z.of_nat 100) by (vm_compute; reflexivity).
  assert (H0 : 0 < 10 ^ Z.of_nat 100) by (vm_compute; reflexivity). nia.
Qed.

Lemma sigfig_round_zero : forall s, sigfig_round 0 s = Ok 0.
Proof. reflexivity. Qed.

Lemma dc_power_ten : forall k, 0 <= k <= 17 -> dc_power (sigfig_base * P18) k = Ok (10 ^ k * P18).
Proof.
  intros k Hk.
  assert (H : k = 0 \/ k = 1 \/ k = 2 \/ k = 3 \/ k = 4 \/ k = 5 \/ k = 6 \/ k = 7 \/ k = 8 \/ k = 9 \/ k = 10 \/
              k = 11 \/ k = 12 \/ k = 13 \/ k = 14 \/ k = 15 \/ k = 16 \/ k = 17) by lia.
  repeat (destruct H as [->|H]; [vm_compute; reflexivity|]). subst k. vm_compute. reflexivity.
Qed.

Lemma pow10_pos : forall n, 0 <= n -> 0 < 10 ^ n.
Proof. intros; apply Z.pow_pos_nonneg; lia. Qed.

(* main bound: tenToSigFig = 10^s.  k = number of x10 scalings = least k with d*10^k >= 0.1;
   unit of the last kept digit = 10^18/(10^s*10^k) raw units *)
Lemma sigfig_round_bound : forall d s, 0 < d -> 0 <= s ->
  match sigfig_round d (10 ^ s) with
  | Ok r => exists k, 0 <= k <= 17 /\ 10 ^ 17 <= d * 10 ^ k /\ (0 < k -> d * 10 ^ (k - 1) < 10 ^ 17) /\
                      2 * (10 ^ s * 10 ^ k) * Z.abs (r - d) <= P18 /\
                      (s + k <= 18 -> exists m, r = m * 10 ^ (18 - s - k))
  | Err e => e = EOverflow
  end.
Proof.
  intros d s Hd Hs. unfold sigfig_round.
  destruct (d =? 0) eqn:E; [apply Z.eqb_eq in E; lia|]. clear E.
  destruct (sigfig_scale_pos 100 d 0 Hd) as (k & Hk & Hsc & Hlo & Hhi).
  { assert (H : 10 ^ 17 <= 10 ^ Z.of_nat 100) by (vm_compute; discriminate). nia. }
  assert (Hk17 : k <= 17).
  { destruct (Z_le_gt_dec k 17); [assumption|]. specialize (Hhi ltac:(lia)).
    assert (10 ^ 17 <= 10 ^ (k - 1)) by (apply Z.pow_le_mono_r; lia). nia. }
  rewrite Hsc. cbn [bind]. rewrite Z.add_0_l.
  pose proof (pow10_pos s Hs) as HS. pose proof (pow10_pos k ltac:(lia)) as HK.
  unfold dc_mul_int. destruct (d_check_cases (d * 10 ^ k * 10 ^ s)) as [-> | ->]; [|reflexivity]. cbn [bind].
  set (n := chop_round P18 (d * 10 ^ k * 10 ^ s)).
  destruct (int_check_cases n) as [-> | ->]; [|reflexivity]. cbn [bind].
  rewrite dc_power_ten by lia. cbn [bind].
  rewrite Z.quot_mul by (vm_compute; discriminate).
  destruct (int_check_cases (10 ^ k)) as [-> | ->]; [|reflexivity]. cbn [bind].
  destruct (int_check_cases (10 ^ s * 10 ^ k)) as [-> | ->]; [|reflexivity]. cbn [bind].
  destruct (10 ^ s * 10 ^ k =? 0) eqn:E; [apply Z.eqb_eq in E; nia|]. clear E.
  exists k. split; [lia|]. split; [assumption|]. split; [assumption|].
  destruct (Z_le_gt_dec (s + k) 18) as [Hsk|Hsk].
  - (* the kept digits end at or above the 18th decimal: the division is exact *)
    assert (HP : P18 = 10 ^ s * 10 ^ k * 10 ^ (18 - s - k)).
    { rewrite <- !Z.pow_add_r by lia. rewrite P18_val. f_equal. lia. }
    assert (Hq : Z.quot (n * P18) (10 ^ s * 10 ^ k) = n * 10 ^ (18 - s - k)).
    { rewrite HP. replace (n * (10 ^ s * 10 ^ k * 10 ^ (18 - s - k))) with (n * 10 ^ (18 - s - k) * (10 ^ s * 10 ^ k)) by ring.
      apply Z.quot_mul. nia. }
    rewrite Hq. split; [|intros _; exists n; reflexivity].
    pose proof (chop_round_P18_err (d * 10 ^ k * 10 ^ s)) as Herr. fold n in Herr.
    assert (Heq : n * P18 - d * 10 ^ k * 10 ^ s = 10 ^ s * 10 ^ k * (n * 10 ^ (18 - s - k) - d)) by (rewrite HP; ring).
    rewrite Heq, Z.abs_mul, (Z.abs_eq (10 ^ s * 10 ^ k)) in Herr by nia.
    rewrite <- Z.mul_assoc. exact Herr.
  - (* more digits requested than a Dec holds: nothing is rounded away *)
    assert (HD : d * 10 ^ k * 10 ^ s = d * 10 ^ (s + k - 18) * P18).
    { rewrite P18_val. rewrite <- !Z.mul_assoc. f_equal. rewrite <- !Z.pow_add_r by lia. f_equal. lia. }
    assert (Hn : n = d * 10 ^ (s + k - 18)).
    { unfold n. rewrite HD. apply chop_round_exact. vm_compute. reflexivity. }
    assert (Hq : Z.quot (n * P18) (10 ^ s * 10 ^ k) = d).
    { rewrite Hn, <- HD. replace (d * 10 ^ k * 10 ^ s) with (d * (10 ^ s * 10 ^ k)) by ring. apply Z.quot_mul. nia. }
    rewrite Hq. split; [|intros; lia].
    rewrite Z.sub_diag. simpl Z.abs. rewrite Z.mul_0_r. vm_compute. discriminate.
Qed.

(* ... and inside the representable range the function does return *)
Lemma sigfig_round_ok : forall d s, 0 < d -> 0 <= s <= 58 -> d * 10 ^ s <= 2 ^ 250 * P18 ->
  exists r, sigfig_round d (10 ^ s) = Ok r.
Proof.
  intros d s Hd Hs Hr. unfold sigfig_round.
  destruct (d =? 0) eqn:E; [apply Z.eqb_eq in E; lia|]. clear E.
  destruct (sigfig_scale_pos 100 d 0 Hd) as (k & Hk & Hsc & Hlo & Hhi).
  { assert (H : 10 ^ 17 <= 10 ^ Z.of_nat 100) by (vm_compute; discriminate). nia. }
  assert (Hk17 : k <= 17).
  { destruct (Z_le_gt_dec k 17); [assumption|]. specialize (Hhi ltac:(lia)).
    assert (10 ^ 17 <= 10 ^ (k - 1)) by (apply Z.pow_le_mono_r; lia). nia. }
  rewrite Hsc. cbn [bind]. rewrite Z.add_0_l.
  pose proof (pow10_pos s ltac:(lia)) as HS. pose proof (pow10_pos k ltac:(lia)) as HK.
  assert (Hs58 : 10 ^ s <= 10 ^ 58) by (apply Z.pow_le_mono_r; lia).
  assert (Hk17' : 10 ^ k <= 10 ^ 17) by (apply Z.pow_le_mono_r; lia).
  (* d*10^k*10^s: either k = 0, bounded by the hypothesis, or d*10^k < 10^18 *)
  assert (Hdk : d * 10 ^ k * 10 ^ s <= 2 ^ 250 * P18).
  { destruct (Z.eq_dec k 0) as [->|Hk0]; [rewrite Z.pow_0_r, Z.mul_1_r; assumption|].
    specialize (Hhi ltac:(lia)).
    assert (d * 10 ^ k < 10 ^ 18).
    { replace k with (k - 1 + 1) by lia. rewrite Z.pow_add_r by lia. change (10 ^ 18) with (10 ^ 17 * 10 ^ 1). lia. }
    assert (10 ^ 18 * 10 ^ 58 <= 2 ^ 250 * P18) by (vm_compute; discriminate). nia. }
  unfold dc_mul_int. rewrite d_check_ok.
  2:{ assert (2 ^ 250 * P18 <= d_upper) by (vm_compute; discriminate). nia. }
  cbn [bind]. set (n := chop_round P18 (d * 10 ^ k * 10 ^ s)).
  assert (Hn : 0 <= n <= 2 ^ 250 + 1).
  { pose proof (chop_round_P18_err (d * 10 ^ k * 10 ^ s)) as Herr. fold n in Herr.
    pose proof (chop_round_P18_nonneg (d * 10 ^ k * 10 ^ s) ltac:(nia)) as Hnn. fold n in Hnn.
    split; [assumption|]. assert (0 < P18) by (vm_compute; reflexivity). nia. }
  assert (Hfit : forall z, 0 <= z <= 2 ^ 250 + 1 -> int_check z = Ok z).
  { intros z Hz. unfold int_check, int_fits, bitlen. destruct (z =? 0) eqn:E0; [reflexivity|].
    apply Z.eqb_neq in E0. rewrite Z.abs_eq by lia.
    assert (Z.log2 z < 252). { apply Z.log2_lt_pow2; [lia|]. assert (2 ^ 250 + 1 < 2 ^ 252) by (vm_compute; reflexivity). lia. }
    destruct (Z.log2 z + 1 <=? 256) eqn:E1; [reflexivity|apply Z.leb_gt in E1; lia]. }
  rewrite Hfit by assumption. cbn [bind].
  rewrite dc_power_ten by lia. cbn [bind]. rewrite Z.quot_mul by (vm_compute; discriminate).
  assert (H75 : 10 ^ 58 * 10 ^ 17 <= 2 ^ 250) by (vm_compute; discriminate).
  rewrite Hfit by nia. cbn [bind]. rewrite Hfit by nia. cbn [bind].
  destruct (10 ^ s * 10 ^ k =? 0) eqn:E; [apply Z.eqb_eq in E; nia|]. eexists; reflexivity.
Qed.
