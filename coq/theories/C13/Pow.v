(* C13 model of osmomath/math.go Pow / PowApprox / AbsDifferenceWithSign and of the LegacyDec.ApproxSqrt
   (cosmossdk.io/math v1.5.3 ApproxRoot(2), Newton iteration) that PowApprox uses for exponent 1/2.
   Definitions only. *)
From Coq Require Import ZArith Bool.
From Osmo Require Import Base.DecModel C13.Common Gen.C13_consts.
Open Scope Z_scope.

(* a loop of at most p rounds with early exit, by structural recursion on the binary numeral p
   (inl = state after the round, inr = the loop has returned) *)
Fixpoint loop_pos {S R : Type} (p : positive) (step : S -> S + R) (s : S) : S + R :=
  match p with
  | xH => step s
  | xO p' => match loop_pos p' step s with
             | inl s' => loop_pos p' step s'
             | inr r => inr r
             end
  | xI p' => match step s with
             | inl s1 => match loop_pos p' step s1 with
                         | inl s2 => loop_pos p' step s2
                         | inr r => inr r
                         end
             | inr r => inr r
             end
  end.

(* AbsDifferenceWithSign(a, b): (|a - b|, a < b), with the range assertion of SubMut / AddMut *)
Definition abs_diff_sign (a b : Z) : result (Z * bool) :=
  if a >=? b then do d <- dc_sub a b; Ok (d, false)
  else do d <- dc_add (- a) b; Ok (d, true).

(* LegacyDec.ApproxRoot(2) for a non-negative d; maxApproxRootIterations = 300 (dependency constant).
   Any panic inside is recovered by ApproxRoot and returned as an error, on which PowApprox panics: EOverflow here. *)
Definition approx_root_iterations : nat := 300.
Fixpoint approx_sqrt_loop (fuel : nat) (d guess : Z) : result Z :=
  match fuel with
  | O => Ok guess
  | S f =>
    do prev0 <- dc_power guess 1;                             (* guess.Power(root - 1) *)
    let prev := if prev0 =? 0 then 1 else prev0 in             (* smallestDec *)
    do q <- dc_quo d prev;                                     (* delta.Set(d).QuoMut(prev) *)
    do dl <- dc_sub q guess;                                   (* .SubMut(guess) *)
    let delta := Z.quot dl 2 in                                (* .QuoInt64Mut(2) *)
    do guess' <- dc_add guess delta;                           (* guess.AddMut(delta) *)
    if Z.abs delta <=? 1 then Ok guess' else approx_sqrt_loop f d guess'
  end.
Definition approx_sqrt (d : Z) : result Z :=
  if d <? 0 then                                              (* not reached from PowApprox (base > 0) *)
    do r <- approx_sqrt_loop approx_root_iterations (- d) P18; Ok (- r)
  else if (d =? 0) || (d =? P18) then Ok d
  else approx_sqrt_loop approx_root_iterations d P18.

(* state of PowApprox's series loop: i, term, sum, negative *)
Definition pow_state : Type := (Z * Z * Z * bool)%type.

Definition pow_step (exp x : Z) (xneg : bool) (precision : Z) (st : pow_state) : pow_state + result Z :=
  let '(i, term, sum, negative) := st in
  if term <? precision then inr (Ok sum)                       (* loop condition term.GTE(precision) *)
  else
    match abs_diff_sign exp ((i - 1) * P18) with               (* c, cneg := AbsDifferenceWithSign(a, bigK), bigK = i-1 *)
    | Err e => inr (Err e)
    | Ok (c, cneg) =>
      match (do t1 <- dc_mul term c; do t2 <- dc_mul t1 x; dc_quo t2 (i * P18)) with   (* term.MulMut(c).MulMut(x).QuoMut(bigK), bigK = i *)
      | Err e => inr (Err e)
      | Ok term' =>
        if term' =? 0 then inr (Ok sum)                        (* if term.IsZero() { break } *)
        else
          let negative' := xorb (xorb negative xneg) cneg in
          match (if negative' then dc_sub sum term' else dc_add sum term') with
          | Err e => inr (Err e)
          | Ok sum' =>
            if i =? pow_iteration_limit then inr (Err EPowIterLimit)
            else inl (i + 1, term', sum', negative')
          end
      end
    end.

Definition pow_approx (base exp precision : Z) : result Z :=
  if negb (0 <? base) then Err EPowBaseLE0
  else if exp =? 0 then Ok P18
  else if exp =? pow_one_half then
    match approx_sqrt base with Ok r => Ok r | Err _ => Err EOverflow end
  else
    do (x, xneg) <- abs_diff_sign base P18;
    match loop_pos (Z.to_pos pow_iteration_limit) (pow_step exp x xneg precision) (1, P18, P18, false) with
    | inr r => r
    | inl _ => Err EFuel                                       (* unreachable: round number powIterationLimit always returns *)
    end.

(* LegacyDec.TruncateInt64: panics unless the truncated value fits an int64 *)
Definition d_truncate_int64 (d : Z) : result Z :=
  let q := Z.quot d P18 in
  if (- 2 ^ 63 <=? q) && (q <? 2 ^ 63) then Ok q else Err EInt64Range.

Definition pow (base exp : Z) : result Z :=
  if negb (0 <? base) then Err EPowBaseLE0
  else if base >=? pow_two then Err EPowBaseGE2
  else
    let integer := d_truncate_dec exp in
    do fractional <- dc_sub exp integer;
    do i64 <- d_truncate_int64 integer;
    let u64 := if i64 <? 0 then i64 + 2 ^ 64 else i64 in       (* uint64(int64) *)
    do integerPow <- dc_power base u64;
    if fractional =? 0 then Ok integerPow
    else
      do fractionalPow <- pow_approx base fractional pow_precision;
      dc_mul integerPow fractionalPow.
