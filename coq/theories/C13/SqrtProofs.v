(* C13 - proofs about the monotone square roots (axiom-free, integers only). *)
From Coq Require Import ZArith Lia Bool.
From Osmo Require Import Base.DecModel C13.Common C13.Sqrt Gen.C13_consts.
Open Scope Z_scope.

Lemma sqrt_round_up_spec : forall scale v, 0 <= v * scale ->
  let r := sqrt_round_up scale v in
  0 <= r /\ v * scale <= r * r /\ (forall s, 0 <= s -> v * scale <= s * s -> r <= s).
Proof.
  intros scale v Hs. unfold sqrt_round_up. cbv zeta.
  pose proof (Z.sqrt_spec (v * scale) Hs) as [Hlo Hhi].
  pose proof (Z.sqrt_nonneg (v * scale)) as Hnn.
  set (q := Z.sqrt (v * scale)) in *.
  destruct (q * q <? v * scale) eqn:E.
  - apply Z.ltb_lt in E. repeat split; nia.
  - apply Z.ltb_ge in E. repeat split; nia.
Qed.

(* the value just below the result is too small: "least representable value whose square is at least the input" *)
Lemma sqrt_round_up_pred : forall scale v, 0 <= v * scale ->
  let r := sqrt_round_up scale v in 0 < r -> (r - 1) * (r - 1) < v * scale.
Proof.
  intros scale v Hs r Hr.
  destruct (sqrt_round_up_spec scale v Hs) as (_ & _ & Hleast). fold r in Hleast.
  destruct (Z_lt_le_dec ((r - 1) * (r - 1)) (v * scale)); [assumption|].
  specialize (Hleast (r - 1)). lia.
Qed.

Lemma sqrt_round_up_zero : forall scale, sqrt_round_up scale 0 = 0.
Proof. intros; unfold sqrt_round_up; reflexivity. Qed.

Lemma sqrt_round_up_mono : forall scale a b, 0 <= scale -> 0 <= a <= b ->
  sqrt_round_up scale a <= sqrt_round_up scale b.
Proof.
  intros scale a b Hsc [Ha Hab].
  assert (Ha' : 0 <= a * scale) by nia. assert (Hb' : 0 <= b * scale) by nia.
  destruct (sqrt_round_up_spec scale a Ha') as (_ & _ & Hleast).
  destruct (sqrt_round_up_spec scale b Hb') as (Hb0 & Hbsq & _).
  apply Hleast; [assumption|nia].
Qed.

Lemma sqrt_scale_dec_is_P18 : sqrt_scale_dec = P18.
Proof. reflexivity. Qed.
Lemma sqrt_scale_bigdec_is_P36 : sqrt_scale_bigdec = P36.
Proof. reflexivity. Qed.

(* --- MonotonicSqrt (Dec) --- *)
Lemma monotonic_sqrt_ok : forall d, 0 <= d -> exists r, monotonic_sqrt d = Ok r /\
  0 <= r /\ d * P18 <= r * r /\ (forall s, 0 <= s -> d * P18 <= s * s -> r <= s) /\ (0 < r -> (r - 1) * (r - 1) < d * P18).
Proof.
  intros d Hd. unfold monotonic_sqrt. destruct (d <? 0) eqn:E; [apply Z.ltb_lt in E; lia|].
  rewrite sqrt_scale_dec_is_P18. eexists; split; [reflexivity|].
  assert (H : 0 <= d * P18) by (unfold P18; lia).
  destruct (sqrt_round_up_spec P18 d H) as (A & B & C).
  repeat split; try assumption. apply sqrt_round_up_pred; assumption.
Qed.

Lemma monotonic_sqrt_neg : forall d, d < 0 -> monotonic_sqrt d = Err ENegSqrt.
Proof. intros d Hd. unfold monotonic_sqrt. apply Z.ltb_lt in Hd. rewrite Hd. reflexivity. Qed.

Lemma monotonic_sqrt_mono : forall d1 d2 r1 r2, d1 <= d2 ->
  monotonic_sqrt d1 = Ok r1 -> monotonic_sqrt d2 = Ok r2 -> r1 <= r2.
Proof.
  intros d1 d2 r1 r2 Hle. unfold monotonic_sqrt.
  destruct (d1 <? 0) eqn:E1; [discriminate|]. destruct (d2 <? 0) eqn:E2; [discriminate|].
  apply Z.ltb_ge in E1. intros H1 H2. inversion H1; inversion H2; subst.
  apply sqrt_round_up_mono; [rewrite sqrt_scale_dec_is_P18; unfold P18|]; lia.
Qed.

(* --- MonotonicSqrtBigDec --- *)
Lemma monotonic_sqrt_bigdec_ok : forall d, 0 <= d -> exists r, monotonic_sqrt_bigdec d = Ok r /\
  0 <= r /\ d * P36 <= r * r /\ (forall s, 0 <= s -> d * P36 <= s * s -> r <= s) /\ (0 < r -> (r - 1) * (r - 1) < d * P36).
Proof.
  intros d Hd. unfold monotonic_sqrt_bigdec. destruct (d <? 0) eqn:E; [apply Z.ltb_lt in E; lia|].
  rewrite sqrt_scale_bigdec_is_P36. eexists; split; [reflexivity|].
  assert (H : 0 <= d * P36) by (unfold P36; lia).
  destruct (sqrt_round_up_spec P36 d H) as (A & B & C).
  repeat split; try assumption. apply sqrt_round_up_pred; assumption.
Qed.

Lemma monotonic_sqrt_bigdec_neg : forall d, d < 0 -> monotonic_sqrt_bigdec d = Err ENegSqrt.
Proof. intros d Hd. unfold monotonic_sqrt_bigdec. apply Z.ltb_lt in Hd. rewrite Hd. reflexivity. Qed.

Lemma monotonic_sqrt_bigdec_mono : forall d1 d2 r1 r2, d1 <= d2 ->
  monotonic_sqrt_bigdec d1 = Ok r1 -> monotonic_sqrt_bigdec d2 = Ok r2 -> r1 <= r2.
Proof.
  intros d1 d2 r1 r2 Hle. unfold monotonic_sqrt_bigdec.
  destruct (d1 <? 0) eqn:E1; [discriminate|]. destruct (d2 <? 0) eqn:E2; [discriminate|].
  apply Z.ltb_ge in E1. intros H1 H2. inversion H1; inversion H2; subst.
  apply sqrt_round_up_mono; [rewrite sqrt_scale_bigdec_is_P36; unfold P36|]; lia.
Qed.
