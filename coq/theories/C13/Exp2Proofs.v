(* C13 - Exp2: fixed-point error analysis of the model against the real rational function, composition with the
   Interval lemma of Exp2Real.v, and the exact shift.  Result: |Exp2 e - 2^e| <= 10^-18 * 2^e on the whole domain.
   Uses the standard library's real numbers. *)
From Coq Require Import ZArith List Reals Lra Lia Bool.
From Interval Require Import Tactic.
From Osmo Require Import Base.DecModel C13.Common C13.Exp2 C13.RoundProofs C13.Exp2Real Gen.C13_consts.
Import ListNotations.
Open Scope R_scope.

Lemma Rabs_le_inv' : forall x y, Rabs x <= y -> - y <= x <= y.
Proof. intros x y. unfold Rabs. destruct (Rcase_abs x); lra. Qed.

Definition T36 : R := IZR (10 ^ 36).
Lemma T36_pos : 0 < T36. Proof. unfold T36. apply IZR_lt. reflexivity. Qed.
Lemma u36_T36 : u36 * T36 = 1.
Proof. unfold u36. fold T36. apply Rinv_l. pose proof T36_pos. lra. Qed.
Lemma u36_pos : 0 < u36. Proof. unfold u36. fold T36. apply Rinv_0_lt_compat, T36_pos. Qed.
Lemma T36_val : T36 = 10 ^ 36.
Proof. unfold T36. rewrite pow_IZR. reflexivity. Qed.
Lemma u36_val : u36 = / 10 ^ 36.
Proof. unfold u36. fold T36. rewrite T36_val. reflexivity. Qed.
Lemma IZR_P36 : IZR P36 = T36. Proof. reflexivity. Qed.

Lemma bdR_P36 : bdR P36 = 1.
Proof. unfold bdR. rewrite IZR_P36, Rmult_comm. apply u36_T36. Qed.
Lemma bdR_add : forall a b, bdR (a + b) = bdR a + bdR b.
Proof. intros. unfold bdR. rewrite plus_IZR. ring. Qed.
Lemma bdR_sub : forall a b, bdR (a - b) = bdR a - bdR b.
Proof. intros. unfold bdR. rewrite minus_IZR. ring. Qed.
Lemma bdR_0 : bdR 0 = 0. Proof. unfold bdR. simpl. ring. Qed.

(* a rounded product is within half an ulp of the real product *)
Lemma bdR_mul_err : forall a b, Rabs (bdR (bd_mul a b) - bdR a * bdR b) <= u36 / 2.
Proof.
  intros a b. unfold bd_mul. set (c := chop_round P36 (a * b)).
  pose proof (chop_round_P36_err (a * b)) as H. fold c in H.
  apply IZR_le in H. rewrite mult_IZR, abs_IZR, minus_IZR, !mult_IZR, IZR_P36 in H. simpl (IZR 2) in H.
  unfold bdR. pose proof T36_pos as HT. pose proof u36_T36 as HU. pose proof u36_pos as Hu.
  replace (IZR c * u36 - IZR a * u36 * (IZR b * u36)) with (u36 * u36 * (IZR c * T36 - IZR a * IZR b)).
  2:{ replace (IZR c * u36) with (IZR c * u36 * (u36 * T36)) by (rewrite HU; ring). ring. }
  rewrite Rabs_mult, (Rabs_pos_eq (u36 * u36)) by nra.
  replace (u36 / 2) with (u36 * u36 * (T36 / 2)) by (replace (u36 * u36 * (T36 / 2)) with (u36 * (u36 * T36) / 2) by field; rewrite HU; field).
  apply Rmult_le_compat_l; [nra|lra].
Qed.

(* the rounded quotient (truncated division to 72 decimals, then bankers to 36) is within one ulp of the real quotient *)
Lemma bdR_quo_err : forall h p, (0 <= h)%Z -> (0 < p)%Z ->
  Rabs (bdR (bd_quo h p) - bdR h / bdR p) <= u36.
Proof.
  intros h p Hh Hp. unfold bd_quo. set (t := Z.quot (h * P72) p). set (c := chop_round P36 t).
  pose proof (chop_round_P36_err t) as Hc. fold c in Hc.
  assert (Ht : (t * p <= h * P72 < (t + 1) * p)%Z).
  { pose proof (Z.quot_rem' (h * P72) p) as E. fold t in E.
    assert (0 <= h * P72)%Z by (apply Z.mul_nonneg_nonneg; [assumption|vm_compute; discriminate]).
    pose proof (Z.rem_bound_pos (h * P72) p ltac:(assumption) Hp). lia. }
  destruct Ht as [Ht1 Ht2].
  apply IZR_le in Hc, Ht1. apply IZR_lt in Ht2.
  rewrite mult_IZR, abs_IZR, minus_IZR, mult_IZR, IZR_P36 in Hc. simpl (IZR 2) in Hc.
  rewrite !mult_IZR in Ht1. rewrite !mult_IZR, plus_IZR in Ht2. simpl (IZR 1) in Ht2.
  assert (E72 : IZR P72 = T36 * T36) by (unfold T36; rewrite <- mult_IZR; reflexivity). rewrite E72 in *.
  assert (Hc' : Rabs (IZR c * T36 - IZR t) <= T36 / 2) by lra. clear Hc.
  apply Rabs_le_inv' in Hc'.
  pose proof T36_pos as HT. pose proof u36_T36 as HU. pose proof u36_pos as Hu.
  assert (HP : 0 < IZR p) by (apply IZR_lt in Hp; exact Hp).
  unfold bdR.
  replace (IZR h * u36 / (IZR p * u36)) with (IZR h / IZR p) by (field; lra).
  (* work with x = h/p:  t <= x*T^2 < t+1,  |c*T - t| <= T/2  *)
  set (x := IZR h / IZR p).
  assert (Hx1 : IZR t <= x * (T36 * T36)).
  { unfold x. replace (IZR h / IZR p * (T36 * T36)) with (IZR h * (T36 * T36) / IZR p) by (field; lra).
    apply Rmult_le_reg_r with (r := IZR p); [assumption|]. replace (IZR h * (T36 * T36) / IZR p * IZR p) with (IZR h * (T36 * T36)) by (field; lra). lra. }
  assert (Hx2 : x * (T36 * T36) < IZR t + 1).
  { unfold x. replace (IZR h / IZR p * (T36 * T36)) with (IZR h * (T36 * T36) / IZR p) by (field; lra).
    apply Rmult_lt_reg_r with (r := IZR p); [assumption|]. replace (IZR h * (T36 * T36) / IZR p * IZR p) with (IZR h * (T36 * T36)) by (field; lra). lra. }
  (* |c*u - x| = u/T * |c*T*T... |: multiply out with u = 1/T *)
  assert (Hu' : u36 = / T36) by (unfold u36; reflexivity).
  assert (HT2 : 2 <= T36) by (unfold T36; apply IZR_le; vm_compute; discriminate).
  assert (HTT : 0 < T36 * T36) by nra.
  apply Rabs_le. rewrite Hu'. split.
  - apply Rmult_le_reg_r with (r := T36 * T36); [assumption|].
    replace ((IZR c * / T36 - x) * (T36 * T36)) with (IZR c * T36 - x * (T36 * T36)) by (field; lra).
    replace (- / T36 * (T36 * T36)) with (- T36) by (field; lra). lra.
  - apply Rmult_le_reg_r with (r := T36 * T36); [assumption|].
    replace ((IZR c * / T36 - x) * (T36 * T36)) with (IZR c * T36 - x * (T36 * T36)) by (field; lra).
    replace (/ T36 * (T36 * T36)) with T36 by (field; lra). lra.
Qed.

Lemma step_mul_r : forall (A B : Z) (b eb : R), Rabs (bdR B - b) <= eb ->
  Rabs (bdR (bd_mul A B) - bdR A * b) <= u36 / 2 + Rabs (bdR A) * eb.
Proof.
  intros A B b eb H.
  replace (bdR (bd_mul A B) - bdR A * b) with ((bdR (bd_mul A B) - bdR A * bdR B) + bdR A * (bdR B - b)) by ring.
  eapply Rle_trans; [apply Rabs_triang|]. rewrite Rabs_mult.
  pose proof (bdR_mul_err A B). pose proof (Rabs_pos (bdR A)).
  assert (Rabs (bdR A) * Rabs (bdR B - b) <= Rabs (bdR A) * eb) by (apply Rmult_le_compat_l; assumption). lra.
Qed.
Lemma step_mul_l : forall (A B : Z) (a ea : R), Rabs (bdR A - a) <= ea ->
  Rabs (bdR (bd_mul A B) - a * bdR B) <= u36 / 2 + ea * Rabs (bdR B).
Proof.
  intros A B a ea H.
  replace (bdR (bd_mul A B) - a * bdR B) with ((bdR (bd_mul A B) - bdR A * bdR B) + (bdR A - a) * bdR B) by ring.
  eapply Rle_trans; [apply Rabs_triang|]. rewrite Rabs_mult.
  pose proof (bdR_mul_err A B). pose proof (Rabs_pos (bdR B)).
  assert (Rabs (bdR A - a) * Rabs (bdR B) <= ea * Rabs (bdR B)) by (apply Rmult_le_compat_r; assumption). lra.
Qed.

(* the coefficients still to be used are small enough that the error of the power they multiply costs at most half an ulp:
   |c_j| * j <= 1 (true with a large margin for the generated lists; checked by computation) *)
Fixpoint coeffs_small (cs : list (Z * Z)) (n : Z) : Prop :=
  match cs with
  | [] => True
  | (a, b) :: r => (Z.abs a * (n + 1) <= P36)%Z /\ (Z.abs b * (n + 1) <= P36)%Z /\ coeffs_small r (n + 1)
  end.

Lemma coeff_small_R : forall a n, (0 <= n)%Z -> (Z.abs a * (n + 1) <= P36)%Z -> Rabs (bdR a) * (IZR (n + 1) * u36 / 2) <= u36 / 2.
Proof.
  intros a n Hn H. apply IZR_le in H. rewrite mult_IZR, abs_IZR, IZR_P36 in H.
  unfold bdR. rewrite Rabs_mult, (Rabs_pos_eq u36) by (pose proof u36_pos; lra).
  pose proof u36_pos as Hu. pose proof u36_T36 as HU. pose proof T36_pos as HT.
  replace (Rabs (IZR a) * u36 * (IZR (n + 1) * u36 / 2)) with (u36 * u36 / 2 * (Rabs (IZR a) * IZR (n + 1))) by field.
  replace (u36 / 2) with (u36 * u36 / 2 * T36) by (replace (u36 * u36 / 2 * T36) with (u36 * (u36 * T36) / 2) by field; rewrite HU; field).
  apply Rmult_le_compat_l; [nra|assumption].
Qed.

Lemma bdc_mul_inv : forall a b r, bdc_mul a b = Ok r -> r = bd_mul a b.
Proof. intros a b r. unfold bdc_mul, bd_check. destruct (bd_fits _); intros H; inversion H; reflexivity. Qed.
Lemma bdc_add_inv : forall a b r, bdc_add a b = Ok r -> r = (a + b)%Z.
Proof. intros a b r. unfold bdc_add, bd_check. destruct (bd_fits _); intros H; inversion H; reflexivity. Qed.
Lemma bdc_sub_inv : forall a b r, bdc_sub a b = Ok r -> r = (a - b)%Z.
Proof. intros a b r. unfold bdc_sub, bd_check. destruct (bd_fits _); intros H; inversion H; reflexivity. Qed.
Lemma bdc_quo_inv : forall a b r, bdc_quo a b = Ok r -> r = bd_quo a b /\ b <> 0%Z.
Proof.
  intros a b r. unfold bdc_quo, bd_check. destruct (b =? 0)%Z eqn:E; [discriminate|]. apply Z.eqb_neq in E.
  destruct (bd_fits _); intros H; inversion H; split; [reflexivity|assumption].
Qed.

(* the loop: after the remaining coefficients cs, h and p are within (number of steps) ulps of the real polynomials *)
Lemma exp2_loop_err : forall cs X xe h p h' p' xi hr pr n eh ep,
  exp2_loop cs X xe h p = Ok (h', p') ->
  0 <= bdR X <= 1 -> 0 <= xi <= 1 -> (0 <= n)%Z ->
  Rabs (bdR xe - xi) <= IZR n * u36 / 2 ->
  Rabs (bdR h - hr) <= eh -> Rabs (bdR p - pr) <= ep ->
  coeffs_small cs n ->
  Rabs (bdR h' - (hr + polyR (map fst cs) (bdR X) (xi * bdR X))) <= eh + INR (length cs) * u36 /\
  Rabs (bdR p' - (pr + polyR (map snd cs) (bdR X) (xi * bdR X))) <= ep + INR (length cs) * u36.
Proof.
  induction cs as [|[a b] r IH]; intros X xe h p h' p' xi hr pr n eh ep H Hx Hxi Hn Hxe Hh Hp Hcs.
  - cbn [exp2_loop] in H. inversion H; subst. cbn [map polyR length INR]. rewrite !Rplus_0_r, Rmult_0_l, !Rplus_0_r. split; assumption.
  - cbn [exp2_loop] in H.
    destruct (bdc_mul xe X) as [xe'|] eqn:E1; cbn [bind] in H; [|discriminate]. apply bdc_mul_inv in E1.
    destruct (bdc_mul a xe') as [ta|] eqn:E2; cbn [bind] in H; [|discriminate]. apply bdc_mul_inv in E2.
    destruct (bdc_add h ta) as [h1|] eqn:E3; cbn [bind] in H; [|discriminate]. apply bdc_add_inv in E3.
    destruct (bdc_mul b xe') as [tb|] eqn:E4; cbn [bind] in H; [|discriminate]. apply bdc_mul_inv in E4.
    destruct (bdc_add p tb) as [p1|] eqn:E5; cbn [bind] in H; [|discriminate]. apply bdc_add_inv in E5.
    destruct Hcs as (Ha & Hb & Hcs).
    pose proof u36_pos as Hu.
    (* the next power *)
    assert (Hxe' : Rabs (bdR xe' - xi * bdR X) <= IZR (n + 1) * u36 / 2).
    { subst xe'. eapply Rle_trans; [apply step_mul_l; eassumption|].
      rewrite plus_IZR. simpl (IZR 1). rewrite (Rabs_pos_eq (bdR X)) by lra.
      assert (0 <= IZR n) by (apply IZR_le in Hn; exact Hn).
      assert (IZR n * u36 / 2 * bdR X <= IZR n * u36 / 2 * 1) by (apply Rmult_le_compat_l; nra). lra. }
    assert (Hta : Rabs (bdR ta - bdR a * (xi * bdR X)) <= u36).
    { subst ta. eapply Rle_trans; [apply step_mul_r; eassumption|]. pose proof (coeff_small_R a n Hn Ha). lra. }
    assert (Htb : Rabs (bdR tb - bdR b * (xi * bdR X)) <= u36).
    { subst tb. eapply Rle_trans; [apply step_mul_r; eassumption|]. pose proof (coeff_small_R b n Hn Hb). lra. }
    assert (Hh1 : Rabs (bdR h1 - (hr + bdR a * (xi * bdR X))) <= eh + u36).
    { subst h1. rewrite bdR_add. replace (bdR h + bdR ta - (hr + bdR a * (xi * bdR X))) with ((bdR h - hr) + (bdR ta - bdR a * (xi * bdR X))) by ring.
      eapply Rle_trans; [apply Rabs_triang|]. lra. }
    assert (Hp1 : Rabs (bdR p1 - (pr + bdR b * (xi * bdR X))) <= ep + u36).
    { subst p1. rewrite bdR_add. replace (bdR p + bdR tb - (pr + bdR b * (xi * bdR X))) with ((bdR p - pr) + (bdR tb - bdR b * (xi * bdR X))) by ring.
      eapply Rle_trans; [apply Rabs_triang|]. lra. }
    assert (Hxi' : 0 <= xi * bdR X <= 1) by nra.
    destruct (IH X xe' h1 p1 h' p' (xi * bdR X) _ _ (n + 1)%Z _ _ H Hx Hxi' ltac:(lia) Hxe' Hh1 Hp1 Hcs) as [R1 R2].
    cbn [map fst snd polyR length]. rewrite S_INR. split.
    + replace (hr + (bdR a * (xi * bdR X) + polyR (map fst r) (bdR X) (xi * bdR X * bdR X)))
        with (hr + bdR a * (xi * bdR X) + polyR (map fst r) (bdR X) (xi * bdR X * bdR X)) by ring. lra.
    + replace (pr + (bdR b * (xi * bdR X) + polyR (map snd r) (bdR X) (xi * bdR X * bdR X)))
        with (pr + bdR b * (xi * bdR X) + polyR (map snd r) (bdR X) (xi * bdR X * bdR X)) by ring. lra.
Qed.

Lemma map_fst_combine : forall (A B : Type) (l : list A) (l' : list B), length l = length l' -> map fst (combine l l') = l.
Proof. induction l as [|a l IH]; intros [|b l'] H; try discriminate; [reflexivity|]. cbn. f_equal. apply IH. inversion H; reflexivity. Qed.
Lemma map_snd_combine : forall (A B : Type) (l : list A) (l' : list B), length l = length l' -> map snd (combine l l') = l'.
Proof. induction l as [|a l IH]; intros [|b l'] H; try discriminate; [reflexivity|]. cbn. f_equal. apply IH. inversion H; reflexivity. Qed.

Lemma u36_le : u36 <= 1 / 10 ^ 30.
Proof. rewrite u36_val. interval with (i_prec 128). Qed.

(* the rational function as computed, against the real rational function: at most 33 ulps apart *)
Lemma approx_with_err : forall h0 nums p0 dens X r,
  exp2_rational_approx_with (h0 :: nums) (p0 :: dens) X = Ok r -> (0 < X < P36)%Z ->
  coeffs_small (combine nums dens) 0 -> length nums = length dens -> (length nums <= 6)%nat ->
  let x := bdR X in
  let hx := polyR (h0 :: nums) x 1 in let px := polyR (p0 :: dens) x 1 in
  7 / 10 <= px <= 101 / 100 -> 1 <= hx <= 3 / 2 ->
  Rabs (bdR r - hx / px) <= 33 * u36.
Proof.
  intros h0 nums p0 dens X r H HX Hcs Hlen Hlen6 x hx px Hpx Hhx.
  unfold exp2_rational_approx_with in H.
  destruct ((X <? 0)%Z || (X >? P36)%Z); [discriminate|].
  destruct (X =? 0)%Z eqn:E0; [apply Z.eqb_eq in E0; lia|]. destruct (X =? P36)%Z eqn:E1; [apply Z.eqb_eq in E1; lia|].
  destruct (exp2_loop (combine nums dens) X P36 h0 p0) as [[Hh Pp]|] eqn:EL; cbn [bind] in H; [|discriminate].
  apply bdc_quo_inv in H. destruct H as [Hr HP0]. subst r.
  pose proof u36_pos as Hu. pose proof u36_le as Hule.
  assert (Hx : 0 <= bdR X <= 1).
  { unfold bdR. pose proof u36_T36 as HU. pose proof T36_pos. destruct HX as [HX1 HX2]. apply IZR_lt in HX1, HX2. rewrite IZR_P36 in HX2. split; nra. }
  assert (Hu30 : u36 <= 1 / 1000) by (eapply Rle_trans; [exact Hule|]; interval with (i_prec 128)).
  destruct (exp2_loop_err _ _ _ _ _ _ _ 1 (bdR h0) (bdR p0) 0%Z 0 0 EL Hx ltac:(lra) ltac:(lia)) as [R1 R2].
  { rewrite bdR_P36. replace (1 - 1) with 0 by ring. rewrite Rabs_R0. simpl. lra. }
  { replace (bdR h0 - bdR h0) with 0 by ring. rewrite Rabs_R0. lra. }
  { replace (bdR p0 - bdR p0) with 0 by ring. rewrite Rabs_R0. lra. }
  { exact Hcs. }
  rewrite map_fst_combine in R1 by assumption. rewrite map_snd_combine in R2 by assumption.
  rewrite combine_length, <- Hlen, Nat.min_id in R1, R2.
  assert (Hl6 : INR (length nums) <= 6) by (apply le_INR in Hlen6; simpl in Hlen6; lra).
  assert (Hhx' : hx = bdR h0 + polyR nums (bdR X) (1 * bdR X)) by (unfold hx, x; cbn [polyR]; ring).
  assert (Hpx' : px = bdR p0 + polyR dens (bdR X) (1 * bdR X)) by (unfold px, x; cbn [polyR]; ring).
  rewrite <- Hhx' in R1. rewrite <- Hpx' in R2. rewrite Rplus_0_l in R1, R2.
  assert (RA : Rabs (bdR Hh - hx) <= 6 * u36) by (eapply Rle_trans; [exact R1|nra]).
  assert (RB : Rabs (bdR Pp - px) <= 6 * u36) by (eapply Rle_trans; [exact R2|nra]).
  apply Rabs_le_inv' in RA, RB.
  set (A := bdR Hh) in *. set (B := bdR Pp) in *.
  assert (HB : 69 / 100 <= B) by lra. assert (HA : 0 < A) by lra.
  assert (HHh : (0 <= Hh)%Z).
  { apply le_IZR. unfold A, bdR in HA. pose proof (Rmult_lt_reg_r u36 0 (IZR Hh) Hu). simpl. nra. }
  assert (HPp : (0 < Pp)%Z).
  { apply lt_IZR. unfold B, bdR in HB. simpl. nra. }
  pose proof (bdR_quo_err Hh Pp HHh HPp) as HQ. fold A B in HQ. apply Rabs_le_inv' in HQ.
  assert (Hdiff : - (32 * u36) <= A / B - hx / px <= 32 * u36).
  { replace (A / B - hx / px) with (((A - hx) * px - hx * (B - px)) / (B * px)) by (field; lra).
    assert (HBp : 483 / 1000 <= B * px) by nra.
    assert (Hnum : - (1506 / 100 * u36) <= (A - hx) * px - hx * (B - px) <= 1506 / 100 * u36) by nra.
    split.
    - apply Rmult_le_reg_r with (r := B * px); [lra|]. replace (((A - hx) * px - hx * (B - px)) / (B * px) * (B * px)) with ((A - hx) * px - hx * (B - px)) by (field; nra). nra.
    - apply Rmult_le_reg_r with (r := B * px); [lra|]. replace (((A - hx) * px - hx * (B - px)) / (B * px) * (B * px)) with ((A - hx) * px - hx * (B - px)) by (field; nra). nra. }
  apply Rabs_le. lra.
Qed.

(* ---- instantiation at the generated coefficient lists ---- *)
Fixpoint coeffs_smallb (cs : list (Z * Z)) (n : Z) : bool :=
  match cs with
  | [] => true
  | (a, b) :: r => (Z.abs a * (n + 1) <=? P36)%Z && (Z.abs b * (n + 1) <=? P36)%Z && coeffs_smallb r (n + 1)
  end.
Lemma coeffs_smallb_ok : forall cs n, coeffs_smallb cs n = true -> coeffs_small cs n.
Proof.
  induction cs as [|[a b] r IH]; intros n H; cbn [coeffs_smallb coeffs_small] in *; [exact I|].
  apply andb_true_iff in H. destruct H as [H H3]. apply andb_true_iff in H. destruct H as [H1 H2].
  apply Z.leb_le in H1, H2. auto.
Qed.

Lemma num_shape : exp2_num_coeffs = hd 0%Z exp2_num_coeffs :: tl exp2_num_coeffs. Proof. reflexivity. Qed.
Lemma den_shape : exp2_den_coeffs = hd 0%Z exp2_den_coeffs :: tl exp2_den_coeffs. Proof. reflexivity. Qed.
Lemma gen_coeffs_small : coeffs_small (combine (tl exp2_num_coeffs) (tl exp2_den_coeffs)) 0.
Proof. apply coeffs_smallb_ok. vm_compute. reflexivity. Qed.
Lemma gen_len : length (tl exp2_num_coeffs) = length (tl exp2_den_coeffs) /\ (length (tl exp2_num_coeffs) <= 6)%nat.
Proof. split; [reflexivity|vm_compute; repeat constructor]. Qed.

Lemma two_bigdec_val : two_bigdec = (2 * P36)%Z. Proof. vm_compute. reflexivity. Qed.

(* exp2ChebyshevRationalApprox on [0,1]: relative error at most 10^-19 *)
Lemma exp2_rational_approx_err : forall X r, exp2_rational_approx X = Ok r ->
  0 <= bdR X <= 1 /\ Rabs (bdR r - exp (bdR X * ln 2)) <= 1 / 10 ^ 19 * exp (bdR X * ln 2).
Proof.
  intros X r H. unfold exp2_rational_approx in H.
  pose proof u36_pos as Hu. pose proof u36_T36 as HU. pose proof T36_pos as HT.
  assert (Hdom : (0 <= X <= P36)%Z).
  { unfold exp2_rational_approx_with in H. destruct (X <? 0)%Z eqn:A; [discriminate|]. destruct (X >? P36)%Z eqn:B; [discriminate|].
    apply Z.ltb_ge in A. destruct (Z.gtb_spec X P36); [discriminate|]. lia. }
  assert (Hx : 0 <= bdR X <= 1).
  { unfold bdR. destruct Hdom as [H1 H2]. apply IZR_le in H1, H2. rewrite IZR_P36 in H2. split; nra. }
  split; [exact Hx|].
  destruct (Z.eq_dec X 0) as [->|HX0].
  { unfold exp2_rational_approx_with in H. replace ((0 <? 0)%Z || (0 >? P36)%Z) with false in H by (vm_compute; reflexivity).
    rewrite Z.eqb_refl in H. inversion H; subst r. rewrite bdR_P36, bdR_0, Rmult_0_l, exp_0.
    replace (1 - 1) with 0 by ring. rewrite Rabs_R0. interval with (i_prec 128). }
  destruct (Z.eq_dec X P36) as [->|HX1].
  { unfold exp2_rational_approx_with in H. replace ((P36 <? 0)%Z || (P36 >? P36)%Z) with false in H by (vm_compute; reflexivity).
    replace (P36 =? 0)%Z with false in H by (vm_compute; reflexivity). rewrite Z.eqb_refl in H. inversion H; subst r.
    rewrite two_bigdec_val. unfold bdR at 1. rewrite mult_IZR, IZR_P36. rewrite bdR_P36, Rmult_1_l.
    replace (2 * T36 * u36) with (2 * (u36 * T36)) by ring. rewrite HU, Rmult_1_r.
    rewrite exp_ln by lra. replace (2 - 2) with 0 by ring. rewrite Rabs_R0. lra. }
  rewrite num_shape, den_shape in H.
  destruct gen_len as [L1 L2].
  pose proof (approx_with_err _ _ _ _ X r H ltac:(lia) gen_coeffs_small L1 L2) as Herr. cbv zeta in Herr.
  rewrite <- num_shape, <- den_shape in Herr. fold (hR (bdR X)) in Herr. fold (pR (bdR X)) in Herr.
  specialize (Herr (pR_bounds _ Hx) (hR_bounds _ Hx)).
  pose proof (exp2_rational_real _ Hx) as Hreal.
  pose proof (pR_bounds _ Hx) as Hp. pose proof (hR_bounds _ Hx) as Hh.
  set (E := exp (bdR X * ln 2)) in *.
  assert (HE : 1 <= E) by (unfold E; rewrite <- exp_0; destruct (Req_dec (bdR X * ln 2) 0) as [->|]; [lra|]; left; apply exp_increasing; assert (0 < ln 2) by (interval with (i_prec 128)); nra).
  (* |h/(p E) - 1| <= 1e-20  ->  |h/p - E| <= 1e-20 E *)
  apply Rabs_le_inv' in Hreal. apply Rabs_le_inv' in Herr. pose proof u36_le as Hule.
  assert (Hq : - (1 / 10 ^ 20 * E) <= hR (bdR X) / pR (bdR X) - E <= 1 / 10 ^ 20 * E).
  { replace (hR (bdR X) / pR (bdR X) - E) with ((hR (bdR X) / (pR (bdR X) * E) - 1) * E) by (field; lra). nra. }
  assert (H33 : 33 * u36 <= 1 / 10 ^ 20 * E).
  { assert (33 * u36 <= 1 / 10 ^ 20) by (eapply Rle_trans; [apply Rmult_le_compat_l; [lra|exact Hule]|]; interval with (i_prec 128)).
    assert (0 < 1 / 10 ^ 20) by (interval with (i_prec 128)). nra. }
  apply Rabs_le.
  assert (Hc : 1 / 10 ^ 19 * E = 10 * (1 / 10 ^ 20 * E)) by (field). rewrite Hc. lra.
Qed.

Lemma max_supported_exponent_val : max_supported_exponent = Ok (512 * P36)%Z.
Proof. vm_compute. reflexivity. Qed.

Lemma IZR_pow2 : forall n, (0 <= n)%Z -> IZR (2 ^ n) = Rpower 2 (IZR n).
Proof.
  intros n Hn. rewrite <- (Z2Nat.id n Hn) at 1. rewrite <- pow_IZR.
  rewrite <- Rpower_pow by lra. rewrite INR_IZR_INZ, Z2Nat.id by assumption. reflexivity.
Qed.

(* Exp2 on its whole domain: |Exp2 e - 2^e| <= 10^-19 * 2^e  (values: bdR = raw / 10^36) *)
Lemma exp2_bound : forall e r, exp2 e = Ok r ->
  (0 <= e <= 512 * P36)%Z /\ Rabs (bdR r - Rpower 2 (bdR e)) <= 1 / 10 ^ 19 * Rpower 2 (bdR e).
Proof.
  intros e r H. unfold exp2 in H.
  destruct (e <? 0)%Z eqn:E0; [discriminate|]. apply Z.ltb_ge in E0.
  rewrite max_supported_exponent_val in H. cbn [bind] in H.
  destruct (Z.abs e >? 512 * P36)%Z eqn:E1; [discriminate|].
  assert (Hmax : (e <= 512 * P36)%Z) by (destruct (Z.gtb_spec (Z.abs e) (512 * P36)); [discriminate|lia]).
  split; [lia|].
  unfold bd_truncate_dec, bd_truncate_int in H.
  assert (HP : (0 < P36)%Z) by (vm_compute; reflexivity).
  set (n := Z.quot e P36) in *.
  rewrite Z.quot_mul in H by lia.
  destruct (bdc_sub e (n * P36)) as [fe|] eqn:Es; cbn [bind] in H; [|discriminate]. apply bdc_sub_inv in Es.
  destruct (exp2_rational_approx fe) as [fr|] eqn:Ea; cbn [bind] in H; [|discriminate]. inversion H; subst r. clear H.
  assert (Hn : (0 <= n)%Z) by (apply Z.quot_pos; lia).
  apply exp2_rational_approx_err in Ea. destruct Ea as [Hx Herr].
  rewrite Z.shiftl_mul_pow2 by assumption.
  assert (He : bdR e = IZR n + bdR fe).
  { subst fe. rewrite bdR_sub. unfold bdR at 3. rewrite mult_IZR, IZR_P36.
    replace (IZR n * T36 * u36) with (IZR n * (u36 * T36)) by ring. rewrite u36_T36. ring. }
  rewrite He, Rpower_plus. unfold bdR at 1. rewrite mult_IZR, IZR_pow2 by assumption.
  fold (bdR fr). unfold Rpower at 3 5. set (E := exp (bdR fe * ln 2)) in *.
  set (N := Rpower 2 (IZR n)). assert (HN : 0 < N) by (unfold N, Rpower; apply exp_pos).
  replace (IZR fr * N * u36 - N * E) with (N * (bdR fr - E)) by (unfold bdR; ring).
  rewrite Rabs_mult, (Rabs_pos_eq N) by lra.
  replace (1 / 10 ^ 19 * (N * E)) with (N * (1 / 10 ^ 19 * E)) by ring.
  apply Rmult_le_compat_l; [lra|assumption].
Qed.

Lemma exp2_negative : forall e, (e < 0)%Z -> exp2 e = Err ENegExponent.
Proof. intros e H. unfold exp2. apply Z.ltb_lt in H. rewrite H. reflexivity. Qed.
Lemma exp2_too_large : forall e, (512 * P36 < e)%Z -> exp2 e = Err EExpTooLarge.
Proof.
  intros e H. unfold exp2. assert (0 < P36)%Z by (vm_compute; reflexivity).
  destruct (e <? 0)%Z eqn:E0; [apply Z.ltb_lt in E0; lia|].
  rewrite max_supported_exponent_val. cbn [bind].
  destruct (Z.gtb_spec (Z.abs e) (512 * P36)); [reflexivity|lia].
Qed.

(* ---- totality: inside the domain no range assertion fires ---- *)
Open Scope Z_scope.

Lemma bd_check_small : forall z, Z.abs z <= 2 ^ 1000 -> bd_check z = Ok z.
Proof.
  intros z H. unfold bd_check, bd_fits, bitlen, max_dec_bit_len. destruct (z =? 0) eqn:E; [reflexivity|].
  apply Z.eqb_neq in E.
  assert (Z.log2 (Z.abs z) <= 1000).
  { replace 1000 with (Z.log2 (2 ^ 1000)) by (rewrite Z.log2_pow2; lia). apply Z.log2_le_mono. assumption. }
  destruct (Z.leb_spec (Z.log2 (Z.abs z) + 1) 1144); [reflexivity|lia].
Qed.

Lemma chop_round_abs : forall d, Z.abs (chop_round P36 d) * P36 <= Z.abs d + P36.
Proof. intros d. pose proof (chop_round_P36_err d). assert (0 < P36) by (vm_compute; reflexivity). lia. Qed.

Lemma bd_mul_abs : forall a b, Z.abs (bd_mul a b) * P36 <= Z.abs a * Z.abs b + P36.
Proof. intros a b. unfold bd_mul. pose proof (chop_round_abs (a * b)). rewrite Z.abs_mul in H. exact H. Qed.

Lemma P36_lt : P36 < 2 ^ 120. Proof. vm_compute. reflexivity. Qed.

Lemma exp2_loop_total : forall cs X xe h p n B,
  0 <= X <= P36 -> 0 <= n -> Z.abs xe <= P36 + n -> Z.abs h <= B -> Z.abs p <= B -> 0 <= B ->
  Forall (fun ab => Z.abs (fst ab) <= 2 * P36 /\ Z.abs (snd ab) <= 2 * P36) cs ->
  n + Z.of_nat (length cs) <= 100 -> B + 5 * P36 * Z.of_nat (length cs) <= 2 ^ 200 ->
  exists h' p', exp2_loop cs X xe h p = Ok (h', p') /\ Z.abs h' <= B + 5 * P36 * Z.of_nat (length cs) /\ Z.abs p' <= B + 5 * P36 * Z.of_nat (length cs).
Proof.
  pose proof P36_lt as HPl. assert (HP : 0 < P36) by (vm_compute; reflexivity).
  assert (H200 : 2 ^ 200 <= 2 ^ 1000) by (apply Z.pow_le_mono_r; lia).
  assert (H120 : 2 ^ 120 * 8 <= 2 ^ 200) by (vm_compute; discriminate).
  assert (HPlo : 1000 <= P36) by (vm_compute; discriminate).
  assert (HPsq : P36 <= P36 * P36) by nia.
  induction cs as [|[a b] r IH]; intros X xe h p n B HX Hn Hxe Hh Hp HB Hcs Hlen HBB.
  - exists h, p. cbn [exp2_loop length]. rewrite Z.mul_0_r, Z.add_0_r. auto.
  - inversion Hcs as [|? ? [Ha Hb] Hcs']; subst. cbn [fst snd] in Ha, Hb.
    cbn [length] in Hlen, HBB |- *. rewrite Nat2Z.inj_succ in Hlen, HBB |- *.
    cbn [exp2_loop].
    set (xe' := bd_mul xe X).
    assert (Hxe' : Z.abs xe' <= P36 + (n + 1)).
    { pose proof (bd_mul_abs xe X) as M. fold xe' in M. rewrite (Z.abs_eq X) in M by lia.
      assert (M2 : Z.abs xe * X <= (P36 + n) * P36) by (apply Z.mul_le_mono_nonneg; lia).
      apply Z.mul_le_mono_pos_r with (p := P36); [assumption|]. lia. }
    unfold bdc_mul at 1. fold xe'. rewrite bd_check_small by lia. cbn [bind].
    set (ta := bd_mul a xe'). set (tb := bd_mul b xe').
    assert (Hxe'' : Z.abs xe' <= 2 * P36) by lia.
    assert (Hta : Z.abs ta <= 5 * P36).
    { pose proof (bd_mul_abs a xe') as M. fold ta in M.
      assert (M2 : Z.abs a * Z.abs xe' <= 2 * P36 * (2 * P36)) by (apply Z.mul_le_mono_nonneg; lia).
      apply Z.mul_le_mono_pos_r with (p := P36); [assumption|]. lia. }
    assert (Htb : Z.abs tb <= 5 * P36).
    { pose proof (bd_mul_abs b xe') as M. fold tb in M.
      assert (M2 : Z.abs b * Z.abs xe' <= 2 * P36 * (2 * P36)) by (apply Z.mul_le_mono_nonneg; lia).
      apply Z.mul_le_mono_pos_r with (p := P36); [assumption|]. lia. }
    unfold bdc_mul at 1. fold ta. rewrite bd_check_small by lia. cbn [bind].
    unfold bdc_add at 1. rewrite bd_check_small by lia. cbn [bind].
    unfold bdc_mul at 1. fold tb. rewrite bd_check_small by lia. cbn [bind].
    unfold bdc_add at 1. rewrite bd_check_small by lia. cbn [bind].
    destruct (IH X xe' (h + ta) (p + tb) (n + 1) (B + 5 * P36)) as (h' & p' & E & A1 & A2); try assumption; try lia.
    exists h', p'. split; [exact E|]. split; lia.
Qed.

Lemma gen_coeffs_bounded :
  Forall (fun ab => Z.abs (fst ab) <= 2 * P36 /\ Z.abs (snd ab) <= 2 * P36) (combine (tl exp2_num_coeffs) (tl exp2_den_coeffs)) /\
  Z.abs (hd 0 exp2_num_coeffs) <= 2 * P36 /\ Z.abs (hd 0 exp2_den_coeffs) <= 2 * P36.
Proof. split; [|split; vm_compute; discriminate]. repeat constructor; vm_compute; discriminate. Qed.

(* positivity of the denominator actually computed (from the real-number bounds) *)
Lemma loop_denominator_positive : forall X Hh Pp, 0 < X < P36 ->
  exp2_loop (combine (tl exp2_num_coeffs) (tl exp2_den_coeffs)) X P36 (hd 0 exp2_num_coeffs) (hd 0 exp2_den_coeffs) = Ok (Hh, Pp) ->
  0 < Pp.
Proof.
  intros X Hh Pp HX EL.
  destruct gen_len as [L1 L2].
  assert (Hx : (0 <= bdR X <= 1)%R).
  { unfold bdR. pose proof u36_T36 as HU. pose proof T36_pos. pose proof u36_pos. destruct HX as [HX1 HX2]. apply IZR_lt in HX1, HX2. rewrite IZR_P36 in HX2. split; nra. }
  pose proof u36_pos as Hu. pose proof u36_le as Hule.
  assert (Hu30 : (u36 <= 1 / 1000)%R) by (eapply Rle_trans; [exact Hule|]; interval with (i_prec 128)).
  destruct (exp2_loop_err _ _ _ _ _ _ _ 1%R (bdR (hd 0 exp2_num_coeffs)) (bdR (hd 0 exp2_den_coeffs)) 0%Z 0%R 0%R EL Hx ltac:(lra) ltac:(lia)) as [R1 R2].
  { rewrite bdR_P36. replace (1 - 1)%R with 0%R by ring. rewrite Rabs_R0. simpl. lra. }
  { match goal with |- (Rabs (?a - ?a) <= _)%R => replace (a - a)%R with 0%R by ring end. rewrite Rabs_R0. lra. }
  { match goal with |- (Rabs (?a - ?a) <= _)%R => replace (a - a)%R with 0%R by ring end. rewrite Rabs_R0. lra. }
  { exact gen_coeffs_small. }
  rewrite map_snd_combine in R2 by assumption. rewrite combine_length, <- L1, Nat.min_id in R2.
  assert (Hl6 : (INR (length (tl exp2_num_coeffs)) <= 6)%R).
  { apply le_INR in L2. replace (INR 6) with 6%R in L2 by (simpl; ring). exact L2. }
  assert (Hpx : pR (bdR X) = (bdR (hd 0%Z exp2_den_coeffs) + polyR (tl exp2_den_coeffs) (bdR X) (1 * bdR X))%R).
  { unfold pR. rewrite den_shape at 1. cbn [polyR]. ring. }
  rewrite <- Hpx, Rplus_0_l in R2. pose proof (pR_bounds _ Hx) as Hp.
  apply Rabs_le_inv' in R2.
  assert (H6 : (INR (length (tl exp2_num_coeffs)) * u36 <= 6 * u36)%R) by (apply Rmult_le_compat_r; lra).
  apply lt_IZR. unfold bdR in R2, Hp. simpl.
  destruct (Rlt_le_dec 0 (IZR Pp)) as [|Hneg]; [assumption|exfalso].
  assert (IZR Pp * u36 <= 0)%R by nra. lra.
Qed.

Lemma exp2_rational_approx_total : forall X, 0 <= X <= P36 -> exists r, exp2_rational_approx X = Ok r /\ Z.abs r <= 2 ^ 600.
Proof.
  intros X HX. assert (HP : 0 < P36) by (vm_compute; reflexivity). pose proof P36_lt as HPl.
  assert (H600 : 2 ^ 121 <= 2 ^ 600) by (apply Z.pow_le_mono_r; lia).
  unfold exp2_rational_approx, exp2_rational_approx_with.
  destruct (Z.ltb_spec X 0); [lia|]. destruct (Z.gtb_spec X P36); [lia|]. cbn [orb].
  destruct (Z.eqb_spec X 0); [exists P36; split; [reflexivity|lia]|].
  destruct (Z.eqb_spec X P36); [exists two_bigdec; split; [reflexivity|rewrite two_bigdec_val; lia]|].
  rewrite num_shape, den_shape.
  destruct gen_coeffs_bounded as (Hcs & Hh0 & Hp0). destruct gen_len as [L1 L2].
  assert (Hlen : Z.of_nat (length (combine (tl exp2_num_coeffs) (tl exp2_den_coeffs))) <= 6).
  { rewrite combine_length, <- L1, Nat.min_id. lia. }
  assert (H200 : 2 ^ 120 * 64 <= 2 ^ 200) by (vm_compute; discriminate).
  destruct (exp2_loop_total (combine (tl exp2_num_coeffs) (tl exp2_den_coeffs)) X P36 (hd 0 exp2_num_coeffs) (hd 0 exp2_den_coeffs) 0 (2 * P36)) as (h' & p' & E & A1 & A2); try assumption; try lia.
  rewrite E. cbn [bind].
  pose proof (loop_denominator_positive X h' p' ltac:(lia) E) as Hpos.
  unfold bdc_quo. destruct (Z.eqb_spec p' 0); [lia|].
  assert (Hq : Z.abs (bd_quo h' p') <= 2 ^ 600).
  { unfold bd_quo. pose proof (chop_round_abs (Z.quot (h' * P72) p')) as C.
    assert (Hquot : Z.abs (Z.quot (h' * P72) p') <= Z.abs h' * P72).
    { rewrite <- Z.quot_abs by lia. rewrite Z.abs_mul, (Z.abs_eq P72) by (vm_compute; discriminate).
      apply Z.quot_le_upper_bound; [lia|]. assert (0 <= Z.abs h' * P72) by (apply Z.mul_nonneg_nonneg; [lia|vm_compute; discriminate]). nia. }
    assert (H72 : P72 < 2 ^ 240) by (vm_compute; reflexivity).
    assert (Hl5 : 5 * P36 * Z.of_nat (length (combine (tl exp2_num_coeffs) (tl exp2_den_coeffs))) <= 5 * P36 * 6) by (apply Z.mul_le_mono_nonneg_l; lia).
    assert (Hh' : Z.abs h' <= 2 ^ 126) by (assert (2 * P36 + 5 * P36 * 6 <= 2 ^ 126) by (vm_compute; discriminate); lia).
    assert (2 ^ 126 * 2 ^ 240 + 2 ^ 120 <= 2 ^ 600) by (vm_compute; discriminate). nia. }
  assert (H1000 : 2 ^ 600 <= 2 ^ 1000) by (apply Z.pow_le_mono_r; lia).
  rewrite bd_check_small by lia. eexists; split; [reflexivity|assumption].
Qed.

Lemma exp2_total : forall e, 0 <= e <= 512 * P36 -> exists r, exp2 e = Ok r.
Proof.
  intros e He. assert (HP : 0 < P36) by (vm_compute; reflexivity). pose proof P36_lt as HPl.
  unfold exp2. destruct (Z.ltb_spec e 0); [lia|]. rewrite max_supported_exponent_val. cbn [bind].
  destruct (Z.gtb_spec (Z.abs e) (512 * P36)); [lia|].
  unfold bd_truncate_dec.
  assert (Hfe : 0 <= e - Z.quot e P36 * P36 < P36).
  { pose proof (Z.quot_rem' e P36). pose proof (Z.rem_bound_pos e P36 ltac:(lia) HP). lia. }
  unfold bdc_sub. rewrite bd_check_small by (assert (2 ^ 120 <= 2 ^ 1000) by (apply Z.pow_le_mono_r; lia); lia). cbn [bind].
  destruct (exp2_rational_approx_total (e - Z.quot e P36 * P36) ltac:(lia)) as (r & Er & _). rewrite Er. cbn [bind].
  eexists; reflexivity.
Qed.
