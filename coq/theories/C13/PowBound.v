(* C13 - error bound of PowApprox / Pow (osmomath/math.go) for bases 1/2 <= base < 2.
   The model (C13/Pow.v) computes the binomial series of (1+x)^a, x = base - 1, term by term from the previous term with three
   rounded 18-decimal operations (two MulMut, one QuoMut), and stops when the last added term is below the precision
   (or rounds to zero).  Here:
     * every round adds a rounding error of at most 2 ulp (2e-18) to the signed term (pow_step_spec);
     * for x >= 0 the signed ratios of consecutive terms lie in [-1, 0]: the error of the running SUM after k rounds stays
       below 2k ulp (both E(k-1) and E(k) lie in the same interval, and E(k+1) is a convex combination of them plus the
       new rounding) - no k^2 accumulation;
     * for -1/2 <= x < 0 the ratios are at most 1/2 in magnitude: the term error stays below 4 ulp, the sum error below 4k ulp;
     * the truncation error is bounded by PowSeries.binomial_remainder_pos / _neg in terms of the last computed term.
   Result (pow_approx_bound): |PowApprox(b, a, p) - b^a| <= p + (6 k + 8) ulp <= p + 1e-12 with k < powIterationLimit rounds.
   Reals axioms (standard library) only. *)
From Coq Require Import ZArith List Reals Lra Lia Bool.
From Osmo Require Import Base.DecModel C13.Common C13.Pow C13.RoundProofs C13.PowProofs C13.PowSeries Gen.C13_consts.
Open Scope R_scope.

Lemma Rabs_le_inv2 : forall x y, Rabs x <= y -> - y <= x <= y.
Proof. intros x y. unfold Rabs. destruct (Rcase_abs x); lra. Qed.

(* ---------- 18-decimal values as reals ---------- *)
Definition T18 : R := IZR P18.
Definition u18 : R := / T18.
Lemma T18_val : T18 = 10 ^ 18.
Proof. unfold T18, P18. rewrite pow_IZR. reflexivity. Qed.
Lemma T18_pos : 0 < T18. Proof. unfold T18. apply IZR_lt. reflexivity. Qed.
Lemma T18_ge2 : 2 <= T18. Proof. unfold T18. apply IZR_le. vm_compute. discriminate. Qed.
Lemma u18_pos : 0 < u18. Proof. unfold u18. apply Rinv_0_lt_compat, T18_pos. Qed.
Lemma u18_T18 : u18 * T18 = 1. Proof. unfold u18. apply Rinv_l. pose proof T18_pos. lra. Qed.
Lemma dR_eq : forall z, dR z = IZR z * u18.
Proof. intros z. unfold dR, u18. rewrite T18_val. reflexivity. Qed.
Lemma dR_P18 : dR P18 = 1.
Proof. rewrite dR_eq. fold T18. rewrite Rmult_comm. apply u18_T18. Qed.
Lemma dR_add : forall a b, dR (a + b) = dR a + dR b.
Proof. intros. rewrite !dR_eq, plus_IZR. ring. Qed.
Lemma dR_sub : forall a b, dR (a - b) = dR a - dR b.
Proof. intros. rewrite !dR_eq, minus_IZR. ring. Qed.
Lemma dR_mul_P18 : forall n, dR (n * P18) = IZR n.
Proof. intros. rewrite dR_eq, mult_IZR. fold T18. rewrite Rmult_assoc, (Rmult_comm T18), u18_T18. ring. Qed.
Lemma dR_nonneg : forall z, (0 <= z)%Z -> 0 <= dR z.
Proof. intros z H. rewrite dR_eq. apply Rmult_le_pos; [apply IZR_le; assumption|left; apply u18_pos]. Qed.
Lemma dR_le : forall a b, (a <= b)%Z -> dR a <= dR b.
Proof. intros a b H. rewrite !dR_eq. apply Rmult_le_compat_r; [left; apply u18_pos|apply IZR_le; assumption]. Qed.
Lemma dR_lt : forall a b, (a < b)%Z -> dR a < dR b.
Proof. intros a b H. rewrite !dR_eq. apply Rmult_lt_compat_r; [apply u18_pos|apply IZR_lt; assumption]. Qed.

(* a rounded product is within half an ulp of the real product *)
Lemma dR_mul_err : forall a b, Rabs (dR (d_mul a b) - dR a * dR b) <= u18 / 2.
Proof.
  intros a b. unfold d_mul. set (c := chop_round P18 (a * b)).
  pose proof (chop_round_P18_err (a * b)) as H. fold c in H.
  apply IZR_le in H. rewrite mult_IZR, abs_IZR, minus_IZR, !mult_IZR in H. fold T18 in H. simpl (IZR 2) in H.
  rewrite !dR_eq. pose proof T18_pos as HT. pose proof u18_T18 as HU. pose proof u18_pos as Hu.
  replace (IZR c * u18 - IZR a * u18 * (IZR b * u18)) with (u18 * u18 * (IZR c * T18 - IZR a * IZR b)).
  2:{ replace (IZR c * u18) with (IZR c * u18 * (u18 * T18)) by (rewrite HU; ring). ring. }
  rewrite Rabs_mult, (Rabs_pos_eq (u18 * u18)) by nra.
  replace (u18 / 2) with (u18 * u18 * (T18 / 2)) by (replace (u18 * u18 * (T18 / 2)) with (u18 * (u18 * T18) / 2) by field; rewrite HU; field).
  apply Rmult_le_compat_l; [nra|lra].
Qed.

Lemma d_mul_nonneg : forall a b, (0 <= a)%Z -> (0 <= b)%Z -> (0 <= d_mul a b)%Z.
Proof. intros a b Ha Hb. unfold d_mul. apply chop_round_P18_nonneg. apply Z.mul_nonneg_nonneg; assumption. Qed.

(* the rounded quotient (truncated division to 36 decimals, then bankers to 18) is within one ulp of the real quotient *)
Lemma dR_quo_err : forall h p, (0 <= h)%Z -> (0 < p)%Z ->
  Rabs (dR (d_quo h p) - dR h / dR p) <= u18 /\ (0 <= d_quo h p)%Z.
Proof.
  intros h p Hh Hp. unfold d_quo. set (t := Z.quot (h * (P18 * P18)) p). set (c := chop_round P18 t).
  pose proof (chop_round_P18_err t) as Hc. fold c in Hc.
  assert (HPP : (0 < P18 * P18)%Z) by (vm_compute; reflexivity).
  assert (Hnum : (0 <= h * (P18 * P18))%Z) by (apply Z.mul_nonneg_nonneg; lia).
  assert (Ht : (t * p <= h * (P18 * P18) < (t + 1) * p)%Z).
  { pose proof (Z.quot_rem' (h * (P18 * P18)) p) as E. fold t in E.
    pose proof (Z.rem_bound_pos (h * (P18 * P18)) p Hnum Hp). lia. }
  assert (Ht0 : (0 <= t)%Z) by (apply Z.quot_pos; lia).
  split; [|apply chop_round_P18_nonneg; assumption].
  destruct Ht as [Ht1 Ht2].
  apply IZR_le in Hc, Ht1. apply IZR_lt in Ht2.
  rewrite mult_IZR, abs_IZR, minus_IZR, mult_IZR in Hc. fold T18 in Hc. simpl (IZR 2) in Hc.
  rewrite !mult_IZR in Ht1. rewrite !mult_IZR, plus_IZR in Ht2. fold T18 in Ht1, Ht2. simpl (IZR 1) in Ht2.
  assert (Hc' : Rabs (IZR c * T18 - IZR t) <= T18 / 2) by lra. clear Hc.
  apply Rabs_le_inv2 in Hc'.
  pose proof T18_pos as HT. pose proof u18_T18 as HU. pose proof u18_pos as Hu. pose proof T18_ge2 as HT2.
  assert (HP : 0 < IZR p) by (apply IZR_lt in Hp; exact Hp).
  rewrite !dR_eq.
  replace (IZR h * u18 / (IZR p * u18)) with (IZR h / IZR p) by (field; lra).
  set (x := IZR h / IZR p).
  assert (Hx1 : IZR t <= x * (T18 * T18)).
  { unfold x. replace (IZR h / IZR p * (T18 * T18)) with (IZR h * (T18 * T18) / IZR p) by (field; lra).
    apply Rmult_le_reg_r with (r := IZR p); [assumption|].
    replace (IZR h * (T18 * T18) / IZR p * IZR p) with (IZR h * (T18 * T18)) by (field; lra). lra. }
  assert (Hx2 : x * (T18 * T18) < IZR t + 1).
  { unfold x. replace (IZR h / IZR p * (T18 * T18)) with (IZR h * (T18 * T18) / IZR p) by (field; lra).
    apply Rmult_lt_reg_r with (r := IZR p); [assumption|].
    replace (IZR h * (T18 * T18) / IZR p * IZR p) with (IZR h * (T18 * T18)) by (field; lra). lra. }
  assert (Hu' : u18 = / T18) by reflexivity.
  assert (HTT : 0 < T18 * T18) by nra.
  apply Rabs_le. split.
  - apply Rmult_le_reg_r with (r := T18 * T18); [assumption|].
    replace ((IZR c * u18 - x) * (T18 * T18)) with (IZR c * T18 * (u18 * T18) - x * (T18 * T18)) by ring.
    replace (- u18 * (T18 * T18)) with (- (u18 * T18) * T18) by ring. rewrite HU. nra.
  - apply Rmult_le_reg_r with (r := T18 * T18); [assumption|].
    replace ((IZR c * u18 - x) * (T18 * T18)) with (IZR c * T18 * (u18 * T18) - x * (T18 * T18)) by ring.
    replace (u18 * (T18 * T18)) with ((u18 * T18) * T18) by ring. rewrite HU. nra.
Qed.

(* ---------- one round of the series loop ---------- *)
Lemma d_check_ok : forall z r, d_check z = Ok r -> r = z.
Proof. intros z r. unfold d_check. destruct (d_in_range z); intros H; [inversion H; reflexivity|discriminate]. Qed.

Lemma abs_diff_sign_spec : forall a b,
  match abs_diff_sign a b with
  | Ok (d, s) => (s = false /\ d = (a - b)%Z /\ (b <= a)%Z) \/ (s = true /\ d = (b - a)%Z /\ (a < b)%Z)
  | Err _ => True
  end.
Proof.
  intros a b. unfold abs_diff_sign. destruct (Z.geb_spec a b) as [H|H].
  - unfold dc_sub. destruct (d_check (a - b)) as [d|] eqn:E; cbn [bind]; [|exact I].
    apply d_check_ok in E. left. repeat split; [assumption|lia].
  - unfold dc_add. destruct (d_check (- a + b)) as [d|] eqn:E; cbn [bind]; [|exact I].
    apply d_check_ok in E. right. repeat split; [lia|assumption].
Qed.

(* term.MulMut(c).MulMut(x).QuoMut(i): at most 2 ulp from the real product (1/2 ulp per product, 1 per quotient) *)
Lemma step_core : forall term c x i, (0 <= term)%Z -> (0 <= c)%Z -> (0 <= x)%Z -> (0 <= dR x <= 1) -> (1 <= i)%Z ->
  match (do t1 <- dc_mul term c; do t2 <- dc_mul t1 x; dc_quo t2 (i * P18)) with
  | Ok term' => (0 <= term')%Z /\ Rabs (dR term' - dR term * dR c * dR x / IZR i) <= 2 * u18
  | Err _ => True
  end.
Proof.
  intros term c x i Ht Hc Hx Hx1 Hi.
  assert (HP : (0 < P18)%Z) by (vm_compute; reflexivity).
  unfold dc_mul at 1. destruct (d_check (d_mul term c)) as [t1|] eqn:E1; cbn [bind]; [|exact I]. apply d_check_ok in E1.
  unfold dc_mul. destruct (d_check (d_mul t1 x)) as [t2|] eqn:E2; cbn [bind]; [|exact I]. apply d_check_ok in E2.
  unfold dc_quo. destruct (Z.eqb_spec (i * P18) 0) as [E0|E0]; [exact I|].
  destruct (d_check (d_quo t2 (i * P18))) as [t3|] eqn:E3; [|exact I]. apply d_check_ok in E3.
  assert (H1 : (0 <= t1)%Z) by (subst t1; apply d_mul_nonneg; assumption).
  assert (H2 : (0 <= t2)%Z) by (subst t2; apply d_mul_nonneg; assumption).
  destruct (dR_quo_err t2 (i * P18) H2 ltac:(lia)) as [Q3 N3]. rewrite <- E3 in Q3, N3.
  split; [assumption|].
  pose proof (dR_mul_err term c) as Q1. rewrite <- E1 in Q1.
  pose proof (dR_mul_err t1 x) as Q2. rewrite <- E2 in Q2.
  rewrite dR_mul_P18 in Q3.
  assert (Hi' : 1 <= IZR i) by (apply (IZR_le 1); assumption).
  pose proof u18_pos as Hu.
  apply Rabs_le_inv2 in Q1, Q2, Q3.
  set (e1 := dR t1 - dR term * dR c) in *. set (e2 := dR t2 - dR t1 * dR x) in *. set (e3 := dR t3 - dR t2 / IZR i) in *.
  assert (Hinv : 0 < / IZR i <= 1).
  { split; [apply Rinv_0_lt_compat; lra|]. rewrite <- Rinv_1. apply Rinv_le_contravar; lra. }
  replace (dR t3 - dR term * dR c * dR x / IZR i) with (e3 + (e2 + e1 * dR x) * / IZR i).
  2:{ unfold e1, e2, e3. field. lra. }
  assert (B12 : - u18 <= e2 + e1 * dR x <= u18) by nra.
  apply Rabs_le. nra.
Qed.

Definition sg (b : bool) : R := if b then -1 else 1.
Lemma sg_xorb : forall a b, sg (xorb a b) = sg a * sg b.
Proof. intros [|] [|]; simpl; ring. Qed.
Lemma sg_sq : forall b, sg b * sg b = 1.
Proof. intros [|]; simpl; ring. Qed.
Lemma Rabs_sg : forall b y, Rabs (sg b * y) = Rabs y.
Proof. intros [|] y; simpl. - replace (-1 * y) with (- y) by ring. apply Rabs_Ropp. - rewrite Rmult_1_l. reflexivity. Qed.

(* One round, in signed form.  k rounds done so far (i = k + 1), a = the exponent, xs = the signed x = base - 1,
   tau = the signed term.  A continuing round multiplies tau by the exact ratio of consecutive series terms, up to 2 ulp;
   a returning round returns the current sum, either because the last term is below the precision or because the next
   term is below 2 ulp. *)
Lemma pow_step_spec : forall exp x xneg prec k term sum neg,
  (0 < exp < P18)%Z -> (0 <= x <= P18)%Z -> (0 <= term)%Z ->
  let i := (Z.of_nat k + 1)%Z in
  let a := dR exp in let xs := sg xneg * dR x in
  match pow_step exp x xneg prec (i, term, sum, neg) with
  | inl (i', term', sum', neg') =>
      i' = (i + 1)%Z /\ i <> pow_iteration_limit /\ (prec <= term)%Z /\ (0 < term')%Z /\
      dR sum' = dR sum + sg neg' * dR term' /\
      Rabs (sg neg' * dR term' - sg neg * dR term * ratio a xs k) <= 2 * u18
  | inr (Ok r) => r = sum /\ ((term < prec)%Z \/ Rabs (sg neg * dR term * ratio a xs k) <= 2 * u18)
  | inr (Err _) => True
  end.
Proof.
  intros exp x xneg prec k term sum neg Hexp Hx Hterm i a xs.
  assert (HP : (0 < P18)%Z) by (vm_compute; reflexivity).
  unfold pow_step. destruct (Z.ltb_spec term prec) as [Hlt|Hge]; [split; [reflexivity|left; assumption]|].
  pose proof (abs_diff_sign_spec exp ((i - 1) * P18)) as HA.
  destruct (abs_diff_sign exp ((i - 1) * P18)) as [[c cneg]|]; [|exact I].
  assert (Hik : (i - 1)%Z = Z.of_nat k) by (unfold i; lia).
  assert (Hc : (0 <= c)%Z /\ dR c = sg cneg * (a - INR k)).
  { rewrite Hik in HA. rewrite INR_IZR_INZ. unfold a.
    destruct HA as [(-> & -> & H)|(-> & -> & H)]; (split; [lia|]); rewrite dR_sub, dR_mul_P18; simpl sg; ring. }
  destruct Hc as [Hc0 Hc].
  assert (Hx1 : 0 <= dR x <= 1).
  { split; [apply dR_nonneg; lia|]. rewrite <- dR_P18. apply dR_le. lia. }
  pose proof (step_core term c x i Hterm Hc0 (proj1 Hx) Hx1 ltac:(unfold i; lia)) as HS.
  destruct (do t1 <- dc_mul term c; do t2 <- dc_mul t1 x; dc_quo t2 (i * P18)) as [term'|]; [|exact I].
  destruct HS as [Hn HS].
  assert (Hi : IZR i = INR (S k)).
  { unfold i. rewrite S_INR, plus_IZR, INR_IZR_INZ. reflexivity. }
  pose proof (INR_S_pos k) as HSk.
  assert (Hratio : sg neg * dR term * ratio a xs k =
                   sg (xorb (xorb neg xneg) cneg) * (dR term * dR c * dR x / IZR i)).
  { unfold ratio, xs. rewrite Hi, Hc, !sg_xorb.
    transitivity (sg neg * sg xneg * (sg cneg * sg cneg) * (dR term * (a - INR k) * dR x / INR (S k))); [rewrite sg_sq; field; lra|field; lra]. }
  destruct (Z.eqb_spec term' 0) as [Ez|Ez].
  - split; [reflexivity|right]. rewrite Hratio, Rabs_sg. subst term'.
    replace (dR 0) with 0 in HS by (rewrite dR_eq; simpl; ring).
    replace (0 - dR term * dR c * dR x / IZR i) with (- (dR term * dR c * dR x / IZR i)) in HS by ring.
    rewrite Rabs_Ropp in HS. exact HS.
  - set (neg' := xorb (xorb neg xneg) cneg) in *.
    assert (Hsum : forall sum', (if neg' then dc_sub sum term' else dc_add sum term') = Ok sum' ->
                   dR sum' = dR sum + sg neg' * dR term').
    { intros sum' E. destruct neg'; [unfold dc_sub in E|unfold dc_add in E]; apply d_check_ok in E; subst sum'.
      - rewrite dR_sub. simpl sg. ring.
      - rewrite dR_add. simpl sg. ring. }
    destruct (if neg' then dc_sub sum term' else dc_add sum term') as [sum'|]; [|exact I].
    destruct (Z.eqb_spec i pow_iteration_limit) as [El|El]; [exact I|].
    split; [reflexivity|]. split; [assumption|]. split; [assumption|]. split; [lia|].
    split; [apply Hsum; reflexivity|].
    rewrite Hratio. fold neg'.
    replace (sg neg' * dR term' - sg neg' * (dR term * dR c * dR x / IZR i))
      with (sg neg' * (dR term' - dR term * dR c * dR x / IZR i)) by ring.
    rewrite Rabs_sg. exact HS.
Qed.

(* ---------- the loop ---------- *)
Lemma loop_pos_inv : forall (S R : Type) (step : S -> S + R) (I : S -> Prop) (Q : R -> Prop),
  (forall s, I s -> match step s with inl s' => I s' | inr r => Q r end) ->
  forall p s, I s -> match loop_pos p step s with inl s' => I s' | inr r => Q r end.
Proof.
  intros S R step I Q Hstep. induction p as [p IH|p IH|]; intros s Hs; cbn [loop_pos].
  - pose proof (Hstep s Hs) as H1. destruct (step s) as [s1|r1]; [|exact H1].
    pose proof (IH s1 H1) as H2. destruct (loop_pos p step s1) as [s2|r2]; [|exact H2]. apply IH. exact H2.
  - pose proof (IH s Hs) as H1. destruct (loop_pos p step s) as [s1|r1]; [|exact H1]. apply IH. exact H1.
  - apply Hstep. exact Hs.
Qed.

Section Series.
  Variables (exp x : Z) (xneg : bool) (prec : Z).
  Hypothesis Hexp : (0 < exp < P18)%Z.
  Hypothesis Hprec : (0 <= prec <= P18)%Z.
  Let a := dR exp.
  Let xs := sg xneg * dR x.
  Let P := Rpower (1 + xs) a.
  Let t := tm a xs.

  Lemma a_range : 0 <= a <= 1.
  Proof.
    unfold a. split; [apply dR_nonneg; lia|]. rewrite <- dR_P18. apply dR_le. lia.
  Qed.

  (* the post-condition of the loop: the returned value is within eps(k) of (1 + xs)^a for some k < limit *)
  Definition post (bound : nat -> R) (r : result Z) : Prop :=
    match r with
    | Ok v => exists k : nat, (Z.of_nat k < pow_iteration_limit)%Z /\ Rabs (dR v - P) <= bound k
    | Err _ => True
    end.

  (* ----- x >= 0 (1 <= base < 2) ----- *)
  Section Pos.
    Hypothesis Hxneg : xneg = false.
    Hypothesis Hx : (0 <= x < P18)%Z.

    Lemma xs_pos_range : 0 <= xs < 1.
    Proof.
      unfold xs. rewrite Hxneg. simpl sg. rewrite Rmult_1_l. split; [apply dR_nonneg; lia|].
      rewrite <- dR_P18. apply dR_lt. lia.
    Qed.

    Definition inv_pos (st : pow_state) : Prop :=
      let '(i, term, sum, neg) := st in
      exists k : nat, i = (Z.of_nat k + 1)%Z /\ (i <= pow_iteration_limit)%Z /\ (0 <= term)%Z /\
        (k = O -> term = P18) /\
        let tau := sg neg * dR term in
        let d := tau - t k in
        let E := dR sum - psum t k in
        (k = O -> d = 0 /\ E = 0) /\
        Rabs E <= 2 * u18 * INR k /\ Rabs (E - d) <= 2 * u18 * INR k.

    Definition bound_pos (k : nat) : R := dR prec + (6 * INR k + 2) * u18.

    Lemma inv_pos_init : inv_pos (1%Z, P18, P18, false).
    Proof.
      exists O. split; [reflexivity|]. split; [vm_compute; discriminate|]. split; [vm_compute; discriminate|].
      split; [reflexivity|]. cbv zeta. unfold t. rewrite psum_0, tm_0, dR_P18. simpl sg. simpl INR.
      replace (1 * 1 - 1) with 0 by ring. replace (1 - 1) with 0 by ring. replace (0 - 0) with 0 by ring.
      rewrite Rabs_R0. split; [split; reflexivity|]. lra.
    Qed.

    Lemma inv_pos_step : forall st, inv_pos st ->
      match pow_step exp x xneg prec st with inl st' => inv_pos st' | inr r => post bound_pos r end.
    Proof.
      intros [[[i term] sum] neg] (k & Hi & Hlim & Hterm & Hk0 & HI). cbv zeta in HI. destruct HI as (Hk0' & HE & HEd).
      pose proof (pow_step_spec exp x xneg prec k term sum neg Hexp ltac:(lia) Hterm) as HS. cbv zeta in HS. rewrite <- Hi in HS.
      fold a in HS. fold xs in HS.
      pose proof a_range as Ha. pose proof xs_pos_range as Hxs. pose proof u18_pos as Hu.
      pose proof (pos_INR k) as HkR.
      set (tau := sg neg * dR term) in *. set (d := tau - t k) in *. set (E := dR sum - psum t k) in *.
      set (r := ratio a xs k) in *.
      assert (Hr : (1 <= k)%nat -> -1 <= r <= 0) by (intros; apply ratio_pos_range; [assumption|lra|assumption]).
      assert (HtS : t (S k) = t k * r) by (apply tm_S).
      destruct (pow_step exp x xneg prec (i, term, sum, neg)) as [[[[i' term'] sum'] neg']|[v|e]].
      - destruct HS as (Ei & Hnl & Hge & Hpos & Hsum & Herr).
        exists (S k). split; [rewrite Ei, Hi; lia|]. split; [lia|]. split; [lia|]. split; [discriminate|].
        cbv zeta. split; [discriminate|].
        rewrite psum_S, Hsum, S_INR. fold t.
        set (eta := sg neg' * dR term' - tau * r) in *. apply Rabs_le_inv2 in Herr.
        replace (sg neg' * dR term' - t (S k)) with (d * r + eta) by (rewrite HtS; unfold eta, d; ring).
        replace (dR sum + sg neg' * dR term' - (psum t k + t (S k))) with (E + (d * r + eta)) by (rewrite HtS; unfold eta, d, E; ring).
        replace (E + (d * r + eta) - (d * r + eta)) with E by ring.
        split; [|lra].
        destruct k as [|k'].
        + destruct (Hk0' eq_refl) as [-> ->]. simpl INR. rewrite Rmult_0_l, Rplus_0_l, Rplus_0_l. apply Rabs_le. lra.
        + specialize (Hr ltac:(lia)). apply Rabs_le_inv2 in HE, HEd. apply Rabs_le.
          replace (E + (d * r + eta)) with ((1 + r) * E + (- r) * (E - d) + eta) by ring.
          set (B := 2 * u18 * INR (S k')) in *. set (F := E - d) in *.
          assert (HB : B = 2 * u18 * INR (S k')) by reflexivity. clearbody B F.
          assert (0 <= (1 + r) * (B - E)) by (apply Rmult_le_pos; lra).
          assert (0 <= (1 + r) * (E + B)) by (apply Rmult_le_pos; lra).
          assert (0 <= (- r) * (B - F)) by (apply Rmult_le_pos; lra).
          assert (0 <= (- r) * (F + B)) by (apply Rmult_le_pos; lra).
          split; lra.
      - destruct HS as (-> & HS). unfold post. exists k. split; [lia|].
        assert (Hrem : Rabs (P - psum t k) <= Rabs (t (S k))) by (apply binomial_remainder_pos; assumption).
        rewrite HtS in Hrem.
        replace (dR sum - P) with (E - (P - psum t k)) by (unfold E; ring).
        unfold bound_pos. apply Rabs_le_inv2 in HE, HEd.
        assert (Hd : - (4 * u18 * INR k) <= d <= 4 * u18 * INR k) by lra.
        assert (Htau : 0 <= Rabs tau /\ Rabs tau = dR term).
        { unfold tau. rewrite Rabs_sg. rewrite Rabs_pos_eq by (apply dR_nonneg; assumption). split; [apply dR_nonneg; assumption|reflexivity]. }
        destruct k as [|k'].
        + (* no round done: the term is 1 >= precision, so the next term is below 2 ulp; d = 0 *)
          destruct (Hk0' eq_refl) as [Hd0 HE0]. destruct HS as [HS|HS].
          * rewrite (Hk0 eq_refl) in HS. lia.
          * assert (Etk : t O = tau) by (unfold d in Hd0; lra). rewrite Etk in Hrem.
            pose proof (dR_nonneg prec ltac:(lia)). simpl INR.
            apply Rabs_le_inv2 in Hrem. apply Rabs_le. rewrite HE0. lra.
        + specialize (Hr ltac:(lia)).
          assert (Htk : Rabs (t (S k') * r) <= Rabs (t (S k'))).
          { rewrite Rabs_mult. pose proof (Rabs_pos (t (S k'))). assert (Rabs r <= 1) by (apply Rabs_le; lra). pose proof (Rabs_pos r). nra. }
          destruct HS as [HS|HS].
          * (* last term below the precision *)
            apply dR_lt in HS. assert (Hb : Rabs (t (S k')) <= dR prec + 4 * u18 * INR (S k')).
            { replace (t (S k')) with (tau - d) by (unfold d; ring). eapply Rle_trans; [apply Rabs_triang|].
              rewrite Rabs_Ropp. destruct Htau as [_ ->]. assert (Rabs d <= 4 * u18 * INR (S k')) by (apply Rabs_le; lra). lra. }
            apply Rabs_le_inv2 in Hrem. apply Rabs_le. lra.
          * (* next term rounds to zero *)
            assert (Hb : Rabs (t (S k') * r) <= 2 * u18 + 4 * u18 * INR (S k')).
            { replace (t (S k') * r) with (tau * r - d * r) by (unfold d; ring). eapply Rle_trans; [apply Rabs_triang|].
              rewrite Rabs_Ropp, (Rabs_mult d r). assert (Rabs d <= 4 * u18 * INR (S k')) by (apply Rabs_le; lra).
              assert (Rabs r <= 1) by (apply Rabs_le; lra). pose proof (Rabs_pos r). pose proof (Rabs_pos d). nra. }
            pose proof (dR_nonneg prec ltac:(lia)).
            apply Rabs_le_inv2 in Hrem. apply Rabs_le. lra.
      - exact I.
    Qed.
  End Pos.

  (* ----- x < 0 (1/2 <= base < 1) ----- *)
  Section Neg.
    Hypothesis Hxneg : xneg = true.
    Hypothesis Hx : (0 <= 2 * x <= P18)%Z.

    Lemma xs_neg_range : - (1 / 2) <= xs <= 0.
    Proof.
      unfold xs. rewrite Hxneg. simpl sg.
      assert (0 <= dR x) by (apply dR_nonneg; lia).
      assert (dR (2 * x) <= 1) by (rewrite <- dR_P18; apply dR_le; lia).
      replace (dR (2 * x)) with (2 * dR x) in * by (rewrite !dR_eq, mult_IZR; ring). lra.
    Qed.

    Definition inv_neg (st : pow_state) : Prop :=
      let '(i, term, sum, neg) := st in
      exists k : nat, i = (Z.of_nat k + 1)%Z /\ (i <= pow_iteration_limit)%Z /\ (0 <= term)%Z /\
        (k = O -> term = P18) /\
        let tau := sg neg * dR term in
        let d := tau - t k in
        let E := dR sum - psum t k in
        Rabs d <= 4 * u18 /\ Rabs E <= 4 * u18 * INR k.

    Definition bound_neg (k : nat) : R := dR prec + (4 * INR k + 8) * u18.

    Lemma inv_neg_init : inv_neg (1%Z, P18, P18, false).
    Proof.
      exists O. split; [reflexivity|]. split; [vm_compute; discriminate|]. split; [vm_compute; discriminate|].
      split; [reflexivity|]. cbv zeta. unfold t. rewrite psum_0, tm_0, dR_P18. simpl sg. simpl INR.
      replace (1 * 1 - 1) with 0 by ring. replace (1 - 1) with 0 by ring.
      rewrite Rabs_R0. pose proof u18_pos. split; lra.
    Qed.

    Lemma inv_neg_step : forall st, inv_neg st ->
      match pow_step exp x xneg prec st with inl st' => inv_neg st' | inr r => post bound_neg r end.
    Proof.
      intros [[[i term] sum] neg] (k & Hi & Hlim & Hterm & Hk0 & HI). cbv zeta in HI. destruct HI as (Hd & HE).
      assert (HP : (0 < P18)%Z) by (vm_compute; reflexivity).
      pose proof (pow_step_spec exp x xneg prec k term sum neg Hexp ltac:(lia) Hterm) as HS. cbv zeta in HS. rewrite <- Hi in HS.
      fold a in HS. fold xs in HS.
      pose proof a_range as Ha. pose proof xs_neg_range as Hxs. pose proof u18_pos as Hu.
      pose proof (pos_INR k) as HkR.
      set (tau := sg neg * dR term) in *. set (d := tau - t k) in *. set (E := dR sum - psum t k) in *.
      set (r := ratio a xs k) in *.
      assert (Hr : Rabs r <= 1 / 2) by (apply ratio_abs_half; [assumption|apply Rabs_le; lra]).
      pose proof (Rabs_pos r) as Hr0. pose proof (Rabs_pos d) as Hd0.
      assert (Hdr : Rabs (d * r) <= 2 * u18) by (rewrite Rabs_mult; nra).
      assert (HtS : t (S k) = t k * r) by (apply tm_S).
      destruct (pow_step exp x xneg prec (i, term, sum, neg)) as [[[[i' term'] sum'] neg']|[v|e]].
      - destruct HS as (Ei & Hnl & Hge & Hpos & Hsum & Herr).
        exists (S k). split; [rewrite Ei, Hi; lia|]. split; [lia|]. split; [lia|]. split; [discriminate|].
        cbv zeta. rewrite psum_S, Hsum, S_INR. fold t.
        set (eta := sg neg' * dR term' - tau * r) in *.
        replace (sg neg' * dR term' - t (S k)) with (d * r + eta) by (rewrite HtS; unfold eta, d; ring).
        replace (dR sum + sg neg' * dR term' - (psum t k + t (S k))) with (E + (d * r + eta)) by (rewrite HtS; unfold eta, d, E; ring).
        apply Rabs_le_inv2 in Herr, Hdr, HE. split; apply Rabs_le; lra.
      - destruct HS as (-> & HS). unfold post. exists k. split; [lia|].
        assert (Hrem : Rabs (P - psum t k) <= 2 * Rabs (t (S k))) by (apply binomial_remainder_neg; assumption).
        rewrite HtS in Hrem.
        replace (dR sum - P) with (E - (P - psum t k)) by (unfold E; ring).
        unfold bound_neg.
        assert (Htau : Rabs tau = dR term).
        { unfold tau. rewrite Rabs_sg. apply Rabs_pos_eq. apply dR_nonneg; assumption. }
        pose proof (dR_nonneg prec ltac:(lia)) as Hp0.
        destruct HS as [HS|HS].
        + (* last term below the precision: 2 |t k| |r| <= |t k| <= term + |d| *)
          apply dR_lt in HS.
          assert (Hb : 2 * Rabs (t k * r) <= dR prec + 4 * u18).
          { rewrite Rabs_mult. assert (Rabs (t k) <= dR term + 4 * u18).
            { replace (t k) with (tau - d) by (unfold d; ring). eapply Rle_trans; [apply Rabs_triang|]. rewrite Rabs_Ropp, Htau. lra. }
            pose proof (Rabs_pos (t k)). nra. }
          apply Rabs_le_inv2 in Hrem, HE. apply Rabs_le. lra.
        + (* next term rounds to zero *)
          assert (Hb : Rabs (t k * r) <= 4 * u18).
          { replace (t k * r) with (tau * r - d * r) by (unfold d; ring). eapply Rle_trans; [apply Rabs_triang|].
            rewrite Rabs_Ropp. lra. }
          apply Rabs_le_inv2 in Hrem, HE. apply Rabs_le. lra.
      - exact I.
    Qed.
  End Neg.
End Series.

(* ---------- PowApprox ---------- *)
Definition pow_eps (k : nat) : R := (6 * INR k + 8) * u18.

Lemma series_loop_pos : forall exp x prec p r,
  (0 < exp < P18)%Z -> (0 <= prec <= P18)%Z -> (0 <= x < P18)%Z ->
  loop_pos p (pow_step exp x false prec) (1%Z, P18, P18, false) = inr (Ok r) ->
  exists k : nat, (Z.of_nat k < pow_iteration_limit)%Z /\
    Rabs (dR r - Rpower (1 + dR x) (dR exp)) <= dR prec + pow_eps k.
Proof.
  intros exp x prec p r Hexp Hprec Hx H.
  pose proof (loop_pos_inv _ _ (pow_step exp x false prec) (inv_pos exp x false) (post exp x false (bound_pos prec))
                (inv_pos_step exp x false prec Hexp Hprec eq_refl Hx) p _ (inv_pos_init exp x false)) as HL.
  rewrite H in HL. unfold post in HL. destruct HL as (k & Hk & HL). exists k. split; [assumption|].
  replace (1 + sg false * dR x) with (1 + dR x) in HL by (simpl sg; ring).
  eapply Rle_trans; [exact HL|]. unfold bound_pos, pow_eps. pose proof (pos_INR k). pose proof u18_pos. nra.
Qed.

Lemma series_loop_neg : forall exp x prec p r,
  (0 < exp < P18)%Z -> (0 <= prec <= P18)%Z -> (0 <= 2 * x <= P18)%Z ->
  loop_pos p (pow_step exp x true prec) (1%Z, P18, P18, false) = inr (Ok r) ->
  exists k : nat, (Z.of_nat k < pow_iteration_limit)%Z /\
    Rabs (dR r - Rpower (1 - dR x) (dR exp)) <= dR prec + pow_eps k.
Proof.
  intros exp x prec p r Hexp Hprec Hx H.
  pose proof (loop_pos_inv _ _ (pow_step exp x true prec) (inv_neg exp x true) (post exp x true (bound_neg prec))
                (inv_neg_step exp x true prec Hexp Hprec eq_refl Hx) p _ (inv_neg_init exp x true)) as HL.
  rewrite H in HL. unfold post in HL. destruct HL as (k & Hk & HL). exists k. split; [assumption|].
  replace (1 + sg true * dR x) with (1 - dR x) in HL by (simpl sg; ring).
  eapply Rle_trans; [exact HL|]. unfold bound_neg, pow_eps. pose proof (pos_INR k). pose proof u18_pos. nra.
Qed.

(* PowApprox on 1/2 <= base < 2, 0 < exp < 1, exp <> 1/2 (the ApproxSqrt shortcut is a different algorithm), any
   precision 0 <= p <= 1: a returned value is within p + (6k + 8) ulp of base^exp, k < powIterationLimit the number of rounds *)
Theorem pow_approx_bound_rounds : forall base exp prec r,
  (P18 <= 2 * base)%Z -> (base < 2 * P18)%Z -> (0 < exp < P18)%Z -> exp <> pow_one_half -> (0 <= prec <= P18)%Z ->
  pow_approx base exp prec = Ok r ->
  exists k : nat, (Z.of_nat k < pow_iteration_limit)%Z /\
    Rabs (dR r - Rpower (dR base) (dR exp)) <= dR prec + pow_eps k.
Proof.
  intros base exp prec r Hb1 Hb2 Hexp Hhalf Hprec H.
  assert (HP : (0 < P18)%Z) by (vm_compute; reflexivity).
  unfold pow_approx in H. revert H. generalize (Z.to_pos pow_iteration_limit). intros p H.
  destruct (Z.ltb_spec 0 base) as [_|]; [|lia]. cbn [negb] in H.
  destruct (Z.eqb_spec exp 0) as [|_]; [lia|].
  destruct (Z.eqb_spec exp pow_one_half) as [|_]; [contradiction|].
  pose proof (abs_diff_sign_spec base P18) as HA.
  destruct (abs_diff_sign base P18) as [[x xneg]|]; [|discriminate H]. cbn [bind] in H.
  destruct HA as [(-> & Ex & Hle)|(-> & Ex & Hlt)].
  - destruct (loop_pos p (pow_step exp x false prec) (1%Z, P18, P18, false)) as [st|r0] eqn:EL; [discriminate H|].
    subst r0. replace (dR base) with (1 + dR x) by (subst x; rewrite dR_sub, dR_P18; ring).
    apply (series_loop_pos exp x prec p r Hexp Hprec ltac:(lia) EL).
  - destruct (loop_pos p (pow_step exp x true prec) (1%Z, P18, P18, false)) as [st|r0] eqn:EL; [discriminate H|].
    subst r0. replace (dR base) with (1 - dR x) by (subst x; rewrite dR_sub, dR_P18; ring).
    apply (series_loop_neg exp x prec p r Hexp Hprec ltac:(lia) EL).
Qed.

Lemma pow_eps_uniform : forall k : nat, (Z.of_nat k < pow_iteration_limit)%Z -> pow_eps k <= / 10 ^ 12.
Proof.
  intros k Hk. unfold pow_eps, u18. rewrite T18_val.
  assert (Hk' : INR k <= 149999).
  { rewrite INR_IZR_INZ. apply IZR_le. assert (pow_iteration_limit = 150000%Z) by reflexivity. lia. }
  pose proof (pos_INR k).
  apply Rmult_le_reg_r with (r := 10 ^ 18); [apply pow_lt; lra|].
  rewrite Rmult_assoc, Rinv_l by (apply pow_nonzero; lra).
  replace (/ 10 ^ 12 * 10 ^ 18) with (10 ^ 6) by (field; apply pow_nonzero; lra). lra.
Qed.

(* uniform version: within precision + 1e-12 (for the precision 1e-8 used by Pow: 1.0001e-8) *)
Theorem pow_approx_bound : forall base exp prec r,
  (P18 <= 2 * base)%Z -> (base < 2 * P18)%Z -> (0 <= exp < P18)%Z -> exp <> pow_one_half -> (0 <= prec <= P18)%Z ->
  pow_approx base exp prec = Ok r ->
  Rabs (dR r - Rpower (dR base) (dR exp)) <= dR prec + / 10 ^ 12.
Proof.
  intros base exp prec r Hb1 Hb2 Hexp Hhalf Hprec H.
  assert (HP : (0 < P18)%Z) by (vm_compute; reflexivity).
  destruct (Z.eq_dec exp 0) as [->|Hne].
  - rewrite pow_approx_exp_zero in H by lia. inversion H; subst r.
    replace (dR 0) with 0 by (rewrite dR_eq; simpl; ring). rewrite Rpower_O.
    2:{ rewrite dR_eq. apply Rmult_lt_0_compat; [apply IZR_lt; lia|apply u18_pos]. }
    rewrite dR_P18. replace (1 - 1) with 0 by ring. rewrite Rabs_R0.
    pose proof (dR_nonneg prec ltac:(lia)). assert (0 < / 10 ^ 12) by (apply Rinv_0_lt_compat, pow_lt; lra). lra.
  - destruct (pow_approx_bound_rounds base exp prec r Hb1 Hb2 ltac:(lia) Hhalf Hprec H) as (k & Hk & HB).
    pose proof (pow_eps_uniform k Hk). lra.
Qed.

(* ---------- Pow ---------- *)
(* the bound for the precision Pow passes: 1e-8 + 1e-12 *)
Definition pow_err : R := dR pow_precision + / 10 ^ 12.
Lemma pow_err_val : pow_err = 1 / 10 ^ 8 + 1 / 10 ^ 12.
Proof.
  unfold pow_err. rewrite dR_eq. unfold u18. rewrite T18_val.
  replace (IZR pow_precision) with (10 ^ 10) by (rewrite pow_IZR; apply f_equal; vm_compute; reflexivity).
  field.
Qed.
Lemma pow_precision_range : (0 <= pow_precision <= P18)%Z.
Proof. vm_compute. split; discriminate. Qed.

(* Pow(base, exp) for exp >= 0 is the rounded product of the LegacyDec integer power base^n (n = the integer part, computed
   by square-and-multiply with rounded products) and PowApprox(base, fractional part) *)
Lemma pow_decompose : forall base exp r, (0 < base < 2 * P18)%Z -> (0 <= exp)%Z -> pow base exp = Ok r ->
  let n := Z.quot exp P18 in let f := Z.rem exp P18 in
  exists ip, dc_power base n = Ok ip /\
    ((f = 0%Z /\ r = ip) \/
     (f <> 0%Z /\ exists fp, pow_approx base f pow_precision = Ok fp /\ r = d_mul ip fp)).
Proof.
  intros base exp r Hb He H n f.
  assert (HP : (0 < P18)%Z) by (vm_compute; reflexivity).
  unfold pow in H. destruct (Z.ltb_spec 0 base); [|lia]. cbn [negb] in H. rewrite pow_two_val in H.
  destruct (Z.geb_spec base (2 * P18)); [lia|].
  unfold d_truncate_dec in H. fold n in H.
  assert (Ef : (exp - n * P18 = f)%Z).
  { unfold n, f. pose proof (Z.quot_rem' exp P18). lia. }
  unfold dc_sub in H. rewrite Ef in H.
  destruct (d_check f) as [f'|] eqn:E1; [|discriminate H]. apply d_check_ok in E1. subst f'. cbn [bind] in H.
  unfold d_truncate_int64 in H. rewrite Z.quot_mul in H by lia.
  assert (Hn : (0 <= n)%Z) by (apply Z.quot_pos; lia).
  destruct ((- 2 ^ 63 <=? n)%Z && (n <? 2 ^ 63)%Z); [|discriminate H]. cbn [bind] in H.
  destruct (Z.ltb_spec n 0); [lia|].
  destruct (dc_power base n) as [ip|]; [|discriminate H]. cbn [bind] in H.
  exists ip. split; [reflexivity|].
  destruct (Z.eqb_spec f 0) as [E0|E0].
  - left. split; [assumption|]. inversion H. reflexivity.
  - right. split; [assumption|]. destruct (pow_approx base f pow_precision) as [fp|]; [|discriminate H]. cbn [bind] in H.
    exists fp. split; [reflexivity|]. unfold dc_mul in H. apply d_check_ok in H. assumption.
Qed.

Lemma dc_power_0 : forall d, dc_power d 0 = Ok P18.
Proof. reflexivity. Qed.
Lemma dc_power_1 : forall d ip, dc_power d 1 = Ok ip -> ip = d.
Proof.
  intros d ip H. unfold dc_power in H. cbn [Z.eqb] in H.
  change (dc_power_loop 64 d P18 1) with (Ok (d, P18)) in H. cbn [bind] in H.
  unfold dc_mul in H. apply d_check_ok in H. subst ip. unfold d_mul. apply chop_round_exact. vm_compute. reflexivity.
Qed.

Lemma d_mul_one_l : forall z, d_mul P18 z = z.
Proof. intros z. unfold d_mul. rewrite Z.mul_comm. apply chop_round_exact. vm_compute. reflexivity. Qed.
