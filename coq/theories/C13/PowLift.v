(* C13 - the error bound of PowApprox on its whole exponent range [0, 1) (series + the exponent-1/2 shortcut), and its lift
   to Pow (osmomath/math.go) for bases 1/2 <= base < 2.  Reals axioms only. *)
From Coq Require Import ZArith Reals Lra Lia Bool.
From Osmo Require Import Base.DecModel C13.Common C13.Pow C13.RoundProofs C13.PowProofs C13.PowBound C13.PowSqrt C13.PowInt Gen.C13_consts.
Open Scope R_scope.

(* PowApprox(base, exp, precision) for 1/2 <= base < 2, 0 <= exp < 1, 0 <= precision <= 1: a returned value is within
   precision + 1e-12 of base^exp *)
Theorem pow_approx_bound_all : forall base exp prec r,
  (P18 <= 2 * base)%Z -> (base < 2 * P18)%Z -> (0 <= exp < P18)%Z -> (0 <= prec <= P18)%Z ->
  pow_approx base exp prec = Ok r ->
  Rabs (dR r - Rpower (dR base) (dR exp)) <= dR prec + / 10 ^ 12.
Proof.
  intros base exp prec r Hb1 Hb2 Hexp Hprec H.
  destruct (Z.eq_dec exp pow_one_half) as [->|Hne].
  - pose proof (pow_approx_half_bound base prec r Hb1 Hb2 H) as HB.
    pose proof (dR_nonneg prec ltac:(lia)).
    assert (5 * u18 <= / 10 ^ 12) by (unfold u18; rewrite T18_val; apply Rmult_le_reg_r with (r := 10 ^ 18); [apply pow_lt; lra|];
      rewrite Rmult_assoc, Rinv_l by (apply pow_nonzero; lra);
      replace (/ 10 ^ 12 * 10 ^ 18) with (10 ^ 6) by (field; apply pow_nonzero; lra); lra).
    lra.
  - apply pow_approx_bound; assumption.
Qed.

(* Pow with an exponent below 1 is PowApprox with the precision 1e-8 (the integer power is exactly 1 and the final product
   exact) *)
Lemma pow_fractional_eq : forall base exp r, (0 < base < 2 * P18)%Z -> (0 <= exp < P18)%Z -> pow base exp = Ok r ->
  pow_approx base exp pow_precision = Ok r.
Proof.
  intros base exp r Hb He H. assert (HP : (0 < P18)%Z) by (vm_compute; reflexivity).
  destruct (pow_decompose base exp r Hb ltac:(lia) H) as (ip & Hip & Hcase).
  rewrite Z.quot_small in Hip by lia. rewrite Z.rem_small in Hcase by lia.
  rewrite dc_power_0 in Hip. inversion Hip; subst ip.
  destruct Hcase as [[-> ->]|(Hf & fp & Hfp & ->)].
  - apply pow_approx_exp_zero. lia.
  - rewrite d_mul_one_l. assumption.
Qed.

Theorem pow_bound_fractional : forall base exp r,
  (P18 <= 2 * base)%Z -> (base < 2 * P18)%Z -> (0 <= exp < P18)%Z -> pow base exp = Ok r ->
  Rabs (dR r - Rpower (dR base) (dR exp)) <= pow_err.
Proof.
  intros base exp r Hb1 Hb2 He H. assert (HP : (0 < P18)%Z) by (vm_compute; reflexivity).
  apply pow_fractional_eq in H; [|lia|assumption].
  apply (pow_approx_bound_all base exp pow_precision r Hb1 Hb2 He pow_precision_range H).
Qed.

(* any non-negative exponent: Pow returns the rounded product of the LegacyDec integer power ip = base.Power(n)
   (n = integer part) and a fractional power within pow_err of base^f (f = fractional part) *)
Theorem pow_bound_product : forall base exp r,
  (P18 <= 2 * base)%Z -> (base < 2 * P18)%Z -> (0 <= exp)%Z -> pow base exp = Ok r ->
  exists ip, dc_power base (Z.quot exp P18) = Ok ip /\
    Rabs (dR r - dR ip * Rpower (dR base) (dR (Z.rem exp P18))) <= Rabs (dR ip) * pow_err + u18 / 2.
Proof.
  intros base exp r Hb1 Hb2 He H. assert (HP : (0 < P18)%Z) by (vm_compute; reflexivity).
  destruct (pow_decompose base exp r ltac:(lia) He H) as (ip & Hip & Hcase).
  exists ip. split; [assumption|].
  pose proof u18_pos as Hu. pose proof (Rabs_pos (dR ip)) as Hi0.
  assert (Herr0 : 0 < pow_err) by (rewrite pow_err_val; assert (0 < 1 / 10 ^ 8) by (apply Rdiv_lt_0_compat; [lra|apply pow_lt; lra]);
                                   assert (0 < 1 / 10 ^ 12) by (apply Rdiv_lt_0_compat; [lra|apply pow_lt; lra]); lra).
  assert (Hbpos : 0 < dR base) by (rewrite dR_eq; apply Rmult_lt_0_compat; [apply IZR_lt; lia|assumption]).
  destruct Hcase as [[-> ->]|(Hf & fp & Hfp & ->)].
  - replace (dR 0) with 0 by (rewrite dR_eq; simpl; ring). rewrite Rpower_O by assumption.
    replace (dR ip - dR ip * 1) with 0 by ring. rewrite Rabs_R0. nra.
  - assert (Hfr : (0 <= Z.rem exp P18 < P18)%Z) by (apply Z.rem_bound_pos; lia).
    pose proof (pow_approx_bound_all base _ pow_precision fp Hb1 Hb2 Hfr pow_precision_range Hfp) as HB. fold pow_err in HB.
    pose proof (dR_mul_err ip fp) as HM.
    set (Pw := Rpower (dR base) (dR (Z.rem exp P18))) in *.
    replace (dR (d_mul ip fp) - dR ip * Pw) with ((dR (d_mul ip fp) - dR ip * dR fp) + dR ip * (dR fp - Pw)) by ring.
    eapply Rle_trans; [apply Rabs_triang|]. rewrite (Rabs_mult (dR ip)).
    pose proof (Rabs_pos (dR fp - Pw)). nra.
Qed.

(* exponents in [1, 2): the integer power is the base itself *)
Theorem pow_bound_one_two : forall base exp r,
  (P18 <= 2 * base)%Z -> (base < 2 * P18)%Z -> (P18 <= exp < 2 * P18)%Z -> pow base exp = Ok r ->
  Rabs (dR r - Rpower (dR base) (dR exp)) <= 2 * pow_err + u18 / 2.
Proof.
  intros base exp r Hb1 Hb2 He H. assert (HP : (0 < P18)%Z) by (vm_compute; reflexivity).
  destruct (pow_bound_product base exp r Hb1 Hb2 ltac:(lia) H) as (ip & Hip & HB).
  assert (Eq : Z.quot exp P18 = 1%Z).
  { pose proof (Z.quot_rem' exp P18). pose proof (Z.rem_bound_pos exp P18 ltac:(lia) HP). nia. }
  rewrite Eq in Hip. apply dc_power_1 in Hip. subst ip.
  assert (Er : Z.rem exp P18 = (exp - P18)%Z) by (pose proof (Z.quot_rem' exp P18); lia).
  rewrite Er in HB.
  assert (Hbpos : 0 < dR base) by (rewrite dR_eq; apply Rmult_lt_0_compat; [apply IZR_lt; lia|apply u18_pos]).
  assert (Hb2' : dR base < 2).
  { replace 2 with (dR (2 * P18)) by (rewrite dR_mul_P18; reflexivity). apply dR_lt. assumption. }
  replace (Rpower (dR base) (dR exp)) with (dR base * Rpower (dR base) (dR (exp - P18))).
  2:{ rewrite <- (Rpower_1 (dR base)) at 1 by assumption. rewrite <- Rpower_plus. f_equal. rewrite dR_sub, dR_P18. ring. }
  rewrite (Rabs_pos_eq (dR base)) in HB by lra.
  assert (0 < pow_err) by (rewrite pow_err_val; assert (0 < 1 / 10 ^ 8) by (apply Rdiv_lt_0_compat; [lra|apply pow_lt; lra]);
                           assert (0 < 1 / 10 ^ 12) by (apply Rdiv_lt_0_compat; [lra|apply pow_lt; lra]); lra).
  nra.
Qed.

(* ---------- any exponent with an integer part up to 2^28 ---------- *)
Lemma Rpower_frac_le : forall b f, 0 < b -> 0 <= f <= 1 -> 0 < Rpower b f <= Rmax 1 b.
Proof.
  intros b f Hb Hf. split; [apply exp_pos|]. unfold Rpower.
  assert (Hmono : forall x y, x <= y -> exp x <= exp y).
  { intros x y [H| ->]; [left; apply exp_increasing; assumption|right; reflexivity]. }
  destruct (Rle_dec 1 b) as [H1|H1].
  - eapply Rle_trans; [|apply Rmax_r]. rewrite <- (exp_ln b) at 2 by assumption. apply Hmono.
    assert (0 <= ln b) by (rewrite <- ln_1; destruct H1 as [H1| <-]; [left; apply ln_increasing; lra|right; reflexivity]). nra.
  - eapply Rle_trans; [|apply Rmax_l]. rewrite <- exp_0. apply Hmono.
    assert (ln b < 0) by (rewrite <- ln_1; apply ln_increasing; lra). nra.
Qed.

Lemma pow_err_range : 0 < pow_err <= 1 / 2.
Proof.
  rewrite pow_err_val. assert (0 < 1 / 10 ^ 8) by (apply Rdiv_lt_0_compat; [lra|apply pow_lt; lra]).
  assert (0 < 1 / 10 ^ 12) by (apply Rdiv_lt_0_compat; [lra|apply pow_lt; lra]). lra.
Qed.

(* Pow(base, exp) for 1/2 <= base < 2 and 0 <= exp with integer part n <= 2^28:
   |Pow - base^exp| <= max(1, base)^n * (1e-8 + 1e-12 + 5 n ulp) + 1/2 ulp *)
Theorem pow_bound_full : forall base exp r,
  (P18 <= 2 * base)%Z -> (base < 2 * P18)%Z -> (0 <= exp)%Z -> (Z.quot exp P18 <= n_max)%Z -> pow base exp = Ok r ->
  let n := Z.to_nat (Z.quot exp P18) in
  Rabs (dR r - Rpower (dR base) (dR exp)) <= Rmax 1 (dR base) ^ n * (pow_err + 5 * INR n * u18) + u18 / 2.
Proof.
  intros base exp r Hb1 Hb2 He Hq H n. assert (HP : (0 < P18)%Z) by (vm_compute; reflexivity).
  destruct (pow_bound_product base exp r Hb1 Hb2 He H) as (ip & Hip & HB).
  set (q := Z.quot exp P18) in *. set (f := Z.rem exp P18) in *.
  assert (Hq0 : (0 <= q)%Z) by (apply Z.quot_pos; lia).
  assert (Hf : (0 <= f < P18)%Z) by (apply Z.rem_bound_pos; lia).
  assert (Eexp : exp = (q * P18 + f)%Z) by (unfold q, f; pose proof (Z.quot_rem' exp P18); lia).
  pose proof u18_pos as Hu. pose proof pow_err_range as Herr.
  assert (Hbpos : 0 < dR base) by (rewrite dR_eq; apply Rmult_lt_0_compat; [apply IZR_lt; lia|assumption]).
  assert (Hb2' : dR base < 2).
  { replace 2 with (dR (2 * P18)) by (rewrite dR_mul_P18; reflexivity). apply dR_lt. assumption. }
  set (b := dR base) in *. set (M := Rmax 1 b).
  assert (HM : 1 <= M <= 2) by (split; [apply Rmax_l|apply Rmax_lub; lra]).
  assert (Hfr : 0 <= dR f <= 1).
  { split; [apply dR_nonneg; lia|]. rewrite <- dR_P18. apply dR_le. lia. }
  pose proof (Rpower_frac_le b (dR f) Hbpos Hfr) as HPf. fold M in HPf.
  set (Pf := Rpower b (dR f)) in *.
  assert (EP : Rpower b (dR exp) = b ^ n * Pf).
  { rewrite Eexp, dR_add, dR_mul_P18, Rpower_plus. f_equal.
    rewrite <- Rpower_pow by assumption. f_equal. unfold n. rewrite INR_IZR_INZ, Z2Nat.id by assumption. reflexivity. }
  rewrite EP.
  assert (HMn : 1 <= M ^ n) by (apply pow_R1_Rle; lra).
  assert (HnR : 0 <= INR n) by apply pos_INR.
  assert (Hipb : Rabs (dR ip - b ^ n) <= 2 * INR n * M ^ n * u18).
  { destruct (Z.eq_dec q 0) as [E0|E0].
    - rewrite E0 in Hip. rewrite dc_power_0 in Hip. inversion Hip; subst ip. unfold n. rewrite E0. simpl Z.to_nat.
      rewrite dR_P18, pow_O. replace (1 - 1) with 0 by ring. rewrite Rabs_R0. simpl INR. lra.
    - pose proof (dc_power_bound base ltac:(lia) q ltac:(lia) ip Hip) as HBp. fold b in HBp. fold M in HBp. fold n in HBp.
      replace (IZR q) with (INR n) in HBp by (unfold n; rewrite INR_IZR_INZ, Z2Nat.id by assumption; reflexivity).
      exact HBp. }
  assert (Hbn : 0 <= b ^ n <= M ^ n).
  { split; [left; apply pow_lt; assumption|]. apply pow_incr. split; [lra|apply Rmax_r]. }
  assert (Hipabs : Rabs (dR ip) <= M ^ n * (1 + 2 * INR n * u18)).
  { replace (dR ip) with (b ^ n + (dR ip - b ^ n)) by ring. eapply Rle_trans; [apply Rabs_triang|].
    rewrite (Rabs_pos_eq (b ^ n)) by lra. nra. }
  replace (dR r - b ^ n * Pf) with ((dR r - dR ip * Pf) + (dR ip - b ^ n) * Pf) by ring.
  eapply Rle_trans; [apply Rabs_triang|]. rewrite (Rabs_mult (dR ip - b ^ n)), (Rabs_pos_eq Pf) by lra.
  pose proof (Rabs_pos (dR ip - b ^ n)) as Hd0. pose proof (Rabs_pos (dR ip)) as Hi0.
  assert (T1 : Rabs (dR ip) * pow_err <= M ^ n * (1 + 2 * INR n * u18) * pow_err) by (apply Rmult_le_compat_r; lra).
  assert (T2 : Rabs (dR ip - b ^ n) * Pf <= 2 * INR n * M ^ n * u18 * 2).
  { apply Rmult_le_compat; try lra. }
  assert (T3 : 2 * INR n * u18 * pow_err <= INR n * u18).
  { assert (0 <= INR n * u18) by (apply Rmult_le_pos; lra). nra. }
  assert (T4 : M ^ n * (1 + 2 * INR n * u18) * pow_err + 2 * INR n * M ^ n * u18 * 2
               <= M ^ n * (pow_err + 5 * INR n * u18)).
  { replace (M ^ n * (1 + 2 * INR n * u18) * pow_err + 2 * INR n * M ^ n * u18 * 2)
      with (M ^ n * (pow_err + 2 * INR n * u18 * pow_err + 4 * INR n * u18)) by ring.
    apply Rmult_le_compat_l; lra. }
  lra.
Qed.
