(* C13 - the error bound of PowApprox on its whole exponent range [0, 1) (series + the exponent-1/2 shortcut), and its lift
   to Pow (osmomath/math.go) for bases 1/2 <= base < 2.  Reals axioms only. *)
From Coq Require Import ZArith Reals Lra Lia Bool.
From Osmo Require Import Base.DecModel C13.Common C13.Pow C13.RoundProofs C13.PowProofs C13.PowBound C13.PowSqrt Gen.C13_consts.
Open Scope R_scope.

(* PowApprox(base, exp, precision) for 1/2 <= base < 2, 0 <= exp < 1, 0 <= precision <= 1: a returned value is within
   precision + 1e-12 of base^exp *)
Theorem pow_approx_bound_all : forall base exp prec r,
  (P18 <= 2 * base)%Z -> (base < 2 * P18)%Z -> (0 <= exp < P18)%Z -> (0 <= prec <= P18)%Z ->
  pow_approx base exp prec = Ok r ->
  Rabs (dR r - Rpower (dR base) (dR exp)) <= dR prec + / 10 ^ 12.
Proof.
  intros base exp prec r Hb1 Hb2 Hexp Hprec H.
  destruct (Z.eq_dec exp pow_one_half) as [->|Hne].
  - pose proof (pow_approx_half_bound base prec r Hb1 Hb2 H) as HB.
    pose proof (dR_nonneg prec ltac:(lia)).
    assert (5 * u18 <= / 10 ^ 12) by (unfold u18; rewrite T18_val; apply Rmult_le_reg_r with (r := 10 ^ 18); [apply pow_lt; lra|];
      rewrite Rmult_assoc, Rinv_l by (apply pow_nonzero; lra);
      replace (/ 10 ^ 12 * 10 ^ 18) with (10 ^ 6) by (field; apply pow_nonzero; lra); lra).
    lra.
  - apply pow_approx_bound; assumption.
Qed.

(* Pow with an exponent below 1 is PowApprox with the precision 1e-8 (the integer power is exactly 1 and the final product
   exact) *)
Lemma pow_fractional_eq : forall base exp r, (0 < base < 2 * P18)%Z -> (0 <= exp < P18)%Z -> pow base exp = Ok r ->
  pow_approx base exp pow_precision = Ok r.
Proof.
  intros base exp r Hb He H. assert (HP : (0 < P18)%Z) by (vm_compute; reflexivity).
  destruct (pow_decompose base exp r Hb ltac:(lia) H) as (ip & Hip & Hcase).
  rewrite Z.quot_small in Hip by lia. rewrite Z.rem_small in Hcase by lia.
  rewrite dc_power_0 in Hip. inversion Hip; subst ip.
  destruct Hcase as [[-> ->]|(Hf & fp & Hfp & ->)].
  - apply pow_approx_exp_zero. lia.
  - rewrite d_mul_one_l. assumption.
Qed.

Theorem pow_bound_fractional : forall base exp r,
  (P18 <= 2 * base)%Z -> (base < 2 * P18)%Z -> (0 <= exp < P18)%Z -> pow base exp = Ok r ->
  Rabs (dR r - Rpower (dR base) (dR exp)) <= pow_err.
Proof.
  intros base exp r Hb1 Hb2 He H. assert (HP : (0 < P18)%Z) by (vm_compute; reflexivity).
  apply pow_fractional_eq in H; [|lia|assumption].
  apply (pow_approx_bound_all base exp pow_precision r Hb1 Hb2 He pow_precision_range H).
Qed.

(* any non-negative exponent: Pow returns the rounded product of the LegacyDec integer power ip = base.Power(n)
   (n = integer part) and a fractional power within pow_err of base^f (f = fractional part) *)
Theorem pow_bound_product : forall base exp r,
  (P18 <= 2 * base)%Z -> (base < 2 * P18)%Z -> (0 <= exp)%Z -> pow base exp = Ok r ->
  exists ip, dc_power base (Z.quot exp P18) = Ok ip /\
    Rabs (dR r - dR ip * Rpower (dR base) (dR (Z.rem exp P18))) <= Rabs (dR ip) * pow_err + u18 / 2.
Proof.
  intros base exp r Hb1 Hb2 He H. assert (HP : (0 < P18)%Z) by (vm_compute; reflexivity).
  destruct (pow_decompose base exp r ltac:(lia) He H) as (ip & Hip & Hcase).
  exists ip. split; [assumption|].
  pose proof u18_pos as Hu. pose proof (Rabs_pos (dR ip)) as Hi0.
  assert (Herr0 : 0 < pow_err) by (rewrite pow_err_val; assert (0 < 1 / 10 ^ 8) by (apply Rdiv_lt_0_compat; [lra|apply pow_lt; lra]);
                                   assert (0 < 1 / 10 ^ 12) by (apply Rdiv_lt_0_compat; [lra|apply pow_lt; lra]); lra).
  assert (Hbpos : 0 < dR base) by (rewrite dR_eq; apply Rmult_lt_0_compat; [apply IZR_lt; lia|assumption]).
  destruct Hcase as [[-> ->]|(Hf & fp & Hfp & ->)].
  - replace (dR 0) with 0 by (rewrite dR_eq; simpl; ring). rewrite Rpower_O by assumption.
    replace (dR ip - dR ip * 1) with 0 by ring. rewrite Rabs_R0. nra.
  - assert (Hfr : (0 <= Z.rem exp P18 < P18)%Z) by (apply Z.rem_bound_pos; lia).
    pose proof (pow_approx_bound_all base _ pow_precision fp Hb1 Hb2 Hfr pow_precision_range Hfp) as HB. fold pow_err in HB.
    pose proof (dR_mul_err ip fp) as HM.
    set (Pw := Rpower (dR base) (dR (Z.rem exp P18))) in *.
    replace (dR (d_mul ip fp) - dR ip * Pw) with ((dR (d_mul ip fp) - dR ip * dR fp) + dR ip * (dR fp - Pw)) by ring.
    eapply Rle_trans; [apply Rabs_triang|]. rewrite (Rabs_mult (dR ip)).
    pose proof (Rabs_pos (dR fp - Pw)). nra.
Qed.

(* exponents in [1, 2): the integer power is the base itself *)
Theorem pow_bound_one_two : forall base exp r,
  (P18 <= 2 * base)%Z -> (base < 2 * P18)%Z -> (P18 <= exp < 2 * P18)%Z -> pow base exp = Ok r ->
  Rabs (dR r - Rpower (dR base) (dR exp)) <= 2 * pow_err + u18 / 2.
Proof.
  intros base exp r Hb1 Hb2 He H. assert (HP : (0 < P18)%Z) by (vm_compute; reflexivity).
  destruct (pow_bound_product base exp r Hb1 Hb2 ltac:(lia) H) as (ip & Hip & HB).
  assert (Eq : Z.quot exp P18 = 1%Z).
  { pose proof (Z.quot_rem' exp P18). pose proof (Z.rem_bound_pos exp P18 ltac:(lia) HP). nia. }
  rewrite Eq in Hip. apply dc_power_1 in Hip. subst ip.
  assert (Er : Z.rem exp P18 = (exp - P18)%Z) by (pose proof (Z.quot_rem' exp P18); lia).
  rewrite Er in HB.
  assert (Hbpos : 0 < dR base) by (rewrite dR_eq; apply Rmult_lt_0_compat; [apply IZR_lt; lia|apply u18_pos]).
  assert (Hb2' : dR base < 2).
  { replace 2 with (dR (2 * P18)) by (rewrite dR_mul_P18; reflexivity). apply dR_lt. assumption. }
  replace (Rpower (dR base) (dR exp)) with (dR base * Rpower (dR base) (dR (exp - P18))).
  2:{ rewrite <- (Rpower_1 (dR base)) at 1 by assumption. rewrite <- Rpower_plus. f_equal. rewrite dR_sub, dR_P18. ring. }
  rewrite (Rabs_pos_eq (dR base)) in HB by lra.
  assert (0 < pow_err) by (rewrite pow_err_val; assert (0 < 1 / 10 ^ 8) by (apply Rdiv_lt_0_compat; [lra|apply pow_lt; lra]);
                           assert (0 < 1 / 10 ^ 12) by (apply Rdiv_lt_0_compat; [lra|apply pow_lt; lra]); lra).
  nra.
Qed.
